/-
Robustness of the snapping functions of the geometry kernel model: where they are continuous (1-Lipschitz in
the sup norm on each branch; the branch is locally constant away from an explicit tie set) and where they jump.

* Manhattan: `snapManhattan_lipschitz` (same axis, same zone ⇒ 1-Lipschitz), `closestaxis_stable` (the axis is
  locally constant away from `|d.x| = |d.y|`), `snapManhattan_jump_at_border` (a point on the bottom border line
  and the same point moved outward by any `ε > 0` give results half a width apart).
* tree: `snapTree_lipschitz`, `treeBottom_stable` (the verdict is locally constant away from `d.y = 0`),
  `snapTree_jump_at_horizontal` (direction `(dx, 0)` against `(dx, ε)`: a full height apart).
* oblique: `lineIntersect_on_lines`, `snapOblique_collinear` (the result is on the line source–point),
  `hlineX_perturb`/`hlineX_lipschitz`, `vlineY_perturb`/`vlineY_lipschitz` (perturbation identity and bound for
  the closed forms), `snapOblique_hlineX`/`snapOblique_vlineY` (the closed forms are what the model computes),
  `snapObliqueLit_on_border`/`snapObliqueLit_jump_outside` (the jump at the containment boundary).

`snapObliqueLit_jump_outside` carries the hypothesis `ε ≠ 3`: at `ε = 3` the moved point *is* the source and the
literal model answers `noDirection` (`snapObliqueLit_jump_source`).
-/
import Capella.Model.GeomRobust
import Capella.Lemmas.GeomSnap

namespace Capella.Geom

/-! ### `rabs`, `distInf` -/

theorem rabs_nonneg (a : Rat) : 0 ≤ rabs a := by
  unfold rabs; split_ifs <;> linarith

theorem rabs_cases (a : Rat) : (0 ≤ a ∧ rabs a = a) ∨ (a < 0 ∧ rabs a = -a) := by
  unfold rabs; split_ifs with h
  · exact Or.inl ⟨h, rfl⟩
  · exact Or.inr ⟨lt_of_not_ge h, rfl⟩

theorem rabs_zero : rabs 0 = 0 := by unfold rabs; simp

theorem rabs_neg (a : Rat) : rabs (-a) = rabs a := by
  rcases rabs_cases a with ⟨h, e⟩ | ⟨h, e⟩ <;> rcases rabs_cases (-a) with ⟨h', e'⟩ | ⟨h', e'⟩ <;>
    rw [e, e'] <;> linarith

theorem le_rabs (a : Rat) : a ≤ rabs a := by
  rcases rabs_cases a with ⟨h, e⟩ | ⟨h, e⟩ <;> linarith

theorem neg_le_rabs (a : Rat) : -a ≤ rabs a := by
  rcases rabs_cases a with ⟨h, e⟩ | ⟨h, e⟩ <;> linarith

theorem rabs_le_of (a c : Rat) (h1 : a ≤ c) (h2 : -a ≤ c) : rabs a ≤ c := by
  rcases rabs_cases a with ⟨h, e⟩ | ⟨h, e⟩ <;> rw [e] <;> assumption

theorem rabs_mul (a b : Rat) : rabs (a * b) = rabs a * rabs b := by
  rcases rabs_cases a with ⟨ha, ea⟩ | ⟨ha, ea⟩ <;> rcases rabs_cases b with ⟨hb, eb⟩ | ⟨hb, eb⟩ <;>
    rcases rabs_cases (a * b) with ⟨hab, eab⟩ | ⟨hab, eab⟩ <;> rw [ea, eb, eab] <;> nlinarith

theorem rabs_add_le (a b : Rat) : rabs (a + b) ≤ rabs a + rabs b :=
  rabs_le_of _ _ (by linarith [le_rabs a, le_rabs b]) (by linarith [neg_le_rabs a, neg_le_rabs b])

theorem rabs_sub_le (a b : Rat) : rabs (a - b) ≤ rabs a + rabs b :=
  rabs_le_of _ _ (by linarith [le_rabs a, neg_le_rabs b]) (by linarith [neg_le_rabs a, le_rabs b])

theorem le_distInf_x (a b : V2) : rabs (a.x - b.x) ≤ distInf a b := le_max_left _ _
theorem le_distInf_y (a b : V2) : rabs (a.y - b.y) ≤ distInf a b := le_max_right _ _
theorem distInf_nonneg (a b : V2) : 0 ≤ distInf a b := le_trans (rabs_nonneg _) (le_distInf_x a b)
theorem distInf_self (a : V2) : distInf a a = 0 := by simp [distInf, rabs_zero]
theorem distInf_le (a b : V2) (c : Rat) (hx : rabs (a.x - b.x) ≤ c) (hy : rabs (a.y - b.y) ≤ c) :
    distInf a b ≤ c := max_le hx hy


/-! ### Manhattan -/

theorem zone_below {lo hi v : Rat} : zone lo hi v = .below ↔ v < lo := by
  unfold zone; split_ifs <;> simp [*]
theorem zone_above {lo hi v : Rat} : zone lo hi v = .above ↔ ¬ v < lo ∧ hi < v := by
  unfold zone; split_ifs <;> simp [*]

/-- (M1) with the same axis and the point in the same zone of the range the code compares against,
`__vector_snap_manhattan` is 1-Lipschitz in the point (sup norm) -/
theorem snapManhattan_lipschitz (b : Box) (p p' d d' q q' : V2) (hax : closestaxis d = closestaxis d')
    (hz : manhattanZone b (closestaxis d) p = manhattanZone b (closestaxis d) p')
    (h : snapManhattan b p d = .ok q) (h' : snapManhattan b p' d' = .ok q') : distInf q q' ≤ distInf p p' := by
  unfold snapManhattan at h h'
  rw [← hax] at h'
  generalize closestaxis d = ax at *
  simp only at h h'
  unfold manhattanZone at hz
  by_cases hx : ax.x ≠ 0
  · simp only [if_pos hx] at hz
    rw [if_pos hx] at h h'
    have hb : (p.y < b.pos.y ↔ p'.y < b.pos.y) := by rw [← zone_below, ← zone_below, hz]
    have ha : (¬ p.y < b.pos.y ∧ b.pos.y + b.size.y < p.y ↔ ¬ p'.y < b.pos.y ∧ b.pos.y + b.size.y < p'.y) := by
      rw [← zone_above, ← zone_above, hz]
    by_cases h1 : p.y < b.pos.y
    · rw [if_pos h1] at h; rw [if_pos (hb.mp h1)] at h'
      cases h; cases h'; rw [distInf_self]; exact distInf_nonneg _ _
    · have h1' : ¬ p'.y < b.pos.y := fun c => h1 (hb.mpr c)
      rw [if_neg h1] at h; rw [if_neg h1'] at h'
      by_cases h2 : b.pos.y + b.size.y < p.y
      · rw [if_pos h2] at h; rw [if_pos (ha.mp ⟨h1, h2⟩).2] at h'
        cases h; cases h'; rw [distInf_self]; exact distInf_nonneg _ _
      · have h2' : ¬ b.pos.y + b.size.y < p'.y := fun c => h2 (ha.mpr ⟨h1', c⟩).2
        rw [if_neg h2] at h; rw [if_neg h2'] at h'
        by_cases hp : b.port
        · rw [if_pos hp] at h h'
          cases h; cases h'; rw [distInf_self]; exact distInf_nonneg _ _
        · rw [if_neg hp] at h h'
          cases h; cases h'
          apply distInf_le
          · simp only [sub_self, rabs_zero]; exact distInf_nonneg _ _
          · exact le_distInf_y p p'
  · simp only [if_neg hx] at hz
    rw [if_neg hx] at h h'
    by_cases hy : ax.y ≠ 0
    · rw [if_pos hy] at h h'
      have hb : (p.x < b.pos.x ↔ p'.x < b.pos.x) := by rw [← zone_below, ← zone_below, hz]
      have ha : (¬ p.x < b.pos.x ∧ b.pos.x + b.size.x < p.x ↔ ¬ p'.x < b.pos.x ∧ b.pos.x + b.size.x < p'.x) := by
        rw [← zone_above, ← zone_above, hz]
      by_cases h1 : p.x < b.pos.x
      · rw [if_pos h1] at h; rw [if_pos (hb.mp h1)] at h'
        cases h; cases h'; rw [distInf_self]; exact distInf_nonneg _ _
      · have h1' : ¬ p'.x < b.pos.x := fun c => h1 (hb.mpr c)
        rw [if_neg h1] at h; rw [if_neg h1'] at h'
        by_cases h2 : b.pos.x + b.size.x < p.x
        · rw [if_pos h2] at h; rw [if_pos (ha.mp ⟨h1, h2⟩).2] at h'
          cases h; cases h'; rw [distInf_self]; exact distInf_nonneg _ _
        · have h2' : ¬ b.pos.x + b.size.x < p'.x := fun c => h2 (ha.mpr ⟨h1', c⟩).2
          rw [if_neg h2] at h; rw [if_neg h2'] at h'
          by_cases hp : b.port
          · rw [if_pos hp] at h h'
            cases h; cases h'; rw [distInf_self]; exact distInf_nonneg _ _
          · rw [if_neg hp] at h h'
            cases h; cases h'
            apply distInf_le
            · exact le_distInf_x p p'
            · simp only [sub_self, rabs_zero]; exact distInf_nonneg _ _
    · rw [if_neg hy] at h; cases h

theorem sgn1_of_pos {r : Rat} (h : 0 < r) : sgn1 r = 1 := by unfold sgn1; rw [if_pos (le_of_lt h)]
theorem sgn1_of_neg {r : Rat} (h : r < 0) : sgn1 r = -1 := by unfold sgn1; rw [if_neg (not_le.mpr h)]

/-- a perturbation smaller than `|a|` keeps the sign `sgn1 a` -/
theorem sgn1_stable (a e : Rat) (h : rabs e < rabs a) : sgn1 (a + e) = sgn1 a := by
  rcases rabs_cases a with ⟨ha, ea⟩ | ⟨ha, ea⟩
  · rw [ea] at h
    have hpos : 0 < a := lt_of_le_of_lt (rabs_nonneg e) h
    rw [sgn1_of_pos hpos, sgn1_of_pos (by linarith [neg_le_rabs e])]
  · rw [ea] at h
    rw [sgn1_of_neg ha, sgn1_of_neg (by linarith [le_rabs e])]

theorem rabs_sub_rabs_le (a e : Rat) : rabs a - rabs e ≤ rabs (a + e) := by
  have := rabs_sub_le (a + e) e
  have h2 : a + e - e = a := by ring
  rw [h2] at this; linarith

/-- (M2) `closestaxis` is locally constant away from the tie `|d.x| = |d.y|` -/
theorem closestaxis_stable (d e : V2) (h : rabs e.x + rabs e.y < rabs (rabs d.x - rabs d.y)) :
    closestaxis (d + e) = closestaxis d := by
  have hex := rabs_nonneg e.x
  have hey := rabs_nonneg e.y
  have hx1 := rabs_sub_rabs_le d.x e.x
  have hy1 := rabs_sub_rabs_le d.y e.y
  have hx2 := rabs_add_le d.x e.x
  have hy2 := rabs_add_le d.y e.y
  unfold closestaxis
  simp only [V2.add_x, V2.add_y]
  rcases rabs_cases (rabs d.x - rabs d.y) with ⟨hc, ec⟩ | ⟨hc, ec⟩
  · rw [ec] at h
    rw [if_pos (by linarith), if_pos (by linarith), sgn1_stable d.x e.x (by linarith [rabs_nonneg d.y])]
  · rw [ec] at h
    rw [if_neg (by linarith), if_neg (by linarith), sgn1_stable d.y e.y (by linarith [rabs_nonneg d.x])]

/-- (M3) the jump at the range boundary: non-port box, horizontal axis, a point exactly on the bottom border
line and the same point moved outward by any `ε > 0`: the results are half a width apart -/
theorem snapManhattan_jump_at_border (b : Box) (hp : b.port = false) (hw : 0 ≤ b.size.x) (hh : 0 ≤ b.size.y) (d p : V2)
    (hax : (closestaxis d).x ≠ 0) (hy : p.y = b.pos.y + b.size.y) (ε : Rat) (hε : 0 < ε) :
    ∃ q q', snapManhattan b p d = .ok q ∧ snapManhattan b ⟨p.x, p.y + ε⟩ d = .ok q' ∧
      rabs (q.x - q'.x) = b.size.x / 2 ∧ q.y = q'.y := by
  have e1 : snapManhattan b p d = .ok ⟨b.pos.x + b.size.x * b2r ((closestaxis d).x < 0), p.y⟩ := by
    unfold snapManhattan
    simp only [if_pos hax, hp]
    rw [if_neg (by linarith), if_neg (by linarith)]
    simp
  have e2 : snapManhattan b ⟨p.x, p.y + ε⟩ d = .ok (b.pos + b.size.had ⟨1/2, 1⟩) := by
    unfold snapManhattan
    simp only [if_pos hax]
    rw [if_neg (by linarith), if_pos (by linarith)]
  rw [e1, e2]
  refine ⟨_, _, rfl, rfl, ?_, ?_⟩
  · simp only [V2.had, V2.add_x]
    rcases b2r_cases (decide ((closestaxis d).x < 0)) with hb | hb <;> rw [hb]
    · have : b.pos.x + b.size.x * 0 - (b.pos.x + b.size.x * (1 / 2)) = -(b.size.x / 2) := by ring
      rw [this, rabs_neg]
      rcases rabs_cases (b.size.x / 2) with ⟨_, e⟩ | ⟨c, _⟩
      · exact e
      · linarith
    · have : b.pos.x + b.size.x * 1 - (b.pos.x + b.size.x * (1 / 2)) = b.size.x / 2 := by ring
      rw [this]
      rcases rabs_cases (b.size.x / 2) with ⟨_, e⟩ | ⟨c, _⟩
      · exact e
      · linarith
  · simp only [V2.had, V2.add_y]; rw [hy]; ring

/-! ### tree -/

/-- (T1) with a direction and the same top/bottom verdict, `__vector_snap_tree` is 1-Lipschitz in the point -/
theorem snapTree_lipschitz (b : Box) (p p' d d' : V2) (hd : d ≠ ⟨0, 0⟩) (hd' : d' ≠ ⟨0, 0⟩)
    (hc : treeBottom b p d ↔ treeBottom b p' d') : distInf (snapTree b p d) (snapTree b p' d') ≤ distInf p p' := by
  unfold snapTree
  rw [if_neg hd, if_neg hd']
  by_cases hp : b.port
  · rw [if_pos hp, if_pos hp]
    by_cases ht : treeBottom b p d
    · rw [if_pos ht, if_pos (hc.mp ht), distInf_self]; exact distInf_nonneg _ _
    · rw [if_neg ht, if_neg (fun c => ht (hc.mpr c)), distInf_self]; exact distInf_nonneg _ _
  · rw [if_neg hp, if_neg hp]
    by_cases ht : treeBottom b p d
    · rw [if_pos ht, if_pos (hc.mp ht)]
      apply distInf_le
      · exact le_distInf_x p p'
      · simp only [sub_self, rabs_zero]; exact distInf_nonneg _ _
    · rw [if_neg ht, if_neg (fun c => ht (hc.mpr c))]
      apply distInf_le
      · exact le_distInf_x p p'
      · simp only [sub_self, rabs_zero]; exact distInf_nonneg _ _

/-- (T2) the top/bottom verdict is locally constant away from `d.y = 0` (and does not depend on the point there) -/
theorem treeBottom_stable (b : Box) (p p' d e : V2) (h : rabs e.y < rabs d.y) :
    treeBottom b p' (d + e) ↔ treeBottom b p d := by
  unfold treeBottom
  simp only [V2.add_y]
  have h1 := le_rabs e.y
  have h2 := neg_le_rabs e.y
  rcases rabs_cases d.y with ⟨hd, ed⟩ | ⟨hd, ed⟩ <;> rw [ed] at h
  · constructor
    · rintro (c | ⟨c, _⟩) <;> exfalso <;> linarith
    · rintro (c | ⟨c, _⟩) <;> exfalso <;> linarith
  · exact ⟨fun _ => Or.inl hd, fun _ => Or.inl (by linarith)⟩

/-- (T3) the jump at `d.y = 0`: non-port box, point not on the top line, direction `(dx, 0)` against `(dx, ε)` for
any `ε > 0`: the results are a full height apart in `y` and agree in `x` -/
theorem snapTree_jump_at_horizontal (b : Box) (hp : b.port = false) (p : V2) (hy : p.y ≠ b.pos.y)
    (dx : Rat) (hdx : dx ≠ 0) (ε : Rat) (hε : 0 < ε) :
    (snapTree b p ⟨dx, 0⟩).y - (snapTree b p ⟨dx, ε⟩).y = b.size.y ∧
      (snapTree b p ⟨dx, 0⟩).x = (snapTree b p ⟨dx, ε⟩).x := by
  have hd0 : (⟨dx, 0⟩ : V2) ≠ ⟨0, 0⟩ := by
    intro c; exact hdx (congrArg V2.x c)
  have hd1 : (⟨dx, ε⟩ : V2) ≠ ⟨0, 0⟩ := by
    intro c; exact hdx (congrArg V2.x c)
  have t0 : treeBottom b p ⟨dx, 0⟩ := by
    unfold treeBottom; right; exact ⟨rfl, hy⟩
  have t1 : ¬ treeBottom b p ⟨dx, ε⟩ := by
    rintro (c | ⟨c, _⟩)
    · exact absurd c (not_lt.mpr (le_of_lt hε))
    · exact absurd c (ne_of_gt hε)
  unfold snapTree
  rw [if_neg hd0, if_neg hd1, hp]
  simp only [Bool.false_eq_true, if_false, if_pos t0, if_neg t1]
  exact ⟨by ring, trivial⟩


/-! ### oblique -/

/-- (O1) the intersection point lies on both lines -/
theorem lineIntersect_on_lines (p1 p2 p3 p4 q : V2) (h : lineIntersect p1 p2 p3 p4 = .ok q) :
    cross2 (q - p1) (p2 - p1) = 0 ∧ cross2 (q - p3) (p4 - p3) = 0 := by
  unfold lineIntersect at h
  simp only at h
  split_ifs at h with hden
  cases h
  simp only [cross2, V2.sub_x, V2.sub_y]
  constructor
  · field_simp; ring
  · field_simp; ring

theorem hitH_mem (b1 b2 s p q : V2) (h : q ∈ hitH b1 b2 s p) : cross2 (q - s) (p - s) = 0 := by
  unfold hitH at h
  split at h
  · rename_i r hr
    split_ifs at h
    · rw [List.mem_singleton] at h; subst h
      exact (lineIntersect_on_lines _ _ _ _ _ hr).2
    · exact absurd h List.not_mem_nil
  · exact absurd h List.not_mem_nil

theorem hitV_mem (b1 b2 s p q : V2) (h : q ∈ hitV b1 b2 s p) : cross2 (q - s) (p - s) = 0 := by
  unfold hitV at h
  split at h
  · rename_i r hr
    split_ifs at h
    · rw [List.mem_singleton] at h; subst h
      exact (lineIntersect_on_lines _ _ _ _ _ hr).2
    · exact absurd h List.not_mem_nil
  · exact absurd h List.not_mem_nil

theorem obliqueHits_mem (b : Box) (s p q : V2) (h : q ∈ obliqueHits b s p) : cross2 (q - s) (p - s) = 0 := by
  unfold obliqueHits at h
  simp only [List.mem_append] at h
  rcases h with ((h | h) | h) | h <;> split_ifs at h
  · exact hitH_mem _ _ _ _ _ h
  · exact absurd h List.not_mem_nil
  · exact hitV_mem _ _ _ _ _ h
  · exact absurd h List.not_mem_nil
  · exact hitV_mem _ _ _ _ _ h
  · exact absurd h List.not_mem_nil
  · exact hitH_mem _ _ _ _ _ h
  · exact absurd h List.not_mem_nil

theorem pickHit_mem (l : List V2) (q : V2) (h : pickHit l = .ok q) : q ∈ l := by
  cases l with
  | nil => simp [pickHit] at h
  | cons a rest =>
    simp only [pickHit] at h
    split_ifs at h
    cases h
    exact List.mem_cons_self

theorem snapOblique_inBox (b : Box) (p s : V2) (hin : inBox b p) (hne : p ≠ s) :
    snapOblique b p s = pickHit (obliqueHits b s p) := by
  unfold snapOblique
  simp only [if_pos hin, if_neg hne]

/-- (O1) the oblique snap of a point of the box lies on the line through source and point -/
theorem snapOblique_collinear (b : Box) (p s q : V2) (hin : inBox b p) (hne : p ≠ s)
    (h : snapOblique b p s = .ok q) : cross2 (q - s) (p - s) = 0 := by
  rw [snapOblique_inBox b p s hin hne] at h
  exact obliqueHits_mem b s p q (pickHit_mem _ _ h)

theorem hlineX_eq (s p : V2) (Y : Rat) (h : p.y ≠ s.y) :
    hlineX s p Y = s.x + (Y - s.y) * (p.x - s.x) / (p.y - s.y) := by
  have h0 : p.y - s.y ≠ 0 := sub_ne_zero.mpr h
  unfold hlineX; field_simp; ring

theorem vlineY_eq (s p : V2) (X : Rat) (h : p.x ≠ s.x) :
    vlineY s p X = s.y + (X - s.x) * (p.y - s.y) / (p.x - s.x) := by
  have h0 : p.x - s.x ≠ 0 := sub_ne_zero.mpr h
  unfold vlineY; field_simp; ring

/-- (O2) perturbation identity on a horizontal border: bilinear in the perturbation, over `dy * dy'` -/
theorem hlineX_perturb (s p p' : V2) (Y : Rat) (h : p.y ≠ s.y) (h' : p'.y ≠ s.y) :
    (hlineX s p Y - hlineX s p' Y) * ((p.y - s.y) * (p'.y - s.y)) =
      (Y - s.y) * ((p.x - s.x) * (p'.y - p.y) - (p'.x - p.x) * (p.y - s.y)) := by
  have h0 : p.y - s.y ≠ 0 := sub_ne_zero.mpr h
  have h0' : p'.y - s.y ≠ 0 := sub_ne_zero.mpr h'
  rw [hlineX_eq s p Y h, hlineX_eq s p' Y h']
  field_simp; ring

theorem vlineY_perturb (s p p' : V2) (X : Rat) (h : p.x ≠ s.x) (h' : p'.x ≠ s.x) :
    (vlineY s p X - vlineY s p' X) * ((p.x - s.x) * (p'.x - s.x)) =
      (X - s.x) * ((p.y - s.y) * (p'.x - p.x) - (p'.y - p.y) * (p.x - s.x)) := by
  have h0 : p.x - s.x ≠ 0 := sub_ne_zero.mpr h
  have h0' : p'.x - s.x ≠ 0 := sub_ne_zero.mpr h'
  rw [vlineY_eq s p X h, vlineY_eq s p' X h']
  field_simp; ring

theorem ne_of_lt_rabs_sub {a b m : Rat} (hm : 0 < m) (h : m ≤ rabs (a - b)) : a ≠ b := by
  intro c; rw [c, sub_self, rabs_zero] at h; linarith

/-- the common bound: `|D| * (|c| * |c'|) = |k| * |a * δ₂ - δ₁ * c|`, `m ≤ |c|, |c'|`, `|δᵢ| ≤ ε` -/
theorem perturb_bound (D c c' k a δ1 δ2 m ε : Rat) (hm : 0 < m) (hc : m ≤ rabs c) (hc' : m ≤ rabs c')
    (h1 : rabs δ1 ≤ ε) (h2 : rabs δ2 ≤ ε) (hid : D * (c * c') = k * (a * δ2 - δ1 * c)) :
    rabs D * (m * m) ≤ rabs k * (rabs a + rabs c) * ε := by
  have hD := rabs_nonneg D
  have hk := rabs_nonneg k
  have ha := rabs_nonneg a
  have hcn := rabs_nonneg c
  have e1 : rabs D * (rabs c * rabs c') = rabs k * rabs (a * δ2 - δ1 * c) := by
    rw [← rabs_mul, ← rabs_mul, ← rabs_mul, hid]
  have e2 : rabs (a * δ2 - δ1 * c) ≤ (rabs a + rabs c) * ε := by
    have := rabs_sub_le (a * δ2) (δ1 * c)
    rw [rabs_mul, rabs_mul] at this
    have t1 : rabs a * rabs δ2 ≤ rabs a * ε := mul_le_mul_of_nonneg_left h2 ha
    have t2 : rabs δ1 * rabs c ≤ ε * rabs c := mul_le_mul_of_nonneg_right h1 hcn
    nlinarith
  have e3 : m * m ≤ rabs c * rabs c' := mul_le_mul hc hc' (le_of_lt hm) hcn
  calc rabs D * (m * m) ≤ rabs D * (rabs c * rabs c') := mul_le_mul_of_nonneg_left e3 hD
    _ = rabs k * rabs (a * δ2 - δ1 * c) := e1
    _ ≤ rabs k * ((rabs a + rabs c) * ε) := mul_le_mul_of_nonneg_left e2 hk
    _ = rabs k * (rabs a + rabs c) * ε := by ring

theorem rabs_sub_comm (a b : Rat) : rabs (a - b) = rabs (b - a) := by
  rw [← rabs_neg (a - b)]; congr 1; ring

/-- (O2) the bound: as long as both end points stay `m` away (in `y`) from the source, the hit on the line
`y = Y` moves by at most `|Y - s.y| * (|dx| + |dy|) / m² * ε` -/
theorem hlineX_lipschitz (s p p' : V2) (Y m ε : Rat) (hm : 0 < m) (h : m ≤ rabs (p.y - s.y)) (h' : m ≤ rabs (p'.y - s.y))
    (hε : distInf p p' ≤ ε) :
    rabs (hlineX s p Y - hlineX s p' Y) * (m * m) ≤ rabs (Y - s.y) * (rabs (p.x - s.x) + rabs (p.y - s.y)) * ε := by
  have hx : rabs (p'.x - p.x) ≤ ε := by rw [rabs_sub_comm]; exact le_trans (le_distInf_x p p') hε
  have hy : rabs (p'.y - p.y) ≤ ε := by rw [rabs_sub_comm]; exact le_trans (le_distInf_y p p') hε
  exact perturb_bound _ _ _ _ _ _ _ m ε hm h h' hx hy
    (hlineX_perturb s p p' Y (ne_of_lt_rabs_sub hm h) (ne_of_lt_rabs_sub hm h'))

theorem vlineY_lipschitz (s p p' : V2) (X m ε : Rat) (hm : 0 < m) (h : m ≤ rabs (p.x - s.x)) (h' : m ≤ rabs (p'.x - s.x))
    (hε : distInf p p' ≤ ε) :
    rabs (vlineY s p X - vlineY s p' X) * (m * m) ≤ rabs (X - s.x) * (rabs (p.y - s.y) + rabs (p.x - s.x)) * ε := by
  have hx : rabs (p'.x - p.x) ≤ ε := by rw [rabs_sub_comm]; exact le_trans (le_distInf_x p p') hε
  have hy : rabs (p'.y - p.y) ≤ ε := by rw [rabs_sub_comm]; exact le_trans (le_distInf_y p p') hε
  exact perturb_bound _ _ _ _ _ _ _ m ε hm h h' hy hx
    (vlineY_perturb s p p' X (ne_of_lt_rabs_sub hm h) (ne_of_lt_rabs_sub hm h'))

/-! ### the closed forms are what the model computes -/

/-- (O3) a result on the line `y = Y` has the `x` of the closed form -/
theorem snapOblique_hlineX (b : Box) (p s q : V2) (Y : Rat) (hin : inBox b p) (hne : p ≠ s) (hy : p.y ≠ s.y)
    (h : snapOblique b p s = .ok q) (hq : q.y = Y) : q.x = hlineX s p Y := by
  have hc := snapOblique_collinear b p s q hin hne h
  have h0 : p.y - s.y ≠ 0 := sub_ne_zero.mpr hy
  simp only [cross2, V2.sub_x, V2.sub_y, hq] at hc
  rw [hlineX_eq s p Y hy]
  field_simp
  linarith

/-- (O3) a result on the line `x = X` has the `y` of the closed form -/
theorem snapOblique_vlineY (b : Box) (p s q : V2) (X : Rat) (hin : inBox b p) (hne : p ≠ s) (hx : p.x ≠ s.x)
    (h : snapOblique b p s = .ok q) (hq : q.x = X) : q.y = vlineY s p X := by
  have hc := snapOblique_collinear b p s q hin hne h
  have h0 : p.x - s.x ≠ 0 := sub_ne_zero.mpr hx
  simp only [cross2, V2.sub_x, V2.sub_y, hq] at hc
  rw [vlineY_eq s p X hx]
  field_simp
  linarith


/-! ### the jump at the containment boundary -/

/-- (O4) the point on the bottom border, source straight below it: the point itself -/
theorem snapObliqueLit_on_border :
    snapObliqueLit ⟨⟨0, 0⟩, ⟨4, 2⟩, false⟩ ⟨1, 2⟩ ⟨1, 5⟩ = .ok ⟨1, 2⟩ := by decide +kernel

/-- (O4) the same point moved outward by any `ε > 0` (other than the `ε = 3` that makes it the source): the point
is outside, the edge is re-aimed at the centre `(2, 1)` and the result is `3/4` away -/
theorem snapObliqueLit_jump_outside (ε : Rat) (hε : 0 < ε) (h3 : ε ≠ 3) :
    snapObliqueLit ⟨⟨0, 0⟩, ⟨4, 2⟩, false⟩ ⟨1, 2 + ε⟩ ⟨1, 5⟩ = .ok ⟨7/4, 2⟩ := by
  have hne : (⟨1, 2 + ε⟩ : V2) ≠ ⟨1, 5⟩ := by
    intro c
    have hy : 2 + ε = 5 := congrArg V2.y c
    exact h3 (by linarith)
  have hout : ¬ inBox ⟨⟨0, 0⟩, ⟨4, 2⟩, false⟩ ⟨1, 2 + ε⟩ := by
    rintro ⟨_, _, _, h4⟩
    simp only at h4
    linarith
  have hc : (⟨1, 5⟩ : V2) ≠ Box.center ⟨⟨0, 0⟩, ⟨4, 2⟩, false⟩ := by decide +kernel
  have hpick : pickCand (obliqueCands ⟨⟨0, 0⟩, ⟨4, 2⟩, false⟩ ⟨1, 5⟩ (Box.center ⟨⟨0, 0⟩, ⟨4, 2⟩, false⟩))
      = .ok ⟨7/4, 2⟩ := by decide +kernel
  unfold snapObliqueLit
  rw [if_neg hne, if_pos hout, if_neg hc, hpick]

/-- at `ε = 3` the moved point is the source: `assert point != source` -/
theorem snapObliqueLit_jump_source :
    snapObliqueLit ⟨⟨0, 0⟩, ⟨4, 2⟩, false⟩ ⟨1, 2 + 3⟩ ⟨1, 5⟩ = .error .noDirection := by decide +kernel

end Capella.Geom
