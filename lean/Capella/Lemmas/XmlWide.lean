import Capella.Model.XmlWide
import Capella.Lemmas.XmlEmpty
import Capella.Lemmas.XmlCanon
/-! The writer reads only the *view* of a tree (`Model/XmlWide.lean`): `serialize (viewDoc l d) = serialize d`
for every tree; the round-trip theorems on the widened domain follow from the ones on `wfDocE`. -/
namespace Capella.Xml

theorem pyNonBlank_viewTail (t : Option Str) : pyNonBlank (viewTail t) = pyNonBlank t := by
  unfold viewTail
  split
  · rfl
  · rename_i h; simp only [Bool.not_eq_true] at h; rw [h]; rfl

theorem viewTail_of_nonBlank {t : Option Str} (h : pyNonBlank t = true) : viewTail t = t := by
  simp [viewTail, h]

theorem viewTail_idem (t : Option Str) : viewTail (viewTail t) = viewTail t := by
  cases h : pyNonBlank t
  · have : viewTail t = none := by simp [viewTail, h]
    rw [this]; rfl
  · rw [viewTail_of_nonBlank h, viewTail_of_nonBlank h]

/-- the child loop looks at the parent's tail only through `.strip()` -/
theorem serKids_viewTail (ll : Nat) (m : List (Str × Str)) (indent : Nat) (pt : Option Str)
    (pos : Nat) (tc : Bool) (ks : List Elem) :
    serKids ll m indent (viewTail pt) pos tc ks = serKids ll m indent pt pos tc ks := by
  induction ks generalizing pos tc with
  | nil => simp [serKids]
  | cons k ks ih =>
    rw [serKids, serKids]
    simp only [pyNonBlank_viewTail, ih]
    cases h : pyNonBlank pt
    · simp
    · simp [viewTail_of_nonBlank h]

theorem viewL_isEmpty (l : Bool) (ks : List Elem) : (viewL l ks).isEmpty = ks.isEmpty := by
  cases ks <;> simp [viewL]

/-- the test before `element.text` is written, on the view -/
theorem textWritten_view (nk : Bool) (t : Option Str) :
    textWritten (viewText nk t) nk = textWritten t nk := by
  unfold viewText
  cases nk
  · simp only [Bool.false_eq_true, ↓reduceIte]
    split
    · rfl
    · rename_i h
      simp only [Bool.not_eq_true] at h
      cases t with
      | none => rfl
      | some s => cases s <;> simp [textWritten, h]
  · rfl

theorem serText_view_written (nk : Bool) (t : Option Str) (h : textWritten t nk = true) :
    viewText nk t = t := by
  unfold viewText
  cases nk
  · simp only [Bool.false_eq_true, ↓reduceIte]
    cases t with
    | none => simp [textWritten] at h
    | some s => cases s <;> simp_all [textWritten]
  · rfl

mutual
/-- `_serialize_element` writes an element and its view alike (same characters, same column) -/
theorem serElem_view (l top : Bool) (ll : Nat) (pns : List (Str × Str)) (isRoot : Bool) (indent pos : Nat)
    (e : Elem) : serElem ll pns isRoot indent pos (viewE l top e) = serElem ll pns isRoot indent pos e := by
  match e with
  | .mk tag nsd attrs text tail kids =>
    have hK := fun pt pos tc => serKids_view l ll (scope pns nsd) (indent + 1) pt pos tc kids
    unfold viewE
    rw [serElem, serElem]
    simp only [viewL_isEmpty, textWritten_view, hK]
    have hnone : ((viewText kids.isEmpty text).isNone && kids.isEmpty) = (text.isNone && kids.isEmpty) := by
      cases hk : kids.isEmpty <;> simp [viewText]
    have htxt : ∀ p, (if textWritten text kids.isEmpty = true then
          serText escapeContent true (viewText kids.isEmpty text) p else ([], p)) =
        (if textWritten text kids.isEmpty = true then serText escapeContent true text p else ([], p)) := by
      intro p
      cases h : textWritten text kids.isEmpty
      · simp
      · simp [serText_view_written _ _ h]
    have htail : ∀ p tc, serKids ll (scope pns nsd) (indent + 1)
          (if (l && kids.isEmpty && !top) = true then none else viewTail tail) p tc kids =
        serKids ll (scope pns nsd) (indent + 1) tail p tc kids := by
      intro p tc
      split
      · rename_i h
        simp only [Bool.and_eq_true, List.isEmpty_iff] at h
        rw [h.1.2]; simp [serKids]
      · exact serKids_viewTail ..
    simp only [hnone, htxt, htail]

theorem serKids_view (l : Bool) (ll : Nat) (m : List (Str × Str)) (indent : Nat) (pt : Option Str)
    (pos : Nat) (tc : Bool) (ks : List Elem) :
    serKids ll m indent pt pos tc (viewL l ks) = serKids ll m indent pt pos tc ks := by
  match ks with
  | [] => simp [viewL]
  | k :: ks' =>
    have hE := fun pos => serElem_view l false ll m false indent pos k
    have hK := fun pos tc => serKids_view l ll m indent pt pos tc ks'
    simp only [viewL]
    rw [serKids, serKids]
    simp only [hE, hK]
end

theorem serComment_view (indent : Nat) (c : Comment) : serComment indent (viewC c) = serComment indent c := by
  unfold serComment viewC
  simp only [pyNonBlank_viewTail]
  cases h : pyNonBlank c.tail
  · simp
  · simp [viewTail_of_nonBlank h]

theorem serComments_view (cs : List Comment) (pos : Nat) :
    serComments (cs.map viewC) pos = serComments cs pos := by
  induction cs generalizing pos with
  | nil => rfl
  | cons c cs ih => simp only [List.map_cons, serComments, serComment_view, ih]

theorem viewE_top_tail (l : Bool) (e : Elem) : (viewE l true e).tail = viewTail e.tail := by
  cases e; simp [viewE, Elem.tail]

/-- **the writer reads only the view**: for every tree, line length, with or without siblings, for a
root or a sub-element — the bytes written for `d` and for `viewDoc l d` are the same -/
theorem serialize_view (l : Bool) (ll : Nat) (sib : Bool) (pns : List (Str × Str)) (isRoot : Bool) (d : Doc) :
    serialize ll sib pns isRoot (viewDoc l d) = serialize ll sib pns isRoot d := by
  unfold serialize viewDoc
  simp only [viewE_top_tail, pyNonBlank_viewTail, serElem_view]
  have hpre : serComments (if sib = true then d.pre.map viewC else []) 0 =
      serComments (if sib = true then d.pre else []) 0 := by
    cases sib <;> simp [serComments_view]
  have hpost : ∀ p, serComments (if sib = true then d.post.map viewC else []) p =
      serComments (if sib = true then d.post else []) p := by
    intro p; cases sib <;> simp [serComments_view]
  simp only [hpre, hpost]
  cases h : pyNonBlank d.root.tail
  · simp
  · simp [viewTail_of_nonBlank h]

/-! ### what is read back -/

/-- the complete file (`exs.write` / `to_bytes`: declaration in front) for **every** line length -/
theorem parse_declared_view (l : Bool) (ll : Nat) (d : Doc) (hwf : wfDocE (viewDoc l d) = true) :
    parse (declare "utf-8".toList ++ serialize ll true [] true d) = some (readBack l d) := by
  rw [← serialize_view l]
  exact parseBody_serializeE ['\n'] nlOnly_nl ll (viewDoc l d) hwf

/-- without the declaration, when no `""` text is involved -/
theorem parse_ser_view (l : Bool) (ll : Nat) (d : Doc) (hwf : wfDoc (viewDoc l d) = true) :
    parse (serialize ll true [] true d) = some (canonDoc (viewDoc l d)) := by
  rw [← serialize_view l]
  unfold parse
  rw [stripDecl_serialize ll _ hwf]
  exact parseBody_serialize [] (by intro c hc; simp at hc) ll _ hwf

/-! ### `""` texts: where `dropDoc` changes the bytes and where it does not -/

theorem dropL_isEmpty' (ks : List Elem) : (dropL ks).isEmpty = ks.isEmpty := dropL_isEmpty ks

mutual
theorem serElem_drop (ll : Nat) (pns : List (Str × Str)) (isRoot : Bool) (indent pos : Nat) (e : Elem)
    (h : collapsesE e = false) :
    serElem ll pns isRoot indent pos (dropE e) = serElem ll pns isRoot indent pos e := by
  match e, h with
  | .mk tag nsd attrs text tail kids, h =>
    simp only [collapsesE, Bool.or_eq_false_iff] at h
    have hK := fun pt pos tc => serKids_drop ll (scope pns nsd) (indent + 1) pt pos tc kids h.2
    unfold dropE
    rw [serElem, serElem]
    simp only [dropL_isEmpty, hK]
    by_cases ht : text = some []
    · subst ht
      have h1 := h.1
      cases hk : kids.isEmpty
      · simp [dropT, textWritten]
      · simp only [hk, Bool.true_and, beq_self_eq_true] at h1
        have ha : alwaysExpanded tag = true := by simpa using h1
        simp [dropT, textWritten, ha]
    · have hd : dropT text = text := by
        cases text with
        | none => rfl
        | some s => cases s with
          | nil => exact absurd rfl ht
          | cons c cs => rfl
      simp only [hd]

theorem serKids_drop (ll : Nat) (m : List (Str × Str)) (indent : Nat) (pt : Option Str) (pos : Nat)
    (tc : Bool) (ks : List Elem) (h : collapsesL ks = false) :
    serKids ll m indent pt pos tc (dropL ks) = serKids ll m indent pt pos tc ks := by
  match ks, h with
  | [], _ => simp [dropL]
  | k :: ks', h =>
    simp only [collapsesL, Bool.or_eq_false_iff] at h
    have hE := fun pos => serElem_drop ll m false indent pos k h.1
    have hK := fun pos tc => serKids_drop ll m indent pt pos tc ks' h.2
    simp only [dropL]
    rw [serKids, serKids]
    simp only [hE, hK]
end

theorem dropE_tail (e : Elem) : (dropE e).tail = e.tail := by cases e; simp [dropE, Elem.tail]

theorem serialize_drop (ll : Nat) (sib : Bool) (pns : List (Str × Str)) (isRoot : Bool) (d : Doc)
    (h : collapsesE d.root = false) :
    serialize ll sib pns isRoot (dropDoc d) = serialize ll sib pns isRoot d := by
  unfold serialize dropDoc
  simp only [dropE_tail, serElem_drop _ _ _ _ _ _ h]

mutual
theorem collapsesE_view (l top : Bool) (e : Elem) : collapsesE (viewE l top e) = collapsesE e := by
  match e with
  | .mk tag nsd attrs text tail kids =>
    have hK := collapsesL_view l kids
    simp only [viewE, collapsesE, viewL_isEmpty, hK]
    cases hk : kids.isEmpty <;> simp [viewText]
theorem collapsesL_view (l : Bool) (ks : List Elem) : collapsesL (viewL l ks) = collapsesL ks := by
  match ks with
  | [] => rfl
  | k :: ks' => simp only [viewL, collapsesL, collapsesE_view l false k, collapsesL_view l ks']
end

/-- what was read back is written like the original, unless a `""` text collapses -/
theorem serialize_readBack (l : Bool) (ll : Nat) (d : Doc) (hwf : wfDocE (viewDoc l d) = true)
    (hc : collapsesE d.root = false) :
    serialize ll true [] true (readBack l d) = serialize ll true [] true d := by
  unfold readBack
  rw [serialize_canon ll true _ (wfDoc_drop hwf),
    serialize_drop ll true [] true _ (by simpa [viewDoc] using (collapsesE_view l true d.root).trans hc),
    serialize_view]

/-! ### comments / PIs inside elements -/

mutual
theorem Node.err_ofElem (pns : List (Str × Str)) (e : Elem) :
    Node.err pns (Node.ofElem e) = (elemErr pns e).map WErr.writer := by
  match e with
  | .mk tag nsd attrs text tail kids =>
    have hK := Node.errL_ofElems (scope pns nsd) kids
    unfold Node.ofElem
    rw [Node.err, elemErr]
    simp only [hK]
    split
    · rfl
    · split
      · simp_all
      · split
        · simp_all
        · split <;> simp_all
theorem Node.errL_ofElems (m : List (Str × Str)) (ks : List Elem) :
    Node.errL m (Node.ofElems ks) = (kidsErr m ks).map WErr.writer := by
  match ks with
  | [] => rfl
  | k :: ks' =>
    have hE := Node.err_ofElem m k
    have hK := Node.errL_ofElems m ks'
    unfold Node.ofElems
    rw [Node.errL, kidsErr, hE, hK]
    cases elemErr m k <;> rfl
end

mutual
theorem Node.toElem_ofElem (e : Elem) : Node.toElem (Node.ofElem e) = some e := by
  match e with
  | .mk tag nsd attrs text tail kids =>
    simp only [Node.ofElem, Node.toElem, Node.toElems_ofElems kids]
theorem Node.toElems_ofElems (ks : List Elem) : Node.toElems (Node.ofElems ks) = some ks := by
  match ks with
  | [] => rfl
  | k :: ks' => simp only [Node.ofElems, Node.toElems, Node.toElem_ofElem k, Node.toElems_ofElems ks']
end

mutual
/-- a content-only node inside is always reached by the traversal, or something raises before -/
theorem Node.err_of_hasCom (pns : List (Str × Str)) (n : Node) (h : n.hasCom = true) :
    (Node.err pns n).isSome = true := by
  match n, h with
  | .com _ _, _ => rfl
  | .el tag nsd attrs text tail kids, h =>
    have hK := Node.errL_of_hasComL (scope pns nsd) kids (by simpa [Node.hasCom] using h)
    rw [Node.err]
    split
    · rfl
    · split
      · rfl
      · split
        · rfl
        · split
          · rfl
          · exact hK
theorem Node.errL_of_hasComL (m : List (Str × Str)) (ks : List Node) (h : Node.hasComL ks = true) :
    (Node.errL m ks).isSome = true := by
  match ks, h with
  | k :: ks', h =>
    rw [Node.errL]
    cases hk : Node.err m k with
    | some e => rfl
    | none =>
      simp only [Node.hasComL, Bool.or_eq_true] at h
      rcases h with h | h
      · have := Node.err_of_hasCom m k h
        rw [hk] at this; simp at this
      · exact Node.errL_of_hasComL m ks' h
end

mutual
theorem Node.toElem_none_iff (n : Node) : (Node.toElem n).isNone = n.hasCom := by
  match n with
  | .com _ _ => rfl
  | .el tag nsd attrs text tail kids =>
    have hK := Node.toElems_none_iff kids
    simp only [Node.toElem, Node.hasCom]
    cases h : Node.toElems kids <;> simp_all
theorem Node.toElems_none_iff (ks : List Node) : (Node.toElems ks).isNone = Node.hasComL ks := by
  match ks with
  | [] => rfl
  | k :: ks' =>
    have hE := Node.toElem_none_iff k
    have hK := Node.toElems_none_iff ks'
    simp only [Node.toElems, Node.hasComL]
    cases h1 : Node.toElem k <;> cases h2 : Node.toElems ks' <;> simp_all
end

end Capella.Xml
