import Capella.Lemmas.DeclOrder
/-!
Lemmas about the `decl.apply` machine, part 6: the scalar attribute values of created objects are conserved
too.  Every object description contributes the entries `((nid, k), value)` of its simple attributes, a
`!promise p` value standing for the object `pm p`; along a run the entries already in `g.scal` plus the
entries of everything pending stay the same multiset — provided the ids of the creation sites are fresh and
pairwise distinct (they stand for freshly drawn UUIDs) and attribute values are atoms (a `!find` is evaluated
against the model of its moment).
-/
namespace Capella.Decl

abbrev AttrE := (Id × Str) × RVal

def rvalOf (pm : Str → Option Id) : Val → RVal
  | .atom (.str s) => .str s
  | .atom (.promise p) => .obj ((pm p).getD 0)
  | .atom (.uuid i) => .obj i
  | .atom (.obj i) => .obj i
  | .find _ _ => .str []

def scalAttrs (pm : Str → Option Id) (nid : Id) (scal : List (Str × Val)) : List AttrE :=
  scal.map fun kv => ((nid, kv.1), rvalOf pm kv.2)

mutual
def Item.attrN (pm : Str → Option Id) (G : AttrE → Nat) : Item → Nat
  | .obj nid _ _ scal kids => sumBy G (scalAttrs pm nid scal) + kidsAttrN pm G kids
  | .ref _ => 0
  | .str _ _ => 0
def kidsAttrN (pm : Str → Option Id) (G : AttrE → Nat) : List (Str × List Item) → Nat
  | [] => 0
  | (_, l) :: t => itemsAttrN pm G l + kidsAttrN pm G t
def itemsAttrN (pm : Str → Option Id) (G : AttrE → Nat) : List Item → Nat
  | [] => 0
  | x :: t => x.attrN pm G + itemsAttrN pm G t
end

def Instr.attrN (pm : Str → Option Id) (G : AttrE → Nat) (i : Instr) : Nat :=
  kidsAttrN pm G i.create + kidsAttrN pm G i.ext

def Action.attrN (pm : Str → Option Id) (G : AttrE → Nat) : Action → Nat
  | .whole i => i.attrN pm G
  | .piece _ (.item _ x) => x.attrN pm G
  | .piece _ _ => 0

def Work.attrN (pm : Str → Option Id) (G : AttrE → Nat) : Work → Nat
  | .items _ _ l => itemsAttrN pm G l
  | _ => 0

def State.pendA (pm : Str → Option Id) (G : AttrE → Nat) (s : State) : Nat :=
  sumBy (Work.attrN pm G) s.agenda + sumBy (Action.attrN pm G) s.queue + sumBy (fun e => e.2.attrN pm G) s.deferred

/-- attribute values are atoms, attribute names of one description are distinct, no plain-string children -/
def atomsHead : Item → Prop
  | .obj _ _ _ scal _ => (∀ kv ∈ scal, ∃ a, kv.2 = .atom a) ∧ (scal.map Prod.fst).Nodup
  | .ref _ => True
  | .str _ _ => False

/-- every scalar entry belongs to an object of the graph -/
def ScalDom (g : Graph) : Prop := ∀ e ∈ g.scal, e.1.1 ∈ g.objs.map Prod.fst

/-- weight counting the objects with id `i` (whatever their class) -/
def objInd (i : Id) : Eff → Nat := fun e => match e with | .obj j _ => if j = i then 1 else 0 | _ => 0

theorem kidsAttrN_eq (pm G) (par : Id) (kids : List (Str × List Item)) :
    sumBy (Work.attrN pm G) (kids.map (fun kl => Work.items par kl.1 kl.2)) = kidsAttrN pm G kids := by
  induction kids with
  | nil => simp [sumBy, kidsAttrN]
  | cons x t ih => obtain ⟨k, l⟩ := x; simp [sumBy, kidsAttrN, Work.attrN, ih] at *

theorem worksOf_attrN {P Q} (pm G) (par : Id) (i : Instr) (h : i.all P Q) :
    sumBy (Work.attrN pm G) (worksOf par i) = i.attrN pm G := by
  obtain ⟨_, h1, h2, h3, h4, h5⟩ := h
  simp [worksOf, h3, h4, h5, sumBy_append, sumBy, kidsAttrN_eq, Work.attrN, Instr.attrN]

theorem Pop.pendA {pm G s par attr x b} (hp : Pop s par attr x b) :
    s.pendA pm G = b.pendA pm G + x.attrN pm G := by
  cases hp with
  | agenda l rest ha => simp only [State.pendA, ha, sumBy, Work.attrN, itemsAttrN]; omega
  | queue q ha hq => simp only [State.pendA, hq, sumBy, Action.attrN]; omega

theorem defer_pendA {pm G} (s : State) (p : Str) (a : Action) :
    (s.defer p a).pendA pm G = s.pendA pm G + a.attrN pm G := by
  simp only [State.defer, State.pendA, sumBy_append, sumBy]; omega

theorem fulfilOpt_pendA {pm G} {s s' : State} {pid i} (h : s.fulfilOpt pid i = .ok s') :
    s'.pendA pm G = s.pendA pm G ∧ s'.g = s.g := by
  cases pid with
  | none => simp [State.fulfilOpt] at h; subst h; exact ⟨rfl, rfl⟩
  | some p =>
    simp only [State.fulfilOpt, State.fulfil] at h
    split at h
    · cases h
    · cases h
      refine ⟨?_, rfl⟩
      have hm := sumBy_filter_split (fun e : Str × Action => e.2.attrN pm G) (fun e => e.1 == p) s.deferred
      simp only [State.pendA, sumBy_append, sumBy_map] at *
      omega

theorem sumBy_upd_fresh (G : AttrE → Nat) (key : Id × Str) (v : RVal) : ∀ (l : List AttrE),
    key ∉ l.map Prod.fst → sumBy G (Graph.upd key v l) = sumBy G l + G (key, v)
  | [], _ => by simp [Graph.upd, sumBy]
  | e :: t, h => by
    simp only [List.map_cons, List.mem_cons, not_or] at h
    have hne : (e.1 == key) = false := by simp [Ne.symm h.1]
    simp only [Graph.upd, hne, Bool.false_eq_true, ↓reduceIte, sumBy, sumBy_upd_fresh G key v t h.2]
    omega

theorem upd_keys (key : Id × Str) (v : RVal) : ∀ (l : List AttrE),
    (Graph.upd key v l).map Prod.fst = if key ∈ l.map Prod.fst then l.map Prod.fst else l.map Prod.fst ++ [key]
  | [] => by simp [Graph.upd]
  | e :: t => by
    simp only [Graph.upd]
    by_cases he : e.1 = key
    · simp [he]
    · have hne : (e.1 == key) = false := by simp [he]
      simp only [hne, Bool.false_eq_true, ↓reduceIte, List.map_cons, upd_keys key v t, List.mem_cons, Ne.symm he, false_or]
      split <;> simp

theorem upd_keys_nodup (key : Id × Str) (v : RVal) (l : List AttrE) (h : (l.map Prod.fst).Nodup) :
    ((Graph.upd key v l).map Prod.fst).Nodup := by
  rw [upd_keys]
  split
  · exact h
  · rename_i hk
    rw [List.nodup_append]
    exact ⟨h, by simp, fun a ha b hb => by simp at hb; subst hb; intro hab; subst hab; exact hk ha⟩

theorem setScals_scal (G : AttrE → Nat) (nid : Id) : ∀ (rs : List (Str × RVal)) (g : Graph),
    (∀ k ∈ rs.map Prod.fst, (nid, k) ∉ g.scal.map Prod.fst) → (rs.map Prod.fst).Nodup →
    sumBy G (g.setScals nid rs).scal = sumBy G g.scal + sumBy G (rs.map fun kv => ((nid, kv.1), kv.2))
  | [], g, _, _ => by simp [Graph.setScals, sumBy]
  | (k, v) :: t, g, hf, hn => by
    simp only [List.map_cons, List.nodup_cons] at hn
    simp only [Graph.setScals]
    have hk : (nid, k) ∉ g.scal.map Prod.fst := hf k (by simp)
    rw [setScals_scal G nid t (g.setScal nid k v) ?_ hn.2]
    · simp only [Graph.setScal, sumBy_upd_fresh G (nid, k) v g.scal hk, List.map_cons, sumBy]; omega
    · intro k' hk'
      simp only [Graph.setScal, upd_keys, hk, ↓reduceIte, List.mem_append, List.mem_singleton, Prod.mk.injEq, true_and, not_or]
      refine ⟨hf k' (by simp [hk']), ?_⟩
      intro he; subst he; exact hn.1 hk'

theorem setScals_keys_nodup (nid : Id) : ∀ (rs : List (Str × RVal)) (g : Graph), (g.scal.map Prod.fst).Nodup →
    ((g.setScals nid rs).scal.map Prod.fst).Nodup
  | [], _, h => h
  | (k, v) :: t, g, h => setScals_keys_nodup nid t (g.setScal nid k v) (upd_keys_nodup _ _ _ h)

theorem setScals_dom (nid : Id) : ∀ (rs : List (Str × RVal)) (g : Graph), ∀ e ∈ (g.setScals nid rs).scal,
    e ∈ g.scal ∨ e.1.1 = nid
  | [], _, e, he => Or.inl he
  | (k, v) :: t, g, e, he => by
    rcases setScals_dom nid t (g.setScal nid k v) e he with h | h
    · have : ∀ (l : List AttrE), e ∈ Graph.upd (nid, k) v l → e ∈ l ∨ e.1.1 = nid := by
        intro l
        induction l with
        | nil => intro hm; simp [Graph.upd] at hm; right; rw [hm]
        | cons x t' ih =>
          simp only [Graph.upd]
          split
          · intro hm
            simp only [List.mem_cons] at hm
            rcases hm with rfl | hm
            · right; rfl
            · left; exact List.mem_cons_of_mem _ hm
          · intro hm
            simp only [List.mem_cons] at hm
            rcases hm with rfl | hm
            · left; simp
            · rcases ih hm with h' | h'
              · left; exact List.mem_cons_of_mem _ h'
              · right; exact h'
      exact this g.scal h
    · exact Or.inr h

theorem resolveScal_atoms {ps g pm} (hag : Agrees True ps pm) : ∀ {scal rs},
    (∀ kv ∈ scal, ∃ a, kv.2 = .atom a) → resolveScal ps g scal = .ok rs →
    rs = scal.map (fun kv => (kv.1, rvalOf pm kv.2))
  | [], _, _, h => by simp [resolveScal] at h; simp [← h, pure, Except.pure] <;> cases h <;> rfl
  | (k, v) :: t, rs, ha, h => by
    simp only [resolveScal, bind, Except.bind] at h
    split at h
    · cases h
    · rename_i r hr
      split at h
      · cases h
      · rename_i rs' hrs'
        simp only [pure, Except.pure, Except.ok.injEq] at h
        subst h
        have ih := resolveScal_atoms hag (fun kv hkv => ha kv (List.mem_cons_of_mem _ hkv)) hrs'
        obtain ⟨a, rfl⟩ := ha (k, v) (by simp)
        simp only [List.map_cons, ← ih, List.cons.injEq, Prod.mk.injEq, true_and, and_true]
        cases a with
        | str s => simp [resolveVal, resolveAtom] at hr; simp [rvalOf, hr]
        | promise p =>
          simp only [resolveVal, resolveAtom] at hr
          split at hr
          · rename_i j hj; cases hr; simp [rvalOf, hag trivial _ _ hj]
          · cases hr
        | uuid i =>
          simp only [resolveVal, resolveAtom] at hr
          split at hr
          · cases hr; rfl
          · cases hr
        | obj i => simp [resolveVal, resolveAtom] at hr; simp [rvalOf, hr]

end Capella.Decl
