import Capella.Lemmas.DeclCE
/-!
Lemmas about the `decl.apply` machine, part 3: conservation of effects for create/extend documents.

For a fixed map `pm` from promise ids to object ids, every piece of pending syntax has a multiset of
*effects* it will cause: objects created (`obj id cls`), list memberships added (`edge owner attr member`),
promises bound (`bind p id`), promises used (`use p`). The effects already caused are visible in the state
(`g.objs`, `g.edges`, `ps`). Invariant: done + pending is constant along a run, as long as `ps` agrees with
`pm` (needed only where list memberships are counted) and the class an object gets is a function `sc` of
list name and type hint (needed only where classes are counted).
-/
namespace Capella.Decl

inductive Eff
  | bind (p : Str) (i : Id)
  | edge (o : Id) (a : Str) (m : Id)
  | obj (i : Id) (c : Str)
  | use (p : Str)
  deriving DecidableEq

def atomId (pm : Str → Option Id) : Atom → Option Id
  | .str _ => none
  | .promise p => pm p
  | .uuid i => some i
  | .obj i => some i

def valId (pm : Str → Option Id) : Val → Option Id
  | .atom a => atomId pm a
  | .find _ _ => none

def atomUse (F : Eff → Nat) : Atom → Nat
  | .promise p => F (.use p)
  | _ => 0

def keysUse (F : Eff → Nat) : List (Str × Atom) → Nat
  | [] => 0
  | (_, a) :: t => atomUse F a + keysUse F t

def valUse (F : Eff → Nat) : Val → Nat
  | .atom a => atomUse F a
  | .find _ keys => keysUse F keys

def scalUse (F : Eff → Nat) : List (Str × Val) → Nat
  | [] => 0
  | (_, v) :: t => valUse F v + scalUse F t

/-- the weight ignores uses of promises that are already bound -/
def Quiet (F : Eff → Nat) (ps : Promises) : Prop := ∀ p i, ps.lookup p = some i → F (.use p) = 0

/-- bindings are only ever added -/
def Grows (ps ps' : Promises) : Prop := ∀ p i, ps.lookup p = some i → ps'.lookup p = some i

def optEff (F : Eff → Nat) (pid : Option Str) (nid : Id) : Nat :=
  match pid with
  | none => 0
  | some p => F (.bind p nid)

/-- the class of an untyped / typed creation under the permissive metamodel `MM.free dflt` -/
def classFor (dflt : List (Str × Str)) (attr : Str) (ty : Option Str) : Str :=
  match ty with
  | some [] => (dflt.lookup attr).getD attr
  | some t => t
  | none => (dflt.lookup attr).getD attr

mutual
def Item.effN (sc : Str → Option Str → Str) (pm : Str → Option Id) (F : Eff → Nat) (par : Id) (attr : Str) : Item → Nat
  | .obj nid pid ty scal kids =>
    F (.obj nid (sc attr ty)) + F (.edge par attr nid) + optEff F pid nid + scalUse F scal +
      kidsEffN sc pm F nid kids
  | .ref v => valUse F v + match valId pm v with
    | some m => F (.edge par attr m)
    | none => 0
  | .str nid _ => F (.obj nid (sc attr none)) + F (.edge par attr nid)
def kidsEffN (sc : Str → Option Str → Str) (pm : Str → Option Id) (F : Eff → Nat) (par : Id) : List (Str × List Item) → Nat
  | [] => 0
  | (a, l) :: t => itemsEffN sc pm F par a l + kidsEffN sc pm F par t
def itemsEffN (sc : Str → Option Str → Str) (pm : Str → Option Id) (F : Eff → Nat) (par : Id) (attr : Str) : List Item → Nat
  | [] => 0
  | x :: t => x.effN sc pm F par attr + itemsEffN sc pm F par attr t
end

def Instr.effN (sc : Str → Option Str → Str) (pm : Str → Option Id) (F : Eff → Nat) (i : Instr) : Nat :=
  valUse F i.parent + kidsEffN sc pm F ((valId pm i.parent).getD 0) i.create +
    kidsEffN sc pm F ((valId pm i.parent).getD 0) i.ext

def Action.effN (sc : Str → Option Str → Str) (pm : Str → Option Id) (F : Eff → Nat) : Action → Nat
  | .whole i => i.effN sc pm F
  | .piece par (.item attr x) => x.effN sc pm F par attr
  | .piece _ _ => 0

def Work.effN (sc : Str → Option Str → Str) (pm : Str → Option Id) (F : Eff → Nat) : Work → Nat
  | .items par attr l => itemsEffN sc pm F par attr l
  | _ => 0

def State.pendN (sc : Str → Option Str → Str) (pm : Str → Option Id) (F : Eff → Nat) (s : State) : Nat :=
  sumBy (Work.effN sc pm F) s.agenda + sumBy (Action.effN sc pm F) s.queue +
    sumBy (fun e => e.2.effN sc pm F) s.deferred

def State.doneN (F : Eff → Nat) (s : State) : Nat :=
  sumBy (fun e => F (.bind e.1 e.2)) s.ps + sumBy (fun e => F (.edge e.1 e.2.1 e.2.2)) s.g.edges +
    sumBy (fun e => F (.obj e.1 e.2)) s.g.objs

/-! the create/extend fragment: reference entries and parents are atoms, no set/sync/delete -/

/-- `pm` sends the promise id of a site to the id of that site -/
def pidOK (st : Prop) (pm : Str → Option Id) (pid : Option Str) (nid : Id) : Prop :=
  st → ∀ p, pid = some p → pm p = some nid

def ceHead (st : Prop) (pm : Str → Option Id) : Item → Prop
  | .obj nid pid _ _ _ => pidOK st pm pid nid
  | .ref v => ∃ a, v = .atom a
  | .str _ _ => True

def ceQ (i : Instr) : Prop := ∃ a, i.parent = .atom a

abbrev Item.ce (st : Prop) (pm : Str → Option Id) (x : Item) : Prop := x.all (ceHead st pm)
abbrev kidsCe (st : Prop) (pm : Str → Option Id) (k : List (Str × List Item)) : Prop := kidsAll (ceHead st pm) k
abbrev itemsCe (st : Prop) (pm : Str → Option Id) (l : List Item) : Prop := itemsAll (ceHead st pm) l
abbrev Instr.ce (st : Prop) (pm : Str → Option Id) (i : Instr) : Prop := i.all (ceHead st pm) ceQ
abbrev State.ce (st : Prop) (pm : Str → Option Id) (s : State) : Prop := s.all (ceHead st pm) ceQ

/-- `ps` agrees with `pm` -/
def Agrees (st : Prop) (ps : Promises) (pm : Str → Option Id) : Prop :=
  st → ∀ p i, ps.lookup p = some i → pm p = some i

/-- the weight ignores list memberships -/
def EdgeBlind (F : Eff → Nat) : Prop := ∀ o a m, F (.edge o a m) = 0

/-- the weight ignores the class of an object -/
def ClsBlind (F : Eff → Nat) : Prop := ∀ i c c', F (.obj i c) = F (.obj i c')

/-- the class a creation yields is the function `sc` of list name and `_type` hint -/
def StaticCls (mm : MM) (sc : Str → Option Str → Str) : Prop :=
  ∀ g par attr cr sg fx ty cls, checkTarget mm g par attr = .ok (cr, sg, fx) →
    createClass mm g par attr cr fx ty = .ok cls → cls = sc attr ty

theorem staticCls_free (dflt : List (Str × Str)) : StaticCls (MM.free dflt) (classFor dflt) := by
  intro g par attr cr sg fx ty cls hk hc
  simp only [checkTarget, attrKind, MM.free] at hk
  simp only [Except.ok.injEq, Prod.mk.injEq] at hk
  obtain ⟨rfl, rfl, rfl⟩ := hk
  simp only [createClass, ne_eq, not_true_eq_false, false_and, ↓reduceIte] at hc
  cases ty with
  | none => simp [Creator.classFor] at hc; simp [classFor, hc]
  | some t =>
    cases t with
    | nil => simp [Creator.classFor] at hc; simp [classFor, hc]
    | cons a t' => simp [Creator.classFor, MM.free] at hc; simp [classFor, hc]

theorem cls_eq {mm sc F} (h : StaticCls mm sc ∨ ClsBlind F) {g par attr cr sg fx ty cls}
    (hk : checkTarget mm g par attr = .ok (cr, sg, fx)) (hc : createClass mm g par attr cr fx ty = .ok cls) (i : Id) :
    F (.obj i cls) = F (.obj i (sc attr ty)) := by
  rcases h with h | h
  · rw [h g par attr cr sg fx ty cls hk hc]
  · exact h _ _ _

theorem kidsEffN_eq (sc pm F) (par : Id) (kids : List (Str × List Item)) :
    sumBy (Work.effN sc pm F) (kids.map (fun kl => Work.items par kl.1 kl.2)) = kidsEffN sc pm F par kids := by
  induction kids with
  | nil => simp [sumBy, kidsEffN]
  | cons x t ih => obtain ⟨k, l⟩ := x; simp [sumBy, kidsEffN, Work.effN, ih] at *

theorem resolveAtom_id {ps g pm a i} (hag : Agrees True ps pm) (h : resolveAtom ps g a = .ok (.obj i)) :
    atomId pm a = some i := by
  cases a with
  | str s => simp [resolveAtom] at h
  | promise p =>
    simp only [resolveAtom] at h
    split at h
    · rename_i j hj; cases h; exact hag trivial _ _ hj
    · cases h
  | uuid j =>
    simp only [resolveAtom] at h
    split at h
    · cases h; rfl
    · cases h
  | obj j => simp [resolveAtom] at h; simp [atomId, h]

theorem resolveAtom_quiet {F ps g a r} (hq : Quiet F ps) (h : resolveAtom ps g a = .ok r) : atomUse F a = 0 := by
  cases a with
  | promise p =>
    simp only [resolveAtom] at h
    split at h
    · rename_i j hj; exact hq _ _ hj
    · cases h
  | str _ => rfl
  | uuid _ => rfl
  | obj _ => rfl

theorem resolveKeys_quiet {F ps g} (hq : Quiet F ps) : ∀ {keys r}, resolveKeys ps g keys = .ok r → keysUse F keys = 0
  | [], _, _ => rfl
  | (k, a) :: t, r, h => by
    simp only [resolveKeys, bind, Except.bind] at h
    split at h
    · cases h
    · rename_i v hv
      split at h
      · cases h
      · rename_i r' hr'
        simp [keysUse, resolveAtom_quiet hq hv, resolveKeys_quiet hq hr']

theorem resolveVal_quiet {F ps g v r} (hq : Quiet F ps) (h : resolveVal ps g v = .ok r) : valUse F v = 0 := by
  cases v with
  | atom a => exact resolveAtom_quiet hq h
  | find ty keys =>
    simp only [resolveVal, resolveFind, bind, Except.bind] at h
    split at h
    · cases h
    · rename_i x hx
      split at hx
      · cases hx
      · rename_i rk hrk
        exact resolveKeys_quiet hq hrk

theorem resolveScal_quiet {F ps g} (hq : Quiet F ps) : ∀ {scal r}, resolveScal ps g scal = .ok r → scalUse F scal = 0
  | [], _, _ => rfl
  | (k, v) :: t, r, h => by
    simp only [resolveScal, bind, Except.bind] at h
    split at h
    · cases h
    · rename_i v' hv
      split at h
      · cases h
      · rename_i r' hr'
        simp [scalUse, resolveVal_quiet hq hv, resolveScal_quiet hq hr']

theorem lookup_append_single (ps : Promises) (p q : Str) (i : Id) :
    (ps ++ [(p, i)]).lookup q = match ps.lookup q with
      | some j => some j
      | none => if q == p then some i else none := by
  induction ps with
  | nil => simp [List.lookup]; split <;> simp_all
  | cons x t ih =>
    obtain ⟨k, v⟩ := x
    simp only [List.cons_append, List.lookup]
    split <;> simp_all

theorem fulfil_cons {sc st pm} {s s' : State} {p : Str} {i : Id} (hag : Agrees st s.ps pm)
    (hp : st → pm p = some i) (h : s.fulfil p i = .ok s') :
    Agrees st s'.ps pm ∧ Grows s.ps s'.ps ∧
    ∀ F, s'.doneN F + s'.pendN sc pm F = s.doneN F + s.pendN sc pm F + F (.bind p i) := by
  unfold State.fulfil at h
  split at h
  · cases h
  · rename_i hnone
    cases h
    refine ⟨?_, ?_, ?_⟩
    · intro hst q j hq
      simp only [lookup_append_single] at hq
      split at hq
      · rename_i j' hj'; cases hq; exact hag hst _ _ hj'
      · split at hq
        · rename_i hqp; cases hq; simp at hqp; subst hqp; exact hp hst
        · cases hq
    · intro q j hq
      simp [lookup_append_single, hq]
    · intro F
      have hm := sumBy_filter_split (fun e : Str × Action => e.2.effN sc pm F) (fun e => e.1 == p) s.deferred
      simp only [State.doneN, State.pendN, sumBy_append, sumBy_map, sumBy] at *
      omega

theorem fulfilOpt_cons {sc st pm} {s s' : State} {pid : Option Str} {i : Id} (hag : Agrees st s.ps pm)
    (hp : pidOK st pm pid i) (h : s.fulfilOpt pid i = .ok s') :
    Agrees st s'.ps pm ∧ Grows s.ps s'.ps ∧
    ∀ F, s'.doneN F + s'.pendN sc pm F = s.doneN F + s.pendN sc pm F + optEff F pid i := by
  cases pid with
  | none =>
    simp [State.fulfilOpt] at h; subst h
    exact ⟨hag, fun _ _ h => h, fun F => by simp [optEff]⟩
  | some p => exact fulfil_cons hag (fun hst => hp hst p rfl) h

theorem setScals_objs (g : Graph) (i : Id) (sc : List (Str × RVal)) :
    (g.setScals i sc).objs = g.objs ∧ (g.setScals i sc).edges = g.edges := by
  induction sc generalizing g with
  | nil => simp [Graph.setScals]
  | cons x t ih => obtain ⟨k, v⟩ := x; simp [Graph.setScals, ih, Graph.setScal]

theorem create_objs (g : Graph) (par attr nid cls sc) :
    (g.create par attr nid cls sc).objs = g.objs ++ [(nid, cls)] ∧
    (g.create par attr nid cls sc).edges = g.edges ++ [(par, attr, nid)] := by
  simp [Graph.create, Graph.append, setScals_objs]

theorem Pop.pendN {sc pm F s par attr x b} (hp : Pop s par attr x b) :
    s.pendN sc pm F = b.pendN sc pm F + x.effN sc pm F par attr ∧ b.doneN F = s.doneN F := by
  cases hp with
  | agenda l rest ha =>
    refine ⟨?_, rfl⟩
    simp only [State.pendN, ha, sumBy, Work.effN, itemsEffN]; omega
  | queue q ha hq =>
    refine ⟨?_, rfl⟩
    simp only [State.pendN, hq, sumBy, Action.effN]; omega

theorem defer_pendN {sc pm F} (s : State) (p : Str) (a : Action) :
    (s.defer p a).pendN sc pm F = s.pendN sc pm F + a.effN sc pm F ∧ (s.defer p a).doneN F = s.doneN F := by
  refine ⟨?_, rfl⟩
  simp only [State.defer, State.pendN, sumBy_append, sumBy]; omega

theorem Item.effN_blind {sc pm F} (hF : EdgeBlind F) (par par' : Id) (attr : Str) (x : Item) :
    x.effN sc pm F par attr = x.effN sc pm F par' attr := by
  cases x with
  | obj nid pid ty s kids => simp [Item.effN, hF _ _ _]
  | ref v => simp only [Item.effN, hF _ _ _]
  | str nid s => simp [Item.effN, hF _ _ _]

theorem itemsEffN_blind {sc pm F} (hF : EdgeBlind F) (par par' : Id) (attr : Str) (l : List Item) :
    itemsEffN sc pm F par attr l = itemsEffN sc pm F par' attr l := by
  induction l with
  | nil => simp [itemsEffN]
  | cons x t ih => simp [itemsEffN, ih, Item.effN_blind hF par par' attr x]

theorem kidsEffN_blind {sc pm F} (hF : EdgeBlind F) (par par' : Id) (kids : List (Str × List Item)) :
    kidsEffN sc pm F par kids = kidsEffN sc pm F par' kids := by
  induction kids with
  | nil => simp [kidsEffN]
  | cons x t ih => obtain ⟨k, l⟩ := x; simp [kidsEffN, ih, itemsEffN_blind hF par par' k l]

theorem worksOf_effN {P Q} (sc pm F) (par : Id) (i : Instr) (h : i.all P Q) :
    sumBy (Work.effN sc pm F) (worksOf par i) = kidsEffN sc pm F par i.create + kidsEffN sc pm F par i.ext := by
  obtain ⟨_, h1, h2, h3, h4, h5⟩ := h
  simp [worksOf, h3, h4, h5, sumBy_append, sumBy, kidsEffN_eq, Work.effN]

theorem Quiet.mono {F ps ps'} (hg : Grows ps ps') (h : Quiet F ps') : Quiet F ps :=
  fun p i hp => h p i (hg p i hp)

/-- **conservation, one transition**: done + pending is unchanged -/
theorem CEStep.cons {mm sc st pm s c s'} (h : CEStep mm s c s') (hce : s.ce st pm) (hag : Agrees st s.ps pm) :
    Agrees st s'.ps pm ∧ Grows s.ps s'.ps ∧
    ∀ F, (st ∨ EdgeBlind F) → (StaticCls mm sc ∨ ClsBlind F) → Quiet F s.ps →
      s'.doneN F + s'.pendN sc pm F = s.doneN F + s.pendN sc pm F := by
  have hgrefl : Grows s.ps s.ps := fun _ _ h => h
  cases h with
  | nil par attr rest ha =>
    refine ⟨hag, hgrefl, fun F _ _ _ => ?_⟩
    simp [State.doneN, State.pendN, ha, sumBy, Work.effN, itemsEffN]
  | setsNil par rest ha =>
    refine ⟨hag, hgrefl, fun F _ _ _ => ?_⟩
    simp [State.doneN, State.pendN, ha, sumBy, Work.effN]
  | deferRef b par attr v p hp hr =>
    obtain ⟨_, hps, _⟩ := hp.same
    refine ⟨by simpa [State.defer, hps] using hag, by simpa [State.defer, hps] using hgrefl, fun F _ _ _ => ?_⟩
    have h1 := hp.pendN (sc := sc) (pm := pm) (F := F)
    have h2 := defer_pendN (sc := sc) (pm := pm) (F := F) b p (.piece par (.item attr (.ref v)))
    simp only [Action.effN] at h2
    omega
  | deferObj b par attr nid pid ty scal kids p hp hr =>
    obtain ⟨_, hps, _⟩ := hp.same
    refine ⟨by simpa [State.defer, hps] using hag, by simpa [State.defer, hps] using hgrefl, fun F _ _ _ => ?_⟩
    have h1 := hp.pendN (sc := sc) (pm := pm) (F := F)
    have h2 := defer_pendN (sc := sc) (pm := pm) (F := F) b p (.piece par (.item attr (.obj nid pid ty scal kids)))
    simp only [Action.effN] at h2
    omega
  | append b par attr v i hp hr =>
    obtain ⟨hg, hps, _⟩ := hp.same
    refine ⟨by simpa [hps] using hag, by simpa [hps] using hgrefl, fun F hF _ hq => ?_⟩
    have h1 := hp.pendN (sc := sc) (pm := pm) (F := F)
    obtain ⟨a, rfl⟩ : ∃ a, v = .atom a := ((hp.all_iff.mp hce).1 : ceHead st pm (.ref v))
    have hu := resolveVal_quiet (hps ▸ hq) hr
    rcases hF with hst | heb
    · have hid := resolveAtom_id (fun _ => hag hst) (by simpa [resolveVal, hps] using hr)
      simp only [Item.effN, valId, hid, hu] at h1
      simp only [State.doneN, State.pendN, Graph.append, sumBy_append, sumBy] at h1 ⊢
      omega
    · simp only [Item.effN, hu, heb _ _ _] at h1
      have : (match valId pm (Val.atom a) with | some _ => 0 | none => 0) = 0 := by split <;> rfl
      simp only [State.doneN, State.pendN, Graph.append, sumBy_append, sumBy, heb _ _ _] at h1 ⊢
      omega
  | single b par attr nid str cr k fx cls hp hk hc =>
    obtain ⟨hg, hps, _⟩ := hp.same
    refine ⟨by simpa [hps] using hag, by simpa [hps] using hgrefl, fun F _ hC _ => ?_⟩
    have h1 := hp.pendN (sc := sc) (pm := pm) (F := F)
    have hcl := cls_eq hC hk hc nid
    have hco := create_objs b.g par attr nid cls [(k, .str str)]
    simp only [Item.effN] at h1
    simp only [State.doneN, State.pendN, hco.1, hco.2, sumBy_append, sumBy, hcl] at h1 ⊢
    omega
  | create b par attr nid pid ty scal kids rs cr sg fx cls s2 hp hr hk hc hf =>
    obtain ⟨hg, hps, _⟩ := hp.same
    have hx : pidOK st pm pid nid := by
      have := (hp.all_iff.mp hce).1
      simp only [Item.all] at this
      exact this.1
    obtain ⟨hag2, hgr, hF2⟩ := fulfilOpt_cons (sc := sc) (s := { b with g := b.g.create par attr nid cls rs })
      (by simpa [hps] using hag) hx hf
    refine ⟨hag2, by simpa [hps] using hgr, fun F _ hC hq => ?_⟩
    have h1 := hp.pendN (sc := sc) (pm := pm) (F := F)
    have h2 := hF2 F
    have hcl := cls_eq hC hk hc nid
    have hco := create_objs b.g par attr nid cls rs
    have hu := resolveScal_quiet (hps ▸ hq) hr
    simp only [Item.effN, hu] at h1
    simp only [State.doneN, State.pendN, hco.1, hco.2, sumBy_append, sumBy, hcl, kidsEffN_eq] at h1 h2 ⊢
    omega
  | deferWhole i q p ha hq hr =>
    refine ⟨hag, hgrefl, fun F _ _ _ => ?_⟩
    simp only [State.defer, State.doneN, State.pendN, hq, sumBy_append, sumBy, Action.effN]
    omega
  | expand i q par ha hq hr =>
    refine ⟨hag, hgrefl, fun F hF _ hqt => ?_⟩
    have hi : i.ce st pm := hce.2.1 (.whole i) (by simp [hq])
    obtain ⟨at', hpar⟩ := hi.1
    have hwk := worksOf_effN sc pm F par i hi
    rw [hpar] at hr
    have hu : atomUse F at' = 0 := resolveAtom_quiet hqt (by simpa [resolveVal] using hr)
    rcases hF with hst | heb
    · have hid := resolveAtom_id (fun _ => hag hst) (by simpa [resolveVal] using hr)
      simp only [State.doneN, State.pendN, hq, ha, sumBy, Action.effN, Instr.effN, hpar, valId, valUse, hu, hid, hwk,
        Option.getD_some]
      omega
    · have e1 := kidsEffN_blind (sc := sc) (pm := pm) heb par ((valId pm (Val.atom at')).getD 0) i.create
      have e2 := kidsEffN_blind (sc := sc) (pm := pm) heb par ((valId pm (Val.atom at')).getD 0) i.ext
      simp only [State.doneN, State.pendN, hq, ha, sumBy, Action.effN, Instr.effN, hpar, valUse, hu, hwk, e1, e2]
      omega

/-- the invariant of create/extend runs: fragment, agreement with `pm`, done + pending = `c` -/
structure Inv (mm : MM) (sc : Str → Option Str → Str) (st : Prop) (pm : Str → Option Id) (c : (Eff → Nat) → Nat)
    (s : State) : Prop where
  ce : s.ce st pm
  ag : Agrees st s.ps pm
  cons : ∀ F, (st ∨ EdgeBlind F) → (StaticCls mm sc ∨ ClsBlind F) → Quiet F s.ps → s.doneN F + s.pendN sc pm F = c F

theorem step_ce {mm sc st pm c s s'} (hinv : Inv mm sc st pm c s) (h : step mm s = .ok (some s')) :
    Inv mm sc st pm c s' ∧ Grows s.ps s'.ps := by
  obtain ⟨k, hk⟩ := step_ceStep hinv.ce h
  obtain ⟨hag, hg, hc⟩ := hk.cons (sc := sc) hinv.ce hinv.ag
  refine ⟨⟨hk.all_fwd hinv.ce, hag, fun F hF hC hq => ?_⟩, hg⟩
  have hq0 : Quiet F s.ps := Quiet.mono hg hq
  rw [hc F hF hC hq0]
  exact hinv.cons F hF hC hq0

/-- a predicate kept by every transition holds where a run stops — at its last state, or at the state
whose transition raised -/
theorem run_keeps {mm} {P : State → Prop} (hstep : ∀ s s', P s → step mm s = .ok (some s') → P s') :
    ∀ (n : Nat) (s : State) (r), P s → run mm n s = some r →
      match r with
      | .ok sf => P sf ∧ step mm sf = .ok none
      | .error e => ∃ se, P se ∧ step mm se = .error e
  | 0, _, _, _, h => by simp [run] at h
  | n + 1, s, r, hs, h => by
    unfold run at h
    split at h
    · rename_i e he; simp at h; subst h; exact ⟨s, hs, he⟩
    · rename_i he; simp at h; subst h; exact ⟨hs, he⟩
    · rename_i s' he
      exact run_keeps hstep n s' r (hstep s s' hs he) h

theorem run_ce {mm sc st pm c} (n : Nat) (s r : State) (hinv : Inv mm sc st pm c s)
    (h : run mm n s = some (.ok r)) : Inv mm sc st pm c r ∧ r.agenda = [] ∧ r.queue = [] := by
  have := run_keeps (P := Inv mm sc st pm c) (fun s s' hs h => (step_ce hs h).1) n s _ hinv h
  exact ⟨this.1, (step_none this.2).1, (step_none this.2).2⟩

/-- weight of a result: bindings, list memberships, objects -/
def resN (F : Eff → Nat) (g : Graph) (ps : Promises) : Nat :=
  sumBy (fun e => F (.bind e.1 e.2)) ps + sumBy (fun e => F (.edge e.1 e.2.1 e.2.2)) g.edges +
    sumBy (fun e => F (.obj e.1 e.2)) g.objs

/-- weight of the effects a document describes -/
def docN (sc : Str → Option Str → Str) (pm : Str → Option Id) (F : Eff → Nat) (doc : List Instr) : Nat :=
  sumBy (Instr.effN sc pm F) doc

/-- the documents of the create/extend fragment -/
def DocCE (st : Prop) (pm : Str → Option Id) (doc : List Instr) : Prop := ∀ i ∈ doc, i.ce st pm

theorem init_all {P Q} (g : Graph) (doc : List Instr) (hdoc : ∀ i ∈ doc, i.all P Q) : (init g doc).all P Q := by
  refine ⟨by simp [init], ?_, by simp [init]⟩
  intro a ha
  simp only [init, List.mem_map] at ha
  obtain ⟨i, hi, rfl⟩ := ha
  exact hdoc i hi

theorem init_inv {mm sc st pm} (g : Graph) (doc : List Instr) (hdoc : DocCE st pm doc) :
    Inv mm sc st pm (fun F => resN F g [] + docN sc pm F doc) (init g doc) := by
  refine ⟨init_all g doc hdoc, ?_, ?_⟩
  · intro _ p i h; simp [init] at h
  · intro F _ _ _
    simp [init, State.doneN, State.pendN, resN, docN, sumBy, sumBy_map, Action.effN]

/-- **conservation**: what a successful run has done is exactly what the document describes -/
theorem apply_ce {mm sc st pm g doc g' ps'} (hdoc : DocCE st pm doc) (h : apply mm g doc = .ok (g', ps')) :
    ∀ F, (st ∨ EdgeBlind F) → (StaticCls mm sc ∨ ClsBlind F) → Quiet F ps' →
      resN F g' ps' = resN F g [] + docN sc pm F doc := by
  unfold apply at h
  split at h
  · cases h
  · rename_i r hr
    cases r with
    | error e => simp [Except.bind] at h
    | ok sf =>
      simp only [Except.bind] at h
      obtain ⟨hinv, ha, hq⟩ := run_ce _ _ _ (init_inv (mm := mm) (sc := sc) g doc hdoc) hr
      unfold finish at h
      split at h
      · rename_i hd
        cases h
        intro F hF hC hqt
        have := hinv.cons F hF hC hqt
        simpa [State.doneN, State.pendN, ha, hq, hd, sumBy, resN] using this
      · cases h

theorem sumBy_perm {α : Type} (f : α → Nat) {l l' : List α} (h : l.Perm l') : sumBy f l = sumBy f l' := by
  induction h with
  | nil => rfl
  | cons x _ ih => simp [sumBy, ih]
  | swap x y l => simp [sumBy]; omega
  | trans _ _ ih1 ih2 => exact ih1.trans ih2

/-- indicator weight of one effect -/
def ind (e : Eff) : Eff → Nat := fun e' => if e' = e then 1 else 0

theorem sumBy_count {α : Type} [BEq α] [LawfulBEq α] (a : α) (l : List α) :
    sumBy (fun x => if x == a then 1 else 0) l = l.count a := by
  induction l with
  | nil => simp [sumBy]
  | cons x t ih =>
    simp only [sumBy, ih, List.count_cons]
    by_cases h : x == a <;> simp [h] <;> omega

theorem sumBy_zero {α : Type} (l : List α) : sumBy (fun _ => 0) l = 0 := by
  induction l with
  | nil => rfl
  | cons x t ih => simp [sumBy, ih]

theorem sumBy_idCount (i : Id) (l : List (Id × Str)) :
    sumBy (fun e : Id × Str => if e.1 = i then 1 else 0) l = (l.map Prod.fst).count i := by
  induction l with
  | nil => simp [sumBy]
  | cons x t ih =>
    simp only [sumBy, ih, List.map_cons, List.count_cons]
    by_cases h : x.1 = i <;> simp [h] <;> omega

theorem resN_bind (g : Graph) (ps : Promises) (p : Str) (i : Id) :
    resN (ind (.bind p i)) g ps = ps.count (p, i) := by
  have h1 : (fun e : Str × Id => ind (.bind p i) (.bind e.1 e.2)) = fun e => if e == (p, i) then 1 else 0 := by
    funext e; obtain ⟨a, b⟩ := e; simp [ind]
  unfold resN
  rw [h1, sumBy_count]
  simp [ind, sumBy_zero]

theorem resN_edge (g : Graph) (ps : Promises) (o : Id) (a : Str) (m : Id) :
    resN (ind (.edge o a m)) g ps = g.edges.count (o, a, m) := by
  have h1 : (fun e : Id × Str × Id => ind (.edge o a m) (.edge e.1 e.2.1 e.2.2)) = fun e => if e == (o, a, m) then 1 else 0 := by
    funext e; obtain ⟨x, y, z⟩ := e; simp [ind]
  unfold resN
  rw [h1, sumBy_count]
  simp [ind, sumBy_zero]

theorem resN_obj (g : Graph) (ps : Promises) (i : Id) (c : Str) :
    resN (ind (.obj i c)) g ps = g.objs.count (i, c) := by
  have h1 : (fun e : Id × Str => ind (.obj i c) (.obj e.1 e.2)) = fun e => if e == (i, c) then 1 else 0 := by
    funext e; obtain ⟨x, y⟩ := e; simp [ind]
  unfold resN
  rw [h1, sumBy_count]
  simp [ind, sumBy_zero]

theorem quiet_of_not_use {e : Eff} (ps : Promises) (h : ∀ p, e ≠ .use p) : Quiet (ind e) ps := by
  intro p _ _
  simp only [ind]
  split
  · rename_i he; exact absurd he.symm (h p)
  · rfl

theorem docN_perm {sc pm F} {doc doc' : List Instr} (h : doc.Perm doc') :
    docN sc pm F doc = docN sc pm F doc' := sumBy_perm _ h

theorem apply_ok_run {mm g doc g' ps'} (h : apply mm g doc = .ok (g', ps')) :
    ∃ n sf, run mm n (init g doc) = some (.ok sf) ∧ sf.g = g' ∧ sf.ps = ps' ∧ sf.deferred = [] := by
  unfold apply at h
  split at h
  · cases h
  · rename_i r hr
    cases r with
    | error e => simp [Except.bind] at h
    | ok sf =>
      simp only [Except.bind, finish] at h
      split at h
      · rename_i hd; cases h; exact ⟨_, sf, hr, rfl, rfl, hd⟩
      · cases h

theorem apply_ok_nodup {mm g doc g' ps'} (h : apply mm g doc = .ok (g', ps')) :
    (ps'.map Prod.fst).Nodup := by
  obtain ⟨n, sf, hr, _, hps, _⟩ := apply_ok_run h
  have := (run_ps n _ sf hr).2 (by simp [init])
  rwa [hps] at this

theorem mem_iff_lookup (l : Promises) (hn : (l.map Prod.fst).Nodup) (p : Str) (i : Id) :
    (p, i) ∈ l ↔ l.lookup p = some i := by
  induction l with
  | nil => simp
  | cons x t ih =>
    obtain ⟨k, v⟩ := x
    simp only [List.map_cons, List.nodup_cons] at hn
    simp only [List.mem_cons, Prod.mk.injEq, List.lookup]
    by_cases hk : p = k
    · subst hk
      simp only [BEq.rfl, true_and]
      constructor
      · rintro (rfl | hm)
        · rfl
        · exact absurd (List.mem_map_of_mem (f := Prod.fst) hm) hn.1
      · intro h; cases h; exact Or.inl rfl
    · have : (p == k) = false := by simp [hk]
      simp [this, hk, ih hn.2]

theorem lookup_of_perm {l l' : Promises} (hp : l.Perm l') (hn : (l.map Prod.fst).Nodup)
    (hn' : (l'.map Prod.fst).Nodup) (p : Str) : l.lookup p = l'.lookup p := by
  cases h : l.lookup p with
  | some i =>
    have := (mem_iff_lookup l hn p i).mpr h
    exact ((mem_iff_lookup l' hn' p i).mp (hp.mem_iff.mp this)).symm
  | none =>
    cases h' : l'.lookup p with
    | none => rfl
    | some j =>
      have := (mem_iff_lookup l' hn' p j).mpr h'
      have := (mem_iff_lookup l hn p j).mp (hp.mem_iff.mpr this)
      rw [h] at this; cases this

theorem members_perm {g g' : Graph} (h : g.edges.Perm g'.edges) (o : Id) (a : Str) :
    (g.members o a).Perm (g'.members o a) := by
  unfold Graph.members
  exact (h.filter _).map _

end Capella.Decl
