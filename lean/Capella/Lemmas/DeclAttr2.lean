import Capella.Lemmas.DeclAttr
/-! Lemmas about the `decl.apply` machine, part 7: conservation of scalar attribute entries along a run. -/
namespace Capella.Decl

theorem doneN_objInd (s : State) (i : Id) : s.doneN (objInd i) = (s.g.objs.map Prod.fst).count i := by
  unfold State.doneN
  have h1 : (fun e : Str × Id => objInd i (.bind e.1 e.2)) = fun _ => 0 := rfl
  have h2 : (fun e : Id × Str × Id => objInd i (.edge e.1 e.2.1 e.2.2)) = fun _ => 0 := rfl
  have h3 : (fun e : Id × Str => objInd i (.obj e.1 e.2)) = fun e => if e.1 = i then 1 else 0 := rfl
  rw [h1, h2, h3, sumBy_zero, sumBy_zero, sumBy_idCount]
  omega

structure AInv (mm : MM) (sc : Str → Option Str → Str) (pm : Str → Option Id) (c : (Eff → Nat) → Nat)
    (cA : (AttrE → Nat) → Nat) (s : State) : Prop where
  inv : Inv mm sc True pm c s
  atoms : s.all atomsHead (fun _ => True)
  dom : ScalDom s.g
  nd : (s.g.scal.map Prod.fst).Nodup
  cons : ∀ G, sumBy G s.g.scal + s.pendA pm G = cA G

theorem create_scal (g : Graph) (par attr nid cls rs) :
    (g.create par attr nid cls rs).scal = (({ g with objs := g.objs ++ [(nid, cls)] } : Graph).setScals nid rs).scal := by
  simp [Graph.create, Graph.append]

theorem AInv.step {mm sc pm c cA s s'} (hc1 : ∀ i, c (objInd i) ≤ 1) (h : AInv mm sc pm c cA s)
    (hs : step mm s = .ok (some s')) : AInv mm sc pm c cA s' := by
  obtain ⟨k, hk⟩ := step_ceStep h.inv.ce hs
  have hinv' := (step_ce h.inv hs).1
  have hat' := hk.all_fwd h.atoms
  cases hk with
  | nil par attr rest ha =>
    refine ⟨hinv', hat', h.dom, h.nd, fun G => ?_⟩
    have := h.cons G
    simpa [State.pendA, ha, sumBy, Work.attrN, itemsAttrN] using this
  | setsNil par rest ha =>
    refine ⟨hinv', hat', h.dom, h.nd, fun G => ?_⟩
    have := h.cons G
    simpa [State.pendA, ha, sumBy, Work.attrN] using this
  | deferRef b par attr v p hp hr =>
    obtain ⟨hg, _, _⟩ := hp.same
    refine ⟨hinv', hat', by simpa [State.defer, hg] using h.dom, by simpa [State.defer, hg] using h.nd, fun G => ?_⟩
    have h1 := h.cons G
    have h2 := hp.pendA (pm := pm) (G := G)
    have h3 := defer_pendA (pm := pm) (G := G) b p (.piece par (.item attr (.ref v)))
    simp only [Action.attrN] at h3
    have e2 : (b.defer p (.piece par (.item attr (.ref v)))).g.scal = s.g.scal := by simp [State.defer, hg]
    rw [e2, h3]
    omega
  | deferObj b par attr nid pid ty scal kids p hp hr =>
    obtain ⟨hg, _, _⟩ := hp.same
    refine ⟨hinv', hat', by simpa [State.defer, hg] using h.dom, by simpa [State.defer, hg] using h.nd, fun G => ?_⟩
    have h1 := h.cons G
    have h2 := hp.pendA (pm := pm) (G := G)
    have h3 := defer_pendA (pm := pm) (G := G) b p (.piece par (.item attr (.obj nid pid ty scal kids)))
    simp only [Action.attrN] at h3
    have e2 : (b.defer p (.piece par (.item attr (.obj nid pid ty scal kids)))).g.scal = s.g.scal := by simp [State.defer, hg]
    rw [e2, h3]
    omega
  | append b par attr v i hp hr =>
    obtain ⟨hg, _, _⟩ := hp.same
    refine ⟨hinv', hat', by simpa [Graph.append, ScalDom, hg] using h.dom, by simpa [Graph.append, hg] using h.nd, fun G => ?_⟩
    have h1 := h.cons G
    have h2 := hp.pendA (pm := pm) (G := G)
    simp only [Item.attrN] at h2
    have e1 : ({ b with g := b.g.append par attr i } : State).pendA pm G = b.pendA pm G := rfl
    have e2 : ({ b with g := b.g.append par attr i } : State).g.scal = s.g.scal := by simp [Graph.append, hg]
    rw [e1, e2]
    omega
  | single b par attr nid str cr k' fx cls hp hk hc =>
    exact (Item.all_head (hp.all_iff.mp h.atoms).1).elim
  | create b par attr nid pid ty scal kids rs cr sg fx cls s2 hp hr hk hc hf =>
    obtain ⟨hg, hps, _⟩ := hp.same
    have hx : atomsHead (.obj nid pid ty scal kids) := Item.all_head (hp.all_iff.mp h.atoms).1
    obtain ⟨hatoms, hknd⟩ := hx
    -- the id of the site is fresh
    have hnew : nid ∉ s.g.objs.map Prod.fst := by
      have h1 := h.inv.cons (objInd nid) (Or.inl trivial) (Or.inr (by intro j c c'; rfl)) (by intro p j _; rfl)
      have h2 := (hp.pendN (sc := sc) (pm := pm) (F := objInd nid)).1
      have h3 : 1 ≤ (Item.obj nid pid ty scal kids).effN sc pm (objInd nid) par attr := by
        simp only [Item.effN, objInd, ↓reduceIte]; omega
      rw [doneN_objInd] at h1
      have := hc1 nid
      intro hm
      have : 0 < (s.g.objs.map Prod.fst).count nid := List.count_pos_iff.mpr hm
      omega
    have hrs := resolveScal_atoms (pm := pm) (hps ▸ h.inv.ag) hatoms hr
    have hkeys : rs.map Prod.fst = scal.map Prod.fst := by rw [hrs]; simp [List.map_map, Function.comp_def]
    have hfresh : ∀ k ∈ rs.map Prod.fst, (nid, k) ∉ ({ b.g with objs := b.g.objs ++ [(nid, cls)] } : Graph).scal.map Prod.fst := by
      intro k _ hm
      simp only [List.mem_map] at hm
      obtain ⟨e, he, hek⟩ := hm
      have := h.dom e (by simpa [hg] using he)
      rw [hek] at this
      exact hnew this
    have hsum := fun G => setScals_scal G nid rs ({ b.g with objs := b.g.objs ++ [(nid, cls)] } : Graph) hfresh (hkeys ▸ hknd)
    obtain ⟨_, hg2⟩ := fulfilOpt_pendA (pm := pm) (G := fun _ => 0) hf
    have hscal : s2.g.scal = (({ b.g with objs := b.g.objs ++ [(nid, cls)] } : Graph).setScals nid rs).scal := by
      rw [hg2]
      show (b.g.create par attr nid cls rs).scal = _
      exact create_scal b.g par attr nid cls rs
    have hobjs : s2.g.objs = s.g.objs ++ [(nid, cls)] := by
      rw [hg2]
      show (b.g.create par attr nid cls rs).objs = _
      rw [(create_objs b.g par attr nid cls rs).1, hg]
    refine ⟨hinv', hat', ?_, ?_, fun G => ?_⟩
    · intro e he
      simp only [hscal] at he
      simp only [hobjs, List.map_append, List.mem_append, List.map_cons, List.map_nil, List.mem_singleton]
      rcases setScals_dom nid rs _ e he with h' | h'
      · left; exact h.dom e (by simpa [hg] using h')
      · right; exact h'
    · simp only [hscal]
      exact setScals_keys_nodup nid rs _ (by simpa [hg] using h.nd)
    · have h1 := h.cons G
      have h2 := hp.pendA (pm := pm) (G := G)
      obtain ⟨h3, _⟩ := fulfilOpt_pendA (pm := pm) (G := G) hf
      have h4 := hsum G
      have h5 : sumBy G (rs.map fun kv => ((nid, kv.1), kv.2)) = sumBy G (scalAttrs pm nid scal) := by
        rw [hrs]; simp [scalAttrs, List.map_map, Function.comp_def]
      simp only [Item.attrN] at h2
      simp only [hscal, h4, h5]
      have h6 : ({ s2 with agenda := kids.map (fun kl => Work.items nid kl.1 kl.2) ++ s2.agenda } : State).pendA pm G
          = kidsAttrN pm G kids + s2.pendA pm G := by
        simp only [State.pendA, sumBy_append, kidsAttrN_eq]; omega
      have h7 : ({ b with g := b.g.create par attr nid cls rs } : State).pendA pm G = b.pendA pm G := rfl
      simp only [hg] at h4 ⊢
      omega
  | deferWhole i q p ha hq hr =>
    refine ⟨hinv', hat', h.dom, h.nd, fun G => ?_⟩
    have := h.cons G
    simp only [State.defer, State.pendA, hq, sumBy_append, sumBy] at this ⊢
    omega
  | expand i q par ha hq hr =>
    refine ⟨hinv', hat', h.dom, h.nd, fun G => ?_⟩
    have := h.cons G
    have hi : i.all atomsHead (fun _ => True) := h.atoms.2.1 (.whole i) (by simp [hq])
    have hw := worksOf_attrN pm G par i hi
    simp only [State.pendA, hq, ha, sumBy, Action.attrN, hw] at this ⊢
    omega

/-- the attribute entries a document describes -/
def docA (pm : Str → Option Id) (G : AttrE → Nat) (doc : List Instr) : Nat := sumBy (Instr.attrN pm G) doc

/-- the ids of the creation sites are pairwise distinct and not in the graph (fresh UUIDs) -/
def FreshDoc (sc : Str → Option Str → Str) (pm : Str → Option Id) (g : Graph) (doc : List Instr) : Prop :=
  ∀ i, (g.objs.map Prod.fst).count i + docN sc pm (objInd i) doc ≤ 1

/-- **conservation of scalar attributes**: after a successful run the scalar entries of the graph are those it
had plus, for every object description, its attributes with every `!promise` replaced by its declarer -/
theorem apply_attrs {mm sc pm g doc g' ps'} (hdoc : DocCE True pm doc)
    (hat : ∀ i ∈ doc, i.all atomsHead (fun _ => True)) (hfresh : FreshDoc sc pm g doc) (hdom : ScalDom g)
    (hnd : (g.scal.map Prod.fst).Nodup) (h : apply mm g doc = .ok (g', ps')) :
    (∀ G, sumBy G g'.scal = sumBy G g.scal + docA pm G doc) ∧ (g'.scal.map Prod.fst).Nodup := by
  obtain ⟨n, sf, hr, hg, _, hd⟩ := apply_ok_run h
  let c : (Eff → Nat) → Nat := fun F => resN F g [] + docN sc pm F doc
  have hc1 : ∀ i, c (objInd i) ≤ 1 := by
    intro i
    have := hfresh i
    have h3 : (fun e : Id × Str => objInd i (.obj e.1 e.2)) = fun e => if e.1 = i then 1 else 0 := rfl
    have h2 : (fun e : Id × Str × Id => objInd i (.edge e.1 e.2.1 e.2.2)) = fun _ => 0 := rfl
    simp only [c, resN, sumBy, h2, h3, sumBy_zero, sumBy_idCount]
    omega
  have h0 : AInv mm sc pm c (fun G => sumBy G g.scal + docA pm G doc) (init g doc) :=
    ⟨init_inv g doc hdoc, init_all g doc hat, hdom, hnd, fun G => by
      simp [init, State.pendA, sumBy, sumBy_map, Action.attrN, docA]⟩
  have := run_keeps (P := AInv mm sc pm c (fun G => sumBy G g.scal + docA pm G doc))
    (fun s s' hs hst => hs.step hc1 hst) n _ _ h0 hr
  obtain ⟨hsf, hnone⟩ := this
  obtain ⟨ha, hq⟩ := step_none hnone
  refine ⟨fun G => ?_, hg ▸ hsf.nd⟩
  have := hsf.cons G
  simpa [State.pendA, ha, hq, hd, sumBy, hg] using this

end Capella.Decl

namespace Capella.Decl

theorem mem_iff_lookup' {α β : Type} [BEq α] [LawfulBEq α] (l : List (α × β)) (hn : (l.map Prod.fst).Nodup) (k : α) (v : β) :
    (k, v) ∈ l ↔ l.lookup k = some v := by
  induction l with
  | nil => simp
  | cons x t ih =>
    obtain ⟨k', v'⟩ := x
    simp only [List.map_cons, List.nodup_cons] at hn
    simp only [List.mem_cons, Prod.mk.injEq, List.lookup]
    by_cases hk : k = k'
    · subst hk
      simp only [BEq.rfl, true_and]
      constructor
      · rintro (rfl | hm)
        · rfl
        · exact absurd (List.mem_map_of_mem (f := Prod.fst) hm) hn.1
      · intro h; cases h; exact Or.inl rfl
    · have : (k == k') = false := by simp [hk]
      simp [this, hk, ih hn.2]

theorem lookup_of_perm' {α β : Type} [BEq α] [LawfulBEq α] {l l' : List (α × β)} (hp : l.Perm l')
    (hn : (l.map Prod.fst).Nodup) (hn' : (l'.map Prod.fst).Nodup) (k : α) : l.lookup k = l'.lookup k := by
  cases h : l.lookup k with
  | some v =>
    have := (mem_iff_lookup' l hn k v).mpr h
    exact ((mem_iff_lookup' l' hn' k v).mp (hp.mem_iff.mp this)).symm
  | none =>
    cases h' : l'.lookup k with
    | none => rfl
    | some v =>
      have := (mem_iff_lookup' l' hn' k v).mpr h'
      have := (mem_iff_lookup' l hn k v).mp (hp.mem_iff.mpr this)
      rw [h] at this; cases this

theorem docA_perm {pm G} {doc doc' : List Instr} (h : doc.Perm doc') : docA pm G doc = docA pm G doc' :=
  sumBy_perm _ h

/-- two successful orders leave every scalar attribute of every object with the same value -/
theorem scalars_order_independent {mm sc pm g doc doc' g1 ps1 g2 ps2} (hdoc : DocCE True pm doc)
    (hat : ∀ i ∈ doc, i.all atomsHead (fun _ => True)) (hfresh : FreshDoc sc pm g doc) (hdom : ScalDom g)
    (hnd : (g.scal.map Prod.fst).Nodup) (hp : doc.Perm doc')
    (h : apply mm g doc = .ok (g1, ps1)) (h' : apply mm g doc' = .ok (g2, ps2)) :
    ∀ i k, g1.getScal i k = g2.getScal i k := by
  have hdoc' : DocCE True pm doc' := fun i hi => hdoc i (hp.mem_iff.mpr hi)
  have hat' : ∀ i ∈ doc', i.all atomsHead (fun _ => True) := fun i hi => hat i (hp.mem_iff.mpr hi)
  have hfresh' : FreshDoc sc pm g doc' := by intro i; rw [← docN_perm hp]; exact hfresh i
  obtain ⟨a1, n1⟩ := apply_attrs hdoc hat hfresh hdom hnd h
  obtain ⟨a2, n2⟩ := apply_attrs hdoc' hat' hfresh' hdom hnd h'
  have hperm : g1.scal.Perm g2.scal := by
    rw [List.perm_iff_count]
    intro e
    have e1 := a1 (fun x => if x == e then 1 else 0)
    have e2 := a2 (fun x => if x == e then 1 else 0)
    rw [sumBy_count] at e1 e2
    rw [e1, e2, docA_perm hp]
  intro i k
  unfold Graph.getScal
  exact lookup_of_perm' hperm n1 n2 (i, k)

end Capella.Decl
