import Capella.Model.Factories
import Capella.Lemmas.Effects

/-!
# Every modelled factory of the diagram parser is read-only (C11)

One lemma per program of `Capella/Model/Factories.lean`: no write request is reachable, whatever the
trees answer.  The proofs walk the program text (`ro_step`): a `bind` is read-only if both sides are,
a primitive read is, `mapP` over a read-only body is, and every `match` / `if` is split.  The three
programs of `Coded` (the factories before the repair) are *not* read-only; `Props/C11.lean` shows this.
-/
namespace Capella.Factories
open Capella.Effects Capella.Effects.Prog

attribute [local irreducible] setfilters objName followOpt boxGeneric boxStacked classParam classFeature boxClass boxComponentPort specText boxConstraint boxControlNode boxEnumeration boxPart boxRequirement boxRegion activity boxStateModeActivities boxStateMode boxFcif endPort multiplicity edgeLabels edgeGeneric edgeLabelless edgePortAllocation followAll guardText edgeStateTransition edgeSequenceLink edgeFcil edgeEie edgeFex edgeAssociation shapeParent visShape visConnector semanticFromXml visualFromXml elementFromXml parseElems edgeReqRel edgeIncExt

macro "ro_step" : tactic => `(tactic| first
  | exact ReadOnly.ret _
  | exact ReadOnly.pure _
  | exact ro_getA _ _ | exact ro_allA _ | exact ro_kidsP _ _ | exact ro_allKids _ | exact ro_parentP _
  | exact ro_followP _ | exact ro_tagP _ | exact ro_textP _
  | apply ReadOnly.bindM
  | apply ReadOnly.mapP
  | intro _
  | split
  | (show ReadOnly _; dsimp only))

theorem ro_setfilters (s : Seb) : ReadOnly (setfilters s) := by
  unfold setfilters; repeat' ro_step

theorem ro_objName (n : Nat) : ReadOnly (objName n) := by
  unfold objName; repeat' ro_step

theorem ro_followOpt (l : Option Str) : ReadOnly (followOpt l) := by
  unfold followOpt; repeat' ro_step

macro "ro_base" : tactic => `(tactic| first
  | exact ro_setfilters _ | exact ro_objName _ | exact ro_followOpt _ | ro_step)

theorem ro_boxGeneric (s : Seb) (ctx : Ctx) (sym : Bool) : ReadOnly (boxGeneric s ctx sym) := by
  unfold boxGeneric; repeat' ro_base

theorem ro_boxStacked (s : Seb) (ctx : Ctx) : ReadOnly (boxStacked s ctx) := by
  unfold boxStacked; repeat' (first | exact ro_boxGeneric _ _ _ | ro_base)

theorem ro_classParam (p : Nat) : ReadOnly (classParam p) := by
  unfold classParam; repeat' ro_base

theorem ro_classFeature (f : Nat) : ReadOnly (classFeature f) := by
  unfold classFeature; repeat' (first | exact ro_classParam _ | ro_base)

theorem ro_boxClass (s : Seb) (ctx : Ctx) : ReadOnly (boxClass s ctx) := by
  unfold boxClass; repeat' (first | exact ro_boxGeneric _ _ _ | exact ro_classFeature _ | ro_base)

theorem ro_boxComponentPort (s : Seb) (ctx : Ctx) : ReadOnly (boxComponentPort s ctx) := by
  unfold boxComponentPort; repeat' (first | exact ro_boxGeneric _ _ _ | ro_base)

theorem ro_specText (o : Nat) : ReadOnly (specText o) := by
  unfold specText; repeat' ro_base

theorem ro_boxConstraint (s : Seb) (ctx : Ctx) : ReadOnly (boxConstraint s ctx) := by
  unfold boxConstraint; repeat' (first | exact ro_boxGeneric _ _ _ | exact ro_specText _ | ro_base)

theorem ro_boxControlNode (s : Seb) (ctx : Ctx) : ReadOnly (boxControlNode s ctx) := by
  unfold boxControlNode; repeat' (first | exact ro_boxGeneric _ _ _ | ro_base)

theorem ro_boxEnumeration (s : Seb) (ctx : Ctx) : ReadOnly (boxEnumeration s ctx) := by
  unfold boxEnumeration; repeat' (first | exact ro_boxGeneric _ _ _ | ro_base)

theorem ro_boxPart (s : Seb) (ctx : Ctx) : ReadOnly (boxPart s ctx) := by
  unfold boxPart; repeat' (first | exact ro_boxGeneric _ _ _ | ro_base)

theorem ro_boxRequirement (s : Seb) (ctx : Ctx) : ReadOnly (boxRequirement s ctx) := by
  unfold boxRequirement; repeat' (first | exact ro_boxGeneric _ _ _ | ro_base)

theorem ro_boxRegion (s : Seb) (ctx : Ctx) : ReadOnly (boxRegion s ctx) := by
  unfold boxRegion; repeat' (first | exact ro_boxGeneric _ _ _ | ro_base)

theorem ro_activity (el : Nat) : ReadOnly (activity el) := by
  unfold activity; repeat' ro_base

theorem ro_boxStateModeActivities (s : Seb) (ctx : Ctx) : ReadOnly (boxStateModeActivities s ctx) := by
  unfold boxStateModeActivities; repeat' (first | exact ro_activity _ | ro_base)

theorem ro_boxStateMode (s : Seb) (ctx : Ctx) : ReadOnly (boxStateMode s ctx) := by
  unfold boxStateMode
  repeat' (first | exact ro_boxStacked _ _ | exact ro_boxStateModeActivities _ _ | ro_base)

theorem ro_boxFcif (s : Seb) (ctx : Ctx) : ReadOnly (boxFcif s ctx) := by
  unfold boxFcif; repeat' (first | exact ro_boxGeneric _ _ _ | ro_base)

theorem ro_boxPseudo (s : Seb) (ctx : Ctx) : ReadOnly (boxPseudo s ctx) := ro_boxGeneric _ _ _

theorem ro_endPort (s : Seb) (ctx : Ctx) (side : String) : ReadOnly (endPort s ctx side) := by
  unfold endPort; repeat' ro_base

theorem ro_multiplicity (o : Nat) : ReadOnly (multiplicity o) := by
  unfold multiplicity; repeat' ro_base

theorem ro_edgeLabels (s : Seb) (l : Option Str) : ReadOnly (edgeLabels s l) := by
  unfold edgeLabels; repeat' (first | exact ro_multiplicity _ | ro_base)

theorem ro_edgeGeneric (s : Seb) (ctx : Ctx) (l : Option Str) : ReadOnly (edgeGeneric s ctx l) := by
  unfold edgeGeneric; repeat' (first | exact ro_endPort _ _ _ | exact ro_edgeLabels _ _ | ro_base)

macro "ro_edge" : tactic => `(tactic| first
  | exact ro_edgeGeneric _ _ _ | exact ro_endPort _ _ _ | exact ro_specText _ | ro_base)

theorem ro_edgeLabelless (s : Seb) (ctx : Ctx) : ReadOnly (edgeLabelless s ctx) := by
  unfold edgeLabelless; repeat' ro_edge

theorem ro_edgePortAllocation (s : Seb) (ctx : Ctx) : ReadOnly (edgePortAllocation s ctx) := by
  unfold edgePortAllocation; repeat' ro_edge

theorem ro_followAll (v : Option Str) : ReadOnly (followAll v) := by
  unfold followAll; repeat' ro_base

theorem ro_guardText (o : Nat) (a : String) : ReadOnly (guardText o a) := by
  unfold guardText; repeat' (first | exact ro_followAll _ | ro_edge)

theorem ro_edgeStateTransition (s : Seb) (ctx : Ctx) : ReadOnly (edgeStateTransition s ctx) := by
  unfold edgeStateTransition; repeat' (first | exact ro_followAll _ | exact ro_guardText _ _ | ro_edge)

theorem ro_edgeSequenceLink (s : Seb) (ctx : Ctx) : ReadOnly (edgeSequenceLink s ctx) := by
  unfold edgeSequenceLink; repeat' (first | exact ro_guardText _ _ | ro_edge)

theorem ro_edgeFcil (s : Seb) (ctx : Ctx) : ReadOnly (edgeFcil s ctx) := by
  unfold edgeFcil; repeat' ro_edge

theorem ro_edgeEie (s : Seb) (ctx : Ctx) : ReadOnly (edgeEie s ctx) := by
  unfold edgeEie; repeat' ro_edge

theorem ro_edgeFex (s : Seb) (ctx : Ctx) : ReadOnly (edgeFex s ctx) := by
  unfold edgeFex; repeat' ro_edge

theorem ro_edgeReqRel (s : Seb) (ctx : Ctx) : ReadOnly (edgeReqRel s ctx) := by
  unfold edgeReqRel; repeat' ro_edge

theorem ro_edgeIncExt (s : Seb) (ctx : Ctx) : ReadOnly (edgeIncExt s ctx) := by
  unfold edgeIncExt; repeat' ro_edge

theorem ro_edgeAssociation (s : Seb) (ctx : Ctx) : ReadOnly (edgeAssociation s ctx) := by
  unfold edgeAssociation; repeat' ro_edge

theorem ro_shapeParent (ctx : Ctx) (fuel n : Nat) : ReadOnly (shapeParent ctx fuel n) := by
  induction fuel generalizing n with
  | zero => unfold shapeParent; exact ReadOnly.pure _
  | succ k ih => unfold shapeParent; repeat' (first | exact ih _ | ro_base)

theorem ro_visShape (d : Nat) (ctx : Ctx) : ReadOnly (visShape d ctx) := by
  unfold visShape; repeat' (first | exact ro_shapeParent _ _ _ | ro_base)

theorem ro_visConnector (d t : Nat) (ctx : Ctx) : ReadOnly (visConnector d t ctx) := by
  unfold visConnector; repeat' ro_edge

/-- every factory the model knows is read-only; only `.other` (a function the model has never seen) is not -/
theorem ro_factoryProg (f : Factory) (h : f.isOther = false) (s : Seb) (ctx : Ctx) :
    ReadOnly (factoryProg f s ctx) := by
  cases f with
  | boxGeneric => exact ro_boxGeneric _ _ _
  | boxStacked => exact ro_boxStacked _ _
  | boxClass => exact ro_boxClass _ _
  | boxComponentPort => exact ro_boxComponentPort _ _
  | boxConstraint => exact ro_boxConstraint _ _
  | boxControlNode => exact ro_boxControlNode _ _
  | boxEnumeration => exact ro_boxEnumeration _ _
  | boxPart => exact ro_boxPart _ _
  | boxRequirement => exact ro_boxRequirement _ _
  | boxRegion => exact ro_boxRegion _ _
  | boxStateMode => exact ro_boxStateMode _ _
  | boxFcif => exact ro_boxFcif _ _
  | boxPseudo => exact ro_boxPseudo _ _
  | edgeGeneric => exact ro_edgeGeneric _ _ _
  | edgeLabelless => exact ro_edgeLabelless _ _
  | edgePortAllocation => exact ro_edgePortAllocation _ _
  | edgeStateTransition => exact ro_edgeStateTransition _ _
  | edgeSequenceLink => exact ro_edgeSequenceLink _ _
  | edgeConstraint => exact ro_edgeLabelless _ _
  | edgeFcil => exact ro_edgeFcil _ _
  | edgeEie => exact ro_edgeEie _ _
  | edgeFex => exact ro_edgeFex _ _
  | edgeReqRel => exact ro_edgeReqRel _ _
  | edgeIncExt => exact ro_edgeIncExt _ _
  | edgeAssociation => exact ro_edgeAssociation _ _
  | skip => exact ReadOnly.pure _
  | visConnector => exact ro_visConnector _ _ _
  | visShape => exact ro_visShape _ _
  | fltHideEmptyPorts => exact ReadOnly.pure _
  | gHideAssociationLabels => exact ReadOnly.pure _
  | gHideRoleNames => exact ReadOnly.pure _
  | gShowNameAndEiFex => exact ReadOnly.pure _
  | gShowEiFex => exact ReadOnly.pure _
  | gShowEiCex => exact ReadOnly.pure _
  | gShowEiCexNoFex => exact ReadOnly.pure _
  | gHideAllEmptyPorts => exact ReadOnly.pure _
  | gHideAllocFex => exact ReadOnly.pure _
  | other n => simp [Factory.isOther] at h

/-- all rows of the table dispatch to functions the model knows -/
def tableModelled (tbl : List DispatchRow) : Prop := ∀ r ∈ tbl, r.modelledB = true

theorem ro_row {tbl : List DispatchRow} (h : tableModelled tbl) {r : DispatchRow} (hr : r ∈ tbl)
    (s : Seb) (ctx : Ctx) : ReadOnly (factoryProg (Factory.ofName r.name) s ctx) := by
  apply ro_factoryProg
  have := h r hr
  simpa [DispatchRow.modelledB] using this

theorem selectRow_mem {rows : List DispatchRow} {tag : Str} {r : DispatchRow}
    (h : selectRow rows tag = some r) : r ∈ rows := by
  unfold selectRow at h
  split at h
  · cases h; exact List.mem_of_find?_eq_some (by assumption)
  · split at h
    · exact List.mem_of_find?_eq_some h
    · split at h
      · exact List.mem_of_find?_eq_some h
      · cases h

theorem rowsFor_sub (tbl : List DispatchRow) (k : TableKind) (key : Str) :
    ∀ r ∈ rowsFor tbl k key, r ∈ tbl := fun _ hr => (List.mem_filter.mp hr).1

theorem pickRows_sub (tbl : List DispatchRow) (sc0 : Str) : ∀ r ∈ (pickRows tbl sc0).2, r ∈ tbl := by
  intro r hr
  unfold pickRows at hr
  dsimp only at hr
  split at hr <;> exact rowsFor_sub _ _ _ _ hr

theorem ro_semanticFromXml {tbl : List DispatchRow} (h : tableModelled tbl) (data dtree : Nat) (ctx : Ctx) :
    ReadOnly (semanticFromXml tbl data dtree ctx) := by
  unfold semanticFromXml
  repeat' (first
    | (apply ro_row h; exact pickRows_sub _ _ _ (selectRow_mem (by assumption)))
    | ro_base)

theorem ro_visualFromXml {tbl : List DispatchRow} (h : tableModelled tbl) (data dtree : Nat) (ctx : Ctx) :
    ReadOnly (visualFromXml tbl data dtree ctx) := by
  unfold visualFromXml
  repeat' (first
    | (apply ro_row h; exact rowsFor_sub _ _ _ _ (List.mem_of_mem_head? (by assumption)))
    | ro_base)

theorem ro_elementFromXml {tbl : List DispatchRow} (h : tableModelled tbl) (data dtree : Nat) (ctx : Ctx) :
    ReadOnly (elementFromXml tbl data dtree ctx) := by
  unfold elementFromXml
  repeat' (first | exact ro_semanticFromXml h _ _ _ | exact ro_visualFromXml h _ _ _ | ro_base)

/-- the element loop of `parse_diagram` is read-only, for element lists of any length -/
theorem ro_parseElems {tbl : List DispatchRow} (h : tableModelled tbl) (dtree : Nat) (ds : List Nat) (ctx : Ctx) :
    ReadOnly (parseElems tbl dtree ds ctx) := by
  induction ds generalizing ctx with
  | nil => unfold parseElems; exact ReadOnly.pure _
  | cons d r ih =>
    unfold parseElems
    repeat' (first | exact ro_elementFromXml h _ _ _ | exact ih _ | ro_base)

end Capella.Factories
