import Capella.Lemmas.Txn

/-!
# Save-level lemmas for C15: one fault at index `k`, successful saves, arbitrary fault sequences
-/
namespace Capella.Txn
variable {P : Type} [DecidableEq P] (tmp : P → P) (ord : List P → List P) (σ : Sched)

/-- the temp names of the files a save writes -/
def tmps (frags : List (Frag P)) : List P := frags.map (fun fr => tmp fr.path)

/-- the directory after a committed save: new contents in place, no temp files, the rest as before -/
def committed (frags : List (Frag P)) (fs : P → Option Bytes) : P → Option Bytes :=
  fun q => match newContent frags q with
    | some c => some c
    | none => if q ∈ tmps tmp frags then none else fs q

theorem paths_map_tmp (frags : List (Frag P)) :
    (paths (frags.map Op.frag)).map tmp = tmps tmp frags := by
  simp [tmps, List.map_map, Function.comp_def]

theorem afterBody_frags (frags : List (Frag P)) (s : St P) :
    afterBody tmp σ (frags.map Op.frag) s = runBody tmp σ (frags.map Op.frag) { s with txn := some [] } := rfl

/-- One fault, at the `k`-th effectful call of the save, `k` anywhere from the first `open` up to and
including the first `replace`: the error is the injected one, and every path is as before or is a
temp name that does not exist. -/
theorem single_fault_restores (hord : ∀ l, (ord l).Perm l) (s : St P) (h : s.txn = none)
    (frags : List (Frag P)) (hg : GoodFrags [] frags) (hok : TmpOK tmp (frags.map (·.path)))
    (dry : Bool) (k : Nat) (f : Fault)
    (hk : k < 5 * frags.length ∨ (k = 5 * frags.length ∧ dry = false ∧ frags ≠ [])) :
    (save tmp ord (single (s.clock + k) f) none dry frags s).2 = some f.err ∧
    ∀ q, (save tmp ord (single (s.clock + k) f) none dry frags s).1.fs q = s.fs q ∨
      (q ∈ tmps tmp frags ∧ (save tmp ord (single (s.clock + k) f) none dry frags s).1.fs q = none) := by
  simp only [save, ← paths_map_tmp]
  have hd := frags_dich tmp (single (s.clock + k) f) frags { s with txn := some [] } [] rfl hg (by simpa using hok)
  rw [← afterBody_frags] at hd
  simp only [List.nil_append] at hd
  rcases hk with hk | ⟨hk, hdry, hne⟩
  · rcases hd with ⟨_, hq, _⟩ | ⟨n, f', he, hn1, hn2, hσ, _⟩
    · exfalso
      have := hq (s.clock + k) (Nat.le_add_right _ _) (by show s.clock + k < s.clock + 5 * frags.length; omega)
      simp [single] at this
    · simp only [single] at hσ
      split at hσ
      · rename_i hn
        cases hσ
        exact abort_restores' tmp ord _ hord dry _ s h f.err he (single_quietFrom _ _ _ (by omega))
      · cases hσ
  · subst hdry
    rcases hd with ⟨he, hq, hc, ht, _⟩ | ⟨n, f', he, hn1, hn2, hσ, hle⟩
    · refine first_rename_restores' tmp ord _ hord _ s h he f ?_ ?_ (single_quietFrom _ _ _ (by rw [hc]; show s.clock + k < s.clock + 5 * frags.length + 1; omega))
      · rw [ht]
        intro hh
        cases frags with
        | nil => exact hne rfl
        | cons a as => simp at hh
      · rw [hc]; simp [single, hk]
    · exfalso
      simp only [single] at hσ
      split at hσ
      · rename_i hn
        have hle' : (afterBody tmp (single (s.clock + k) f) (frags.map Op.frag) s).1.clock ≤ s.clock + 5 * frags.length := hle
        omega
      · cases hσ

/-- Any schedule: what a save that reports no error has done. -/
theorem success_spec (hord : ∀ l, (ord l).Perm l) (s : St P) (h : s.txn = none)
    (frags : List (Frag P)) (hg : GoodFrags [] frags) (hok : TmpOK tmp (frags.map (·.path)))
    (hs : (save tmp ord σ none false frags s).2 = none) :
    ∀ q, (save tmp ord σ none false frags s).1.fs q = committed tmp frags s.fs q := by
  simp only [save] at hs ⊢
  rw [transaction_phases tmp ord σ false _ s h] at hs ⊢
  have hd := frags_dich tmp σ frags { s with txn := some [] } [] rfl hg (by simpa using hok)
  rw [← afterBody_frags] at hd
  simp only [List.nil_append] at hd
  rcases hd with ⟨he, _, _, ht, hf⟩ | ⟨n, f', he, _⟩
  · -- body fine: look at the commit loop
    have hnd : (ord (frags.map (·.path))).Nodup := (hord _).nodup_iff.mpr hg.1
    have hok' : TmpOK tmp (ord (frags.map (·.path))) :=
      ⟨fun a ha b hb => hok.1 a ((hord _).mem_iff.mp ha) b ((hord _).mem_iff.mp hb),
       fun a ha b hb => hok.2 a ((hord _).mem_iff.mp ha) b ((hord _).mem_iff.mp hb)⟩
    have hex : ∀ p ∈ ord (frags.map (·.path)), (afterBody tmp σ (frags.map Op.frag) s).1.fs (tmp p) ≠ none := by
      intro p hp
      obtain ⟨fr, hfr, rfl⟩ := List.mem_map.mp ((hord _).mem_iff.mp hp)
      rw [hf, stage_tmp tmp frags _ hg.1 hok fr hfr]
      simp
    obtain ⟨done, rest, e1, e2, e3, _, _, e6⟩ :=
      commit_spec tmp σ (ord (frags.map (·.path))) (afterBody tmp σ (frags.map Op.frag) s).1 _ ht hnd hok' hex
    have hc : afterCommit tmp ord σ false (afterBody tmp σ (frags.map Op.frag) s) =
        commit tmp σ (ord (frags.map (·.path))) (afterBody tmp σ (frags.map Op.frag) s).1 := by
      simp [afterCommit, he, ht]
    rw [hc] at hs ⊢
    -- no error overall: neither from clean-up nor from commit
    have hcommit : (commit tmp σ (ord (frags.map (·.path))) (afterBody tmp σ (frags.map Op.frag) s).1).2 = none := by
      simp only [afterCleanup] at hs
      split at hs
      · cases hs
      · exact hs
    have hrest := e2 hcommit
    subst hrest
    simp only [List.append_nil] at e1
    subst e1
    have hpend : (commit tmp σ (ord (frags.map (·.path))) (afterBody tmp σ (frags.map Op.frag) s).1).1.txn = some [] := by
      rw [e3]
      congr 1
      apply List.filter_eq_nil_iff.mpr
      intro a ha
      simp [(hord _).mem_iff.mpr ha]
    have hnil : ord ([] : List P) = [] := List.Perm.eq_nil (hord [])
    intro q
    simp only [afterCleanup, hpend, Option.getD_some, hnil, cleanup]
    rw [e6 q, hf]
    by_cases hq1 : q ∈ frags.map (·.path)
    · obtain ⟨fr, hfr, rfl⟩ := List.mem_map.mp hq1
      simp only [(hord _).mem_iff.mpr hq1, if_true, committed]
      rw [stage_tmp tmp frags _ hg.1 hok fr hfr, newContent_mem frags hg.1 fr hfr]
    · have hq1' : q ∉ ord (frags.map (·.path)) := fun hh => hq1 ((hord _).mem_iff.mp hh)
      simp only [hq1', if_false, committed, newContent_none frags q hq1]
      by_cases hq2 : q ∈ tmps tmp frags
      · have : q ∈ (ord (frags.map (·.path))).map tmp := by
          obtain ⟨fr, hfr, rfl⟩ := List.mem_map.mp hq2
          exact List.mem_map_of_mem ((hord _).mem_iff.mpr (List.mem_map_of_mem hfr))
        simp [this, hq2]
      · have : q ∉ (ord (frags.map (·.path))).map tmp := by
          intro hm
          obtain ⟨a, ha, rfl⟩ := List.mem_map.mp hm
          obtain ⟨fr, hfr, rfl⟩ := List.mem_map.mp ((hord _).mem_iff.mp ha)
          exact hq2 (List.mem_map_of_mem hfr)
        simp only [this, if_false, hq2]
        exact stage_other tmp frags _ q hq2
  · exfalso
    have hc : afterCommit tmp ord σ false (afterBody tmp σ (frags.map Op.frag) s) =
        ((afterBody tmp σ (frags.map Op.frag) s).1, some f'.err) := by
      simp [afterCommit, he]
    rw [hc] at hs
    simp only [afterCleanup] at hs
    split at hs <;> cases hs

/-- A save without any fault reports no error. -/
theorem noFault_succeeds (hord : ∀ l, (ord l).Perm l) (s : St P) (h : s.txn = none)
    (frags : List (Frag P)) (hg : GoodFrags [] frags) (hok : TmpOK tmp (frags.map (·.path))) (dry : Bool) :
    (save tmp ord noFault none dry frags s).2 = none := by
  simp only [save]
  rw [transaction_phases tmp ord noFault dry _ s h]
  have hd := frags_dich tmp noFault frags { s with txn := some [] } [] rfl hg (by simpa using hok)
  rw [← afterBody_frags] at hd
  simp only [List.nil_append] at hd
  rcases hd with ⟨he, _, _, ht, hf⟩ | ⟨n, f', _, _, _, hσ, _⟩
  · have hcl : ∀ c : Res P, (cleanup tmp noFault (ord (c.1.txn.getD [])) { c.1 with txn := none }).2 = none :=
      fun c => (cleanup_quiet tmp noFault _ _ (noFault_quietFrom _)).1
    simp only [afterCleanup, hcl]
    cases dry
    · have hnd : (ord (frags.map (·.path))).Nodup := (hord _).nodup_iff.mpr hg.1
      have hok' : TmpOK tmp (ord (frags.map (·.path))) :=
        ⟨fun a ha b hb => hok.1 a ((hord _).mem_iff.mp ha) b ((hord _).mem_iff.mp hb),
         fun a ha b hb => hok.2 a ((hord _).mem_iff.mp ha) b ((hord _).mem_iff.mp hb)⟩
      have hex : ∀ p ∈ ord (frags.map (·.path)), (afterBody tmp noFault (frags.map Op.frag) s).1.fs (tmp p) ≠ none := by
        intro p hp
        obtain ⟨fr, hfr, rfl⟩ := List.mem_map.mp ((hord _).mem_iff.mp hp)
        rw [hf, stage_tmp tmp frags _ hg.1 hok fr hfr]
        simp
      obtain ⟨done, rest, _, _, _, _, e5, _⟩ :=
        commit_spec tmp noFault (ord (frags.map (·.path))) (afterBody tmp noFault (frags.map Op.frag) s).1 _ ht hnd hok' hex
      simp only [afterCommit, he, ht, Option.getD_some, Bool.false_eq_true, if_false]
      exact (e5 (fun n _ _ => rfl)).2
    · simp [afterCommit, he]
  · cases hσ

/-- Any fault sequence: a path that is not a temp name is untouched or holds its complete new content. -/
theorem never_torn' (hord : ∀ l, (ord l).Perm l) (s : St P) (h : s.txn = none)
    (frags : List (Frag P)) (hg : GoodFrags [] frags) (hok : TmpOK tmp (frags.map (·.path))) (dry : Bool) :
    ∀ q, q ∉ tmps tmp frags →
      (save tmp ord σ none dry frags s).1.fs q = s.fs q ∨
      (q ∈ frags.map (·.path) ∧ (save tmp ord σ none dry frags s).1.fs q = newContent frags q) := by
  intro q hq
  simp only [save]
  rw [transaction_phases tmp ord σ dry _ s h]
  -- clean-up only removes temp files
  have hclean : ∀ c : Res P, (∀ p ∈ c.1.txn.getD [], p ∈ frags.map (·.path)) →
      (afterCleanup tmp ord σ c).1.fs q = c.1.fs q := by
    intro c hsub
    rcases (cleanup_any tmp σ (ord (c.1.txn.getD [])) { c.1 with txn := none }).2.2 q with hh | ⟨hm, _⟩
    · exact hh
    · exfalso
      obtain ⟨a, ha, rfl⟩ := List.mem_map.mp hm
      obtain ⟨fr, hfr, hfe⟩ := List.mem_map.mp (hsub a ((hord _).mem_iff.mp ha))
      exact hq (by rw [← hfe]; exact List.mem_map_of_mem hfr)
  obtain ⟨l', h1, h2, h3, _⟩ := body_inv tmp σ (frags.map Op.frag) { s with txn := some [] } [] rfl
  rw [← afterBody_frags] at h1 h3
  simp only [List.nil_append, paths_frags] at h1 h2
  have hbody : (afterBody tmp σ (frags.map Op.frag) s).1.fs q = s.fs q := by
    apply h3
    intro hm
    obtain ⟨a, ha, rfl⟩ := List.mem_map.mp hm
    obtain ⟨fr, hfr, hfe⟩ := List.mem_map.mp (h2 a ha)
    exact hq (by rw [← hfe]; exact List.mem_map_of_mem hfr)
  have hd := frags_dich tmp σ frags { s with txn := some [] } [] rfl hg (by simpa using hok)
  rw [← afterBody_frags] at hd
  simp only [List.nil_append] at hd
  rcases hd with ⟨he, _, _, ht, hf⟩ | ⟨n, f', he, _⟩
  · cases dry
    · have hnd : (ord (frags.map (·.path))).Nodup := (hord _).nodup_iff.mpr hg.1
      have hok' : TmpOK tmp (ord (frags.map (·.path))) :=
        ⟨fun a ha b hb => hok.1 a ((hord _).mem_iff.mp ha) b ((hord _).mem_iff.mp hb),
         fun a ha b hb => hok.2 a ((hord _).mem_iff.mp ha) b ((hord _).mem_iff.mp hb)⟩
      have hex : ∀ p ∈ ord (frags.map (·.path)), (afterBody tmp σ (frags.map Op.frag) s).1.fs (tmp p) ≠ none := by
        intro p hp
        obtain ⟨fr, hfr, rfl⟩ := List.mem_map.mp ((hord _).mem_iff.mp hp)
        rw [hf, stage_tmp tmp frags _ hg.1 hok fr hfr]
        simp
      obtain ⟨done, rest, e1, _, e3, _, _, e6⟩ :=
        commit_spec tmp σ (ord (frags.map (·.path))) (afterBody tmp σ (frags.map Op.frag) s).1 _ ht hnd hok' hex
      have hc : afterCommit tmp ord σ false (afterBody tmp σ (frags.map Op.frag) s) =
          commit tmp σ (ord (frags.map (·.path))) (afterBody tmp σ (frags.map Op.frag) s).1 := by
        simp [afterCommit, he, ht]
      rw [hc, hclean]
      · rw [e6 q]
        by_cases hq1 : q ∈ done
        · right
          have hqo : q ∈ ord (frags.map (·.path)) := by rw [e1]; simp [hq1]
          have hqp := (hord _).mem_iff.mp hqo
          obtain ⟨fr, hfr, rfl⟩ := List.mem_map.mp hqp
          refine ⟨hqp, ?_⟩
          simp only [hq1, if_true]
          rw [hf, stage_tmp tmp frags _ hg.1 hok fr hfr, newContent_mem frags hg.1 fr hfr]
        · left
          have : q ∉ done.map tmp := by
            intro hm
            obtain ⟨a, ha, rfl⟩ := List.mem_map.mp hm
            have hao : a ∈ ord (frags.map (·.path)) := by rw [e1]; simp [ha]
            obtain ⟨fr, hfr, hfe⟩ := List.mem_map.mp ((hord _).mem_iff.mp hao)
            exact hq (by rw [← hfe]; exact List.mem_map_of_mem hfr)
          simp only [hq1, this, if_false]
          exact hbody
      · rw [e3]
        intro p hp
        exact (List.mem_filter.mp hp).1
    · left
      have hc : afterCommit tmp ord σ true (afterBody tmp σ (frags.map Op.frag) s) =
          ((afterBody tmp σ (frags.map Op.frag) s).1, none) := by simp [afterCommit, he]
      rw [hc, hclean]
      · exact hbody
      · simp only [ht, Option.getD_some]; exact fun p hp => hp
  · left
    have hc : afterCommit tmp ord σ dry (afterBody tmp σ (frags.map Op.frag) s) =
        ((afterBody tmp σ (frags.map Op.frag) s).1, some f'.err) := by simp [afterCommit, he]
    rw [hc, hclean]
    · exact hbody
    · simp only [h1, Option.getD_some]; exact h2

/-- If clean-up meets only `OSError`s, the error of the body is the one reported (never masked). -/
theorem body_error_reported (dry : Bool) (body : List (Op P)) (s : St P) (h : s.txn = none) (e : Err)
    (he : (afterBody tmp σ body s).2 = some e)
    (hos : ∀ n f, (afterBody tmp σ body s).1.clock ≤ n → σ n = some f → f.err.isOS = true) :
    (transaction tmp ord σ dry body s).2 = some e := by
  rw [transaction_phases tmp ord σ dry body s h]
  have hc : afterCommit tmp ord σ dry (afterBody tmp σ body s) = ((afterBody tmp σ body s).1, some e) := by
    simp [afterCommit, he]
  rw [hc]
  simp only [afterCleanup]
  rw [cleanup_os tmp σ _ { (afterBody tmp σ body s).1 with txn := none } hos]

end Capella.Txn
