import Capella.Model.Links
import Capella.Lemmas.Path
import Capella.Lemmas.Quote

namespace Capella.Links
open Capella.Path Capella.Quote

/-! ### A. relative paths resolve back (parts level) -/

theorem exists_diverge (to : List Str) : ∀ (frm : List Str), ¬ frm <+: to →
    ∃ c t x s, to = c ++ t ∧ frm = c ++ x :: s ∧ t.head? ≠ some x := by
  intro frm
  induction frm generalizing to with
  | nil => intro h; exact absurd (List.nil_prefix) h
  | cons f fs ih =>
    intro h
    cases to with
    | nil => exact ⟨[], [], f, fs, rfl, rfl, by simp⟩
    | cons a as =>
      by_cases hfa : a = f
      · subst hfa
        have h' : ¬ fs <+: as := by
          intro hp; apply h; exact (List.cons_prefix_cons).mpr ⟨rfl, hp⟩
        obtain ⟨c, t, x, s, h1, h2, h3⟩ := ih as h'
        exact ⟨a :: c, t, x, s, by simp [h1], by simp [h2], h3⟩
      · exact ⟨[], a :: as, f, fs, rfl, rfl, by simpa using hfa⟩

theorem relpath_closed (c t : List Str) (x : Str) (s : List Str) (h : t.head? ≠ some x) :
    relpath (c ++ t) (c ++ x :: s) = List.replicate s.length dotdot ++ t := by
  rw [relpath_common, relpath_diverge _ _ _ h]

theorem clean_dotdot_free {l : List Str} (h : Clean l) : ∀ c ∈ l, c ≠ dotdot :=
  fun c hc => (h c hc).2.2.1

theorem resolve_closed (c t : List Str) (x : Str) (s : List Str)
    (hc : Clean c) (ht : Clean t) (hs : Clean (x :: s)) :
    resolve (c ++ x :: s).dropLast (List.replicate s.length dotdot ++ t) = c ++ t := by
  have hd : (c ++ x :: s).dropLast = c ++ (x :: s).dropLast :=
    List.dropLast_append_of_ne_nil (by simp)
  have hclean : Clean (c ++ (x :: s).dropLast) := by
    intro y hy
    rcases List.mem_append.mp hy with h | h
    · exact hc y h
    · exact hs y (by rw [List.dropLast_eq_take] at h; exact List.mem_of_mem_take h)
  unfold resolve
  rw [hd, collapse_append (c ++ (x :: s).dropLast), List.foldl_append]
  have h0 : collapse (c ++ (x :: s).dropLast) = c ++ (x :: s).dropLast := by
    unfold collapse
    rw [foldl_collapse_of_clean _ _ hclean]; simp
  rw [h0, foldl_collapse_dotdots, foldl_collapse_of_clean _ _ ht]
  congr 1
  have hl : (c ++ (x :: s).dropLast).length - s.length = c.length := by
    simp [List.length_dropLast]
  rw [hl]; simp

theorem relpath_resolves' (to frm : List Str) (hto : Clean to) (hfrom : Clean frm)
    (h : ¬ frm <+: to) : resolve frm.dropLast (relpath to frm) = to := by
  obtain ⟨c, t, x, s, rfl, rfl, hx⟩ := exists_diverge to frm h
  rw [relpath_closed _ _ _ _ hx]
  apply resolve_closed
  · intro y hy; exact hto y (by simp [hy])
  · intro y hy; exact hto y (by simp [hy])
  · intro y hy; exact hfrom y (by simp at hy ⊢; rcases hy with h | h <;> simp [h])

/-! ### B. the string round trip of a relative path -/

/-- "/a/b/c" -/
def flatSl (cs : List Str) : Str := cs.flatMap ('/' :: ·)

/-- a component as pathlib keeps it and `relpath` can emit it: non-empty, slash-free -/
def Comp (c : Str) : Prop := c ≠ [] ∧ '/' ∉ c

def NoTrail (p : Str) : Prop := p ≠ [] ∧ p.getLast? ≠ some '/'

theorem Comp.head {c : Str} (h : Comp c) : c.head? ≠ some '/' := by
  cases c with
  | nil => simp
  | cons a as => simp; intro ha; exact h.2 (by simp [ha])

theorem Comp.noTrail {c : Str} (h : Comp c) : NoTrail c := by
  refine ⟨h.1, ?_⟩
  intro hl
  exact h.2 (List.mem_of_getLast? hl)

theorem noTrail_append (p : Str) {c : Str} (h : Comp c) : NoTrail (p ++ '/' :: c) := by
  refine ⟨by simp, ?_⟩
  have : (p ++ '/' :: c).getLast? = c.getLast? := by
    cases c with
    | nil => exact absurd rfl h.1
    | cons a as =>
      rw [List.getLast?_append, List.getLast?_cons_cons]
      cases h' : (a :: as).getLast? with
      | none => simp at h'
      | some z => simp
  rw [this]; exact h.noTrail.2

theorem joinStep_noTrail {p b : Str} (hp : NoTrail p) (hb : b.head? ≠ some '/') :
    joinStep p b = p ++ '/' :: b := by
  unfold joinStep
  simp [hb, hp.1, hp.2]

theorem foldl_joinStep (cs : List Str) : ∀ (p : Str), NoTrail p → (∀ c ∈ cs, Comp c) →
    cs.foldl joinStep p = p ++ flatSl cs ∧ NoTrail (cs.foldl joinStep p) := by
  induction cs with
  | nil => intro p hp _; simp [flatSl, hp]
  | cons c cs ih =>
    intro p hp hcs
    have hc := hcs c (by simp)
    simp only [List.foldl_cons]
    rw [joinStep_noTrail hp hc.head]
    obtain ⟨h1, h2⟩ := ih (p ++ '/' :: c) (noTrail_append p hc) (fun d hd => hcs d (by simp [hd]))
    refine ⟨?_, h2⟩
    rw [h1]; simp [flatSl]

theorem splitSlash_append (a b : Str) :
    splitSlash (a ++ '/' :: b) = splitSlash a ++ splitSlash b := by
  induction a with
  | nil => simp [splitSlash]
  | cons c cs ih =>
    simp only [List.cons_append, splitSlash]
    split
    · simp [ih]
    · rw [ih]
      cases h : splitSlash cs with
      | nil => exact absurd h (splitSlash_ne_nil cs)
      | cons p ps => simp

theorem splitSlash_comp {c : Str} (h : '/' ∉ c) : splitSlash c = [c] := by
  induction c with
  | nil => rfl
  | cons a as ih =>
    have ha : a ≠ '/' := fun e => h (by simp [e])
    have has : '/' ∉ as := fun e => h (by simp [e])
    simp [splitSlash, ha, ih has]

theorem splitSlash_flatSl (cs : List Str) (x : Str) :
    splitSlash (x ++ flatSl cs) = splitSlash x ++ cs.flatMap splitSlash := by
  induction cs generalizing x with
  | nil => simp [flatSl]
  | cons c cs ih =>
    have : x ++ flatSl (c :: cs) = x ++ '/' :: (c ++ flatSl cs) := by simp [flatSl]
    rw [this, splitSlash_append, ih]; simp

theorem flatMap_splitSlash_comps (cs : List Str) (h : ∀ c ∈ cs, '/' ∉ c) :
    cs.flatMap splitSlash = cs := by
  induction cs with
  | nil => rfl
  | cons c cs ih =>
    simp [List.flatMap_cons, splitSlash_comp (h c (by simp)), ih (fun d hd => h d (by simp [hd]))]

theorem joinSlash_cons (p : Str) (ps : List Str) : joinSlash (p :: ps) = p ++ flatSl ps := by
  induction ps generalizing p with
  | nil => simp [joinSlash, flatSl]
  | cons q qs ih => simp [joinSlash, ih, flatSl]

theorem mkPath_cons (a : Str) (rest : List Str) : mkPath (a :: rest) = parseRaw (posixJoin a rest) := by
  cases rest <;> simp [mkPath, posixJoin]

theorem leadingSlashes_zero {s : Str} (h : s.head? ≠ some '/') : leadingSlashes s = 0 := by
  cases s with
  | nil => rfl
  | cons a as =>
    have : a ≠ '/' := by simpa using h
    unfold leadingSlashes
    split
    · rename_i heq; simp at heq; exact absurd heq.1 this
    · rfl

theorem filter_keepComp (cs : List Str) (h : ∀ c ∈ cs, c ≠ [] ∧ c ≠ dot) :
    cs.filter keepComp = cs := by
  apply List.filter_eq_self.mpr
  intro c hc
  simp [keepComp, h c hc]

/-- components that `relpath` of clean paths can emit -/
def RelComp (c : Str) : Prop := c ≠ [] ∧ c ≠ dot ∧ '/' ∉ c

theorem RelComp.comp {c : Str} (h : RelComp c) : Comp c := ⟨h.1, h.2.2⟩

/-- re-parsing a list of proper components changes nothing: `PurePosixPath(*rel)` -/
theorem mkPath_rel (rel : List Str) (h : ∀ c ∈ rel, RelComp c) : mkPath rel = ⟨[], rel⟩ := by
  cases rel with
  | nil => simp [mkPath, parseRaw, leadingSlashes, splitSlash, keepComp]
  | cons p ps =>
    have hp := h p (by simp)
    rw [mkPath_cons]
    unfold posixJoin
    rw [(foldl_joinStep ps p hp.comp.noTrail (fun c hc => (h c (by simp [hc])).comp)).1]
    have hhead : (p ++ flatSl ps).head? ≠ some '/' := by
      cases p with
      | nil => exact absurd rfl hp.1
      | cons a as => simpa using hp.comp.head
    unfold parseRaw
    simp only [leadingSlashes_zero hhead, List.drop_zero, if_true]
    rw [splitSlash_flatSl, splitSlash_comp hp.2.2,
      flatMap_splitSlash_comps ps (fun c hc => (h c (by simp [hc])).2.2)]
    congr 1
    exact filter_keepComp _ (fun c hc => ⟨(h c (by simpa using hc)).1, (h c (by simpa using hc)).2.1⟩)

/-- the text of a relative path -/
def relStr (rel : List Str) : Str := if rel = [] then ['.'] else joinSlash rel

theorem pathStr_rel (rel : List Str) : pathStr ⟨[], rel⟩ = relStr rel := by
  simp [pathStr, relStr]

theorem relStr_head (rel : List Str) (h : ∀ c ∈ rel, RelComp c) : (relStr rel).head? ≠ some '/' := by
  unfold relStr
  cases rel with
  | nil => simp
  | cons p ps =>
    have hp := h p (by simp)
    simp only [List.cons_ne_nil, if_false, joinSlash_cons]
    cases p with
    | nil => exact absurd rfl hp.1
    | cons a as => simpa using hp.comp.head

theorem filter_splitSlash_relStr (rel : List Str) (h : ∀ c ∈ rel, RelComp c) :
    (splitSlash (relStr rel)).filter keepComp = rel := by
  unfold relStr
  cases rel with
  | nil => simp [splitSlash, keepComp, dot]
  | cons p ps =>
    simp only [List.cons_ne_nil, if_false, joinSlash_cons]
    rw [splitSlash_flatSl, splitSlash_comp (h p (by simp)).2.2,
      flatMap_splitSlash_comps ps (fun c hc => (h c (by simp [hc])).2.2)]
    exact filter_keepComp _ (fun c hc => ⟨(h c (by simpa using hc)).1, (h c (by simpa using hc)).2.1⟩)

/-- `PurePosixPath("/", *base, s).parts[1:]` for clean `base` and a relative-path text `s` -/
theorem mkPath_base_rel (base rel : List Str) (hb : Clean base) (h : ∀ c ∈ rel, RelComp c) :
    (mkPath ([['/']] ++ base ++ [relStr rel])).parts = base ++ rel := by
  have hs := relStr_head rel h
  have hbc : ∀ c ∈ base, Comp c := fun c hc => ⟨(hb c hc).1, (hb c hc).2.2.2⟩
  have e : [['/']] ++ base ++ [relStr rel] = ['/'] :: (base ++ [relStr rel]) := by simp
  rw [e, mkPath_cons]
  cases base with
  | nil =>
    have hj : posixJoin ['/'] ([] ++ [relStr rel]) = '/' :: relStr rel := by
      simp [posixJoin, joinStep, hs]
    rw [hj]
    unfold parseRaw
    have hl : leadingSlashes ('/' :: relStr rel) = 1 := by
      simp [leadingSlashes, leadingSlashes_zero hs]
    simp only [hl, List.drop_succ_cons, List.drop_zero, List.nil_append]
    exact filter_splitSlash_relStr rel h
  | cons b bs =>
    have hbb := hbc b (by simp)
    have h1 : joinStep ['/'] b = '/' :: b := by
      simp [joinStep, hbb.head]
    have hnt : NoTrail ('/' :: b) := by
      have := noTrail_append [] hbb
      simpa using this
    have hj : posixJoin ['/'] ((b :: bs) ++ [relStr rel]) = '/' :: (b ++ flatSl bs ++ '/' :: relStr rel) := by
      unfold posixJoin
      simp only [List.cons_append, List.foldl_cons, h1, List.foldl_append, List.foldl_nil]
      obtain ⟨e1, e2⟩ := foldl_joinStep bs ('/' :: b) hnt (fun c hc => hbc c (by simp [hc]))
      rw [joinStep_noTrail e2 hs, e1]; simp
    rw [hj]
    unfold parseRaw
    have hhead : (b ++ flatSl bs ++ '/' :: relStr rel).head? ≠ some '/' := by
      cases b with
      | nil => exact absurd rfl hbb.1
      | cons a as => simpa using hbb.head
    have hl : leadingSlashes ('/' :: (b ++ flatSl bs ++ '/' :: relStr rel)) = 1 := by
      have := leadingSlashes_zero hhead
      simp only [leadingSlashes, this]
    simp only [hl, List.drop_succ_cons, List.drop_zero]
    rw [splitSlash_append, splitSlash_flatSl, splitSlash_comp hbb.2,
      flatMap_splitSlash_comps bs (fun c hc => (hbc c (by simp [hc])).2), List.filter_append,
      filter_splitSlash_relStr rel h]
    congr 1
    exact filter_keepComp _ (fun c hc => ⟨(hb c (by simpa using hc)).1, (hb c (by simpa using hc)).2.1⟩)

theorem normalize_base_rel (base rel : List Str) (hb : Clean base) (h : ∀ c ∈ rel, RelComp c) :
    normalize base [relStr rel] = resolve base rel := by
  unfold normalize resolve
  rw [mkPath_base_rel base rel hb h]

/-! ### C. UTF-8, quoting and `_unquote_ref` -/

theorem dec_enc (s : Str) : dec (enc s) = s := by
  have h : (ByteArray.mk s.utf8Encode.data) = s.utf8Encode := rfl
  simp [enc, dec, h, List.utf8Decode?_utf8Encode]

theorem enc_nil : enc [] = [] := by simp [enc]

theorem enc_ne_nil {s : Str} (h : s ≠ []) : enc s ≠ [] := by
  intro he
  have := dec_enc s
  rw [he] at this
  have h0 : dec [] = [] := by
    have := dec_enc []
    rwa [enc_nil] at this
  exact h (by rw [← this, h0])

theorem safe_byte_cases : ∀ n, n < 256 → ∀ s : Bool, isSafe s n = true →
    (Char.ofNat n ≠ '%' ∧ String.utf8EncodeChar (Char.ofNat n) = [UInt8.ofNat n]) := by
  decide +kernel

theorem unquoteStr_lit (c : Char) (rest : List Char) (h : c ≠ '%') :
    unquoteStr (c :: rest) = String.utf8EncodeChar c ++ unquoteStr rest := by
  rw [unquoteStr.eq_def]
  split
  · rename_i heq; simp at heq; exact absurd heq.1 h
  · rename_i heq; simp at heq; obtain ⟨rfl, rfl⟩ := heq; rfl
  · rename_i heq; simp at heq

theorem unquoteStr_pct (a b : Char) (x y : Nat) (rest : List Char)
    (ha : hexVal a = some x) (hb : hexVal b = some y) :
    unquoteStr ('%' :: a :: b :: rest) = UInt8.ofNat (16 * x + y) :: unquoteStr rest := by
  rw [unquoteStr.eq_def]
  simp [ha, hb]

theorem unquoteStr_quoteByte (s : Bool) (b : UInt8) (rest : List Char) :
    unquoteStr (quoteByte s b ++ rest) = b :: unquoteStr rest := by
  have hb : b.toNat < 256 := b.toNat_lt
  obtain ⟨_, h2, h3⟩ := byte_cases b.toNat hb s
  unfold quoteByte
  split
  · rename_i hs
    obtain ⟨hne, henc⟩ := safe_byte_cases b.toNat hb s hs
    simp only [List.singleton_append]
    rw [unquoteStr_lit _ _ hne, henc]
    simp
  · simp only [List.cons_append, List.nil_append]
    rw [unquoteStr_pct _ _ _ _ _ h2 h3]
    congr 1
    apply UInt8.toNat_inj.mp
    simp only [UInt8.toNat_ofNat']
    omega

theorem unquoteStr_quote (s : Bool) (bs : List UInt8) : unquoteStr (quote s bs) = bs := by
  induction bs with
  | nil => rfl
  | cons b bs ih =>
    simp only [quote, List.flatMap_cons] at *
    rw [unquoteStr_quoteByte, ih]

/-- `_unquote_ref(quote(s)) == s` unless `s` starts with the `platform:/resource/` marker -/
theorem unquoteRef_quote (sl : Bool) (s : Str) (h : platformPrefix.isPrefixOf s = false) :
    unquoteRef (quote sl (enc s)) = s := by
  unfold unquoteRef
  simp only [unquoteStr_quote, dec_enc, h]
  simp

theorem quote_ne_nil (sl : Bool) {bs : List UInt8} (h : bs ≠ []) : quote sl bs ≠ [] := by
  intro hq
  have := unquote_quote' sl bs
  rw [hq] at this
  exact h this.symm

/-- the characters `quote` emits are neither white space nor `#` -/
theorem okChar_plain (sl : Bool) (c : Char) (h : okChar sl c = true) :
    c ≠ '#' ∧ isPySpace c = false := by
  have key : ∀ n, n < 128 → ∀ s : Bool, okChar s (Char.ofNat n) = true →
      (Char.ofNat n ≠ '#' ∧ isPySpace (Char.ofNat n) = false) := by decide +kernel
  have hn : c.toNat < 128 := by
    simp only [okChar, alwaysSafe, Bool.or_eq_true, Bool.and_eq_true, beq_iff_eq,
      decide_eq_true_eq] at h
    rcases h with (h | h) | h
    · subst h; decide
    · omega
    · rw [h.2]; decide
  have := key c.toNat hn sl (by simpa using h)
  simpa using this

/-! ### D. the written path names the target fragment -/

theorem relpath_relComp (t : List Str) (n : Nat) (ht : Clean t) :
    ∀ x ∈ List.replicate n dotdot ++ t, RelComp x := by
  intro x hx
  rcases List.mem_append.mp hx with h | h
  · have := List.eq_of_mem_replicate h
    subst this
    exact ⟨by simp [dotdot], by simp [dotdot, dot], by simp [dotdot]⟩
  · exact ⟨(ht x h).1, (ht x h).2.1, (ht x h).2.2.2⟩

theorem sep_prefix (a : Str) : ∀ (p X y : Str), '/' ∉ a → '/' ∉ p →
    (X = [] ∨ X.head? = some '/') → (a ++ '/' :: y) <+: (p ++ X) → a = p := by
  induction a with
  | nil =>
    intro p X y _ hp _ h
    cases p with
    | nil => rfl
    | cons c cs =>
      simp only [List.nil_append, List.cons_append] at h
      have := (List.cons_prefix_cons.mp h).1
      subst this
      exact absurd List.mem_cons_self hp
  | cons x xs ih =>
    intro p X y ha hp hX h
    have hx : x ≠ '/' := fun e => ha (by simp [e])
    cases p with
    | nil =>
      rcases hX with rfl | hX
      · simp at h
      · cases X with
        | nil => simp at hX
        | cons z zs =>
          simp at hX; subst hX
          simp only [List.nil_append, List.cons_append] at h
          exact absurd (List.cons_prefix_cons.mp h).1 hx
    | cons c cs =>
      simp only [List.cons_append] at h
      obtain ⟨e, h'⟩ := List.cons_prefix_cons.mp h
      subst e
      have := ih cs X y (fun e => ha (by simp [e])) (fun e => hp (by simp [e])) hX h'
      rw [this]

def platformComp : Str := "platform:".toList

theorem platform_head (rel : List Str) (h : ∀ c ∈ rel, RelComp c)
    (hp : platformPrefix.isPrefixOf (relStr rel) = true) : rel.head? = some platformComp := by
  cases rel with
  | nil =>
    have : platformPrefix.isPrefixOf (relStr []) = false := by decide
    rw [this] at hp; exact absurd hp (by simp)
  | cons p ps =>
    rw [List.isPrefixOf_iff_prefix] at hp
    simp only [relStr, List.cons_ne_nil, if_false, joinSlash_cons] at hp
    have hX : flatSl ps = [] ∨ (flatSl ps).head? = some '/' := by
      cases ps with
      | nil => left; rfl
      | cons q qs => right; simp [flatSl]
    have e : platformPrefix = platformComp ++ '/' :: "resource/".toList := by decide
    rw [e] at hp
    have := sep_prefix platformComp p (flatSl ps) _ (by decide) (h p (by simp)).2.2 hX hp
    simp [this]

/-- **The path written into a link leads back to the target's fragment** under the loader's own
rule for references (`_unquote_ref` + `normalize_pure_path(base=parent)`), at the level of the
actual link text: relative path → `str` → UTF-8 → percent-quoting → unquoting → decoding →
`PurePosixPath("/", parent, text)` → `..`-collapse. -/
theorem loadRef_relpath (to frm : List Str) (hto : Clean to) (hfrom : Clean frm)
    (h : ¬ frm <+: to) (hp : platformComp ∉ to) :
    loadRef frm (quote true (enc (relpathStr to frm))) = to := by
  obtain ⟨c, t, x, s, rfl, rfl, hx⟩ := exists_diverge to frm h
  have hct : Clean t := fun y hy => hto y (by simp [hy])
  have hrel := relpath_relComp t s.length hct
  have hstr : relpathStr (c ++ t) (c ++ x :: s) = relStr (List.replicate s.length dotdot ++ t) := by
    unfold relpathStr
    rw [relpath_closed _ _ _ _ hx, mkPath_rel _ hrel, pathStr_rel]
  have hnp : platformPrefix.isPrefixOf (relStr (List.replicate s.length dotdot ++ t)) = false := by
    cases hb : platformPrefix.isPrefixOf (relStr (List.replicate s.length dotdot ++ t)) with
    | false => rfl
    | true =>
      exfalso
      have hh := platform_head _ hrel hb
      cases hs : s.length with
      | zero =>
        rw [hs] at hh
        simp only [List.replicate_zero, List.nil_append] at hh
        exact hp (by simp [List.mem_of_mem_head? hh])
      | succ n =>
        rw [hs] at hh
        simp [List.replicate_succ] at hh
        exact absurd hh (by decide)
  unfold loadRef
  rw [hstr, unquoteRef_quote _ _ hnp]
  have hcl : Clean (c ++ x :: s).dropLast := by
    intro y hy
    rw [List.dropLast_eq_take] at hy
    exact hfrom y (List.mem_of_mem_take hy)
  rw [normalize_base_rel _ _ hcl hrel, ← relpath_closed c t x s hx]
  exact relpath_resolves' _ _ hto hfrom h

/-! ### E. the link grammar -/

theorem splitFirst_append (c : Char) (a b : Str) (h : c ∉ a) :
    splitFirst c (a ++ c :: b) = some (a, b) := by
  induction a with
  | nil => simp [splitFirst]
  | cons x xs ih =>
    have hx : x ≠ c := fun e => h (by simp [e])
    have := ih (fun e => h (by simp [e]))
    simp [splitFirst, hx, this]

theorem splitFirst_none (c : Char) (s : Str) (h : c ∉ s) : splitFirst c s = none := by
  induction s with
  | nil => rfl
  | cons x xs ih =>
    have hx : x ≠ c := fun e => h (by simp [e])
    simp [splitFirst, hx, ih (fun e => h (by simp [e]))]

theorem noSpHash_iff (s : Str) : noSpHash s = true ↔ s ≠ [] ∧ ' ' ∉ s ∧ '#' ∉ s := by
  simp only [noSpHash, Bool.and_eq_true, decide_eq_true_eq, List.all_eq_true, bne_iff_ne, ne_eq]
  constructor
  · rintro ⟨h1, h2⟩
    exact ⟨h1, fun h => (h2 _ h).1 rfl, fun h => (h2 _ h).2 rfl⟩
  · rintro ⟨h1, h2, h3⟩
    exact ⟨h1, fun c hc => ⟨fun e => h2 (e ▸ hc), fun e => h3 (e ▸ hc)⟩⟩

theorem isUuid_no_hash {s : Str} (h : isUuid s = true) : '#' ∉ s ∧ ' ' ∉ s := by
  simp only [isUuid, Bool.and_eq_true, List.all_eq_true] at h
  exact ⟨fun hm => absurd (h.2 _ hm) (by decide), fun hm => absurd (h.2 _ hm) (by decide)⟩

theorem parseLink_same (id : Str) (h : isUuid id = true) :
    parseLink ('#' :: id) = some ⟨none, none, id⟩ := by
  unfold parseLink
  have := splitFirst_append '#' [] id (by simp)
  simp only [List.nil_append] at this
  simp [this, h]

theorem parseLink_untyped (q id : Str) (hq : noSpHash q = true) (h : isUuid id = true) :
    parseLink (q ++ '#' :: id) = some ⟨none, some q, id⟩ := by
  obtain ⟨h1, h2, h3⟩ := (noSpHash_iff q).mp hq
  unfold parseLink
  rw [splitFirst_append '#' q id h3]
  simp [h, h1, splitFirst_none ' ' q h2, hq]

theorem parseLink_typed (t q id : Str) (ht : noSpHash t = true) (hq : noSpHash q = true)
    (h : isUuid id = true) :
    parseLink (t ++ ' ' :: q ++ '#' :: id) = some ⟨some t, some q, id⟩ := by
  obtain ⟨h1, h2, h3⟩ := (noSpHash_iff q).mp hq
  obtain ⟨t1, t2, t3⟩ := (noSpHash_iff t).mp ht
  unfold parseLink
  have e : t ++ ' ' :: q ++ '#' :: id = (t ++ ' ' :: q) ++ '#' :: id := by simp
  have hno : '#' ∉ t ++ ' ' :: q := by
    simp only [List.mem_append, List.mem_cons, not_or]
    exact ⟨t3, by decide, h3⟩
  rw [e, splitFirst_append '#' _ id hno]
  have hne : t ++ ' ' :: q ≠ [] := by simp
  simp [h, hne, splitFirst_append ' ' t q t2, ht, hq]

/-! ### F. `str.split()` and `split_links` -/

def NoWs (w : Str) : Prop := ∀ c ∈ w, isPySpace c = false

theorem pyWordsAux_word (w : Str) (hw : NoWs w) (cur rest : Str) :
    pyWordsAux cur (w ++ rest) = pyWordsAux (w.reverse ++ cur) rest := by
  induction w generalizing cur with
  | nil => rfl
  | cons c cs ih =>
    have hc : isPySpace c = false := hw c (by simp)
    simp only [List.cons_append, pyWordsAux, hc, Bool.false_eq_true, if_false]
    rw [ih (fun d hd => hw d (by simp [hd]))]
    simp

theorem pyWords_cons (w : Str) (hw : NoWs w) (hne : w ≠ []) (rest : Str) :
    pyWords (w ++ ' ' :: rest) = w :: pyWords rest := by
  unfold pyWords
  rw [pyWordsAux_word w hw]
  have hsp : isPySpace ' ' = true := by decide
  have : w.reverse ++ [] ≠ [] := by simp [hne]
  simp [pyWordsAux, hsp, hne]

theorem pyWords_single (w : Str) (hw : NoWs w) (hne : w ≠ []) : pyWords w = [w] := by
  unfold pyWords
  have := pyWordsAux_word w hw [] []
  simp only [List.append_nil] at this
  rw [this]
  simp [pyWordsAux, hne]

theorem pyWords_nil : pyWords [] = [] := rfl

/-- the shape of one well-formed link as a sequence of words -/
inductive LinkWords : Str → List Str → Prop
  | one (w : Str) : NoWs w → '#' ∈ w → (parseLink w).isSome → LinkWords w [w]
  | two (t w : Str) : NoWs t → t ≠ [] → '#' ∉ t → NoWs w → '#' ∈ w →
      (parseLink (t ++ ' ' :: w)).isSome → LinkWords (t ++ ' ' :: w) [t, w]

theorem mem_ne_nil {c : Char} {w : Str} (h : c ∈ w) : w ≠ [] := by
  intro e; rw [e] at h; simp at h

theorem LinkWords.pyWords_last {s : Str} {ws : List Str} (h : LinkWords s ws) : pyWords s = ws := by
  cases h with
  | one _ hw hh _ => exact pyWords_single _ hw (mem_ne_nil hh)
  | two t w ht hne _ hw hh _ =>
    rw [pyWords_cons t ht hne, pyWords_single w hw (mem_ne_nil hh)]

theorem LinkWords.pyWords_more {s : Str} {ws : List Str} (h : LinkWords s ws) (rest : Str) :
    pyWords (s ++ ' ' :: rest) = ws ++ pyWords rest := by
  cases h with
  | one _ hw hh _ => exact pyWords_cons _ hw (mem_ne_nil hh) rest
  | two t w ht hne _ hw hh _ =>
    have : t ++ ' ' :: w ++ ' ' :: rest = t ++ ' ' :: (w ++ ' ' :: rest) := by simp
    rw [this, pyWords_cons t ht hne, pyWords_cons w hw (mem_ne_nil hh)]
    simp

theorem pyWords_joinSpace (ls : List (Str × List Str)) (h : ∀ p ∈ ls, LinkWords p.1 p.2) :
    pyWords (joinSpace (ls.map (·.1))) = ls.flatMap (·.2) := by
  induction ls with
  | nil => rfl
  | cons p ps ih =>
    cases ps with
    | nil => simp [joinSpace, (h p (by simp)).pyWords_last]
    | cons q qs =>
      simp only [List.map_cons, joinSpace, List.flatMap_cons]
      rw [(h p (by simp)).pyWords_more]
      have := ih (fun r hr => h r (by simp [hr]))
      simp only [List.map_cons, List.flatMap_cons] at this
      rw [this]

theorem splitWords_link {s : Str} {ws : List Str} (h : LinkWords s ws) (rest : List Str) :
    splitWords [] (ws ++ rest) =
      (match splitWords [] rest with | .ok r => .ok (s :: r) | .error e => .error e) := by
  cases h with
  | one w _ hh hp =>
    simp only [List.singleton_append, splitWords, hh, if_true]
    simp [Option.isNone_iff_eq_none, Option.isSome_iff_ne_none.mp hp]
    cases splitWords [] rest <;> rfl
  | two t w _ hne hnh _ hh hp =>
    simp only [List.cons_append, List.nil_append, splitWords, hnh, if_false, hh, if_true]
    simp [hne, Option.isSome_iff_ne_none.mp hp]
    cases splitWords [] rest <;> rfl

theorem splitWords_links (ls : List (Str × List Str)) (h : ∀ p ∈ ls, LinkWords p.1 p.2) :
    splitWords [] (ls.flatMap (·.2)) = .ok (ls.map (·.1)) := by
  induction ls with
  | nil => simp [splitWords]
  | cons p ps ih =>
    simp only [List.flatMap_cons, List.map_cons]
    rw [splitWords_link (h p (by simp)), ih (fun r hr => h r (by simp [hr]))]

/-- `split_links(" ".join(links)) == links` for well-formed links, any number of them -/
theorem splitLinks_join (ls : List (Str × List Str)) (h : ∀ p ∈ ls, LinkWords p.1 p.2) :
    splitLinks (joinSpace (ls.map (·.1))) = .ok (ls.map (·.1)) := by
  unfold splitLinks
  rw [pyWords_joinSpace ls h, splitWords_links ls h]

/-! ### G. `create_link` / `follow_link` -/

/-- IDs and types look the way Capella writes them: the ID that goes into a link is
`[A-Za-z0-9_-]+`, a (non-empty) type contains neither white space nor `#`. -/
def WFEl (k : Kind) (e : El) : Prop :=
  (∀ id, linkId k e = some id → isUuid id = true) ∧
  (∀ t, e.xtype = some t → t ≠ [] → noSpHash t = true ∧ NoWs t)

/-- The loader state is consistent: tree keys are distinct and every indexed ID is carried by one
element of one fragment only (what `check_duplicate_uuids` is there to guarantee, see C04). -/
def Consistent (l : Loader) : Prop :=
  l.trees.Nodup ∧ ∀ f ∈ l.trees, ∀ g ∈ l.trees, ∀ e ∈ f.elems, ∀ e' ∈ g.elems, ∀ ref,
    e.hasId f.kind ref = true → e'.hasId g.kind ref = true → f = g ∧ e = e'

/-- the quoted relative path of a cross-fragment link -/
def linkPath (fromF toF : Frag) : Str := quote true (enc (relpathStr toF.path fromF.path))

theorem linkId_hasId {k : Kind} {e : El} {id : Str} (h : linkId k e = some id) :
    e.hasId k id = true := by
  unfold linkId at h
  obtain ⟨a, ha, h2⟩ := List.exists_of_findSome?_eq_some h
  simp only [Option.map_eq_some_iff] at h2
  obtain ⟨p, hp, rfl⟩ := h2
  have hmem := List.mem_of_find?_eq_some hp
  have hp1 := List.find?_some hp
  simp only [decide_eq_true_eq] at hp1
  unfold El.hasId
  simp only [List.any_eq_true, Bool.and_eq_true, decide_eq_true_eq, beq_iff_eq]
  exact ⟨p, hmem, by rw [hp1]; exact ha, rfl⟩

theorem relpathStr_ne_nil (to frm : List Str) : relpathStr to frm ≠ [] := by
  unfold relpathStr pathStr
  split
  · simp
  · rename_i h
    have hparts := mkPath_parts (relpath to frm)
    intro he
    simp only [List.append_eq_nil_iff] at he
    apply h
    refine ⟨he.1, ?_⟩
    cases hp : (mkPath (relpath to frm)).parts with
    | nil => rfl
    | cons p ps =>
      rw [hp, joinSlash_cons] at he
      have := (hparts p (by rw [hp]; simp)).1
      simp at he
      exact absurd he.2.1 this

theorem linkPath_props (fromF toF : Frag) :
    noSpHash (linkPath fromF toF) = true ∧ NoWs (linkPath fromF toF) := by
  have hne : linkPath fromF toF ≠ [] := quote_ne_nil _ (enc_ne_nil (relpathStr_ne_nil _ _))
  have hch := quote_chars true (enc (relpathStr toF.path fromF.path))
  refine ⟨(noSpHash_iff _).mpr ⟨hne, ?_, ?_⟩, ?_⟩
  · intro hm
    have := (okChar_plain _ _ (hch _ hm)).2
    revert this; decide
  · intro hm
    exact (okChar_plain _ _ (hch _ hm)).1 rfl
  · intro c hc
    exact (okChar_plain _ _ (hch _ hc)).2

theorem isUuid_noWs {s : Str} (h : isUuid s = true) : NoWs s := by
  intro c hc
  simp only [isUuid, Bool.and_eq_true, List.all_eq_true] at h
  have hc' := h.2 c hc
  have key : ∀ n, n < 128 → isUuidChar (Char.ofNat n) = true → isPySpace (Char.ofNat n) = false := by
    decide +kernel
  have hn : c.toNat < 128 := by
    simp only [isUuidChar, Bool.or_eq_true, Bool.and_eq_true, decide_eq_true_eq, beq_iff_eq] at hc'
    rcases hc' with (((h | h) | h) | h) | h
    · omega
    · omega
    · omega
    · subst h; decide
    · subst h; decide
  have := key c.toNat hn (by simpa using hc')
  simpa using this

/-- the three shapes `create_link` (with the default `include_target_type=None`) can return -/
inductive Created (fromF toF : Frag) (b : El) (id : Str) : Str → Prop
  | same : fromF.path = toF.path → Created fromF toF b id ('#' :: id)
  | untyped : fromF.path ≠ toF.path →
      (suffix (nameOf fromF.path) ∈ visualExts ∨ b.xtype = none ∨ b.xtype = some []) →
      Created fromF toF b id (linkPath fromF toF ++ '#' :: id)
  | typed (t : Str) : fromF.path ≠ toF.path → suffix (nameOf fromF.path) ∉ visualExts →
      b.xtype = some t → t ≠ [] →
      Created fromF toF b id (t ++ ' ' :: linkPath fromF toF ++ '#' :: id)

theorem createLink_cases {fromF toF : Frag} {b : El} {s : Str}
    (h : createLink fromF toF b = .ok s) :
    ∃ id, linkId toF.kind b = some id ∧ Created fromF toF b id s := by
  unfold createLink at h
  cases hid : linkId toF.kind b with
  | none => simp [hid] at h
  | some id =>
    refine ⟨id, rfl, ?_⟩
    simp only [hid] at h
    by_cases hp : fromF.path = toF.path
    · simp only [hp, if_true, Except.ok.injEq] at h
      subst h; exact .same hp
    · simp only [hp, if_false, Option.getD_none] at h
      by_cases hv : suffix (nameOf fromF.path) ∈ visualExts
      · simp [hv] at h
        subst h; exact .untyped hp (Or.inl hv)
      · simp only [hv, decide_false, Bool.not_false, Bool.not_true, Bool.false_eq_true,
          if_false] at h
        cases hx : b.xtype with
        | none => simp [hx] at h; subst h; exact .untyped hp (Or.inr (Or.inl hx))
        | some t =>
          cases t with
          | nil => simp [hx] at h; subst h; exact .untyped hp (Or.inr (Or.inr hx))
          | cons c t =>
            simp [hx] at h; subst h
            have := Created.typed (fromF := fromF) (toF := toF) (b := b) (id := id) (c :: t) hp hv hx (by simp)
            simpa [linkPath] using this

theorem Created.parse {fromF toF : Frag} {b : El} {id s : Str}
    (hc : Created fromF toF b id s) (hid : isUuid id = true)
    (ht : ∀ t, b.xtype = some t → t ≠ [] → noSpHash t = true) :
    ∃ lk, parseLink s = some lk ∧ lk.ref = id ∧ (lk.xtype = none ∨ lk.xtype = b.xtype) ∧
      (lk.fragment = none ∨ lk.fragment = some (linkPath fromF toF)) := by
  cases hc with
  | same _ => exact ⟨_, parseLink_same id hid, rfl, Or.inl rfl, Or.inl rfl⟩
  | untyped _ _ =>
    exact ⟨_, parseLink_untyped _ id (linkPath_props fromF toF).1 hid, rfl, Or.inl rfl, Or.inr rfl⟩
  | typed t _ _ hx hne =>
    exact ⟨_, parseLink_typed t _ id (ht t hx hne) (linkPath_props fromF toF).1 hid, rfl,
      Or.inr hx.symm, Or.inr rfl⟩

theorem Created.words {fromF toF : Frag} {b : El} {id s : Str}
    (hc : Created fromF toF b id s) (hid : isUuid id = true)
    (ht : ∀ t, b.xtype = some t → t ≠ [] → noSpHash t = true ∧ NoWs t) :
    ∃ ws, LinkWords s ws := by
  have hidw := isUuid_noWs hid
  have hq := linkPath_props fromF toF
  have hnoWs : NoWs (linkPath fromF toF ++ '#' :: id) := by
    intro c hc
    simp only [List.mem_append, List.mem_cons] at hc
    rcases hc with h | rfl | h
    · exact hq.2 c h
    · decide
    · exact hidw c h
  cases hc with
  | same _ =>
    refine ⟨_, .one _ ?_ (by simp) (by rw [parseLink_same id hid]; rfl)⟩
    intro c hc
    simp only [List.mem_cons] at hc
    rcases hc with rfl | h
    · decide
    · exact hidw c h
  | untyped _ _ =>
    exact ⟨_, .one _ hnoWs (by simp) (by rw [parseLink_untyped _ id hq.1 hid]; rfl)⟩
  | typed t _ _ hx hne =>
    obtain ⟨h1, h2⟩ := ht t hx hne
    have h3 := ((noSpHash_iff t).mp h1).2.2
    have e : t ++ ' ' :: linkPath fromF toF ++ '#' :: id
        = t ++ ' ' :: (linkPath fromF toF ++ '#' :: id) := by simp
    rw [e]
    refine ⟨_, .two t _ h2 hne h3 hnoWs (by simp) ?_⟩
    rw [← e, parseLink_typed t _ id h1 hq.1 hid]; rfl

theorem filterMap_unique {α β : Type} (φ : α → Option β) (l : List α) (f : α) (b : β)
    (hnd : l.Nodup) (hf : f ∈ l) (hb : φ f = some b) (ho : ∀ g ∈ l, g ≠ f → φ g = none) :
    l.filterMap φ = [b] := by
  induction l with
  | nil => simp at hf
  | cons x xs ih =>
    rw [List.nodup_cons] at hnd
    by_cases hx : x = f
    · subst hx
      have : xs.filterMap φ = [] := by
        apply List.filterMap_eq_nil_iff.mpr
        intro g hg
        exact ho g (by simp [hg]) (fun e => hnd.1 (e ▸ hg))
      simp [hb, this]
    · have hf' : f ∈ xs := by
        rcases List.mem_cons.mp hf with h | h
        · exact absurd h.symm hx
        · exact h
      have := ih hnd.2 hf' (fun g hg hne => ho g (by simp [hg]) hne)
      simp [ho x (by simp) hx, this]

theorem lookup_mem {f : Frag} {ref : Str} {e : El} (h : f.lookup ref = some e) :
    e ∈ f.elems ∧ e.hasId f.kind ref = true := by
  unfold Frag.lookup at h
  have := List.mem_of_getLast? h
  simpa [List.mem_filter] using this

theorem lookup_self {l : Loader} (hl : Consistent l) {f : Frag} (hf : f ∈ l.trees) {b : El}
    (hb : b ∈ f.elems) {ref : Str} (hid : b.hasId f.kind ref = true) : f.lookup ref = some b := by
  cases h : f.lookup ref with
  | none =>
    unfold Frag.lookup at h
    rw [List.getLast?_eq_none_iff] at h
    have : b ∈ f.elems.filter (fun e => e.hasId f.kind ref) := by simp [List.mem_filter, hb, hid]
    rw [h] at this; simp at this
  | some e =>
    obtain ⟨h1, h2⟩ := lookup_mem h
    rw [(hl.2 f hf f hf e h1 b hb ref h2 hid).2]

theorem lookup_other {l : Loader} (hl : Consistent l) {f g : Frag} (hf : f ∈ l.trees)
    (hg : g ∈ l.trees) (hne : g ≠ f) {b : El} (hb : b ∈ f.elems) {ref : Str}
    (hid : b.hasId f.kind ref = true) : g.lookup ref = none := by
  cases h : g.lookup ref with
  | none => rfl
  | some e =>
    obtain ⟨h1, h2⟩ := lookup_mem h
    exact absurd (hl.2 g hg f hf e h1 b hb ref h2 hid).1 hne

/-- following a created link returns the target -/
theorem followLink_created {l : Loader} (hl : Consistent l) {fromF toF : Frag} {b : El}
    (hf : toF ∈ l.trees) (hb : b ∈ toF.elems) (hwf : WFEl toF.kind b) {s : Str}
    (h : createLink fromF toF b = .ok s) : followLink l s = .ok b := by
  obtain ⟨id, hid, hc⟩ := createLink_cases h
  have huu := hwf.1 id hid
  obtain ⟨lk, hp, hr, hx, _⟩ := hc.parse huu (fun t a b => (hwf.2 t a b).1)
  have hhas := linkId_hasId hid
  have hm : l.trees.filterMap (fun f => f.lookup lk.ref) = [b] := by
    apply filterMap_unique _ _ toF b hl.1 hf
    · rw [hr]; exact lookup_self hl hf hb hhas
    · intro g hg hne; rw [hr]; exact lookup_other hl hf hg hne hb hhas
  unfold followLink
  simp only [hp, hm]
  rcases hx with hx | hx
  · simp [hx]
  · cases hxt : lk.xtype with
    | none => rfl
    | some x => simp [← hx, hxt]

theorem followWords_link {l : Loader} {ign : Bool} {s : Str} {ws : List Str} {e : El}
    (h : LinkWords s ws) (hf : followLink l s = .ok e) (rest : List Str) :
    followWords l ign [] (ws ++ rest) =
      (match followWords l ign [] rest with | .ok r => .ok (e :: r) | .error er => .error er) := by
  cases h with
  | one _ _ hh hp =>
    simp only [List.singleton_append, followWords, hh, if_true]
    simp [Option.isSome_iff_ne_none.mp hp, hf]
    cases followWords l ign [] rest <;> rfl
  | two t w _ hne hnh _ hh hp =>
    simp only [List.cons_append, List.nil_append, followWords, hnh, if_false, hh, if_true]
    simp [hne, Option.isSome_iff_ne_none.mp hp, hf]
    cases followWords l ign [] rest <;> rfl

/-- a list of targets, the link texts written for them, and their word shapes -/
theorem setLinks_spec {l : Loader} (hl : Consistent l) (fromF : Frag) :
    ∀ (targets : List (Frag × El)) (ss : List Str),
    (∀ p ∈ targets, p.1 ∈ l.trees ∧ p.2 ∈ p.1.elems ∧ WFEl p.1.kind p.2) →
    setLinks fromF targets = .ok ss →
    ∃ ls : List (Str × List Str), ls.map (·.1) = ss ∧ (∀ p ∈ ls, LinkWords p.1 p.2) ∧
      ∀ ign rest, followWords l ign [] (ls.flatMap (·.2) ++ rest) =
        (match followWords l ign [] rest with
          | .ok r => .ok (targets.map (·.2) ++ r) | .error er => .error er) := by
  intro targets
  induction targets with
  | nil =>
    intro ss _ h
    simp only [setLinks, Except.ok.injEq] at h
    subst h
    refine ⟨[], rfl, by simp, ?_⟩
    intro ign rest
    simp only [List.flatMap_nil, List.nil_append, List.map_nil]
    cases followWords l ign [] rest <;> rfl
  | cons p ps ih =>
    intro ss hall h
    obtain ⟨toF, b⟩ := p
    simp only [setLinks] at h
    cases hc : createLink fromF toF b with
    | error e => simp [hc] at h
    | ok s =>
      simp only [hc] at h
      cases hr : setLinks fromF ps with
      | error e => simp [hr] at h
      | ok r =>
        simp only [hr, Except.ok.injEq] at h
        subst h
        obtain ⟨hin, hbm, hwf⟩ := hall (toF, b) (by simp)
        obtain ⟨ls, h1, h2, h3⟩ := ih r (fun q hq => hall q (by simp [hq])) hr
        obtain ⟨id, hid, hcr⟩ := createLink_cases hc
        obtain ⟨ws, hws⟩ := hcr.words (hwf.1 id hid) hwf.2
        have hfl := followLink_created hl hin hbm hwf hc
        refine ⟨(s, ws) :: ls, by simp [h1], ?_, ?_⟩
        · intro q hq
          rcases List.mem_cons.mp hq with rfl | hq
          · exact hws
          · exact h2 q hq
        · intro ign rest
          simp only [List.flatMap_cons, List.append_assoc, List.map_cons, List.cons_append]
          rw [followWords_link hws hfl, h3]
          cases followWords l ign [] rest <;> rfl

/-- `__set_links` writes, position by position, the link `create_link` gives for the member in the
fragment it was handed with -/
theorem setLinks_pointwise (fromF : Frag) :
    ∀ (ts : List (Frag × El)) (ss : List Str), setLinks fromF ts = .ok ss →
      ss.length = ts.length ∧
      ∀ (k : Nat) (h1 : k < ts.length) (h2 : k < ss.length),
        createLink fromF ts[k].1 ts[k].2 = .ok ss[k] := by
  intro ts
  induction ts with
  | nil =>
    intro ss h
    simp only [setLinks, Except.ok.injEq] at h
    subst h
    exact ⟨rfl, fun k h1 => absurd h1 (Nat.not_lt_zero k)⟩
  | cons p ps ih =>
    intro ss h
    obtain ⟨toF, b⟩ := p
    simp only [setLinks] at h
    cases hc : createLink fromF toF b with
    | error e => simp [hc] at h
    | ok s =>
      simp only [hc] at h
      cases hr : setLinks fromF ps with
      | error e => simp [hr] at h
      | ok r =>
        simp only [hr, Except.ok.injEq] at h
        subst h
        obtain ⟨hlen, hpt⟩ := ih r hr
        refine ⟨by simp [hlen], ?_⟩
        intro k h1 h2
        cases k with
        | zero => simpa using hc
        | succ k =>
          simp only [List.getElem_cons_succ]
          exact hpt k (by simpa using h1) (by simpa using h2)

end Capella.Links
