import Capella.Model.Introspect

/-! Lemmas about the representation loops (`Capella/Model/Introspect.lean`). Core Lean only. -/
namespace Capella.Introspect

/-- `may` over-approximates `eval`: whatever the test evaluates to on a value of the class, `may` allows it. -/
theorem may_of_eval (o : Bool) (t : Test) (c : VClass) : t.may c (t.eval o c) = true := by
  induction t with
  | has m => simp [Test.may, Test.eval]
  | isStr => simp [Test.may, Test.eval]
  | unknown => simp [Test.may]
  | not x ih =>
    simp only [Test.may, Test.eval]
    simpa using ih
  | or x y ihx ihy =>
    cases hx : x.eval o c <;> cases hy : y.eval o c <;>
      simp_all [Test.may, Test.eval]
  | and x y ihx ihy =>
    cases hx : x.eval o c <;> cases hy : y.eval o c <;>
      simp_all [Test.may, Test.eval]

/-- if the chain of tests lets a value through at run time, the static selection admits its class -/
theorem conds_may_of_eval (o : Bool) (conds : List Cond) (c : VClass)
    (h : conds.all (fun k => k.test.eval o c == k.pos) = true) :
    conds.all (fun k => k.test.may c k.pos) = true := by
  rw [List.all_eq_true] at h ⊢
  intro k hk
  have := h k hk
  have e : k.test.eval o c = k.pos := by simpa using this
  rw [← e]
  exact may_of_eval o k.test c

/-- a value whose raising methods are all listed as partial for its class -/
def Val.conforms (v : Val) : Prop := ∀ m, v.raises m = true → v.cls.partialOn.contains m = true

theorem runOn_of_siteOk (o : Bool) (s : Site) (v : Val) (hc : v.conforms) (ha : s.attrOk v.cls = true)
    (h : siteOk s v.cls = true) : s.runOn o v = true := by
  unfold Site.runOn
  split
  · next hconds =>
    unfold siteOk at h
    cases hg : s.guarded with
    | true => simp
    | false =>
      have hsel : s.selects v.cls = true := by
        unfold Site.selects
        rw [ha, conds_may_of_eval o s.conds v.cls hconds]
        rfl
      rw [hg, hsel] at h
      simp only [Bool.false_or, Bool.not_true] at h
      simp only [Bool.false_or]
      cases hi : s.fmt.invokes v.cls with
      | none => rw [hi] at h; simp at h
      | some ms =>
        rw [hi] at h
        simp only at h ⊢
        rw [List.all_eq_true] at h ⊢
        intro m hm
        have hok := h m hm
        unfold VClass.methodOk at hok
        by_cases hp : v.cls.partialOn.contains m = true
        · simp at hok hp
          exact absurd hp hok.1
        · have hr : v.raises m = false := by
            cases hr : v.raises m with
            | false => rfl
            | true => exact absurd (hc m hr) hp
          simp only [hp] at hok
          simp [hr]
          simpa using hok
  · rfl

theorem loop_filter (o : Bool) (sites : List Site) (attrs : List Got) :
    loop o sites attrs = loop o sites (attrs.filter (fun g => match g with | .value _ => true | _ => false)) := by
  induction attrs with
  | nil => rfl
  | cons g rest ih =>
    cases g with
    | value v => simp [loop, List.filter, ih]
    | attrError => simp [loop, List.filter, ih]
    | otherError => simp [loop, List.filter, ih]

theorem loop_true_iff (o : Bool) (sites : List Site) (attrs : List Got) :
    loop o sites attrs = true ↔ ∀ v, Got.value v ∈ attrs → sites.all (fun s => s.runOn o v) = true := by
  induction attrs with
  | nil => simp [loop]
  | cons g rest ih =>
    cases g with
    | value v =>
      simp only [loop, Bool.and_eq_true, ih, List.mem_cons]
      constructor
      · rintro ⟨h1, h2⟩ w hw
        rcases hw with hw | hw
        · cases hw; exact h1
        · exact h2 w hw
      · intro h
        exact ⟨h v (Or.inl rfl), fun w hw => h w (Or.inr hw)⟩
    | attrError =>
      simp only [loop, ih, List.mem_cons]
      constructor
      · intro h w hw
        rcases hw with hw | hw
        · cases hw
        · exact h w hw
      · intro h w hw; exact h w (Or.inr hw)
    | otherError =>
      simp only [loop, ih, List.mem_cons]
      constructor
      · intro h w hw
        rcases hw with hw | hw
        · cases hw
        · exact h w hw
      · intro h w hw; exact h w (Or.inr hw)

end Capella.Introspect
