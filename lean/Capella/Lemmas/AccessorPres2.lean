import Capella.Lemmas.AccessorPres

/-! `Pres` for the read side (`__get__`), reference search, purge contexts and deletion. -/
namespace Capella.Accessor
open Capella.Index Capella.AccTable

theorem pres_followHref (r) : Pres (followHref r) := by unfold followHref; pres_auto
macro_rules | `(tactic| pres_lemma) => `(tactic| with_reducible apply pres_followHref)
theorem pres_iterchildrenXt_go (xts) (cs) : Pres (iterchildrenXt.go xts cs) := by
  induction cs with
  | nil => unfold iterchildrenXt.go; pres_auto
  | cons _ _ ih => unfold iterchildrenXt.go; pres_auto
macro_rules | `(tactic| pres_lemma) => `(tactic| with_reducible apply pres_iterchildrenXt_go)
theorem pres_iterchildrenXt (n xts) : Pres (iterchildrenXt n xts) := by unfold iterchildrenXt; pres_auto
macro_rules | `(tactic| pres_lemma) => `(tactic| with_reducible apply pres_iterchildrenXt)
theorem pres_findRoots_go (roots) (xs) : Pres (findRoots.go roots xs) := by
  induction xs generalizing roots with
  | nil => unfold findRoots.go; pres_auto
  | cons _ _ ih => unfold findRoots.go; repeat' (first | (with_reducible apply ih) | pres_step)
macro_rules | `(tactic| pres_lemma) => `(tactic| with_reducible apply pres_findRoots_go)
theorem pres_findRoots (row obj) : Pres (findRoots row obj) := by unfold findRoots; pres_auto
macro_rules | `(tactic| pres_lemma) => `(tactic| with_reducible apply pres_findRoots)
theorem pres_directGet_lookupM' (a) : Pres (directGet.lookupM' a) := by unfold directGet.lookupM'; pres_auto
macro_rules | `(tactic| pres_lemma) => `(tactic| with_reducible apply pres_directGet_lookupM')
theorem pres_directGet (row obj) : Pres (directGet row obj) := by unfold directGet; pres_auto
macro_rules | `(tactic| pres_lemma) => `(tactic| with_reducible apply pres_directGet)
theorem pres_findRefs (row obj) : Pres (findRefs row obj) := by unfold findRefs; pres_auto
macro_rules | `(tactic| pres_lemma) => `(tactic| with_reducible apply pres_findRefs)
theorem pres_followRef (row r) : Pres (followRef row r) := by unfold followRef; pres_auto
macro_rules | `(tactic| pres_lemma) => `(tactic| with_reducible apply pres_followRef)
theorem pres_linkGet (row obj) : Pres (linkGet row obj) := by unfold linkGet; pres_auto
macro_rules | `(tactic| pres_lemma) => `(tactic| with_reducible apply pres_linkGet)
theorem pres_attrGet (row obj) : Pres (attrGet row obj) := by unfold attrGet; pres_auto
macro_rules | `(tactic| pres_lemma) => `(tactic| with_reducible apply pres_attrGet)
theorem pres_roleGet (row obj) : Pres (roleGet row obj) := by unfold roleGet; pres_auto
macro_rules | `(tactic| pres_lemma) => `(tactic| with_reducible apply pres_roleGet)
theorem pres_accGetBase (row obj) : Pres (accGetBase row obj) := by unfold accGetBase; pres_auto
macro_rules | `(tactic| pres_lemma) => `(tactic| with_reducible apply pres_accGetBase)
theorem pres_accGet (t row obj) : Pres (accGet t row obj) := by unfold accGet; pres_auto
macro_rules | `(tactic| pres_lemma) => `(tactic| with_reducible apply pres_accGet)
theorem pres_purgeEnterBase (row obj tg) : Pres (purgeEnterBase row obj tg) := by unfold purgeEnterBase; pres_auto
macro_rules | `(tactic| pres_lemma) => `(tactic| with_reducible apply pres_purgeEnterBase)
theorem pres_purgeEnter (t row obj tg) : Pres (purgeEnter t row obj tg) := by unfold purgeEnter; pres_auto
macro_rules | `(tactic| pres_lemma) => `(tactic| with_reducible apply pres_purgeEnter)
theorem pres_purgeExit_tryCatchLink (o v) : Pres (purgeExit.tryCatchLink o v) := by unfold purgeExit.tryCatchLink; pres_auto
macro_rules | `(tactic| pres_lemma) => `(tactic| with_reducible apply pres_purgeExit_tryCatchLink)
theorem pres_purgeExit (x) : Pres (purgeExit x) := by unfold purgeExit; pres_auto
macro_rules | `(tactic| pres_lemma) => `(tactic| with_reducible apply pres_purgeExit)
theorem pres_findReferences (t idx tg) : Pres (findReferences t idx tg) := by unfold findReferences; pres_auto
macro_rules | `(tactic| pres_lemma) => `(tactic| with_reducible apply pres_findReferences)
theorem pres_iterDescendants (fuel) (n) : Pres (iterDescendants fuel n) := by
  induction fuel generalizing n with
  | zero => unfold iterDescendants; pres_auto
  | succ _ ih => unfold iterDescendants; repeat' (first | (with_reducible apply ih) | pres_step)
macro_rules | `(tactic| pres_lemma) => `(tactic| with_reducible apply pres_iterDescendants)
theorem pres_deleteEnter (t self es) : Pres (deleteEnter t self es) := by unfold deleteEnter; pres_auto
macro_rules | `(tactic| pres_lemma) => `(tactic| with_reducible apply pres_deleteEnter)
theorem pres_deleteElems (t self es) : Pres (deleteElems t self es) := by unfold deleteElems; pres_auto
macro_rules | `(tactic| pres_lemma) => `(tactic| with_reducible apply pres_deleteElems)

end Capella.Accessor
