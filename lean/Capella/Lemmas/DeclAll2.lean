import Capella.Lemmas.DeclAll
import Capella.Lemmas.DeclOrder
/-!
Lemmas about the `decl.apply` machine, part 7: **accounting of `promise_id`s for every document**
(create, extend, set — scalar and list —, sync — found and create branch, nested —, delete).

For a weight `f` on promise ids, `acc f s` = weight of the `promise_id` sites still pending in agenda, queue
and `deferred` + weight of the ids already bound.  A transition never raises `acc` (nothing is bound that no
site declares) and lowers it only in one place: the create branch of `_operate_sync` builds the new object
from `find | set | extend`, and a list below `set` that is overridden by a list of the same name below
`extend` (Python `dict |`) disappears together with the promise ids declared inside it.  `drop f` is the
potential of that loss (0 for every sync entry whose `set` and `extend` keys are distinct); what is lost is
bounded by the drop potential that is used up.
-/
namespace Capella.Decl

def bound (f : Str → Nat) (ps : Promises) : Nat := sumBy (fun e => f e.1) ps

def State.acc (f : Str → Nat) (s : State) : Nat := s.pidN f + bound f s.ps

mutual
/-- weight of the promise ids a sync entry loses when its create branch merges `find | set | extend` -/
def SyncObj.drop (f : Str → Nat) : SyncObj → Nat
  | .mk _ _ _ keys _ set ext sync =>
    (setPidN f set + kidsPidN f ext - kidsPidN f (propKids (propsOf keys set ext))) + syncDrop f sync
def syncDrop (f : Str → Nat) : List (Str × List SyncObj) → Nat
  | [] => 0
  | (_, l) :: t => sosDrop f l + syncDrop f t
def sosDrop (f : Str → Nat) : List SyncObj → Nat
  | [] => 0
  | x :: t => x.drop f + sosDrop f t
end

def Piece.drop (f : Str → Nat) : Piece → Nat
  | .sync _ so => so.drop f
  | .resync _ _ _ _ sy => syncDrop f sy
  | .item _ _ => 0
  | .setE _ _ => 0

def Action.drop (f : Str → Nat) : Action → Nat
  | .whole i => syncDrop f i.sync
  | .piece _ w => w.drop f

def Work.drop (f : Str → Nat) : Work → Nat
  | .syncs _ _ l => sosDrop f l
  | .resync _ _ _ _ _ sy => syncDrop f sy
  | .items _ _ _ => 0
  | .sets _ _ => 0
  | .fulfil _ _ => 0
  | .dels _ _ _ => 0

def State.drop (f : Str → Nat) (s : State) : Nat :=
  sumBy (Work.drop f) s.agenda + sumBy (Action.drop f) s.queue + sumBy (fun e => e.2.drop f) s.deferred

/-- effect of a helper that consumes syntax carrying promise ids of weight `d` and drop potential `k` -/
structure Acct (f : Str → Nat) (s s' : State) (d k : Nat) : Prop where
  le : s'.acc f ≤ s.acc f + d
  dr : s'.drop f ≤ s.drop f + k
  ge : s.acc f + d + s'.drop f ≤ s'.acc f + s.drop f + k

theorem defer_acc (f) (s : State) (p : Str) (a : Action) : (s.defer p a).acc f = s.acc f + a.pidN f := by
  simp [State.defer, State.acc, State.pidN, sumBy_append, sumBy]; omega

theorem defer_drop (f) (s : State) (p : Str) (a : Action) : (s.defer p a).drop f = s.drop f + a.drop f := by
  simp [State.defer, State.drop, sumBy_append, sumBy]; omega

theorem fulfil_acct {f} {s s' : State} {p : Str} {i : Id} (h : s.fulfil p i = .ok s') :
    s'.acc f = s.acc f + f p ∧ s'.drop f = s.drop f ∧ s'.agenda = s.agenda := by
  unfold State.fulfil at h
  split at h
  · cases h
  · cases h
    have hm := sumBy_filter_split (fun e : Str × Action => e.2.pidN f) (fun e => e.1 == p) s.deferred
    have hd := sumBy_filter_split (fun e : Str × Action => e.2.drop f) (fun e => e.1 == p) s.deferred
    simp only [State.acc, State.pidN, State.drop, bound, sumBy_append, sumBy_map, sumBy] at *
    refine ⟨?_, ?_, trivial⟩ <;> omega

theorem kidsDrop_eq (f : Str → Nat) (par : Id) (kids : List (Str × List Item)) :
    sumBy (Work.drop f) (kids.map (fun kl => Work.items par kl.1 kl.2)) = 0 := by
  induction kids with
  | nil => simp [sumBy]
  | cons x t ih => simp [sumBy, Work.drop, ih] at *

theorem syncDrop_eq (f : Str → Nat) (par : Id) (sync : List (Str × List SyncObj)) :
    sumBy (Work.drop f) (sync.map (fun kl => Work.syncs par kl.1 kl.2)) = syncDrop f sync := by
  induction sync with
  | nil => simp [sumBy, syncDrop]
  | cons x t ih => obtain ⟨k, l⟩ := x; simp [sumBy, syncDrop, Work.drop, ih] at *

theorem delDrop_eq (f : Str → Nat) (par : Id) (del : List (Str × List Val)) :
    sumBy (Work.drop f) (del.map (fun kl => Work.dels par kl.1 kl.2)) = 0 := by
  induction del with
  | nil => simp [sumBy]
  | cons x t ih => simp [sumBy, Work.drop, ih] at *

theorem delPidN_eq' (f : Str → Nat) (par : Id) (del : List (Str × List Val)) :
    sumBy (Work.pidN f) (del.map (fun kl => Work.dels par kl.1 kl.2)) = 0 := by
  induction del with
  | nil => simp [sumBy]
  | cons x t ih => simp [sumBy, Work.pidN, ih] at *

theorem stepItem_acct {f mm s s' par attr} {x : Item} (h : stepItem mm s par attr x = .ok s') :
    Acct f s s' (x.pidN f) 0 := by
  unfold stepItem at h
  split at h
  · cases h
  · cases x with
    | ref v =>
      simp only at h
      split at h
      · cases h
        refine ⟨?_, ?_, ?_⟩ <;> simp [defer_acc, defer_drop, Action.pidN, Piece.pidN, Item.pidN, Action.drop, Piece.drop]
      · cases h
      · cases h
        refine ⟨?_, ?_, ?_⟩ <;> simp [State.acc, State.pidN, State.drop, Item.pidN]
      · cases h
    | str nid str =>
      simp only at h
      split at h
      · cases h
      · split at h
        · cases h
        · cases h
          refine ⟨?_, ?_, ?_⟩ <;> simp [State.acc, State.pidN, State.drop, Item.pidN]
    | obj nid pid ty scal kids =>
      simp only at h
      split at h
      · cases h
        refine ⟨?_, ?_, ?_⟩ <;> simp [defer_acc, defer_drop, Action.pidN, Piece.pidN, Action.drop, Piece.drop] <;> omega
      · cases h
      · split at h
        · cases h
        · cases pid with
          | none =>
            simp [State.fulfilOpt, bind, Except.bind, pure, Except.pure] at h
            cases h
            refine ⟨?_, ?_, ?_⟩ <;>
              simp [State.acc, State.pidN, State.drop, Item.pidN, optN, sumBy_append, kidsPidN_eq, kidsDrop_eq] <;> omega
          | some p =>
            simp only [State.fulfilOpt, bind, Except.bind, pure, Except.pure] at h
            split at h
            · cases h
            · rename_i s2 hs2
              cases h
              obtain ⟨hA, hD, hG⟩ := fulfil_acct (f := f) hs2
              have hG' : s2.agenda = s.agenda := hG
              simp only [State.acc, State.pidN, State.drop, hG'] at hA hD
              refine ⟨?_, ?_, ?_⟩ <;>
                simp [State.acc, State.pidN, State.drop, Item.pidN, optN, sumBy_append, kidsPidN_eq, kidsDrop_eq, hG'] <;> omega

theorem stepSet_acct {f s s' par attr} {v : SetVal} (h : stepSet s par attr v = .ok s') :
    Acct f s s' (v.pidN f) 0 := by
  cases v with
  | scalar v =>
    simp only [stepSet] at h
    split at h
    · cases h
      refine ⟨?_, ?_, ?_⟩ <;> simp [defer_acc, defer_drop, Action.pidN, Piece.pidN, SetVal.pidN, Action.drop, Piece.drop]
    · cases h
    · cases h
      refine ⟨?_, ?_, ?_⟩ <;> simp [State.acc, State.pidN, State.drop, SetVal.pidN]
  | list l =>
    simp only [stepSet] at h
    have hp := resolveRefs_pidN f s.ps s.g l
    split at h
    · rename_i l' p heq
      cases h
      rw [heq] at hp
      simp only at hp
      refine ⟨?_, ?_, ?_⟩ <;> simp [defer_acc, defer_drop, Action.pidN, Piece.pidN, SetVal.pidN, Action.drop, Piece.drop, hp]
    · cases h
    · rename_i l' heq
      cases h
      rw [heq] at hp
      simp only at hp
      refine ⟨?_, ?_, ?_⟩ <;> simp [State.acc, State.pidN, State.drop, SetVal.pidN, sumBy, Work.pidN, Work.drop, hp] <;> omega

theorem stepSync_acct {f s s' par attr} {so : SyncObj} (h : stepSync s par attr so = .ok s') :
    Acct f s s' (so.pidN f) (so.drop f) := by
  obtain ⟨nid, nid2, ty, keys, pid, set, ext, sync⟩ := so
  simp only [stepSync] at h
  split at h
  · cases h
    refine ⟨?_, ?_, ?_⟩ <;> simp [defer_acc, defer_drop, Action.pidN, Piece.pidN, Action.drop, Piece.drop] <;> omega
  · cases h
  · cases h
    refine ⟨?_, ?_, ?_⟩ <;> cases pid <;>
      simp [State.acc, State.pidN, State.drop, SyncObj.pidN, SyncObj.drop, sumBy_append, sumBy, Work.pidN, Work.drop,
        syncPidN_eq, kidsPidN_eq, syncDrop_eq, kidsDrop_eq, optN] <;> omega
  · split at h
    · cases h
      refine ⟨?_, ?_, ?_⟩ <;> simp [defer_acc, defer_drop, Action.pidN, Piece.pidN, Action.drop, Piece.drop] <;> omega
    · cases h
    · cases h
      have hp := props_pidN f keys set ext
      refine ⟨?_, ?_, ?_⟩ <;> cases sync <;>
        simp [State.acc, State.pidN, State.drop, SyncObj.pidN, SyncObj.drop, sumBy, Work.pidN, Work.drop,
          itemsPidN, Item.pidN, syncPidN, syncDrop] <;> omega

theorem stepResync_acct {f mm s s' par attr nid2 ty keys sync}
    (h : stepResync mm s par attr nid2 ty keys sync = .ok s') :
    Acct f s s' (syncPidN f sync) (syncDrop f sync) := by
  simp only [stepResync] at h
  split at h
  · cases h
    refine ⟨?_, ?_, ?_⟩ <;> simp [defer_acc, defer_drop, Action.pidN, Piece.pidN, Action.drop, Piece.drop] <;> omega
  · cases h
  · cases h
    refine ⟨?_, ?_, ?_⟩ <;>
      simp [State.acc, State.pidN, State.drop, sumBy_append, syncPidN_eq, syncDrop_eq] <;> omega
  · split at h
    · cases h
    · split at h
      · cases h
      · split at h
        · cases h
        · cases h
        · cases h
          refine ⟨?_, ?_, ?_⟩ <;>
            simp [State.acc, State.pidN, State.drop, sumBy_append, syncPidN_eq, syncDrop_eq] <;> omega

theorem stepDel_acct {f s s' par attr} {v : Val} (h : stepDel s par attr v = .ok s') :
    Acct f s s' 0 0 := by
  unfold stepDel at h
  split at h
  · cases h
  · split at h
    · cases h
    · cases h
    · cases h
    · split at h
      · cases h
        refine ⟨?_, ?_, ?_⟩ <;> simp [State.acc, State.pidN, State.drop]
      · cases h

theorem worksOf_drop (f) (par : Id) (i : Instr) : sumBy (Work.drop f) (worksOf par i) = syncDrop f i.sync := by
  simp [worksOf, sumBy_append, sumBy, kidsDrop_eq, syncDrop_eq, delDrop_eq, Work.drop]

theorem startAction_acct {f mm s s'} {a : Action} (ha : s.agenda = [])
    (h : startAction mm s a = .ok s') : Acct f s s' (a.pidN f) (a.drop f) := by
  cases a with
  | whole i =>
    simp only [startAction] at h
    split at h
    · cases h
      refine ⟨?_, ?_, ?_⟩ <;> simp [defer_acc, defer_drop] <;> omega
    · cases h
    · cases h
    · rename_i par _
      cases h
      have hp := worksOf_pidN f par i
      have hd := worksOf_drop f par i
      refine ⟨?_, ?_, ?_⟩ <;>
        simp [State.acc, State.pidN, State.drop, Action.pidN, Action.drop, ha, sumBy] <;> omega
  | piece par w =>
    cases w with
    | item attr x => have := stepItem_acct (f := f) h; simpa [Action.pidN, Piece.pidN, Action.drop, Piece.drop] using this
    | setE attr v => have := stepSet_acct (f := f) h; simpa [Action.pidN, Piece.pidN, Action.drop, Piece.drop] using this
    | sync attr so => exact stepSync_acct h
    | resync attr nid2 ty keys sy => exact stepResync_acct h

theorem stepWork_acct {f mm s s'} {w : Work} (h : stepWork mm s w = .ok s') :
    Acct f s s' (w.pidN f) (w.drop f) := by
  cases w with
  | items par attr l =>
    cases l with
    | nil => have := checkTarget_items_nil h; subst this; refine ⟨?_, ?_, ?_⟩ <;> simp [Work.pidN, Work.drop, itemsPidN]
    | cons x l =>
      obtain ⟨a, b, c⟩ := stepItem_acct (f := f) h
      refine ⟨?_, ?_, ?_⟩ <;>
        simp [State.acc, State.pidN, State.drop, sumBy, Work.pidN, Work.drop, itemsPidN] at * <;> omega
  | sets par l =>
    cases l with
    | nil => cases h; refine ⟨?_, ?_, ?_⟩ <;> simp [Work.pidN, Work.drop, setPidN]
    | cons x l =>
      obtain ⟨k, v⟩ := x
      obtain ⟨a, b, c⟩ := stepSet_acct (f := f) h
      refine ⟨?_, ?_, ?_⟩ <;>
        simp [State.acc, State.pidN, State.drop, sumBy, Work.pidN, Work.drop, setPidN] at * <;> omega
  | syncs par attr l =>
    cases l with
    | nil => cases h; refine ⟨?_, ?_, ?_⟩ <;> simp [Work.pidN, Work.drop, sosPidN, sosDrop]
    | cons x l =>
      obtain ⟨a, b, c⟩ := stepSync_acct (f := f) h
      refine ⟨?_, ?_, ?_⟩ <;>
        simp [State.acc, State.pidN, State.drop, sumBy, Work.pidN, Work.drop, sosPidN, sosDrop] at * <;> omega
  | resync par attr nid2 ty keys sync => exact stepResync_acct h
  | fulfil p i =>
    obtain ⟨a, b, c⟩ := fulfil_acct (f := f) h
    refine ⟨?_, ?_, ?_⟩ <;> simp [Work.pidN, Work.drop] <;> omega
  | dels par attr l =>
    cases l with
    | nil => cases h; refine ⟨?_, ?_, ?_⟩ <;> simp [Work.pidN, Work.drop]
    | cons x l =>
      obtain ⟨a, b, c⟩ := stepDel_acct (f := f) h
      refine ⟨?_, ?_, ?_⟩ <;>
        simp [State.acc, State.pidN, State.drop, sumBy, Work.pidN, Work.drop] at * <;> omega

/-- every transition, every document: the account never grows, the drop potential never grows, and the
account shrinks by no more than the drop potential used up -/
theorem step_acct {f mm s s'} (h : step mm s = .ok (some s')) :
    s'.acc f ≤ s.acc f ∧ s'.drop f ≤ s.drop f ∧ s.acc f + s'.drop f ≤ s'.acc f + s.drop f := by
  unfold step at h
  split at h
  · rename_i w rest hag
    cases hw : stepWork mm { s with agenda := rest } w with
    | error e => simp [hw, Except.map] at h
    | ok s2 =>
      simp [hw, Except.map] at h
      subst h
      obtain ⟨a, b, c⟩ := stepWork_acct (f := f) hw
      simp [State.acc, State.pidN, State.drop, hag, sumBy] at *
      omega
  · rename_i hag
    split at h
    · cases h
    · rename_i a q hq
      cases hw : startAction mm { s with queue := q } a with
      | error e => simp [hw, Except.map] at h
      | ok s2 =>
        simp [hw, Except.map] at h
        subst h
        obtain ⟨a, b, c⟩ := startAction_acct (f := f) (by simpa using hag) hw
        simp [State.acc, State.pidN, State.drop, hag, hq, sumBy] at *
        omega

theorem run_acct {f mm} : ∀ (n : Nat) (s sf : State), run mm n s = some (.ok sf) →
    sf.acc f ≤ s.acc f ∧ sf.drop f ≤ s.drop f ∧ s.acc f + sf.drop f ≤ sf.acc f + s.drop f
  | 0, _, _, h => by simp [run] at h
  | n + 1, s, sf, h => by
    unfold run at h
    split at h
    · simp at h
    · simp at h; subst h; omega
    · rename_i s' hs
      obtain ⟨a, b, c⟩ := run_acct (f := f) n s' sf h
      obtain ⟨a', b', c'⟩ := step_acct (f := f) hs
      omega

/-- weight of the `promise_id` sites of a document, and of what its sync entries may lose -/
def docPid (f : Str → Nat) (doc : List Instr) : Nat := sumBy (Instr.pidN f) doc
def docDrop (f : Str → Nat) (doc : List Instr) : Nat := sumBy (fun i => syncDrop f i.sync) doc

theorem init_acc (f) (g : Graph) (doc : List Instr) : (init g doc).acc f = docPid f doc := by
  simp [init, State.acc, State.pidN, bound, sumBy, sumBy_map, docPid, Action.pidN]

theorem init_drop (f) (g : Graph) (doc : List Instr) : (init g doc).drop f = docDrop f doc := by
  simp [init, State.drop, sumBy, sumBy_map, docDrop, Action.drop]

/-- **accounting of promise ids, every document**: after a successful `apply` the weight of the bound ids is
at most the weight of the declaration sites of the document and falls short of it by at most the document's
drop potential -/
theorem apply_acct {mm g doc g' ps'} (f : Str → Nat) (h : apply mm g doc = .ok (g', ps')) :
    bound f ps' ≤ docPid f doc ∧ docPid f doc ≤ bound f ps' + docDrop f doc := by
  obtain ⟨n, sf, hr, _, hps, hd⟩ := apply_ok_run h
  obtain ⟨ha, hq, _⟩ := run_end_fixpoint n _ sf (init_unbound g doc) hr
  obtain ⟨a, b, c⟩ := run_acct (f := f) n _ sf hr
  rw [init_acc, init_drop] at *
  have hacc : sf.acc f = bound f ps' := by simp [State.acc, State.pidN, ha, hq, hd, sumBy, hps]
  rw [hacc] at a c
  constructor <;> omega

theorem bound_indS (q : Str) (ps : Promises) : bound (indS q) ps = (ps.map Prod.fst).count q := by
  induction ps with
  | nil => simp [bound, sumBy]
  | cons x t ih =>
    simp only [bound, sumBy, List.map_cons, List.count_cons] at *
    rw [ih]
    by_cases hx : x.1 = q <;> simp [hx, indS] <;> omega

end Capella.Decl
