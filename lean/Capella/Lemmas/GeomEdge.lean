/-
Lemmas about the edge chain (`Capella.Model.GeomEdge`): translation equivariance of every step and of the
whole route for point lists of any length; the shape of what `snaptarget` does to a list of points (only the
end changes, at most one point is inserted, the new end is a `Box.vector_snap` result); totality.
-/
import Capella.Model.GeomEdge
import Capella.Lemmas.GeomSnap
import Capella.Lemmas.GeomTranslate
import Capella.Lemmas.GeomMore

namespace Capella.Geom

/-- how a list of points (or the error) is moved -/
def mvl (v : V2) (r : Except Err (List V2)) : Except Err (List V2) := r.map (fun l => l.map (· + v))

@[simp] theorem mvl_ok (v : V2) (l : List V2) : mvl v (.ok l) = .ok (l.map (· + v)) := rfl
@[simp] theorem mvl_error (v : V2) (e : Err) : mvl v (.error e) = .error e := rfl
@[simp] theorem Except.map_ok' {ε α β : Type} (f : α → β) (a : α) : (Except.ok a : Except ε α).map f = .ok (f a) := rfl
@[simp] theorem Except.map_error' {ε α β : Type} (f : α → β) (e : ε) : (Except.error e : Except ε α).map f = .error e := rfl

/-! ### `_extract_relative_bendpoints` -/

theorem collapseEqual_translate (pts : List V2) (v : V2) :
    collapseEqual (pts.map (· + v)) = (collapseEqual pts).map (· + v) := by
  cases pts with
  | nil => rfl
  | cons p0 rest =>
    simp only [collapseEqual, List.map_cons, List.all_map]
    have : (rest.all ((fun b => decide (b = p0 + v)) ∘ fun x => x + v)) = rest.all (fun b => decide (b = p0)) := by
      congr 1
      funext x
      simp only [Function.comp, V2.add_right_cancel_iff]
    rw [this]
    split_ifs <;> simp

theorem Rect.toBox_translate (r : Rect) (v : V2) : (r.translate v).toBox = r.toBox.translate v := by
  simp only [Rect.toBox, Rect.translate, Box.translate, Box.mk.injEq]
  exact ⟨V2.ext' (by simp) (by simp), V2.ext' (by simp) (by simp), trivial⟩

theorem extractRelBendpoints_translate (sb : Rect) (anchor : V2) (rel : List V2) (v : V2) :
    extractRelBendpoints (sb.translate v) anchor rel = (extractRelBendpoints sb anchor rel).map (· + v) := by
  unfold extractRelBendpoints
  rw [← collapseEqual_translate, Rect.toBox_translate]
  simp only [List.map_map, Box.translate_pos, Box.translate_size]
  congr 1
  apply List.map_congr_left
  intro r _
  exact V2.ext' (by simp; ring) (by simp; ring)

/-- the collapse returns nothing or everything, and "everything" has at least two points -/
theorem collapseEqual_spec (pts : List V2) : collapseEqual pts = [] ∨ (collapseEqual pts = pts ∧ 2 ≤ pts.length) := by
  cases pts with
  | nil => left; rfl
  | cons p0 rest =>
    simp only [collapseEqual]
    split_ifs with h
    · left; rfl
    · right
      refine ⟨rfl, ?_⟩
      cases rest with
      | nil => simp at h
      | cons _ _ => simp

/-! ### translation of the three end snaps -/

theorem snapObliqueEnd_translate (dec : V2 → V2 → Bool) (b : Box) (e nx : V2) (nx2 : Option V2) (v : V2) :
    snapObliqueEnd dec (b.translate v) (e + v) (nx + v) (nx2.map (· + v)) = mv v (snapObliqueEnd dec b e nx nx2) := by
  unfold snapObliqueEnd
  rw [vectorSnap_translate]
  cases vectorSnap b e nx .oblique with
  | error err => rfl
  | ok q =>
    simp only [mv_ok, V2.add_sub_add]
    have hg : (nx2.map (· + v)).getD (nx + v) = nx2.getD nx + v := by cases nx2 <;> rfl
    rw [hg, vectorSnap_translate]
    split_ifs <;> rfl

theorem closestaxis_cases (d : V2) :
    (closestaxis d = ⟨1, 0⟩ ∨ closestaxis d = ⟨-1, 0⟩) ∨ (closestaxis d = ⟨0, 1⟩ ∨ closestaxis d = ⟨0, -1⟩) := by
  unfold closestaxis sgn1
  split_ifs <;> simp

theorem manhattanProject_translate (d e nx v : V2) :
    manhattanProject (closestaxis d) (e + v) (nx + v) = manhattanProject (closestaxis d) e nx + v := by
  rcases closestaxis_cases d with (h | h) | (h | h) <;> rw [h] <;>
    exact V2.ext' (by norm_num [manhattanProject, V2.had, absV, rabs, b2r]) (by norm_num [manhattanProject, V2.had, absV, rabs, b2r])

theorem manhattanFinish_translate (b : Box) (axis e1 nx v : V2) :
    manhattanFinish (b.translate v) axis (e1 + v) (nx + v) = mvl v (manhattanFinish b axis e1 nx) := by
  unfold manhattanFinish
  rw [vectorSnap_translate]
  cases vectorSnap b e1 nx .manhattan with
  | error err => rfl
  | ok q =>
    simp only [mv_ok, V2.add_x, V2.add_y, add_left_inj]
    split_ifs <;> simp only [mvl_ok, List.map_cons, List.map_nil] <;> congr 1

theorem snapManhattanEnd_translate (b : Box) (e nx v : V2) :
    snapManhattanEnd (b.translate v) (e + v) (nx + v) = mvl v (snapManhattanEnd b e nx) := by
  unfold snapManhattanEnd
  simp only [V2.add_sub_add]
  rw [← manhattanFinish_translate]
  congr 1
  split_ifs
  · rfl
  · exact manhattanProject_translate _ _ _ _

theorem snapTreeEnd_translate (b : Box) (e nx v : V2) :
    snapTreeEnd (b.translate v) (e + v) (nx + v) = mvl v (snapTreeEnd b e nx) := by
  unfold snapTreeEnd
  rw [vectorSnap_translate]
  cases vectorSnap b e nx .tree with
  | error err => rfl
  | ok q =>
    simp only [mv_ok, V2.add_x, V2.add_y, add_left_inj]
    split_ifs <;> simp only [mvl_ok, List.map_cons, List.map_nil] <;> congr 1

/-- `snaptarget` commutes with translation: any number of points, every routing style, port or not, error
outcomes included, for every angle decision `dec` -/
theorem snapEnd_translate (dec : V2 → V2 → Bool) (st : Style) (b : Box) (pts : List V2) (v : V2) :
    snapEnd dec st (b.translate v) (pts.map (· + v)) = mvl v (snapEnd dec st b pts) := by
  match pts with
  | [] => rfl
  | [_] => rfl
  | e :: nx :: rest =>
    simp only [List.map_cons, snapEnd]
    cases st with
    | oblique =>
      simp only
      have hh : (rest.map (· + v)).head? = rest.head?.map (· + v) := by cases rest <;> rfl
      rw [hh, snapObliqueEnd_translate]
      cases snapObliqueEnd dec b e nx rest.head? <;> simp [mv, mvl]
    | manhattan =>
      simp only
      rw [snapManhattanEnd_translate]
      cases snapManhattanEnd b e nx <;> simp [mvl]
    | tree =>
      simp only
      rw [snapTreeEnd_translate]
      cases snapTreeEnd b e nx <;> simp [mvl]

/-! ### translation of the whole route -/

theorem routeTree_translate (sb tb : Rect) (v : V2) :
    routeTree (sb.translate v) (tb.translate v) = (routeTree sb tb).map (· + v) := by
  unfold routeTree
  simp only [Rect.toBox_translate, Box.translate_center, Box.translate_pos, Box.translate_size, V2.add_x, V2.add_y,
    add_lt_add_iff_right, List.map_cons, List.map_nil]
  refine List.cons_eq_cons.mpr ⟨V2.ext' (by simp) (by simp; ring), List.cons_eq_cons.mpr ⟨V2.ext' (by simp) (by simp; ring),
    List.cons_eq_cons.mpr ⟨V2.ext' (by simp) (by simp; ring), List.cons_eq_cons.mpr ⟨V2.ext' (by simp) (by simp; ring), rfl⟩⟩⟩⟩

@[simp] theorem EdgeIn.translate_style (i : EdgeIn) (v : V2) : (i.translate v).style = i.style := rfl

theorem edgePoints_translate (i : EdgeIn) (v : V2) : edgePoints (i.translate v) = mvl v (edgePoints i) := by
  unfold edgePoints
  simp only [EdgeIn.translate, boxBounds_translate, extractRelBendpoints_translate]
  by_cases h : extractRelBendpoints (boxBounds i.src i.srcLabels) i.anchor i.rel = []
  · simp only [h, List.map_nil, ne_eq, not_true_eq_false, if_false]
    cases i.style with
    | manhattan => simp only [routeManhattan_translate]; rfl
    | tree => simp only [routeTree_translate, mvl_ok]
    | oblique => simp only [routeOblique_translate, mvl_ok]
  · have h' : List.map (· + v) (extractRelBendpoints (boxBounds i.src i.srcLabels) i.anchor i.rel) ≠ [] := by
      simpa using h
    simp only [ne_eq, h, h', not_false_eq_true, if_true, mvl_ok]

/-- `generic_factory` commutes with translation: moving both boxes (and their floating labels) by `v` moves every
point of the edge by exactly `v` — stored bend point lists of any length, default routes, all three routing styles,
ports or not, for every angle decision `dec`, error outcomes included -/
theorem edgeRoute_translate (dec : V2 → V2 → Bool) (i : EdgeIn) (v : V2) :
    edgeRoute dec (i.translate v) = mvl v (edgeRoute dec i) := by
  unfold edgeRoute
  rw [edgePoints_translate]
  cases edgePoints i with
  | error err => rfl
  | ok pts =>
    simp only [mvl_ok, EdgeIn.translate_style]
    have ht : (i.translate v).tgt = i.tgt.translate v := rfl
    have hs : (i.translate v).src = i.src.translate v := rfl
    rw [ht, hs, ← List.map_reverse, snapEnd_translate]
    cases snapEnd dec i.style i.tgt pts.reverse with
    | error err => rfl
    | ok r =>
      simp only [mvl_ok]
      rw [← List.map_reverse, snapEnd_translate]

/-! ### what `snaptarget` does to the list -/

theorem Except.map_eq_ok {ε α β : Type} {f : α → β} {r : Except ε α} {y : β} (h : r.map f = .ok y) :
    ∃ x, r = .ok x ∧ y = f x := by
  cases r with
  | error e => simp at h
  | ok x => simp only [Except.map_ok', Except.ok.injEq] at h; exact ⟨x, rfl, h.symm⟩

theorem manhattanFinish_shape (b : Box) (axis e1 nx : V2) (l : List V2) (h : manhattanFinish b axis e1 nx = .ok l) :
    ∃ q pre, l = q :: pre ∧ pre.length ≤ 1 ∧ vectorSnap b e1 nx .manhattan = .ok q := by
  unfold manhattanFinish at h
  cases h1 : vectorSnap b e1 nx .manhattan with
  | error err => rw [h1] at h; simp at h
  | ok q =>
    rw [h1] at h
    simp only at h
    split_ifs at h <;> simp only [Except.ok.injEq] at h
    · exact ⟨q, [], h.symm, by simp, rfl⟩
    · exact ⟨q, [_], h.symm, by simp, rfl⟩
    · exact ⟨q, [], h.symm, by simp, rfl⟩
    · exact ⟨q, [_], h.symm, by simp, rfl⟩

theorem manhattanFinish_total (b : Box) (axis e1 nx : V2) (hw : 0 < b.size.x) (hh : 0 < b.size.y) :
    ∃ l, manhattanFinish b axis e1 nx = .ok l := by
  unfold manhattanFinish
  obtain ⟨q, hq, _⟩ := vectorSnap_spec b e1 nx .manhattan hw hh (by decide)
  rw [hq]
  simp only
  split_ifs <;> exact ⟨_, rfl⟩

/-- `snaptarget` replaces the end point by one or two points and leaves every other point alone; the new end point
is what `Box.vector_snap` returned (for some point and source, in the style of the edge) -/
theorem snapEnd_shape (dec : V2 → V2 → Bool) (st : Style) (b : Box) (e nx : V2) (rest l : List V2)
    (h : snapEnd dec st b (e :: nx :: rest) = .ok l) :
    ∃ q pre, l = q :: (pre ++ nx :: rest) ∧ pre.length ≤ 1 ∧ ∃ p s, vectorSnap b p s st = .ok q := by
  simp only [snapEnd] at h
  cases st with
  | oblique =>
    simp only [snapObliqueEnd] at h
    cases h1 : vectorSnap b e nx .oblique with
    | error err => rw [h1] at h; simp at h
    | ok q =>
      rw [h1] at h
      simp only at h
      split_ifs at h
      · cases h2 : vectorSnap b nx (rest.head?.getD nx) .oblique with
        | error err => rw [h2] at h; simp at h
        | ok q2 =>
          rw [h2] at h
          simp only [Except.map_ok', Except.ok.injEq] at h
          exact ⟨q2, [], by simpa using h.symm, by simp, nx, _, h2⟩
      · simp only [Except.map_ok', Except.ok.injEq] at h
        exact ⟨q, [], by simpa using h.symm, by simp, e, nx, h1⟩
  | manhattan =>
    simp only [snapManhattanEnd] at h
    obtain ⟨x, hx, hlx⟩ := Except.map_eq_ok h
    obtain ⟨q, pre, hl, hp, hq⟩ := manhattanFinish_shape b _ _ nx x hx
    exact ⟨q, pre, by rw [hlx, hl]; simp, hp, _, nx, hq⟩
  | tree =>
    simp only [snapTreeEnd] at h
    cases h1 : vectorSnap b e nx .tree with
    | error err => rw [h1] at h; simp at h
    | ok q =>
      rw [h1] at h
      simp only at h
      split_ifs at h <;> simp only [Except.map_ok', Except.ok.injEq] at h
      · exact ⟨q, [], by simpa using h.symm, by simp, e, nx, h1⟩
      · exact ⟨q, [_], by simpa using h.symm, by simp, e, nx, h1⟩

/-- for tree routing the new end point is the tree snap of the old end point coming from its neighbour -/
theorem snapEnd_tree_head (dec : V2 → V2 → Bool) (b : Box) (e nx : V2) (rest l : List V2)
    (h : snapEnd dec .tree b (e :: nx :: rest) = .ok l) : l.head? = some (snapTree b e (e - nx)) := by
  simp only [snapEnd, snapTreeEnd, vectorSnap] at h
  split_ifs at h <;> simp only [Except.map_ok', Except.ok.injEq] at h <;> rw [← h] <;> rfl

/-- `snaptarget` on a proper box never fails (two or more points) -/
theorem snapEnd_total (dec : V2 → V2 → Bool) (st : Style) (b : Box) (e nx : V2) (rest : List V2)
    (hw : 0 < b.size.x) (hh : 0 < b.size.y) : ∃ l, snapEnd dec st b (e :: nx :: rest) = .ok l := by
  have tot : ∀ p s st', ∃ q, vectorSnap b p s st' = .ok q := by
    intro p s st'
    by_cases ht : st' = .tree
    · subst ht; exact ⟨_, rfl⟩
    · obtain ⟨q, hq, _⟩ := vectorSnap_spec b p s st' hw hh ht
      exact ⟨q, hq⟩
  simp only [snapEnd]
  cases st with
  | oblique =>
    simp only [snapObliqueEnd]
    obtain ⟨q, hq⟩ := tot e nx .oblique
    rw [hq]
    simp only
    split_ifs
    · obtain ⟨q2, hq2⟩ := tot nx (rest.head?.getD nx) .oblique
      rw [hq2]; exact ⟨_, rfl⟩
    · exact ⟨_, rfl⟩
  | manhattan =>
    simp only [snapManhattanEnd]
    obtain ⟨l, hl⟩ := manhattanFinish_total b (closestaxis (e - nx))
      (if onAxis (closestaxis (e - nx)) (e - nx) then e else manhattanProject (closestaxis (e - nx)) e nx) nx hw hh
    rw [hl]; exact ⟨_, rfl⟩
  | tree =>
    simp only [snapTreeEnd]
    obtain ⟨q, hq⟩ := tot e nx .tree
    rw [hq]
    simp only
    split_ifs <;> exact ⟨_, rfl⟩

/-- the points an edge is constructed with: at least two -/
theorem edgePoints_two (i : EdgeIn) (hsw : 0 < i.src.size.x) (hsh : 0 < i.src.size.y) (htw : 0 < i.tgt.size.x)
    (hth : 0 < i.tgt.size.y) : ∃ a b rest, edgePoints i = .ok (a :: b :: rest) := by
  unfold edgePoints
  by_cases h : extractRelBendpoints (boxBounds i.src i.srcLabels) i.anchor i.rel = []
  · simp only [h, ne_eq, not_true_eq_false, if_false]
    cases i.style with
    | manhattan =>
      obtain ⟨a, m1, m2, z, hr, _⟩ := routeManhattan_ends i.src i.tgt hsw hsh htw hth
      exact ⟨a, m1, [m2, z], hr⟩
    | tree => exact ⟨_, _, _, rfl⟩
    | oblique => exact ⟨_, _, _, rfl⟩
  · simp only [ne_eq, h, not_false_eq_true, if_true]
    unfold extractRelBendpoints at h ⊢
    rcases collapseEqual_spec (List.map (fun r => (boxBounds i.src i.srcLabels).toBox.pos +
      (boxBounds i.src i.srcLabels).toBox.size.had i.anchor + r) i.rel) with h0 | ⟨h1, h2⟩
    · exact absurd h0 h
    · rw [h1]
      match hm : List.map (fun r => (boxBounds i.src i.srcLabels).toBox.pos +
        (boxBounds i.src i.srcLabels).toBox.size.had i.anchor + r) i.rel, h2 with
      | a :: b :: rest, _ => exact ⟨a, b, rest, rfl⟩

/-- `snaptarget` on a proper box, two or more points: succeeds; the result is a new end point `q` — a `Box.vector_snap`
result — followed by a non-empty tail that ends where the input ended -/
theorem snapEnd_ok (dec : V2 → V2 → Bool) (st : Style) (b : Box) (pts : List V2) (hlen : 2 ≤ pts.length)
    (hw : 0 < b.size.x) (hh : 0 < b.size.y) :
    ∃ q tail, snapEnd dec st b pts = .ok (q :: tail) ∧ tail ≠ [] ∧ tail.getLast? = pts.getLast? ∧
      ∃ p s, vectorSnap b p s st = .ok q := by
  match pts, hlen with
  | e :: nx :: rest, _ =>
    obtain ⟨l, hl⟩ := snapEnd_total dec st b e nx rest hw hh
    obtain ⟨q, pre, hshape, _, hq⟩ := snapEnd_shape dec st b e nx rest l hl
    refine ⟨q, pre ++ nx :: rest, by rw [hl, hshape], by simp, ?_, hq⟩
    rw [List.getLast?_append_of_ne_nil _ (by simp), List.getLast?_cons_cons]

/-- the whole route between two proper boxes: succeeds, has at least two points, starts in a `vector_snap` result of
the source and ends in a `vector_snap` result of the target -/
theorem edgeRoute_ok (dec : V2 → V2 → Bool) (i : EdgeIn) (hsw : 0 < i.src.size.x) (hsh : 0 < i.src.size.y)
    (htw : 0 < i.tgt.size.x) (hth : 0 < i.tgt.size.y) :
    ∃ first mid last, edgeRoute dec i = .ok (first :: (mid ++ [last])) ∧
      (∃ p s, vectorSnap i.src p s i.style = .ok first) ∧ (∃ p s, vectorSnap i.tgt p s i.style = .ok last) := by
  obtain ⟨a, b, rest, hp⟩ := edgePoints_two i hsw hsh htw hth
  unfold edgeRoute
  rw [hp]
  simp only
  obtain ⟨q1, tail1, h1, hne1, _, hq1⟩ := snapEnd_ok dec i.style i.tgt (a :: b :: rest).reverse (by simp) htw hth
  rw [h1]
  simp only
  have hlen : 2 ≤ (q1 :: tail1).reverse.length := by
    cases tail1 with
    | nil => exact absurd rfl hne1
    | cons _ _ => simp
  obtain ⟨q2, tail2, h2, hne2, hlast2, hq2⟩ := snapEnd_ok dec i.style i.src (q1 :: tail1).reverse hlen hsw hsh
  rw [h2]
  have hl : tail2.getLast? = some q1 := by rw [hlast2]; simp
  obtain ⟨mid, hmid⟩ : ∃ mid, tail2 = mid ++ [q1] := by
    rcases List.eq_nil_or_concat tail2 with h0 | ⟨m, x, hx⟩
    · exact absurd h0 hne2
    · rw [hx] at hl
      simp only [List.concat_eq_append, List.getLast?_append_of_ne_nil _ (List.cons_ne_nil _ _), List.getLast?_singleton,
        Option.some.injEq] at hl
      exact ⟨m, by rw [hx, hl]; simp⟩
  exact ⟨q2, mid, q1, by rw [hmid], hq2, hq1⟩

end Capella.Geom
