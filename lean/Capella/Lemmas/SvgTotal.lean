import Capella.Lemmas.SvgRows
import Capella.Lemmas.SvgDefs

/-! The drawing state machine never gets stuck: under the table conditions of `Lemmas/SvgRows.lean`, `draw_object` on *any*
state reached so far succeeds (or is the `rx`/`ry` rejection), hence so does a whole document. Core Lean only. -/

namespace Capella.Svg

theorem guardLoop_ok {hit miss : Br} {f : Str → DState → Except Err DState} (hf : ∀ d st, ∃ st', f d st = .ok st') :
    ∀ (xs : List Str) (st : DState), ∃ st', guardLoop hit miss f xs st = .ok st' := by
  intro xs
  induction xs with
  | nil => intro st; exact ⟨st, rfl⟩
  | cons d ds ih =>
    intro st
    simp only [guardLoop]
    split
    · exact ih _
    · obtain ⟨st1, h1⟩ := hf d (st.note miss)
      simp only [bind, Except.bind, h1]
      exact ih _

/-- if the dependency walk of `cls` ends within `fuel` steps, `_add_decofactory(cls)` succeeds on every state (cached
dependencies are skipped, which only shortens the walk) -/
theorem addDeco_ok {symbols : List SymbolRow} (herr : errorSymbolOK symbols = true) :
    ∀ (fuel : Nat) (cls : Str) (ds : List Str), symbolDefsWith true symbols fuel cls = .ok ds →
      ∀ st, ∃ st', addDeco symbols fuel cls st = .ok st' := by
  intro fuel
  induction fuel with
  | zero => intro cls ds h; simp [symbolDefsWith] at h
  | succ fuel ih =>
    intro cls ds h st
    unfold symbolDefsWith at h
    unfold addDeco
    cases hf : findSymbol symbols cls with
    | some r =>
      rw [hf] at h
      simp only [bind, Except.bind] at h
      cases hc : collectM (symbolDefsWith true symbols fuel) r.deps with
      | error e => rw [hc] at h; cases h
      | ok deps =>
        -- every dependency's walk ends within `fuel`
        have hdep : ∀ d ∈ r.deps, ∃ xs, symbolDefsWith true symbols fuel d = .ok xs :=
          fun d hd => let ⟨xs, hxs, _⟩ := collectM_ok hc d hd; ⟨xs, hxs⟩
        -- the loop over the dependencies
        have hloop : ∀ (xs : List Str), (∀ d ∈ xs, ∃ ys, symbolDefsWith true symbols fuel d = .ok ys) →
            ∀ st0, ∃ st', guardLoop .depCached .depNew (addDeco symbols fuel) xs st0 = .ok st' := by
          intro xs
          induction xs with
          | nil => intro _ st0; exact ⟨st0, rfl⟩
          | cons d ds' ihx =>
            intro hx st0
            simp only [guardLoop]
            split
            · exact ihx (fun d' hd' => hx d' (List.mem_cons_of_mem _ hd')) _
            · obtain ⟨ys, hys⟩ := hx d List.mem_cons_self
              obtain ⟨st1, h1⟩ := ih d ys hys (st0.note .depNew)
              simp only [bind, Except.bind, h1]
              exact ihx (fun d' hd' => hx d' (List.mem_cons_of_mem _ hd')) _
        obtain ⟨st2, h2⟩ := hloop r.deps hdep ((st.push (symEl r)).note .decoRow)
        simp only [bind, Except.bind, h2, pure, Except.pure]
        exact ⟨_, rfl⟩
    | none =>
      unfold errorSymbolOK at herr
      cases he : findSymbol symbols errorName with
      | none => rw [he] at herr; cases herr
      | some e =>
        rw [he] at herr
        simp only [Bool.and_eq_true, List.isEmpty_iff] at herr
        simp only [herr.2, guardLoop, bind, Except.bind, pure, Except.pure]
        exact ⟨_, rfl⟩

theorem useLoop_ok {symbols : List SymbolRow} (hterm : symbols.all (symbolDepsTerminate symbols) = true)
    (herr : errorSymbolOK symbols = true) (uses : List Str) (st : DState) : ∃ st', useLoop symbols uses st = .ok st' := by
  unfold useLoop
  apply guardLoop_ok
  intro d st0
  obtain ⟨ds, hds⟩ := symbolDefs_ok hterm herr d
  exact addDeco_ok herr _ d ds hds st0

theorem gradLoop_ok {D : List (Str × Val)} {s : Styling} :
    ∀ (ks : List (Str × Val)), (∀ kv ∈ ks, isMarkerKey kv.1 = true → ∃ h, hexOf (refStroke D s) = .ok h) →
      ∀ st, ∃ st', gradLoop D s ks st = .ok st' := by
  intro ks
  induction ks with
  | nil => intro _ st; exact ⟨st, rfl⟩
  | cons kv ks ih =>
    intro hk st
    simp only [gradLoop, bind, Except.bind]
    have : ∃ st1, gradStep D s st kv = .ok st1 := by
      unfold gradStep
      split
      · rename_i hm
        obtain ⟨h, hh⟩ := hk kv List.mem_cons_self hm
        simp only [bind, Except.bind, hh, pure, Except.pure]
        exact ⟨_, rfl⟩
      · split
        · split
          · exact ⟨_, rfl⟩
          · exact ⟨_, rfl⟩
        · exact ⟨_, rfl⟩
    obtain ⟨st1, h1⟩ := this
    rw [h1]
    exact ih (fun kv' hkv' => hk kv' (List.mem_cons_of_mem _ hkv')) st1

theorem markerStep_ok {markers : List MarkerRow} {D : List (Str × Val)} {s : Styling} (hf : MarkersFine markers D s)
    (st : DState) (attr : Str) (ha : attr = markerStart ∨ attr = markerEnd) :
    ∃ st', markerStep D markers s st attr = .ok st' := by
  unfold markerStep deployMarkerName
  simp only [if_true]
  have hdflt : ∀ v, lookup D (s.styleName attr) = some v →
      (∃ m, v = .str m ∧ hasMarker markers m = true) ∧ (∃ h, hexOf (deployStroke D s) = .ok h) :=
    fun v hv => ⟨(hf attr ha v (.inr (lookup_pair hv))).1, (hf attr ha v (.inr (lookup_pair hv))).2.2⟩
  have fin : ∀ m, hasMarker markers m = true → (∃ h, hexOf (deployStroke D s) = .ok h) →
      ∃ st', (do
        let h ← hexOf (deployStroke D s)
        let id := joinId m [h]
        if st.topIds.contains id then pure (st.note .markerDup)
        else if hasMarker markers m then pure ((st.push (markerEl id)).note .markerNew)
        else (.error .unknownMarker : Except Err DState)) = .ok st' := by
    intro m hm ⟨h, hh⟩
    simp only [bind, Except.bind, hh, hm, if_true]
    split
    · exact ⟨_, rfl⟩
    · exact ⟨_, rfl⟩
  cases hl : lookup s.attrs attr with
  | none =>
    simp only
    cases hl2 : lookup D (s.styleName attr) with
    | none => exact ⟨_, rfl⟩
    | some v =>
      obtain ⟨⟨m, rfl, hm⟩, hs⟩ := hdflt v hl2
      exact fin m hm hs
  | some v =>
    obtain ⟨⟨m, rfl, hm⟩, _, hs⟩ := hf attr ha v (.inl (lookup_pair hl))
    exact fin m hm hs

theorem deployDefs_ok {styles : List StyleEntry} {markers : List MarkerRow} {D : List (Str × Val)} {s : Styling}
    (hg : getStyle styles s.dc s.cls = .ok D) (hf : MarkersFine markers D s) (st : DState) :
    ∃ st', deployDefs styles markers s st = .ok st' := by
  unfold deployDefs
  simp only [bind, Except.bind, hg]
  have hk : ∀ kv ∈ iterItems D s, isMarkerKey kv.1 = true → ∃ h, hexOf (refStroke D s) = .ok h := by
    intro kv hkv hm
    have hattr : kv.1 = markerStart ∨ kv.1 = markerEnd := by
      unfold isMarkerKey at hm
      simpa using hm
    unfold iterItems at hkv
    rcases List.mem_append.mp hkv with hkv | hkv
    · obtain ⟨a, ha, rfl⟩ := List.mem_map.mp hkv
      have ha' := List.mem_filter.mp ha
      cases hl : lookup D (s.styleName a) with
      | none => rw [hl] at ha'; simp at ha'
      | some v => exact (hf a hattr v (.inr (lookup_pair hl))).2.1
    · have hin := (mem_sortPairs _ _).mp hkv
      exact (hf kv.1 hattr kv.2 (.inl hin)).2.1
  obtain ⟨st1, h1⟩ := gradLoop_ok (iterItems D s) hk st
  rw [h1]
  simp only
  obtain ⟨st2, h2⟩ := markerStep_ok hf st1 markerStart (.inl rfl)
  rw [h2]
  exact markerStep_ok hf st2 markerEnd (.inr rfl)

/-- the hypotheses of the drawing theorems for one element -/
def ElemOK (T : Tables) (o : Obj) : Prop :=
  OverridesOK T o ∧ (o.style = [] ∨ isInfixOfB "symbol".toList ((styleType o.kind ++ '.' :: o.cls).map lowerChar) = false)

/-- **`draw_object` succeeds on every drawing state** (or is the `rx`/`ry` rejection) -/
theorem drawObjectS_total {T : Tables} (h : PlainTables T) (dc : Option Str) (o : Obj) (ho : ElemOK T o) (st : DState) :
    (∃ d st', drawObjectS T dc o st = .ok (d, st')) ∨ drawObjectS T dc o st = .error .invalidAttribute := by
  obtain ⟨D, hD⟩ := getStyle_dotted T.styles dc (styleType o.kind) o.cls
  unfold drawObjectS
  simp only [bind, Except.bind, hD]
  by_cases hu : useRejects T o (prepare T dc o D) = true
  · right; simp only [hu, if_true]
  · left
    simp only [hu, Bool.false_eq_true, if_false]
    have hgo : getStyle T.styles (prepare T dc o D).objStyle.dc (prepare T dc o D).objStyle.cls = .ok D := hD
    have hgt : getStyle T.styles (prepare T dc o D).textStyle.dc (prepare T dc o D).textStyle.cls = .ok D := hD
    have mo := markersFine_obj h ho.1 ho.2 hD
    have mt := markersFine_text h ho.1 hD
    obtain ⟨⟨r1, h1⟩, _⟩ := styling_ok hgo mo
    obtain ⟨⟨r2, h2⟩, _⟩ := styling_ok hgt mt
    have ht : ∃ tr, textRefsOf T (prepare T dc o D) = .ok tr := by
      unfold textRefsOf
      split
      · exact ⟨r2, h2⟩
      · exact ⟨[], rfl⟩
    obtain ⟨tr, ht⟩ := ht
    obtain ⟨st1, h3⟩ := useLoop_ok h.term h.err (prepare T dc o D).uses st
    obtain ⟨st2, h4⟩ := deployDefs_ok hgo mo st1
    obtain ⟨st3, h5⟩ := deployDefs_ok hgt mt st2
    simp only [h1, ht, h3, h4, h5, pure, Except.pure]
    exact ⟨_, _, rfl⟩

theorem drawAllS_total {T : Tables} (h : PlainTables T) (dc : Option Str) :
    ∀ (os : List Obj), (∀ o ∈ os, ElemOK T o) → ∀ st,
      (∃ ds st', drawAllS T dc os st = .ok (ds, st')) ∨ drawAllS T dc os st = .error .invalidAttribute := by
  intro os
  induction os with
  | nil => intro _ st; exact .inl ⟨[], st, rfl⟩
  | cons o os ih =>
    intro ho st
    simp only [drawAllS, bind, Except.bind]
    rcases drawObjectS_total h dc o (ho o List.mem_cons_self) st with ⟨d, st1, h1⟩ | h1
    · rw [h1]
      simp only
      rcases ih (fun o' ho' => ho o' (List.mem_cons_of_mem _ ho')) st1 with ⟨ds, st2, h2⟩ | h2
      · rw [h2]; exact .inl ⟨_, _, rfl⟩
      · rw [h2]; exact .inr rfl
    · rw [h1]; exact .inr rfl

/-- **rendering a whole diagram succeeds** (or hits the `rx`/`ry` rejection) when every visible element obeys the rules -/
theorem renderS_total {T : Tables} (h : PlainTables T) (dg : Diagram)
    (ho : ∀ e ∈ dg.elems, e.hidden = false → ElemOK T e.obj) :
    (∃ doc, renderS T dg = .ok doc) ∨ renderS T dg = .error .invalidAttribute := by
  unfold renderS
  simp only [bind, Except.bind]
  have hall : ∀ o ∈ (encodeDiagram dg).2, ElemOK T o := by
    intro o hin
    simp only [encodeDiagram, List.mem_map, List.mem_filter] at hin
    obtain ⟨e, ⟨he, hv⟩, rfl⟩ := hin
    exact ho e he (by simpa using hv)
  rcases drawAllS_total h dg.cls _ hall {} with ⟨ds, st, h1⟩ | h1
  · rw [h1]; exact .inl ⟨_, rfl⟩
  · rw [h1]; exact .inr rfl

end Capella.Svg
