import Capella.Lemmas.Index

/-! Model-wide uniqueness of ids is itself an invariant of the index protocol (C03/C04). -/
namespace Capella.Index

theorem allIds_append (a b : Loader) : allIds (a ++ b) = allIds a ++ allIds b := by
  simp [allIds, List.flatMap_append]

theorem loader_split (l : Loader) (fi : Nat) (f : Frag) (h : l[fi]? = some f) :
    l = l.take fi ++ f :: l.drop (fi + 1) := by
  induction l generalizing fi with
  | nil => simp at h
  | cons g gs ih =>
    cases fi with
    | zero => simp only [List.getElem?_cons_zero, Option.some.injEq] at h; subst h; simp
    | succ n =>
      simp only [List.getElem?_cons_succ] at h
      simp only [List.take_succ_cons, List.drop_succ_cons, List.cons_append]
      congr 1
      exact ih n h

theorem loader_set_split (l : Loader) (fi : Nat) (f f' : Frag) (h : l[fi]? = some f) :
    l.set fi f' = l.take fi ++ f' :: l.drop (fi + 1) := by
  induction l generalizing fi with
  | nil => simp at h
  | cons g gs ih =>
    cases fi with
    | zero => simp
    | succ n =>
      simp only [List.getElem?_cons_succ] at h
      simp only [List.set_cons_succ, List.take_succ_cons, List.drop_succ_cons, List.cons_append]
      congr 1
      exact ih n h

theorem allIds_split (l : Loader) (fi : Nat) (f : Frag) (h : l[fi]? = some f) :
    allIds l = allIds (l.take fi) ++ (scanIds f.tree ++ allIds (l.drop (fi + 1))) := by
  conv => lhs; rw [loader_split l fi f h]
  rw [allIds_append]
  simp [allIds]

theorem allIds_set (l : Loader) (fi : Nat) (f f' : Frag) (h : l[fi]? = some f) :
    allIds (l.set fi f') = allIds (l.take fi) ++ (scanIds f'.tree ++ allIds (l.drop (fi + 1))) := by
  rw [loader_set_split l fi f f' h, allIds_append]
  simp [allIds]

/-- replacing one fragment's tree by one whose ids are a sub-multiset keeps uniqueness -/
theorem nodup_set_of_sublist (l : Loader) (fi : Nat) (f f' : Frag) (h : l[fi]? = some f)
    (hu : (allIds l).Nodup) (hs : (scanIds f'.tree).Sublist (scanIds f.tree)) :
    (allIds (l.set fi f')).Nodup := by
  rw [allIds_set l fi f f' h]
  rw [allIds_split l fi f h] at hu
  exact hu.sublist ((List.Sublist.refl _).append (hs.append (List.Sublist.refl _)))

theorem nodup_set_of_perm (l : Loader) (fi : Nat) (f f' : Frag) (h : l[fi]? = some f)
    (hu : (allIds l).Nodup) (hp : (scanIds f'.tree).Perm (scanIds f.tree)) :
    (allIds (l.set fi f')).Nodup := by
  rw [allIds_set l fi f f' h]
  rw [allIds_split l fi f h] at hu
  exact ((List.Perm.refl _).append (hp.append (List.Perm.refl _))).nodup_iff.mpr hu

theorem scanIds_append (a b : List Entry) : scanIds (a ++ b) = scanIds a ++ scanIds b := by
  simp [scanIds, List.flatMap_append]

theorem scanIds_filter_sublist (t : List Entry) (p : Entry → Bool) :
    (scanIds (t.filter p)).Sublist (scanIds t) := by
  induction t with
  | nil => simp [scanIds]
  | cons e es ih =>
    simp only [List.filter_cons]
    split
    · simp only [scanIds, List.flatMap_cons] at ih ⊢
      exact (List.Sublist.refl _).append ih
    · simp only [scanIds, List.flatMap_cons] at ih ⊢
      exact ih.trans (List.sublist_append_right _ _)

/-- attaching a segment with fresh, pairwise distinct ids keeps uniqueness -/
theorem nodup_set_attach (l : Loader) (fi pos : Nat) (f f' : Frag) (seg : List Entry)
    (h : l[fi]? = some f) (hu : (allIds l).Nodup)
    (ht : f'.tree = f.tree.take pos ++ seg ++ f.tree.drop pos)
    (hseg : (scanIds seg).Nodup) (hfresh : ∀ k ∈ scanIds seg, k ∉ allIds l) :
    (allIds (l.set fi f')).Nodup := by
  rw [allIds_set l fi f f' h, ht]
  have hsplit := allIds_split l fi f h
  rw [hsplit] at hu
  have hperm : (allIds (l.take fi) ++ (scanIds (f.tree.take pos ++ seg ++ f.tree.drop pos) ++ allIds (l.drop (fi + 1)))).Perm
      (scanIds seg ++ (allIds (l.take fi) ++ (scanIds f.tree ++ allIds (l.drop (fi + 1))))) := by
    have e1 : scanIds (f.tree.take pos ++ seg ++ f.tree.drop pos) =
        scanIds (f.tree.take pos) ++ scanIds seg ++ scanIds (f.tree.drop pos) := by
      simp [scanIds_append]
    have e2 : scanIds f.tree = scanIds (f.tree.take pos) ++ scanIds (f.tree.drop pos) := by
      rw [← scanIds_append, List.take_append_drop]
    rw [e1, e2]
    generalize allIds (l.take fi) = A
    generalize allIds (l.drop (fi + 1)) = B
    generalize scanIds (f.tree.take pos) = T
    generalize scanIds (f.tree.drop pos) = D
    generalize scanIds seg = S
    -- A ++ ((T ++ S ++ D) ++ B) ~ S ++ (A ++ ((T ++ D) ++ B))
    have : (A ++ (T ++ S ++ D ++ B)).Perm (S ++ (A ++ (T ++ D ++ B))) := by
      have h1 : (T ++ S ++ D ++ B).Perm (S ++ (T ++ D ++ B)) := by
        have : (T ++ S).Perm (S ++ T) := List.perm_append_comm
        simpa [List.append_assoc] using this.append_right (D ++ B)
      have h2 : (A ++ (S ++ (T ++ D ++ B))).Perm (S ++ (A ++ (T ++ D ++ B))) := by
        have : (A ++ S).Perm (S ++ A) := List.perm_append_comm
        simpa [List.append_assoc] using this.append_right (T ++ D ++ B)
      exact ((List.Perm.refl A).append h1).trans h2
    exact this
  rw [hperm.nodup_iff, List.nodup_append]
  refine ⟨hseg, hu, ?_⟩
  intro a ha b hb hab
  subst hab
  exact hfresh a ha (hsplit ▸ hb)

/-- the stronger preconditions under which model-wide uniqueness is kept -/
def WFOpU (l : Loader) : Op → Prop
  | .attach _ _ seg => (scanIds seg).Nodup ∧ ∀ k ∈ scanIds seg, k ∉ allIds l
  | .reorder fi tree => ∀ f, l[fi]? = some f → f.tree.Perm tree
  | _ => True

theorem idcacheRebuild_tree (f f' : Frag) (h : idcacheRebuild f = .ok f') : f'.tree = f.tree :=
  (rebuild_consistent f f' h).2

theorem scanIds_swapRoot (t : List Entry) (nid : Nat) : scanIds (swapRootTree t nid) = scanIds t := by
  cases t <;> simp [swapRootTree, scanIds]

theorem step_unique (l l' : Loader) (op : Op)
    (hu : (allIds l).Nodup) (hw : WFOpU l op) (h : step l op = .ok l') : (allIds l').Nodup := by
  cases op with
  | attach fi pos seg =>
    simp only [step, bind, Except.bind, pure, Except.pure] at h
    split at h
    · cases h
    · rename_i f hf
      split at h
      · cases h
      · rename_i f' hf'
        simp only [Except.ok.injEq] at h; subst h
        have hfl := getFrag_ok _ _ _ hf
        have ht : f'.tree = f.tree.take pos ++ seg ++ f.tree.drop pos := by
          unfold attach at hf'
          rw [(idcacheIndex_spec _ _ _ hf').1]; rfl
        exact nodup_set_attach l fi pos f f' seg hfl hu ht hw.1 hw.2
  | detach fi seg =>
    simp only [step, bind, Except.bind, pure, Except.pure] at h
    split at h
    · cases h
    · rename_i f hf
      split at h
      · cases h
      · rename_i f' hf'
        simp only [Except.ok.injEq] at h; subst h
        have hfl := getFrag_ok _ _ _ hf
        have ht : f'.tree = f.tree.filter (fun e => !(seg.any (·.nid == e.nid))) := by
          unfold detach at hf'
          simp only [bind, Except.bind, pure, Except.pure] at hf'
          split at hf'
          · cases hf'
          · rename_i f1 h1
            simp only [Except.ok.injEq] at hf'; subst hf'
            simp [removeSeg, (idcacheRemove_spec _ _ _ h1).1]
        apply nodup_set_of_sublist l fi f f' hfl hu
        rw [ht]
        exact scanIds_filter_sublist _ _
  | reserve fi k =>
    simp only [step, bind, Except.bind, pure, Except.pure] at h
    split at h
    · cases h
    · rename_i f hf
      simp only [Except.ok.injEq] at h; subst h
      exact nodup_set_of_sublist l fi f _ (getFrag_ok _ _ _ hf) hu (List.Sublist.refl _)
  | unreserve fi k =>
    simp only [step, bind, Except.bind, pure, Except.pure] at h
    split at h
    · cases h
    · rename_i f hf
      simp only [Except.ok.injEq] at h; subst h
      exact nodup_set_of_sublist l fi f _ (getFrag_ok _ _ _ hf) hu (List.Sublist.refl _)
  | rebuild fi =>
    simp only [step, bind, Except.bind, pure, Except.pure] at h
    split at h
    · cases h
    · rename_i f hf
      split at h
      · cases h
      · rename_i f' hf'
        simp only [Except.ok.injEq] at h; subst h
        apply nodup_set_of_sublist l fi f f' (getFrag_ok _ _ _ hf) hu
        rw [idcacheRebuild_tree f f' hf']
        exact List.Sublist.refl _
  | reorder fi tree =>
    simp only [step, bind, Except.bind, pure, Except.pure] at h
    split at h
    · cases h
    · rename_i f hf
      simp only [Except.ok.injEq] at h; subst h
      have hfl := getFrag_ok _ _ _ hf
      apply nodup_set_of_perm l fi f _ hfl hu
      exact (scanIds_perm (hw f hfl)).symm
  | swapRoot fi nid =>
    simp only [step, bind, Except.bind, pure, Except.pure] at h
    split at h
    · cases h
    · rename_i f hf
      split at h
      · cases h
      · rename_i f' hf'
        simp only [Except.ok.injEq] at h; subst h
        apply nodup_set_of_sublist l fi f f' (getFrag_ok _ _ _ hf) hu
        rw [idcacheRebuild_tree _ f' hf']
        simp only
        rw [scanIds_swapRoot]
        exact List.Sublist.refl _

def WFRunU (l : Loader) : List Op → Prop
  | [] => True
  | op :: ops => WFOpU l op ∧ ∀ l', step l op = .ok l' → WFRunU l' ops

theorem run_unique (ops : List Op) (l l' : Loader)
    (hu : (allIds l).Nodup) (hw : WFRunU l ops) (h : run l ops = .ok l') : (allIds l').Nodup := by
  induction ops generalizing l with
  | nil => simp only [run, Except.ok.injEq] at h; subst h; exact hu
  | cons op ops ih =>
    simp only [run, bind, Except.bind] at h
    split at h
    · cases h
    · rename_i l1 h1
      exact ih l1 (step_unique l l1 op hu hw.1 h1) (hw.2 l1 h1) h

end Capella.Index
