/-
The statement-by-statement model of the repaired `Box.__vector_snap_oblique` (`snapObliqueLit`: list of
`(miss, intersection)` pairs, `min(key=miss)`, three assertions) computes exactly what the form used in the
proofs (`snapOblique`) computes.
-/
import Capella.Lemmas.GeomBasic

namespace Capella.Geom

theorem miss_nonneg (lo v hi : Rat) : 0 ≤ miss lo v hi := le_max_right _ _

theorem miss_le_zero_iff (lo v hi : Rat) : miss lo v hi ≤ 0 ↔ lo ≤ v ∧ v ≤ hi := by
  unfold miss
  constructor
  · intro h
    have h1 : max (lo - v) (v - hi) ≤ 0 := le_trans (le_max_left _ _) h
    exact ⟨by linarith [le_trans (le_max_left (lo - v) (v - hi)) h1], by linarith [le_trans (le_max_right (lo - v) (v - hi)) h1]⟩
  · rintro ⟨h1, h2⟩
    exact max_le (max_le (by linarith) (by linarith)) (le_refl _)

/-- the zero-miss candidates, in order -/
def zeroMiss (l : List (Rat × V2)) : List V2 := (l.filter (fun c => c.1 ≤ 0)).map Prod.snd

theorem hitH_eq_zeroMiss (b1 b2 s p : V2) : hitH b1 b2 s p = zeroMiss (candH b1 b2 s p) := by
  unfold hitH candH zeroMiss
  cases lineIntersect b1 b2 s p with
  | error e => rfl
  | ok q =>
    simp only [List.filter_cons, List.filter_nil, miss_le_zero_iff, decide_eq_true_eq]
    split_ifs <;> rfl

theorem hitV_eq_zeroMiss (b1 b2 s p : V2) : hitV b1 b2 s p = zeroMiss (candV b1 b2 s p) := by
  unfold hitV candV zeroMiss
  cases lineIntersect b1 b2 s p with
  | error e => rfl
  | ok q =>
    simp only [List.filter_cons, List.filter_nil, miss_le_zero_iff, decide_eq_true_eq]
    split_ifs <;> rfl

theorem zeroMiss_append (l1 l2 : List (Rat × V2)) : zeroMiss (l1 ++ l2) = zeroMiss l1 ++ zeroMiss l2 := by
  simp [zeroMiss]

theorem obliqueHits_eq_zeroMiss (b : Box) (s p : V2) : obliqueHits b s p = zeroMiss (obliqueCands b s p) := by
  unfold obliqueHits obliqueCands
  simp only [zeroMiss_append]
  congr 1
  · congr 1
    · congr 1
      · split_ifs
        · exact hitH_eq_zeroMiss _ _ _ _
        · rfl
      · split_ifs
        · exact hitV_eq_zeroMiss _ _ _ _
        · rfl
    · split_ifs
      · exact hitV_eq_zeroMiss _ _ _ _
      · rfl
  · split_ifs
    · exact hitH_eq_zeroMiss _ _ _ _
    · rfl

theorem candH_nonneg (b1 b2 s p : V2) : ∀ c ∈ candH b1 b2 s p, 0 ≤ c.1 := by
  unfold candH
  cases lineIntersect b1 b2 s p with
  | error e => simp
  | ok q => simp [miss_nonneg]

theorem candV_nonneg (b1 b2 s p : V2) : ∀ c ∈ candV b1 b2 s p, 0 ≤ c.1 := by
  unfold candV
  cases lineIntersect b1 b2 s p with
  | error e => simp
  | ok q => simp [miss_nonneg]

theorem obliqueCands_nonneg (b : Box) (s p : V2) : ∀ c ∈ obliqueCands b s p, 0 ≤ c.1 := by
  intro c hc
  unfold obliqueCands at hc
  simp only [List.mem_append] at hc
  rcases hc with ((hc | hc) | hc) | hc <;> split_ifs at hc
  · exact candH_nonneg _ _ _ _ c hc
  · simp at hc
  · exact candV_nonneg _ _ _ _ c hc
  · simp at hc
  · exact candV_nonneg _ _ _ _ c hc
  · simp at hc
  · exact candH_nonneg _ _ _ _ c hc
  · simp at hc

/-- `minByMiss` returns the *first* minimal entry: everything before it is strictly larger, everything after it
is at least as large -/
theorem minByMiss_split (l : List (Rat × V2)) : ∀ best : Rat × V2,
    ∃ pre post, best :: l = pre ++ minByMiss best l :: post ∧
      (∀ c ∈ pre, (minByMiss best l).1 < c.1) ∧ (∀ c ∈ post, (minByMiss best l).1 ≤ c.1) := by
  induction l with
  | nil => intro best; exact ⟨[], [], rfl, fun c hc => absurd hc List.not_mem_nil, fun c hc => absurd hc List.not_mem_nil⟩
  | cons c cs ih =>
    intro best
    by_cases h : c.1 < best.1
    · have hm : minByMiss best (c :: cs) = minByMiss c cs := by
        simp only [minByMiss, if_pos h]
      rw [hm]
      obtain ⟨pre, post, hsplit, hpre, hpost⟩ := ih c
      have hmc : (minByMiss c cs).1 ≤ c.1 := by
        cases pre with
        | nil =>
          simp only [List.nil_append, List.cons.injEq] at hsplit
          rw [← hsplit.1]
        | cons p ps =>
          simp only [List.cons_append, List.cons.injEq] at hsplit
          have := hpre p List.mem_cons_self
          rw [← hsplit.1] at this
          exact le_of_lt this
      refine ⟨best :: pre, post, by rw [hsplit]; rfl, fun x hx => ?_, hpost⟩
      rcases List.mem_cons.mp hx with rfl | hx'
      · linarith
      · exact hpre x hx'
    · have hm : minByMiss best (c :: cs) = minByMiss best cs := by
        simp only [minByMiss, if_neg h]
      rw [hm]
      obtain ⟨pre, post, hsplit, hpre, hpost⟩ := ih best
      generalize minByMiss best cs = m at hsplit hpre hpost ⊢
      cases pre with
      | nil =>
        simp only [List.nil_append, List.cons.injEq] at hsplit
        refine ⟨[], c :: cs, by simp [← hsplit.1], fun x hx => absurd hx List.not_mem_nil, fun x hx => ?_⟩
        rcases List.mem_cons.mp hx with rfl | hx'
        · rw [← hsplit.1]; exact le_of_not_gt h
        · rw [hsplit.2] at hx'; exact hpost x hx'
      | cons p ps =>
        simp only [List.cons_append, List.cons.injEq] at hsplit
        obtain ⟨hp, hcs⟩ := hsplit
        refine ⟨p :: c :: ps, post, by rw [← hp, hcs]; rfl, fun x hx => ?_, hpost⟩
        have hb := hpre p List.mem_cons_self
        rw [← hp] at hb
        rcases List.mem_cons.mp hx with rfl | hx'
        · rw [← hp]; exact hb
        · rcases List.mem_cons.mp hx' with rfl | hx''
          · exact lt_of_lt_of_le hb (le_of_not_gt h)
          · exact hpre x (List.mem_cons_of_mem _ hx'')

theorem zeroMiss_of_pos (l : List (Rat × V2)) (h : ∀ c ∈ l, 0 < c.1) : zeroMiss l = [] := by
  unfold zeroMiss
  rw [List.filter_eq_nil_iff.mpr]
  · rfl
  · intro c hc
    simp only [decide_eq_true_eq, not_le]
    exact h c hc

/-- `pickCand` is `pickHit` of the zero-miss candidates -/
theorem pickCand_eq (l : List (Rat × V2)) (hl : ∀ c ∈ l, 0 ≤ c.1) : pickCand l = pickHit (zeroMiss l) := by
  cases l with
  | nil => rfl
  | cons c cs =>
    obtain ⟨pre, post, hsplit, hpre, hpost⟩ := minByMiss_split cs c
    unfold pickCand
    simp only
    generalize hm : minByMiss c cs = m at *
    by_cases hz : m.1 ≤ 0
    · have hm0 : m.1 = 0 := by
        have : m ∈ c :: cs := by rw [hsplit]; simp
        exact le_antisymm hz (hl m this)
      have hprepos : ∀ x ∈ pre, 0 < x.1 := fun x hx => by have := hpre x hx; linarith
      have hzm : zeroMiss (c :: cs) = m.2 :: zeroMiss post := by
        rw [hsplit]
        have : zeroMiss (pre ++ m :: post) = zeroMiss pre ++ zeroMiss (m :: post) := zeroMiss_append _ _
        rw [this, zeroMiss_of_pos pre hprepos]
        simp [zeroMiss, hz]
      rw [hzm, if_neg (not_not.mpr hz)]
      unfold pickHit
      have key : ((c :: cs).all fun i => decide (0 < i.1 ∨ i.2 = m.2)) = (zeroMiss post).all (fun r => decide (r = m.2)) := by
        rw [hsplit]
        rw [Bool.eq_iff_iff]
        simp only [List.all_eq_true, decide_eq_true_eq, List.mem_append, List.mem_cons, zeroMiss,
          List.mem_map, List.mem_filter]
        constructor
        · rintro h r ⟨x, ⟨hx, hx0⟩, rfl⟩
          rcases h x (Or.inr (Or.inr hx)) with h' | h'
          · linarith
          · exact h'
        · rintro h x (hx | rfl | hx)
          · exact Or.inl (hprepos x hx)
          · exact Or.inr rfl
          · by_cases hx0 : x.1 ≤ 0
            · exact Or.inr (h x.2 ⟨x, ⟨hx, hx0⟩, rfl⟩)
            · exact Or.inl (lt_of_not_ge hx0)
      rw [key]
    · have hall : ∀ x ∈ c :: cs, 0 < x.1 := by
        intro x hx
        rw [hsplit] at hx
        have hmpos : 0 < m.1 := lt_of_not_ge hz
        rcases List.mem_append.mp hx with hx | hx
        · have := hpre x hx; linarith
        · rcases List.mem_cons.mp hx with rfl | hx
          · exact hmpos
          · have := hpost x hx; linarith
      rw [zeroMiss_of_pos _ hall, if_pos hz]
      rfl

/-- the statement-by-statement model of the repaired `__vector_snap_oblique` computes what `snapOblique` does -/
theorem snapObliqueLit_eq (b : Box) (point source : V2) (h : point ≠ source) :
    snapObliqueLit b point source = snapOblique b point source := by
  unfold snapObliqueLit snapOblique
  rw [if_neg h]
  by_cases hin : inBox b point
  · rw [if_neg (not_not.mpr hin)]
    simp only [if_pos hin, if_neg h]
    rw [obliqueHits_eq_zeroMiss, pickCand_eq _ (obliqueCands_nonneg b source point)]
  · rw [if_pos hin]
    simp only [if_neg hin]
    by_cases hc : source = b.center
    · rw [if_pos hc, if_pos hc.symm]
    · rw [if_neg hc, if_neg (fun h' => hc h'.symm)]
      rw [obliqueHits_eq_zeroMiss, pickCand_eq _ (obliqueCands_nonneg b source b.center)]


/-- `Box.vector_snap` in terms of the proof-friendly form -/
theorem vectorSnap_eq (b : Box) (p s : V2) (st : Style) :
    vectorSnap b p s st = match st with
      | .oblique => if p = s then snapClosest b p else snapOblique b p s
      | .manhattan => snapManhattan b p (p - s)
      | .tree => .ok (snapTree b p (p - s)) := by
  cases st with
  | oblique =>
    simp only [vectorSnap]
    split_ifs with h
    · rfl
    · exact snapObliqueLit_eq b p s h
  | manhattan => rfl
  | tree => rfl

end Capella.Geom
