import Capella.Lemmas.AccessorPres3

/-! API level: every call, and every finite session of calls, keeps the index invariant. -/
namespace Capella.Accessor
open Capella.Index Capella.AccTable

theorem pres_valKnown (v) : Pres (valKnown v) := by unfold valKnown; pres_auto
macro_rules | `(tactic| pres_lemma) => `(tactic| with_reducible apply pres_valKnown)

theorem pres_withElems {α} (t row owner elems) (k : List Nat → M α) (hk : ∀ e, Pres (k e)) :
    Pres (withElems t row owner elems k) := by
  unfold withElems; repeat' (first | exact hk _ | pres_step)

/-- **every API call keeps the index invariant**, for every descriptor row and every argument -/
theorem pres_apiStep (t : Tables) (c : Call) : Pres (apiStep t c) := by
  cases c <;> (unfold apiStep; repeat' (first | (with_reducible apply pres_withElems) | pres_step))

theorem beginCall_ix (s : State) (d : List String) (f : List Nat) : (beginCall s d f).ix = s.ix := rfl

/-- **every finite session of API calls keeps the index invariant** (an exception ends a call, not the session) -/
theorem apiRun_ixinv (t : Tables) (cs : List (Call × List String × List Nat)) (s : State) (h : IxInv s.ix) :
    IxInv (apiRun t cs s).ix := by
  induction cs generalizing s with
  | nil => exact h
  | cons c cs ih =>
    obtain ⟨c, d, f⟩ := c
    unfold apiRun
    apply ih
    exact (pres_apiStep t c).pres _ (by rw [beginCall_ix]; exact h)

/-- loading: every fragment index is rebuilt from its tree; if the ids are model-wide unique and element identities
distinct, the invariant holds at the start of a session -/
theorem load_ixinv (l : Loader) (hc : ∀ f ∈ l, Consistent f) (hu : (allIds l).Nodup)
    (hn : ∀ f ∈ l, (f.tree.map (·.nid)).Nodup) : IxInv l := ⟨⟨hc, hu⟩, hn⟩

end Capella.Accessor
