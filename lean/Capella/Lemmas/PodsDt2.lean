import Capella.Lemmas.PodsDt

/-!
C07, `DatetimePOD` made concrete (continued): `isoFormat` is XML-legal text of the shape on which
`re_get` undoes `re_set`, `truncMs` is a projection, what `_to_xml` stores is read back like the
`isoformat` text itself, and the stored form of a whole-minutes offset is Capella's `+0100`.
-/
namespace Capella.Pods

/-! ## `isoFormat` is XML-legal -/

theorem xmlChar_dch (n : Nat) : xmlChar (dch n) = true := isDigit_xml _ (dch_isDigit n)

theorem xmlChar_sgn (off : Int) : xmlChar (sgn off) = true := by
  unfold sgn; split <;> decide

theorem xmlOk_offTail (a : Nat) : xmlOk (offTail a) = true := by
  have h1 : xmlChar ':' = true := by decide
  have h2 : xmlChar '.' = true := by decide
  unfold offTail
  split
  · split <;> simp [xmlOk, pad2, pad6, xmlChar_dch, h1, h2]
  · rfl

theorem isoFormat_xml (t : DT) : xmlOk (isoFormat t) = true := by
  have h1 : xmlChar ':' = true := by decide
  have h2 : xmlChar '.' = true := by decide
  have h3 : xmlChar '-' = true := by decide
  have h4 : xmlChar 'T' = true := by decide
  have h5 := xmlOk_offTail t.off.natAbs
  rw [isoFormat_cons]
  simp only [xmlOk, List.all_cons, xmlChar_dch, xmlChar_sgn, h1, h2, h3, h4, Bool.true_and] at h5 ⊢
  exact h5

/-! ## the two regexes on a known tail -/

theorem reSet_tail (pre : Str) (sg a b c d : Char)
    (hc : (d.isDigit && c.isDigit && b.isDigit && a.isDigit && isSign sg) = true) :
    reSet (pre ++ [sg, a, b, ':', c, d]) = pre ++ [sg, a, b, c, d] := by
  have hd : d ≠ '\n' := by rintro rfl; simp [Char.isDigit] at hc
  have hrev : (pre ++ [sg, a, b, ':', c, d]).reverse = d :: c :: ':' :: b :: a :: sg :: pre.reverse := by
    simp
  rw [reSet_nonl _ (d :: c :: b :: a :: sg :: pre.reverse)]
  · simp
  · intro r h; rw [hrev] at h; simp at h; exact hd h.1
  · rw [hrev]; simp only [reSetRev, hc, if_true]

theorem reGetRev_none (d4 d3 d2 d1 sg : Char) (rest : Str)
    (hc : (d4.isDigit && d3.isDigit && d2.isDigit && d1.isDigit && isSign sg) = false) :
    reGetRev (d4 :: d3 :: d2 :: d1 :: sg :: rest) = none := by
  simp [reGetRev, hc]

theorem reSetRev_none (d4 d3 d2 d1 sg : Char) (rest : Str)
    (hc : (d4.isDigit && d3.isDigit && d2.isDigit && d1.isDigit && isSign sg) = false) :
    reSetRev (d4 :: d3 :: ':' :: d2 :: d1 :: sg :: rest) = none := by
  simp [reSetRev, hc]

theorem reGet_none_nonl (s : Str) (hs : ∀ r, s.reverse ≠ '\n' :: r) (hr : reGetRev s.reverse = none) :
    reGet s = s := by
  unfold reGet
  split
  · rename_i r h; exact absurd h (hs r)
  · simp only [hr]

/-- `re_get` does not match when the five last characters are not `[+-]\d\d\d\d` -/
theorem reGet_tail_id (pre : Str) (x1 x2 x3 x4 x5 : Char) (h5 : x5 ≠ '\n')
    (hc : (x5.isDigit && x4.isDigit && x3.isDigit && x2.isDigit && isSign x1) = false) :
    reGet (pre ++ [x1, x2, x3, x4, x5]) = pre ++ [x1, x2, x3, x4, x5] := by
  have hrev : (pre ++ [x1, x2, x3, x4, x5]).reverse = x5 :: x4 :: x3 :: x2 :: x1 :: pre.reverse := by
    simp
  apply reGet_none_nonl
  · intro r h; rw [hrev] at h; simp at h; exact h5 h.1
  · rw [hrev]; exact reGetRev_none _ _ _ _ _ _ hc

/-- `re_set` does not match when the six last characters are not `[+-]\d\d:\d\d` -/
theorem reSet_tail_id (pre : Str) (x0 x1 x2 x3 x4 x5 : Char) (h5 : x5 ≠ '\n')
    (hc : x3 ≠ ':' ∨ (x5.isDigit && x4.isDigit && x2.isDigit && x1.isDigit && isSign x0) = false) :
    reSet (pre ++ [x0, x1, x2, x3, x4, x5]) = pre ++ [x0, x1, x2, x3, x4, x5] := by
  have hrev : (pre ++ [x0, x1, x2, x3, x4, x5]).reverse =
      x5 :: x4 :: x3 :: x2 :: x1 :: x0 :: pre.reverse := by simp
  apply reSet_none_nonl
  · intro r h; rw [hrev] at h; simp at h; exact h5 h.1
  · rw [hrev]
    rcases hc with hc | hc
    · unfold reSetRev
      split
      · rename_i heq; simp at heq; exact absurd heq.2.2.1 hc
      · rfl
    · by_cases h3 : x3 = ':'
      · subst h3; exact reSetRev_none _ _ _ _ _ _ hc
      · unfold reSetRev
        split
        · rename_i heq; simp at heq; exact absurd heq.2.2.1 h3
        · rfl


/-! ## the stored form -/

theorem dch_ne (n : Nat) (c : Char) (hc : c.isDigit = false) : dch n ≠ c := by
  intro h; have := dch_isDigit n; rw [h, hc] at this; cases this

theorem isSign_dch (n : Nat) : isSign (dch n) = false := by
  cases h : isSign (dch n) with
  | false => rfl
  | true =>
    simp only [isSign, Bool.or_eq_true, beq_iff_eq] at h
    rcases h with h | h
    · exact absurd h (dch_ne n '+' (by decide))
    · exact absurd h (dch_ne n '-' (by decide))

theorem isoFormat_split (t : DT) :
    isoFormat t = isoHead t ++ sgn t.off :: dch (t.off.natAbs / 3600000000 / 10) ::
      dch (t.off.natAbs / 3600000000) :: ':' :: dch (t.off.natAbs / 60000000 % 60 / 10) ::
      dch (t.off.natAbs / 60000000 % 60) :: offTail t.off.natAbs := by
  simp only [isoFormat, fmtOffset, pad2, List.cons_append, List.nil_append]

theorem isoCompact_split (t : DT) :
    isoCompact t = isoHead t ++ [sgn t.off, dch (t.off.natAbs / 3600000000 / 10),
      dch (t.off.natAbs / 3600000000), dch (t.off.natAbs / 60000000 % 60 / 10),
      dch (t.off.natAbs / 60000000 % 60)] := by
  simp only [isoCompact, pad2, List.cons_append, List.nil_append]

theorem offTail_minutes (a : Nat) (h : a % 60000000 = 0) : offTail a = [] := by
  have h1 : a / 1000000 % 60 = 0 := by omega
  have h2 : a % 1000000 = 0 := by omega
  simp [offTail, h1, h2]

/-- a whole-minutes offset is stored in Capella's form `+0100` (the last `:` removed) -/
theorem reSet_isoFormat_minutes (t : DT) (h : t.off % 60000000 = 0) :
    reSet (isoFormat t) = isoCompact t := by
  have ha : t.off.natAbs % 60000000 = 0 := by omega
  rw [isoFormat_split, offTail_minutes _ ha, isoCompact_split]
  exact reSet_tail _ _ _ _ _ _ (by simp [dch_isDigit, isSign_sgn])

/-- … and differs from the `isoformat` text (one character shorter) -/
theorem isoCompact_ne (t : DT) (h : t.off % 60000000 = 0) : isoCompact t ≠ isoFormat t := by
  have ha : t.off.natAbs % 60000000 = 0 := by omega
  rw [isoFormat_split, offTail_minutes _ ha, isoCompact_split]
  intro he
  have := congrArg List.length he
  simp at this

/-- any other offset (with seconds or microseconds) is stored as `isoformat` wrote it, and `re_get`
leaves it alone -/
theorem reSet_reGet_isoFormat_seconds (t : DT) (h : t.off % 60000000 ≠ 0) :
    reSet (isoFormat t) = isoFormat t ∧ reGet (isoFormat t) = isoFormat t := by
  have ha : ¬ (t.off.natAbs / 1000000 % 60 = 0 ∧ t.off.natAbs % 1000000 = 0) := by omega
  have hnl : ∀ n, dch n ≠ '\n' := fun n => dch_ne n _ (by decide)
  rw [isoFormat_split]
  generalize t.off.natAbs = a at ha ⊢
  unfold offTail
  by_cases h2 : a % 1000000 = 0
  · have h1 : a / 1000000 % 60 ≠ 0 := fun h1 => ha ⟨h1, h2⟩
    simp only [h1, h2, ne_eq, not_true_eq_false, not_false_eq_true, or_false, if_true, if_false,
      pad2, List.append_nil]
    constructor
    · have := reSet_tail_id (isoHead t ++ [sgn t.off, dch (a / 3600000000 / 10), dch (a / 3600000000)])
        ':' (dch (a / 60000000 % 60 / 10)) (dch (a / 60000000 % 60)) ':'
        (dch (a / 1000000 % 60 / 10)) (dch (a / 1000000 % 60)) (hnl _) (Or.inr (by simp [isSign]))
      simpa using this
    · have := reGet_tail_id (isoHead t ++ [sgn t.off, dch (a / 3600000000 / 10), dch (a / 3600000000), ':'])
        (dch (a / 60000000 % 60 / 10)) (dch (a / 60000000 % 60)) ':'
        (dch (a / 1000000 % 60 / 10)) (dch (a / 1000000 % 60)) (hnl _)
        (by simp [Char.isDigit])
      simpa using this
  · simp only [h2, ne_eq, not_false_eq_true, or_true, if_true,
      pad2, pad6, List.cons_append, List.nil_append]
    constructor
    · have := reSet_tail_id (isoHead t ++ [sgn t.off, dch (a / 3600000000 / 10), dch (a / 3600000000), ':',
          dch (a / 60000000 % 60 / 10), dch (a / 60000000 % 60), ':',
          dch (a / 1000000 % 60 / 10), dch (a / 1000000 % 60), '.'])
        (dch (a % 1000000 / 100000)) (dch (a % 1000000 / 10000)) (dch (a % 1000000 / 1000))
        (dch (a % 1000000 / 100)) (dch (a % 1000000 / 10)) (dch (a % 1000000)) (hnl _)
        (Or.inl (dch_ne _ _ (by decide)))
      simpa using this
    · have := reGet_tail_id (isoHead t ++ [sgn t.off, dch (a / 3600000000 / 10), dch (a / 3600000000), ':',
          dch (a / 60000000 % 60 / 10), dch (a / 60000000 % 60), ':',
          dch (a / 1000000 % 60 / 10), dch (a / 1000000 % 60), '.', dch (a % 1000000 / 100000)])
        (dch (a % 1000000 / 10000)) (dch (a % 1000000 / 1000))
        (dch (a % 1000000 / 100)) (dch (a % 1000000 / 10)) (dch (a % 1000000)) (hnl _)
        (by simp [isSign_dch])
      simpa using this

theorem reSet_isoFormat_seconds (t : DT) (h : t.off % 60000000 ≠ 0) :
    reSet (isoFormat t) = isoFormat t := (reSet_reGet_isoFormat_seconds t h).1

/-- `isoformat` text has the shape on which `re_get` undoes `re_set` (no validity needed) -/
theorem isoFormat_shape (t : DT) : IsoShape (isoFormat t) := by
  by_cases h : t.off % 60000000 = 0
  · left; rw [reSet_isoFormat_minutes t h]; exact isoCompact_ne t h
  · right; exact (reSet_reGet_isoFormat_seconds t h).2

/-- what `_from_xml` hands to `fromisoformat` is the text `isoformat` produced -/
theorem reGet_reSet_isoFormat (t : DT) : reGet (reSet (isoFormat t)) = isoFormat t :=
  reGet_reSet _ (isoFormat_shape t)

/-- reading the stored text is reading the `isoformat` text -/
theorem stored_roundtrip (t : DT) : isoParse (reGet (reSet (isoFormat t))) = isoParse (isoFormat t) := by
  rw [reGet_reSet_isoFormat]

/-- `_from_xml (_to_xml t)` for a valid aware datetime -/
theorem stored_roundtrip_ok (t : DT) (hv : t.valid = true) (hq : ¬ subSecondOffset t) :
    isoParse (reGet (reSet (isoFormat t))) = .ok (truncMs t) := by
  rw [stored_roundtrip, isoParse_isoFormat t hv hq]

theorem xmlOk_stored (t : DT) : xmlOk (reSet (isoFormat t)) = true :=
  xmlOk_reSet _ (isoFormat_xml t)


/-! ## `truncMs` -/

theorem truncMs_idem (t : DT) : truncMs (truncMs t) = truncMs t := by
  have h : t.us / 1000 * 1000 / 1000 * 1000 = t.us / 1000 * 1000 := by omega
  simp only [truncMs, h]

theorem truncMs_valid (t : DT) (hv : t.valid = true) : (truncMs t).valid = true := by
  have b := (DT.valid_iff t).1 hv
  rw [DT.valid_iff]
  exact ⟨b.y1, b.y2, b.mo1, b.mo2, b.d1, b.d2, b.h, b.mi, b.s,
    (by show t.us / 1000 * 1000 < 1000000; have := b.us; omega), b.off1, b.off2⟩

theorem truncMs_eq_iff (t : DT) : truncMs t = t ↔ t.us % 1000 = 0 := by
  obtain ⟨y, mo, d, h, mi, s, us, off⟩ := t
  simp only [truncMs, DT.mk.injEq, true_and, and_true]
  omega

/-- milliseconds are kept -/
theorem truncMs_ms (t : DT) : (truncMs t).us / 1000 = t.us / 1000 := by
  simp only [truncMs]; omega

/-- the text depends on the value cut to milliseconds only -/
theorem isoFormat_truncMs (t : DT) : isoFormat (truncMs t) = isoFormat t := by
  simp only [isoFormat, isoHead, truncMs_ms]
  rfl

/-- a value read back is stable: writing and reading it again returns it -/
theorem isoParse_isoFormat_stable (t : DT) (hv : t.valid = true) (hq : ¬ subSecondOffset t) :
    isoParse (isoFormat (truncMs t)) = .ok (truncMs t) := by
  rw [isoFormat_truncMs, isoParse_isoFormat t hv hq]

/-! ## the quirk is real -/

/-- 2000-01-01 00:00:00 at UTC+00:00:00.5 -/
def quirkDT : DT := ⟨2000, 1, 1, 0, 0, 0, 0, 500000⟩

theorem quirk_witness :
    quirkDT.valid = true ∧ subSecondOffset quirkDT ∧
    isoFormat quirkDT = "2000-01-01T00:00:00.000+00:00:00.500000".toList ∧
    isoParse (isoFormat quirkDT) = .ok { quirkDT with off := 0 } ∧
    isoParse (isoFormat quirkDT) ≠ .ok (truncMs quirkDT) := by decide

/-- on valid values the round trip is exact iff the offset is not a non-zero fraction of a second -/
theorem isoParse_isoFormat_iff (t : DT) (hv : t.valid = true) :
    isoParse (isoFormat t) = .ok (truncMs t) ↔ ¬ subSecondOffset t := by
  constructor
  · intro h hq
    rw [isoParse_isoFormat_subsecond t hv hq] at h
    have := congrArg (fun r => match r with | IsoRes.ok d => d.off | _ => 0) h
    simp only [truncMs] at this
    exact hq.1 this.symm
  · exact isoParse_isoFormat t hv

/-! ## non-vacuity: concrete values -/

example : isoFormat ⟨1, 1, 1, 0, 0, 0, 0, 0⟩ = "0001-01-01T00:00:00.000+00:00".toList := by decide
example : isoFormat ⟨9999, 12, 31, 23, 59, 59, 999999, -86340000000⟩ =
    "9999-12-31T23:59:59.999-23:59".toList := by decide
example : isoFormat ⟨2021, 3, 4, 5, 6, 7, 123456, 3600000000⟩ =
    "2021-03-04T05:06:07.123+01:00".toList := by decide
example : reSet (isoFormat ⟨2021, 3, 4, 5, 6, 7, 123456, 3600000000⟩) =
    "2021-03-04T05:06:07.123+0100".toList := by decide
example : isoFormat ⟨2021, 3, 4, 5, 6, 7, 123456, 3661000000⟩ =
    "2021-03-04T05:06:07.123+01:01:01".toList := by decide
example : reSet (isoFormat ⟨2021, 3, 4, 5, 6, 7, 123456, 3661000000⟩) =
    "2021-03-04T05:06:07.123+01:01:01".toList := by decide
example : isoFormat ⟨1, 1, 1, 0, 0, 0, 1999, -1000005⟩ =
    "0001-01-01T00:00:00.001-00:00:01.000005".toList := by decide
example : isoParse "0001-01-01T00:00:00.000+00:00".toList = .ok ⟨1, 1, 1, 0, 0, 0, 0, 0⟩ := by decide
example : isoParse "9999-12-31T23:59:59.999-23:59".toList =
    .ok ⟨9999, 12, 31, 23, 59, 59, 999000, -86340000000⟩ := by decide
example : isoParse "2021-03-04T05:06:07.123+01:01:01".toList =
    .ok ⟨2021, 3, 4, 5, 6, 7, 123000, 3661000000⟩ := by decide
example : isoParse "0001-01-01T00:00:00.001-00:00:01.000005".toList =
    .ok ⟨1, 1, 1, 0, 0, 0, 1000, -1000005⟩ := by decide
example : isoParse "2020-02-29T00:00:00.000-00:00".toList = .ok ⟨2020, 2, 29, 0, 0, 0, 0, 0⟩ := by decide
-- offset fields are not range-checked one by one: `+01:00:61` is 3661 s, `+00:99` is 99 min
example : isoParse "2000-01-01T00:00:00.000+01:00:61".toList =
    .ok ⟨2000, 1, 1, 0, 0, 0, 0, 3661000000⟩ := by decide
example : isoParse "2000-01-01T00:00:00.000+00:99".toList =
    .ok ⟨2000, 1, 1, 0, 0, 0, 0, 5940000000⟩ := by decide
-- ValueError
example : isoParse "2021-02-29T00:00:00.000+00:00".toList = .bad := by decide
example : isoParse "0000-01-01T00:00:00.000+00:00".toList = .bad := by decide
example : isoParse "2000-01-01T24:00:00.000+00:00".toList = .bad := by decide
example : isoParse "2000-01-01T00:00:00.000+24:00".toList = .bad := by decide
example : isoParse "2000-01-01T00:00:00.000+23:60".toList = .bad := by decide
example : isoParse "2000-01-01T00:00:00.000+23:59:60".toList = .bad := by decide
example : isoParse "2000-01-01T00:00:00.000-23:59:59.999999".toList =
    .ok ⟨2000, 1, 1, 0, 0, 0, 0, -86399999999⟩ := by decide
-- the quirk: a whole-seconds part of 0 is UTC
example : isoParse "2000-01-01T00:00:00.000+00:00:00.500000".toList =
    .ok ⟨2000, 1, 1, 0, 0, 0, 0, 0⟩ := by decide
-- outside the three shapes
example : isoParse "2000-01-01T00:00:00.000Z".toList = .foreign := by decide
example : isoParse "2000-01-01T00:00:00.000".toList = .foreign := by decide
example : isoParse "2000-01-01 00:00:00.000+00:00".toList = .foreign := by decide
example : isoParse "2000-01-01T00:00:00.000+0000".toList = .foreign := by decide
example : isoParse "2000-01-01T00:00:00.000+00:00:00.5".toList = .foreign := by decide
-- the stored form reads back
example : isoParse (reGet "2021-03-04T05:06:07.123+0100".toList) =
    .ok ⟨2021, 3, 4, 5, 6, 7, 123000, 3600000000⟩ := by decide

end Capella.Pods
