import Capella.Lemmas.TxnSave

/-!
# The temp-name check of `LocalFileHandler.open` (C15)

`clash` is what the repaired `open(name, "wb")` evaluates before it adds a name to the transaction.
Here: the check is *exact* (it fires iff admitting the name would break `TmpOK`), a save that reports
success has temp names that are usable (so `TmpOK` is a consequence, not a hypothesis), and a save with
clashing names is refused before the clashing file is touched.
-/
namespace Capella.Txn
variable {P : Type} [DecidableEq P] (tmp : P → P) (ord : List P → List P) (σ : Sched)

theorem runBody_append (a b : List (Op P)) (s : St P) :
    runBody tmp σ (a ++ b) s =
      match runBody tmp σ a s with
      | (s1, none) => runBody tmp σ b s1
      | (s1, some e) => (s1, some e) := by
  induction a generalizing s with
  | nil => simp [runBody]
  | cons o os ih =>
    simp only [List.cons_append, runBody]
    rcases runOp tmp σ o s with ⟨s1, _ | e⟩
    · simp only; exact ih s1
    · simp

/-- a fragment write that went through was admitted by both checks of `open` -/
theorem writeFrag_ok (fr : Frag P) (s : St P) (l : List P) (h : s.txn = some l)
    (hok : (writeFrag tmp σ fr s).2 = none) :
    fr.path ∉ l ∧ clash tmp l fr.path = false ∧ (writeFrag tmp σ fr s).1.txn = some (l ++ [fr.path]) := by
  by_cases hp : fr.path ∈ l
  · simp [writeFrag, hOpen, h, hp] at hok
  · cases hcl : clash tmp l fr.path
    case true => simp [writeFrag, hOpen, h, hp, hcl] at hok
    case false =>
      refine ⟨hp, rfl, ?_⟩
      rcases (writeFrag_inv tmp σ fr s l h).2.2 with ⟨ht, _⟩ | ⟨ht, _⟩
      · -- the set did not grow: only possible when `open` refused, i.e. an error
        exfalso
        revert hok ht
        rcases h0 : σ s.clock with _ | f0 <;> rcases h1 : σ (s.clock + 1) with _ | f1 <;>
        rcases h2 : σ (s.clock + 2) with _ | f2 <;> rcases h3 : σ (s.clock + 3) with _ | f3 <;>
        rcases h4 : σ (s.clock + 4) with _ | f4 <;> cases hd : fr.nodir <;>
        simp [writeFrag, hOpen, tick, hWrite, closeExit, hClose, *]
      · exact ht

/-- A body of fragment writes that ends without error has only admitted names: the transaction set
is the old set plus all names, no name was there before, the names are pairwise different, and the
temp names are usable (`TmpOK`) — enforced by the code, not assumed. -/
theorem body_ok_TmpOK (frags : List (Frag P)) : ∀ (s : St P) (l : List P), s.txn = some l → TmpOK tmp l →
    (runBody tmp σ (frags.map Op.frag) s).2 = none →
    (runBody tmp σ (frags.map Op.frag) s).1.txn = some (l ++ frags.map (·.path)) ∧
    TmpOK tmp (l ++ frags.map (·.path)) ∧ (frags.map (·.path)).Nodup ∧ ∀ fr ∈ frags, fr.path ∉ l := by
  induction frags with
  | nil => intro s l h hl _; simpa [runBody, h] using hl
  | cons fr frs ih =>
    intro s l h hl hok
    simp only [List.map_cons, runBody, runOp] at hok ⊢
    rcases hr : writeFrag tmp σ fr s with ⟨s1, _ | e⟩
    · rw [hr] at hok
      simp only at hok ⊢
      obtain ⟨hp, hcl, ht⟩ := writeFrag_ok tmp σ fr s l h (by rw [hr])
      rw [hr] at ht
      have hl' : TmpOK tmp (l ++ [fr.path]) := (clash_false_iff tmp l fr.path hp hl).mp hcl
      obtain ⟨i1, i2, i3, i4⟩ := ih s1 (l ++ [fr.path]) ht hl' hok
      refine ⟨by simpa using i1, by simpa using i2, ?_, ?_⟩
      · refine List.nodup_cons.mpr ⟨?_, i3⟩
        intro hm
        obtain ⟨fr', hfr', he⟩ := List.mem_map.mp hm
        exact i4 fr' hfr' (by simp [he])
      · intro fr' hfr'
        rcases List.mem_cons.mp hfr' with rfl | hfr'
        · exact hp
        · intro hm; exact i4 fr' hfr' (by simp [hm])
    · rw [hr] at hok; simp at hok

/-- a transaction that reports no error had a body that ended without error -/
theorem transaction_ok_body_ok (dry : Bool) (body : List (Op P)) (s : St P) (h : s.txn = none)
    (hs : (transaction tmp ord σ dry body s).2 = none) : (afterBody tmp σ body s).2 = none := by
  rw [transaction_phases tmp ord σ dry body s h] at hs
  rcases hb : (afterBody tmp σ body s).2 with _ | e
  · rfl
  · exfalso
    have hc : afterCommit tmp ord σ dry (afterBody tmp σ body s) = ((afterBody tmp σ body s).1, some e) := by
      simp [afterCommit, hb]
    rw [hc] at hs
    simp only [afterCleanup] at hs
    split at hs <;> cases hs

/-- **Success implies usable temp names.** A save that reports no error — under any schedule — wrote
pairwise different names whose temp names are pairwise different and none of which is a target. -/
theorem success_TmpOK (dry : Bool) (frags : List (Frag P)) (s : St P) (h : s.txn = none)
    (hs : (save tmp ord σ none dry frags s).2 = none) :
    TmpOK tmp (frags.map (·.path)) ∧ (frags.map (·.path)).Nodup := by
  have hb := transaction_ok_body_ok tmp ord σ dry _ s h (by simpa [save] using hs)
  have := body_ok_TmpOK tmp σ frags { s with txn := some [] } [] rfl (TmpOK.nil tmp) hb
  simpa using ⟨this.2.1, this.2.2.1⟩

/-- The check is complete: a list of pairwise different names either has usable temp names, or it
splits at the first name that `open` refuses. -/
theorem tmpOK_or_clash_aux (rest : List P) : ∀ (pre : List P), TmpOK tmp pre → (pre ++ rest).Nodup →
    TmpOK tmp (pre ++ rest) ∨
      ∃ pre' p post, pre ++ rest = pre' ++ p :: post ∧ TmpOK tmp pre' ∧ clash tmp pre' p = true := by
  induction rest with
  | nil => intro pre h _; exact Or.inl (by simpa using h)
  | cons x xs ih =>
    intro pre hpre hnd
    have hx : x ∉ pre := fun hm => (List.nodup_append.mp hnd).2.2 x hm x (by simp) rfl
    cases hc : clash tmp pre x
    · have h1 : TmpOK tmp (pre ++ [x]) := (clash_false_iff tmp pre x hx hpre).mp hc
      have := ih (pre ++ [x]) h1 (by simpa using hnd)
      simpa using this
    · exact Or.inr ⟨pre, x, xs, rfl, hpre, hc⟩

theorem tmpOK_or_clash (ps : List P) (hnd : ps.Nodup) :
    TmpOK tmp ps ∨ ∃ pre p post, ps = pre ++ p :: post ∧ TmpOK tmp pre ∧ clash tmp pre p = true := by
  simpa using tmpOK_or_clash_aux tmp ps [] (TmpOK.nil tmp) (by simpa using hnd)

/-- **A clashing save is refused before the clashing file is touched.** The fragments before the first
refused name were written to their temp files (no fault), then `open` raises; the transaction rolls
back: the caller sees the refusal, the transaction is reset, and every path is as before or is the
temp name of one of the *earlier* fragments and does not exist.  In particular the refused name, its
temp name and everything after it were never touched. -/
theorem clash_refused' (hord : ∀ l, (ord l).Perm l) (dry : Bool) (pre post : List (Frag P)) (fr : Frag P)
    (s : St P) (h : s.txn = none) (hg : GoodFrags [] (pre ++ fr :: post))
    (hpre : TmpOK tmp (pre.map (·.path))) (hcl : clash tmp (pre.map (·.path)) fr.path = true)
    (hq : QuietFrom σ s.clock) :
    (save tmp ord σ none dry (pre ++ fr :: post) s).2 = some .tmpClash ∧
    ∀ q, (save tmp ord σ none dry (pre ++ fr :: post) s).1.fs q = s.fs q ∨
      (q ∈ tmps tmp pre ∧ (save tmp ord σ none dry (pre ++ fr :: post) s).1.fs q = none) := by
  simp only [save]
  rw [transaction_phases tmp ord σ dry _ s h]
  have hgpre : GoodFrags [] pre := by
    refine ⟨?_, fun f hf => ⟨by simp, (hg.2 f (by simp [hf])).2⟩⟩
    have := hg.1
    simp only [List.map_append, List.map_cons] at this
    exact (List.nodup_append.mp this).1
  have hd := frags_dich tmp σ pre { s with txn := some [] } [] rfl hgpre (by simpa using hpre)
  have hqs : Quiet σ s.clock (s.clock + 5 * pre.length) := fun n hn _ => hq n hn
  rcases hd with ⟨he, _, hc, ht, hf⟩ | ⟨n, f', _, hn1, _, hσ, _⟩
  · simp only [List.nil_append] at ht
    have hp : fr.path ∉ pre.map (·.path) := by
      have := hg.1
      simp only [List.map_append, List.map_cons] at this
      intro hm
      exact (List.nodup_append.mp this).2.2 _ hm _ (by simp) rfl
    have hbody : afterBody tmp σ ((pre ++ fr :: post).map Op.frag) s =
        ((runBody tmp σ (pre.map Op.frag) { s with txn := some [] }).1, some .tmpClash) := by
      simp only [afterBody, List.map_append, List.map_cons, runBody_append]
      rcases hr : runBody tmp σ (pre.map Op.frag) { s with txn := some [] } with ⟨s1, e1⟩
      rw [hr] at he ht
      simp only at he ht
      subst he
      simp [runBody, runOp, writeFrag, hOpen, ht, hp, hcl]
    have hcm : afterCommit tmp ord σ dry (afterBody tmp σ ((pre ++ fr :: post).map Op.frag) s) =
        ((runBody tmp σ (pre.map Op.frag) { s with txn := some [] }).1, some .tmpClash) := by
      simp only [afterCommit, hbody]
    rw [hcm]
    have := rollback tmp ord σ hord s.fs
      ((runBody tmp σ (pre.map Op.frag) { s with txn := some [] }).1, some .tmpClash)
      (pre.map (·.path)) (pre.map (·.path)) ht (fun p hp => hp)
      (by
        intro q hq'
        simp only at hf ⊢
        rw [hf]
        apply stage_other tmp pre _ q
        simpa [tmps, List.map_map, Function.comp_def] using hq')
      (by simp only [hc]; exact hq.mono (by simp))
    simpa [tmps, List.map_map, Function.comp_def] using this
  · exfalso
    have := hq n hn1
    rw [this] at hσ; cases hσ

end Capella.Txn
