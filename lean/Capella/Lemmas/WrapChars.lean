import Capella.Lemmas.Wrap

/-! Where the characters of the rendered label lines come from: the label itself, the joining space, the dots.
Core Lean only. -/
namespace Capella.Wrap

variable {sp : Char → Bool}

theorem splitBy_chars (s : Str) : ∀ p ∈ splitBy sp s, ∀ c ∈ p, c ∈ s := by
  induction s with
  | nil => intro p hp c hc; simp [splitBy] at hp; subst hp; cases hc
  | cons x s ih =>
    intro p hp c hc
    unfold splitBy at hp
    by_cases hx : sp x = true
    · simp only [hx, if_true, List.mem_cons] at hp
      rcases hp with rfl | hp
      · cases hc
      · exact List.mem_cons_of_mem _ (ih p hp c hc)
    · simp only [hx, Bool.false_eq_true, if_false] at hp
      cases hs : splitBy sp s with
      | nil => exact absurd hs (splitBy_ne_nil sp s)
      | cons q qs =>
        rw [hs] at hp ih
        simp only [List.mem_cons] at hp
        rcases hp with rfl | hp
        · rcases List.mem_cons.mp hc with rfl | hc
          · exact List.mem_cons_self
          · exact List.mem_cons_of_mem _ (ih q List.mem_cons_self c hc)
        · exact List.mem_cons_of_mem _ (ih p (List.mem_cons_of_mem _ hp) c hc)

theorem words_chars (s : Str) : ∀ w ∈ words sp s, ∀ c ∈ w, c ∈ s := by
  intro w hw
  simp only [words, List.mem_filter] at hw
  exact splitBy_chars s w hw.1

theorem joinSp_chars : ∀ (ws : List Str) (c : Char), c ∈ joinSp ws → c = ' ' ∨ ∃ w ∈ ws, c ∈ w
  | [], c, h => by simp [joinSp] at h
  | [w], c, h => .inr ⟨w, List.mem_cons_self, by simpa [joinSp] using h⟩
  | w :: v :: ws, c, h => by
    rw [joinSp_cons_cons] at h
    rcases List.mem_append.mp h with h | h
    · exact .inr ⟨w, List.mem_cons_self, h⟩
    · rcases List.mem_cons.mp h with rfl | h
      · exact .inl rfl
      · rcases joinSp_chars (v :: ws) c h with h | ⟨u, hu, hc⟩
        · exact .inl h
        · exact .inr ⟨u, List.mem_cons_of_mem _ hu, hc⟩

/-- a character of a line that `split_into_lines` returns is a space or a character of the input line -/
theorem splitIntoLines_chars (ext : Str → Rat) (width : Rat) (line : Str) :
    ∀ l ∈ splitIntoLines sp ext width line, ∀ c ∈ l, c = ' ' ∨ c ∈ line := by
  intro l hl c hc
  unfold splitIntoLines at hl
  simp only at hl
  split at hl
  · simp only [List.mem_singleton] at hl; subst hl; exact .inr hc
  · obtain ⟨g, hg, rfl⟩ := List.mem_map.mp hl
    rcases joinSp_chars g c hc with h | ⟨w, hw, hcw⟩
    · exact .inl h
    · have hfl : w ∈ (packW ext width [] (words sp line)).flatten := List.mem_flatten.mpr ⟨g, hg, hw⟩
      rw [packW_flatten] at hfl
      simp only [List.nil_append] at hfl
      exact .inr (words_chars line w hfl c hcw)

theorem mem_of_mem_dropWhile {p : Char → Bool} : ∀ {l : Str} {c : Char}, c ∈ l.dropWhile p → c ∈ l
  | [], _, h => by simp at h
  | x :: xs, c, h => by
    by_cases hx : p x = true
    · simp only [List.dropWhile_cons, hx, if_true] at h
      exact List.mem_cons_of_mem _ (mem_of_mem_dropWhile h)
    · simp only [List.dropWhile_cons, hx, Bool.false_eq_true, if_false] at h
      exact h

theorem mem_of_mem_takeWhile {p : Char → Bool} : ∀ {l : Str} {c : Char}, c ∈ l.takeWhile p → c ∈ l
  | [], _, h => by simp at h
  | x :: xs, c, h => by
    by_cases hx : p x = true
    · simp only [List.takeWhile_cons, hx, if_true, List.mem_cons] at h
      rcases h with rfl | h
      · exact List.mem_cons_self
      · exact List.mem_cons_of_mem _ (mem_of_mem_takeWhile h)
    · simp [hx] at h

theorem wrapLine_chars (ext : Str → Rat) (width : Rat) (first : Bool) (line : Str) :
    ∀ l ∈ wrapLine sp ext width first line, ∀ c ∈ l, c = ' ' ∨ c ∈ line := by
  intro l hl c hc
  unfold wrapLine at hl
  simp only at hl
  cases hs : splitIntoLines sp ext width (lstrip sp line) with
  | nil => rw [hs] at hl; cases hl
  | cons l0 ls =>
    rw [hs] at hl
    have hsub : ∀ l' ∈ l0 :: ls, ∀ c ∈ l', c = ' ' ∨ c ∈ line := by
      intro l' hl' c' hc'
      rcases splitIntoLines_chars ext width (lstrip sp line) l' (by rw [hs]; exact hl') c' hc' with h | h
      · exact .inl h
      · exact .inr (mem_of_mem_dropWhile h)
    simp only [List.mem_cons] at hl
    rcases hl with rfl | hl
    · rcases List.mem_append.mp hc with hc | hc
      · split at hc
        · exact .inr (mem_of_mem_takeWhile hc)
        · split at hc
          · simp only [List.mem_singleton] at hc; exact .inl hc
          · cases hc
      · exact hsub l0 List.mem_cons_self c hc
    · exact hsub l (List.mem_cons_of_mem _ hl) c hc

theorem wrapLines_chars (ext : Str → Rat) (width : Rat) :
    ∀ (lines : List Str) (first : Bool), ∀ l ∈ wrapLines sp ext width first lines, ∀ c ∈ l, c = ' ' ∨ ∃ ln ∈ lines, c ∈ ln := by
  intro lines
  induction lines with
  | nil => intro first l hl; simp [wrapLines] at hl
  | cons x xs ih =>
    intro first l hl c hc
    simp only [wrapLines, List.mem_append] at hl
    rcases hl with hl | hl
    · rcases wrapLine_chars ext width first x l hl c hc with h | h
      · exact .inl h
      · exact .inr ⟨x, List.mem_cons_self, h⟩
    · rcases ih false l hl c hc with h | ⟨ln, hln, h⟩
      · exact .inl h
      · exact .inr ⟨ln, List.mem_cons_of_mem _ hln, h⟩

/-- **`word_wrap` invents no character**: every character of a wrapped line is the joining space or a
character of the text -/
theorem wordWrap_chars (ext : Str → Rat) (width : Rat) (lines : List Str) :
    ∀ l ∈ wordWrap sp ext width lines, ∀ c ∈ l, c = ' ' ∨ ∃ ln ∈ lines, c ∈ ln := by
  intro l hl c hc
  unfold wordWrap at hl
  split at hl
  · simp only [List.mem_singleton] at hl; subst hl; cases hc
  · exact wrapLines_chars ext width lines true l hl c hc

theorem fitLoop_ov_mem (extH : Str → Rat) (height : Rat) :
    ∀ (lines : List Str) (th : Rat) (prev : Option Str) (ov : Str),
      (fitLoop extH height th prev lines).2 = some ov → ov ∈ lines ∨ prev = some ov := by
  intro lines
  induction lines with
  | nil => intro th prev ov h; simp [fitLoop] at h
  | cons x xs ih =>
    intro th prev ov h
    simp only [fitLoop] at h
    split at h
    · simp only [Option.some.injEq] at h
      cases prev with
      | none => simp only [Option.getD_none] at h; exact .inl (by rw [← h]; exact List.mem_cons_self)
      | some p => simp only [Option.getD_some] at h; exact .inr (by rw [h])
    · simp only at h
      rcases ih _ _ ov h with h' | h'
      · exact .inl (List.mem_cons_of_mem _ h')
      · simp only [Option.some.injEq] at h'
        exact .inl (by rw [← h']; exact List.mem_cons_self)

/-- **vertical overflow adds nothing but the dots** (and the space of the re-wrap) -/
theorem vOverflow_chars (extW extH : Str → Rat) (lines : List Str) (height maxW : Rat) :
    ∀ l ∈ vOverflow sp extW extH lines height maxW, ∀ c ∈ l, c = '.' ∨ c = ' ' ∨ ∃ ln ∈ lines, c ∈ ln := by
  intro l hl c hc
  unfold vOverflow at hl
  have hpre := fitLoop_prefix extH height lines 0 none
  cases hf : fitLoop extH height 0 none lines with
  | mk rendered o =>
    rw [hf] at hl hpre
    simp only at hpre
    have hren : ∀ l' ∈ rendered, l' ∈ lines := fun l' h' => hpre.subset h'
    cases o with
    | none => exact .inr (.inr ⟨l, hren l hl, hc⟩)
    | some ov =>
      simp only at hl
      have hov : ov ∈ lines := by
        rcases fitLoop_ov_mem extH height lines 0 none ov (by rw [hf]) with h | h
        · exact h
        · cases h
      have hbody : ∀ c ∈ (if extW (ov ++ dots) < maxW then ov ++ dots
            else (wordWrap sp (fun s => extW s) (((maxW - extW dots).floor : Int) : Rat) (if ov = [] then [] else [ov])).headD [] ++ dots),
          c = '.' ∨ c = ' ' ∨ ∃ ln ∈ lines, c ∈ ln := by
        intro c hc
        have hdots : ∀ c ∈ dots, c = '.' := by intro c hc; simp [dots] at hc; exact hc
        split at hc
        · rcases List.mem_append.mp hc with hc | hc
          · exact .inr (.inr ⟨ov, hov, hc⟩)
          · exact .inl (hdots c hc)
        · rcases List.mem_append.mp hc with hc | hc
          · cases hw : wordWrap sp (fun s => extW s) (((maxW - extW dots).floor : Int) : Rat) (if ov = [] then [] else [ov]) with
            | nil => rw [hw] at hc; cases hc
            | cons h t =>
              rw [hw] at hc
              simp only [List.headD_cons] at hc
              rcases wordWrap_chars (fun s => extW s) _ _ h (by rw [hw]; exact List.mem_cons_self) c hc with h' | ⟨ln, hln, h'⟩
              · exact .inr (.inl h')
              · split at hln
                · cases hln
                · simp only [List.mem_singleton] at hln; subst hln; exact .inr (.inr ⟨ln, hov, h'⟩)
          · exact .inl (hdots c hc)
      split at hl
      · simp only [List.mem_singleton] at hl; subst hl; exact hbody c hc
      · rcases List.mem_append.mp hl with hl | hl
        · exact .inr (.inr ⟨l, hren l ((List.dropLast_sublist _).subset hl), hc⟩)
        · simp only [List.mem_singleton] at hl; subst hl; exact hbody c hc

end Capella.Wrap
