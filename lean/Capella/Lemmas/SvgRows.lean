import Capella.Lemmas.Svg
import Capella.Model.SvgDefs

/-! Every plain element draws: for *every* diagram class and style class (known to the tables or not), drawing a
bare element of any kind succeeds or is rejected by svgwrite for `rx`/`ry` on `<use>` — derived from per-entry
conditions on the style table (`entryPlainOK`, kernel-checked on the generated table). Core Lean only. -/

namespace Capella.Svg

def AllP (P : Str × Val → Prop) (a : List (Str × Val)) : Prop := ∀ p ∈ a, P p

theorem lookup_pair {a : List (Str × Val)} {k : Str} {v : Val} (h : lookup a k = some v) : (k, v) ∈ a := by
  unfold lookup at h
  cases hf : a.find? (fun p => p.1 = k) with
  | none => rw [hf] at h; cases h
  | some p =>
    rw [hf] at h
    simp only [Option.map_some, Option.some.injEq] at h
    have hk : p.1 = k := by simpa using List.find?_some hf
    have : p = (k, v) := by rw [← hk, ← h]
    rw [← this]
    exact List.mem_of_find?_eq_some hf

theorem upsert_allp {P : Str × Val → Prop} {a : List (Str × Val)} {k : Str} {v : Val} (ha : AllP P a) (hv : P (k, v)) :
    AllP P (upsert a k v) := by
  unfold upsert
  split
  · intro p hp
    obtain ⟨q, hq, rfl⟩ := List.mem_map.mp hp
    split
    · exact hv
    · exact ha q hq
  · intro p hp
    rcases List.mem_append.mp hp with hp | hp
    · exact ha p hp
    · simp only [List.mem_singleton] at hp; subst hp; exact hv

theorem merge_allp {P : Str × Val → Prop} : ∀ (b a : List (Str × Val)), AllP P a → AllP P b → AllP P (merge a b) := by
  intro b
  induction b with
  | nil => intro a ha _; exact ha
  | cons x xs ih =>
    intro a ha hb
    show AllP P (List.foldl _ (upsert a x.1 x.2) xs)
    exact ih _ (upsert_allp ha (hb x List.mem_cons_self)) (fun p hp => hb p (List.mem_cons_of_mem _ hp))

/-- a key that has a value satisfying `P` keeps one through a dict update whose own value for it (if any) satisfies `P` -/
theorem lookup_upsert_some {P : Val → Prop} {a : List (Str × Val)} {k k' : Str} {v' : Val}
    (h : ∃ v, lookup a k = some v ∧ P v) (hv : k' = k → P v') : ∃ v, lookup (upsert a k' v') k = some v ∧ P v := by
  obtain ⟨v, hl, hp⟩ := h
  unfold upsert
  split
  · unfold lookup at hl ⊢
    rw [List.find?_map]
    have hfun : ((fun p : Str × Val => decide (p.1 = k)) ∘ fun p => if p.1 = k' then (k', v') else p) =
        fun p : Str × Val => decide (p.1 = k) := by
      funext p
      simp only [Function.comp]
      split
      · rename_i hpk; rw [hpk]
      · rfl
    rw [hfun]
    cases hf : a.find? (fun p => p.1 = k) with
    | none => rw [hf] at hl; cases hl
    | some p =>
      rw [hf] at hl
      simp only [Option.map_some, Option.some.injEq] at hl
      have hk : p.1 = k := by simpa using List.find?_some hf
      simp only [Option.map_some]
      by_cases hpk : p.1 = k'
      · simp only [hpk, if_true]
        exact ⟨v', rfl, hv (by rw [← hpk, hk])⟩
      · simp only [hpk, if_false]
        exact ⟨v, by rw [hl], hp⟩
  · refine ⟨v, ?_, hp⟩
    unfold lookup at hl ⊢
    rw [List.find?_append]
    cases hf : a.find? (fun p => p.1 = k) with
    | none => rw [hf] at hl; cases hl
    | some p => rw [hf] at hl; simpa using hl

theorem lookup_merge_some {P : Val → Prop} {k : Str} : ∀ (b a : List (Str × Val)),
    (∃ v, lookup a k = some v ∧ P v) → (∀ v, (k, v) ∈ b → P v) → ∃ v, lookup (merge a b) k = some v ∧ P v := by
  intro b
  induction b with
  | nil => intro a h _; exact h
  | cons x xs ih =>
    intro a h hb
    show ∃ v, lookup (List.foldl _ (upsert a x.1 x.2) xs) k = some v ∧ P v
    apply ih
    · exact lookup_upsert_some h (fun hk => hb x.2 (by rw [← hk]; exact List.mem_cons_self))
    · exact fun v hv => hb v (List.mem_cons_of_mem _ hv)

/-! ### what the table conditions say about a resolved style -/

/-- per style property, relative to the element type `ty` of the entry: markers only on `Edge` entries and naming a
factory; no marker under the `text_` prefix; an `Edge` entry's stroke is a colour -/
def RowP (markers : List MarkerRow) (ty : Str) (p : Str × Val) : Prop :=
  (isMarkerKey p.1 = true → ty = edgeName ∧ ∃ m, p.2 = .str m ∧ hasMarker markers m = true) ∧
  ¬ (textPfx.isPrefixOf p.1 = true ∧ isMarkerKey (attrName (p.1.drop 5)) = true) ∧
  (p.1 = strokeKey → ty = edgeName → ∃ h, hexOf p.2 = .ok h)

theorem entryPlainOK_rowp {markers : List MarkerRow} {e : StyleEntry} (h : entryPlainOK markers e = true) :
    AllP (RowP markers (e.oc.takeWhile (· ≠ '.'))) e.props := by
  intro p hp
  unfold entryPlainOK at h
  have := (List.all_eq_true.mp h) p hp
  simp only [Bool.and_eq_true, Bool.not_eq_true', Bool.and_eq_false_iff] at this
  obtain ⟨⟨h1, h2⟩, h3⟩ := this
  refine ⟨?_, ?_, ?_⟩
  · intro hm
    simp only [hm, if_true, Bool.and_eq_true, decide_eq_true_eq] at h1
    refine ⟨h1.1, ?_⟩
    cases hv : p.2 with
    | str m => rw [hv] at h1; exact ⟨m, rfl, h1.2⟩
    | none => rw [hv] at h1; simp at h1
    | color x => rw [hv] at h1; simp at h1
    | num x => rw [hv] at h1; simp at h1
    | grad x => rw [hv] at h1; simp at h1
    | other x => rw [hv] at h1; simp at h1
  · rintro ⟨ha, hb⟩
    rcases h2 with h2 | h2
    · rw [ha] at h2; cases h2
    · rw [hb] at h2; cases h2
  · intro hk hty
    simp only [hk, hty, and_self, if_true] at h3
    cases hv : p.2 with
    | color x => exact ⟨x, rfl⟩
    | str x => rw [hv] at h3; cases h3
    | num x => rw [hv] at h3; cases h3
    | none => rw [hv] at h3; cases h3
    | grad x => rw [hv] at h3; cases h3
    | other x => rw [hv] at h3; cases h3

def StylesPlainOK (styles : List StyleEntry) (markers : List MarkerRow) : Prop :=
  ∀ e ∈ styles, entryPlainOK markers e = true

theorem lookupEntry_rowp {styles : List StyleEntry} {markers : List MarkerRow} (h : StylesPlainOK styles markers)
    (dc oc : Str) : AllP (RowP markers (oc.takeWhile (· ≠ '.'))) (lookupEntry styles dc oc) := by
  unfold lookupEntry
  cases hf : styles.find? (fun e => e.dc = dc ∧ e.oc = oc) with
  | none => intro p hp; cases hp
  | some e =>
    have hm := List.mem_of_find?_eq_some hf
    have hoc : e.oc = oc := by
      have := List.find?_some hf
      simp only [decide_eq_true_eq] at this
      exact this.2
    have := entryPlainOK_rowp (h e hm)
    rw [hoc] at this
    exact this

theorem takeWhile_ty (ty : Str) (hty : ∀ c ∈ ty, c ≠ '.') (rest : Str) :
    (ty ++ '.' :: rest).takeWhile (· ≠ '.') = ty := by
  induction ty with
  | nil => simp
  | cons c t ih =>
    have hc : c ≠ '.' := hty c List.mem_cons_self
    simp only [List.cons_append, List.takeWhile_cons, ne_eq, hc, not_false_eq_true, decide_true, if_true]
    rw [ih (fun x hx => hty x (List.mem_cons_of_mem _ hx))]

theorem takeWhile_self (ty : Str) (hty : ∀ c ∈ ty, c ≠ '.') : ty.takeWhile (· ≠ '.') = ty := by
  have := takeWhile_ty ty hty []
  induction ty with
  | nil => rfl
  | cons c t ih =>
    have hc : c ≠ '.' := hty c List.mem_cons_self
    simp only [List.takeWhile_cons, ne_eq, hc, not_false_eq_true, decide_true, if_true]
    rw [ih (fun x hx => hty x (List.mem_cons_of_mem _ hx))]
    simpa using takeWhile_ty t (fun x hx => hty x (List.mem_cons_of_mem _ hx)) []

/-- the resolved default style of `ty.cls` in any diagram class: every property obeys `RowP ty`, and for `Edge`
classes it is empty (a class name containing "symbol") or has a stroke colour -/
theorem getStyle_plain {styles : List StyleEntry} {markers : List MarkerRow} (h : StylesPlainOK styles markers)
    (hg : globalEdgeStroke styles = true) {dc : Option Str} {ty cls : Str} (hty : ∀ c ∈ ty, c ≠ '.')
    {D : List (Str × Val)} (hD : getStyle styles dc (ty ++ '.' :: cls) = .ok D) :
    AllP (RowP markers ty) D ∧
    ((isInfixOfB "symbol".toList ((ty ++ '.' :: cls).map lowerChar) = true ∧ D = []) ∨
     (ty = edgeName → ∃ v hx, lookup D strokeKey = some v ∧ hexOf v = .ok hx)) := by
  unfold getStyle at hD
  split at hD
  · cases hD
  · split at hD
    · rename_i hsym
      simp only [Except.ok.injEq] at hD; subst hD
      exact ⟨(fun p hp => nomatch hp), .inl ⟨hsym, rfl⟩⟩
    · simp only [Except.ok.injEq] at hD
      subst hD
      rw [takeWhile_ty ty hty cls]
      have l1 := lookupEntry_rowp h globalName ty
      have l2 := lookupEntry_rowp h (dc.getD []) ty
      have l3 := lookupEntry_rowp h globalName (ty ++ '.' :: cls)
      have l4 := lookupEntry_rowp h (dc.getD []) (ty ++ '.' :: cls)
      rw [takeWhile_self ty hty] at l1 l2
      rw [takeWhile_ty ty hty cls] at l3 l4
      refine ⟨merge_allp _ _ (merge_allp _ _ (merge_allp _ _ l1 l2) l3) l4, .inr ?_⟩
      intro hte
      subst hte
      have base : ∃ v, lookup (lookupEntry styles globalName edgeName) strokeKey = some v ∧ ∃ h, hexOf v = .ok h := by
        unfold globalEdgeStroke at hg
        cases hl : lookup (lookupEntry styles globalName edgeName) strokeKey with
        | none => rw [hl] at hg; cases hg
        | some v =>
          rw [hl] at hg
          cases v with
          | color x => exact ⟨_, rfl, x, rfl⟩
          | str x => cases hg
          | num x => cases hg
          | none => cases hg
          | grad x => cases hg
          | other x => cases hg
      have step : ∀ (a b : List (Str × Val)), (∃ v, lookup a strokeKey = some v ∧ ∃ h, hexOf v = .ok h) →
          AllP (RowP markers edgeName) b → ∃ v, lookup (merge a b) strokeKey = some v ∧ ∃ h, hexOf v = .ok h :=
        fun a b ha hb => lookup_merge_some (P := fun v => ∃ h, hexOf v = .ok h) b a ha
          (fun v hv => (hb _ hv).2.2 rfl rfl)
      obtain ⟨v, hv, h, hh⟩ := step _ _ (step _ _ (step _ _ base l2) l3) l4
      exact ⟨v, h, hv, hh⟩

/-! ### the two `Styling` objects of a bare element -/

theorem map_dash_id : ∀ (k : Str), (∀ c ∈ k, c ≠ '_') → k.map (fun c => if c = '_' then '-' else c) = k
  | [], _ => rfl
  | c :: t, h => by
    have hc : c ≠ '_' := h c List.mem_cons_self
    simp only [List.map_cons, hc, if_false]
    rw [map_dash_id t (fun x hx => h x (List.mem_cons_of_mem _ hx))]

theorem map_id_of_no_underscore (k : Str) (h : hasUnderscore k = false) : attrName k = k := by
  have hall : ∀ c ∈ k, c ≠ '_' := by
    intro c hc he
    subst he
    have : k.contains '_' = true := by simpa using hc
    unfold hasUnderscore at h
    rw [this] at h; cases h
  unfold attrName
  split
  · rfl
  · exact map_dash_id k hall

/-- the attributes of the object style of a bare element are properties of the resolved style (a circle moves its
stroke to `fill`) -/
theorem prepare_obj_attrs {T : Tables} {dc : Option Str} {o : Obj} {D : List (Str × Val)}
    {P : Str × Val → Prop} (hD : AllP P D) (hO : AllP P o.style) (hfill : ∀ v, P (fillKey, v)) :
    AllP P (prepare T dc o D).objStyle.attrs := by
  have hmy : AllP P (merge D o.style) := merge_allp _ _ hD hO
  have h0 : AllP P (((merge D o.style).filter fun p => !hasUnderscore p.1).map fun p => (attrName p.1, p.2)) := by
    intro p hp
    obtain ⟨q, hq, rfl⟩ := List.mem_map.mp hp
    have hq' := List.mem_filter.mp hq
    have : attrName q.1 = q.1 := map_id_of_no_underscore q.1 (by simpa using hq'.2)
    rw [this]
    exact hmy q hq'.1
  unfold prepare
  simp only
  cases hk : o.kind with
  | circle =>
    simp only
    apply upsert_allp
    · intro p hp; exact h0 p (List.mem_filter.mp hp).1
    · exact hfill _
  | box => exact h0
  | edge => exact h0
  | symbol => exact h0
  | boxSymbol => exact h0

theorem prepare_text_attrs {T : Tables} {dc : Option Str} {o : Obj} {D : List (Str × Val)}
    {markers : List MarkerRow} {ty : Str} (hD : AllP (RowP markers ty) D) (hO : AllP (RowP markers ty) o.style) :
    AllP (fun p => isMarkerKey p.1 = false) (prepare T dc o D).textStyle.attrs := by
  have hmy : AllP (RowP markers ty) (merge D o.style) := merge_allp _ _ hD hO
  unfold prepare
  simp only
  intro p hp
  obtain ⟨q, hq, rfl⟩ := List.mem_map.mp hp
  have hq' := List.mem_filter.mp hq
  have := (hmy q hq'.1).2.1
  simp only
  cases hm : isMarkerKey (attrName (List.drop 5 q.1)) with
  | false => rfl
  | true => exact absurd ⟨hq'.2, hm⟩ this

/-! ### success of the individual steps -/

theorem strokes_ok {D : List (Str × Val)} {s : Styling} (ha : ∀ v, (strokeKey, v) ∈ s.attrs → ∃ h, hexOf v = .ok h)
    (hd : ∃ v hx, lookup D (s.styleName strokeKey) = some v ∧ hexOf v = .ok hx) :
    (∃ h, hexOf (refStroke D s) = .ok h) ∧ (∃ h, hexOf (deployStroke D s) = .ok h) := by
  obtain ⟨dv, hx, hd, hdh⟩ := hd
  have hdn : dv ≠ .none := by intro h; subst h; simp [hexOf] at hdh
  unfold refStroke deployStroke
  cases hl : lookup s.attrs strokeKey with
  | none =>
    simp only [hd, Option.getD_some]
    cases dv with
    | none => exact absurd rfl hdn
    | color x => exact ⟨⟨hx, hdh⟩, ⟨hx, hdh⟩⟩
    | str x => exact ⟨⟨hx, hdh⟩, ⟨hx, hdh⟩⟩
    | num x => exact ⟨⟨hx, hdh⟩, ⟨hx, hdh⟩⟩
    | grad x => exact ⟨⟨hx, hdh⟩, ⟨hx, hdh⟩⟩
    | other x => exact ⟨⟨hx, hdh⟩, ⟨hx, hdh⟩⟩
  | some v =>
    obtain ⟨h, hh⟩ := ha v (lookup_pair hl)
    cases v with
    | none => simp [hexOf] at hh
    | color x => exact ⟨⟨h, hh⟩, ⟨h, hh⟩⟩
    | str x => exact ⟨⟨h, hh⟩, ⟨h, hh⟩⟩
    | num x => exact ⟨⟨h, hh⟩, ⟨h, hh⟩⟩
    | grad x => exact ⟨⟨h, hh⟩, ⟨h, hh⟩⟩
    | other x => exact ⟨⟨h, hh⟩, ⟨h, hh⟩⟩

/-- the marker attributes of a styling are harmless: whatever is found under `marker-start` / `marker-end` — on the
instance or in the defaults — names a factory, and then both stroke lookups yield a colour -/
def MarkersFine (markers : List MarkerRow) (D : List (Str × Val)) (s : Styling) : Prop :=
  ∀ attr, (attr = markerStart ∨ attr = markerEnd) → ∀ v, ((attr, v) ∈ s.attrs ∨ (s.styleName attr, v) ∈ D) →
    (∃ m, v = .str m ∧ hasMarker markers m = true) ∧ (∃ h, hexOf (refStroke D s) = .ok h) ∧
    (∃ h, hexOf (deployStroke D s) = .ok h)

theorem refStep_ok {markers : List MarkerRow} {D : List (Str × Val)} {s : Styling} (hf : MarkersFine markers D s)
    (acc : List Str) (attr : Str) (ha : attr = markerStart ∨ attr = markerEnd) : ∃ acc', refStep D s acc attr = .ok acc' := by
  unfold refStep
  cases hl : lookup s.attrs attr with
  | none => exact ⟨acc, rfl⟩
  | some v =>
    obtain ⟨⟨m, rfl, _⟩, ⟨h, hh⟩, _⟩ := hf attr ha v (.inl (lookup_pair hl))
    simp only [bind, Except.bind, hh, pure, Except.pure]
    exact ⟨_, rfl⟩

theorem deployStep_ok {markers : List MarkerRow} {D : List (Str × Val)} {s : Styling} (hf : MarkersFine markers D s)
    (acc : List Str) (attr : Str) (ha : attr = markerStart ∨ attr = markerEnd) :
    ∃ acc', deployStep true D markers s acc attr = .ok acc' := by
  unfold deployStep deployMarkerName
  simp only [if_true]
  have hdflt : ∀ v, lookup D (s.styleName attr) = some v →
      (∃ m, v = .str m ∧ hasMarker markers m = true) ∧ (∃ h, hexOf (deployStroke D s) = .ok h) :=
    fun v hv => ⟨(hf attr ha v (.inr (lookup_pair hv))).1, (hf attr ha v (.inr (lookup_pair hv))).2.2⟩
  cases hl : lookup s.attrs attr with
  | none =>
    simp only
    cases hl2 : lookup D (s.styleName attr) with
    | none => exact ⟨acc, rfl⟩
    | some v =>
      obtain ⟨⟨m, rfl, hm⟩, ⟨h, hh⟩⟩ := hdflt v hl2
      simp only [bind, Except.bind, hh, hm, if_true, pure, Except.pure]
      exact ⟨_, rfl⟩
  | some v =>
    obtain ⟨⟨m, rfl, hm⟩, _, ⟨h, hh⟩⟩ := hf attr ha v (.inl (lookup_pair hl))
    simp only [bind, Except.bind, hh, hm, if_true, pure, Except.pure]
    exact ⟨_, rfl⟩

theorem styling_ok {styles : List StyleEntry} {markers : List MarkerRow} {D : List (Str × Val)} {s : Styling}
    (hg : getStyle styles s.dc s.cls = .ok D) (hf : MarkersFine markers D s) :
    (∃ rs, styleRefs styles s = .ok rs) ∧ ∃ ds, deployIdsWith true styles markers s = .ok ds := by
  constructor
  · unfold styleRefs
    simp only [bind, Except.bind, hg]
    obtain ⟨a1, h1⟩ := refStep_ok hf (gradRefs s.attrs) markerStart (.inl rfl)
    rw [h1]
    exact refStep_ok hf a1 markerEnd (.inr rfl)
  · unfold deployIdsWith
    simp only [bind, Except.bind, hg]
    obtain ⟨a1, h1⟩ := deployStep_ok hf (gradRefs s.attrs) markerStart (.inl rfl)
    rw [h1]
    exact deployStep_ok hf a1 markerEnd (.inr rfl)

theorem collectM_ok_of_all {α : Type} {f : α → Except Err (List Str)} :
    ∀ (l : List α), (∀ a ∈ l, ∃ x, f a = .ok x) → ∃ res, collectM f l = .ok res := by
  intro l
  induction l with
  | nil => intro _; exact ⟨[], rfl⟩
  | cons a as ih =>
    intro h
    obtain ⟨x, hx⟩ := h a List.mem_cons_self
    obtain ⟨xs, hxs⟩ := ih (fun b hb => h b (List.mem_cons_of_mem _ hb))
    exact ⟨x ++ xs, by simp only [collectM, bind, Except.bind, hx, hxs, pure, Except.pure]⟩

/-- `_add_decofactory` succeeds for every class name: a registered symbol (no dependency cycle) or the `Error` fallback -/
theorem symbolDefs_ok {symbols : List SymbolRow} (hterm : symbols.all (symbolDepsTerminate symbols) = true)
    (herr : errorSymbolOK symbols = true) (u : Str) : ∃ ds, symbolDefs symbols u = .ok ds := by
  unfold symbolDefs
  cases hf : findSymbol symbols u with
  | some r =>
    obtain ⟨hn, hm⟩ := findSymbol_name hf
    have := (List.all_eq_true.mp hterm) r hm
    unfold symbolDepsTerminate at this
    have htake : r.name.take (r.name.length - symbolSuffix.length) = u := by
      rw [hn]; simp
    rw [htake] at this
    cases hd : symbolDefsWith true symbols (symbols.length + 1) u with
    | ok ds => exact ⟨ds, rfl⟩
    | error e => rw [hd] at this; cases this
  | none =>
    unfold errorSymbolOK at herr
    cases he : findSymbol symbols errorName with
    | none => rw [he] at herr; cases herr
    | some e =>
      exact ⟨(u ++ symbolSuffix) :: e.ids.filter (fun i => some i ≠ e.producedId), by simp only [symbolDefsWith, hf, he, if_true]⟩

/-! ### every element without style overrides draws -/

structure PlainTables (T : Tables) : Prop where
  styles : StylesPlainOK T.styles T.markers
  edge : globalEdgeStroke T.styles = true
  term : T.symbols.all (symbolDepsTerminate T.symbols) = true
  err : errorSymbolOK T.symbols = true

theorem styleType_nodot (k : Kind) : ∀ c ∈ styleType k, c ≠ '.' := by
  cases k <;> decide

theorem getStyle_dotted (styles : List StyleEntry) (dc : Option Str) (ty cls : Str) :
    ∃ D, getStyle styles dc (ty ++ '.' :: cls) = .ok D := by
  unfold getStyle
  have hc : (ty ++ '.' :: cls).contains '.' = true := by simp
  simp only [hc, not_true_eq_false, if_false]
  split
  · exact ⟨_, rfl⟩
  · exact ⟨_, rfl⟩

theorem rowp_fill (markers : List MarkerRow) (ty : Str) (v : Val) : RowP markers ty (fillKey, v) := by
  have h1 : isMarkerKey fillKey = false := by decide
  have h2 : textPfx.isPrefixOf fillKey = false := by decide
  have h3 : fillKey ≠ strokeKey := by decide
  refine ⟨fun h => ?_, fun h => ?_, fun h => ?_⟩
  · change isMarkerKey fillKey = true at h; rw [h1] at h; cases h
  · change textPfx.isPrefixOf fillKey = true ∧ _ at h; rw [h2] at h; cases h.1
  · exact absurd h h3

/-- the style overrides of an element obey the rules the table entries obey: a marker only on an `Edge`-type element
and naming a factory, no marker under a `text_` key, a stroke on an `Edge`-type element parses as a colour -/
def OverridesOK (T : Tables) (o : Obj) : Prop := AllP (RowP T.markers (styleType o.kind)) o.style

theorem isEdgeType_iff (k : Kind) : isEdgeType k = true ↔ styleType k = edgeName := by
  cases k <;> decide

theorem overridePlainOK_ok {T : Tables} {o : Obj}
    (h : o.style.all (overridePlainOK T.markers (isEdgeType o.kind)) = true) : OverridesOK T o := by
  intro p hp
  have := (List.all_eq_true.mp h) p hp
  unfold overridePlainOK at this
  simp only [Bool.and_eq_true, Bool.not_eq_true', Bool.and_eq_false_iff] at this
  obtain ⟨⟨h1, h2⟩, h3⟩ := this
  refine ⟨?_, ?_, ?_⟩
  · intro hm
    simp only [hm, if_true, Bool.and_eq_true] at h1
    refine ⟨(isEdgeType_iff o.kind).mp h1.1, ?_⟩
    cases hv : p.2 with
    | str m => rw [hv] at h1; exact ⟨m, rfl, h1.2⟩
    | none => rw [hv] at h1; simp at h1
    | color x => rw [hv] at h1; simp at h1
    | num x => rw [hv] at h1; simp at h1
    | grad x => rw [hv] at h1; simp at h1
    | other x => rw [hv] at h1; simp at h1
  · rintro ⟨ha, hb⟩
    rcases h2 with h2 | h2
    · rw [ha] at h2; cases h2
    · rw [hb] at h2; cases h2
  · intro hk hty
    have he : isEdgeType o.kind = true := (isEdgeType_iff o.kind).mpr hty
    simp only [hk, he, and_self, if_true] at h3
    cases hh : hexOf p.2 with
    | ok x => exact ⟨x, rfl⟩
    | error e => rw [hh] at h3; cases h3

theorem markersFine_obj {T : Tables} (h : PlainTables T) {dc : Option Str} {o : Obj} (hO : OverridesOK T o)
    (hns : o.style = [] ∨ isInfixOfB "symbol".toList ((styleType o.kind ++ '.' :: o.cls).map lowerChar) = false)
    {D : List (Str × Val)} (hD : getStyle T.styles dc (styleType o.kind ++ '.' :: o.cls) = .ok D) :
    MarkersFine T.markers D (prepare T dc o D).objStyle := by
  obtain ⟨hall, hstroke⟩ := getStyle_plain h.styles h.edge (styleType_nodot o.kind) hD
  have hattrs : AllP (RowP T.markers (styleType o.kind)) (prepare T dc o D).objStyle.attrs :=
    prepare_obj_attrs hall hO (rowp_fill _ _)
  intro attr ha v hv
  have hkey : isMarkerKey attr = true := by rcases ha with rfl | rfl <;> decide
  have hsn : ∀ a, (prepare T dc o D).objStyle.styleName a = a := fun a => rfl
  have hrow : RowP T.markers (styleType o.kind) (attr, v) := by
    rcases hv with hv | hv
    · exact hattrs _ hv
    · rw [hsn] at hv; exact hall _ hv
  obtain ⟨hte, m, hm, hmk⟩ := hrow.1 hkey
  simp only at hm
  rcases hstroke with ⟨hsym, hnil⟩ | hs
  · exfalso
    rcases hns with hst | hns
    · subst hnil
      rcases hv with hv | hv
      · have : AllP (fun p => isMarkerKey p.1 = false) (prepare T dc o []).objStyle.attrs :=
          prepare_obj_attrs (fun p hp => nomatch hp) (by rw [hst]; exact fun p hp => nomatch hp)
            (fun _ => (by decide : isMarkerKey fillKey = false))
        have := this _ hv
        simp only at this
        rw [hkey] at this; cases this
      · cases hv
    · rw [hns] at hsym; cases hsym
  · have hsk := strokes_ok (D := D) (s := (prepare T dc o D).objStyle)
      (fun w hw => (hattrs _ hw).2.2 rfl hte) (by rw [hsn]; exact hs hte)
    exact ⟨⟨m, hm, hmk⟩, hsk.1, hsk.2⟩

theorem markersFine_text {T : Tables} (h : PlainTables T) {dc : Option Str} {o : Obj} (hO : OverridesOK T o)
    {D : List (Str × Val)} (hD : getStyle T.styles dc (styleType o.kind ++ '.' :: o.cls) = .ok D) :
    MarkersFine T.markers D (prepare T dc o D).textStyle := by
  obtain ⟨hall, _⟩ := getStyle_plain h.styles h.edge (styleType_nodot o.kind) hD
  intro attr ha v hv
  exfalso
  rcases hv with hv | hv
  · have := prepare_text_attrs (T := T) (dc := dc) hall hO _ hv
    simp only at this
    have hkey : isMarkerKey attr = true := by rcases ha with rfl | rfl <;> decide
    rw [hkey] at this; cases this
  · have hsn : (prepare T dc o D).textStyle.styleName attr = "text".toList ++ '_' :: attr := rfl
    rw [hsn] at hv
    have := (hall _ hv).2.1
    apply this
    rcases ha with rfl | rfl
    · exact (by decide : textPfx.isPrefixOf ("text".toList ++ '_' :: markerStart) = true ∧
        isMarkerKey (attrName (List.drop 5 ("text".toList ++ '_' :: markerStart))) = true)
    · exact (by decide : textPfx.isPrefixOf ("text".toList ++ '_' :: markerEnd) = true ∧
        isMarkerKey (attrName (List.drop 5 ("text".toList ++ '_' :: markerEnd))) = true)

/-- **every element whose style overrides obey the table rules draws** — any kind, any style class and any diagram
class, known to the tables or not, with any labels, features, children — unless svgwrite rejects `rx`/`ry` on its `<use>`
(overrides on a class whose name contains "symbol" — `get_style` returns `{}` for those — are left out) -/
theorem styled_draws {T : Tables} (h : PlainTables T) (dc : Option Str) (o : Obj) (hO : OverridesOK T o)
    (hns : o.style = [] ∨ isInfixOfB "symbol".toList ((styleType o.kind ++ '.' :: o.cls).map lowerChar) = false) :
    (∃ d, drawObject T dc o = .ok d) ∨
    (drawObject T dc o = .error .invalidAttribute ∧
      ∃ D, getStyle T.styles dc (styleType o.kind ++ '.' :: o.cls) = .ok D ∧ useRejects T o (prepare T dc o D) = true) := by
  obtain ⟨D, hD⟩ := getStyle_dotted T.styles dc (styleType o.kind) o.cls
  unfold drawObject drawObjectWith
  simp only [bind, Except.bind, hD]
  by_cases hu : useRejects T o (prepare T dc o D) = true
  · right; exact ⟨by simp only [hu, if_true], D, rfl, hu⟩
  · left
    simp only [hu, Bool.false_eq_true, if_false]
    have hgo : getStyle T.styles (prepare T dc o D).objStyle.dc (prepare T dc o D).objStyle.cls = .ok D := hD
    have hgt : getStyle T.styles (prepare T dc o D).textStyle.dc (prepare T dc o D).textStyle.cls = .ok D := hD
    obtain ⟨⟨r1, h1⟩, ⟨d1, h4⟩⟩ := styling_ok hgo (markersFine_obj h hO hns hD)
    obtain ⟨⟨r2, h2⟩, ⟨d2, h5⟩⟩ := styling_ok hgt (markersFine_text h hO hD)
    obtain ⟨sy, h3⟩ := collectM_ok_of_all (f := symbolDefs T.symbols) (prepare T dc o D).uses
      (fun u _ => symbolDefs_ok h.term h.err u)
    have ht : ∃ tr, textRefsOf T (prepare T dc o D) = .ok tr := by
      unfold textRefsOf
      split
      · exact ⟨r2, h2⟩
      · exact ⟨[], rfl⟩
    obtain ⟨tr, ht⟩ := ht
    unfold assemble
    simp only [bind, Except.bind, h1, ht, if_true, h3, h4, h5, pure, Except.pure]
    exact ⟨_, rfl⟩

theorem unstyled_draws {T : Tables} (h : PlainTables T) (dc : Option Str) (o : Obj) (ho : o.style = []) :
    (∃ d, drawObject T dc o = .ok d) ∨
    (drawObject T dc o = .error .invalidAttribute ∧
      ∃ D, getStyle T.styles dc (styleType o.kind ++ '.' :: o.cls) = .ok D ∧ useRejects T o (prepare T dc o D) = true) :=
  styled_draws h dc o (by unfold OverridesOK; rw [ho]; exact fun p hp => nomatch hp) (.inl ho)

end Capella.Svg
