import Capella.Lemmas.PodsSpec
namespace Capella.Pods
variable {P : Params}

/-- reading key `K` (already aliased) from the projections -/
def rawGet (s : Spec) (K : Str) : Option (Option Str) :=
  match indexOf s K with
  | none => none
  | some i => match bodyAt s i with
    | none => none
    | some b => some b.text

theorem specGet_eq (s : Spec) (k : Str) :
    specGet P s k = match rawGet s (specAlias k) with
      | none => .error .keyError
      | some t => .ok (if specAlias k = kLinked then P.unescLinked (t.getD []) else t.getD []) := by
  unfold specGet rawGet
  simp only []
  cases h1 : indexOf s (specAlias k) with
  | none => simp
  | some i => cases h2 : bodyAt s i <;> simp [h2]

theorem findIdx_lt {α} (p : α → Bool) (l : List α) (i : Nat) (h : l.findIdx? p = some i) : i < l.length := by
  have := List.findIdx?_eq_some_iff_getElem.mp h
  exact this.1

/-- appending a fresh (body, language) pair for a key that was absent -/
theorem rawGet_append_new (s : Spec) (K v : Str) (hb : Balanced s) (hn : indexOf s K = none) :
    rawGet (s ++ [⟨tBodies, some v⟩, ⟨tLanguages, some K⟩]) K = some (some v) := by
  unfold rawGet indexOf bodyAt
  unfold indexOf at hn
  rw [langs_append, bodies_append, langs_new, bodies_new, List.findIdx?_append, hn]
  simp [hb.symm] 

theorem rawGet_append_other (s : Spec) (K K' v : Str) (hb : Balanced s) (hk : K' ≠ K) :
    rawGet (s ++ [⟨tBodies, some v⟩, ⟨tLanguages, some K⟩]) K' = rawGet s K' := by
  unfold rawGet indexOf bodyAt
  rw [langs_append, bodies_append, langs_new, bodies_new, List.findIdx?_append]
  cases hf : (langs s).findIdx? (fun c => decide (c.text = some K')) with
  | none => simp [Ne.symm hk]
  | some i =>
    have hlt := findIdx_lt _ _ _ hf
    have : i < (bodies s).length := hb ▸ hlt
    simp [List.getElem?_append_left this]

theorem rawGet_setNth_same (s : Spec) (K v : Str) (i : Nat) (hi : indexOf s K = some i)
    (b : Kid) (hbd : bodyAt s i = some b) :
    rawGet (setNth tBodies v s i) K = some (some v) := by
  unfold rawGet indexOf bodyAt
  unfold indexOf at hi
  unfold bodyAt at hbd
  rw [langs_setNth, hi, bodies_setNth]
  simp [hbd]

theorem rawGet_setNth_other (s : Spec) (K K' v : Str) (i : Nat) (hi : indexOf s K = some i) (hk : K' ≠ K) :
    rawGet (setNth tBodies v s i) K' = rawGet s K' := by
  unfold rawGet indexOf bodyAt
  unfold indexOf at hi
  rw [langs_setNth, bodies_setNth]
  cases hf : (langs s).findIdx? (fun c => decide (c.text = some K')) with
  | none => rfl
  | some j =>
    have hji : i ≠ j := by
      rintro rfl
      have h1 := List.findIdx?_eq_some_iff_getElem.mp hi
      have h2 := List.findIdx?_eq_some_iff_getElem.mp hf
      obtain ⟨hl, h1, _⟩ := h1
      obtain ⟨_, h2, _⟩ := h2
      simp at h1 h2
      rw [h1] at h2
      simp at h2
      exact hk h2.symm
    simp [hji]

theorem balanced_append_new (s : Spec) (K v : Str) (hb : Balanced s) :
    Balanced (s ++ [⟨tBodies, some v⟩, ⟨tLanguages, some K⟩]) := by
  unfold Balanced at *
  rw [langs_append, bodies_append, langs_new, bodies_new]
  simp [hb]

theorem balanced_setNth (s : Spec) (v : Str) (i : Nat) (hb : Balanced s) : Balanced (setNth tBodies v s i) := by
  unfold Balanced at *
  rw [langs_setNth, bodies_setNth]
  simp [hb]

/-- the shape of a successful `__setitem__` -/
theorem specSet_ok (s s' : Spec) (k v : Str) (h : specSet P s k v = .ok s') :
    ∃ v', (if specAlias k = kLinked then P.escLinked v else some v) = some v' ∧
      ((indexOf s (specAlias k) = none ∧ s' = s ++ [⟨tBodies, some v'⟩, ⟨tLanguages, some (specAlias k)⟩]) ∨
       (∃ i b, indexOf s (specAlias k) = some i ∧ bodyAt s i = some b ∧ s' = setNth tBodies v' s i)) := by
  unfold specSet at h
  simp only at h
  split at h
  · simp at h
  · rename_i v' hv'
    refine ⟨v', hv', ?_⟩
    split at h
    · rename_i hn
      split at h
      · simp at h; exact Or.inl ⟨hn, h.symm⟩
      · simp at h
    · rename_i i hi
      split at h
      · simp at h
      · rename_i b hb
        split at h
        · simp at h; exact Or.inr ⟨i, b, hi, hb, h.symm⟩
        · simp at h

end Capella.Pods

namespace Capella.Pods
variable {P : Params}

theorem spec_get_set' (s s' : Spec) (k v : Str) (hb : Balanced s) (h : specSet P s k v = .ok s') :
    Balanced s' ∧ specGet P s' k = .ok (specView P k v) ∧
      ∀ k', specAlias k' ≠ specAlias k → specGet P s' k' = specGet P s k' := by
  obtain ⟨v', hv', hcase⟩ := specSet_ok s s' k v h
  have hview : specView P k v = (if specAlias k = kLinked then P.unescLinked v' else v') := by
    unfold specView
    by_cases hl : specAlias k = kLinked
    · simp only [hl, if_true] at hv' ⊢
      rw [hv']; rfl
    · simp only [hl, if_false] at hv' ⊢
      injection hv'
  rcases hcase with ⟨hn, rfl⟩ | ⟨i, b, hi, hbd, rfl⟩
  · refine ⟨balanced_append_new s _ v' hb, ?_, ?_⟩
    · rw [specGet_eq, rawGet_append_new s _ v' hb hn, hview]; rfl
    · intro k' hk
      rw [specGet_eq, specGet_eq, rawGet_append_other s _ _ v' hb hk]
  · refine ⟨balanced_setNth s v' i hb, ?_, ?_⟩
    · rw [specGet_eq, rawGet_setNth_same s _ v' i hi b hbd, hview]; rfl
    · intro k' hk
      rw [specGet_eq, specGet_eq, rawGet_setNth_other s _ _ v' i hi hk]

end Capella.Pods
