import Capella.Lemmas.XmlNs
import Capella.Lemmas.XmlText
/-! What the writer puts into a start tag (name, attribute list) is readable, and reads back as the
raw attribute list. -/
namespace Capella.Xml

/-! ### names -/

theorem nameChar_colon : nameChar ':' = true := by decide

theorem lexName_of_nameOk {s : Str} (h : nameOk s = true) : lexName s ∧ nameStartOk s = true := by
  obtain ⟨h1, h2, _, _, h5⟩ := nameOk_all h
  exact ⟨⟨h1, h2⟩, h5⟩

theorem lexName_prefixed {q loc : Str} (hq : nameOk q = true) (hl : nameOk loc = true) :
    lexName (q ++ ':' :: loc) ∧ nameStartOk (q ++ ':' :: loc) = true := by
  obtain ⟨q1, q2, _, _, q5⟩ := nameOk_all hq
  obtain ⟨_, l2, _, _, _⟩ := nameOk_all hl
  refine ⟨⟨by simp, ?_⟩, ?_⟩
  · simp only [List.all_append, List.all_cons, Bool.and_eq_true]
    exact ⟨q2, nameChar_colon, l2⟩
  · cases q with
    | nil => exact absurd rfl q1
    | cons c cs => simpa [nameStartOk] using q5

/-- an unmapped well-formed name is a readable name -/
theorem lexName_unmap {m : List (Str × Str)} (hinv : NsInv m) (isAttr : Bool) (name : Str)
    (hq : qnameOk m isAttr name = true) :
    lexName (unmap m name) ∧ nameStartOk (unmap m name) = true := by
  simp only [qnameOk, Bool.and_eq_true] at hq
  obtain ⟨hloc, hns⟩ := hq
  rw [unmap_eq]
  split at hns
  · rename_i hnil
    simp only [hnil, ↓reduceIte]
    exact lexName_of_nameOk hloc
  · rename_i hnil
    cases hr : revLookup m (splitName name).1 with
    | none => simp [hr] at hns
    | some q =>
      obtain ⟨hmem, _⟩ := revLookup_mem hr
      simp only [hnil, ↓reduceIte, Option.getD_some]
      exact lexName_prefixed (hinv.names q (mem_keysOf.mpr ⟨_, hmem⟩)).1 hloc

/-! ### values -/

/-- the value the reader decodes from a written one -/
def dvOf (w : Str × Str) : Str := (unescapeXml (attrNorm w.2)).getD []

theorem attrNorm_id {s : Str} (h : ∀ c ∈ s, c ≠ '\t' ∧ c ≠ '\n' ∧ c ≠ '\r') : attrNorm s = s := by
  unfold attrNorm
  rw [normEol_id (fun hm => (h _ hm).2.2 rfl)]
  conv => rhs; rw [← List.map_id s]
  apply List.map_congr_left
  intro c hc
  obtain ⟨h1, h2, h3⟩ := h c hc
  simp [h1, h2, h3]

theorem isCtl_ws {c : Char} (h : isCtl c = false) : c ≠ '\t' ∧ c ≠ '\n' ∧ c ≠ '\r' := by
  refine ⟨?_, ?_, ?_⟩ <;> (rintro rfl; exact absurd h (by decide))

/-- an escaped attribute value is quote-free and reads back as the value -/
theorem valReads_escape (v : Str) (hx : v.all xmlChar = true) : valReads (escape isEscText v) v := by
  have hs := escape_text_safe v
  refine ⟨?_, ?_, ?_⟩
  · simp only [List.all_eq_true, bne_iff_ne, ne_eq]; intro c hc; exact (hs c hc).1
  · simp only [List.contains_eq_mem, decide_eq_false_iff_not]; intro hc; exact (hs _ hc).2.1 rfl
  · rw [attrNorm_id (fun c hc => isCtl_ws (hs c hc).2.2)]
    exact unescGo_escape true v (fun _ => hx)

theorem uriOk_facts {u : Str} (h : uriOk u = true) :
    ∀ c ∈ u, c ≠ '"' ∧ c ≠ '&' ∧ c ≠ '<' ∧ c ≠ '\t' ∧ c ≠ '\n' ∧ c ≠ '\r' := by
  simp only [uriOk, Bool.and_eq_true, List.all_eq_true, bne_iff_ne, ne_eq] at h
  intro c hc
  have := h.2 c hc
  exact ⟨this.1.1.1.1.1, this.1.1.1.1.2, this.1.1.1.2, this.1.1.2, this.1.2, this.2⟩

/-- a namespace URI is written as it is and reads back as it is -/
theorem valReads_uri (u : Str) (h : uriOk u = true) : valReads u u := by
  have hs := uriOk_facts h
  refine ⟨?_, ?_, ?_⟩
  · simp only [List.all_eq_true, bne_iff_ne, ne_eq]; intro c hc; exact (hs c hc).1
  · simp only [List.contains_eq_mem, decide_eq_false_iff_not]; intro hc; exact (hs _ hc).2.2.1 rfl
  · rw [attrNorm_id (fun c hc => (hs c hc).2.2.2)]
    exact unescGo_no_amp true u (fun hc => (hs _ hc).2.1 rfl)

theorem dvOf_of_valReads {k w v : Str} (h : valReads w v) : dvOf (k, w) = v := by
  simp [dvOf, h.2.2]

/-! ### the attribute list -/

theorem unmappedAttrs_eq (pk : List Str) (m : List (Str × Str)) (attrs : List (Str × Str)) :
    unmappedAttrs pk m attrs =
      (specialsOf attrs).map (fun kv => (unmap m kv.1, escape isEscText kv.2))
      ++ (canonNs pk m).map (fun p => ("xmlns:".toList ++ p.1, p.2))
      ++ ((attrs.filter fun kv => !specialAttrs.contains kv.1).map fun kv =>
          (unmap m kv.1, escape isEscText kv.2)) := by
  unfold unmappedAttrs specialsOf canonNs
  congr 2
  rw [List.map_filterMap]
  congr 1
  funext a
  cases lookupAttr a attrs <;> rfl

theorem lexName_xmlns {p : Str} (hp : nameOk p = true) : lexName ("xmlns:".toList ++ p) := by
  obtain ⟨_, p2, _, _, _⟩ := nameOk_all hp
  refine ⟨by simp, ?_⟩
  simp only [List.all_append, Bool.and_eq_true]
  exact ⟨by decide, p2⟩

/-- every written attribute is readable, and the list reads back as `rawAttrs` -/
theorem unmappedAttrs_reads {m : List (Str × Str)} (hinv : NsInv m) (pk : List Str) (attrs : List (Str × Str))
    (hA : ∀ kv ∈ attrs, qnameOk m true kv.1 = true ∧ kv.2.all xmlChar = true) :
    (∀ w ∈ unmappedAttrs pk m attrs, lexName w.1 ∧ valReads w.2 (dvOf w)) ∧
    (unmappedAttrs pk m attrs).map (fun w => (w.1, dvOf w)) = rawAttrs pk m attrs := by
  have part : ∀ L : List (Str × Str), (∀ kv ∈ L, kv ∈ attrs) →
      (∀ w ∈ L.map (fun kv => (unmap m kv.1, escape isEscText kv.2)), lexName w.1 ∧ valReads w.2 (dvOf w)) ∧
      (L.map (fun kv => (unmap m kv.1, escape isEscText kv.2))).map (fun w => (w.1, dvOf w)) =
        L.map (fun kv => (unmap m kv.1, kv.2)) := by
    intro L hL
    constructor
    · intro w hw
      simp only [List.mem_map] at hw
      obtain ⟨kv, hkv, rfl⟩ := hw
      obtain ⟨h1, h2⟩ := hA kv (hL kv hkv)
      have hv := valReads_escape kv.2 h2
      refine ⟨(lexName_unmap hinv true kv.1 h1).1, ?_⟩
      rw [dvOf_of_valReads hv]; exact hv
    · rw [List.map_map]
      apply List.map_congr_left
      intro kv hkv
      obtain ⟨_, h2⟩ := hA kv (hL kv hkv)
      simp only [Function.comp]
      rw [dvOf_of_valReads (valReads_escape kv.2 h2)]
  have partNs : (∀ w ∈ (canonNs pk m).map (fun p => ("xmlns:".toList ++ p.1, p.2)),
        lexName w.1 ∧ valReads w.2 (dvOf w)) ∧
      ((canonNs pk m).map (fun p => ("xmlns:".toList ++ p.1, p.2))).map (fun w => (w.1, dvOf w)) =
        (canonNs pk m).map (fun p => ("xmlns:".toList ++ p.1, p.2)) := by
    constructor
    · intro w hw
      simp only [List.mem_map] at hw
      obtain ⟨p, hp, rfl⟩ := hw
      have hpm := (mem_canonNs.mp hp).1
      have hv := valReads_uri p.2 (hinv.uris p hpm)
      refine ⟨lexName_xmlns (hinv.names p.1 (mem_keysOf.mpr ⟨p.2, hpm⟩)).1, ?_⟩
      rw [dvOf_of_valReads hv]; exact hv
    · rw [List.map_map]
      apply List.map_congr_left
      intro p hp
      have hpm := (mem_canonNs.mp hp).1
      simp only [Function.comp]
      rw [dvOf_of_valReads (valReads_uri p.2 (hinv.uris p hpm))]
  obtain ⟨a1, a2⟩ := part (specialsOf attrs) (fun kv h => mem_specialsOf h)
  obtain ⟨c1, c2⟩ := part (attrs.filter fun kv => !specialAttrs.contains kv.1) (fun kv h => (List.mem_filter.mp h).1)
  obtain ⟨b1, b2⟩ := partNs
  rw [unmappedAttrs_eq, rawAttrs_eq]
  constructor
  · intro w hw
    simp only [List.mem_append] at hw
    rcases hw with (hw | hw) | hw
    · exact a1 w hw
    · exact b1 w hw
    · exact c1 w hw
  · simp only [List.map_append, a2, b2, c2]

/-! ### no attribute is written twice -/

theorem distinctKeys_iff {l : List (Str × Str)} : distinctKeys l = true ↔ (keysOf l).Nodup := by
  induction l with
  | nil => simp [distinctKeys, keysOf]
  | cons x xs ih =>
    obtain ⟨k, v⟩ := x
    simp only [distinctKeys, Bool.and_eq_true, Bool.not_eq_true', List.any_eq_false, beq_iff_eq, ih,
      keysOf, List.map_cons, List.nodup_cons, List.mem_map, not_exists, not_and]

theorem specialAttrs_nodup : specialAttrs.Nodup := by decide

theorem keysOf_specialsOf (attrs : List (Str × Str)) :
    keysOf (specialsOf attrs) = specialAttrs.filter fun a => (lookupAttr a attrs).isSome := by
  unfold specialsOf keysOf
  generalize specialAttrs = L
  induction L with
  | nil => rfl
  | cons a as ih =>
    simp only [List.filterMap_cons, List.filter_cons]
    cases h : lookupAttr a attrs <;> simp_all

theorem canonAttrs_keys_nodup {attrs : List (Str × Str)} (h : (keysOf attrs).Nodup) :
    (keysOf (canonAttrs attrs)).Nodup := by
  rw [canonAttrs_eq, keysOf_append]
  refine List.nodup_append.mpr ⟨?_, ?_, ?_⟩
  · rw [keysOf_specialsOf]; exact List.Nodup.sublist List.filter_sublist specialAttrs_nodup
  · exact List.Nodup.sublist (List.Sublist.map _ List.filter_sublist) h
  · intro a ha b hb hab
    rw [keysOf_specialsOf] at ha
    have ha' := (List.mem_filter.mp ha).1
    obtain ⟨u, hu⟩ := mem_keysOf.mp hb
    have := (List.mem_filter.mp hu).2
    rw [← hab] at this
    simp [ha'] at this

theorem mem_canonAttrs {attrs : List (Str × Str)} {kv : Str × Str} (h : kv ∈ canonAttrs attrs) : kv ∈ attrs := by
  rw [canonAttrs_eq] at h
  rcases List.mem_append.mp h with h | h
  · exact mem_specialsOf h
  · exact (List.mem_filter.mp h).1

theorem nodup_map_inj {f : Str → Str} (hf : ∀ a b, f a = f b → a = b) {l : List Str} (h : l.Nodup) :
    (l.map f).Nodup := by
  induction l with
  | nil => exact List.nodup_nil
  | cons x xs ih =>
    simp only [List.map_cons, List.nodup_cons, List.mem_map, not_exists, not_and] at h ⊢
    exact ⟨fun y hy heq => h.1 (by rw [← hf _ _ heq]; exact hy), ih h.2⟩

theorem rawAttrs_distinct {m : List (Str × Str)} (hinv : NsInv m) (pk : List Str)
    (attrs : List (Str × Str)) (hA : ∀ kv ∈ attrs, qnameOk m true kv.1 = true)
    (hnd : (keysOf attrs).Nodup) : distinctKeys (rawAttrs pk m attrs) = true := by
  rw [distinctKeys_iff]
  -- rearranged: (attributes) ++ (declarations)
  have hperm : (keysOf (rawAttrs pk m attrs)).Perm
      (keysOf ((canonAttrs attrs).map fun kv => (unmap m kv.1, kv.2)) ++
        keysOf ((canonNs pk m).map fun p => ("xmlns:".toList ++ p.1, p.2))) := by
    rw [rawAttrs_eq, canonAttrs_eq]
    simp only [keysOf_append, List.map_append, List.append_assoc]
    exact List.Perm.append_left _ List.perm_append_comm
  rw [hperm.nodup_iff]
  have hinj : ∀ a ∈ canonAttrs attrs, ∀ b ∈ canonAttrs attrs, unmap m a.1 = unmap m b.1 → a.1 = b.1 := by
    intro a ha b hb hab
    have h1 := resolveName_unmap hinv (fun _ => Iff.rfl) true a.1 (hA a (mem_canonAttrs ha)) false
    have h2 := resolveName_unmap hinv (fun _ => Iff.rfl) true b.1 (hA b (mem_canonAttrs hb)) false
    rw [hab, h2] at h1
    exact (Option.some.inj h1).symm
  refine List.nodup_append.mpr ⟨?_, ?_, ?_⟩
  · -- attribute names stay distinct under `unmap`
    have hk := canonAttrs_keys_nodup hnd
    generalize canonAttrs attrs = L at hk hinj
    induction L with
    | nil => exact List.nodup_nil
    | cons x xs ih =>
      simp only [keysOf, List.map_cons, List.nodup_cons, List.mem_map, not_exists, not_and] at hk ⊢
      refine ⟨?_, ?_⟩
      · rintro y ⟨z, hz, rfl⟩
        intro heq
        have := hinj z (List.mem_cons_of_mem _ hz) x List.mem_cons_self heq
        exact hk.1 z hz this
      · exact ih hk.2 (fun a ha b hb => hinj a (List.mem_cons_of_mem _ ha) b (List.mem_cons_of_mem _ hb))
  · -- declarations: distinct prefixes
    have hk : (keysOf (canonNs pk m)).Nodup := canonNs_keys_nodup hinv.nodup
    have : keysOf ((canonNs pk m).map fun p => ("xmlns:".toList ++ p.1, p.2)) =
        (keysOf (canonNs pk m)).map fun p => "xmlns:".toList ++ p := by simp [keysOf]
    rw [this]
    exact nodup_map_inj (fun a b h => List.append_cancel_left h) hk
  · -- an attribute name is never `xmlns:…`
    intro a ha b hb hab
    simp only [keysOf, List.map_map, List.mem_map, Function.comp] at ha hb
    obtain ⟨x, hx, rfl⟩ := ha
    obtain ⟨p, _, rfl⟩ := hb
    have h1 := nsDeclOf_unmap hinv x.1 x.2 (hA x (mem_canonAttrs hx))
    rw [hab, nsDeclOf_xmlns] at h1
    simp at h1

end Capella.Xml
