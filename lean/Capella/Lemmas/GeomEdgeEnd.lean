/-
Lemmas about the edge chain with edge ends (`Capella.Model.GeomEdgeEnd`): for two boxes it is the old model;
`Edge.vector_snap` and `Edge.center` commute with translation, and so does the whole route; the end at an edge is left
exactly as stored / routed; `Edge.center` lies on the edge.
-/
import Capella.Model.GeomEdgeEnd
import Capella.Lemmas.GeomEdge
import Capella.Lemmas.GeomMore

namespace Capella.Geom

/-! ### two boxes: the extended model is the old one -/

theorem routeManhattanE_boxes (s t : Box) (sl tl : List Box) :
    routeManhattanE (.box s sl) (.box t tl) = routeManhattan s t := by
  unfold routeManhattanE routeManhattan
  simp only [End.center, End.manhattanPoint, End.snapManhattanAt]
  cases vectorSnap s s.center t.center .manhattan <;> cases vectorSnap t t.center s.center .manhattan <;> rfl

theorem edgePointsE_boxes (i : EdgeIn) : edgePointsE i.toE = edgePoints i := by
  unfold edgePointsE edgePoints
  simp only [EdgeIn.toE, End.bounds, End.valid, routeManhattanE_boxes, and_self, not_true_eq_false, if_false]
  split_ifs
  · rfl
  · cases i.style <;> rfl

/-- the extended model restricted to two boxes is the model of `Model/GeomEdge.lean`: every theorem about `edgeRoute`
carries over -/
theorem edgeRouteE_boxes (dec : V2 → V2 → Bool) (i : EdgeIn) : edgeRouteE dec i.toE = edgeRoute dec i := by
  unfold edgeRouteE edgeRoute
  rw [edgePointsE_boxes]
  rfl

/-! ### `Edge.vector_snap` commutes with translation -/

theorem segProject_translate (a b p v : V2) : segProject (a + v) (b + v) (p + v) = segProject a b p + v := by
  unfold segProject
  simp only [V2.add_sub_add]
  exact V2.add_right_comm' _ _ _

/-- how the running best candidate of `Edge.vector_snap` is moved: the point moves, the distance stays -/
def mvBest (v : V2) (o : Option (V2 × Rat)) : Option (V2 × Rat) := o.map (fun qd => (qd.1 + v, qd.2))

theorem edgeSnapLoop_translate (p v : V2) (l : List V2) : ∀ best : Option (V2 × Rat),
    edgeSnapLoop (p + v) (mvBest v best) (l.map (· + v)) = (edgeSnapLoop p best l).map (mvBest v) := by
  induction l with
  | nil => intro best; rfl
  | cons a rest ih =>
    cases rest with
    | nil => intro best; rfl
    | cons b rest' =>
      intro best
      simp only [List.map_cons] at ih ⊢
      unfold edgeSnapLoop
      simp only [V2.add_right_cancel_iff, segProject_translate, V2.add_sub_add]
      by_cases hab : a = b
      · rw [if_pos hab, if_pos hab]; rfl
      · rw [if_neg hab, if_neg hab, ← ih]
        congr 1
        cases best with
        | none => rfl
        | some bd =>
          obtain ⟨bq, bd⟩ := bd
          simp only [mvBest, Option.map_some]
          split_ifs <;> rfl

/-- `Edge.vector_snap` commutes with translation (error outcomes included) -/
theorem edgeSnap_translate (pts : List V2) (p v : V2) :
    edgeSnap (pts.map (· + v)) (p + v) = (edgeSnap pts p).map (· + v) := by
  unfold edgeSnap
  have h := edgeSnapLoop_translate p v pts none
  simp only [mvBest, Option.map_none] at h
  rw [h]
  cases edgeSnapLoop p none pts with
  | error e => rfl
  | ok r =>
    cases r with
    | none => rfl
    | some qd => rfl

/-! ### `Edge.center` commutes with translation -/

theorem segLenAxis_translate (a b v : V2) : segLenAxis (a + v) (b + v) = segLenAxis a b := by
  unfold segLenAxis
  simp only [V2.add_x, V2.add_y, add_left_inj, add_sub_add_right_eq_sub]

theorem polyLenAxis_translate (pts : List V2) (v : V2) : polyLenAxis (pts.map (· + v)) = polyLenAxis pts := by
  induction pts with
  | nil => rfl
  | cons a rest ih =>
    cases rest with
    | nil => rfl
    | cons b rest' =>
      simp only [List.map_cons] at ih ⊢
      unfold polyLenAxis
      rw [ih, segLenAxis_translate]

theorem edgeCenterLoop_translate (half : Rat) (v : V2) (l : List V2) : ∀ (d : Rat) (prev : V2),
    edgeCenterLoop half d (prev + v) (l.map (· + v)) = (edgeCenterLoop half d prev l).map (· + v) := by
  induction l with
  | nil => intro d prev; rfl
  | cons nxt rest ih =>
    intro d prev
    simp only [List.map_cons, edgeCenterLoop, segLenAxis_translate, V2.add_sub_add]
    cases segLenAxis prev nxt with
    | none => rfl
    | some l =>
      simp only
      split_ifs
      · simp only [Option.map_some]; congr 1; exact V2.add_right_comm' _ _ _
      · exact ih _ _

/-- `Edge.center` commutes with translation (also the domain of the model does) -/
theorem edgeCenter_translate (pts : List V2) (v : V2) :
    edgeCenter (pts.map (· + v)) = (edgeCenter pts).map (· + v) := by
  cases pts with
  | nil => rfl
  | cons p0 rest =>
    have h := polyLenAxis_translate (p0 :: rest) v
    simp only [List.map_cons] at h ⊢
    simp only [edgeCenter, h]
    cases polyLenAxis (p0 :: rest) with
    | none => rfl
    | some len => exact edgeCenterLoop_translate _ v rest 0 p0

/-! ### translation of an end -/

@[simp] theorem End.valid_translate (e : End) (v : V2) : (e.translate v).valid = e.valid := by
  cases e <;> simp [End.translate, End.valid]

theorem End.bounds_translate (e : End) (v : V2) (h : e.valid = true) :
    (e.translate v).bounds = e.bounds.translate v := by
  cases e with
  | box b labels => exact boxBounds_translate b labels v
  | edge pts labels =>
    cases pts with
    | nil => simp [End.valid] at h
    | cons p0 rest => exact edgeBounds_translate labels p0 rest v

theorem End.center_translate (e : End) (v : V2) : (e.translate v).center = mv v e.center := by
  cases e with
  | box b labels => simp only [End.translate, End.center, Box.translate_center, mv_ok]
  | edge pts labels =>
    simp only [End.translate, End.center, edgeCenter_translate]
    cases edgeCenter pts <;> rfl

theorem End.snapManhattanAt_translate (e : End) (p s v : V2) :
    (e.translate v).snapManhattanAt (p + v) (s + v) = mv v (e.snapManhattanAt p s) := by
  cases e with
  | box b labels => exact vectorSnap_translate b p s v .manhattan
  | edge pts labels => exact edgeSnap_translate pts p v

theorem End.manhattanPoint_translate (e : End) (o v : V2) :
    (e.translate v).manhattanPoint (o + v) = mv v (e.manhattanPoint o) := by
  unfold End.manhattanPoint
  rw [End.center_translate]
  cases e.center with
  | error err => rfl
  | ok c => exact End.snapManhattanAt_translate e c o v

theorem routeObliqueE_translate (s t : End) (v : V2) :
    routeObliqueE (s.translate v) (t.translate v) = mvl v (routeObliqueE s t) := by
  unfold routeObliqueE
  rw [End.center_translate, End.center_translate]
  cases s.center <;> cases t.center <;> rfl

theorem routeManhattanE_translate (s t : End) (v : V2) :
    routeManhattanE (s.translate v) (t.translate v) = mvl v (routeManhattanE s t) := by
  unfold routeManhattanE
  rw [End.center_translate, End.center_translate]
  cases s.center with
  | error err => rfl
  | ok sc =>
    cases t.center with
    | error err => rfl
    | ok tc =>
      simp only [mv_ok, End.manhattanPoint_translate]
      cases s.manhattanPoint tc with
      | error e => rfl
      | ok sp =>
        cases t.manhattanPoint sc with
        | error e => rfl
        | ok tp =>
          simp only [mv_ok, V2.add_x, V2.add_y, add_sub_add_right_eq_sub]
          split_ifs
          · simp only [mvl_ok, List.map_cons, List.map_nil]
            congr 1
            refine List.cons_eq_cons.mpr ⟨rfl, List.cons_eq_cons.mpr ⟨V2.ext' (by simp; ring) (by simp), ?_⟩⟩
            exact List.cons_eq_cons.mpr ⟨V2.ext' (by simp; ring) (by simp), rfl⟩
          · simp only [mvl_ok, List.map_cons, List.map_nil]
            congr 1
            refine List.cons_eq_cons.mpr ⟨rfl, List.cons_eq_cons.mpr ⟨V2.ext' (by simp) (by simp; ring), ?_⟩⟩
            exact List.cons_eq_cons.mpr ⟨V2.ext' (by simp) (by simp; ring), rfl⟩

@[simp] theorem EdgeInE.translate_style (i : EdgeInE) (v : V2) : (i.translate v).style = i.style := rfl

theorem edgePointsE_translate (i : EdgeInE) (v : V2) : edgePointsE (i.translate v) = mvl v (edgePointsE i) := by
  unfold edgePointsE
  simp only [EdgeInE.translate, End.valid_translate]
  by_cases hv : i.src.valid = true ∧ i.tgt.valid = true
  · simp only [hv, and_self, not_true_eq_false, if_false, End.bounds_translate _ v hv.1, End.bounds_translate _ v hv.2,
      extractRelBendpoints_translate]
    by_cases h : extractRelBendpoints i.src.bounds i.anchor i.rel = []
    · simp only [h, List.map_nil, ne_eq, not_true_eq_false, if_false]
      cases i.style with
      | manhattan => exact routeManhattanE_translate _ _ v
      | tree => simp only [routeTree_translate, mvl_ok]
      | oblique => exact routeObliqueE_translate _ _ v
    · have h' : List.map (· + v) (extractRelBendpoints i.src.bounds i.anchor i.rel) ≠ [] := by simpa using h
      simp only [ne_eq, h, h', not_false_eq_true, if_true, mvl_ok]
  · simp only [hv, not_false_eq_true, if_true, mvl_error]

theorem snapEndE_translate (dec : V2 → V2 → Bool) (st : Style) (e : End) (pts : List V2) (v : V2) :
    snapEndE dec st (e.translate v) (pts.map (· + v)) = mvl v (snapEndE dec st e pts) := by
  cases e with
  | box b labels => exact snapEnd_translate dec st b pts v
  | edge ep labels => rfl

/-- `generic_factory` commutes with translation also when an end is another edge: moving both ends (boxes with their
labels, edges with their points and labels) by `v` moves every point by exactly `v` — all styles, stored bend points of
any length and default routes, for every angle decision `dec`, error outcomes included -/
theorem edgeRouteE_translate (dec : V2 → V2 → Bool) (i : EdgeInE) (v : V2) :
    edgeRouteE dec (i.translate v) = (edgeRouteE dec i).map (fun l => l.map (· + v)) := by
  show _ = mvl v (edgeRouteE dec i)
  unfold edgeRouteE
  rw [edgePointsE_translate]
  cases edgePointsE i with
  | error err => rfl
  | ok pts =>
    simp only [mvl_ok, EdgeInE.translate_style]
    have ht : (i.translate v).tgt = i.tgt.translate v := rfl
    have hs : (i.translate v).src = i.src.translate v := rfl
    rw [ht, hs, ← List.map_reverse, snapEndE_translate]
    cases snapEndE dec i.style i.tgt pts.reverse with
    | error err => rfl
    | ok r =>
      simp only [mvl_ok]
      rw [← List.map_reverse, snapEndE_translate]

/-! ### an end at an edge is left as stored / routed -/

/-- `snaptarget` (or its absence) only touches the outermost end: the far end of the list stays -/
theorem snapEndE_getLast (dec : V2 → V2 → Bool) (st : Style) (e : End) (pts l : List V2)
    (h : snapEndE dec st e pts = .ok l) : l.getLast? = pts.getLast? := by
  cases e with
  | edge ep labels =>
    simp only [snapEndE, Except.ok.injEq] at h
    rw [h]
  | box b labels =>
    simp only [snapEndE] at h
    match pts, h with
    | [], h => simp [snapEnd] at h
    | [_], h => simp [snapEnd] at h
    | e :: nx :: rest, h =>
      obtain ⟨q, pre, hl, _, _⟩ := snapEnd_shape dec st b e nx rest l h
      rw [hl, ← List.cons_append, List.getLast?_append_of_ne_nil _ (by simp), List.getLast?_cons_cons]

/-- an edge whose target is an edge ends exactly where its stored (or default-routed) points end -/
theorem edgeRouteE_edge_target_untouched (dec : V2 → V2 → Bool) (i : EdgeInE) (tp : List V2) (tl : List Box)
    (l pts : List V2) (ht : i.tgt = .edge tp tl) (h : edgeRouteE dec i = .ok l) (hp : edgePointsE i = .ok pts) :
    l.getLast? = pts.getLast? := by
  unfold edgeRouteE at h
  rw [hp, ht] at h
  simp only [snapEndE, List.reverse_reverse] at h
  exact snapEndE_getLast dec i.style i.src pts l h

/-- an edge whose source is an edge starts exactly where its stored (or default-routed) points start -/
theorem edgeRouteE_edge_source_untouched (dec : V2 → V2 → Bool) (i : EdgeInE) (sp : List V2) (sl : List Box)
    (l pts : List V2) (hs : i.src = .edge sp sl) (h : edgeRouteE dec i = .ok l) (hp : edgePointsE i = .ok pts) :
    l.head? = pts.head? := by
  unfold edgeRouteE at h
  rw [hp] at h
  simp only at h
  cases hr : snapEndE dec i.style i.tgt pts.reverse with
  | error err => rw [hr] at h; simp at h
  | ok r =>
    rw [hr, hs] at h
    simp only [snapEndE, Except.ok.injEq] at h
    have := snapEndE_getLast dec i.style i.tgt pts.reverse r hr
    rw [← h, List.head?_reverse, this, List.getLast?_reverse]

/-! ### the centre lies on the edge -/

private theorem rabs_nonneg (r : Rat) : 0 ≤ rabs r := by
  unfold rabs
  split_ifs with h
  · exact h
  · linarith [not_le.mp h]

theorem segLenAxis_nonneg (a b : V2) (l : Rat) (h : segLenAxis a b = some l) : 0 ≤ l := by
  unfold segLenAxis at h
  split_ifs at h <;> simp only [Option.some.injEq] at h <;> rw [← h] <;> exact rabs_nonneg _

theorem polyLenAxis_nonneg (pts : List V2) : ∀ len, polyLenAxis pts = some len → 0 ≤ len := by
  induction pts with
  | nil => intro len h; simp only [polyLenAxis, Option.some.injEq] at h; rw [← h]
  | cons a rest ih =>
    cases rest with
    | nil => intro len h; simp only [polyLenAxis, Option.some.injEq] at h; rw [← h]
    | cons b rest' =>
      intro len h
      unfold polyLenAxis at h
      cases h1 : segLenAxis a b with
      | none => rw [h1] at h; simp at h
      | some l =>
        cases h2 : polyLenAxis (b :: rest') with
        | none => rw [h1, h2] at h; simp at h
        | some r =>
          rw [h1, h2] at h
          simp only [Option.some.injEq] at h
          have := segLenAxis_nonneg a b l h1
          have := ih r h2
          linarith

theorem edgeCenterLoop_on (half : Rat) (rest : List V2) : ∀ (d : Rat) (prev c : V2), d ≤ half →
    edgeCenterLoop half d prev rest = some c → onPolyline (prev :: rest) c ∨ c ∈ prev :: rest := by
  induction rest with
  | nil =>
    intro d prev c _ h
    simp only [edgeCenterLoop, Option.some.injEq] at h
    right; rw [← h]; exact List.mem_singleton.mpr rfl
  | cons nxt rest ih =>
    intro d prev c hd h
    unfold edgeCenterLoop at h
    cases hl : segLenAxis prev nxt with
    | none => rw [hl] at h; simp at h
    | some l =>
      rw [hl] at h
      simp only at h
      have hl0 := segLenAxis_nonneg prev nxt l hl
      split_ifs at h with hlt
      · simp only [Option.some.injEq] at h
        left; left
        have hpos : 0 < l := by linarith
        refine ⟨(half - d) / l, div_nonneg (by linarith) hl0, ?_, h.symm⟩
        rw [div_le_one hpos]; linarith
      · rcases ih (d + l) nxt c (not_lt.mp hlt) h with h' | h'
        · left; right; exact h'
        · right; exact List.mem_cons_of_mem _ h'

/-- `Edge.center` lies on the edge (on one of its segments, or it is one of its points) -/
theorem edgeCenter_on_polyline (pts : List V2) (c : V2) (h : edgeCenter pts = some c) (h2 : 2 ≤ pts.length) :
    onPolyline pts c ∨ c ∈ pts := by
  cases pts with
  | nil => simp at h2
  | cons p0 rest =>
    simp only [edgeCenter] at h
    cases hlen : polyLenAxis (p0 :: rest) with
    | none => rw [hlen] at h; simp at h
    | some len =>
      rw [hlen] at h
      have := polyLenAxis_nonneg _ len hlen
      exact edgeCenterLoop_on (len / 2) rest 0 p0 c (by linarith) h

/-! ### instances -/

example : edgeCenter [⟨0, 0⟩, ⟨4, 0⟩, ⟨4, 6⟩] = some ⟨4, 1⟩ := by decide +kernel
example : edgeCenter [⟨0, 0⟩, ⟨3, 4⟩] = none := by decide +kernel

/-- box → edge, stored bend points, oblique: the source end is snapped onto the box, the last point is the stored one -/
example : edgeRouteE (fun _ _ => false)
    ⟨.box ⟨⟨0, 0⟩, ⟨10, 10⟩, false⟩ [], .edge [⟨30, 0⟩, ⟨30, 40⟩] [], ⟨1/2, 1/2⟩, [⟨0, 0⟩, ⟨20, 0⟩, ⟨25, 7⟩], .oblique⟩
    = .ok [⟨10, 5⟩, ⟨25, 5⟩, ⟨30, 12⟩] := by decide +kernel

/-- default Manhattan route box → edge: the target point is the centre of the other edge -/
example : edgeRouteE (fun _ _ => false)
    ⟨.box ⟨⟨0, 0⟩, ⟨10, 10⟩, false⟩ [], .edge [⟨30, 0⟩, ⟨30, 40⟩] [], ⟨1/2, 1/2⟩, [], .manhattan⟩
    = .ok [⟨10, 5⟩, ⟨20, 5⟩, ⟨20, 20⟩, ⟨30, 20⟩] := by decide +kernel

end Capella.Geom
