import Capella.Model.CoupledList

namespace Capella.CoupledList

theorem view_cons (c : Child) (cs : List Child) :
    view (c :: cs) = if c.2 then c.1 :: view cs else view cs := by
  unfold view
  simp only [List.filter_cons]
  split <;> simp

theorem view_append (a b : List Child) : view (a ++ b) = view a ++ view b := by
  simp [view, List.filter_append]

theorem others_append (a b : List Child) : others (a ++ b) = others a ++ others b := by
  simp [others, List.filter_append]

theorem view_mem_nids (kids : List Child) (n : Nat) (h : n ∈ view kids) : n ∈ kids.map (·.1) := by
  simp only [view, List.mem_map, List.mem_filter] at h ⊢
  obtain ⟨c, ⟨hc, _⟩, rfl⟩ := h
  exact ⟨c, hc, rfl⟩

theorem indexOf_cons_ne (c : Child) (cs : List Child) (n : Nat) (h : c.1 ≠ n) :
    indexOf (c :: cs) n = (indexOf cs n).map (· + 1) := by
  simp [indexOf, h]

/-- the k-th list member sits at a child position `p` such that cutting the children after `p`
cuts the view after `k` -/
theorem view_split (kids : List Child) (hn : (kids.map (·.1)).Nodup) (k : Nat) (n : Nat)
    (hk : (view kids)[k]? = some n) :
    ∃ p, indexOf kids n = some p ∧ view (kids.take (p + 1)) = (view kids).take (k + 1) ∧
      view (kids.drop (p + 1)) = (view kids).drop (k + 1) := by
  induction kids generalizing k with
  | nil => simp [view] at hk
  | cons c cs ih =>
    simp only [List.map_cons, List.nodup_cons] at hn
    obtain ⟨hc, hn'⟩ := hn
    rw [view_cons] at hk ⊢
    by_cases hm : c.2 = true
    · simp only [hm, if_true] at hk ⊢
      cases k with
      | zero =>
        simp only [List.getElem?_cons_zero, Option.some.injEq] at hk
        refine ⟨0, by simp [indexOf, hk], ?_, ?_⟩
        · simp [view_cons, hm, view]
        · simp
      | succ k' =>
        simp only [List.getElem?_cons_succ] at hk
        have hmem : n ∈ cs.map (·.1) := view_mem_nids cs n (List.mem_of_getElem? hk)
        have hne : c.1 ≠ n := fun h => hc (h ▸ hmem)
        obtain ⟨p, hp, h1, h2⟩ := ih hn' k' hk
        refine ⟨p + 1, by rw [indexOf_cons_ne c cs n hne, hp]; rfl, ?_, ?_⟩
        · simp only [List.take_succ_cons, view_cons, hm, if_true, h1]
        · simp only [List.drop_succ_cons, h2]
    · simp only [hm, if_false, Bool.false_eq_true] at hk ⊢
      have hmem : n ∈ cs.map (·.1) := view_mem_nids cs n (List.mem_of_getElem? hk)
      have hne : c.1 ≠ n := fun h => hc (h ▸ hmem)
      obtain ⟨p, hp, h1, h2⟩ := ih hn' k hk
      refine ⟨p + 1, by rw [indexOf_cons_ne c cs n hne, hp]; rfl, ?_, ?_⟩
      · simp only [List.take_succ_cons, view_cons, hm, if_false, Bool.false_eq_true, h1]
      · simp only [List.drop_succ_cons, h2]

theorem normIndex_le (n : Nat) (i : Int) : normIndex n i ≤ n := by
  unfold normIndex
  split
  · omega
  · exact Nat.min_le_right _ _

/-- the repaired child-index translation refines `list.insert` for every integer index -/
theorem insertChild_view' (kids : List Child) (hn : (kids.map (·.1)).Nodup) (i : Int) (x : Nat) :
    view (insertChild kids i x) = pyInsert (view kids) i x := by
  unfold insertChild pyInsert
  simp only
  generalize hk : normIndex (view kids).length i = k
  have hle : k ≤ (view kids).length := hk ▸ normIndex_le _ _
  by_cases h0 : k = 0
  · subst h0
    simp [view_append, view_cons, view]
  · simp only [h0, if_false]
    have hlt : k - 1 < (view kids).length := by omega
    have hget : (view kids)[k - 1]? = some (view kids)[k - 1] := List.getElem?_eq_getElem hlt
    rw [hget]
    simp only
    obtain ⟨p, hp, h1, h2⟩ := view_split kids hn (k - 1) _ hget
    rw [hp]
    simp only
    rw [view_append, view_cons]
    simp only [if_true]
    have hk1 : k - 1 + 1 = k := by omega
    rw [h1, h2, hk1]

theorem insertChild_others' (kids : List Child) (i : Int) (x : Nat) :
    others (insertChild kids i x) = others kids := by
  unfold insertChild
  simp only
  generalize (if normIndex (view kids).length i = 0 then 0 else
    match (view kids)[normIndex (view kids).length i - 1]? with
    | some prev => (match indexOf kids prev with | some p => p + 1 | none => kids.length)
    | none => kids.length) = pos
  rw [others_append]
  have : others ((x, true) :: kids.drop pos) = others (kids.drop pos) := by
    simp [others, List.filter_cons]
  rw [this, ← others_append, List.take_append_drop]

theorem deleteChild_view' (kids : List Child) (x : Nat) :
    view (deleteChild kids x) = (view kids).filter (· ≠ x) := by
  induction kids with
  | nil => rfl
  | cons c cs ih =>
    simp only [deleteChild, List.filter_cons] at ih ⊢
    by_cases hx : c.1 = x
    · simp only [hx, ne_eq, not_true_eq_false, decide_false, Bool.false_eq_true, if_false]
      rw [view_cons]
      by_cases hm : c.2 = true
      · simp only [hm, if_true, List.filter_cons, hx, ne_eq, not_true_eq_false, decide_false,
          Bool.false_eq_true, if_false]
        exact ih
      · simp only [hm, Bool.false_eq_true, if_false]; exact ih
    · simp only [ne_eq, hx, not_false_eq_true, decide_true, if_true]
      rw [view_cons, view_cons]
      by_cases hm : c.2 = true
      · simp only [hm, if_true, List.filter_cons, ne_eq, hx, not_false_eq_true, decide_true]
        rw [ih]
      · simp only [hm, Bool.false_eq_true, if_false]; exact ih

theorem deleteChild_others' (kids : List Child) (x : Nat) :
    others (deleteChild kids x) = (others kids).filter (· ≠ x) := by
  induction kids with
  | nil => rfl
  | cons c cs ih =>
    simp only [deleteChild, others, List.filter_cons] at ih ⊢
    by_cases hx : c.1 = x <;> by_cases hm : c.2 = true <;>
      simp_all [List.filter_cons]

theorem posOf_getElem (l : List Nat) (hn : l.Nodup) (j : Nat) (b : Nat) (h : l[j]? = some b) :
    posOf l b = some j := by
  induction l generalizing j with
  | nil => simp at h
  | cons a as ih =>
    simp only [List.nodup_cons] at hn
    cases j with
    | zero => simp only [List.getElem?_cons_zero, Option.some.injEq] at h; simp [posOf, h]
    | succ j' =>
      simp only [List.getElem?_cons_succ] at h
      have hmem : b ∈ as := List.mem_of_getElem? h
      have hne : a ≠ b := fun hab => hn.1 (hab ▸ hmem)
      simp [posOf, hne, ih hn.2 j' h]

/-- the repaired link-element insertion refines `list.insert` for every integer index -/
theorem linkInsert_spec' (targets : List Nat) (hn : targets.Nodup) (u : Bool) (i : Int) (x : Nat)
    (r : List Nat) (h : linkInsert targets u i x = .ok r) : r = pyInsert targets i x := by
  unfold linkInsert at h
  split at h
  · cases h
  · simp only at h
    unfold pyInsert normIndex
    simp only
    by_cases hi : i < 0
    · simp only [hi, if_true] at h ⊢
      cases hg : targets[(i + (targets.length : Int)).toNat]? with
      | none =>
        -- cannot happen for a negative index unless the list is empty
        rw [hg] at h
        simp only [Except.ok.injEq] at h
        have : targets.length ≤ (i + (targets.length : Int)).toNat := List.getElem?_eq_none_iff.mp hg
        have : targets.length = 0 := by omega
        have hnil : targets = [] := List.length_eq_zero_iff.mp this
        subst hnil
        simp at h ⊢
        exact h.symm
      | some b =>
        rw [hg] at h
        simp only at h
        rw [posOf_getElem targets hn _ b hg] at h
        simp only [Except.ok.injEq] at h
        exact h.symm
    · simp only [hi, if_false] at h ⊢
      cases hg : targets[i.toNat]? with
      | none =>
        rw [hg] at h
        simp only [Except.ok.injEq] at h
        have hle : targets.length ≤ i.toNat := List.getElem?_eq_none_iff.mp hg
        rw [Nat.min_eq_right hle]
        simp [← h]
      | some b =>
        rw [hg] at h
        simp only at h
        rw [posOf_getElem targets hn _ b hg] at h
        simp only [Except.ok.injEq] at h
        have hlt : i.toNat < targets.length := by
          apply Classical.byContradiction
          intro hc
          have := List.getElem?_eq_none_iff.mpr (Nat.le_of_not_lt hc)
          rw [this] at hg
          cases hg
        rw [Nat.min_eq_left (Nat.le_of_lt hlt)]
        exact h.symm

end Capella.CoupledList
