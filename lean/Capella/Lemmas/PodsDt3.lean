import Capella.Lemmas.PodsDt2

/-!
The concrete datetime codec satisfies the datetime laws of `Params.Lawful`: with `withDT` nothing about
`isoformat` / `fromisoformat` is assumed any more.
-/
namespace Capella.Pods

theorem DT.isoOk_iff (t : DT) : t.isoOk = true ↔ t.valid = true ∧ ¬ subSecondOffset t := by
  simp [DT.isoOk]

theorem subSecondOffset_truncMs (t : DT) : subSecondOffset (truncMs t) ↔ subSecondOffset t := by
  simp [subSecondOffset, truncMs]

theorem isoOk_truncMs (t : DT) (h : t.isoOk = true) : (truncMs t).isoOk = true := by
  rw [DT.isoOk_iff] at h ⊢
  exact ⟨truncMs_valid t h.1, fun hq => h.2 ((subSecondOffset_truncMs t).mp hq)⟩

theorem withDT_lawful (P : Params) (hP : P.Lawful) (localize : P.N → Option DT)
    (foreign : Str → Option (P.N ⊕ DT)) : (withDT P localize foreign).Lawful where
  float_rt := hP.float_rt
  float_ne_star := hP.float_ne_star
  float_xml := hP.float_xml
  zero_isZero := hP.zero_isZero
  ofInt_zero := hP.ofInt_zero
  iso_rt := by
    intro t h
    have h' := (DT.isoOk_iff t).mp h
    show isoParseP foreign (isoFormat t) = _
    simp only [isoParseP, isoParse_isoFormat t h'.1 h'.2]
    rfl
  trunc_ok := fun t h => isoOk_truncMs t h
  iso_shape := fun t => isoFormat_shape t
  iso_xml := fun t => isoFormat_xml t
  trunc_idem := fun t => truncMs_idem t
  repair_nil := hP.repair_nil

end Capella.Pods
