import Capella.Model.DeclTyped
import Capella.Lemmas.PodsG
import Capella.Lemmas.PodsDt3
import Capella.Lemmas.PodsToy
import Capella.Lemmas.DeclSync
/-!
Lemmas for typed find keys (`Model/DeclTyped.lean`): a find-key value of the attribute's own type that
is a fixed point of "assign, then read" is found again (`findsOwn_of_keyOk`, built on C07's round-trip
lemmas `codec_cases` / `get_set_of_codec`), and the lift to the sync machine of `Model/Decl.lean`
(`created_normalised_is_found`).
-/
namespace Capella.DeclTyped
open Capella.Pods

variable {P : Params} {C : Cmp P}

/-- Python's `==` holds between what C07 says is read back (`Same … (denote v)`) and the YAML value `v`,
for every `keyOk` value -/
theorem pyEq_of_same (hP : P.Lawful) (hC : C.Lawful) (d : Desc) (hd : d.wf = true) (v : PyVal P)
    (hk : keyOk P C d v = true) (w : PyVal P) (hs : Same P w (denote P d v)) :
    pyEq P C d w v = true := by
  obtain ⟨kind, attr, wr⟩ := d
  simp only [keyOk, Bool.and_eq_true] at hk
  obtain ⟨hv, hk⟩ := hk
  cases kind <;> cases v <;> simp at hk
  case string.str s =>
    rcases hs with rfl | ⟨x, y, _, h, _, _⟩
    · simp [denote, pyEq, numOf]
    · simp [denote] at h
  case html.str s =>
    rcases hs with rfl | ⟨x, y, _, h, _, _⟩
    · simp [denote, pyEq, numOf, hk]
    · simp [denote] at h
  case bool.bool b =>
    rcases hs with rfl | ⟨x, y, _, h, _, _⟩
    · simp [denote, pyEq, numOf, numEq]
    · simp [denote] at h
  case int.int i =>
    rcases hs with rfl | ⟨x, y, _, h, _, _⟩
    · simp [denote, pyEq, numOf, numEq]
    · simp [denote] at h
  case int.bool b =>
    rcases hs with rfl | ⟨x, y, _, h, _, _⟩
    · simp [denote, pyEq, numOf, numEq]
    · simp [denote] at h
  case float.float f =>
    rcases hs with rfl | ⟨x, y, rfl, h, hx, hy⟩
    · cases f <;> simp [valid] at hv <;> simp [denote, pyEq, numOf, numEq, hC.fEq_refl]
    · simp only [denote] at h
      have hf : f = .fin y := by injection h
      subst hf
      simp [pyEq, numOf, numEq, hC.fEq_zero x y hx hy]
  case float.int i =>
    simp only [exactInt] at hk
    cases hf : P.fOfInt i with
    | none => simp [hf] at hk
    | some x0 =>
      simp only [hf] at hk
      rcases hs with rfl | ⟨x, y, rfl, h, hx, hy⟩
      · simp [denote, hf, pyEq, numOf, numEq, hk]
      · simp only [denote, hf] at h
        have hxy : x0 = y := by injection h with h; injection h
        subst hxy
        have h0 := hP.ofInt_zero i x0 hf
        rw [hy] at h0
        have hi : i = 0 := by simpa using h0.symm
        subst hi
        simp [pyEq, numOf, numEq, hC.fEqInt_zero x hx]
  case float.bool b =>
    simp only [exactInt] at hk
    cases hf : P.fOfInt (if b then 1 else 0) with
    | none => simp [hf] at hk
    | some x0 =>
      simp only [hf] at hk
      rcases hs with rfl | ⟨x, y, rfl, h, hx, hy⟩
      · simp [denote, hf, pyEq, numOf, numEq, hk]
      · simp only [denote, hf] at h
        have hxy : x0 = y := by injection h with h; injection h
        subst hxy
        have h0 := hP.ofInt_zero _ x0 hf
        rw [hy] at h0
        have hi : (if b then (1 : Int) else 0) = 0 := by simpa using h0.symm
        simp [pyEq, numOf, numEq, hi, hC.fEqInt_zero x hx]
  case datetime.none =>
    rcases hs with rfl | ⟨x, y, _, h, _, _⟩
    · simp [denote, defaultVal, pyEq, numOf]
    · simp [denote, defaultVal] at h
  case datetime.aware t =>
    rcases hs with rfl | ⟨x, y, _, h, _, _⟩
    · simp [denote, pyEq, numOf, hk]
    · simp [denote] at h
  case enum.str e n s =>
    have hst : e.stringy = true := by
      simp only [Desc.wf, EnumCls.wf, Bool.and_eq_true] at hd
      exact hd.1.2
    rcases hs with rfl | ⟨x, y, _, h, _, _⟩
    · simp [denote, pyEq, numOf, memberEqStr, hst]
    · simp [denote] at h

/-- **A `keyOk` find value is found again**: whatever the other attributes of the element, if the
write is permitted, assigning `v` and reading the attribute gives a value Python's `==` equates with `v`. -/
theorem findsOwn_of_keyOk (hP : P.Lawful) (hC : C.Lawful) (d : Desc) (hd : d.wf = true) (a : Attrs)
    (hw : d.writable = true ∨ a.has d.attr = false) (v : PyVal P) (hk : keyOk P C d v = true) :
    findsOwn P C d a v = true := by
  have hv : valid P d v = true := by
    simp only [keyOk, Bool.and_eq_true] at hk
    exact hk.1
  obtain ⟨a', hset, w, hget, hs⟩ := get_set_of_codec d a v hw (codec_cases hP d hd v hv)
  simp only [findsOwn, roundTrip, hset, hget]
  exact pyEq_of_same hP hC d hd v hk w hs

theorem syncTwice_of_keyOk (hP : P.Lawful) (hC : C.Lawful) (d : Desc) (hd : d.wf = true) (a : Attrs)
    (hw : d.writable = true ∨ a.has d.attr = false) (v : PyVal P) (hk : keyOk P C d v = true) :
    syncTwice P C d a v = .found := by
  have h := findsOwn_of_keyOk hP hC d hd a hw v hk
  unfold findsOwn at h
  unfold syncTwice
  cases hr : roundTrip P d a v with
  | error e => simp [hr] at h
  | ok w => simp [hr] at h; simp [h]

/-! ## the values that are *not* found again -/

/-- YAML null as find value: the attribute is removed, reads as the kind's default, and
`default == None` is false for every kind but the timestamp (whose default is `None`) -/
theorem findsOwn_null (d : Desc) (hd : d.wf = true) (hk : d.kind ≠ .datetime) (a : Attrs)
    (hw : d.writable = true ∨ a.has d.attr = false) : findsOwn P C d a .none = false := by
  have hguard : (!d.writable && a.has d.attr) = false := by
    rcases hw with h | h <;> simp [h]
  have hset : Pods.set P d a .none = .ok (a.pop d.attr) := by simp [Pods.set, hguard, isNone]
  simp only [findsOwn, roundTrip, hset, Pods.get, Attrs.get_pop_same]
  obtain ⟨kind, attr, wr⟩ := d
  cases kind <;> simp [defaultVal, pyEq, numOf] at hk ⊢
  simp [Desc.wf] at hd

/-- an aware timestamp is found again exactly when Python equates it with its millisecond truncation -/
theorem findsOwn_aware (hP : P.Lawful) (d : Desc) (hd : d.wf = true) (hkind : d.kind = .datetime) (a : Attrs)
    (hw : d.writable = true ∨ a.has d.attr = false) (t : P.T) (hv : valid P d (.aware t) = true) :
    findsOwn P C d a (.aware t) = C.tEq (P.truncMs t) t := by
  obtain ⟨a', hset, w, hget, hs⟩ := get_set_of_codec d a _ hw (codec_cases hP d hd _ hv)
  obtain ⟨kind, attr, wr⟩ := d
  simp only at hkind
  subst hkind
  simp only [findsOwn, roundTrip, hset, hget]
  rcases hs with rfl | ⟨x, y, _, h, _, _⟩
  · simp [denote, pyEq, numOf]
  · simp [denote] at h

/-- a naive timestamp is never found again: it is stored as local time and read back aware, and
`aware == naive` is false -/
theorem findsOwn_naive (hP : P.Lawful) (d : Desc) (hd : d.wf = true) (hkind : d.kind = .datetime) (a : Attrs)
    (hw : d.writable = true ∨ a.has d.attr = false) (n : P.N) (hv : valid P d (.naive n) = true) :
    findsOwn P C d a (.naive n) = false := by
  obtain ⟨a', hset, w, hget, hs⟩ := get_set_of_codec d a _ hw (codec_cases hP d hd _ hv)
  obtain ⟨kind, attr, wr⟩ := d
  simp only at hkind
  subst hkind
  simp only [findsOwn, roundTrip, hset, hget]
  simp only [valid] at hv
  cases hl : P.localize n with
  | none => simp [hl] at hv
  | some t =>
    rcases hs with rfl | ⟨x, y, _, h, _, _⟩
    · simp [denote, hl, pyEq, numOf]
    · simp [denote, hl] at h

/-- an int for a float attribute is found again exactly when `float(i) == i` -/
theorem findsOwn_float_int (hP : P.Lawful) (hC : C.Lawful) (d : Desc) (hd : d.wf = true) (hkind : d.kind = .float)
    (a : Attrs) (hw : d.writable = true ∨ a.has d.attr = false) (i : Int) (x : P.F) (hx : P.fOfInt i = some x) :
    findsOwn P C d a (.int i) = C.fEqInt x i := by
  have hv : valid P d (.int i) = true := by
    obtain ⟨kind, attr, wr⟩ := d
    simp only at hkind
    subst hkind
    simp [valid, hx]
  obtain ⟨a', hset, w, hget, hs⟩ := get_set_of_codec d a _ hw (codec_cases hP d hd _ hv)
  obtain ⟨kind, attr, wr⟩ := d
  simp only at hkind
  subst hkind
  simp only [findsOwn, roundTrip, hset, hget]
  rcases hs with rfl | ⟨x', y, rfl, h, hx', hy⟩
  · simp [denote, hx, pyEq, numOf, numEq]
  · simp only [denote, hx] at h
    have hxy : x = y := by injection h with h; injection h
    subst hxy
    have h0 := hP.ofInt_zero i x hx
    rw [hy] at h0
    have hi : i = 0 := by simpa using h0.symm
    subst hi
    simp [pyEq, numOf, numEq, hC.fEqInt_zero x' hx', hC.fEqInt_zero x hy]

/-! ## concrete instances for the witnesses -/

/-- `==` for the toy parameter instances (floats are ints, three timestamps) -/
def toyC : Cmp Toy.params :=
  { fEq := fun (x y : Int) => decide (x = y), fEqInt := fun (x : Int) (i : Int) => decide (x = i),
    nEq := fun _ _ => true, tEq := fun (a b : Fin 3) => decide (a = b) }

theorem toyC_lawful : toyC.Lawful where
  fEq_refl := fun (x : Int) => by show decide (x = x) = true; simp
  fEq_zero := fun (x y : Int) (hx : (x == 0) = true) (hy : (y == 0) = true) => by
    show decide (x = y) = true
    simp only [beq_iff_eq] at hx hy
    simp [hx, hy]
  fEqInt_zero := fun (x : Int) (hx : (x == 0) = true) => by
    show decide (x = 0) = true
    simp only [beq_iff_eq] at hx
    simp [hx]
  tEq_refl := fun (t : Fin 3) => by show decide (t = t) = true; simp

def growingC : Cmp Toy.growing :=
  { fEq := fun (x y : Int) => decide (x = y), fEqInt := fun (x : Int) (i : Int) => decide (x = i),
    nEq := fun _ _ => true, tEq := fun (a b : Fin 3) => decide (a = b) }

theorem growingC_lawful : growingC.Lawful where
  fEq_refl := fun (x : Int) => by show decide (x = x) = true; simp
  fEq_zero := fun (x y : Int) (hx : (x == 0) = true) (hy : (y == 0) = true) => by
    show decide (x = y) = true
    simp only [beq_iff_eq] at hx hy
    simp [hx, hy]
  fEqInt_zero := fun (x : Int) (hx : (x == 0) = true) => by
    show decide (x = 0) = true
    simp only [beq_iff_eq] at hx
    simp [hx]
  tEq_refl := fun (t : Fin 3) => by show decide (t = t) = true; simp

/-- the toy instance with a `float(i)` that rounds: `float(9) = 8.0` (as `float(2**53 + 1) = 2.0**53`) -/
def rounding : Params := { Toy.params with fOfInt := fun i => if i = 9 then some (8 : Int) else some i }

theorem rounding_lawful : rounding.Lawful where
  float_rt := Toy.fParse_fRepr
  float_ne_star := Toy.ne_star
  float_xml := Toy.f_xml
  zero_isZero := rfl
  ofInt_zero := fun (i x : Int) (h : (if i = 9 then some (8 : Int) else some i) = some x) => by
    show (x == 0) = decide (i = 0)
    by_cases h9 : i = 9
    · subst h9
      have : (8 : Int) = x := by simpa using h
      subst this; rfl
    · simp only [h9, if_false] at h
      exact Toy.ofInt_zero i x h
  iso_rt := Toy.iso_rt
  iso_shape := Toy.iso_shape
  iso_xml := Toy.iso_xml
  trunc_idem := fun _ => rfl
  trunc_ok := fun _ _ => rfl
  repair_nil := rfl

def roundingC : Cmp rounding :=
  { fEq := fun (x y : Int) => decide (x = y), fEqInt := fun (x : Int) (i : Int) => decide (x = i),
    nEq := fun _ _ => true, tEq := fun (a b : Fin 3) => decide (a = b) }

theorem roundingC_lawful : roundingC.Lawful where
  fEq_refl := fun (x : Int) => by show decide (x = x) = true; simp
  fEq_zero := fun (x y : Int) (hx : (x == 0) = true) (hy : (y == 0) = true) => by
    show decide (x = y) = true
    simp only [beq_iff_eq] at hx hy
    simp [hx, hy]
  fEqInt_zero := fun (x : Int) (hx : (x == 0) = true) => by
    show decide (x = 0) = true
    simp only [beq_iff_eq] at hx
    simp [hx]
  tEq_refl := fun (t : Fin 3) => by show decide (t = t) = true; simp

/-- the concrete datetime instance over the toy floats -/
def dtP : Params := withDT Toy.params (fun _ => none) (fun _ => none)
def dtC : Cmp dtP :=
  dtCmp Toy.params (fun _ => none) (fun _ => none) (fun (x y : Int) => decide (x = y)) (fun (x : Int) (i : Int) => decide (x = i)) (fun _ _ => true)

theorem dtP_lawful : dtP.Lawful := withDT_lawful Toy.params Toy.lawful _ _

/-- whole milliseconds ⇒ Python equates the value with its truncation (same fields, same offset) -/
theorem dt_tEq_trunc (t : DT) (h : t.us % 1000 = 0) : dtC.tEq (truncMs t) t = true := by
  have : t.us / 1000 * 1000 = t.us := by omega
  simp [dtC, dtCmp, truncMs, this]

/-- … and only then -/
theorem dt_tEq_trunc_iff (t : DT) : dtC.tEq (truncMs t) t = decide (t.us % 1000 = 0) := by
  by_cases h : t.us % 1000 = 0
  · simp [dt_tEq_trunc t h, h]
  · have hne : t.us / 1000 * 1000 ≠ t.us := by omega
    have hi : DT.instant (truncMs t) ≠ DT.instant t := by
      simp only [DT.instant, truncMs]
      intro hh
      apply hne
      omega
    have hd : dtC.tEq (truncMs t) t = decide (DT.instant (truncMs t) = DT.instant t) := rfl
    rw [hd]
    simp [hi, h]

/-! ## lift to the sync machine -/

open Capella.Decl in
/-- the values as stored: every `(key, value)` with the key's normalisation applied -/
def normKVs (nrm : Capella.Decl.Str → RVal → RVal) (rs : List (Capella.Decl.Str × RVal)) :
    List (Capella.Decl.Str × RVal) := rs.map (fun kv => (kv.1, nrm kv.1 kv.2))

open Capella.Decl in
theorem lookup_normKVs (nrm : Capella.Decl.Str → RVal → RVal) (rs : List (Capella.Decl.Str × RVal))
    (k : Capella.Decl.Str) : (normKVs nrm rs).lookup k = (rs.lookup k).map (nrm k) := by
  induction rs with
  | nil => rfl
  | cons kv t ih =>
    obtain ⟨k', v⟩ := kv
    simp only [normKVs, List.map_cons, List.lookup_cons] at ih ⊢
    by_cases h : k = k'
    · subst h; simp
    · have : (k == k') = false := by simpa using h
      simp only [this]
      exact ih

open Capella.Decl in
theorem keysKept_norm (nrm : Capella.Decl.Str → RVal → RVal) (rk rs : List (Capella.Decl.Str × RVal))
    (hfix : ∀ kv ∈ rk, nrm kv.1 kv.2 = kv.2) (hk : KeysKept rk rs) : KeysKept rk (normKVs nrm rs) := by
  intro kv hkv
  have h1 := hk kv hkv
  have : (normKVs nrm rs).reverse = normKVs nrm rs.reverse := by simp [normKVs]
  rw [this, lookup_normKVs, h1]
  simp [hfix kv hkv]

open Capella.Decl in
/-- typed `created_is_found`: the object is created from the *normalised* values (what the descriptors
store and return), the second run compares with the find values as written -/
theorem created_normalised_is_found (nrm : Capella.Decl.Str → RVal → RVal) (g : Graph) (par : Id)
    (attr : Capella.Decl.Str) (nid : Id) (cls : Capella.Decl.Str)
    (rs rk : List (Capella.Decl.Str × RVal)) (ty : Option Capella.Decl.Str)
    (hfresh : g.clsOf nid = none) (hnm : nid ∉ g.members par attr) (hcls : ∀ t, ty = some t → cls = t)
    (hnone : g.findAmong (g.members par attr) ty rk = .ok none) (hk : KeysKept rk rs)
    (hfix : ∀ kv ∈ rk, nrm kv.1 kv.2 = kv.2) :
    (g.create par attr nid cls (normKVs nrm rs)).findAmong
        ((g.create par attr nid cls (normKVs nrm rs)).members par attr) ty rk = .ok (some nid) :=
  created_is_found g par attr nid cls (normKVs nrm rs) rk ty hfresh hnm hcls hnone
    (keysKept_norm nrm rk rs hfix hk)

end Capella.DeclTyped
