import Capella.Lemmas.DeclOrder
/-!
Lemmas about the `decl.apply` machine, part 5: success of one order of a clean create/extend document
implies success of every other order (`success_transfers`).
-/
namespace Capella.Decl

def pm0 : Str → Option Id := fun _ => none
/-- placeholder class function (the weights used here ignore classes) -/
def scN : Str → Option Str → Str := fun a _ => a

/-- the clean fragment: create/extend only; parents and reference entries are `!promise` or `!uuid` of an
object of the initial graph; attribute values are plain strings, `!promise` or such `!uuid`s (no `!find`);
no plain-string children -/
def CleanDoc (g0 : Graph) (doc : List Instr) : Prop := ∀ i ∈ doc, i.all (cleanHead g0) (cleanQ g0)

mutual
theorem Item.all_imp {P P' : Item → Prop} (h : ∀ x, P x → P' x) : ∀ x : Item, x.all P → x.all P'
  | .obj nid pid ty scal kids, hx => ⟨h _ hx.1, kidsAll_imp h kids hx.2⟩
  | .ref v, hx => h _ hx
  | .str n s, hx => h _ hx
theorem kidsAll_imp {P P' : Item → Prop} (h : ∀ x, P x → P' x) : ∀ kids : List (Str × List Item),
    kidsAll P kids → kidsAll P' kids
  | [], _ => trivial
  | (_, l) :: t, hk => ⟨itemsAll_imp h l hk.1, kidsAll_imp h t hk.2⟩
theorem itemsAll_imp {P P' : Item → Prop} (h : ∀ x, P x → P' x) : ∀ l : List Item, itemsAll P l → itemsAll P' l
  | [], _ => trivial
  | x :: t, hl => ⟨Item.all_imp h x hl.1, itemsAll_imp h t hl.2⟩
end

theorem cleanHead_ce (g0 : Graph) (x : Item) (h : cleanHead g0 x) : ceHead False pm0 x := by
  cases x with
  | obj nid pid ty scal kids => intro hf; exact hf.elim
  | ref v =>
    cases v with
    | atom a => exact ⟨a, rfl⟩
    | find _ _ => exact h.elim
  | str _ _ => trivial

theorem clean_ce {g0 : Graph} {doc : List Instr} (h : CleanDoc g0 doc) : DocCE False pm0 doc := by
  intro i hi
  obtain ⟨hq, h1, h2, h3, h4, h5⟩ := h i hi
  refine ⟨?_, kidsAll_imp (cleanHead_ce g0) _ h1, kidsAll_imp (cleanHead_ce g0) _ h2, h3, h4, h5⟩
  have : i.parent.cleanRef g0 := hq
  cases hp : i.parent with
  | atom a => exact ⟨a, hp⟩
  | find _ _ => rw [hp] at this; exact this.elim

theorem keysUse_pos {p : Str} : ∀ keys, keysUsesP keys p → 1 ≤ keysUse (ind (.use p)) keys
  | [], ⟨k, hk⟩ => by simp at hk
  | (k', a) :: t, ⟨k, hk⟩ => by
    simp only [List.mem_cons, Prod.mk.injEq] at hk
    rcases hk with ⟨_, rfl⟩ | hk
    · simp [keysUse, atomUse, ind]
    · have := keysUse_pos t ⟨k, hk⟩
      simp only [keysUse]; omega

theorem valUse_pos {p : Str} {v : Val} (h : v.usesP p) : 1 ≤ valUse (ind (.use p)) v := by
  cases v with
  | atom a =>
    cases a with
    | promise q => cases h; simp [valUse, atomUse, ind]
    | str _ => exact h.elim
    | uuid _ => exact h.elim
    | obj _ => exact h.elim
  | find ty keys => exact keysUse_pos keys h

theorem scalUse_pos {p : Str} : ∀ scal, scalUsesP scal p → 1 ≤ scalUse (ind (.use p)) scal
  | [], ⟨kv, hm, _⟩ => by simp at hm
  | (k, v) :: t, ⟨kv, hm, hu⟩ => by
    simp only [List.mem_cons] at hm
    rcases hm with rfl | hm
    · have : 1 ≤ valUse (ind (.use p)) v := valUse_pos hu
      simp only [scalUse]; omega
    · have := scalUse_pos t ⟨kv, hm, hu⟩
      simp only [scalUse]; omega

theorem headUses_effN {sc pm} {a : Action} {p : Str} (h : a.headUses p) : 1 ≤ a.effN sc pm (ind (.use p)) := by
  cases a with
  | whole i =>
    have := valUse_pos (show i.parent.usesP p from h)
    simp only [Action.effN, Instr.effN]; omega
  | piece par w =>
    cases w with
    | item attr x =>
      cases x with
      | obj nid pid ty scal kids =>
        have := scalUse_pos scal h
        simp only [Action.effN, Item.effN]; omega
      | ref v =>
        have := valUse_pos (show v.usesP p from h)
        simp only [Action.effN, Item.effN]; omega
      | str _ _ => exact h.elim
    | setE _ _ => exact h.elim
    | sync _ _ => exact h.elim
    | resync _ _ _ _ _ => exact h.elim

theorem quiet_use_unbound {ps : Promises} {p : Str} (h : ps.lookup p = none) : Quiet (ind (.use p)) ps := by
  intro q i hq
  simp only [ind]
  split
  · rename_i he; cases he; rw [h] at hq; cases hq
  · rfl

theorem sumBy_mem_le {α : Type} (f : α → Nat) : ∀ (l : List α) (a : α), a ∈ l → f a ≤ sumBy f l
  | [], _, h => by simp at h
  | x :: t, a, h => by
    simp only [List.mem_cons] at h
    rcases h with rfl | h
    · simp only [sumBy]; omega
    · have := sumBy_mem_le f t a h
      simp only [sumBy]; omega

theorem exists_of_sumBy_pos {α : Type} (f : α → Nat) : ∀ l : List α, 1 ≤ sumBy f l → ∃ a ∈ l, 1 ≤ f a
  | [], h => by simp [sumBy] at h
  | x :: t, h => by
    simp only [sumBy] at h
    by_cases hx : 1 ≤ f x
    · exact ⟨x, by simp, hx⟩
    · obtain ⟨a, ha, hf⟩ := exists_of_sumBy_pos f t (by omega)
      exact ⟨a, List.mem_cons_of_mem _ ha, hf⟩

/-- what is known at every state of a run over another order of the document -/
structure YInv (mm : MM) (g0 : Graph) (c : (Eff → Nat) → Nat) (r : Str → Nat) (s : State) : Prop where
  inv : Inv mm scN False pm0 c s
  clean : s.all (cleanHead g0) (cleanQ g0)
  gext : GExt g0 s.g
  dk : DefKey s
  acy : s.all (acyHead r) (acyQ r)

theorem YInv.step {mm g0 c r s s'} (h : YInv mm g0 c r s) (hs : step mm s = .ok (some s')) : YInv mm g0 c r s' := by
  obtain ⟨k, hk⟩ := step_ceStep h.inv.ce hs
  exact ⟨(step_ce h.inv hs).1, hk.all_fwd h.clean, hk.gext h.gext, hk.defKey h.dk, hk.all_fwd h.acy⟩

/-- **nothing is left over**: when a run over an acyclic document in which every used promise is declared
comes to rest, no entry is still deferred -/
theorem no_leftover {mm g0 c r s} (h : YInv mm g0 c r s) (ha : s.agenda = []) (hq : s.queue = [])
    (huse : ∀ p, 1 ≤ c (ind (.use p)) → 1 ≤ c (keyInd p)) : s.deferred = [] := by
  have claim : ∀ n, ∀ e ∈ s.deferred, r e.1 < n → False := by
    intro n
    induction n with
    | zero => intro e _ hlt; omega
    | succ n ih =>
      intro e he hlt
      obtain ⟨hn, hu⟩ := h.dk e he
      -- the promise `e` waits for is used, hence declared …
      have h1 := h.inv.cons (ind (.use e.1)) (Or.inr (by intro o a m; simp [ind]))
        (Or.inr (by intro i c c'; simp [ind])) (quiet_use_unbound hn)
      have hpe : 1 ≤ s.pendN scN pm0 (ind (.use e.1)) := by
        have := headUses_effN (sc := scN) (pm := pm0) hu
        have hm : sumBy (fun e' : Str × Action => e'.2.effN scN pm0 (ind (.use e.1))) s.deferred ≥
            e.2.effN scN pm0 (ind (.use e.1)) := by
          exact sumBy_mem_le (fun e' : Str × Action => e'.2.effN scN pm0 (ind (.use e.1))) s.deferred e he
        simp only [State.pendN]; omega
      have hdecl : 1 ≤ c (keyInd e.1) := huse e.1 (by omega)
      -- … by something that is still pending, i.e. deferred
      have h2 := h.inv.cons (keyInd e.1) (Or.inr (by intro o a m; rfl)) (Or.inr (by intro i c c'; rfl))
        (by intro p i _; rfl)
      rw [doneN_key, List.count_eq_zero.mpr (fun hm => by
        have := lookup_none_not_mem _ _ hn; exact this hm)] at h2
      have hsum : 1 ≤ sumBy (fun e' : Str × Action => e'.2.effN scN pm0 (keyInd e.1)) s.deferred := by
        simp only [State.pendN, ha, hq, sumBy] at h2; omega
      obtain ⟨e', he', hf'⟩ := exists_of_sumBy_pos _ _ hsum
      have hpid : 0 < e'.2.pidN (indS e.1) := by
        have := Action.effN_key_le scN pm0 e.1 e'.2
        omega
      have hlt' := Action.acy (h.acy.2.2 e' he') (h.dk e' he').2 hpid
      exact ih e' he' (by omega)
  cases hd : s.deferred with
  | nil => rfl
  | cons e t => exact (claim (r e.1 + 1) e (by simp [hd]) (by omega)).elim

theorem resN_key_nil (g : Graph) (q : Str) : resN (keyInd q) g [] = 0 := by
  have h2 : (fun e : Id × Str × Id => keyInd q (.edge e.1 e.2.1 e.2.2)) = fun _ => 0 := rfl
  have h3 : (fun e : Id × Str => keyInd q (.obj e.1 e.2)) = fun _ => 0 := rfl
  simp only [resN, sumBy, h2, h3, sumBy_zero]

theorem resN_use_nil (g : Graph) (p : Str) : resN (ind (.use p)) g [] = 0 := by
  have h2 : (fun e : Id × Str × Id => ind (.use p) (.edge e.1 e.2.1 e.2.2)) = fun _ => 0 := by funext e; simp [ind]
  have h3 : (fun e : Id × Str => ind (.use p) (.obj e.1 e.2)) = fun _ => 0 := by funext e; simp [ind]
  simp only [resN, sumBy, h2, h3, sumBy_zero]

/-- what a successful order knows about the document: every promise id is declared at most once, every
promise used is declared, and the document is acyclic with respect to the order of the bindings -/
theorem success_facts {mm g doc g' ps'} (hdoc : DocCE False pm0 doc) (h : apply mm g doc = .ok (g', ps')) :
    (∀ q, docN scN pm0 (keyInd q) doc ≤ 1) ∧
    (∀ p, 1 ≤ docN scN pm0 (ind (.use p)) doc → 1 ≤ docN scN pm0 (keyInd p) doc) ∧
    (∀ i ∈ doc, i.all (acyHead (rank ps')) (acyQ (rank ps'))) := by
  obtain ⟨n, sf, hr, _, hps, hd⟩ := apply_ok_run h
  have hnd := apply_ok_nodup h
  have hkey : ∀ q, (ps'.map Prod.fst).count q = docN scN pm0 (keyInd q) doc := by
    intro q
    have := apply_ce (sc := scN) hdoc h (keyInd q) (Or.inr (by intro o a m; rfl)) (Or.inr (by intro i c c'; rfl))
      (by intro p i _; rfl)
    rw [resN_key_nil] at this
    have h2 : (fun e : Id × Str × Id => keyInd q (.edge e.1 e.2.1 e.2.2)) = fun _ => 0 := rfl
    have h3 : (fun e : Id × Str => keyInd q (.obj e.1 e.2)) = fun _ => 0 := rfl
    simp only [resN, h2, h3, sumBy_zero, sumBy_key] at this
    omega
  have h1 : ∀ q, docN scN pm0 (keyInd q) doc ≤ 1 := by
    intro q
    rw [← hkey q]
    exact List.nodup_iff_count.mp hnd q
  refine ⟨h1, ?_, ?_⟩
  · intro p hu
    rw [← hkey p]
    by_cases hm : p ∈ ps'.map Prod.fst
    · exact List.count_pos_iff.mpr hm
    · exfalso
      have := apply_ce (sc := scN) hdoc h (ind (.use p)) (Or.inr (by intro o a m; simp [ind]))
        (Or.inr (by intro i c c'; simp [ind])) (quiet_use_unbound (lookup_none_of_not_mem hm))
      rw [resN_use_nil] at this
      have h2 : (fun e : Id × Str × Id => ind (.use p) (.edge e.1 e.2.1 e.2.2)) = fun _ => 0 := by funext e; simp [ind]
      have h3 : (fun e : Id × Str => ind (.use p) (.obj e.1 e.2)) = fun _ => 0 := by funext e; simp [ind]
      have h4 : (fun e : Str × Id => ind (.use p) (.bind e.1 e.2)) = fun _ => 0 := by funext e; simp [ind]
      simp only [resN, h2, h3, h4, sumBy_zero] at this
      omega
  · have hinv := init_inv (mm := mm) (sc := scN) g doc hdoc
    have hc1 : ∀ q, (fun F => resN F g [] + docN scN pm0 F doc) (keyInd q) ≤ 1 := by
      intro q; simp only [resN_key_nil]; have := h1 q; omega
    have := acy_back hc1 n (init g doc) sf hinv hr hd
    rw [hps] at this
    intro i hi
    exact this.2.1 (.whole i) (by simp only [init, List.mem_map]; exact ⟨i, hi, rfl⟩)

/-- **success transfers between orders**: if one order of a clean create/extend document can be applied,
so can every other order -/
theorem success_transfers {mm : MM} {g : Graph} {doc doc' : List Instr} {r : Graph × Promises}
    (ht : mm.Total) (hdoc : CleanDoc g doc) (hp : doc.Perm doc') (h : apply mm g doc = .ok r) :
    ∃ r', apply mm g doc' = .ok r' := by
  obtain ⟨g1, ps1⟩ := r
  obtain ⟨hk1, huse, hacy⟩ := success_facts (clean_ce hdoc) h
  have hdoc' : CleanDoc g doc' := fun i hi => hdoc i (hp.mem_iff.mpr hi)
  let c : (Eff → Nat) → Nat := fun F => resN F g [] + docN scN pm0 F doc'
  have hck : ∀ q, c (keyInd q) = docN scN pm0 (keyInd q) doc := by
    intro q; simp only [c, resN_key_nil, docN_perm hp]; omega
  have hcu : ∀ p, c (ind (.use p)) = docN scN pm0 (ind (.use p)) doc := by
    intro p; simp only [c, resN_use_nil, docN_perm hp]; omega
  have hy0 : YInv mm g c (rank ps1) (init g doc') :=
    ⟨init_inv g doc' (clean_ce hdoc'), init_all g doc' hdoc', fun _ h => h, by intro e he; simp [init] at he,
      init_all g doc' (fun i hi => hacy i (hp.mem_iff.mpr hi))⟩
  have hrun := run_measure_some mm ((init g doc').measure + 1) (init g doc') (by omega)
  cases hr : run mm ((init g doc').measure + 1) (init g doc') with
  | none => simp [hr] at hrun
  | some ry =>
    have hkeep := run_keeps (P := YInv mm g c (rank ps1)) (fun s s' hs hst => hs.step hst) _ _ ry hy0 hr
    cases ry with
    | error e =>
      exfalso
      obtain ⟨se, hse, herr⟩ := hkeep
      obtain ⟨b, par, attr, nid, p, ty, scal, kids, j, hpop, hl, _⟩ :=
        clean_step_error ht hse.inv.ce hse.clean hse.gext herr
      have h2 := hse.inv.cons (keyInd p) (Or.inr (by intro o a m; rfl)) (Or.inr (by intro i c c'; rfl))
        (by intro p i _; rfl)
      rw [doneN_key] at h2
      have hdone : 0 < (se.ps.map Prod.fst).count p := List.count_pos_iff.mpr (lookup_mem_keys hl)
      have hpend := (hpop.pendN (sc := scN) (pm := pm0) (F := keyInd p)).1
      rw [Item.effN_key] at hpend
      have : 1 ≤ (Item.obj nid (some p) ty scal kids).pidN (indS p) := by simp [Item.pidN, optN, indS]
      have := hk1 p
      rw [hck p] at h2
      omega
    | ok sf =>
      obtain ⟨hsf, hnone⟩ := hkeep
      obtain ⟨ha, hq⟩ := step_none hnone
      have hd := no_leftover hsf ha hq (by intro p hp'; rw [hck p]; rw [hcu p] at hp'; exact huse p hp')
      exact ⟨(sf.g, sf.ps), by simp [apply, hr, Except.bind, finish, hd]⟩

end Capella.Decl

namespace Capella.Decl

/-- **the only ways a clean document fails**: a promise id declared twice (then the document declares it
at least twice), or entries left deferred under promises that the document uses and that are not bound -/
theorem clean_apply_error {mm : MM} {g : Graph} {doc : List Instr} {e : Err} (ht : mm.Total)
    (hdoc : CleanDoc g doc) (h : apply mm g doc = .error e) :
    (∃ p, e = .dupPromise p ∧ 2 ≤ docN scN pm0 (keyInd p) doc) ∨
    (∃ l, e = .unfulfilled l ∧ l ≠ [] ∧ ∀ p ∈ l, 1 ≤ docN scN pm0 (ind (.use p)) doc) := by
  let c : (Eff → Nat) → Nat := fun F => resN F g [] + docN scN pm0 F doc
  let P : State → Prop := fun s => Inv mm scN False pm0 c s ∧ s.all (cleanHead g) (cleanQ g) ∧ GExt g s.g ∧ DefKey s
  have hP : ∀ s s', P s → step mm s = .ok (some s') → P s' := by
    intro s s' hs hst
    obtain ⟨k, hk⟩ := step_ceStep hs.1.ce hst
    exact ⟨(step_ce hs.1 hst).1, hk.all_fwd hs.2.1, hk.gext hs.2.2.1, hk.defKey hs.2.2.2⟩
  have h0 : P (init g doc) :=
    ⟨init_inv g doc (clean_ce hdoc), init_all g doc hdoc, fun _ h => h, by intro e he; simp [init] at he⟩
  have hrun := run_measure_some mm ((init g doc).measure + 1) (init g doc) (by omega)
  cases hr : run mm ((init g doc).measure + 1) (init g doc) with
  | none => simp [hr] at hrun
  | some ry =>
    have hkeep := run_keeps (P := P) hP _ _ ry h0 hr
    cases ry with
    | error e' =>
      left
      simp only [apply, hr, Except.bind] at h
      cases h
      obtain ⟨se, hse, herr⟩ := hkeep
      obtain ⟨b, par, attr, nid, p, ty, scal, kids, j, hpop, hl, rfl⟩ :=
        clean_step_error ht hse.1.ce hse.2.1 hse.2.2.1 herr
      refine ⟨p, rfl, ?_⟩
      have h2 := hse.1.cons (keyInd p) (Or.inr (by intro o a m; rfl)) (Or.inr (by intro i c c'; rfl))
        (by intro p i _; rfl)
      rw [doneN_key] at h2
      have hdone : 0 < (se.ps.map Prod.fst).count p := List.count_pos_iff.mpr (lookup_mem_keys hl)
      have hpend := (hpop.pendN (sc := scN) (pm := pm0) (F := keyInd p)).1
      rw [Item.effN_key] at hpend
      have : 1 ≤ (Item.obj nid (some p) ty scal kids).pidN (indS p) := by simp [Item.pidN, optN, indS]
      simp only [c, resN_key_nil] at h2
      omega
    | ok sf =>
      right
      obtain ⟨hsf, hnone⟩ := hkeep
      simp only [apply, hr, Except.bind, finish] at h
      split at h
      · cases h
      · rename_i hne
        cases h
        refine ⟨_, rfl, ?_, ?_⟩
        · intro hnil
          cases hd : sf.deferred with
          | nil => exact hne hd
          | cons x t => simp [hd, List.eraseDups_cons] at hnil
        · intro p hp
          have hp' : p ∈ sf.deferred.map (·.1) := by
            have := List.mem_eraseDups.mp hp
            exact this
          obtain ⟨e', he', rfl⟩ := List.mem_map.mp hp'
          obtain ⟨hn, hu⟩ := hsf.2.2.2 e' he'
          have h1 := hsf.1.cons (ind (.use e'.1)) (Or.inr (by intro o a m; simp [ind]))
            (Or.inr (by intro i c c'; simp [ind])) (quiet_use_unbound hn)
          have hpe : 1 ≤ sf.pendN scN pm0 (ind (.use e'.1)) := by
            have := headUses_effN (sc := scN) (pm := pm0) hu
            have hm := sumBy_mem_le (fun e'' : Str × Action => e''.2.effN scN pm0 (ind (.use e'.1))) sf.deferred e' he'
            simp only [State.pendN]; omega
          simp only [c, resN_use_nil] at h1
          omega

end Capella.Decl
