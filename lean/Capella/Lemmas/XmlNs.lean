import Capella.Model.XmlSpec
/-! Namespaces: `_unmap_namespace` and the reader's prefix resolution are inverse on well-formed
names (layer 3 of the round trip; C01/C02). -/
namespace Capella.Xml

/-! ### association lists -/

theorem distinctStrs_iff {l : List Str} : distinctStrs l = true ↔ l.Nodup := by
  induction l with
  | nil => simp [distinctStrs]
  | cons x xs ih =>
    simp only [distinctStrs, Bool.and_eq_true, Bool.not_eq_true', List.contains_eq_mem,
      decide_eq_false_iff_not, ih, List.nodup_cons]

theorem nodup_of_map_nodup {l : List (Str × Str)} {f : Str × Str → Str} (h : (l.map f).Nodup) : l.Nodup := by
  induction l with
  | nil => exact List.nodup_nil
  | cons x xs ih =>
    simp only [List.map_cons, List.nodup_cons, List.mem_map, not_exists, not_and] at h ⊢
    exact ⟨fun hx => h.1 x hx rfl, ih h.2⟩

theorem mem_keysOf {m : List (Str × Str)} {p : Str} : p ∈ keysOf m ↔ ∃ u, (p, u) ∈ m := by
  simp [keysOf]

theorem lookupNs_none {m : List (Str × Str)} {p : Str} (h : p ∉ keysOf m) : lookupNs p m = none := by
  induction m with
  | nil => rfl
  | cons x xs ih =>
    obtain ⟨k, v⟩ := x
    simp only [keysOf, List.map_cons, List.mem_cons, not_or] at h
    simp only [lookupNs]
    rw [if_neg (fun hk => h.1 hk.symm)]
    exact ih (by simpa [keysOf] using h.2)

theorem lookupNs_mem {m : List (Str × Str)} {p u : Str} (hd : (keysOf m).Nodup) (h : (p, u) ∈ m) :
    lookupNs p m = some u := by
  induction m with
  | nil => simp at h
  | cons x xs ih =>
    obtain ⟨k, v⟩ := x
    simp only [keysOf, List.map_cons, List.nodup_cons] at hd
    simp only [lookupNs]
    rcases List.mem_cons.mp h with h | h
    · simp only [Prod.mk.injEq] at h; simp [h.1, h.2]
    · have hk : k ≠ p := by
        rintro rfl
        exact hd.1 (by simpa [keysOf] using mem_keysOf.mpr ⟨u, h⟩)
      rw [if_neg hk]
      exact ih hd.2 h

/-- `revLookup` returns a pair of the map with a non-empty prefix -/
theorem revLookup_mem {m : List (Str × Str)} {u p : Str} (h : revLookup m u = some p) :
    (p, u) ∈ m ∧ p ≠ [] := by
  unfold revLookup at h
  have gen : ∀ (acc : Option Str) (l : List (Str × Str)),
      List.foldl (fun acc q => if (q.2 == u && q.1 != []) = true then some q.1 else acc) acc l = some p →
      (acc = some p) ∨ ((p, u) ∈ l ∧ p ≠ []) := by
    intro acc l
    induction l generalizing acc with
    | nil => intro h; exact Or.inl h
    | cons x xs ih =>
      intro h
      simp only [List.foldl] at h
      rcases ih _ h with h' | h'
      · split at h'
        · rename_i hc
          simp only [Bool.and_eq_true, beq_iff_eq, bne_iff_ne, ne_eq] at hc
          simp only [Option.some.injEq] at h'
          refine Or.inr ⟨?_, by rw [← h']; exact hc.2⟩
          rw [← h', ← hc.1]; exact List.mem_cons_self
        · exact Or.inl h'
      · exact Or.inr ⟨List.mem_cons_of_mem _ h'.1, h'.2⟩
  rcases gen none m h with h' | h'
  · simp at h'
  · exact h'

/-! ### names -/

theorem splitBrace_eq {s a b : Str} (h : splitBrace s = some (a, b)) : s = a ++ '}' :: b ∧ '}' ∉ a := by
  induction s generalizing a b with
  | nil => simp [splitBrace] at h
  | cons c rest ih =>
    simp only [splitBrace] at h
    split at h
    · rename_i hc
      simp only [Option.some.injEq, Prod.mk.injEq] at h
      subst hc; rw [← h.1, ← h.2]; simp
    · rename_i hc
      split at h
      · rename_i a' b' heq
        simp only [Option.some.injEq, Prod.mk.injEq] at h
        obtain ⟨h1, h2⟩ := ih heq
        rw [← h.1, ← h.2, h1]
        refine ⟨by simp, ?_⟩
        simp only [List.mem_cons, not_or]
        exact ⟨fun hx => hc hx.symm, h2⟩
      · simp at h

/-- a name with a namespace part is exactly `{ns}local` -/
theorem splitName_ns {s : Str} (h : (splitName s).1 ≠ []) :
    s = clark (splitName s).1 (splitName s).2 := by
  unfold splitName at h ⊢
  split at h
  · rename_i rest
    split at h
    · rename_i ns loc heq
      split at h
      · simp at h
      · rename_i hloc
        simp only [hloc, ↓reduceIte, clark]
        rw [(splitBrace_eq heq).1]
        simp
    · simp at h
  · simp at h

theorem nameOk_all {s : Str} (h : nameOk s = true) :
    s ≠ [] ∧ s.all nameChar = true ∧ ':' ∉ s ∧ '{' ∉ s ∧ nameStartOk s = true := by
  simp only [nameOk, Bool.and_eq_true, List.all_eq_true, bne_iff_ne, ne_eq] at h
  refine ⟨?_, ?_, ?_, ?_, h.1⟩
  · rintro rfl; simp [nameStartOk] at h
  · simp only [List.all_eq_true]; intro c hc; exact (h.2 c hc).1.1.1
  · intro hc; exact (h.2 _ hc).1.1.2 rfl
  · intro hc; exact (h.2 _ hc).1.2 rfl

theorem splitColon_none {s : Str} (h : ':' ∉ s) : splitColon s = none := by
  induction s with
  | nil => rfl
  | cons c rest ih =>
    have hc : c ≠ ':' := fun hc => h (by simp [hc])
    simp [splitColon, hc, ih (fun hm => h (List.mem_cons_of_mem _ hm))]

theorem splitColon_prefix {p : Str} (loc : Str) (h : ':' ∉ p) :
    splitColon (p ++ ':' :: loc) = some (p, loc) := by
  induction p with
  | nil => simp [splitColon]
  | cons c rest ih =>
    have hc : c ≠ ':' := fun hc => h (by simp [hc])
    simp [splitColon, hc, ih (fun hm => h (List.mem_cons_of_mem _ hm))]

/-! ### the namespace map invariant -/

structure NsInv (m : List (Str × Str)) : Prop where
  nodup : (keysOf m).Nodup
  names : ∀ p ∈ keysOf m, nameOk p = true ∧ p ≠ xmlnsStr
  uris : ∀ x ∈ m, uriOk x.2 = true
  vals : (m.map (·.2)).Nodup

/-- the reader's map holds the same bindings as the writer's (in another order) -/
def SameMap (m' m : List (Str × Str)) : Prop := ∀ x, x ∈ m' ↔ x ∈ m

theorem NsInv.nil : NsInv [] := ⟨by simp [keysOf], by simp [keysOf], by simp, by simp⟩

theorem NsInv.no_empty_key {m : List (Str × Str)} (h : NsInv m) : lookupNs [] m = none := by
  apply lookupNs_none
  intro hm
  have := (h.names [] hm).1
  simp [nameOk, nameStartOk] at this

theorem unmap_eq (m : List (Str × Str)) (name : Str) :
    unmap m name = if (splitName name).1 = [] then (splitName name).2
      else (revLookup m (splitName name).1).getD ['?'] ++ ':' :: (splitName name).2 := by
  unfold unmap
  rfl

/-- **`resolve ∘ unmap = id` on names** -/
theorem resolveName_unmap {m m' : List (Str × Str)} (hinv' : NsInv m') (hs : SameMap m' m)
    (isAttr : Bool) (name : Str) (hq : qnameOk m isAttr name = true) (dflt : Bool) :
    resolveName m' dflt (unmap m name) = some name := by
  simp only [qnameOk, Bool.and_eq_true] at hq
  obtain ⟨hloc, hns⟩ := hq
  obtain ⟨_, _, hcolon, _, _⟩ := nameOk_all hloc
  rw [unmap_eq]
  split at hns
  · rename_i hnil
    simp only [Bool.and_eq_true, beq_iff_eq] at hns
    simp only [hnil, ↓reduceIte]
    unfold resolveName
    rw [splitColon_none hcolon]
    simp only [hinv'.no_empty_key]
    rw [← hns.1]
    cases dflt <;> rfl
  · rename_i hnil
    cases hr : revLookup m (splitName name).1 with
    | none => simp [hr] at hns
    | some q =>
      obtain ⟨hmem, _⟩ := revLookup_mem hr
      have hmem' := (hs _).mpr hmem
      have hq : nameOk q = true := (hinv'.names q (mem_keysOf.mpr ⟨_, hmem'⟩)).1
      simp only [hnil, ↓reduceIte, Option.getD_some]
      unfold resolveName
      rw [splitColon_prefix _ (nameOk_all hq).2.2.1]
      simp only [lookupNs_mem hinv'.nodup hmem']
      rw [← splitName_ns hnil]

/-! ### which attributes are namespace declarations -/

theorem nsDeclOf_xmlns (p u : Str) : nsDeclOf ("xmlns:".toList ++ p, u) = some (p, u) := rfl

theorem nsDeclOf_some {s v p u : Str} (h : nsDeclOf (s, v) = some (p, u)) :
    (s = xmlnsStr ++ ':' :: p ∨ s = xmlnsStr) := by
  unfold nsDeclOf at h
  split at h
  · rename_i p' heq
    simp only [Option.some.injEq, Prod.mk.injEq] at h
    simp only at heq
    left; rw [heq, ← h.1]; rfl
  · rename_i heq
    simp only at heq
    right; rw [heq]; rfl
  · simp at h

theorem colon_split_inj {a a' b b' : Str} (ha : ':' ∉ a) (ha' : ':' ∉ a')
    (h : a ++ ':' :: b = a' ++ ':' :: b') : a = a' ∧ b = b' := by
  have h1 := splitColon_prefix b ha
  rw [h, splitColon_prefix b' ha'] at h1
  simp only [Option.some.injEq, Prod.mk.injEq] at h1
  exact ⟨h1.1.symm, h1.2.symm⟩

theorem xmlns_no_colon : ':' ∉ xmlnsStr := by decide

/-- an unmapped attribute name is never mistaken for a namespace declaration -/
theorem nsDeclOf_unmap {m : List (Str × Str)} (hinv : NsInv m) (name v : Str)
    (hq : qnameOk m true name = true) : nsDeclOf (unmap m name, v) = none := by
  cases hd : nsDeclOf (unmap m name, v) with
  | none => rfl
  | some pu =>
    exfalso
    obtain ⟨p, u⟩ := pu
    simp only [qnameOk, Bool.and_eq_true] at hq
    obtain ⟨hloc, hns⟩ := hq
    obtain ⟨_, _, hcolon, _, _⟩ := nameOk_all hloc
    rw [unmap_eq] at hd
    split at hns
    · rename_i hnil
      simp only [Bool.true_and, Bool.and_eq_true, beq_iff_eq, Bool.not_eq_true', beq_eq_false_iff_ne] at hns
      simp only [hnil, ↓reduceIte] at hd
      rcases nsDeclOf_some hd with h | h
      · exact hcolon (by rw [h]; simp)
      · exact hns.2 (by rw [hns.1]; exact h)
    · rename_i hnil
      cases hr : revLookup m (splitName name).1 with
      | none => simp [hr] at hns
      | some q =>
        obtain ⟨hmem, _⟩ := revLookup_mem hr
        obtain ⟨hq, hqx⟩ := hinv.names q (mem_keysOf.mpr ⟨_, hmem⟩)
        simp only [hnil, ↓reduceIte, hr, Option.getD_some] at hd
        rcases nsDeclOf_some hd with h | h
        · exact hqx (colon_split_inj (nameOk_all hq).2.2.1 xmlns_no_colon h).1
        · exact xmlns_no_colon (by rw [← h]; simp)

/-! ### sorting and scoping -/

theorem insertNs_perm (x : Str × Str) (l : List (Str × Str)) : (insertNs x l).Perm (x :: l) := by
  induction l with
  | nil => simp [insertNs]
  | cons y ys ih =>
    simp only [insertNs]
    split
    · exact List.Perm.refl _
    · exact (List.Perm.cons y ih).trans (List.Perm.swap x y ys)

theorem sortNs_perm (l : List (Str × Str)) : (sortNs l).Perm l := by
  induction l with
  | nil => simp [sortNs]
  | cons x xs ih => exact (insertNs_perm x _).trans (List.Perm.cons x ih)

theorem mem_sortNs {l : List (Str × Str)} {x : Str × Str} : x ∈ sortNs l ↔ x ∈ l :=
  (sortNs_perm l).mem_iff

theorem mem_canonNs {pk : List Str} {m : List (Str × Str)} {x : Str × Str} :
    x ∈ canonNs pk m ↔ x ∈ m ∧ x.1 ∉ pk := by
  simp [canonNs, mem_sortNs]

theorem canonNs_keys_nodup {pk : List Str} {m : List (Str × Str)} (h : (keysOf m).Nodup) :
    (keysOf (canonNs pk m)).Nodup := by
  have h1 : (keysOf (sortNs m)).Nodup := ((sortNs_perm m).map _).nodup_iff.mpr h
  exact List.Nodup.sublist (List.Sublist.map _ List.filter_sublist) h1

theorem scope_disjoint {parent own : List (Str × Str)} (h : ∀ o ∈ own, o.1 ∉ keysOf parent) :
    scope parent own = own ++ parent := by
  unfold scope
  congr 1
  apply List.filter_eq_self.mpr
  intro p hp
  simp only [Bool.not_eq_true', List.any_eq_false, beq_iff_eq]
  intro o ho heq
  exact h o ho (by rw [heq]; exact mem_keysOf.mpr ⟨p.2, hp⟩)

theorem keysOf_append (a b : List (Str × Str)) : keysOf (a ++ b) = keysOf a ++ keysOf b := by
  simp [keysOf]

theorem SameMap.keys {m' m : List (Str × Str)} (h : SameMap m' m) (p : Str) :
    p ∈ keysOf m' ↔ p ∈ keysOf m := by
  simp only [mem_keysOf]
  constructor
  · rintro ⟨u, hu⟩; exact ⟨u, (h _).mp hu⟩
  · rintro ⟨u, hu⟩; exact ⟨u, (h _).mpr hu⟩

/-- what `nsdeclsOk` says, as propositions -/
theorem nsdeclsOk_facts {pns nsd : List (Str × Str)} (h : nsdeclsOk pns nsd = true) :
    (∀ d ∈ nsd, nameOk d.1 = true ∧ d.1 ≠ xmlnsStr ∧ uriOk d.2 = true ∧ d.1 ∉ keysOf pns) ∧
    (keysOf nsd).Nodup ∧ ((scope pns nsd).map (·.2)).Nodup := by
  simp only [nsdeclsOk, Bool.and_eq_true, List.all_eq_true, bne_iff_ne, ne_eq, Bool.not_eq_true',
    List.contains_eq_mem, decide_eq_false_iff_not] at h
  refine ⟨fun d hd => ?_, distinctStrs_iff.mp h.1.2, distinctStrs_iff.mp h.2⟩
  have := h.1.1 d hd
  exact ⟨this.1.1.1, this.1.1.2, this.1.2, this.2⟩

/-- the writer's map of an element, given its parent's -/
theorem NsInv.scope {pns nsd : List (Str × Str)} (hinv : NsInv pns) (h : nsdeclsOk pns nsd = true) :
    scope pns nsd = nsd ++ pns ∧ NsInv (nsd ++ pns) := by
  obtain ⟨hd, hnd, hvals⟩ := nsdeclsOk_facts h
  have hscope := scope_disjoint (fun o ho => (hd o ho).2.2.2)
  rw [hscope] at hvals
  refine ⟨hscope, ?_, ?_, ?_, hvals⟩
  · rw [keysOf_append]
    refine List.nodup_append.mpr ⟨hnd, hinv.nodup, ?_⟩
    intro a ha b hb hab
    obtain ⟨u, hu⟩ := mem_keysOf.mp ha
    exact (hd _ hu).2.2.2 (by rw [hab]; exact hb)
  · intro p hp
    rw [keysOf_append] at hp
    rcases List.mem_append.mp hp with hp | hp
    · obtain ⟨u, hu⟩ := mem_keysOf.mp hp
      exact ⟨(hd _ hu).1, (hd _ hu).2.1⟩
    · exact hinv.names p hp
  · intro x hx
    rcases List.mem_append.mp hx with hx | hx
    · exact (hd x hx).2.2.1
    · exact hinv.uris x hx

/-- the reader's map of the same element: the declarations it finds are `canonNs`, and its map
holds the same bindings -/
theorem reader_scope {pns pns' nsd : List (Str × Str)} (hinv : NsInv pns) (hinv' : NsInv pns')
    (hs : SameMap pns' pns) (h : nsdeclsOk pns nsd = true) (isRoot : Bool)
    (hroot : isRoot = true → pns = []) :
    let nsd' := canonNs (if isRoot then [] else keysOf pns) (nsd ++ pns)
    scope pns' nsd' = nsd' ++ pns' ∧ NsInv (nsd' ++ pns') ∧ SameMap (nsd' ++ pns') (nsd ++ pns) := by
  intro nsd'
  obtain ⟨hd, hnd, _⟩ := nsdeclsOk_facts h
  obtain ⟨_, hinvW⟩ := hinv.scope h
  have hmem : ∀ x, x ∈ nsd' ↔ x ∈ nsd := by
    intro x
    simp only [nsd', mem_canonNs, List.mem_append]
    constructor
    · rintro ⟨hx | hx, hk⟩
      · exact hx
      · exfalso
        cases isRoot with
        | true => rw [hroot rfl] at hx; simp at hx
        | false => exact hk (by simpa using mem_keysOf.mpr ⟨x.2, hx⟩)
    · intro hx
      refine ⟨Or.inl hx, ?_⟩
      cases isRoot with
      | true => simp
      | false => simpa using (hd x hx).2.2.2
  have hdisj : ∀ o ∈ nsd', o.1 ∉ keysOf pns' := by
    intro o ho hk
    exact (hd o ((hmem o).mp ho)).2.2.2 ((hs.keys _).mp hk)
  have hsame : SameMap (nsd' ++ pns') (nsd ++ pns) := by
    intro x
    simp only [List.mem_append, hmem x, hs x]
  have hkeys : (keysOf (nsd' ++ pns')).Nodup := by
    rw [keysOf_append]
    refine List.nodup_append.mpr ⟨canonNs_keys_nodup hinvW.nodup, hinv'.nodup, ?_⟩
    intro a ha b hb hab
    obtain ⟨u, hu⟩ := mem_keysOf.mp ha
    exact hdisj _ hu (by rw [hab]; exact hb)
  have hperm : (nsd' ++ pns').Perm (nsd ++ pns) :=
    (List.perm_ext_iff_of_nodup (nodup_of_map_nodup hkeys) (nodup_of_map_nodup hinvW.nodup)).mpr hsame
  refine ⟨scope_disjoint hdisj, ⟨hkeys, ?_, fun x hx => hinvW.uris x ((hsame x).mp hx), ?_⟩, hsame⟩
  · intro p hp
    exact hinvW.names p ((hsame.keys p).mp hp)
  · exact (hperm.map _).nodup_iff.mpr hinvW.vals

/-! ### attributes -/

theorem lookupAttr_mem {a v : Str} {attrs : List (Str × Str)} (h : lookupAttr a attrs = some v) :
    (a, v) ∈ attrs := by
  induction attrs with
  | nil => simp [lookupAttr] at h
  | cons x xs ih =>
    obtain ⟨k, w⟩ := x
    simp only [lookupAttr] at h
    split at h
    · rename_i hk; simp only [Option.some.injEq] at h; rw [hk, h]; exact List.mem_cons_self
    · exact List.mem_cons_of_mem _ (ih h)

theorem resolveAttrs_append (m : List (Str × Str)) (X Y : List (Str × Str)) :
    resolveAttrs m (X ++ Y) =
      (resolveAttrs m X).bind fun x => (resolveAttrs m Y).map (x ++ ·) := by
  induction X with
  | nil => cases h : resolveAttrs m Y <;> simp [resolveAttrs, h]
  | cons kv rest ih =>
    simp only [List.cons_append, resolveAttrs]
    cases nsDeclOf kv with
    | some d => simpa using ih
    | none =>
      simp only [ih]
      cases resolveName m false kv.1 <;> cases resolveAttrs m rest <;> cases resolveAttrs m Y <;> simp

theorem resolveAttrs_unmapped {m m' : List (Str × Str)} (hinv : NsInv m) (hinv' : NsInv m')
    (hs : SameMap m' m) (L : List (Str × Str)) (hL : ∀ kv ∈ L, qnameOk m true kv.1 = true) :
    resolveAttrs m' (L.map fun kv => (unmap m kv.1, kv.2)) = some L := by
  induction L with
  | nil => simp [resolveAttrs]
  | cons kv rest ih =>
    have hq := hL kv List.mem_cons_self
    simp only [List.map_cons, resolveAttrs, nsDeclOf_unmap hinv kv.1 kv.2 hq,
      resolveName_unmap hinv' hs true kv.1 hq false, ih (fun x hx => hL x (List.mem_cons_of_mem _ hx))]

theorem resolveAttrs_xmlns (m' : List (Str × Str)) (D : List (Str × Str)) :
    resolveAttrs m' (D.map fun p => ("xmlns:".toList ++ p.1, p.2)) = some [] := by
  induction D with
  | nil => simp [resolveAttrs]
  | cons d ds ih => simp only [List.map_cons, resolveAttrs, nsDeclOf_xmlns, ih]

theorem nsDecls_unmapped {m : List (Str × Str)} (hinv : NsInv m) (L : List (Str × Str))
    (hL : ∀ kv ∈ L, qnameOk m true kv.1 = true) :
    (L.map fun kv => (unmap m kv.1, kv.2)).filterMap nsDeclOf = [] := by
  induction L with
  | nil => rfl
  | cons kv rest ih =>
    simp only [List.map_cons, List.filterMap_cons, nsDeclOf_unmap hinv kv.1 kv.2 (hL kv List.mem_cons_self),
      ih (fun x hx => hL x (List.mem_cons_of_mem _ hx))]

theorem nsDecls_xmlns (D : List (Str × Str)) :
    (D.map fun p => ("xmlns:".toList ++ p.1, p.2)).filterMap nsDeclOf = D := by
  induction D with
  | nil => rfl
  | cons d ds ih => simp only [List.map_cons, List.filterMap_cons, nsDeclOf_xmlns, ih]

/-- the canonical first part of the attribute list -/
def specialsOf (attrs : List (Str × Str)) : List (Str × Str) :=
  specialAttrs.filterMap fun a => (lookupAttr a attrs).map fun v => (a, v)

theorem mem_specialsOf {attrs : List (Str × Str)} {kv : Str × Str} (h : kv ∈ specialsOf attrs) :
    kv ∈ attrs := by
  simp only [specialsOf, List.mem_filterMap, Option.map_eq_some_iff] at h
  obtain ⟨a, _, v, hv, rfl⟩ := h
  exact lookupAttr_mem hv

theorem rawAttrs_eq (pk : List Str) (m : List (Str × Str)) (attrs : List (Str × Str)) :
    rawAttrs pk m attrs =
      (specialsOf attrs).map (fun kv => (unmap m kv.1, kv.2))
      ++ (canonNs pk m).map (fun p => ("xmlns:".toList ++ p.1, p.2))
      ++ ((attrs.filter fun kv => !specialAttrs.contains kv.1).map fun kv => (unmap m kv.1, kv.2)) := by
  unfold rawAttrs specialsOf
  congr 2
  rw [List.map_filterMap]
  congr 1
  funext a
  cases lookupAttr a attrs <;> rfl

theorem canonAttrs_eq (attrs : List (Str × Str)) :
    canonAttrs attrs = specialsOf attrs ++ attrs.filter fun kv => !specialAttrs.contains kv.1 := rfl

/-- the reader finds exactly the written namespace declarations … -/
theorem rawAttrs_nsDecls {m : List (Str × Str)} (hinv : NsInv m) (pk : List Str) (attrs : List (Str × Str))
    (hA : ∀ kv ∈ attrs, qnameOk m true kv.1 = true) :
    (rawAttrs pk m attrs).filterMap nsDeclOf = canonNs pk m := by
  rw [rawAttrs_eq, List.filterMap_append, List.filterMap_append,
    nsDecls_unmapped hinv _ (fun kv h => hA kv (mem_specialsOf h)), nsDecls_xmlns,
    nsDecls_unmapped hinv _ (fun kv h => hA kv (List.mem_filter.mp h).1)]
  simp

/-- … and resolves the attributes to the canonical attribute list -/
theorem resolveAttrs_rawAttrs {m m' : List (Str × Str)} (hinv : NsInv m) (hinv' : NsInv m')
    (hs : SameMap m' m) (pk : List Str) (attrs : List (Str × Str))
    (hA : ∀ kv ∈ attrs, qnameOk m true kv.1 = true) :
    resolveAttrs m' (rawAttrs pk m attrs) = some (canonAttrs attrs) := by
  rw [rawAttrs_eq, resolveAttrs_append, resolveAttrs_append,
    resolveAttrs_unmapped hinv hinv' hs _ (fun kv h => hA kv (mem_specialsOf h)), resolveAttrs_xmlns,
    resolveAttrs_unmapped hinv hinv' hs _ (fun kv h => hA kv (List.mem_filter.mp h).1)]
  simp [canonAttrs_eq]

/-! ### trees -/

theorem wfElem_facts {pns : List (Str × Str)} {tag nsd attrs text tail kids}
    (h : wfElem pns (.mk tag nsd attrs text tail kids) = true) :
    nsdeclsOk pns nsd = true ∧ qnameOk (scope pns nsd) false tag = true ∧
    (∀ kv ∈ attrs, qnameOk (scope pns nsd) true kv.1 = true ∧ kv.2.all xmlChar = true) ∧
    (keysOf attrs).Nodup ∧ wfKids (scope pns nsd) kids = true := by
  simp only [wfElem, Bool.and_eq_true] at h
  obtain ⟨⟨⟨⟨⟨⟨h1, h2⟩, h3⟩, h4⟩, _⟩, _⟩, h7⟩ := h
  refine ⟨h1, h2, ?_, distinctStrs_iff.mp h4, h7⟩
  intro kv hkv
  have := List.all_eq_true.mp h3 kv hkv
  simpa using this

mutual
/-- **raw tree → resolved tree**: the reader's namespace resolution inverts `rawOf` -/
theorem resolve_rawOf (pns pns' : List (Str × Str)) (hinv : NsInv pns) (hinv' : NsInv pns')
    (hs : SameMap pns' pns) (isRoot : Bool) (hroot : isRoot = true → pns = []) (e : Elem)
    (hwf : wfElem pns e = true) :
    resolve pns' (rawOf pns isRoot e) = some (canonElem pns isRoot e) := by
  match e, hwf with
  | .mk tag nsd attrs text tail kids, hwf =>
    obtain ⟨hns, htag, hattrs, _, hkids⟩ := wfElem_facts hwf
    obtain ⟨hsc, hinvW⟩ := hinv.scope hns
    obtain ⟨hsc', hinvR, hsame⟩ := reader_scope hinv hinv' hs hns isRoot hroot
    rw [hsc] at htag hattrs hkids
    unfold rawOf canonElem resolve
    simp only [hsc]
    have hpk : (if isRoot = true then [] else List.map (fun x => x.1) pns) = (if isRoot = true then [] else keysOf pns) := rfl
    rw [rawAttrs_nsDecls hinvW _ attrs (fun kv h => (hattrs kv h).1), hsc',
      resolveName_unmap hinvR hsame false tag htag true,
      resolveAttrs_rawAttrs hinvW hinvR hsame _ attrs (fun kv h => (hattrs kv h).1),
      resolve_rawKids (nsd ++ pns) _ hinvW hinvR hsame kids hkids]
    simp only [hpk]

theorem resolve_rawKids (m m' : List (Str × Str)) (hinv : NsInv m) (hinv' : NsInv m')
    (hs : SameMap m' m) (ks : List Elem) (hwf : wfKids m ks = true) :
    resolveKids m' (rawKids m ks) = some (canonKids m ks) := by
  match ks, hwf with
  | [], _ => simp [rawKids, canonKids, resolveKids]
  | k :: ks', hwf =>
    simp only [wfKids, Bool.and_eq_true] at hwf
    simp only [rawKids, canonKids, resolveKids,
      resolve_rawOf m m' hinv hinv' hs false (by simp) k hwf.1,
      resolve_rawKids m m' hinv hinv' hs ks' hwf.2]
end

/-- documents: `resolve` of the raw root is the canonical root -/
theorem resolve_rawDoc (d : Doc) (hwf : wfDoc d = true) :
    resolve [] (rawDoc d).root = some (canonElem [] true d.root) := by
  simp only [wfDoc, Bool.and_eq_true] at hwf
  exact resolve_rawOf [] [] NsInv.nil NsInv.nil (fun _ => Iff.rfl) true (fun _ => rfl) d.root hwf.1.1

end Capella.Xml
