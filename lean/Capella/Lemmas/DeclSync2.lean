import Capella.Lemmas.DeclSync
import Capella.Lemmas.DeclOrder
/-!
Lemmas about sync-only documents, part 2: a run over a settled document does not raise — the only
exception a settled state can meet is "promise_id defined twice", and that needs an id that is declared
twice.
-/
namespace Capella.Decl

/-- every promise id is bound or still to be declared at most once, altogether -/
def PidInv (s : State) : Prop := ∀ q, (s.ps.map Prod.fst).count q + s.pidN (indS q) ≤ 1

theorem setHolds_pidN (f : Str → Nat) (g : Graph) (c : Id) : ∀ set, setHolds g c set → setPidN f set = 0
  | [], _ => rfl
  | (k, .scalar (.atom (.str v))) :: t, h => by
    simp only [setHolds] at h
    simp [setPidN, SetVal.pidN, setHolds_pidN f g c t h.2]
  | (_, .scalar (.atom (.promise _))) :: _, h => by simp [setHolds] at h
  | (_, .scalar (.atom (.uuid _))) :: _, h => by simp [setHolds] at h
  | (_, .scalar (.atom (.obj _))) :: _, h => by simp [setHolds] at h
  | (_, .scalar (.find _ _)) :: _, h => by simp [setHolds] at h
  | (_, .list _) :: _, h => by simp [setHolds] at h

/-- a transition of a settled state keeps the count of bound + pending declarations of every id -/
theorem settled_step_pid {mm g s s'} (hs : SettledState g s) (hp : PidInv s) (h : step mm s = .ok (some s')) :
    PidInv s' := by
  obtain ⟨hg, hd, hag, hq⟩ := hs
  intro q
  have hp := hp q
  unfold step at h
  split at h
  · rename_i w rest hagd
    simp only [Except.map] at h
    split at h
    · cases h
    · rename_i s2 hw
      simp at h; subst h
      have hw0 : SettledWork g w := hag w (by simp [hagd])
      cases w with
      | syncs par attr l =>
        cases l with
        | nil => cases hw; simpa [State.pidN, hagd, sumBy, Work.pidN, sosPidN] using hp
        | cons so l =>
          obtain ⟨nid, nid2, ty, keys, pid, set, ext, sync⟩ := so
          simp only [SettledWork, SettledSos, SettledSo] at hw0
          obtain ⟨⟨hext, hnp, c, rk, hfind, hset, hsync⟩, hl⟩ := hw0
          simp only [stepWork, stepSync] at hw
          rw [resolveFind_noPromise _ _ _ _ _ hnp, hg, hfind] at hw
          simp only at hw
          cases hw
          have hsp := setHolds_pidN (indS q) g c set hset
          cases pid <;>
            simp [State.pidN, hagd, sumBy, sumBy_append, Work.pidN, sosPidN, SyncObj.pidN, optN, hext, kidsPidN,
              syncPidN_eq, hsp] at hp ⊢ <;> omega
      | sets c l =>
        cases l with
        | nil => cases hw; simpa [State.pidN, hagd, sumBy, Work.pidN, setPidN] using hp
        | cons kv l =>
          obtain ⟨k, v⟩ := kv
          cases v with
          | list _ => simp [SettledWork, setHolds] at hw0
          | scalar v =>
            cases v with
            | find _ _ => simp [SettledWork, setHolds] at hw0
            | atom a =>
              cases a with
              | str sv =>
                simp only [stepWork, stepSet, resolveVal, resolveAtom] at hw
                cases hw
                simpa [State.pidN, hagd, sumBy, Work.pidN, setPidN, SetVal.pidN] using hp
              | promise _ => simp [SettledWork, setHolds] at hw0
              | uuid _ => simp [SettledWork, setHolds] at hw0
              | obj _ => simp [SettledWork, setHolds] at hw0
      | fulfil p i =>
        simp only [stepWork, State.fulfil] at hw
        split at hw
        · cases hw
        · cases hw
          simp only [State.pidN, hagd, sumBy, Work.pidN, hd, List.filter_nil, List.map_nil, List.append_nil,
            List.map_append, List.map_cons, List.count_append, List.count_cons, List.count_nil] at hp ⊢
          by_cases hpq : p = q
          · subst hpq; simp [indS] at hp ⊢; omega
          · have : (p == q) = false := by simp [hpq]
            simp [indS, hpq, this] at hp ⊢; omega
      | items _ _ _ => exact hw0.elim
      | resync _ _ _ _ _ _ => exact hw0.elim
      | dels _ _ _ => exact hw0.elim
  · rename_i hagd
    split at h
    · cases h
    · rename_i a q' hqd
      simp only [Except.map] at h
      split at h
      · cases h
      · rename_i s2 hw
        simp at h; subst h
        have ha0 : SettledAction g a := hq a (by simp [hqd])
        cases a with
        | piece _ _ => exact ha0.elim
        | whole i =>
          obtain ⟨par, hpar, hc, he, hset, hdel, hsync⟩ := ha0
          have hres : resolveVal s.ps s.g i.parent = .ok (.obj par) := by
            rcases hpar with ⟨hp', hhas⟩ | hp'
            · simp [hp', resolveVal, resolveAtom, hg, hhas]
            · simp [hp', resolveVal, resolveAtom]
          simp only [startAction, hres] at hw
          cases hw
          have := worksOf_pidN (indS q) par i
          simp only [State.pidN, hagd, hqd, sumBy, Action.pidN] at hp ⊢
          omega

/-- a settled state whose promise ids are pairwise distinct cannot raise -/
theorem settled_step_ok {mm g s e} (hs : SettledState g s) (hp : PidInv s) (h : step mm s = .error e) : False := by
  obtain ⟨hg, hd, hag, hq⟩ := hs
  unfold step at h
  split at h
  · rename_i w rest hagd
    simp only [Except.map] at h
    split at h
    · rename_i e' hw
      have hw0 : SettledWork g w := hag w (by simp [hagd])
      cases w with
      | syncs par attr l =>
        cases l with
        | nil => cases hw
        | cons so l =>
          obtain ⟨nid, nid2, ty, keys, pid, set, ext, sync⟩ := so
          simp only [SettledWork, SettledSos, SettledSo] at hw0
          obtain ⟨⟨hext, hnp, c, rk, hfind, hset, hsync⟩, hl⟩ := hw0
          simp only [stepWork, stepSync] at hw
          rw [resolveFind_noPromise _ _ _ _ _ hnp, hg, hfind] at hw
          cases hw
      | sets c l =>
        cases l with
        | nil => cases hw
        | cons kv l =>
          obtain ⟨k, v⟩ := kv
          cases v with
          | list _ => simp [SettledWork, setHolds] at hw0
          | scalar v =>
            cases v with
            | find _ _ => simp [SettledWork, setHolds] at hw0
            | atom a =>
              cases a with
              | str sv => simp [stepWork, stepSet, resolveVal, resolveAtom] at hw
              | promise _ => simp [SettledWork, setHolds] at hw0
              | uuid _ => simp [SettledWork, setHolds] at hw0
              | obj _ => simp [SettledWork, setHolds] at hw0
      | fulfil p i =>
        simp only [stepWork, State.fulfil] at hw
        split at hw
        · rename_i hsome
          have := hp p
          simp only [State.pidN, hagd, sumBy, Work.pidN, indS, ↓reduceIte] at this
          cases hl : s.ps.lookup p with
          | none => simp [hl] at hsome
          | some j =>
            have : 0 < (s.ps.map Prod.fst).count p := List.count_pos_iff.mpr (lookup_mem_keys hl)
            omega
        · cases hw
      | items _ _ _ => exact hw0.elim
      | resync _ _ _ _ _ _ => exact hw0.elim
      | dels _ _ _ => exact hw0.elim
    · cases h
  · rename_i hagd
    split at h
    · cases h
    · rename_i a q' hqd
      simp only [Except.map] at h
      split at h
      · rename_i e' hw
        have ha0 : SettledAction g a := hq a (by simp [hqd])
        cases a with
        | piece _ _ => exact ha0.elim
        | whole i =>
          obtain ⟨par, hpar, hc, he, hset, hdel, hsync⟩ := ha0
          have hres : resolveVal s.ps s.g i.parent = .ok (.obj par) := by
            rcases hpar with ⟨hp', hhas⟩ | hp'
            · simp [hp', resolveVal, resolveAtom, hg, hhas]
            · simp [hp', resolveVal, resolveAtom]
          simp [startAction, hres] at hw
      · cases h

/-- **a second run over a settled document returns, and returns the same graph** — provided no promise id
is declared twice (then the first run would have raised as well) -/
theorem settled_apply_ok {mm g doc} (hdoc : ∀ i ∈ doc, SettledInstr g i)
    (hpid : ∀ q, sumBy (Instr.pidN (indS q)) doc ≤ 1) : ∃ ps', apply mm g doc = .ok (g, ps') := by
  have hs : SettledState g (init g doc) := by
    refine ⟨rfl, rfl, by simp [init], ?_⟩
    intro a ha
    simp only [init, List.mem_map] at ha
    obtain ⟨i, hi, rfl⟩ := ha
    exact hdoc i hi
  have hp : PidInv (init g doc) := by
    intro q
    simpa [init, State.pidN, sumBy, sumBy_map, Action.pidN] using hpid q
  have hrun := run_measure_some mm ((init g doc).measure + 1) (init g doc) (by omega)
  cases hr : run mm ((init g doc).measure + 1) (init g doc) with
  | none => simp [hr] at hrun
  | some ry =>
    have hkeep := run_keeps (P := fun s => SettledState g s ∧ PidInv s)
      (fun s s' hs hst => ⟨settled_step hs.1 hst, settled_step_pid hs.1 hs.2 hst⟩) _ _ ry ⟨hs, hp⟩ hr
    cases ry with
    | error e =>
      obtain ⟨se, hse, herr⟩ := hkeep
      exact (settled_step_ok hse.1 hse.2 herr).elim
    | ok sf =>
      obtain ⟨⟨hsf, _⟩, _⟩ := hkeep
      exact ⟨sf.ps, by simp [apply, hr, Except.bind, finish, hsf.2.1, hsf.1]⟩

end Capella.Decl
