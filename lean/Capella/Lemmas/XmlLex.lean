import Capella.Lemmas.XmlEscape
import Capella.Model.XmlSpec
/-! Characters → tokens: one token at a time (layer 2 of the round trip; C01/C02). -/
namespace Capella.Xml

/-! ### scanning helpers -/

theorem takeWhile_append_stop {p : Char → Bool} (a : Str) (c : Char) (rest : Str)
    (ha : a.all p = true) (hc : p c = false) :
    (a ++ c :: rest).takeWhile p = a := by
  induction a with
  | nil => simp [hc]
  | cons x xs ih =>
    simp only [List.all_cons, Bool.and_eq_true] at ha
    simp [ha.1, ih ha.2]

theorem dropWhile_append_stop {p : Char → Bool} (a : Str) (c : Char) (rest : Str)
    (ha : a.all p = true) (hc : p c = false) :
    (a ++ c :: rest).dropWhile p = c :: rest := by
  induction a with
  | nil => simp [hc]
  | cons x xs ih =>
    simp only [List.all_cons, Bool.and_eq_true] at ha
    simp [ha.1, ih ha.2]

theorem takeWhile_all {p : Char → Bool} {s : Str} (h : s.all p = true) : s.takeWhile p = s := by
  induction s with
  | nil => rfl
  | cons c cs ih =>
    simp only [List.all_cons, Bool.and_eq_true] at h
    simp [h.1, ih h.2]

theorem dropWhile_all {p : Char → Bool} {s : Str} (h : s.all p = true) : s.dropWhile p = [] := by
  induction s with
  | nil => rfl
  | cons c cs ih =>
    simp only [List.all_cons, Bool.and_eq_true] at h
    simp [h.1, ih h.2]

theorem skipWs_of_head {c : Char} (rest : Str) (hc : isWs c = false) : skipWs (c :: rest) = c :: rest := by
  simp [skipWs, List.dropWhile, hc]

theorem skipWs_ws_append (w : Str) (c : Char) (rest : Str) (hw : w.all isWs = true) (hc : isWs c = false) :
    skipWs (w ++ c :: rest) = c :: rest :=
  dropWhile_append_stop w c rest hw hc

/-! ### names -/

/-- what the lexer needs of a written name: non-empty, only name characters -/
def lexName (s : Str) : Prop := s ≠ [] ∧ s.all nameChar = true

theorem lexName_head {s : Str} (h : lexName s) : ∃ c cs, s = c :: cs ∧ nameChar c = true := by
  obtain ⟨h1, h2⟩ := h
  cases s with
  | nil => exact absurd rfl h1
  | cons c cs => simp only [List.all_cons, Bool.and_eq_true] at h2; exact ⟨c, cs, rfl, h2.1⟩

theorem nameChar_not_ws {c : Char} (h : nameChar c = true) : isWs c = false := by
  simp only [nameChar, isNameEnd, Bool.not_eq_true', Bool.or_eq_false_iff] at h
  exact h.1.1.1.1.1.1.1

/-! ### one attribute -/

/-- a written attribute value: no `"`, no `<`, and reading it gives `v` -/
def valReads (w v : Str) : Prop :=
  w.all (fun c => c != '"') = true ∧ w.contains '<' = false ∧ unescapeXml (attrNorm w) = some v

theorem lexOneAttr_written (a w v rest : Str) (ha : lexName a) (hw : valReads w v) :
    lexOneAttr (a ++ '=' :: '"' :: (w ++ '"' :: rest)) = some (a, v, rest) := by
  obtain ⟨hne, hall⟩ := ha
  obtain ⟨hq, hlt, hdec⟩ := hw
  unfold lexOneAttr
  have h1 : (a ++ '=' :: '"' :: (w ++ '"' :: rest)).takeWhile nameChar = a :=
    takeWhile_append_stop a '=' _ hall (by decide)
  have h2 : (a ++ '=' :: '"' :: (w ++ '"' :: rest)).dropWhile nameChar = '=' :: '"' :: (w ++ '"' :: rest) :=
    dropWhile_append_stop a '=' _ hall (by decide)
  have h3 : (w ++ '"' :: rest).takeWhile (· != '"') = w := takeWhile_append_stop w '"' rest hq (by decide)
  have h4 : (w ++ '"' :: rest).dropWhile (· != '"') = '"' :: rest := dropWhile_append_stop w '"' rest hq (by decide)
  simp only [h1, h2, hne, ↓reduceIte, skipWs_of_head _ (by decide : isWs '=' = false),
    skipWs_of_head _ (by decide : isWs '"' = false), decide_true, h3, h4, hlt,
    Bool.false_eq_true, hdec, Bool.true_or]

/-! ### the attribute list of a start tag -/

/-- the separator the writer puts in front of an attribute -/
def attrSep (brk : Bool) (attrIndent : Nat) : Str :=
  if brk then '\n' :: List.replicate attrIndent ' ' else [' ']

theorem attrSep_ws (brk : Bool) (n : Nat) : (attrSep brk n).all isWs = true := by
  cases brk <;> simp [attrSep, isWs, List.all_replicate]

theorem attrSep_startsWs (brk : Bool) (n : Nat) (rest : Str) : startsWithWs (attrSep brk n ++ rest) = true := by
  cases brk <;> simp [attrSep, startsWithWs, isWs]

theorem tagCloser_name {c : Char} (rest : Str) (h : nameChar c = true) : tagCloser (c :: rest) = none := by
  unfold tagCloser
  split
  · rename_i heq; simp only [List.cons.injEq] at heq; rw [heq.1] at h; exact absurd h (by decide)
  · rename_i heq; simp only [List.cons.injEq] at heq; rw [heq.1] at h; exact absurd h (by decide)
  · rfl

/-- the closers the writer uses -/
def closerStr (sc : Bool) : Str := if sc then ['/', '>'] else ['>']

theorem skipWs_closer (sc : Bool) (X : Str) : skipWs (closerStr sc ++ X) = closerStr sc ++ X := by
  cases sc <;> simp [closerStr, skipWs, isWs]

theorem tagCloser_closer (sc : Bool) (X : Str) : tagCloser (closerStr sc ++ X) = some (sc, X) := by
  cases sc <;> simp [closerStr, tagCloser]

/-- **layout independence at the attribute level**: whatever line length, column and forced
breaks the writer used, the reader gets the same attribute list (`dv` = the decoded value). -/
theorem lexAttrs_serAttrs (ll ai : Nat) (isRoot : Bool) (ws : List (Str × Str)) (dv : Str × Str → Str)
    (hok : ∀ w ∈ ws, lexName w.1 ∧ valReads w.2 (dv w))
    (pos : Nat) (force : Bool) (sc : Bool) (X : Str) (f : Nat) :
    lexAttrs (f + ws.length + 1) ((serAttrs ll ai isRoot ws pos force).1 ++ (closerStr sc ++ X)) =
      some (ws.map (fun w => (w.1, dv w)), sc, X) := by
  induction ws generalizing pos force with
  | nil =>
    simp [serAttrs, lexAttrs, skipWs_closer, tagCloser_closer]
  | cons w ws ih =>
    obtain ⟨hn, hv⟩ := hok w List.mem_cons_self
    have ih' := ih (fun x hx => hok x (List.mem_cons_of_mem _ hx))
    obtain ⟨a, v⟩ := w
    simp only at hn hv
    obtain ⟨c, cs, hac, hcn⟩ := lexName_head hn
    simp only [serAttrs, List.length_cons]
    rw [show f + (ws.length + 1) + 1 = (f + ws.length + 1) + 1 by omega]
    unfold lexAttrs
    have hsep : ∀ brk, (if brk = true then '\n' :: List.replicate ai ' ' else [' ']) = attrSep brk ai := by
      intro brk; rfl
    rw [hsep]
    simp only [List.append_assoc, List.cons_append]
    generalize hR : (serAttrs ll ai isRoot ws ((if (decide (pos > ll) || force) = true then ai else pos + 1)
        + a.length + v.length + 3) (isRoot && a == "id".toList)).1 ++ (closerStr sc ++ X) = R
    have hskip : skipWs (attrSep (decide (pos > ll) || force) ai ++ (a ++ '=' :: '"' :: (v ++ '"' :: R))) =
        a ++ '=' :: '"' :: (v ++ '"' :: R) := by
      subst hac
      simp only [List.cons_append]
      exact skipWs_ws_append _ c _ (attrSep_ws _ _) (nameChar_not_ws hcn)
    rw [hskip]
    have htc : tagCloser (a ++ '=' :: '"' :: (v ++ '"' :: R)) = none := by
      subst hac; exact tagCloser_name _ hcn
    simp only [htc, attrSep_startsWs, Bool.not_true, Bool.false_eq_true, ↓reduceIte,
      lexOneAttr_written a v (dv (a, v)) _ hn hv]
    rw [← hR, ih']
    rfl

theorem serAttrs_length (ll ai : Nat) (isRoot : Bool) (ws : List (Str × Str)) (pos : Nat) (force : Bool) :
    ws.length ≤ (serAttrs ll ai isRoot ws pos force).1.length := by
  induction ws generalizing pos force with
  | nil => simp [serAttrs]
  | cons w ws ih =>
    obtain ⟨a, v⟩ := w
    simp only [serAttrs, List.length_cons, List.length_append]
    have := ih ((if (decide (pos > ll) || force) = true then ai else pos + 1) + a.length + v.length + 3)
      (isRoot && a == "id".toList)
    omega

/-- after the tag name comes white space or the closer, never a name character -/
theorem serAttrs_closer_head (ll ai : Nat) (isRoot : Bool) (ws : List (Str × Str)) (pos : Nat)
    (force sc : Bool) (X : Str) :
    ∃ d rest, (serAttrs ll ai isRoot ws pos force).1 ++ (closerStr sc ++ X) = d :: rest ∧
      nameChar d = false := by
  cases ws with
  | nil => cases sc <;> simp [serAttrs, closerStr, nameChar, isNameEnd]
  | cons w ws =>
    obtain ⟨a, v⟩ := w
    simp only [serAttrs]
    split <;> simp [nameChar, isNameEnd, isWs]

theorem lexAttrs_mono (f : Nat) (s : Str) (r) (h : lexAttrs f s = some r) (k : Nat) :
    lexAttrs (f + k) s = some r := by
  induction f generalizing s r with
  | zero => simp [lexAttrs] at h
  | succ f ih =>
    rw [show f + 1 + k = (f + k) + 1 by omega]
    unfold lexAttrs at h ⊢
    split
    · rename_i heq; simp only [heq] at h; exact h
    · rename_i heq
      simp only [heq] at h
      split
      · rename_i hs; simp only [hs, ↓reduceIte] at h; exact absurd h (by simp)
      · rename_i hs
        simp only [hs] at h
        split
        · rename_i h1; simp only [h1] at h; exact absurd h (by simp)
        · rename_i name v s5 h1
          simp only [h1] at h
          cases h2 : lexAttrs f s5 with
          | none => simp [h2] at h
          | some x =>
            simp only [h2] at h
            rw [ih s5 x h2]; exact h

/-- a start tag as the writer lays it out is one token, independent of the layout -/
theorem nextTok_stag (name : Str) (hn : lexName name) (hs : nameStartOk name = true)
    (ll ai : Nat) (isRoot : Bool) (ws : List (Str × Str)) (dv : Str × Str → Str)
    (hok : ∀ w ∈ ws, lexName w.1 ∧ valReads w.2 (dv w))
    (hdist : distinctKeys (ws.map fun w => (w.1, dv w)) = true)
    (pos : Nat) (force sc : Bool) (X : Str) :
    nextTok ('<' :: (name ++ ((serAttrs ll ai isRoot ws pos force).1 ++ (closerStr sc ++ X)))) =
      .tok (.stag name (ws.map fun w => (w.1, dv w)) sc) X := by
  obtain ⟨c, cs, hac, hcn⟩ := lexName_head hn
  obtain ⟨d, rest, hd, hdn⟩ := serAttrs_closer_head ll ai isRoot ws pos force sc X
  have hmark : lexMarkup (name ++ ((serAttrs ll ai isRoot ws pos force).1 ++ (closerStr sc ++ X))) =
      lexStag (name ++ ((serAttrs ll ai isRoot ws pos force).1 ++ (closerStr sc ++ X))) := by
    subst hac
    simp only [nameStartOk, Bool.and_eq_true, bne_iff_ne, ne_eq] at hs
    unfold lexMarkup
    simp only [List.cons_append]
    split
    · rename_i heq; simp only [List.cons.injEq] at heq; exact absurd heq.1 hs.1
    · rename_i heq; simp only [List.cons.injEq] at heq; exact absurd heq.1 hs.2
    · rename_i heq; simp only [List.cons.injEq] at heq; rw [heq.1] at hcn; exact absurd hcn (by decide)
    · rfl
  simp only [nextTok, hmark]
  unfold lexStag
  rw [hd]
  simp only [takeWhile_append_stop name d rest hn.2 hdn, dropWhile_append_stop name d rest hn.2 hdn,
    hn.1, ↓reduceIte]
  rw [← hd]
  have hlen := serAttrs_length ll ai isRoot ws pos force
  have hfuel : (name ++ ((serAttrs ll ai isRoot ws pos force).1 ++ (closerStr sc ++ X))).length + 1 =
      0 + ws.length + 1 + ((name ++ ((serAttrs ll ai isRoot ws pos force).1 ++ (closerStr sc ++ X))).length - ws.length) := by
    simp only [List.length_append]; omega
  rw [hfuel, lexAttrs_mono _ _ _ (lexAttrs_serAttrs ll ai isRoot ws dv hok pos force sc X 0)]
  simp [hdist]

theorem nextTok_etag (name : Str) (hn : lexName name) (X : Str) :
    nextTok ('<' :: '/' :: (name ++ '>' :: X)) = .tok (.etag name) X := by
  simp only [nextTok, lexMarkup, lexEtag,
    takeWhile_append_stop name '>' X hn.2 (by decide), dropWhile_append_stop name '>' X hn.2 (by decide),
    skipWs_of_head _ (by decide : isWs '>' = false), hn.1, ↓reduceIte]

/-! ### character data -/

theorem normEol_id {s : Str} (h : '\r' ∉ s) : normEol s = s := by
  induction s with
  | nil => rfl
  | cons c rest ih =>
    have hc : c ≠ '\r' := fun hc => h (by simp [hc])
    have hr : '\r' ∉ rest := fun hm => h (List.mem_cons_of_mem _ hm)
    rw [normEol.eq_def]
    split
    · rename_i heq; simp at heq
    · rename_i heq; simp only [List.cons.injEq] at heq; exact absurd heq.1 hc
    · rename_i heq; simp only [List.cons.injEq] at heq; exact absurd heq.1 hc
    · rename_i heq; simp only [List.cons.injEq] at heq; rw [← heq.1, ← heq.2, ih hr]

/-- written character data `w` (no `<`, no `]]>`, no CR, not empty) followed by markup is one text
token carrying what `w` decodes to -/
theorem nextTok_text (w t : Str) (hne : w ≠ []) (hlt : w.all (· != '<') = true)
    (hcd : hasCdataEnd w = false) (hcr : '\r' ∉ w) (hdec : unescapeXml w = some t) (Y : Str) :
    nextTok (w ++ '<' :: Y) = .tok (.text t) ('<' :: Y) := by
  cases w with
  | nil => exact absurd rfl hne
  | cons c cs =>
    have hc : c ≠ '<' := by
      simp only [List.all_cons, Bool.and_eq_true, bne_iff_ne, ne_eq] at hlt; exact hlt.1
    have h1 : ((c :: cs) ++ '<' :: Y).takeWhile (· != '<') = c :: cs :=
      takeWhile_append_stop _ '<' Y hlt (by decide)
    have h2 : ((c :: cs) ++ '<' :: Y).dropWhile (· != '<') = '<' :: Y :=
      dropWhile_append_stop _ '<' Y hlt (by decide)
    have : nextTok ((c :: cs) ++ '<' :: Y) = lexText ((c :: cs) ++ '<' :: Y) := by
      simp only [List.cons_append, nextTok]
      split
      · rename_i heq; simp at heq
      · rename_i heq; simp only [List.cons.injEq] at heq; exact absurd heq.1 hc
      · rfl
    rw [this]
    unfold lexText
    simp only [h1, h2, hcd, Bool.false_eq_true, ↓reduceIte, normEol_id hcr, hdec]

/-- … and at the very end of the input -/
theorem nextTok_text_eof (w t : Str) (hne : w ≠ []) (hlt : w.all (· != '<') = true)
    (hcd : hasCdataEnd w = false) (hcr : '\r' ∉ w) (hdec : unescapeXml w = some t) :
    nextTok w = .tok (.text t) [] := by
  cases w with
  | nil => exact absurd rfl hne
  | cons c cs =>
    have hc : c ≠ '<' := by
      simp only [List.all_cons, Bool.and_eq_true, bne_iff_ne, ne_eq] at hlt; exact hlt.1
    have h1 : (c :: cs).takeWhile (· != '<') = c :: cs := takeWhile_all hlt
    have h2 : (c :: cs).dropWhile (· != '<') = [] := dropWhile_all hlt
    have : nextTok (c :: cs) = lexText (c :: cs) := by
      simp only [nextTok]
      split
      · rename_i heq; simp at heq
      · rename_i heq; simp only [List.cons.injEq] at heq; exact absurd heq.1 hc
      · rfl
    rw [this]
    unfold lexText
    simp only [h1, h2, hcd, Bool.false_eq_true, ↓reduceIte, normEol_id hcr, hdec]

/-! ### comments -/

theorem splitComment_written (body X : Str) (h : noDoubleDash body = true) :
    splitComment (body ++ '-' :: '-' :: '>' :: X) = some (body, X) := by
  induction body with
  | nil => simp [splitComment]
  | cons c rest ih =>
    by_cases hc : c = '-'
    · subst hc
      cases rest with
      | nil => simp [noDoubleDash] at h
      | cons d rest' =>
        by_cases hd : d = '-'
        · subst hd; simp [noDoubleDash] at h
        · have h' : noDoubleDash (d :: rest') = true := by
            rw [noDoubleDash.eq_def] at h
            simpa [hd] using h
          rw [List.cons_append, splitComment.eq_def]
          simp only [List.cons_append]
          split
          · rename_i heq; simp only [List.cons.injEq, true_and] at heq; exact absurd heq.1 hd
          · rename_i heq; simp only [List.cons.injEq, true_and] at heq; exact absurd heq.1 hd
          · rename_i heq
            simp only [List.cons.injEq] at heq
            obtain ⟨h1, h2⟩ := heq
            subst h1 h2
            rw [← List.cons_append, ih h']
            rfl
          · rename_i heq; simp at heq
    · have h' : noDoubleDash rest = true := by
        rw [noDoubleDash.eq_def] at h
        split at h
        · rename_i heq; simp only [List.cons.injEq] at heq; exact absurd heq.1 hc
        · rename_i heq; simp only [List.cons.injEq] at heq; exact absurd heq.1 hc
        · rename_i heq; simp only [List.cons.injEq] at heq; rw [heq.2]; exact h
        · rename_i heq; simp at heq
      rw [List.cons_append, splitComment.eq_def]
      split
      · rename_i heq; simp only [List.cons.injEq] at heq; exact absurd heq.1 hc
      · rename_i heq; simp only [List.cons.injEq] at heq; exact absurd heq.1 hc
      · rename_i heq
        simp only [List.cons.injEq] at heq
        obtain ⟨h1, h2⟩ := heq
        subst h1 h2
        rw [ih h']; rfl
      · rename_i heq; simp at heq

theorem nextTok_comment (body X : Str) (h : noDoubleDash body = true) (hcr : '\r' ∉ body) :
    nextTok ('<' :: '!' :: '-' :: '-' :: (body ++ '-' :: '-' :: '>' :: X)) = .tok (.comment body) X := by
  simp only [nextTok, lexMarkup, lexBang, splitComment_written body X h, normEol_id hcr]

/-! ### token streams -/

theorem lexAll_tok {s r : Str} {t : Tok} (h : nextTok s = .tok t r) (f : Nat) :
    lexAll (f + 1) s = (lexAll f r).map (t :: ·) := by
  simp only [lexAll, h]

theorem lexAll_eof (f : Nat) : lexAll (f + 1) [] = some [] := by
  simp [lexAll, nextTok]

theorem lexAll_mono (f : Nat) (s : Str) (r : List Tok) (h : lexAll f s = some r) (k : Nat) :
    lexAll (f + k) s = some r := by
  induction f generalizing s r with
  | zero => simp [lexAll] at h
  | succ f ih =>
    rw [show f + 1 + k = (f + k) + 1 by omega]
    unfold lexAll at h ⊢
    split
    · rename_i heq; simp only [heq] at h; exact h
    · rename_i heq; simp only [heq] at h; exact absurd h (by simp)
    · rename_i t rest heq
      simp only [heq] at h
      cases h2 : lexAll f rest with
      | none => simp [h2] at h
      | some x => simp only [h2] at h; rw [ih rest x h2]; exact h

end Capella.Xml
