import Capella.Lemmas.Decl
/-!
Lemmas about the `decl.apply` machine, part 2: conservation of effects for create/extend documents.

For a fixed map `pm` from promise ids to object ids, every piece of pending syntax has a multiset of
*effects* it will cause: objects created (`obj id cls`), list memberships added (`edge owner attr member`),
promises bound (`bind p id`). The effects already caused are visible in the state (`g.objs`, `g.edges`, `ps`).
Invariant: done + pending is constant along a run, as long as `ps` agrees with `pm`.
-/
namespace Capella.Decl

inductive Eff
  | bind (p : Str) (i : Id)
  | edge (o : Id) (a : Str) (m : Id)
  | obj (i : Id) (c : Str)
  | use (p : Str)
  deriving DecidableEq

def atomId (pm : Str → Option Id) : Atom → Option Id
  | .str _ => none
  | .promise p => pm p
  | .uuid i => some i
  | .obj i => some i

def valId (pm : Str → Option Id) : Val → Option Id
  | .atom a => atomId pm a
  | .find _ _ => none

def atomUse (F : Eff → Nat) : Atom → Nat
  | .promise p => F (.use p)
  | _ => 0

def keysUse (F : Eff → Nat) : List (Str × Atom) → Nat
  | [] => 0
  | (_, a) :: t => atomUse F a + keysUse F t

def valUse (F : Eff → Nat) : Val → Nat
  | .atom a => atomUse F a
  | .find _ keys => keysUse F keys

def scalUse (F : Eff → Nat) : List (Str × Val) → Nat
  | [] => 0
  | (_, v) :: t => valUse F v + scalUse F t

/-- the weight ignores uses of promises that are already bound -/
def Quiet (F : Eff → Nat) (ps : Promises) : Prop := ∀ p i, ps.lookup p = some i → F (.use p) = 0

/-- bindings are only ever added -/
def Grows (ps ps' : Promises) : Prop := ∀ p i, ps.lookup p = some i → ps'.lookup p = some i

def optEff (F : Eff → Nat) (pid : Option Str) (nid : Id) : Nat :=
  match pid with
  | none => 0
  | some p => F (.bind p nid)

mutual
def Item.effN (dflt : List (Str × Str)) (pm : Str → Option Id) (F : Eff → Nat) (par : Id) (attr : Str) : Item → Nat
  | .obj nid pid ty scal kids =>
    F (.obj nid (classFor dflt attr ty)) + F (.edge par attr nid) + optEff F pid nid + scalUse F scal +
      kidsEffN dflt pm F nid kids
  | .ref v => valUse F v + match valId pm v with
    | some m => F (.edge par attr m)
    | none => 0
def kidsEffN (dflt : List (Str × Str)) (pm : Str → Option Id) (F : Eff → Nat) (par : Id) : List (Str × List Item) → Nat
  | [] => 0
  | (a, l) :: t => itemsEffN dflt pm F par a l + kidsEffN dflt pm F par t
def itemsEffN (dflt : List (Str × Str)) (pm : Str → Option Id) (F : Eff → Nat) (par : Id) (attr : Str) : List Item → Nat
  | [] => 0
  | x :: t => x.effN dflt pm F par attr + itemsEffN dflt pm F par attr t
end

def Instr.effN (dflt : List (Str × Str)) (pm : Str → Option Id) (F : Eff → Nat) (i : Instr) : Nat :=
  valUse F i.parent + kidsEffN dflt pm F ((valId pm i.parent).getD 0) i.create +
    kidsEffN dflt pm F ((valId pm i.parent).getD 0) i.ext

def Action.effN (dflt : List (Str × Str)) (pm : Str → Option Id) (F : Eff → Nat) : Action → Nat
  | .whole i => i.effN dflt pm F
  | .piece par (.item attr x) => x.effN dflt pm F par attr
  | .piece _ _ => 0

def Work.effN (dflt : List (Str × Str)) (pm : Str → Option Id) (F : Eff → Nat) : Work → Nat
  | .items par attr l => itemsEffN dflt pm F par attr l
  | _ => 0

def State.pendN (dflt : List (Str × Str)) (pm : Str → Option Id) (F : Eff → Nat) (s : State) : Nat :=
  sumBy (Work.effN dflt pm F) s.agenda + sumBy (Action.effN dflt pm F) s.queue +
    sumBy (fun e => e.2.effN dflt pm F) s.deferred

def State.doneN (F : Eff → Nat) (s : State) : Nat :=
  sumBy (fun e => F (.bind e.1 e.2)) s.ps + sumBy (fun e => F (.edge e.1 e.2.1 e.2.2)) s.g.edges +
    sumBy (fun e => F (.obj e.1 e.2)) s.g.objs

/-! the create/extend fragment: reference entries and parents are atoms, no set/sync/delete -/

/-- `pm` sends the promise id of a site to the id of that site -/
def pidOK (st : Prop) (pm : Str → Option Id) (pid : Option Str) (nid : Id) : Prop :=
  st → ∀ p, pid = some p → pm p = some nid

mutual
def Item.ce (st : Prop) (pm : Str → Option Id) : Item → Prop
  | .obj nid pid _ _ kids => pidOK st pm pid nid ∧ kidsCe st pm kids
  | .ref v => ∃ a, v = .atom a
def kidsCe (st : Prop) (pm : Str → Option Id) : List (Str × List Item) → Prop
  | [] => True
  | (_, l) :: t => itemsCe st pm l ∧ kidsCe st pm t
def itemsCe (st : Prop) (pm : Str → Option Id) : List Item → Prop
  | [] => True
  | x :: t => x.ce st pm ∧ itemsCe st pm t
end

def Instr.ce (st : Prop) (pm : Str → Option Id) (i : Instr) : Prop :=
  (∃ a, i.parent = .atom a) ∧ kidsCe st pm i.create ∧ kidsCe st pm i.ext ∧ i.set = [] ∧ i.sync = [] ∧ i.del = []

def Action.ce (st : Prop) (pm : Str → Option Id) : Action → Prop
  | .whole i => i.ce st pm
  | .piece _ (.item _ x) => x.ce st pm
  | .piece _ _ => False

def Work.ce (st : Prop) (pm : Str → Option Id) : Work → Prop
  | .items _ _ l => itemsCe st pm l
  | .sets _ l => l = []
  | _ => False

def State.ce (st : Prop) (pm : Str → Option Id) (s : State) : Prop :=
  (∀ w ∈ s.agenda, w.ce st pm) ∧ (∀ a ∈ s.queue, a.ce st pm) ∧ (∀ e ∈ s.deferred, e.2.ce st pm)

/-- `ps` agrees with `pm` -/
def Agrees (st : Prop) (ps : Promises) (pm : Str → Option Id) : Prop :=
  st → ∀ p i, ps.lookup p = some i → pm p = some i

/-- the weight ignores list memberships -/
def EdgeBlind (F : Eff → Nat) : Prop := ∀ o a m, F (.edge o a m) = 0

theorem kidsEffN_eq (dflt pm F) (par : Id) (kids : List (Str × List Item)) :
    sumBy (Work.effN dflt pm F) (kids.map (fun kl => Work.items par kl.1 kl.2)) = kidsEffN dflt pm F par kids := by
  induction kids with
  | nil => simp [sumBy, kidsEffN]
  | cons x t ih => obtain ⟨k, l⟩ := x; simp [sumBy, kidsEffN, Work.effN, ih] at *

theorem kidsCe_works (st pm) (par : Id) (kids : List (Str × List Item)) (h : kidsCe st pm kids) :
    ∀ w ∈ kids.map (fun kl => Work.items par kl.1 kl.2), w.ce st pm := by
  induction kids with
  | nil => simp
  | cons x t ih =>
    obtain ⟨k, l⟩ := x
    simp only [kidsCe] at h
    intro w hw
    simp only [List.map_cons, List.mem_cons] at hw
    rcases hw with rfl | hw
    · exact h.1
    · exact ih h.2 w hw

theorem resolveAtom_id {ps g pm a i} (hag : Agrees True ps pm) (h : resolveAtom ps g a = .ok (.obj i)) :
    atomId pm a = some i := by
  cases a with
  | str s => simp [resolveAtom] at h
  | promise p =>
    simp only [resolveAtom] at h
    split at h
    · rename_i j hj; cases h; exact hag trivial _ _ hj
    · cases h
  | uuid j =>
    simp only [resolveAtom] at h
    split at h
    · cases h; rfl
    · cases h
  | obj j => simp [resolveAtom] at h; simp [atomId, h]


theorem resolveAtom_quiet {F ps g a r} (hq : Quiet F ps) (h : resolveAtom ps g a = .ok r) : atomUse F a = 0 := by
  cases a with
  | promise p =>
    simp only [resolveAtom] at h
    split at h
    · rename_i j hj; exact hq _ _ hj
    · cases h
  | str _ => rfl
  | uuid _ => rfl
  | obj _ => rfl

theorem resolveKeys_quiet {F ps g} (hq : Quiet F ps) : ∀ {keys r}, resolveKeys ps g keys = .ok r → keysUse F keys = 0
  | [], _, _ => rfl
  | (k, a) :: t, r, h => by
    simp only [resolveKeys, bind, Except.bind] at h
    split at h
    · cases h
    · rename_i v hv
      split at h
      · cases h
      · rename_i r' hr'
        simp [keysUse, resolveAtom_quiet hq hv, resolveKeys_quiet hq hr']

theorem resolveVal_quiet {F ps g v r} (hq : Quiet F ps) (h : resolveVal ps g v = .ok r) : valUse F v = 0 := by
  cases v with
  | atom a => exact resolveAtom_quiet hq h
  | find ty keys =>
    simp only [resolveVal, resolveFind, bind, Except.bind] at h
    split at h
    · cases h
    · rename_i x hx
      split at hx
      · cases hx
      · rename_i rk hrk
        exact resolveKeys_quiet hq hrk

theorem resolveScal_quiet {F ps g} (hq : Quiet F ps) : ∀ {scal r}, resolveScal ps g scal = .ok r → scalUse F scal = 0
  | [], _, _ => rfl
  | (k, v) :: t, r, h => by
    simp only [resolveScal, bind, Except.bind] at h
    split at h
    · cases h
    · rename_i v' hv
      split at h
      · cases h
      · rename_i r' hr'
        simp [scalUse, resolveVal_quiet hq hv, resolveScal_quiet hq hr']

theorem lookup_append_single (ps : Promises) (p q : Str) (i : Id) :
    (ps ++ [(p, i)]).lookup q = match ps.lookup q with
      | some j => some j
      | none => if q == p then some i else none := by
  induction ps with
  | nil => simp [List.lookup]; split <;> simp_all
  | cons x t ih =>
    obtain ⟨k, v⟩ := x
    simp only [List.cons_append, List.lookup]
    split <;> simp_all

theorem fulfil_ce {dflt st pm} {s s' : State} {p : Str} {i : Id} (hs : s.ce st pm) (hag : Agrees st s.ps pm)
    (hp : st → pm p = some i) (h : s.fulfil p i = .ok s') :
    s'.ce st pm ∧ Agrees st s'.ps pm ∧ s'.agenda = s.agenda ∧ s'.g = s.g ∧ Grows s.ps s'.ps ∧
    ∀ F, s'.doneN F + s'.pendN dflt pm F = s.doneN F + s.pendN dflt pm F + F (.bind p i) := by
  unfold State.fulfil at h
  split at h
  · cases h
  · rename_i hnone
    cases h
    refine ⟨⟨hs.1, ?_, ?_⟩, ?_, rfl, rfl, ?_, ?_⟩
    · intro a ha
      simp only [List.mem_append, List.mem_map, List.mem_filter] at ha
      rcases ha with ha | ⟨e, ⟨he, _⟩, rfl⟩
      · exact hs.2.1 a ha
      · exact hs.2.2 e he
    · intro e he
      simp only [List.mem_filter] at he
      exact hs.2.2 e he.1
    · intro hst q j hq
      simp only [lookup_append_single] at hq
      split at hq
      · rename_i j' hj'; cases hq; exact hag hst _ _ hj'
      · split at hq
        · rename_i hqp; cases hq; simp at hqp; subst hqp; exact hp hst
        · cases hq
    · intro q j hq
      simp [lookup_append_single, hq]
    · intro F
      have hm := sumBy_filter_split (fun e : Str × Action => e.2.effN dflt pm F) (fun e => e.1 == p) s.deferred
      simp only [State.doneN, State.pendN, sumBy_append, sumBy_map, sumBy] at *
      omega

theorem setScals_objs (g : Graph) (i : Id) (sc : List (Str × RVal)) :
    (g.setScals i sc).objs = g.objs ∧ (g.setScals i sc).edges = g.edges := by
  induction sc generalizing g with
  | nil => simp [Graph.setScals]
  | cons x t ih => obtain ⟨k, v⟩ := x; simp [Graph.setScals, ih, Graph.setScal]

theorem create_objs (g : Graph) (par attr nid cls sc) :
    (g.create par attr nid cls sc).objs = g.objs ++ [(nid, cls)] ∧
    (g.create par attr nid cls sc).edges = g.edges ++ [(par, attr, nid)] := by
  simp [Graph.create, Graph.append, setScals_objs]

/-- conservation needs `ps` to agree with `pm` only where list memberships are counted -/
theorem stepItem_ce {dflt st pm s s' par attr} {x : Item} (hx : x.ce st pm) (hs : s.ce st pm)
    (hag : Agrees st s.ps pm) (h : stepItem dflt s par attr x = .ok s') :
    s'.ce st pm ∧ Agrees st s'.ps pm ∧ Grows s.ps s'.ps ∧
    ∀ F, (st ∨ EdgeBlind F) → Quiet F s.ps →
      s'.doneN F + s'.pendN dflt pm F = s.doneN F + s.pendN dflt pm F + x.effN dflt pm F par attr := by
  have hgrefl : Grows s.ps s.ps := fun _ _ h => h
  cases x with
  | ref v =>
    obtain ⟨a, rfl⟩ := hx
    simp only [stepItem] at h
    split at h
    · cases h
      refine ⟨⟨hs.1, hs.2.1, ?_⟩, hag, hgrefl, ?_⟩
      · intro e he
        simp only [State.defer, List.mem_append, List.mem_singleton] at he
        rcases he with he | rfl
        · exact hs.2.2 e he
        · exact ⟨a, rfl⟩
      · intro F _ _
        simp [State.defer, State.doneN, State.pendN, sumBy_append, sumBy, Action.effN]; omega
    · cases h
    · rename_i i hi
      cases h
      refine ⟨hs, hag, hgrefl, ?_⟩
      intro F hF hq
      have hu := resolveVal_quiet hq hi
      rcases hF with hst | heb
      · have := resolveAtom_id (fun _ => hag hst) (by simpa [resolveVal] using hi)
        simp [State.doneN, State.pendN, Graph.append, sumBy_append, sumBy, Item.effN, valId, this, hu]; omega
      · simp only [State.doneN, State.pendN, Graph.append, sumBy_append, sumBy, Item.effN, heb _ _ _, hu]
        split <;> omega
    · cases h
  | obj nid pid ty scal kids =>
    simp only [Item.ce] at hx
    simp only [stepItem] at h
    split at h
    · cases h
      refine ⟨⟨hs.1, hs.2.1, ?_⟩, hag, hgrefl, ?_⟩
      · intro e he
        simp only [State.defer, List.mem_append, List.mem_singleton] at he
        rcases he with he | rfl
        · exact hs.2.2 e he
        · simpa [Action.ce, Item.ce] using hx
      · intro F _ _
        simp [State.defer, State.doneN, State.pendN, sumBy_append, sumBy, Action.effN]; omega
    · cases h
    · rename_i rs hrs
      have hc := create_objs s.g par attr nid (classFor dflt attr ty) rs
      cases pid with
      | none =>
        simp [State.fulfilOpt, bind, Except.bind, pure, Except.pure] at h
        cases h
        refine ⟨⟨?_, hs.2.1, hs.2.2⟩, hag, hgrefl, ?_⟩
        · intro w hw
          simp only [List.mem_append] at hw
          rcases hw with hw | hw
          · exact kidsCe_works st pm nid kids hx.2 w hw
          · exact hs.1 w hw
        · intro F _ hq
          have hu := resolveScal_quiet hq hrs
          simp [State.doneN, State.pendN, sumBy_append, sumBy, Item.effN, optEff, kidsEffN_eq, hc.1, hc.2, hu]; omega
      | some p =>
        simp only [State.fulfilOpt, bind, Except.bind, pure, Except.pure] at h
        split at h
        · cases h
        · rename_i s2 hs2
          cases h
          have hs1 : State.ce st pm { s with g := s.g.create par attr nid (classFor dflt attr ty) rs } := hs
          obtain ⟨hce, hag2, hA, hG, hgr, hF⟩ := fulfil_ce (dflt := dflt) hs1 hag (fun h => hx.1 h p rfl) hs2
          refine ⟨⟨?_, hce.2.1, hce.2.2⟩, hag2, hgr, ?_⟩
          · intro w hw
            simp only [List.mem_append] at hw
            rcases hw with hw | hw
            · exact kidsCe_works st pm nid kids hx.2 w hw
            · exact hce.1 w hw
          · intro F _ hq
            have hu := resolveScal_quiet hq hrs
            have := hF F
            have hA' : s2.agenda = s.agenda := hA
            simp [State.doneN, State.pendN, sumBy_append, sumBy, Item.effN, optEff, kidsEffN_eq, hc.1, hc.2, hA', hG, hu] at *
            omega

/-- the invariant of create/extend runs: fragment, agreement with `pm`, done + pending = `c` -/
structure Inv (dflt : List (Str × Str)) (st : Prop) (pm : Str → Option Id) (c : (Eff → Nat) → Nat)
    (s : State) : Prop where
  ce : s.ce st pm
  ag : Agrees st s.ps pm
  cons : ∀ F, (st ∨ EdgeBlind F) → Quiet F s.ps → s.doneN F + s.pendN dflt pm F = c F

theorem worksOf_ce {st pm} (par : Id) (i : Instr) (h : i.ce st pm) : ∀ w ∈ worksOf par i, w.ce st pm := by
  obtain ⟨_, h1, h2, h3, h4, h5⟩ := h
  intro w hw
  simp only [worksOf, h3, h4, h5, List.map_nil, List.append_nil, List.mem_append, List.mem_singleton] at hw
  rcases hw with (hw | hw) | rfl
  · exact kidsCe_works st pm par _ h1 w hw
  · exact kidsCe_works st pm par _ h2 w hw
  · rfl

theorem worksOf_effN {st pm} (dflt F) (par : Id) (i : Instr) (h : i.ce st pm) :
    sumBy (Work.effN dflt pm F) (worksOf par i) = kidsEffN dflt pm F par i.create + kidsEffN dflt pm F par i.ext := by
  obtain ⟨_, h1, h2, h3, h4, h5⟩ := h
  simp [worksOf, h3, h4, h5, sumBy_append, sumBy, kidsEffN_eq, Work.effN]

theorem Item.effN_blind {dflt pm F} (hF : EdgeBlind F) (par par' : Id) (attr : Str) (x : Item) :
    x.effN dflt pm F par attr = x.effN dflt pm F par' attr := by
  cases x with
  | obj nid pid ty sc kids => simp [Item.effN, hF _ _ _]
  | ref v => simp only [Item.effN, hF _ _ _]

theorem itemsEffN_blind {dflt pm F} (hF : EdgeBlind F) (par par' : Id) (attr : Str) (l : List Item) :
    itemsEffN dflt pm F par attr l = itemsEffN dflt pm F par' attr l := by
  induction l with
  | nil => simp [itemsEffN]
  | cons x t ih => simp [itemsEffN, ih, Item.effN_blind hF par par' attr x]

theorem kidsEffN_blind {dflt pm F} (hF : EdgeBlind F) (par par' : Id) (kids : List (Str × List Item)) :
    kidsEffN dflt pm F par kids = kidsEffN dflt pm F par' kids := by
  induction kids with
  | nil => simp [kidsEffN]
  | cons x t ih => obtain ⟨k, l⟩ := x; simp [kidsEffN, ih, itemsEffN_blind hF par par' k l]

theorem Quiet.mono {F ps ps'} (hg : Grows ps ps') (h : Quiet F ps') : Quiet F ps :=
  fun p i hp => h p i (hg p i hp)

theorem step_ce {dflt st pm c s s'} (hinv : Inv dflt st pm c s) (h : step dflt s = .ok (some s')) :
    Inv dflt st pm c s' ∧ Grows s.ps s'.ps := by
  obtain ⟨hce, hag, hcons⟩ := hinv
  have hgrefl : Grows s.ps s.ps := fun _ _ h => h
  unfold step at h
  split at h
  · rename_i w rest hagd
    cases hw : stepWork dflt { s with agenda := rest } w with
    | error e => simp [hw, Except.map] at h
    | ok s2 =>
      simp [hw, Except.map] at h
      subst h
      have hwce : w.ce st pm := hce.1 w (by simp [hagd])
      have hrest : ∀ w' ∈ rest, w'.ce st pm := fun w' hw' => hce.1 w' (by simp [hagd, hw'])
      cases w with
      | items par attr l =>
        cases l with
        | nil =>
          cases hw
          refine ⟨⟨⟨hrest, hce.2.1, hce.2.2⟩, hag, ?_⟩, hgrefl⟩
          intro F hF hq
          have := hcons F hF hq
          simp [State.doneN, State.pendN, hagd, sumBy, Work.effN, itemsEffN] at *
          omega
        | cons x l =>
          simp only [stepWork] at hw
          have hs1 : State.ce st pm { s with agenda := Work.items par attr l :: rest } := by
            refine ⟨?_, hce.2.1, hce.2.2⟩
            intro w' hw'
            simp only [List.mem_cons] at hw'
            rcases hw' with rfl | hw'
            · exact hwce.2
            · exact hrest w' hw'
          obtain ⟨a, b, hg, c'⟩ := stepItem_ce (dflt := dflt) hwce.1 hs1 hag hw
          refine ⟨⟨a, b, ?_⟩, hg⟩
          intro F hF hq
          have hq0 : Quiet F s.ps := Quiet.mono hg hq
          have := hcons F hF hq0
          have := c' F hF hq0
          simp [State.doneN, State.pendN, hagd, sumBy, Work.effN, itemsEffN] at *
          omega
      | sets par l =>
        have : l = [] := hwce
        subst this
        cases hw
        refine ⟨⟨⟨hrest, hce.2.1, hce.2.2⟩, hag, ?_⟩, hgrefl⟩
        intro F hF hq
        have := hcons F hF hq
        simp [State.doneN, State.pendN, hagd, sumBy, Work.effN] at *
        omega
      | syncs _ _ _ => exact hwce.elim
      | resync _ _ _ _ _ _ => exact hwce.elim
      | fulfil _ _ => exact hwce.elim
      | dels _ _ _ => exact hwce.elim
  · rename_i hagd
    split at h
    · cases h
    · rename_i a q hq
      cases hw : startAction dflt { s with queue := q } a with
      | error e => simp [hw, Except.map] at h
      | ok s2 =>
        simp [hw, Except.map] at h
        subst h
        have hace : a.ce st pm := hce.2.1 a (by simp [hq])
        have hs1 : State.ce st pm { s with queue := q } :=
          ⟨hce.1, fun a' ha' => hce.2.1 a' (by simp [hq, ha']), hce.2.2⟩
        cases a with
        | whole i =>
          obtain ⟨at', hpar⟩ := hace.1
          simp only [startAction, hpar, resolveVal] at hw
          split at hw
          · cases hw
            refine ⟨⟨⟨hs1.1, hs1.2.1, ?_⟩, hag, ?_⟩, hgrefl⟩
            · intro e he
              simp only [State.defer, List.mem_append, List.mem_singleton] at he
              rcases he with he | rfl
              · exact hce.2.2 e he
              · exact hace
            · intro F hF hqt
              have := hcons F hF hqt
              simp [State.defer, State.doneN, State.pendN, hq, sumBy_append, sumBy, Action.effN] at *
              omega
          · cases hw
          · cases hw
          · rename_i par hpar'
            cases hw
            refine ⟨⟨⟨worksOf_ce par i hace, hs1.2.1, hs1.2.2⟩, hag, ?_⟩, hgrefl⟩
            intro F hF hqt
            have := hcons F hF hqt
            have hu : atomUse F at' = 0 := resolveAtom_quiet hqt hpar'
            have hwk := worksOf_effN dflt F par i hace
            rcases hF with hst | heb
            · have hid := resolveAtom_id (fun _ => hag hst) hpar'
              simp [State.doneN, State.pendN, hq, hagd, sumBy, Action.effN, Instr.effN, hpar, valId, valUse, hu, hid, hwk] at *
              omega
            · have e1 := kidsEffN_blind (dflt := dflt) (pm := pm) heb par ((valId pm (Val.atom at')).getD 0) i.create
              have e2 := kidsEffN_blind (dflt := dflt) (pm := pm) heb par ((valId pm (Val.atom at')).getD 0) i.ext
              simp [State.doneN, State.pendN, hq, hagd, sumBy, Action.effN, Instr.effN, hpar, valUse, hu, hwk, e1, e2] at *
              omega
        | piece par pc =>
          cases pc with
          | item attr x =>
            obtain ⟨a, b, hg, c'⟩ := stepItem_ce (dflt := dflt) hace hs1 hag hw
            refine ⟨⟨a, b, ?_⟩, hg⟩
            intro F hF hqt
            have hq0 : Quiet F s.ps := Quiet.mono hg hqt
            have := hcons F hF hq0
            have := c' F hF hq0
            simp [State.doneN, State.pendN, hq, sumBy, Action.effN] at *
            omega
          | setE _ _ => exact hace.elim
          | sync _ _ => exact hace.elim
          | resync _ _ _ _ _ => exact hace.elim

theorem step_none {dflt s} (h : step dflt s = .ok none) : s.agenda = [] ∧ s.queue = [] := by
  unfold step at h
  split at h
  · simp only [Except.map] at h
    split at h <;> simp at h
  · rename_i ha
    split at h
    · rename_i hq; exact ⟨ha, hq⟩
    · simp only [Except.map] at h
      split at h <;> simp at h

theorem run_ce {dflt st pm c} : ∀ (n : Nat) (s r : State), Inv dflt st pm c s → run dflt n s = some (.ok r) →
    Inv dflt st pm c r ∧ r.agenda = [] ∧ r.queue = [] ∧ Grows s.ps r.ps
  | 0, _, _, _, h => by simp [run] at h
  | n + 1, s, r, hinv, h => by
    unfold run at h
    split at h
    · simp at h
    · rename_i hs
      simp at h; subst h
      exact ⟨hinv, (step_none hs).1, (step_none hs).2, fun _ _ h => h⟩
    · rename_i s' hs
      obtain ⟨hinv', hg⟩ := step_ce hinv hs
      obtain ⟨a, b, c', d⟩ := run_ce n s' r hinv' h
      exact ⟨a, b, c', fun p i hp => d p i (hg p i hp)⟩

/-- weight of a result: bindings, list memberships, objects -/
def resN (F : Eff → Nat) (g : Graph) (ps : Promises) : Nat :=
  sumBy (fun e => F (.bind e.1 e.2)) ps + sumBy (fun e => F (.edge e.1 e.2.1 e.2.2)) g.edges +
    sumBy (fun e => F (.obj e.1 e.2)) g.objs

/-- weight of the effects a document describes -/
def docN (dflt : List (Str × Str)) (pm : Str → Option Id) (F : Eff → Nat) (doc : List Instr) : Nat :=
  sumBy (Instr.effN dflt pm F) doc

/-- the documents of the create/extend fragment -/
def DocCE (st : Prop) (pm : Str → Option Id) (doc : List Instr) : Prop := ∀ i ∈ doc, i.ce st pm

theorem init_inv {dflt st pm} (g : Graph) (doc : List Instr) (hdoc : DocCE st pm doc) :
    Inv dflt st pm (fun F => resN F g [] + docN dflt pm F doc) (init g doc) := by
  refine ⟨⟨by simp [init], ?_, by simp [init]⟩, ?_, ?_⟩
  · intro a ha
    simp only [init, List.mem_map] at ha
    obtain ⟨i, hi, rfl⟩ := ha
    exact hdoc i hi
  · intro _ p i h; simp [init] at h
  · intro F _ _
    simp [init, State.doneN, State.pendN, resN, docN, sumBy, sumBy_map, Action.effN]

/-- **conservation**: what a successful run has done is exactly what the document describes -/
theorem apply_ce {dflt st pm g doc g' ps'} (hdoc : DocCE st pm doc) (h : apply dflt g doc = .ok (g', ps')) :
    ∀ F, (st ∨ EdgeBlind F) → Quiet F ps' → resN F g' ps' = resN F g [] + docN dflt pm F doc := by
  unfold apply at h
  split at h
  · cases h
  · rename_i r hr
    cases r with
    | error e => simp [Except.bind] at h
    | ok sf =>
      simp only [Except.bind] at h
      obtain ⟨hinv, ha, hq, _⟩ := run_ce _ _ _ (init_inv (dflt := dflt) g doc hdoc) hr
      unfold finish at h
      split at h
      · rename_i hd
        cases h
        intro F hF hqt
        have := hinv.cons F hF hqt
        simpa [State.doneN, State.pendN, ha, hq, hd, sumBy, resN] using this
      · cases h



theorem sumBy_perm {α : Type} (f : α → Nat) {l l' : List α} (h : l.Perm l') : sumBy f l = sumBy f l' := by
  induction h with
  | nil => rfl
  | cons x _ ih => simp [sumBy, ih]
  | swap x y l => simp [sumBy]; omega
  | trans _ _ ih1 ih2 => exact ih1.trans ih2

/-- indicator weight of one effect -/
def ind (e : Eff) : Eff → Nat := fun e' => if e' = e then 1 else 0

theorem sumBy_count {α : Type} [BEq α] [LawfulBEq α] (a : α) (l : List α) :
    sumBy (fun x => if x == a then 1 else 0) l = l.count a := by
  induction l with
  | nil => simp [sumBy]
  | cons x t ih =>
    simp only [sumBy, ih, List.count_cons]
    by_cases h : x == a <;> simp [h] <;> omega

theorem sumBy_zero {α : Type} (l : List α) : sumBy (fun _ => 0) l = 0 := by
  induction l with
  | nil => rfl
  | cons x t ih => simp [sumBy, ih]

theorem resN_bind (g : Graph) (ps : Promises) (p : Str) (i : Id) :
    resN (ind (.bind p i)) g ps = ps.count (p, i) := by
  have h1 : (fun e : Str × Id => ind (.bind p i) (.bind e.1 e.2)) = fun e => if e == (p, i) then 1 else 0 := by
    funext e; obtain ⟨a, b⟩ := e; simp [ind]
  unfold resN
  rw [h1, sumBy_count]
  simp [ind, sumBy_zero]

theorem resN_edge (g : Graph) (ps : Promises) (o : Id) (a : Str) (m : Id) :
    resN (ind (.edge o a m)) g ps = g.edges.count (o, a, m) := by
  have h1 : (fun e : Id × Str × Id => ind (.edge o a m) (.edge e.1 e.2.1 e.2.2)) = fun e => if e == (o, a, m) then 1 else 0 := by
    funext e; obtain ⟨x, y, z⟩ := e; simp [ind]
  unfold resN
  rw [h1, sumBy_count]
  simp [ind, sumBy_zero]

theorem resN_obj (g : Graph) (ps : Promises) (i : Id) (c : Str) :
    resN (ind (.obj i c)) g ps = g.objs.count (i, c) := by
  have h1 : (fun e : Id × Str => ind (.obj i c) (.obj e.1 e.2)) = fun e => if e == (i, c) then 1 else 0 := by
    funext e; obtain ⟨x, y⟩ := e; simp [ind]
  unfold resN
  rw [h1, sumBy_count]
  simp [ind, sumBy_zero]

theorem quiet_of_not_use {e : Eff} (ps : Promises) (h : ∀ p, e ≠ .use p) : Quiet (ind e) ps := by
  intro p _ _
  simp only [ind]
  split
  · rename_i he; exact absurd he.symm (h p)
  · rfl

theorem docN_perm {dflt pm F} {doc doc' : List Instr} (h : doc.Perm doc') :
    docN dflt pm F doc = docN dflt pm F doc' := sumBy_perm _ h

theorem apply_ok_run {dflt g doc g' ps'} (h : apply dflt g doc = .ok (g', ps')) :
    ∃ n sf, run dflt n (init g doc) = some (.ok sf) ∧ sf.g = g' ∧ sf.ps = ps' ∧ sf.deferred = [] := by
  unfold apply at h
  split at h
  · cases h
  · rename_i r hr
    cases r with
    | error e => simp [Except.bind] at h
    | ok sf =>
      simp only [Except.bind, finish] at h
      split at h
      · rename_i hd; cases h; exact ⟨_, sf, hr, rfl, rfl, hd⟩
      · cases h

theorem apply_ok_nodup {dflt g doc g' ps'} (h : apply dflt g doc = .ok (g', ps')) :
    (ps'.map Prod.fst).Nodup := by
  obtain ⟨n, sf, hr, _, hps, _⟩ := apply_ok_run h
  have := (run_ps n _ sf hr).2 (by simp [init])
  rwa [hps] at this

theorem mem_iff_lookup (l : Promises) (hn : (l.map Prod.fst).Nodup) (p : Str) (i : Id) :
    (p, i) ∈ l ↔ l.lookup p = some i := by
  induction l with
  | nil => simp
  | cons x t ih =>
    obtain ⟨k, v⟩ := x
    simp only [List.map_cons, List.nodup_cons] at hn
    simp only [List.mem_cons, Prod.mk.injEq, List.lookup]
    by_cases hk : p = k
    · subst hk
      simp only [BEq.rfl, true_and]
      constructor
      · rintro (rfl | hm)
        · rfl
        · exact absurd (List.mem_map_of_mem (f := Prod.fst) hm) hn.1
      · intro h; cases h; exact Or.inl rfl
    · have : (p == k) = false := by simp [hk]
      simp [this, hk, ih hn.2]

theorem lookup_of_perm {l l' : Promises} (hp : l.Perm l') (hn : (l.map Prod.fst).Nodup)
    (hn' : (l'.map Prod.fst).Nodup) (p : Str) : l.lookup p = l'.lookup p := by
  cases h : l.lookup p with
  | some i =>
    have := (mem_iff_lookup l hn p i).mpr h
    exact ((mem_iff_lookup l' hn' p i).mp (hp.mem_iff.mp this)).symm
  | none =>
    cases h' : l'.lookup p with
    | none => rfl
    | some j =>
      have := (mem_iff_lookup l' hn' p j).mpr h'
      have := (mem_iff_lookup l hn p j).mp (hp.mem_iff.mpr this)
      rw [h] at this; cases this

theorem members_perm {g g' : Graph} (h : g.edges.Perm g'.edges) (o : Id) (a : Str) :
    (g.members o a).Perm (g'.members o a) := by
  unfold Graph.members
  exact (h.filter _).map _

end Capella.Decl
