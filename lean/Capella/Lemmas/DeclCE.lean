import Capella.Lemmas.Decl
/-!
Lemmas about the `decl.apply` machine, part 2: the create/extend fragment.

* `Item.all P` — a predicate on every object description / list entry of a piece of syntax, nested ones
  included; `State.all P Q` — on everything pending in a state (agenda, queue, deferred entries), which at
  the same time pins the state to the create/extend fragment (no `set`/`sync`/`delete` work).
* `CEStep mm s s'` — the transitions of the fragment, named (pop an entry; defer it under the first
  unresolved promise; append a reference; create an object, bind its promise id and re-queue what waited
  for it; expand an instruction).  `step_ceStep`: on a state of the fragment `step` is one of them.
  All invariants of create/extend runs are proved by cases on `CEStep`.
-/
namespace Capella.Decl

/-! ## syntax predicates -/

mutual
/-- `P` holds for the entry and for every entry nested below it -/
def Item.all (P : Item → Prop) : Item → Prop
  | .obj nid pid ty scal kids => P (.obj nid pid ty scal kids) ∧ kidsAll P kids
  | .ref v => P (.ref v)
  | .str n s => P (.str n s)
def kidsAll (P : Item → Prop) : List (Str × List Item) → Prop
  | [] => True
  | (_, l) :: t => itemsAll P l ∧ kidsAll P t
def itemsAll (P : Item → Prop) : List Item → Prop
  | [] => True
  | x :: t => x.all P ∧ itemsAll P t
end

/-- a create/extend instruction: head predicate `Q`, `P` on all entries, no other operator -/
def Instr.all (P : Item → Prop) (Q : Instr → Prop) (i : Instr) : Prop :=
  Q i ∧ kidsAll P i.create ∧ kidsAll P i.ext ∧ i.set = [] ∧ i.sync = [] ∧ i.del = []

def Action.all (P : Item → Prop) (Q : Instr → Prop) : Action → Prop
  | .whole i => i.all P Q
  | .piece _ (.item _ x) => x.all P
  | .piece _ _ => False

def Work.all (P : Item → Prop) : Work → Prop
  | .items _ _ l => itemsAll P l
  | .sets _ l => l = []
  | _ => False

def State.all (P : Item → Prop) (Q : Instr → Prop) (s : State) : Prop :=
  (∀ w ∈ s.agenda, w.all P) ∧ (∀ a ∈ s.queue, a.all P Q) ∧ (∀ e ∈ s.deferred, e.2.all P Q)

theorem kidsAll_works {P : Item → Prop} (par : Id) : ∀ (kids : List (Str × List Item)), kidsAll P kids →
    ∀ w ∈ kids.map (fun kl => Work.items par kl.1 kl.2), w.all P
  | [], _ => by simp
  | (k, l) :: t, h => by
    simp only [kidsAll] at h
    intro w hw
    simp only [List.map_cons, List.mem_cons] at hw
    rcases hw with rfl | hw
    · exact h.1
    · exact kidsAll_works par t h.2 w hw

theorem works_kidsAll {P : Item → Prop} (par : Id) : ∀ (kids : List (Str × List Item)),
    (∀ w ∈ kids.map (fun kl => Work.items par kl.1 kl.2), w.all P) → kidsAll P kids
  | [], _ => trivial
  | (k, l) :: t, h => by
    simp only [kidsAll]
    refine ⟨h (Work.items par k l) (by simp), works_kidsAll par t (fun w hw => h w ?_)⟩
    simp only [List.map_cons, List.mem_cons]
    exact Or.inr hw

theorem worksOf_all {P : Item → Prop} {Q : Instr → Prop} (par : Id) (i : Instr) (h : i.all P Q) :
    ∀ w ∈ worksOf par i, w.all P := by
  obtain ⟨_, h1, h2, h3, h4, h5⟩ := h
  intro w hw
  simp only [worksOf, h3, h4, h5, List.map_nil, List.append_nil, List.mem_append, List.mem_singleton] at hw
  rcases hw with (hw | hw) | rfl
  · exact kidsAll_works par _ h1 w hw
  · exact kidsAll_works par _ h2 w hw
  · rfl

theorem all_of_worksOf {P : Item → Prop} {Q : Instr → Prop} (par : Id) (i : Instr) (hq : Q i)
    (h3 : i.set = []) (h4 : i.sync = []) (h5 : i.del = []) (h : ∀ w ∈ worksOf par i, w.all P) : i.all P Q := by
  refine ⟨hq, works_kidsAll par _ (fun w hw => h w ?_), works_kidsAll par _ (fun w hw => h w ?_), h3, h4, h5⟩
  · simp only [worksOf, List.mem_append]; exact Or.inl (Or.inl (Or.inl (Or.inl hw)))
  · simp only [worksOf, List.mem_append]; exact Or.inl (Or.inl (Or.inl (Or.inr hw)))

/-! ## which promises a value uses; what an entry waits for -/

def keysUsesP (keys : List (Str × Atom)) (p : Str) : Prop := ∃ k, (k, Atom.promise p) ∈ keys

/-- `!promise p` occurs in the value (directly or as a find key) -/
def Val.usesP : Val → Str → Prop
  | .atom (.promise q), p => q = p
  | .atom _, _ => False
  | .find _ keys, p => keysUsesP keys p

def scalUsesP (scal : List (Str × Val)) (p : Str) : Prop := ∃ kv ∈ scal, kv.2.usesP p

/-- the promises an entry must see bound before it is carried out -/
def Item.headUses : Item → Str → Prop
  | .obj _ _ _ scal _, p => scalUsesP scal p
  | .ref v, p => v.usesP p
  | .str _ _, _ => False

def Action.headUses : Action → Str → Prop
  | .whole i, p => i.parent.usesP p
  | .piece _ (.item _ x), p => x.headUses p
  | .piece _ _, _ => False

theorem resolveAtom_unres {ps g a p} (h : resolveAtom ps g a = .error (.unres p)) :
    a = .promise p ∧ ps.lookup p = none := by
  cases a with
  | str s => simp [resolveAtom] at h
  | promise q =>
    simp only [resolveAtom] at h
    split at h
    · cases h
    · rename_i hn; cases h; exact ⟨rfl, hn⟩
  | uuid i => simp only [resolveAtom] at h; split at h <;> cases h
  | obj i => simp [resolveAtom] at h

theorem resolveKeys_unres {ps g p} : ∀ {keys}, resolveKeys ps g keys = .error (.unres p) →
    keysUsesP keys p ∧ ps.lookup p = none
  | [], h => by simp [resolveKeys] at h
  | (k, a) :: t, h => by
    simp only [resolveKeys, bind, Except.bind] at h
    split at h
    · rename_i e he
      cases h
      obtain ⟨rfl, hn⟩ := resolveAtom_unres he
      exact ⟨⟨k, by simp⟩, hn⟩
    · split at h
      · rename_i e he
        cases h
        obtain ⟨⟨k', hk'⟩, hn⟩ := resolveKeys_unres he
        exact ⟨⟨k', List.mem_cons_of_mem _ hk'⟩, hn⟩
      · cases h

theorem resolveVal_unres {ps g v p} (h : resolveVal ps g v = .error (.unres p)) :
    v.usesP p ∧ ps.lookup p = none := by
  cases v with
  | atom a =>
    obtain ⟨rfl, hn⟩ := resolveAtom_unres (by simpa [resolveVal] using h)
    exact ⟨rfl, hn⟩
  | find ty keys =>
    simp only [resolveVal, resolveFind, bind, Except.bind] at h
    split at h
    · rename_i e he
      cases h
      split at he
      · rename_i e' hk; cases he; exact resolveKeys_unres hk
      · split at he <;> cases he
    · split at h <;> cases h

theorem resolveScal_unres {ps g p} : ∀ {scal}, resolveScal ps g scal = .error (.unres p) →
    scalUsesP scal p ∧ ps.lookup p = none
  | [], h => by simp [resolveScal] at h
  | (k, v) :: t, h => by
    simp only [resolveScal, bind, Except.bind] at h
    split at h
    · rename_i e he
      cases h
      obtain ⟨hu, hn⟩ := resolveVal_unres he
      exact ⟨⟨(k, v), by simp, hu⟩, hn⟩
    · split at h
      · rename_i e he
        cases h
        obtain ⟨⟨kv, hm, hu⟩, hn⟩ := resolveScal_unres he
        exact ⟨⟨kv, List.mem_cons_of_mem _ hm, hu⟩, hn⟩
      · cases h

theorem resolveAtom_bound {ps g a r p} (h : resolveAtom ps g a = .ok r) (hu : a = .promise p) :
    ∃ i, ps.lookup p = some i := by
  subst hu
  simp only [resolveAtom] at h
  split at h
  · rename_i i hi; exact ⟨i, hi⟩
  · cases h

theorem resolveKeys_bound {ps g p} : ∀ {keys r}, resolveKeys ps g keys = .ok r → keysUsesP keys p →
    ∃ i, ps.lookup p = some i
  | [], _, _, ⟨k, hk⟩ => by simp at hk
  | (k, a) :: t, r, h, ⟨k', hk'⟩ => by
    simp only [resolveKeys, bind, Except.bind] at h
    split at h
    · cases h
    · rename_i v hv
      split at h
      · cases h
      · rename_i r' hr'
        simp only [List.mem_cons, Prod.mk.injEq] at hk'
        rcases hk' with ⟨_, rfl⟩ | hk'
        · exact resolveAtom_bound hv rfl
        · exact resolveKeys_bound hr' ⟨k', hk'⟩

theorem resolveVal_bound {ps g v r p} (h : resolveVal ps g v = .ok r) (hu : v.usesP p) :
    ∃ i, ps.lookup p = some i := by
  cases v with
  | atom a =>
    cases a with
    | promise q => cases hu; exact resolveAtom_bound (by simpa [resolveVal] using h) rfl
    | str _ => cases hu
    | uuid _ => cases hu
    | obj _ => cases hu
  | find ty keys =>
    simp only [resolveVal, resolveFind, bind, Except.bind] at h
    split at h
    · cases h
    · rename_i x hx
      split at hx
      · cases hx
      · rename_i rk hrk
        exact resolveKeys_bound hrk hu

theorem resolveScal_bound {ps g p} : ∀ {scal r}, resolveScal ps g scal = .ok r → scalUsesP scal p →
    ∃ i, ps.lookup p = some i
  | [], _, _, ⟨kv, hm, _⟩ => by simp at hm
  | (k, v) :: t, r, h, ⟨kv, hm, hu⟩ => by
    simp only [resolveScal, bind, Except.bind] at h
    split at h
    · cases h
    · rename_i v' hv
      split at h
      · cases h
      · rename_i r' hr'
        simp only [List.mem_cons] at hm
        rcases hm with rfl | hm
        · exact resolveVal_bound hv hu
        · exact resolveScal_bound hr' ⟨kv, hm, hu⟩

/-! ## the transitions of the fragment -/

/-- the entry taken up next (from the running loop of `_create_complex_objects`, or a re-queued
`{"parent": obj, "extend": {attr: [x]}}`), and the state once it has been popped -/
inductive Pop (s : State) (par : Id) (attr : Str) (x : Item) : State → Prop
  | agenda (l rest) (ha : s.agenda = Work.items par attr (x :: l) :: rest) :
      Pop s par attr x { s with agenda := Work.items par attr l :: rest }
  | queue (q) (ha : s.agenda = []) (hq : s.queue = Action.piece par (.item attr x) :: q) :
      Pop s par attr x { s with queue := q }

/-- the syntax whose head a transition consumes -/
inductive Consumed
  | nothing
  | item (x : Item)
  | instr (i : Instr)

inductive CEStep (mm : MM) (s : State) : Consumed → State → Prop
  | nil (par attr rest) (ha : s.agenda = Work.items par attr [] :: rest) : CEStep mm s .nothing { s with agenda := rest }
  | setsNil (par rest) (ha : s.agenda = Work.sets par [] :: rest) : CEStep mm s .nothing { s with agenda := rest }
  | deferRef (b par attr v p) (hp : Pop s par attr (.ref v) b)
      (hr : resolveVal b.ps b.g v = .error (.unres p)) :
      CEStep mm s .nothing (b.defer p (.piece par (.item attr (.ref v))))
  | deferObj (b par attr nid pid ty scal kids p) (hp : Pop s par attr (.obj nid pid ty scal kids) b)
      (hr : resolveScal b.ps b.g scal = .error (.unres p)) :
      CEStep mm s .nothing (b.defer p (.piece par (.item attr (.obj nid pid ty scal kids))))
  | append (b par attr v i) (hp : Pop s par attr (.ref v) b) (hr : resolveVal b.ps b.g v = .ok (.obj i)) :
      CEStep mm s (.item (.ref v)) { b with g := b.g.append par attr i }
  | single (b par attr nid str cr k fx cls) (hp : Pop s par attr (.str nid str) b)
      (hk : checkTarget mm b.g par attr = .ok (cr, some k, fx))
      (hc : createClass mm b.g par attr cr fx none = .ok cls) :
      CEStep mm s (.item (.str nid str)) { b with g := b.g.create par attr nid cls [(k, .str str)] }
  | create (b par attr nid pid ty scal kids rs cr sg fx cls s2) (hp : Pop s par attr (.obj nid pid ty scal kids) b)
      (hr : resolveScal b.ps b.g scal = .ok rs)
      (hk : checkTarget mm b.g par attr = .ok (cr, sg, fx))
      (hc : createClass mm b.g par attr cr fx ty = .ok cls)
      (hf : ({ b with g := b.g.create par attr nid cls rs } : State).fulfilOpt pid nid = .ok s2) :
      CEStep mm s (.item (.obj nid pid ty scal kids)) { s2 with agenda := kids.map (fun kl => Work.items nid kl.1 kl.2) ++ s2.agenda }
  | deferWhole (i q p) (ha : s.agenda = []) (hq : s.queue = .whole i :: q)
      (hr : resolveVal s.ps s.g i.parent = .error (.unres p)) :
      CEStep mm s .nothing (({ s with queue := q } : State).defer p (.whole i))
  | expand (i q par) (ha : s.agenda = []) (hq : s.queue = .whole i :: q)
      (hr : resolveVal s.ps s.g i.parent = .ok (.obj par)) :
      CEStep mm s (.instr i) { s with queue := q, agenda := worksOf par i }

theorem stepItem_ceStep {mm s b s' par attr x} (hp : Pop s par attr x b)
    (h : stepItem mm b par attr x = .ok s') : ∃ c, CEStep mm s c s' := by
  unfold stepItem at h
  split at h
  · cases h
  · rename_i cr sg fx hk
    cases x with
    | ref v =>
      simp only at h
      split at h
      · rename_i p hr; cases h; exact ⟨_, .deferRef b par attr v p hp hr⟩
      · cases h
      · rename_i i hr; cases h; exact ⟨_, .append b par attr v i hp hr⟩
      · cases h
    | str nid str =>
      simp only at h
      split at h
      · cases h
      · rename_i k
        split at h
        · cases h
        · rename_i cls hc; cases h; exact ⟨_, .single b par attr nid str cr k fx cls hp hk hc⟩
    | obj nid pid ty scal kids =>
      simp only at h
      split at h
      · rename_i p hr; cases h; exact ⟨_, .deferObj b par attr nid pid ty scal kids p hp hr⟩
      · cases h
      · rename_i rs hr
        split at h
        · cases h
        · rename_i cls hc
          simp only [bind, Except.bind, pure, Except.pure] at h
          split at h
          · cases h
          · rename_i s2 hf
            cases h
            exact ⟨_, .create b par attr nid pid ty scal kids rs cr sg fx cls s2 hp hr hk hc hf⟩

/-- on a state of the create/extend fragment, `step` is one of the named transitions -/
theorem step_ceStep {mm P Q s s'} (hs : s.all P Q) (h : step mm s = .ok (some s')) : ∃ c, CEStep mm s c s' := by
  unfold step at h
  split at h
  · rename_i w rest hagd
    cases hw : stepWork mm { s with agenda := rest } w with
    | error e => simp [hw, Except.map] at h
    | ok s2 =>
      simp [hw, Except.map] at h
      subst h
      have hwa : w.all P := hs.1 w (by simp [hagd])
      cases w with
      | items par attr l =>
        cases l with
        | nil =>
          have := checkTarget_items_nil hw
          subst this
          exact ⟨_, .nil par attr rest hagd⟩
        | cons x l =>
          simp only [stepWork] at hw
          exact stepItem_ceStep (.agenda l rest hagd) hw
      | sets par l =>
        have : l = [] := hwa
        subst this
        cases hw
        exact ⟨_, .setsNil par rest hagd⟩
      | syncs _ _ _ => exact hwa.elim
      | resync _ _ _ _ _ _ => exact hwa.elim
      | fulfil _ _ => exact hwa.elim
      | dels _ _ _ => exact hwa.elim
  · rename_i hagd
    split at h
    · cases h
    · rename_i a q hq
      cases hw : startAction mm { s with queue := q } a with
      | error e => simp [hw, Except.map] at h
      | ok s2 =>
        simp [hw, Except.map] at h
        subst h
        have haa : a.all P Q := hs.2.1 a (by simp [hq])
        cases a with
        | whole i =>
          simp only [startAction] at hw
          split at hw
          · rename_i p hr; cases hw; exact ⟨_, .deferWhole i q p hagd hq hr⟩
          · cases hw
          · cases hw
          · rename_i par hr; cases hw; exact ⟨_, .expand i q par hagd hq hr⟩
        | piece par pc =>
          cases pc with
          | item attr x => exact stepItem_ceStep (.queue q hagd hq) hw
          | setE _ _ => exact haa.elim
          | sync _ _ => exact haa.elim
          | resync _ _ _ _ _ => exact haa.elim

theorem step_none {mm s} (h : step mm s = .ok none) : s.agenda = [] ∧ s.queue = [] := by
  unfold step at h
  split at h
  · simp only [Except.map] at h
    split at h <;> simp at h
  · rename_i ha
    split at h
    · rename_i hq; exact ⟨ha, hq⟩
    · simp only [Except.map] at h
      split at h <;> simp at h

/-! ## `State.all` along a transition, forwards and backwards -/

theorem Pop.all_iff {P Q s par attr x b} (hp : Pop s par attr x b) :
    s.all P Q ↔ x.all P ∧ b.all P Q := by
  cases hp with
  | agenda l rest ha =>
    simp only [State.all, ha, List.mem_cons, forall_eq_or_imp, Work.all, itemsAll]
    constructor
    · rintro ⟨⟨⟨hx, hl⟩, hr⟩, hq, hd⟩; exact ⟨hx, ⟨hl, hr⟩, hq, hd⟩
    · rintro ⟨hx, ⟨hl, hr⟩, hq, hd⟩; exact ⟨⟨⟨hx, hl⟩, hr⟩, hq, hd⟩
  | queue q ha hq =>
    simp only [State.all, hq, List.mem_cons, forall_eq_or_imp, Action.all]
    constructor
    · rintro ⟨hw, ⟨hx, hr⟩, hd⟩; exact ⟨hx, hw, hr, hd⟩
    · rintro ⟨hx, hw, hr, hd⟩; exact ⟨hw, ⟨hx, hr⟩, hd⟩

theorem Pop.same {s par attr x b} (hp : Pop s par attr x b) :
    b.g = s.g ∧ b.ps = s.ps ∧ b.deferred = s.deferred := by
  cases hp <;> exact ⟨rfl, rfl, rfl⟩

theorem defer_all_iff {P Q} (s : State) (p : Str) (a : Action) :
    (s.defer p a).all P Q ↔ a.all P Q ∧ s.all P Q := by
  simp only [State.all, State.defer, List.mem_append, List.mem_singleton]
  constructor
  · rintro ⟨hw, hq, hd⟩
    exact ⟨hd (p, a) (Or.inr rfl), hw, hq, fun e he => hd e (Or.inl he)⟩
  · rintro ⟨ha, hw, hq, hd⟩
    refine ⟨hw, hq, ?_⟩
    rintro e (he | rfl)
    · exact hd e he
    · exact ha

theorem fulfil_all_iff {P Q} {s s' : State} {p i} (h : s.fulfil p i = .ok s') :
    s'.all P Q ↔ s.all P Q := by
  unfold State.fulfil at h
  split at h
  · cases h
  · cases h
    simp only [State.all, List.mem_append, List.mem_map, List.mem_filter]
    constructor
    · rintro ⟨hw, hq, hd⟩
      refine ⟨hw, fun a ha => hq a (Or.inl ha), ?_⟩
      intro e he
      by_cases hk : e.1 == p
      · exact hq e.2 (Or.inr ⟨e, ⟨he, hk⟩, rfl⟩)
      · exact hd e ⟨he, by simpa using hk⟩
    · rintro ⟨hw, hq, hd⟩
      refine ⟨hw, ?_, fun e he => hd e he.1⟩
      rintro a (ha | ⟨e, ⟨he, _⟩, rfl⟩)
      · exact hq a ha
      · exact hd e he

theorem fulfilOpt_all_iff {P Q} {s s' : State} {pid i} (h : s.fulfilOpt pid i = .ok s') :
    s'.all P Q ↔ s.all P Q := by
  cases pid with
  | none => simp [State.fulfilOpt] at h; subst h; rfl
  | some p => exact fulfil_all_iff h

theorem fulfilOpt_same {s s' : State} {pid i} (h : s.fulfilOpt pid i = .ok s') :
    s'.agenda = s.agenda ∧ s'.g = s.g := by
  cases pid with
  | none => simp [State.fulfilOpt] at h; subst h; exact ⟨rfl, rfl⟩
  | some p =>
    simp only [State.fulfilOpt, State.fulfil] at h
    split at h
    · cases h
    · cases h; exact ⟨rfl, rfl⟩

/-- what a transition needs of the entry it consumes for `State.all` to hold before it (the nested
entries and everything else pending are taken from the state after it) -/
def Consumed.Head (P : Item → Prop) (Q : Instr → Prop) : Consumed → Prop
  | .nothing => True
  | .item x => P x
  | .instr i => Q i ∧ i.set = [] ∧ i.sync = [] ∧ i.del = []

theorem State.all_g {P Q} (s : State) (g : Graph) : ({ s with g := g } : State).all P Q ↔ s.all P Q := Iff.rfl

/-- forwards: everything pending after a transition was pending before it -/
theorem CEStep.all_fwd {mm P Q s c s'} (h : CEStep mm s c s') (hs : s.all P Q) : s'.all P Q := by
  cases h with
  | nil par attr rest ha =>
    exact ⟨fun w hw => hs.1 w (by simp [ha, hw]), hs.2.1, hs.2.2⟩
  | setsNil par rest ha =>
    exact ⟨fun w hw => hs.1 w (by simp [ha, hw]), hs.2.1, hs.2.2⟩
  | deferRef b par attr v p hp hr =>
    obtain ⟨hx, hb⟩ := hp.all_iff.mp hs
    exact (defer_all_iff b p _).mpr ⟨hx, hb⟩
  | deferObj b par attr nid pid ty scal kids p hp hr =>
    obtain ⟨hx, hb⟩ := hp.all_iff.mp hs
    exact (defer_all_iff b p _).mpr ⟨hx, hb⟩
  | append b par attr v i hp hr => exact (hp.all_iff.mp hs).2
  | single b par attr nid str cr k fx cls hp hk hc => exact (hp.all_iff.mp hs).2
  | create b par attr nid pid ty scal kids rs cr sg fx cls s2 hp hr hk hc hf =>
    obtain ⟨hx, hb⟩ := hp.all_iff.mp hs
    have h2 : s2.all P Q := (fulfilOpt_all_iff hf).mpr hb
    simp only [Item.all] at hx
    refine ⟨?_, h2.2.1, h2.2.2⟩
    intro w hw
    simp only [List.mem_append] at hw
    rcases hw with hw | hw
    · exact kidsAll_works nid kids hx.2 w hw
    · exact h2.1 w hw
  | deferWhole i q p ha hq hr =>
    have hi : (Action.whole i).all P Q := hs.2.1 (.whole i) (by simp [hq])
    exact (defer_all_iff _ p _).mpr ⟨hi, hs.1, fun a ha' => hs.2.1 a (by simp [hq, ha']), hs.2.2⟩
  | expand i q par ha hq hr =>
    have hi : i.all P Q := hs.2.1 (.whole i) (by simp [hq])
    exact ⟨worksOf_all par i hi, fun a ha' => hs.2.1 a (by simp [hq, ha']), hs.2.2⟩

/-- backwards: if `P`/`Q` hold for everything pending after a transition and for the head of the entry
the transition consumed, they held for everything pending before it -/
theorem CEStep.all_bwd {mm P Q s c s'} (h : CEStep mm s c s') (hh : c.Head P Q) (hs : s'.all P Q) : s.all P Q := by
  cases h with
  | nil par attr rest ha =>
    refine ⟨?_, hs.2.1, hs.2.2⟩
    intro w hw
    simp only [ha, List.mem_cons] at hw
    rcases hw with rfl | hw
    · trivial
    · exact hs.1 w hw
  | setsNil par rest ha =>
    refine ⟨?_, hs.2.1, hs.2.2⟩
    intro w hw
    simp only [ha, List.mem_cons] at hw
    rcases hw with rfl | hw
    · rfl
    · exact hs.1 w hw
  | deferRef b par attr v p hp hr =>
    obtain ⟨hx, hb⟩ := (defer_all_iff b p _).mp hs
    exact hp.all_iff.mpr ⟨hx, hb⟩
  | deferObj b par attr nid pid ty scal kids p hp hr =>
    obtain ⟨hx, hb⟩ := (defer_all_iff b p _).mp hs
    exact hp.all_iff.mpr ⟨hx, hb⟩
  | append b par attr v i hp hr => exact hp.all_iff.mpr ⟨hh, hs⟩
  | single b par attr nid str cr k fx cls hp hk hc => exact hp.all_iff.mpr ⟨hh, hs⟩
  | create b par attr nid pid ty scal kids rs cr sg fx cls s2 hp hr hk hc hf =>
    have hA := (fulfilOpt_same hf).1
    have h2 : s2.all P Q := by
      refine ⟨fun w hw => hs.1 w ?_, hs.2.1, hs.2.2⟩
      simp only [List.mem_append]; exact Or.inr hw
    have hb : b.all P Q := (fulfilOpt_all_iff hf).mp h2
    refine hp.all_iff.mpr ⟨?_, hb⟩
    simp only [Item.all]
    refine ⟨hh, works_kidsAll nid kids (fun w hw => hs.1 w ?_)⟩
    simp only [List.mem_append]; exact Or.inl hw
  | deferWhole i q p ha hq hr =>
    obtain ⟨hx, hb⟩ := (defer_all_iff _ p _).mp hs
    refine ⟨hb.1, ?_, hb.2.2⟩
    intro a ha'
    simp only [hq, List.mem_cons] at ha'
    rcases ha' with rfl | ha'
    · exact hx
    · exact hb.2.1 a ha'
  | expand i q par ha hq hr =>
    refine ⟨by simp [ha], ?_, hs.2.2⟩
    intro a ha'
    simp only [hq, List.mem_cons] at ha'
    rcases ha' with rfl | ha'
    · exact all_of_worksOf par i hh.1 hh.2.1 hh.2.2.1 hh.2.2.2 hs.1
    · exact hs.2.1 a ha'

end Capella.Decl
