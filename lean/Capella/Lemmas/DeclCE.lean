import Capella.Lemmas.Decl
/-!
Lemmas about the `decl.apply` machine, part 2: conservation of effects for create/extend documents.

For a fixed map `pm` from promise ids to object ids, every piece of pending syntax has a multiset of
*effects* it will cause: objects created (`obj id cls`), list memberships added (`edge owner attr member`),
promises bound (`bind p id`). The effects already caused are visible in the state (`g.objs`, `g.edges`, `ps`).
Invariant: done + pending is constant along a run, as long as `ps` agrees with `pm`.
-/
namespace Capella.Decl

inductive Eff
  | bind (p : Str) (i : Id)
  | edge (o : Id) (a : Str) (m : Id)
  | obj (i : Id) (c : Str)
  deriving DecidableEq

def atomId (pm : Str → Option Id) : Atom → Option Id
  | .str _ => none
  | .promise p => pm p
  | .uuid i => some i
  | .obj i => some i

def valId (pm : Str → Option Id) : Val → Option Id
  | .atom a => atomId pm a
  | .find _ _ => none

def optEff (F : Eff → Nat) (pid : Option Str) (nid : Id) : Nat :=
  match pid with
  | none => 0
  | some p => F (.bind p nid)

mutual
def Item.effN (dflt : List (Str × Str)) (pm : Str → Option Id) (F : Eff → Nat) (par : Id) (attr : Str) : Item → Nat
  | .obj nid pid ty _ kids =>
    F (.obj nid (classFor dflt attr ty)) + F (.edge par attr nid) + optEff F pid nid + kidsEffN dflt pm F nid kids
  | .ref v => match valId pm v with
    | some m => F (.edge par attr m)
    | none => 0
def kidsEffN (dflt : List (Str × Str)) (pm : Str → Option Id) (F : Eff → Nat) (par : Id) : List (Str × List Item) → Nat
  | [] => 0
  | (a, l) :: t => itemsEffN dflt pm F par a l + kidsEffN dflt pm F par t
def itemsEffN (dflt : List (Str × Str)) (pm : Str → Option Id) (F : Eff → Nat) (par : Id) (attr : Str) : List Item → Nat
  | [] => 0
  | x :: t => x.effN dflt pm F par attr + itemsEffN dflt pm F par attr t
end

def Instr.effN (dflt : List (Str × Str)) (pm : Str → Option Id) (F : Eff → Nat) (i : Instr) : Nat :=
  kidsEffN dflt pm F ((valId pm i.parent).getD 0) i.create + kidsEffN dflt pm F ((valId pm i.parent).getD 0) i.ext

def Action.effN (dflt : List (Str × Str)) (pm : Str → Option Id) (F : Eff → Nat) : Action → Nat
  | .whole i => i.effN dflt pm F
  | .piece par (.item attr x) => x.effN dflt pm F par attr
  | .piece _ _ => 0

def Work.effN (dflt : List (Str × Str)) (pm : Str → Option Id) (F : Eff → Nat) : Work → Nat
  | .items par attr l => itemsEffN dflt pm F par attr l
  | _ => 0

def State.pendN (dflt : List (Str × Str)) (pm : Str → Option Id) (F : Eff → Nat) (s : State) : Nat :=
  sumBy (Work.effN dflt pm F) s.agenda + sumBy (Action.effN dflt pm F) s.queue +
    sumBy (fun e => e.2.effN dflt pm F) s.deferred

def State.doneN (F : Eff → Nat) (s : State) : Nat :=
  sumBy (fun e => F (.bind e.1 e.2)) s.ps + sumBy (fun e => F (.edge e.1 e.2.1 e.2.2)) s.g.edges +
    sumBy (fun e => F (.obj e.1 e.2)) s.g.objs

/-! the create/extend fragment: reference entries and parents are atoms, no set/sync/delete -/

/-- `pm` sends the promise id of a site to the id of that site -/
def pidOK (st : Prop) (pm : Str → Option Id) (pid : Option Str) (nid : Id) : Prop :=
  st → ∀ p, pid = some p → pm p = some nid

mutual
def Item.ce (st : Prop) (pm : Str → Option Id) : Item → Prop
  | .obj nid pid _ _ kids => pidOK st pm pid nid ∧ kidsCe st pm kids
  | .ref v => ∃ a, v = .atom a
def kidsCe (st : Prop) (pm : Str → Option Id) : List (Str × List Item) → Prop
  | [] => True
  | (_, l) :: t => itemsCe st pm l ∧ kidsCe st pm t
def itemsCe (st : Prop) (pm : Str → Option Id) : List Item → Prop
  | [] => True
  | x :: t => x.ce st pm ∧ itemsCe st pm t
end

def Instr.ce (st : Prop) (pm : Str → Option Id) (i : Instr) : Prop :=
  (∃ a, i.parent = .atom a) ∧ kidsCe st pm i.create ∧ kidsCe st pm i.ext ∧ i.set = [] ∧ i.sync = [] ∧ i.del = []

def Action.ce (st : Prop) (pm : Str → Option Id) : Action → Prop
  | .whole i => i.ce st pm
  | .piece _ (.item _ x) => x.ce st pm
  | .piece _ _ => False

def Work.ce (st : Prop) (pm : Str → Option Id) : Work → Prop
  | .items _ _ l => itemsCe st pm l
  | .sets _ l => l = []
  | _ => False

def State.ce (st : Prop) (pm : Str → Option Id) (s : State) : Prop :=
  (∀ w ∈ s.agenda, w.ce st pm) ∧ (∀ a ∈ s.queue, a.ce st pm) ∧ (∀ e ∈ s.deferred, e.2.ce st pm)

/-- `ps` agrees with `pm` -/
def Agrees (st : Prop) (ps : Promises) (pm : Str → Option Id) : Prop :=
  st → ∀ p i, ps.lookup p = some i → pm p = some i

/-- the weight ignores list memberships -/
def EdgeBlind (F : Eff → Nat) : Prop := ∀ o a m, F (.edge o a m) = 0

theorem kidsEffN_eq (dflt pm F) (par : Id) (kids : List (Str × List Item)) :
    sumBy (Work.effN dflt pm F) (kids.map (fun kl => Work.items par kl.1 kl.2)) = kidsEffN dflt pm F par kids := by
  induction kids with
  | nil => simp [sumBy, kidsEffN]
  | cons x t ih => obtain ⟨k, l⟩ := x; simp [sumBy, kidsEffN, Work.effN, ih] at *

theorem kidsCe_works (st pm) (par : Id) (kids : List (Str × List Item)) (h : kidsCe st pm kids) :
    ∀ w ∈ kids.map (fun kl => Work.items par kl.1 kl.2), w.ce st pm := by
  induction kids with
  | nil => simp
  | cons x t ih =>
    obtain ⟨k, l⟩ := x
    simp only [kidsCe] at h
    intro w hw
    simp only [List.map_cons, List.mem_cons] at hw
    rcases hw with rfl | hw
    · exact h.1
    · exact ih h.2 w hw

theorem resolveAtom_id {ps g pm a i} (hag : Agrees True ps pm) (h : resolveAtom ps g a = .ok (.obj i)) :
    atomId pm a = some i := by
  cases a with
  | str s => simp [resolveAtom] at h
  | promise p =>
    simp only [resolveAtom] at h
    split at h
    · rename_i j hj; cases h; exact hag trivial _ _ hj
    · cases h
  | uuid j =>
    simp only [resolveAtom] at h
    split at h
    · cases h; rfl
    · cases h
  | obj j => simp [resolveAtom] at h; simp [atomId, h]


theorem lookup_append_single (ps : Promises) (p q : Str) (i : Id) :
    (ps ++ [(p, i)]).lookup q = match ps.lookup q with
      | some j => some j
      | none => if q == p then some i else none := by
  induction ps with
  | nil => simp [List.lookup]; split <;> simp_all
  | cons x t ih =>
    obtain ⟨k, v⟩ := x
    simp only [List.cons_append, List.lookup]
    split <;> simp_all

theorem fulfil_ce {dflt st pm} {s s' : State} {p : Str} {i : Id} (hs : s.ce st pm) (hag : Agrees st s.ps pm)
    (hp : st → pm p = some i) (h : s.fulfil p i = .ok s') :
    s'.ce st pm ∧ Agrees st s'.ps pm ∧ s'.agenda = s.agenda ∧ s'.g = s.g ∧
    ∀ F, s'.doneN F + s'.pendN dflt pm F = s.doneN F + s.pendN dflt pm F + F (.bind p i) := by
  unfold State.fulfil at h
  split at h
  · cases h
  · rename_i hnone
    cases h
    refine ⟨⟨hs.1, ?_, ?_⟩, ?_, rfl, rfl, ?_⟩
    · intro a ha
      simp only [List.mem_append, List.mem_map, List.mem_filter] at ha
      rcases ha with ha | ⟨e, ⟨he, _⟩, rfl⟩
      · exact hs.2.1 a ha
      · exact hs.2.2 e he
    · intro e he
      simp only [List.mem_filter] at he
      exact hs.2.2 e he.1
    · intro hst q j hq
      simp only [lookup_append_single] at hq
      split at hq
      · rename_i j' hj'; cases hq; exact hag hst _ _ hj'
      · split at hq
        · rename_i hqp; cases hq; simp at hqp; subst hqp; exact hp hst
        · cases hq
    · intro F
      have hm := sumBy_filter_split (fun e : Str × Action => e.2.effN dflt pm F) (fun e => e.1 == p) s.deferred
      simp only [State.doneN, State.pendN, sumBy_append, sumBy_map, sumBy] at *
      omega

theorem setScals_objs (g : Graph) (i : Id) (sc : List (Str × RVal)) :
    (g.setScals i sc).objs = g.objs ∧ (g.setScals i sc).edges = g.edges := by
  induction sc generalizing g with
  | nil => simp [Graph.setScals]
  | cons x t ih => obtain ⟨k, v⟩ := x; simp [Graph.setScals, ih, Graph.setScal]

theorem create_objs (g : Graph) (par attr nid cls sc) :
    (g.create par attr nid cls sc).objs = g.objs ++ [(nid, cls)] ∧
    (g.create par attr nid cls sc).edges = g.edges ++ [(par, attr, nid)] := by
  simp [Graph.create, Graph.append, setScals_objs]

/-- conservation needs `ps` to agree with `pm` only where list memberships are counted -/
theorem stepItem_ce {dflt st pm s s' par attr} {x : Item} (hx : x.ce st pm) (hs : s.ce st pm)
    (hag : Agrees st s.ps pm) (h : stepItem dflt s par attr x = .ok s') :
    s'.ce st pm ∧ Agrees st s'.ps pm ∧
    ∀ F, (st ∨ EdgeBlind F) →
      s'.doneN F + s'.pendN dflt pm F = s.doneN F + s.pendN dflt pm F + x.effN dflt pm F par attr := by
  cases x with
  | ref v =>
    obtain ⟨a, rfl⟩ := hx
    simp only [stepItem] at h
    split at h
    · cases h
      refine ⟨⟨hs.1, hs.2.1, ?_⟩, hag, ?_⟩
      · intro e he
        simp only [State.defer, List.mem_append, List.mem_singleton] at he
        rcases he with he | rfl
        · exact hs.2.2 e he
        · exact ⟨a, rfl⟩
      · intro F _
        simp [State.defer, State.doneN, State.pendN, sumBy_append, sumBy, Action.effN]; omega
    · cases h
    · rename_i i hi
      cases h
      refine ⟨hs, hag, ?_⟩
      intro F hF
      rcases hF with hst | heb
      · have := resolveAtom_id (fun _ => hag hst) (by simpa [resolveVal] using hi)
        simp [State.doneN, State.pendN, Graph.append, sumBy_append, sumBy, Item.effN, valId, this]; omega
      · simp only [State.doneN, State.pendN, Graph.append, sumBy_append, sumBy, Item.effN, heb _ _ _]
        split <;> omega
    · cases h
  | obj nid pid ty scal kids =>
    simp only [Item.ce] at hx
    simp only [stepItem] at h
    split at h
    · cases h
      refine ⟨⟨hs.1, hs.2.1, ?_⟩, hag, ?_⟩
      · intro e he
        simp only [State.defer, List.mem_append, List.mem_singleton] at he
        rcases he with he | rfl
        · exact hs.2.2 e he
        · simpa [Action.ce, Item.ce] using hx
      · intro F _
        simp [State.defer, State.doneN, State.pendN, sumBy_append, sumBy, Action.effN]; omega
    · cases h
    · rename_i rs hrs
      have hc := create_objs s.g par attr nid (classFor dflt attr ty) rs
      cases pid with
      | none =>
        simp [State.fulfilOpt, bind, Except.bind, pure, Except.pure] at h
        cases h
        refine ⟨⟨?_, hs.2.1, hs.2.2⟩, hag, ?_⟩
        · intro w hw
          simp only [List.mem_append] at hw
          rcases hw with hw | hw
          · exact kidsCe_works st pm nid kids hx.2 w hw
          · exact hs.1 w hw
        · intro F _
          simp [State.doneN, State.pendN, sumBy_append, sumBy, Item.effN, optEff, kidsEffN_eq, hc.1, hc.2]; omega
      | some p =>
        simp only [State.fulfilOpt, bind, Except.bind, pure, Except.pure] at h
        split at h
        · cases h
        · rename_i s2 hs2
          cases h
          have hs1 : State.ce st pm { s with g := s.g.create par attr nid (classFor dflt attr ty) rs } := hs
          obtain ⟨hce, hag2, hA, hG, hF⟩ := fulfil_ce (dflt := dflt) hs1 hag (fun h => hx.1 h p rfl) hs2
          refine ⟨⟨?_, hce.2.1, hce.2.2⟩, hag2, ?_⟩
          · intro w hw
            simp only [List.mem_append] at hw
            rcases hw with hw | hw
            · exact kidsCe_works st pm nid kids hx.2 w hw
            · exact hce.1 w hw
          · intro F _
            have := hF F
            have hA' : s2.agenda = s.agenda := hA
            simp [State.doneN, State.pendN, sumBy_append, sumBy, Item.effN, optEff, kidsEffN_eq, hc.1, hc.2, hA', hG] at *
            omega

/-- the invariant of create/extend runs: fragment, agreement with `pm`, done + pending = `c` -/
structure Inv (dflt : List (Str × Str)) (st : Prop) (pm : Str → Option Id) (c : (Eff → Nat) → Nat)
    (s : State) : Prop where
  ce : s.ce st pm
  ag : Agrees st s.ps pm
  cons : ∀ F, (st ∨ EdgeBlind F) → s.doneN F + s.pendN dflt pm F = c F

theorem worksOf_ce {st pm} (par : Id) (i : Instr) (h : i.ce st pm) : ∀ w ∈ worksOf par i, w.ce st pm := by
  obtain ⟨_, h1, h2, h3, h4, h5⟩ := h
  intro w hw
  simp only [worksOf, h3, h4, h5, List.map_nil, List.append_nil, List.mem_append, List.mem_singleton] at hw
  rcases hw with (hw | hw) | rfl
  · exact kidsCe_works st pm par _ h1 w hw
  · exact kidsCe_works st pm par _ h2 w hw
  · rfl

theorem worksOf_effN {st pm} (dflt F) (par : Id) (i : Instr) (h : i.ce st pm) :
    sumBy (Work.effN dflt pm F) (worksOf par i) = kidsEffN dflt pm F par i.create + kidsEffN dflt pm F par i.ext := by
  obtain ⟨_, h1, h2, h3, h4, h5⟩ := h
  simp [worksOf, h3, h4, h5, sumBy_append, sumBy, kidsEffN_eq, Work.effN]

theorem Item.effN_blind {dflt pm F} (hF : EdgeBlind F) (par par' : Id) (attr : Str) (x : Item) :
    x.effN dflt pm F par attr = x.effN dflt pm F par' attr := by
  cases x with
  | obj nid pid ty sc kids => simp [Item.effN, hF _ _ _]
  | ref v => simp only [Item.effN, hF _ _ _]

theorem itemsEffN_blind {dflt pm F} (hF : EdgeBlind F) (par par' : Id) (attr : Str) (l : List Item) :
    itemsEffN dflt pm F par attr l = itemsEffN dflt pm F par' attr l := by
  induction l with
  | nil => simp [itemsEffN]
  | cons x t ih => simp [itemsEffN, ih, Item.effN_blind hF par par' attr x]

theorem kidsEffN_blind {dflt pm F} (hF : EdgeBlind F) (par par' : Id) (kids : List (Str × List Item)) :
    kidsEffN dflt pm F par kids = kidsEffN dflt pm F par' kids := by
  induction kids with
  | nil => simp [kidsEffN]
  | cons x t ih => obtain ⟨k, l⟩ := x; simp [kidsEffN, ih, itemsEffN_blind hF par par' k l]

theorem step_ce {dflt st pm c s s'} (hinv : Inv dflt st pm c s) (h : step dflt s = .ok (some s')) :
    Inv dflt st pm c s' := by
  obtain ⟨hce, hag, hcons⟩ := hinv
  unfold step at h
  split at h
  · rename_i w rest hagd
    cases hw : stepWork dflt { s with agenda := rest } w with
    | error e => simp [hw, Except.map] at h
    | ok s2 =>
      simp [hw, Except.map] at h
      subst h
      have hwce : w.ce st pm := hce.1 w (by simp [hagd])
      have hrest : ∀ w' ∈ rest, w'.ce st pm := fun w' hw' => hce.1 w' (by simp [hagd, hw'])
      cases w with
      | items par attr l =>
        cases l with
        | nil =>
          cases hw
          refine ⟨⟨hrest, hce.2.1, hce.2.2⟩, hag, ?_⟩
          intro F hF
          have := hcons F hF
          simp [State.doneN, State.pendN, hagd, sumBy, Work.effN, itemsEffN] at *
          omega
        | cons x l =>
          simp only [stepWork] at hw
          have hs1 : State.ce st pm { s with agenda := Work.items par attr l :: rest } := by
            refine ⟨?_, hce.2.1, hce.2.2⟩
            intro w' hw'
            simp only [List.mem_cons] at hw'
            rcases hw' with rfl | hw'
            · exact hwce.2
            · exact hrest w' hw'
          obtain ⟨a, b, c'⟩ := stepItem_ce (dflt := dflt) hwce.1 hs1 hag hw
          refine ⟨a, b, ?_⟩
          intro F hF
          have := hcons F hF
          have := c' F hF
          simp [State.doneN, State.pendN, hagd, sumBy, Work.effN, itemsEffN] at *
          omega
      | sets par l =>
        have : l = [] := hwce
        subst this
        cases hw
        refine ⟨⟨hrest, hce.2.1, hce.2.2⟩, hag, ?_⟩
        intro F hF
        have := hcons F hF
        simp [State.doneN, State.pendN, hagd, sumBy, Work.effN] at *
        omega
      | syncs _ _ _ => exact hwce.elim
      | resync _ _ _ _ _ _ => exact hwce.elim
      | fulfil _ _ => exact hwce.elim
      | dels _ _ _ => exact hwce.elim
  · rename_i hagd
    split at h
    · cases h
    · rename_i a q hq
      cases hw : startAction dflt { s with queue := q } a with
      | error e => simp [hw, Except.map] at h
      | ok s2 =>
        simp [hw, Except.map] at h
        subst h
        have hace : a.ce st pm := hce.2.1 a (by simp [hq])
        have hs1 : State.ce st pm { s with queue := q } :=
          ⟨hce.1, fun a' ha' => hce.2.1 a' (by simp [hq, ha']), hce.2.2⟩
        cases a with
        | whole i =>
          obtain ⟨at', hpar⟩ := hace.1
          simp only [startAction, hpar, resolveVal] at hw
          split at hw
          · cases hw
            refine ⟨⟨hs1.1, hs1.2.1, ?_⟩, hag, ?_⟩
            · intro e he
              simp only [State.defer, List.mem_append, List.mem_singleton] at he
              rcases he with he | rfl
              · exact hce.2.2 e he
              · exact hace
            · intro F hF
              have := hcons F hF
              simp [State.defer, State.doneN, State.pendN, hq, sumBy_append, sumBy, Action.effN] at *
              omega
          · cases hw
          · cases hw
          · rename_i par hpar'
            cases hw
            refine ⟨⟨worksOf_ce par i hace, hs1.2.1, hs1.2.2⟩, hag, ?_⟩
            intro F hF
            have := hcons F hF
            have hwk := worksOf_effN dflt F par i hace
            rcases hF with hst | heb
            · have hid := resolveAtom_id (fun _ => hag hst) hpar'
              simp [State.doneN, State.pendN, hq, hagd, sumBy, Action.effN, Instr.effN, hpar, valId, hid, hwk] at *
              omega
            · have e1 := kidsEffN_blind (dflt := dflt) (pm := pm) heb par ((valId pm (Val.atom at')).getD 0) i.create
              have e2 := kidsEffN_blind (dflt := dflt) (pm := pm) heb par ((valId pm (Val.atom at')).getD 0) i.ext
              simp [State.doneN, State.pendN, hq, hagd, sumBy, Action.effN, Instr.effN, hpar, hwk, e1, e2] at *
              omega
        | piece par pc =>
          cases pc with
          | item attr x =>
            obtain ⟨a, b, c'⟩ := stepItem_ce (dflt := dflt) hace hs1 hag hw
            refine ⟨a, b, ?_⟩
            intro F hF
            have := hcons F hF
            have := c' F hF
            simp [State.doneN, State.pendN, hq, sumBy, Action.effN] at *
            omega
          | setE _ _ => exact hace.elim
          | sync _ _ => exact hace.elim
          | resync _ _ _ _ _ => exact hace.elim

end Capella.Decl
