import Capella.Lemmas.PodsLinked

/-!
The linked-text codec end to end: what is read back after an assignment (exact), when that is the value
assigned, injectivity of the stored form, XML-safety of the stored form.
-/
namespace Capella.Pods

theorem dropLead_links (v : LT) : v.dropLead.links = v.links := by
  simp only [LT.dropLead]; split <;> rfl

theorem dropLead_ok (v : LT) (h : v.ok = true) : v.dropLead.ok = true := by
  simp only [LT.dropLead]
  split
  · simp only [LT.ok, Bool.and_eq_true] at h ⊢
    exact ⟨by simp [okText], h.2⟩
  · exact h

theorem dropLead_idem (v : LT) : v.dropLead.dropLead = v.dropLead := by
  simp only [LT.dropLead]
  split
  · simp
  · rename_i h; simp

theorem dropLead_of_kept (v : LT) (h : v.leadKept = true) : v.dropLead = v := by
  simp only [LT.leadKept, Bool.or_eq_true, List.isEmpty_iff, Bool.not_eq_true'] at h
  simp only [LT.dropLead]
  rcases h with h | h
  · split
    · cases v; simp_all
    · rfl
  · simp [h]

theorem dropLead_kept (v : LT) : v.dropLead.leadKept = true := by
  simp only [LT.dropLead, LT.leadKept]
  split
  · simp
  · rename_i h; simp [h]

theorem escapeLinked_value (v : LT) (h : v.ok = true) :
    escapeLinked (renderValue v) = some (.ok (renderRaw v.dropLead)) := by
  simp [escapeLinked, parseSub_renderValue v h, escapeFrags_value]

theorem unescapeLinked_raw (look : Str → Target) (v : LT) (h : v.ok = true) :
    unescapeLinked look (renderRaw v) = some (.ok (renderValue (view look v.dropLead))) := by
  simp [unescapeLinked, parseSub_renderRaw v h, unescapeFrags_raw look v]

/-- exact characterisation of what is read back -/
theorem readBack_value (look : Str → Target) (v : LT) (h : v.ok = true) :
    readBack look (renderValue v) = some (.ok (renderValue (view look v.dropLead))) := by
  simp only [readBack, escapeLinked_value v h]
  rw [unescapeLinked_raw look v.dropLead (dropLead_ok v h), dropLead_idem]

theorem viewLinks_live (look : Str → Target) (ls : List Link)
    (h : ls.all (fun l => look l.id == .named l.name) = true) : viewLinks look ls = ([], ls) := by
  induction ls with
  | nil => rfl
  | cons l r ih =>
    simp only [List.all_cons, Bool.and_eq_true, beq_iff_eq] at h
    simp [viewLinks, ih h.2, h.1]

theorem view_live (look : Str → Target) (v : LT) (h : allLive look v = true) : view look v = v := by
  simp only [view, viewLinks_live look v.links h, List.append_nil]

theorem readBack_live (look : Str → Target) (v : LT) (h : v.ok = true) (hl : allLive look v = true)
    (hk : v.leadKept = true) : readBack look (renderValue v) = some (.ok (renderValue v)) := by
  rw [readBack_value look v h, dropLead_of_kept v hk, view_live look v hl]

/-! ## injectivity of the stored form -/

theorem rawNode_inj (a b : List Link) (h : a.map rawNode = b.map rawNode) :
    a.map (fun l => (l.id, l.tail)) = b.map (fun l => (l.id, l.tail)) := by
  induction a generalizing b with
  | nil => cases b with
    | nil => rfl
    | cons _ _ => simp at h
  | cons x xs ih =>
    cases b with
    | nil => simp at h
    | cons y ys =>
      simp only [List.map_cons, List.cons.injEq, rawNode, Node.mk.injEq, Option.some.injEq, true_and] at h
      simp [h.1.1, h.1.2, ih ys h.2]

theorem leadOf_kept_inj (a b : LT) (ha : a.leadKept = true) (hb : b.leadKept = true)
    (h : leadOf a.lead = leadOf b.lead) : a.lead = b.lead := by
  simp only [LT.leadKept, Bool.or_eq_true, List.isEmpty_iff, Bool.not_eq_true'] at ha hb
  simp only [leadOf] at h
  rcases ha with ha | ha <;> rcases hb with hb | hb
  · rw [ha, hb]
  · rw [ha] at h; simp [hb] at h
  · rw [hb] at h; simp [ha] at h
  · simpa [ha, hb] using h

theorem renderRaw_inj (a b : LT) (ha : a.ok = true) (hb : b.ok = true)
    (ka : a.leadKept = true) (kb : b.leadKept = true) (h : renderRaw a = renderRaw b) :
    a.skeleton = b.skeleton := by
  have pa := parseSub_renderRaw a ha
  have pb := parseSub_renderRaw b hb
  rw [h, pb] at pa
  simp only [Option.some.injEq, Frags.mk.injEq] at pa
  simp only [LT.skeleton, Prod.mk.injEq]
  exact ⟨(leadOf_kept_inj b a kb ka pa.1).symm, (rawNode_inj _ _ pa.2).symm⟩

theorem escapeLinked_inj (a b : LT) (ha : a.ok = true) (hb : b.ok = true)
    (h : escapeLinked (renderValue a) = escapeLinked (renderValue b)) :
    a.dropLead.skeleton = b.dropLead.skeleton := by
  rw [escapeLinked_value a ha, escapeLinked_value b hb] at h
  simp only [Option.some.injEq, Except.ok.injEq] at h
  exact renderRaw_inj _ _ (dropLead_ok a ha) (dropLead_ok b hb) (dropLead_kept a) (dropLead_kept b) h

/-! ## the stored form is XML-legal text -/

theorem xmlOk_append (a b : Str) : xmlOk (a ++ b) = (xmlOk a && xmlOk b) := by simp [xmlOk]

theorem xmlOk_escChar (c : Char) (h : xmlChar c = true) : xmlOk (escChar c) = true := by
  simp only [escChar]
  split
  · decide
  split
  · decide
  split
  · decide
  split
  · decide
  split
  · decide
  · simp [xmlOk, h]

theorem xmlOk_htmlEscape (s : Str) (h : okText s = true) : xmlOk (htmlEscape s) = true := by
  induction s with
  | nil => rfl
  | cons c r ih =>
    rw [okText_cons, Bool.and_eq_true, Bool.and_eq_true] at h
    simp only [htmlEscape, xmlOk_append, xmlOk_escChar c h.1.1, ih h.2, Bool.and_self]

theorem xmlOk_renderLinksR (ls : List Link) (h : ls.all Link.okL = true) : xmlOk (renderLinksR ls) = true := by
  induction ls with
  | nil => rfl
  | cons l r ih =>
    simp only [List.all_cons, Bool.and_eq_true, Link.okL] at h
    have e1 : xmlOk aOpen = true := by decide
    have e2 : xmlOk aEmptyClose = true := by decide
    simp only [renderLinksR, renderLinkR, xmlOk_append, e1, e2, xmlOk_htmlEscape _ h.1.1.1,
      xmlOk_htmlEscape _ h.1.2, ih h.2, Bool.and_self]

theorem xmlOk_renderRaw (v : LT) (h : v.ok = true) : xmlOk (renderRaw v) = true := by
  obtain ⟨hl, hk⟩ := (LT.ok_iff v).mp h
  simp only [renderRaw, xmlOk_append, xmlOk_htmlEscape _ hl, xmlOk_renderLinksR _ hk, Bool.and_self]

/-! ## a link id `follow_link` rejects (the code before the repair) -/

theorem unescLinkOld_malformed (look : Str → Target) (l : Link) (h : look l.id = .malformed) :
    unescLinkOld look l.id l.tail = .error .valueError ∧
      unescNode look (rawNode l) = .ok (sDeletedL ++ htmlEscape l.id ++ sEntGt ++ htmlEscape l.tail) := by
  simp [rawNode, unescNode, unescLinkOld, h]

end Capella.Pods
