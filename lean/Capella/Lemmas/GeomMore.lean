/-
`Vector2D.boxsnap`, `Edge.vector_snap`, the default routes, and translation equivariance of the remaining
kernel functions (`snap_to_parent`, bounds, routes).
-/
import Capella.Lemmas.GeomView

namespace Capella.Geom

/-! ### `boxsnap` -/

theorem minBySq_mem (best : V2) (l : List V2) : minBySq best l = best ∨ minBySq best l ∈ l := by
  induction l generalizing best with
  | nil => exact Or.inl rfl
  | cons c cs ih =>
    unfold minBySq
    split_ifs
    · rcases ih c with h | h
      · exact Or.inr (by rw [h]; exact List.mem_cons_self)
      · exact Or.inr (List.mem_cons_of_mem _ h)
    · rcases ih best with h | h
      · exact Or.inl h
      · exact Or.inr (List.mem_cons_of_mem _ h)

theorem clamp_spec (lo hi v : Rat) (h : lo ≤ hi) :
    lo ≤ (if v < lo then lo else if hi < v then hi else v) ∧
    (if v < lo then lo else if hi < v then hi else v) ≤ hi ∧
    ((if v < lo then lo else if hi < v then hi else v) = v ∨
     (if v < lo then lo else if hi < v then hi else v) = lo ∨
     (if v < lo then lo else if hi < v then hi else v) = hi) := by
  split_ifs with h1 h2
  · exact ⟨le_refl _, h, Or.inr (Or.inl rfl)⟩
  · exact ⟨h, le_refl _, Or.inr (Or.inr rfl)⟩
  · exact ⟨le_of_not_gt h1, le_of_not_gt h2, Or.inl rfl⟩

theorem dirlessBoxsnap_on_outline (self tl br : V2) (hx : tl.x ≤ br.x) (hy : tl.y ≤ br.y) :
    onOutline { pos := tl, size := ⟨br.x - tl.x, br.y - tl.y⟩ } (dirlessBoxsnap self tl br) := by
  unfold dirlessBoxsnap
  simp only
  obtain ⟨a1, a2, a3⟩ := clamp_spec tl.x br.x self.x hx
  obtain ⟨b1, b2, b3⟩ := clamp_spec tl.y br.y self.y hy
  generalize (if self.x < tl.x then tl.x else if br.x < self.x then br.x else self.x) = X at *
  generalize (if self.y < tl.y then tl.y else if br.y < self.y then br.y else self.y) = Y at *
  by_cases hne : self ≠ ⟨X, Y⟩
  · rw [if_pos hne]
    have hxy : X ≠ self.x ∨ Y ≠ self.y := by
      by_contra hcon
      push Not at hcon
      exact hne (V2.ext' hcon.1.symm hcon.2.symm)
    refine ⟨⟨a1, by simp only; linarith, b1, by simp only; linarith⟩, ?_⟩
    simp only
    rcases hxy with h | h
    · rcases a3 with h' | h' | h'
      · exact absurd h' h
      · exact Or.inl h'
      · exact Or.inr (Or.inl (by linarith))
    · rcases b3 with h' | h' | h'
      · exact absurd h' h
      · exact Or.inr (Or.inr (Or.inl h'))
      · exact Or.inr (Or.inr (Or.inr (by linarith)))
  · rw [if_neg hne]
    have heq := not_not.mp hne
    have ex : self.x = X := congrArg V2.x heq
    have ey : self.y = Y := congrArg V2.y heq
    have hx1 : tl.x ≤ self.x := by rw [ex]; exact a1
    have hx2 : self.x ≤ br.x := by rw [ex]; exact a2
    have hy1 : tl.y ≤ self.y := by rw [ey]; exact b1
    have hy2 : self.y ≤ br.y := by rw [ey]; exact b2
    rcases minBySq_mem ⟨tl.x - self.x, 0⟩ [⟨br.x - self.x, 0⟩, ⟨0, tl.y - self.y⟩, ⟨0, br.y - self.y⟩] with h | h
    · rw [h]
      exact ⟨⟨by simp, by simp; linarith, by simp; linarith, by simp; linarith⟩, Or.inl (by simp)⟩
    · simp only [List.mem_cons, List.not_mem_nil, or_false] at h
      rcases h with h | h | h <;> rw [h]
      · exact ⟨⟨by simp; linarith, by simp, by simp; linarith, by simp; linarith⟩, Or.inr (Or.inl (by simp))⟩
      · exact ⟨⟨by simp; linarith, by simp; linarith, by simp, by simp; linarith⟩, Or.inr (Or.inr (Or.inl (by simp)))⟩
      · exact ⟨⟨by simp; linarith, by simp; linarith, by simp; linarith, by simp⟩, Or.inr (Or.inr (Or.inr (by simp)))⟩

/-- `Vector2D.boxsnap` lands on the outline of the box spanned by the two corners, whatever their order -/
theorem boxsnap_on_outline (self c1 c2 : V2) : onOutline (rectBox c1 c2) (boxsnap self c1 c2) :=
  dirlessBoxsnap_on_outline self _ _ (le_trans (min_le_left _ _) (le_max_left _ _))
    (le_trans (min_le_left _ _) (le_max_left _ _))

/-! ### `Edge.vector_snap` -/

theorem segProject_onSegment (a b v : V2) : onSegment a b (segProject a b v) := by
  unfold segProject onSegment
  simp only
  split_ifs with h1 h2
  · exact ⟨1, by norm_num, le_refl _, rfl⟩
  · exact ⟨0, le_refl _, by norm_num, rfl⟩
  · exact ⟨_, le_of_not_gt h2, le_of_not_gt h1, rfl⟩

theorem edgeSnapLoop_spec (v : V2) (l : List V2) :
    ∀ (best : Option (V2 × Rat)) (r : Option (V2 × Rat)), edgeSnapLoop v best l = .ok r →
      (r = best ∨ ∃ q d, r = some (q, d) ∧ onPolyline l q) ∧ (l.length ≥ 2 → r ≠ none) := by
  induction l with
  | nil => intro best r h; simp [edgeSnapLoop] at h; exact ⟨Or.inl h.symm, by simp⟩
  | cons a rest ih =>
    cases rest with
    | nil => intro best r h; simp [edgeSnapLoop] at h; exact ⟨Or.inl h.symm, by simp⟩
    | cons b rest' =>
      intro best r h
      unfold edgeSnapLoop at h
      split_ifs at h with hab
      obtain ⟨h1, h2⟩ := ih _ r h
      have hseg := segProject_onSegment a b v
      constructor
      · rcases h1 with h1 | ⟨q, d, hr, hq⟩
        · cases best with
          | none => exact Or.inr ⟨_, _, h1, Or.inl hseg⟩
          | some bd =>
            obtain ⟨bq, bdist⟩ := bd
            simp only at h1
            split_ifs at h1
            · exact Or.inr ⟨_, _, h1, Or.inl hseg⟩
            · exact Or.inl h1
        · exact Or.inr ⟨q, d, hr, Or.inr hq⟩
      · intro _
        rcases h1 with h1 | ⟨q, d, hr, _⟩
        · rw [h1]
          cases best with
          | none => simp
          | some bd => obtain ⟨bq, bdist⟩ := bd; simp only; split_ifs <;> simp
        · rw [hr]; simp

/-- `Edge.vector_snap` returns a point on one of the edge's segments -/
theorem edgeSnap_on_edge (points : List V2) (v q : V2) (h : edgeSnap points v = .ok q) : onPolyline points q := by
  unfold edgeSnap at h
  cases hl : edgeSnapLoop v none points with
  | error e => rw [hl] at h; simp at h
  | ok r =>
    rw [hl] at h
    obtain ⟨h1, _⟩ := edgeSnapLoop_spec v points none r hl
    cases r with
    | none => simp at h
    | some qd =>
      obtain ⟨q', d'⟩ := qd
      simp only [Except.ok.injEq] at h
      subst h
      rcases h1 with h1 | ⟨q2, d2, hr, hq⟩
      · simp at h1
      · simp only [Option.some.injEq, Prod.mk.injEq] at hr
        rw [hr.1]; exact hq

/-! ### routes -/

/-- `route_manhattan` starts on the outline of the source and ends on the outline of the target -/
theorem routeManhattan_ends (s t : Box) (hsw : 0 < s.size.x) (hsh : 0 < s.size.y) (htw : 0 < t.size.x)
    (hth : 0 < t.size.y) : ∃ a m1 m2 z, routeManhattan s t = .ok [a, m1, m2, z] ∧ onOutline s a ∧ onOutline t z := by
  obtain ⟨sp, hsp, hso⟩ := vectorSnap_spec s s.center t.center .manhattan hsw hsh (by decide)
  obtain ⟨tp, htp, hto⟩ := vectorSnap_spec t t.center s.center .manhattan htw hth (by decide)
  unfold routeManhattan
  rw [hsp, htp]
  simp only
  split_ifs
  · exact ⟨_, _, _, _, rfl, hso, hto⟩
  · exact ⟨_, _, _, _, rfl, hso, hto⟩

/-! ### translation of the remaining functions -/

theorem midBox_translate (parent child : Box) (oh : Rat) (v : V2) :
    midBox (parent.translate v) child oh = (midBox parent child oh).translate v := by
  unfold midBox Box.translate
  simp only [Box.mk.injEq, and_true]
  constructor
  · exact V2.ext' (by simp; ring) (by simp; ring)
  · congr 1
    exact V2.ext' (by simp; ring) (by simp; ring)

/-- moving parent and port together moves the snapped port position -/
theorem snapPort_translate (parent child : Box) (oh : Rat) (v : V2) :
    snapPort (parent.translate v) (child.translate v) oh = mv v (snapPort parent child oh) := by
  unfold snapPort
  have hm : midBox (parent.translate v) (child.translate v) oh = (midBox parent child oh).translate v :=
    midBox_translate parent child oh v
  have hmid : (child.translate v).pos + (child.translate v).size.sdiv 2 = child.pos + child.size.sdiv 2 + v :=
    V2.ext' (by simp; ring) (by simp; ring)
  simp only [hm, hmid, vectorSnap_translate]
  cases vectorSnap (midBox parent child oh) (child.pos + child.size.sdiv 2) (child.pos + child.size.sdiv 2) .oblique with
  | error e => rfl
  | ok nm =>
    simp only [mv_ok, Box.translate_pos]
    congr 1
    exact V2.ext' (by simp; ring) (by simp; ring)

theorem snapChild_translate (parent child : Box) (raw : V2) (m : Rat) (v : V2) :
    snapChild (parent.translate v) (child.translate v) raw m =
      ((snapChild parent child raw m).1 + v, (snapChild parent child raw m).2) := by
  unfold snapChild
  simp only [Box.translate_pos, Box.translate_size, V2.add_x, V2.add_y, V2.sub_x, V2.sub_y,
    max_add_add_right, Prod.mk.injEq]
  have ex : parent.pos.x + v.x + parent.size.x - (max child.pos.x (parent.pos.x + m) + v.x) - m
      = parent.pos.x + parent.size.x - max child.pos.x (parent.pos.x + m) - m := by ring
  have ey : parent.pos.y + v.y + parent.size.y - (max child.pos.y (parent.pos.y + m) + v.y) - m
      = parent.pos.y + parent.size.y - max child.pos.y (parent.pos.y + m) - m := by ring
  have e1 : parent.pos.x + v.x + m = parent.pos.x + m + v.x := by ring
  have e2 : parent.pos.y + v.y + m = parent.pos.y + m + v.y := by ring
  simp only [e1, e2, max_add_add_right, ex, ey]
  exact ⟨V2.ext' (by simp) (by simp), trivial⟩

theorem Rect.ofBox_translate (b : Box) (v : V2) : Rect.ofBox (b.translate v) = (Rect.ofBox b).translate v := by
  apply Rect.ext' <;> simp [Rect.ofBox, Rect.translate] <;> ring

theorem Rect.ofPoint_translate (p v : V2) : Rect.ofPoint (p + v) = (Rect.ofPoint p).translate v := by
  apply Rect.ext' <;> simp [Rect.ofPoint, Rect.translate]

theorem foldl_union_translate (f : α → Rect) (g : α → α) (v : V2) (hf : ∀ x, f (g x) = (f x).translate v)
    (l : List α) : ∀ acc : Rect, (l.map g).foldl (fun a x => a.union (f x)) (acc.translate v)
      = (l.foldl (fun a x => a.union (f x)) acc).translate v := by
  induction l with
  | nil => intro acc; rfl
  | cons y rest ih =>
    intro acc
    simp only [List.map_cons, List.foldl_cons, hf, Rect.union_translate]
    exact ih _

theorem boxBounds_translate (b : Box) (labels : List Box) (v : V2) :
    boxBounds (b.translate v) (labels.map (·.translate v)) = (boxBounds b labels).translate v := by
  unfold boxBounds
  rw [Rect.ofBox_translate]
  exact foldl_union_translate Rect.ofBox (·.translate v) v (fun x => Rect.ofBox_translate x v) labels _

theorem edgeBounds_translate (labels : List Box) (p0 : V2) (points : List V2) (v : V2) :
    edgeBounds (labels.map (·.translate v)) (p0 + v) (points.map (· + v)) = (edgeBounds labels p0 points).translate v := by
  unfold edgeBounds
  cases labels with
  | nil =>
    simp only [List.map_nil, Rect.ofPoint_translate]
    exact foldl_union_translate Rect.ofPoint (· + v) v (fun x => Rect.ofPoint_translate x v) points _
  | cons l ls =>
    simp only [List.map_cons, Rect.ofPoint_translate, Rect.ofBox_translate]
    rw [foldl_union_translate Rect.ofBox (·.translate v) v (fun x => Rect.ofBox_translate x v) ls,
      Rect.union_translate]
    exact foldl_union_translate Rect.ofPoint (· + v) v (fun x => Rect.ofPoint_translate x v) points _

theorem routeOblique_translate (s t : Box) (v : V2) :
    routeOblique (s.translate v) (t.translate v) = (routeOblique s t).map (· + v) := by
  simp [routeOblique, Box.translate_center]

theorem routeManhattan_translate (s t : Box) (v : V2) :
    routeManhattan (s.translate v) (t.translate v) = (routeManhattan s t).map (fun l => l.map (· + v)) := by
  unfold routeManhattan
  simp only [Box.translate_center, vectorSnap_translate]
  cases vectorSnap s s.center t.center .manhattan with
  | error e => rfl
  | ok sp =>
    cases vectorSnap t t.center s.center .manhattan with
    | error e => rfl
    | ok tp =>
      simp only [mv_ok, V2.add_x, V2.add_y]
      have e1 : sp.y + v.y - (tp.y + v.y) = sp.y - tp.y := by ring
      have e2 : sp.x + v.x - (tp.x + v.x) = sp.x - tp.x := by ring
      rw [e1, e2]
      split_ifs
      · simp only [Except.map, List.map_cons, List.map_nil]
        congr 1
        refine List.cons_eq_cons.mpr ⟨rfl, List.cons_eq_cons.mpr ⟨V2.ext' (by simp; ring) (by simp), ?_⟩⟩
        exact List.cons_eq_cons.mpr ⟨V2.ext' (by simp; ring) (by simp), rfl⟩
      · simp only [Except.map, List.map_cons, List.map_nil]
        congr 1
        refine List.cons_eq_cons.mpr ⟨rfl, List.cons_eq_cons.mpr ⟨V2.ext' (by simp) (by simp; ring), ?_⟩⟩
        exact List.cons_eq_cons.mpr ⟨V2.ext' (by simp) (by simp; ring), rfl⟩

end Capella.Geom
