import Capella.Lemmas.Decl
import Capella.Lemmas.DeclCE2
set_option linter.unusedSimpArgs false
/-!
Lemmas about sync-only documents: a run over a *settled* document (every entry finds exactly one object
that already carries the `set` values, recursively) changes nothing; a freshly created entry is found
again when no `set` key overrides a `find` key.
-/
namespace Capella.Decl

/-- find keys without `!promise` values (their resolution does not depend on `promises`) -/
def NoPromise : List (Str × Atom) → Prop
  | [] => True
  | (_, .promise _) :: _ => False
  | _ :: t => NoPromise t

/-- every `set` entry is a plain string and the object already has that value -/
def setHolds (g : Graph) (c : Id) : List (Str × SetVal) → Prop
  | [] => True
  | (k, .scalar (.atom (.str v))) :: t => g.getScal c k = some (.str v) ∧ setHolds g c t
  | _ :: _ => False

mutual
def SettledSo (g : Graph) (par : Id) (attr : Str) : SyncObj → Prop
  | .mk _ _ ty keys _ set ext sync =>
    ext = [] ∧ NoPromise keys ∧
    ∃ c rk, resolveFind [] g (g.members par attr) ty keys = .ok (some c, rk) ∧ setHolds g c set ∧
      SettledSync g c sync
def SettledSync (g : Graph) (par : Id) : List (Str × List SyncObj) → Prop
  | [] => True
  | (a, l) :: t => SettledSos g par a l ∧ SettledSync g par t
def SettledSos (g : Graph) (par : Id) (attr : Str) : List SyncObj → Prop
  | [] => True
  | so :: t => SettledSo g par attr so ∧ SettledSos g par attr t
end

/-- a sync-only instruction below an existing object, all of whose entries are settled -/
def SettledInstr (g : Graph) (i : Instr) : Prop :=
  ∃ par, (i.parent = .atom (.uuid par) ∧ g.has par = true ∨ i.parent = .atom (.obj par)) ∧
    i.create = [] ∧ i.ext = [] ∧ i.set = [] ∧ i.del = [] ∧ SettledSync g par i.sync

def SettledWork (g : Graph) : Work → Prop
  | .syncs par attr l => SettledSos g par attr l
  | .sets c l => setHolds g c l
  | .fulfil _ _ => True
  | _ => False

def SettledAction (g : Graph) : Action → Prop
  | .whole i => SettledInstr g i
  | .piece _ _ => False

def SettledState (g : Graph) (s : State) : Prop :=
  s.g = g ∧ s.deferred = [] ∧ (∀ w ∈ s.agenda, SettledWork g w) ∧ (∀ a ∈ s.queue, SettledAction g a)

theorem resolveKeys_noPromise (ps : Promises) (g : Graph) : ∀ keys, NoPromise keys →
    resolveKeys ps g keys = resolveKeys [] g keys
  | [], _ => rfl
  | (k, a) :: t, h => by
    cases a with
    | promise p => simp [NoPromise] at h
    | str s => simp only [NoPromise] at h; simp [resolveKeys, resolveAtom, resolveKeys_noPromise ps g t h]
    | uuid i => simp only [NoPromise] at h; simp [resolveKeys, resolveAtom, resolveKeys_noPromise ps g t h]
    | obj i => simp only [NoPromise] at h; simp [resolveKeys, resolveAtom, resolveKeys_noPromise ps g t h]

theorem resolveFind_noPromise (ps : Promises) (g : Graph) (cands ty keys) (h : NoPromise keys) :
    resolveFind ps g cands ty keys = resolveFind [] g cands ty keys := by
  simp [resolveFind, resolveKeys_noPromise ps g keys h]

theorem upd_same (key : Id × Str) (v : RVal) : ∀ (l : List ((Id × Str) × RVal)), l.lookup key = some v →
    Graph.upd key v l = l
  | [], h => by simp at h
  | (k, w) :: t, h => by
    simp only [List.lookup] at h
    simp only [Graph.upd]
    split at h
    · rename_i hk
      cases h
      have : key = k := by simpa using hk
      subst this
      simp
    · rename_i hk
      have hne : ((k, w).1 == key) = false := by
        simp only [beq_eq_false_iff_ne, ne_eq]
        intro he; subst he; simp at hk
      simp [hne, upd_same key v t h]

theorem setScal_same (g : Graph) (c : Id) (k : Str) (v : RVal) (h : g.getScal c k = some v) :
    g.setScal c k v = g := by
  unfold Graph.setScal
  unfold Graph.getScal at h
  rw [upd_same _ _ _ h]

theorem settledSync_works (g : Graph) (c : Id) : ∀ sync, SettledSync g c sync →
    ∀ w ∈ sync.map (fun kl => Work.syncs c kl.1 kl.2), SettledWork g w
  | [], _ => by simp
  | (a, l) :: t, h => by
    simp only [SettledSync] at h
    intro w hw
    simp only [List.map_cons, List.mem_cons] at hw
    rcases hw with rfl | hw
    · exact h.1
    · exact settledSync_works g c t h.2 w hw

theorem settled_step {mm g s s'} (hs : SettledState g s) (h : step mm s = .ok (some s')) :
    SettledState g s' := by
  obtain ⟨hg, hd, hag, hq⟩ := hs
  unfold step at h
  split at h
  · rename_i w rest hagd
    simp only [Except.map] at h
    split at h
    · cases h
    · rename_i s2 hw
      simp at h; subst h
      have hw0 : SettledWork g w := hag w (by simp [hagd])
      have hrest : ∀ w' ∈ rest, SettledWork g w' := fun w' hw' => hag w' (by simp [hagd, hw'])
      cases w with
      | syncs par attr l =>
        cases l with
        | nil => cases hw; exact ⟨hg, hd, hrest, hq⟩
        | cons so l =>
          obtain ⟨nid, nid2, ty, keys, pid, set, ext, sync⟩ := so
          simp only [SettledWork, SettledSos, SettledSo] at hw0
          obtain ⟨⟨hext, hnp, c, rk, hfind, hset, hsync⟩, hl⟩ := hw0
          simp only [stepWork, stepSync] at hw
          rw [resolveFind_noPromise _ _ _ _ _ hnp, hg, hfind] at hw
          simp only at hw
          cases hw
          refine ⟨rfl, hd, ?_, hq⟩
          intro w hw
          simp only [List.mem_append, List.mem_cons, hext, List.map_nil, List.not_mem_nil, or_false] at hw
          rcases hw with ((hw | rfl) | hw) | hw
          · exact settledSync_works g c sync hsync w hw
          · exact hset
          · cases pid <;> simp at hw
            subst hw; trivial
          · rcases hw with rfl | hw
            · exact hl
            · exact hrest w hw
      | sets c l =>
        cases l with
        | nil => cases hw; exact ⟨hg, hd, hrest, hq⟩
        | cons kv l =>
          obtain ⟨k, v⟩ := kv
          cases v with
          | list _ => simp [SettledWork, setHolds] at hw0
          | scalar v =>
            cases v with
            | find _ _ => simp [SettledWork, setHolds] at hw0
            | atom a =>
              cases a with
              | str sv =>
                simp only [SettledWork, setHolds] at hw0
                simp only [stepWork, stepSet, resolveVal, resolveAtom] at hw
                cases hw
                refine ⟨?_, hd, ?_, hq⟩
                · simp only; rw [hg, setScal_same g c k (.str sv) hw0.1]
                · intro w hw
                  simp only [List.mem_cons] at hw
                  rcases hw with rfl | hw
                  · exact hw0.2
                  · exact hrest w hw
              | promise _ => simp [SettledWork, setHolds] at hw0
              | uuid _ => simp [SettledWork, setHolds] at hw0
              | obj _ => simp [SettledWork, setHolds] at hw0
      | fulfil p i =>
        simp only [stepWork, State.fulfil] at hw
        split at hw
        · cases hw
        · cases hw
          refine ⟨hg, by simp [hd], hrest, ?_⟩
          intro a ha
          simp only [hd, List.filter_nil, List.map_nil, List.append_nil] at ha
          exact hq a ha
      | items _ _ _ => exact hw0.elim
      | resync _ _ _ _ _ _ => exact hw0.elim
      | dels _ _ _ => exact hw0.elim
  · rename_i hagd
    split at h
    · cases h
    · rename_i a q hqd
      simp only [Except.map] at h
      split at h
      · cases h
      · rename_i s2 hw
        simp at h; subst h
        have ha0 : SettledAction g a := hq a (by simp [hqd])
        have hq' : ∀ a' ∈ q, SettledAction g a' := fun a' ha' => hq a' (by simp [hqd, ha'])
        cases a with
        | piece _ _ => exact ha0.elim
        | whole i =>
          obtain ⟨par, hpar, hc, he, hset, hdel, hsync⟩ := ha0
          have hres : resolveVal s.ps s.g i.parent = .ok (.obj par) := by
            rcases hpar with ⟨hp, hhas⟩ | hp
            · simp [hp, resolveVal, resolveAtom, hg, hhas]
            · simp [hp, resolveVal, resolveAtom]
          simp only [startAction, hres] at hw
          cases hw
          refine ⟨hg, hd, ?_, hq'⟩
          intro w hw
          simp only [worksOf, hc, he, hset, hdel, List.map_nil, List.nil_append, List.append_nil,
            List.cons_append, List.mem_cons] at hw
          rcases hw with rfl | hw
          · trivial
          · exact settledSync_works g par i.sync hsync w hw

theorem settled_run {mm g} : ∀ (n : Nat) (s r : State), SettledState g s → run mm n s = some (.ok r) →
    r.g = g ∧ r.deferred = []
  | 0, _, _, _, h => by simp [run] at h
  | n + 1, s, r, hs, h => by
    unfold run at h
    split at h
    · simp at h
    · simp at h; subst h; exact ⟨hs.1, hs.2.1⟩
    · rename_i s' hstep
      exact settled_run n s' r (settled_step hs hstep) h

theorem lookup_upd (key key' : Id × Str) (v : RVal) : ∀ (l : List ((Id × Str) × RVal)),
    (Graph.upd key v l).lookup key' = if key' = key then some v else l.lookup key'
  | [] => by
    by_cases h : key' = key
    · simp [Graph.upd, List.lookup, h]
    · have hb : (key' == key) = false := by simp [h]
      simp [Graph.upd, List.lookup, h, hb]
  | (k, w) :: t => by
    simp only [Graph.upd]
    by_cases hk : k = key
    · subst hk
      by_cases h : key' = k
      · simp [List.lookup, h]
      · have hb : (key' == k) = false := by simp [h]
        simp [List.lookup, h, hb]
    · have : ((k, w).1 == key) = false := by simp [hk]
      simp only [this, Bool.false_eq_true, if_false, List.lookup]
      by_cases h : key' = k
      · subst h
        simp [hk]
      · have h' : (key' == k) = false := by simp [h]
        simp [h', lookup_upd key key' v t]

/-- after `setattr` in sequence, an attribute holds the last value assigned to it, else its old value -/
theorem getScal_setScals (i : Id) (k : Str) : ∀ (rs : List (Str × RVal)) (g : Graph),
    (g.setScals i rs).getScal i k = match rs.reverse.lookup k with
      | some v => some v
      | none => g.getScal i k
  | [], g => by simp [Graph.setScals]
  | (k', v') :: t, g => by
    simp only [Graph.setScals]
    rw [getScal_setScals i k t (g.setScal i k' v')]
    simp only [List.reverse_cons, List.lookup_append]
    cases ht : t.reverse.lookup k with
    | some v => simp
    | none =>
      simp only [Option.none_or, List.lookup]
      unfold Graph.getScal Graph.setScal
      simp only [lookup_upd]
      by_cases h : k = k'
      · simp [h]
      · have hb : (k == k') = false := by simp [h]
        simp [h, hb]

theorem getScal_setScals_other (i j : Id) (k : Str) (hij : j ≠ i) : ∀ (rs : List (Str × RVal)) (g : Graph),
    (g.setScals i rs).getScal j k = g.getScal j k
  | [], g => by simp [Graph.setScals]
  | (k', v') :: t, g => by
    simp only [Graph.setScals]
    rw [getScal_setScals_other i j k hij t]
    unfold Graph.getScal Graph.setScal
    simp [lookup_upd, hij]

theorem create_getScal_new (g : Graph) (par attr nid cls rs k) :
    (g.create par attr nid cls rs).getScal nid k = match rs.reverse.lookup k with
      | some v => some v
      | none => g.getScal nid k := by
  unfold Graph.create Graph.append
  have := getScal_setScals nid k rs ({ g with objs := g.objs ++ [(nid, cls)] } : Graph)
  simpa [Graph.getScal] using this

theorem create_getScal_old (g : Graph) (par attr nid cls rs j k) (h : j ≠ nid) :
    (g.create par attr nid cls rs).getScal j k = g.getScal j k := by
  unfold Graph.create Graph.append
  have := getScal_setScals_other nid j k h rs ({ g with objs := g.objs ++ [(nid, cls)] } : Graph)
  simpa [Graph.getScal] using this

theorem create_members (g : Graph) (par attr nid cls rs) :
    (g.create par attr nid cls rs).members par attr = g.members par attr ++ [nid] := by
  simp [Graph.members, (create_objs g par attr nid cls rs).2, List.filter_append]

theorem create_clsOf_new (g : Graph) (par attr nid cls rs) (h : g.clsOf nid = none) :
    (g.create par attr nid cls rs).clsOf nid = some cls := by
  unfold Graph.clsOf at *
  rw [(create_objs g par attr nid cls rs).1, List.lookup_append, h]
  simp [List.lookup]

theorem create_clsOf_old (g : Graph) (par attr nid cls rs j) (h : j ≠ nid) :
    (g.create par attr nid cls rs).clsOf j = g.clsOf j := by
  unfold Graph.clsOf
  rw [(create_objs g par attr nid cls rs).1, List.lookup_append]
  have hb : (j == nid) = false := by simp [h]
  cases g.objs.lookup j <;> simp [List.lookup, h, hb]

theorem isMatch_old (g : Graph) (par attr nid cls rs ty rk j) (h : j ≠ nid) :
    (g.create par attr nid cls rs).isMatch ty rk j = g.isMatch ty rk j := by
  unfold Graph.isMatch
  simp [create_clsOf_old g par attr nid cls rs j h, create_getScal_old g par attr nid cls rs j _ h]

/-- the last value assigned to every find key is the find value (no `set` key overrides a `find` key) -/
def KeysKept (rk rs : List (Str × RVal)) : Prop := ∀ kv ∈ rk, rs.reverse.lookup kv.1 = some kv.2

theorem isMatch_new (g : Graph) (par attr nid cls rs rk) (ty : Option Str) (hfresh : g.clsOf nid = none)
    (hcls : ∀ t, ty = some t → cls = t) (hk : KeysKept rk rs) :
    (g.create par attr nid cls rs).isMatch ty rk nid = true := by
  unfold Graph.isMatch
  simp only [Bool.and_eq_true, List.all_eq_true]
  constructor
  · cases ty with
    | none => rfl
    | some t =>
      have := hcls t rfl
      subst this
      simp [create_clsOf_new g par attr nid cls rs hfresh]
  · intro kv hkv
    rw [create_getScal_new, hk kv hkv]
    simp

theorem findAmong_none {g : Graph} {cands ty rk} (h : g.findAmong cands ty rk = .ok none) :
    cands.filter (g.isMatch ty rk) = [] := by
  unfold Graph.findAmong at h
  split at h
  · assumption
  · cases h
  · cases h

/-- **find after create**: if nothing in the list matched, the object created from `find | set | …` is the
one and only match afterwards — provided the find keys are still what the object carries. -/
theorem created_is_found (g : Graph) (par : Id) (attr : Str) (nid : Id) (cls : Str) (rs rk : List (Str × RVal))
    (ty : Option Str) (hfresh : g.clsOf nid = none) (hnm : nid ∉ g.members par attr)
    (hcls : ∀ t, ty = some t → cls = t)
    (hnone : g.findAmong (g.members par attr) ty rk = .ok none) (hk : KeysKept rk rs) :
    (g.create par attr nid cls rs).findAmong ((g.create par attr nid cls rs).members par attr) ty rk
      = .ok (some nid) := by
  have hold : (g.members par attr).filter ((g.create par attr nid cls rs).isMatch ty rk) = [] := by
    rw [← findAmong_none hnone]
    apply List.filter_congr
    intro m hm
    exact isMatch_old g par attr nid cls rs ty rk m (fun h => hnm (h ▸ hm))
  unfold Graph.findAmong
  rw [create_members, List.filter_append, hold]
  simp [isMatch_new g par attr nid cls rs rk ty hfresh hcls hk]

theorem settled_apply {mm g doc g' ps'} (hdoc : ∀ i ∈ doc, SettledInstr g i)
    (h : apply mm g doc = .ok (g', ps')) : g' = g := by
  obtain ⟨n, sf, hr, hg, _, _⟩ := apply_ok_run h
  have hs : SettledState g (init g doc) := by
    refine ⟨rfl, rfl, by simp [init], ?_⟩
    intro a ha
    simp only [init, List.mem_map] at ha
    obtain ⟨i, hi, rfl⟩ := ha
    exact hdoc i hi
  rw [← hg]
  exact (settled_run n _ sf hs hr).1

end Capella.Decl
