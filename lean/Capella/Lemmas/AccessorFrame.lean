import Capella.Lemmas.AccessorApi

/-! `Frame m`: the program `m` changes neither a tree, nor the index, nor the set of detached elements –
whatever it returns or raises (it may record branch hits).  Holds for everything the object layer does before
its first write: type resolution, reads, reference search, the enter phase of the purge `ExitStack`. -/
namespace Capella.Accessor
open Capella.Index Capella.AccTable

def Same (s s' : State) : Prop := s'.frags = s.frags ∧ s'.ix = s.ix ∧ s'.limbo = s.limbo ∧ s'.pending = s.pending

structure Frame {α} (m : M α) : Prop where
  fr : ∀ s, Same s (m s).st

theorem Same.refl (s : State) : Same s s := ⟨rfl, rfl, rfl, rfl⟩
theorem Same.trans {a b c : State} (h1 : Same a b) (h2 : Same b c) : Same a c :=
  ⟨h2.1.trans h1.1, h2.2.1.trans h1.2.1, h2.2.2.1.trans h1.2.2.1, h2.2.2.2.trans h1.2.2.2⟩

theorem frame_pure {α} (a : α) : Frame (pure a : M α) := ⟨fun s => Same.refl s⟩
theorem frame_raise {α} (e : Err) : Frame (raise e : M α) := ⟨fun s => Same.refl s⟩
theorem frame_getS : Frame getS := ⟨fun s => Same.refl s⟩
theorem frame_modS (f : State → State)
    (hf : ∀ s, (f s).frags = s.frags ∧ (f s).ix = s.ix ∧ (f s).limbo = s.limbo ∧ (f s).pending = s.pending) : Frame (modS f) := ⟨fun s => hf s⟩

theorem frame_bind {α β} (m : M α) (f : α → M β) (hm : Frame m) (hf : ∀ a, Frame (f a)) : Frame (m >>= f) := by
  constructor
  intro s
  have h1 := hm.fr s
  show Same s (match m s with | ⟨.ok a, s'⟩ => f a s' | ⟨.error e, s'⟩ => ⟨.error e, s'⟩).st
  rcases hms : m s with ⟨v, s'⟩
  rw [hms] at h1
  cases v with
  | ok a => exact h1.trans ((hf a).fr s')
  | error e => exact h1

theorem frame_tryCatch {α} (m : M α) (p : Err → Bool) (hd : M α) (hm : Frame m) (hh : Frame hd) : Frame (tryCatch m p hd) := by
  constructor
  intro s
  have h1 := hm.fr s
  unfold tryCatch
  rcases hms : m s with ⟨v, s'⟩
  rw [hms] at h1
  cases v with
  | ok a => exact h1
  | error e =>
    simp only
    split
    · exact h1.trans (hh.fr s')
    · exact h1

theorem frame_attempt {α} (m : M α) (hm : Frame m) : Frame (attempt m) := by
  constructor
  intro s
  have h1 := hm.fr s
  unfold attempt
  rcases hms : m s with ⟨v, s'⟩
  rw [hms] at h1
  cases v <;> exact h1

theorem frame_forM_ {α} (l : List α) (f : α → M Unit) (hf : ∀ a, Frame (f a)) : Frame (forM_ l f) := by
  induction l with
  | nil => exact frame_pure ()
  | cons a as ih => exact frame_bind _ _ (hf a) (fun _ => ih)

theorem frame_forIn {α β} (l : List α) (b : β) (f : α → β → M (ForInStep β)) (hf : ∀ a b, Frame (f a b)) :
    Frame (forIn l b f) := by
  induction l generalizing b with
  | nil => simp only [List.forIn_nil]; exact frame_pure b
  | cons a as ih =>
    rw [List.forIn_cons]
    apply frame_bind _ _ (hf a b)
    intro r
    cases r with
    | done b' => exact frame_pure b'
    | yield b' => exact ih b'

syntax "frame_lemma" : tactic
syntax "frame_step" : tactic
syntax "frame_auto" : tactic
macro_rules
  | `(tactic| frame_auto) => `(tactic| repeat' frame_step)
macro_rules
  | `(tactic| frame_step) => `(tactic| (first
      | intro _
      | exact frame_pure _
      | exact frame_raise _
      | exact frame_getS
      | (with_reducible apply frame_modS; intro _; exact ⟨rfl, rfl, rfl, rfl⟩)
      | frame_lemma
      | with_reducible apply frame_bind
      | with_reducible apply frame_tryCatch
      | with_reducible apply frame_attempt
      | with_reducible apply frame_forM_
      | with_reducible apply frame_forIn
      | assumption
      | split
      | (dsimp only)))
macro_rules | `(tactic| frame_lemma) => `(tactic| fail "no lemma")

theorem frame_hit (b) : Frame (hit b) := by unfold hit; frame_auto
macro_rules | `(tactic| frame_lemma) => `(tactic| with_reducible apply frame_hit)
theorem frame_touch (ns) : Frame (touch ns) := by unfold touch; frame_auto
macro_rules | `(tactic| frame_lemma) => `(tactic| with_reducible apply frame_touch)
theorem frame_getRow (n) : Frame (getRow n) := by unfold getRow; frame_auto
macro_rules | `(tactic| frame_lemma) => `(tactic| with_reducible apply frame_getRow)
theorem frame_ensureKnown (ns) : Frame (ensureKnown ns) := by unfold ensureKnown; frame_auto
macro_rules | `(tactic| frame_lemma) => `(tactic| with_reducible apply frame_ensureKnown)
theorem frame_attrOf (n k) : Frame (attrOf n k) := by unfold attrOf; frame_auto
macro_rules | `(tactic| frame_lemma) => `(tactic| with_reducible apply frame_attrOf)
theorem frame_findFragment (n) : Frame (findFragment n) := by unfold findFragment; frame_auto
macro_rules | `(tactic| frame_lemma) => `(tactic| with_reducible apply frame_findFragment)
theorem frame_kidsOf (n) : Frame (kidsOf n) := by unfold kidsOf; frame_auto
macro_rules | `(tactic| frame_lemma) => `(tactic| with_reducible apply frame_kidsOf)
theorem frame_parentOf (n) : Frame (parentOf n) := by unfold parentOf; frame_auto
macro_rules | `(tactic| frame_lemma) => `(tactic| with_reducible apply frame_parentOf)
theorem frame_fragOf (fi) : Frame (fragOf fi) := by unfold fragOf; frame_auto
macro_rules | `(tactic| frame_lemma) => `(tactic| with_reducible apply frame_fragOf)
theorem frame_lookupM (k) : Frame (lookupM k) := by unfold lookupM; frame_auto
macro_rules | `(tactic| frame_lemma) => `(tactic| with_reducible apply frame_lookupM)
theorem frame_followLink (l) : Frame (followLink l) := by unfold followLink; frame_auto
macro_rules | `(tactic| frame_lemma) => `(tactic| with_reducible apply frame_followLink)
theorem frame_followLinks_go (ib) (ps) : Frame (followLinks.go ib ps) := by
  induction ps with
  | nil => unfold followLinks.go; frame_auto
  | cons p ps ih => unfold followLinks.go; frame_auto
macro_rules | `(tactic| frame_lemma) => `(tactic| with_reducible apply frame_followLinks_go)
theorem frame_followLinks (l b) : Frame (followLinks l b) := by unfold followLinks; frame_auto
macro_rules | `(tactic| frame_lemma) => `(tactic| with_reducible apply frame_followLinks)
theorem frame_createLink (a b) : Frame (createLink a b) := by unfold createLink; frame_auto
macro_rules | `(tactic| frame_lemma) => `(tactic| with_reducible apply frame_createLink)
theorem frame_matchXtypeGeneric (t h) : Frame (matchXtypeGeneric t h) := by unfold matchXtypeGeneric; frame_auto
macro_rules | `(tactic| frame_lemma) => `(tactic| with_reducible apply frame_matchXtypeGeneric)
theorem frame_buildXtype (c) : Frame (buildXtype c) := by unfold buildXtype; frame_auto
macro_rules | `(tactic| frame_lemma) => `(tactic| with_reducible apply frame_buildXtype)
theorem frame_matchXtype (t r h) : Frame (matchXtype t r h) := by unfold matchXtype; frame_auto
macro_rules | `(tactic| frame_lemma) => `(tactic| with_reducible apply frame_matchXtype)
theorem frame_guessXtype (t r) : Frame (guessXtype t r) := by unfold guessXtype; frame_auto
macro_rules | `(tactic| frame_lemma) => `(tactic| with_reducible apply frame_guessXtype)
theorem frame_resolveXtype (t r h) : Frame (resolveXtype t r h) := by unfold resolveXtype; frame_auto
macro_rules | `(tactic| frame_lemma) => `(tactic| with_reducible apply frame_resolveXtype)
theorem frame_followHref (r) : Frame (followHref r) := by unfold followHref; frame_auto
macro_rules | `(tactic| frame_lemma) => `(tactic| with_reducible apply frame_followHref)
theorem frame_iterchildrenXt_go (xts) (cs) : Frame (iterchildrenXt.go xts cs) := by
  induction cs with
  | nil => unfold iterchildrenXt.go; frame_auto
  | cons _ _ ih => unfold iterchildrenXt.go; frame_auto
macro_rules | `(tactic| frame_lemma) => `(tactic| with_reducible apply frame_iterchildrenXt_go)
theorem frame_iterchildrenXt (n xts) : Frame (iterchildrenXt n xts) := by unfold iterchildrenXt; frame_auto
macro_rules | `(tactic| frame_lemma) => `(tactic| with_reducible apply frame_iterchildrenXt)
theorem frame_findRoots_go (roots) (xs) : Frame (findRoots.go roots xs) := by
  induction xs generalizing roots with
  | nil => unfold findRoots.go; frame_auto
  | cons _ _ ih => unfold findRoots.go; repeat' (first | (with_reducible apply ih) | frame_step)
macro_rules | `(tactic| frame_lemma) => `(tactic| with_reducible apply frame_findRoots_go)
theorem frame_findRoots (row obj) : Frame (findRoots row obj) := by unfold findRoots; frame_auto
macro_rules | `(tactic| frame_lemma) => `(tactic| with_reducible apply frame_findRoots)
theorem frame_directGet_lookupMP (a) : Frame (directGet.lookupM' a) := by unfold directGet.lookupM'; frame_auto
macro_rules | `(tactic| frame_lemma) => `(tactic| with_reducible apply frame_directGet_lookupMP)
theorem frame_directGet (row obj) : Frame (directGet row obj) := by unfold directGet; frame_auto
macro_rules | `(tactic| frame_lemma) => `(tactic| with_reducible apply frame_directGet)
theorem frame_findRefs (row obj) : Frame (findRefs row obj) := by unfold findRefs; frame_auto
macro_rules | `(tactic| frame_lemma) => `(tactic| with_reducible apply frame_findRefs)
theorem frame_followRef (row r) : Frame (followRef row r) := by unfold followRef; frame_auto
macro_rules | `(tactic| frame_lemma) => `(tactic| with_reducible apply frame_followRef)
theorem frame_linkGet (row obj) : Frame (linkGet row obj) := by unfold linkGet; frame_auto
macro_rules | `(tactic| frame_lemma) => `(tactic| with_reducible apply frame_linkGet)
theorem frame_attrGet (row obj) : Frame (attrGet row obj) := by unfold attrGet; frame_auto
macro_rules | `(tactic| frame_lemma) => `(tactic| with_reducible apply frame_attrGet)
theorem frame_roleGet (row obj) : Frame (roleGet row obj) := by unfold roleGet; frame_auto
macro_rules | `(tactic| frame_lemma) => `(tactic| with_reducible apply frame_roleGet)
theorem frame_accGetBase (row obj) : Frame (accGetBase row obj) := by unfold accGetBase; frame_auto
macro_rules | `(tactic| frame_lemma) => `(tactic| with_reducible apply frame_accGetBase)
theorem frame_accGet (t row obj) : Frame (accGet t row obj) := by unfold accGet; frame_auto
macro_rules | `(tactic| frame_lemma) => `(tactic| with_reducible apply frame_accGet)
theorem frame_purgeEnterBase (row obj tg) : Frame (purgeEnterBase row obj tg) := by unfold purgeEnterBase; frame_auto
macro_rules | `(tactic| frame_lemma) => `(tactic| with_reducible apply frame_purgeEnterBase)
theorem frame_purgeEnter (t row obj tg) : Frame (purgeEnter t row obj tg) := by unfold purgeEnter; frame_auto
macro_rules | `(tactic| frame_lemma) => `(tactic| with_reducible apply frame_purgeEnter)
theorem frame_findReferences (t idx tg) : Frame (findReferences t idx tg) := by unfold findReferences; frame_auto
macro_rules | `(tactic| frame_lemma) => `(tactic| with_reducible apply frame_findReferences)
theorem frame_iterDescendants (fuel) (n) : Frame (iterDescendants fuel n) := by
  induction fuel generalizing n with
  | zero => unfold iterDescendants; frame_auto
  | succ _ ih => unfold iterDescendants; repeat' (first | (with_reducible apply ih) | frame_step)
macro_rules | `(tactic| frame_lemma) => `(tactic| with_reducible apply frame_iterDescendants)
theorem frame_deleteEnter (t self es) : Frame (deleteEnter t self es) := by unfold deleteEnter; frame_auto
macro_rules | `(tactic| frame_lemma) => `(tactic| with_reducible apply frame_deleteEnter)
theorem frame_isInstanceOf (t n c) : Frame (isInstanceOf t n c) := by unfold isInstanceOf; frame_auto
macro_rules | `(tactic| frame_lemma) => `(tactic| with_reducible apply frame_isInstanceOf)
theorem frame_typecastTarget (t row) : Frame (typecastTarget t row) := by unfold typecastTarget; frame_auto
macro_rules | `(tactic| frame_lemma) => `(tactic| with_reducible apply frame_typecastTarget)
theorem frame_typecastOnOwner (t row o) : Frame (typecastOnOwner t row o) := by unfold typecastOnOwner; frame_auto
macro_rules | `(tactic| frame_lemma) => `(tactic| with_reducible apply frame_typecastOnOwner)
theorem frame_coupledRow (t row o) : Frame (coupledRow t row o) := by unfold coupledRow; frame_auto
macro_rules | `(tactic| frame_lemma) => `(tactic| with_reducible apply frame_coupledRow)
theorem frame_findRelations (o) : Frame (findRelations o) := by unfold findRelations; frame_auto
macro_rules | `(tactic| frame_lemma) => `(tactic| with_reducible apply frame_findRelations)
theorem frame_valKnown (v) : Frame (valKnown v) := by unfold valKnown; frame_auto
macro_rules | `(tactic| frame_lemma) => `(tactic| with_reducible apply frame_valKnown)

end Capella.Accessor
