import Capella.Model.PodsSpecMap
import Capella.Lemmas.PodsSpec2
/-!
`_Specification` refines a Python dict (`Capella/Model/PodsSpecMap.lean`).

* association lists built by `zip` against positions in the key list (`dictGet_zip`, `dictSet_zip`,
  `dictDel_zip`);
* `delNth` / `setNth` against the tag filters `langs`, `bodies`, `others`;
* on a `WellPaired` element `specGet` / `specSet` / `specDel` by position (`WellPaired.specGet_eq`, …):
  `_index_of` is the position in `__iter__`, `_body_at` never fails;
* `specStep_refines` (one call) and `specRun_refines` (any history).

Consequences and computed examples: `Capella/Lemmas/PodsSpecMap2.lean`.
-/
namespace Capella.Pods
variable {P : Params}

/-! ## association lists built by `zip` -/

/-- position of key `K` in a key list -/
def keyIdx (ks : List Str) (K : Str) : Option Nat := ks.findIdx? (fun x => decide (x = K))

theorem keyIdx_cons (k K : Str) (ks : List Str) :
    keyIdx (k :: ks) K = if k = K then some 0 else (keyIdx ks K).map (· + 1) := by
  simp [keyIdx, List.findIdx?_cons]

theorem keyIdx_none {ks : List Str} {K : Str} : keyIdx ks K = none ↔ K ∉ ks := by
  unfold keyIdx
  rw [List.findIdx?_eq_none_iff]
  constructor
  · intro h hm
    simpa using h K hm
  · intro h x hx
    simp only [decide_eq_false_iff_not]
    rintro rfl
    exact h hx

theorem keyIdx_lt {ks : List Str} {K : Str} {i : Nat} (h : keyIdx ks K = some i) : i < ks.length :=
  findIdx_lt _ _ _ h

theorem keyIdx_get {ks : List Str} {K : Str} {i : Nat} (h : keyIdx ks K = some i) : ks[i]? = some K := by
  obtain ⟨hl, h1, _⟩ := List.findIdx?_eq_some_iff_getElem.mp h
  simp at h1
  simp [hl, h1]

theorem dictGet_zip (K : Str) : ∀ (ks vs : List Str), ks.length = vs.length →
    dictGet (ks.zip vs) K = match keyIdx ks K with | none => none | some i => vs[i]?
  | [], [], _ => rfl
  | [], _ :: _, h => by simp at h
  | _ :: _, [], h => by simp at h
  | k :: ks, v :: vs, h => by
    have ih := dictGet_zip K ks vs (by simpa using h)
    rw [keyIdx_cons]
    by_cases hk : k = K
    · simp [dictGet, hk]
    · simp only [List.zip_cons_cons, dictGet, hk, if_false, ih]
      cases keyIdx ks K <;> simp

theorem dictSet_zip (K v' : Str) : ∀ (ks vs : List Str), ks.length = vs.length →
    dictSet (ks.zip vs) K v' = match keyIdx ks K with
      | none => ks.zip vs ++ [(K, v')]
      | some i => ks.zip (vs.set i v')
  | [], [], _ => rfl
  | [], _ :: _, h => by simp at h
  | _ :: _, [], h => by simp at h
  | k :: ks, v :: vs, h => by
    have ih := dictSet_zip K v' ks vs (by simpa using h)
    rw [keyIdx_cons]
    by_cases hk : k = K
    · simp [dictSet, hk]
    · simp only [List.zip_cons_cons, dictSet, hk, if_false, ih]
      cases keyIdx ks K <;> simp

theorem dictDel_zip (K : Str) : ∀ (ks vs : List Str), ks.length = vs.length →
    dictDel (ks.zip vs) K = match keyIdx ks K with
      | none => ks.zip vs
      | some i => (ks.eraseIdx i).zip (vs.eraseIdx i)
  | [], [], _ => rfl
  | [], _ :: _, h => by simp at h
  | _ :: _, [], h => by simp at h
  | k :: ks, v :: vs, h => by
    have ih := dictDel_zip K ks vs (by simpa using h)
    rw [keyIdx_cons]
    by_cases hk : k = K
    · simp [dictDel, hk]
    · simp only [List.zip_cons_cons, dictDel, hk, if_false, ih]
      cases keyIdx ks K <;> simp

theorem dictKeys_zip (ks vs : List Str) (h : ks.length = vs.length) : dictKeys (ks.zip vs) = ks := by
  simp [dictKeys, List.map_fst_zip, h]


/-! ## `delNth` / `setNth` against tag filters -/

/-- `delNth t` removes the `i`-th element of the `t`-tagged subsequence … -/
theorem filter_delNth_eq (t : Str) : ∀ (s : Spec) (i : Nat),
    (delNth t s i).filter (fun c => decide (c.tag = t)) =
      (s.filter (fun c => decide (c.tag = t))).eraseIdx i
  | [], _ => by simp [delNth]
  | c :: r, i => by
    unfold delNth
    by_cases hc : c.tag = t
    · cases i with
      | zero => simp [hc]
      | succ i => simp [hc, filter_delNth_eq t r i]
    · simp [hc, filter_delNth_eq t r i]

/-- … and nothing from a subsequence that excludes tag `t` -/
theorem filter_delNth_ne (t : Str) (q : Kid → Bool) (hq : ∀ c : Kid, c.tag = t → q c = false) :
    ∀ (s : Spec) (i : Nat), (delNth t s i).filter q = s.filter q
  | [], _ => by simp [delNth]
  | c :: r, i => by
    unfold delNth
    by_cases hc : c.tag = t
    · cases i with
      | zero => simp [hc, hq c hc]
      | succ i => simp [hc, hq c hc, filter_delNth_ne t q hq r i]
    · simp [hc, List.filter_cons, filter_delNth_ne t q hq r i]

theorem filter_setNth_ne (t v : Str) (q : Kid → Bool) (hq : ∀ c : Kid, c.tag = t → q c = false) :
    ∀ (s : Spec) (i : Nat), (setNth t v s i).filter q = s.filter q
  | [], _ => by simp [setNth]
  | c :: r, i => by
    unfold setNth
    by_cases hc : c.tag = t
    · cases i with
      | zero =>
        have h2 : q { c with text := some v } = false := hq _ hc
        rw [if_pos hc, List.filter_cons, List.filter_cons, h2, hq c hc]
        simp
      | succ i => simp [hc, hq c hc, filter_setNth_ne t v q hq r i]
    · simp [hc, List.filter_cons, filter_setNth_ne t v q hq r i]

theorem langs_delNth_langs (s : Spec) (i : Nat) :
    langs (delNth tLanguages s i) = (langs s).eraseIdx i := filter_delNth_eq tLanguages s i

theorem bodies_delNth_bodies (s : Spec) (i : Nat) :
    bodies (delNth tBodies s i) = (bodies s).eraseIdx i := filter_delNth_eq tBodies s i

theorem bodies_delNth_langs (s : Spec) (i : Nat) : bodies (delNth tLanguages s i) = bodies s :=
  filter_delNth_ne tLanguages _ (by intro c hc; simp [hc, Ne.symm tags_ne]) s i

theorem langs_delNth_bodies (s : Spec) (i : Nat) : langs (delNth tBodies s i) = langs s :=
  filter_delNth_ne tBodies _ (by intro c hc; simp [hc, tags_ne]) s i

theorem others_delNth_langs (s : Spec) (i : Nat) : others (delNth tLanguages s i) = others s :=
  filter_delNth_ne tLanguages _ (by intro c hc; simp [hc]) s i

theorem others_delNth_bodies (s : Spec) (i : Nat) : others (delNth tBodies s i) = others s :=
  filter_delNth_ne tBodies _ (by intro c hc; simp [hc]) s i

theorem others_setNth_bodies (v : Str) (s : Spec) (i : Nat) : others (setNth tBodies v s i) = others s :=
  filter_setNth_ne tBodies v _ (by intro c hc; simp [hc]) s i

theorem others_append_new (s : Spec) (v k : Str) :
    others (s ++ [⟨tBodies, some v⟩, ⟨tLanguages, some k⟩]) = others s := by
  simp [others]

/-- the raw body texts after `setNth tBodies` -/
theorem map_modify_text (v : Str) : ∀ (B : List Kid) (i : Nat),
    (B.modify i (fun c => { c with text := some v })).map (fun c => c.text.getD []) =
      (B.map (fun c => c.text.getD [])).set i v
  | [], _ => by simp
  | c :: r, 0 => by simp
  | c :: r, i + 1 => by simp [map_modify_text v r i]

theorem map_eraseIdx {α β} (f : α → β) : ∀ (l : List α) (i : Nat),
    (l.eraseIdx i).map f = (l.map f).eraseIdx i
  | [], _ => by simp
  | _ :: _, 0 => by simp
  | a :: r, i + 1 => by simp [map_eraseIdx f r i]

theorem specVals_setNth (v : Str) (s : Spec) (i : Nat) :
    specVals (setNth tBodies v s i) = (specVals s).set i v := by
  unfold specVals
  rw [bodies_setNth, map_modify_text]

theorem specKeys_setNth (v : Str) (s : Spec) (i : Nat) : specKeys (setNth tBodies v s i) = specKeys s := by
  unfold specKeys
  rw [langs_setNth]

theorem specKeys_del (s : Spec) (i : Nat) :
    specKeys (delNth tBodies (delNth tLanguages s i) i) = (specKeys s).eraseIdx i := by
  unfold specKeys
  rw [langs_delNth_bodies, langs_delNth_langs, map_eraseIdx]

theorem specVals_del (s : Spec) (i : Nat) :
    specVals (delNth tBodies (delNth tLanguages s i) i) = (specVals s).eraseIdx i := by
  unfold specVals
  rw [bodies_delNth_bodies, bodies_delNth_langs, map_eraseIdx]

theorem others_del (s : Spec) (i : Nat) :
    others (delNth tBodies (delNth tLanguages s i) i) = others s := by
  rw [others_delNth_bodies, others_delNth_langs]

theorem specKeys_append_new (s : Spec) (v k : Str) :
    specKeys (s ++ [⟨tBodies, some v⟩, ⟨tLanguages, some k⟩]) = specKeys s ++ [k] := by
  unfold specKeys
  rw [langs_append, langs_new]
  simp

theorem specVals_append_new (s : Spec) (v k : Str) :
    specVals (s ++ [⟨tBodies, some v⟩, ⟨tLanguages, some k⟩]) = specVals s ++ [v] := by
  unfold specVals
  rw [bodies_append, bodies_new]
  simp


/-! ## the invariant -/

theorem empty_wellPaired : WellPaired [] := by decide

theorem WellPaired.len_eq {s : Spec} (hw : WellPaired s) : (specKeys s).length = (specVals s).length := by
  have := hw.1
  unfold Balanced at this
  simp [specKeys, specVals, this]

/-- with every `languages` text present, `_index_of` is the position in `__iter__` -/
theorem indexOf_eq_keyIdx_aux (K : Str) : ∀ (L : List Kid), (∀ c ∈ L, c.text.isSome = true) →
    L.findIdx? (fun c => decide (c.text = some K)) = keyIdx (L.map (fun c => c.text.getD [])) K
  | [], _ => rfl
  | c :: r, h => by
    have ih := indexOf_eq_keyIdx_aux K r (fun c hc => h c (List.mem_cons_of_mem _ hc))
    have hc := h c List.mem_cons_self
    rw [List.map_cons, keyIdx_cons, List.findIdx?_cons, ih]
    cases ht : c.text with
    | none => simp [ht] at hc
    | some x => simp

theorem WellPaired.indexOf_eq {s : Spec} (hw : WellPaired s) (K : Str) :
    indexOf s K = keyIdx (specKeys s) K :=
  indexOf_eq_keyIdx_aux K (langs s) hw.2.1

/-- on a well-paired spec `_body_at` never fails at a position `_index_of` returned -/
theorem WellPaired.bodyAt_some {s : Spec} (hw : WellPaired s) {K : Str} {i : Nat}
    (hi : keyIdx (specKeys s) K = some i) :
    ∃ b, bodyAt s i = some b ∧ (specVals s)[i]? = some (b.text.getD []) := by
  have hlt : i < (bodies s).length := by
    have := keyIdx_lt hi
    rw [hw.len_eq] at this
    simpa [specVals] using this
  refine ⟨(bodies s)[i], ?_, ?_⟩
  · simp [bodyAt, hlt]
  · simp [specVals, hlt]

theorem WellPaired.keys_eq {s : Spec} (hw : WellPaired s) : dictKeys (absDict s) = specKeys s :=
  dictKeys_zip _ _ hw.len_eq

theorem WellPaired.dictLen_eq {s : Spec} (hw : WellPaired s) : dictLen (absDict s) = specLen s := by
  simp [dictLen, absDict, specLen, hw.len_eq]

/-! ## the three operations on a well-paired spec, by position -/

theorem WellPaired.dictGet_eq {s : Spec} (hw : WellPaired s) (K : Str) :
    dictGet (absDict s) K = match keyIdx (specKeys s) K with
      | none => none
      | some i => (specVals s)[i]? :=
  dictGet_zip K _ _ hw.len_eq

theorem WellPaired.specGet_eq {s : Spec} (hw : WellPaired s) (k : Str) :
    specGet P s k = match dictGet (absDict s) (specAlias k) with
      | none => .error .keyError
      | some raw => .ok (if specAlias k = kLinked then P.unescLinked raw else raw) := by
  unfold specGet
  simp only
  rw [hw.indexOf_eq, hw.dictGet_eq]
  cases hi : keyIdx (specKeys s) (specAlias k) with
  | none => rfl
  | some i =>
    obtain ⟨b, hb, hv⟩ := hw.bodyAt_some hi
    simp [hb, hv]

theorem WellPaired.specSet_eq {s : Spec} (hw : WellPaired s) (k v : Str) :
    specSet P s k v =
      match (if specAlias k = kLinked then P.escLinked v else some v) with
      | none => .error .valueError
      | some v' =>
        match keyIdx (specKeys s) (specAlias k) with
        | none =>
          if xmlOk v' && xmlOk (specAlias k)
          then .ok (s ++ [⟨tBodies, some v'⟩, ⟨tLanguages, some (specAlias k)⟩])
          else .error .valueError
        | some i => if xmlOk v' then .ok (setNth tBodies v' s i) else .error .valueError := by
  unfold specSet
  simp only
  rw [hw.indexOf_eq]
  cases (if specAlias k = kLinked then P.escLinked v else some v) with
  | none => rfl
  | some v' =>
    cases hi : keyIdx (specKeys s) (specAlias k) with
    | none => rfl
    | some i =>
      obtain ⟨b, hb, _⟩ := hw.bodyAt_some hi
      simp [hb]

theorem WellPaired.specDel_eq {s : Spec} (hw : WellPaired s) (k : Str) :
    specDel s k =
      match keyIdx (specKeys s) (specAlias k) with
      | none => .error .keyError
      | some i => .ok (delNth tBodies (delNth tLanguages s i) i) := by
  unfold specDel
  simp only
  rw [hw.indexOf_eq]
  cases hi : keyIdx (specKeys s) (specAlias k) with
  | none => rfl
  | some i =>
    obtain ⟨b, hb, _⟩ := hw.bodyAt_some hi
    simp [hb]

/-! ## the invariant and the abstraction under the three state changes -/

theorem WellPaired.setNth {s : Spec} (hw : WellPaired s) (v : Str) (i : Nat) :
    WellPaired (setNth tBodies v s i) := by
  refine ⟨balanced_setNth s v i hw.1, ?_, ?_⟩
  · rw [langs_setNth]; exact hw.2.1
  · rw [specKeys_setNth]; exact hw.2.2

theorem WellPaired.append_new {s : Spec} (hw : WellPaired s) (v K : Str) (hn : keyIdx (specKeys s) K = none) :
    WellPaired (s ++ [⟨tBodies, some v⟩, ⟨tLanguages, some K⟩]) := by
  refine ⟨balanced_append_new s K v hw.1, ?_, ?_⟩
  · rw [langs_append, langs_new]
    intro c hc
    rcases List.mem_append.mp hc with h | h
    · exact hw.2.1 c h
    · simp at h; simp [h]
  · rw [specKeys_append_new, List.nodup_append]
    refine ⟨hw.2.2, by simp, ?_⟩
    intro a ha b hb
    simp at hb
    rintro rfl
    exact keyIdx_none.mp hn (hb ▸ ha)

theorem WellPaired.del {s : Spec} (hw : WellPaired s) (i : Nat) :
    WellPaired (delNth tBodies (delNth tLanguages s i) i) := by
  refine ⟨?_, ?_, ?_⟩
  · unfold Balanced
    rw [langs_delNth_bodies, langs_delNth_langs, bodies_delNth_bodies, bodies_delNth_langs]
    have := hw.1
    unfold Balanced at this
    simp [List.length_eraseIdx, this]
  · rw [langs_delNth_bodies, langs_delNth_langs]
    intro c hc
    exact hw.2.1 c (List.mem_of_mem_eraseIdx hc)
  · rw [specKeys_del]
    exact List.Nodup.sublist (List.eraseIdx_sublist _ _) hw.2.2

theorem absDict_setNth {s : Spec} (hw : WellPaired s) (v : Str) {K : Str} {i : Nat}
    (hi : keyIdx (specKeys s) K = some i) :
    absDict (setNth tBodies v s i) = dictSet (absDict s) K v := by
  unfold absDict
  rw [dictSet_zip K v _ _ hw.len_eq, hi, specKeys_setNth, specVals_setNth]

theorem absDict_append_new {s : Spec} (hw : WellPaired s) (v K : Str) :
    absDict (s ++ [⟨tBodies, some v⟩, ⟨tLanguages, some K⟩]) = absDict s ++ [(K, v)] := by
  unfold absDict
  rw [specKeys_append_new, specVals_append_new, List.zip_append hw.len_eq]
  rfl

theorem absDict_del {s : Spec} (hw : WellPaired s) {K : Str} {i : Nat}
    (hi : keyIdx (specKeys s) K = some i) :
    absDict (delNth tBodies (delNth tLanguages s i) i) = dictDel (absDict s) K := by
  unfold absDict
  rw [dictDel_zip K _ _ hw.len_eq, hi, specKeys_del, specVals_del]


/-! ## one call -/

theorem specStep_get_refines (P : Params) (s : Spec) (hw : WellPaired s) (k : Str) :
    WellPaired (specStep P s (.get k)).1 ∧
    dictStep P (absDict s) (.get k) = (absDict (specStep P s (.get k)).1, (specStep P s (.get k)).2) ∧
    others (specStep P s (.get k)).1 = others s := by
  unfold specStep dictStep
  simp only
  rw [hw.specGet_eq]
  cases dictGet (absDict s) (specAlias k) with
  | none => exact ⟨hw, rfl, rfl⟩
  | some raw => exact ⟨hw, rfl, rfl⟩

theorem specStep_set_refines (P : Params) (s : Spec) (hw : WellPaired s) (k v : Str) :
    WellPaired (specStep P s (.set k v)).1 ∧
    dictStep P (absDict s) (.set k v) =
      (absDict (specStep P s (.set k v)).1, (specStep P s (.set k v)).2) ∧
    others (specStep P s (.set k v)).1 = others s := by
  unfold specStep dictStep
  simp only
  rw [hw.specSet_eq, hw.dictGet_eq]
  cases (if specAlias k = kLinked then P.escLinked v else some v) with
  | none => exact ⟨hw, rfl, rfl⟩
  | some v' =>
    cases hi : keyIdx (specKeys s) (specAlias k) with
    | none =>
      cases hx : (xmlOk v' && xmlOk (specAlias k)) <;> simp only [hx, Bool.false_eq_true, reduceIte]
      case true => exact ⟨hw.append_new v' _ hi, by rw [absDict_append_new hw], others_append_new s v' _⟩
      case false => exact ⟨hw, by trivial, by trivial⟩
    | some i =>
      obtain ⟨b, _, hv⟩ := hw.bodyAt_some hi
      simp only [hv]
      cases xmlOk v' <;> simp only [Bool.false_eq_true, reduceIte]
      case true => exact ⟨hw.setNth v' i, by rw [absDict_setNth hw v' hi], others_setNth_bodies v' s i⟩
      case false => exact ⟨hw, by trivial, by trivial⟩

theorem specStep_del_refines (P : Params) (s : Spec) (hw : WellPaired s) (k : Str) :
    WellPaired (specStep P s (.del k)).1 ∧
    dictStep P (absDict s) (.del k) = (absDict (specStep P s (.del k)).1, (specStep P s (.del k)).2) ∧
    others (specStep P s (.del k)).1 = others s := by
  unfold specStep dictStep
  simp only
  rw [hw.specDel_eq, hw.dictGet_eq]
  cases hi : keyIdx (specKeys s) (specAlias k) with
  | none => exact ⟨hw, rfl, rfl⟩
  | some i =>
    obtain ⟨b, _, hv⟩ := hw.bodyAt_some hi
    simp only [hv]
    exact ⟨hw.del i, by rw [absDict_del hw hi], others_del s i⟩

/-- **Refinement, one call.** On a well-paired specification element every call of the mapping
interface keeps the invariant, returns what the reference dict returns, leaves behind the children
that stand for the dict the reference leaves behind, and does not touch any other child. -/
theorem specStep_refines (P : Params) (s : Spec) (hw : WellPaired s) (op : SpecOp) :
    WellPaired (specStep P s op).1 ∧
    dictStep P (absDict s) op = (absDict (specStep P s op).1, (specStep P s op).2) ∧
    others (specStep P s op).1 = others s := by
  cases op with
  | get k => exact specStep_get_refines P s hw k
  | set k v => exact specStep_set_refines P s hw k v
  | del k => exact specStep_del_refines P s hw k
  | keys => exact ⟨hw, by simp [specStep, dictStep, hw.keys_eq], rfl⟩
  | len => exact ⟨hw, by simp [specStep, dictStep, hw.dictLen_eq], rfl⟩

/-! ## whole histories -/

/-- **Refinement, any history.** Starting from a well-paired element, after any sequence of calls
(no bound on its length): the invariant holds, the caller has observed exactly what a Python dict
would have shown, the children stand for that dict's final state, and every child that is neither
`bodies` nor `languages` is where it was. -/
theorem specRun_refines (P : Params) (ops : List SpecOp) : ∀ (s : Spec), WellPaired s →
    WellPaired (specRun P s ops).1 ∧
    dictRun P (absDict s) ops = (absDict (specRun P s ops).1, (specRun P s ops).2) ∧
    others (specRun P s ops).1 = others s := by
  induction ops with
  | nil => intro s hw; exact ⟨hw, rfl, rfl⟩
  | cons op ops ih =>
    intro s hw
    obtain ⟨hw1, hd1, ho1⟩ := specStep_refines P s hw op
    obtain ⟨hw2, hd2, ho2⟩ := ih (specStep P s op).1 hw1
    refine ⟨hw2, ?_, ho2.trans ho1⟩
    simp only [dictRun, specRun]
    rw [hd1]
    simp only
    rw [hd2]

/-- the same from the empty element: whatever the history, the observations are those of a dict
that started empty -/
theorem specRun_refines_empty (P : Params) (ops : List SpecOp) :
    WellPaired (specRun P [] ops).1 ∧
    dictRun P [] ops = (absDict (specRun P [] ops).1, (specRun P [] ops).2) :=
  let h := specRun_refines P ops [] empty_wellPaired
  ⟨h.1, h.2.1⟩

end Capella.Pods
