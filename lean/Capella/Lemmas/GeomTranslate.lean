/-
Translation equivariance of the geometry kernel: every kernel function commutes with moving all of its
position arguments by the same vector (exactly, over `Rat`), because every guard compares differences.
-/
import Capella.Lemmas.GeomBasic
import Capella.Lemmas.GeomLit

namespace Capella.Geom

theorem V2.add_sub_add (p s v : V2) : (p + v) - (s + v) = p - s :=
  V2.ext' (by simp) (by simp)

theorem V2.add_right_cancel_iff (a b v : V2) : a + v = b + v ↔ a = b := by
  constructor
  · intro h
    have hx : (a + v).x = (b + v).x := by rw [h]
    have hy : (a + v).y = (b + v).y := by rw [h]
    simp only [V2.add_x, V2.add_y] at hx hy
    exact V2.ext' (by linarith) (by linarith)
  · rintro rfl; rfl

theorem V2.add_right_comm' (a b v : V2) : a + v + b = a + b + v :=
  V2.ext' (by simp; ring) (by simp; ring)

@[simp] theorem Box.translate_pos (b : Box) (v : V2) : (b.translate v).pos = b.pos + v := rfl
@[simp] theorem Box.translate_size (b : Box) (v : V2) : (b.translate v).size = b.size := rfl
@[simp] theorem Box.translate_port (b : Box) (v : V2) : (b.translate v).port = b.port := rfl
theorem Box.translate_center (b : Box) (v : V2) : (b.translate v).center = b.center + v :=
  V2.ext' (by simp; ring) (by simp; ring)
theorem Box.translate_tl (b : Box) (v : V2) : (b.translate v).tl = b.tl + v := rfl
theorem Box.translate_tr (b : Box) (v : V2) : (b.translate v).tr = b.tr + v :=
  V2.ext' (by simp; ring) (by simp)
theorem Box.translate_bl (b : Box) (v : V2) : (b.translate v).bl = b.bl + v :=
  V2.ext' (by simp) (by simp; ring)
theorem Box.translate_br (b : Box) (v : V2) : (b.translate v).br = b.br + v :=
  V2.ext' (by simp; ring) (by simp; ring)

/-- how a result is moved -/
def mv (v : V2) (r : Except Err V2) : Except Err V2 := r.map (· + v)

@[simp] theorem mv_ok (v q : V2) : mv v (.ok q) = .ok (q + v) := rfl
@[simp] theorem mv_error (v : V2) (e : Err) : mv v (.error e) = .error e := rfl

theorem lineIntersect_translate (p1 p2 p3 p4 v : V2) :
    lineIntersect (p1 + v) (p2 + v) (p3 + v) (p4 + v) = mv v (lineIntersect p1 p2 p3 p4) := by
  unfold lineIntersect
  simp only [V2.add_x, V2.add_y]
  have hden : (p1.x + v.x - (p2.x + v.x)) * (p3.y + v.y - (p4.y + v.y))
      - (p3.x + v.x - (p4.x + v.x)) * (p1.y + v.y - (p2.y + v.y))
      = (p1.x - p2.x) * (p3.y - p4.y) - (p3.x - p4.x) * (p1.y - p2.y) := by ring
  rw [hden]
  by_cases h : (p1.x - p2.x) * (p3.y - p4.y) - (p3.x - p4.x) * (p1.y - p2.y) = 0
  · simp [h]
  · simp only [if_neg h, mv_ok]
    congr 1
    apply V2.ext'
    · simp only [V2.add_x]; field_simp; ring
    · simp only [V2.add_y]; field_simp; ring

theorem inBox_translate (b : Box) (p v : V2) : inBox (b.translate v) (p + v) ↔ inBox b p := by
  simp only [inBox, Box.translate_pos, Box.translate_size, V2.add_x, V2.add_y]
  constructor
  · rintro ⟨h1, h2, h3, h4⟩; exact ⟨by linarith, by linarith, by linarith, by linarith⟩
  · rintro ⟨h1, h2, h3, h4⟩; exact ⟨by linarith, by linarith, by linarith, by linarith⟩

theorem onOutline_translate (b : Box) (q v : V2) : onOutline (b.translate v) (q + v) ↔ onOutline b q := by
  unfold onOutline
  rw [inBox_translate]
  simp only [Box.translate_pos, Box.translate_size, V2.add_x, V2.add_y]
  constructor
  · rintro ⟨h, h'⟩
    refine ⟨h, ?_⟩
    rcases h' with h' | h' | h' | h'
    · exact Or.inl (by linarith)
    · exact Or.inr (Or.inl (by linarith))
    · exact Or.inr (Or.inr (Or.inl (by linarith)))
    · exact Or.inr (Or.inr (Or.inr (by linarith)))
  · rintro ⟨h, h'⟩
    refine ⟨h, ?_⟩
    rcases h' with h' | h' | h' | h'
    · exact Or.inl (by linarith)
    · exact Or.inr (Or.inl (by linarith))
    · exact Or.inr (Or.inr (Or.inl (by linarith)))
    · exact Or.inr (Or.inr (Or.inr (by linarith)))

/-! ### closest -/

theorem sideLine_translate (b : Box) (v : V2) (sd : Side) :
    sideLine (b.translate v) sd = ((sideLine b sd).1 + v, (sideLine b sd).2 + v) := by
  cases sd <;> simp [sideLine, Box.translate_tl, Box.translate_tr, Box.translate_bl, Box.translate_br]

theorem snapClosest_translate (b : Box) (s v : V2) :
    snapClosest (b.translate v) (s + v) = mv v (snapClosest b s) := by
  unfold snapClosest
  simp only [Box.translate_size, Box.translate_center, V2.add_right_cancel_iff, V2.add_sub_add,
    sideLine_translate, Box.translate_pos]
  have hside : closestSide (b.translate v) (s - b.center) = closestSide b (s - b.center) := rfl
  rw [hside]
  by_cases hd : ¬ (0 < b.size.x ∧ 0 < b.size.y)
  · rw [if_pos hd, if_pos hd]; rfl
  · rw [if_neg hd, if_neg hd]
    by_cases hc : s = b.center
    · rw [if_pos hc, if_pos hc, mv_ok]; congr 1; exact V2.add_right_comm' _ _ _
    · rw [if_neg hc, if_neg hc]; exact lineIntersect_translate _ _ _ _ _

/-! ### oblique -/

theorem hitH_translate (b1 b2 s p v : V2) :
    hitH (b1 + v) (b2 + v) (s + v) (p + v) = (hitH b1 b2 s p).map (· + v) := by
  unfold hitH
  rw [lineIntersect_translate]
  cases lineIntersect b1 b2 s p with
  | error e => simp
  | ok q =>
    simp only [mv_ok, V2.add_x, add_le_add_iff_right]
    split_ifs <;> simp

theorem hitV_translate (b1 b2 s p v : V2) :
    hitV (b1 + v) (b2 + v) (s + v) (p + v) = (hitV b1 b2 s p).map (· + v) := by
  unfold hitV
  rw [lineIntersect_translate]
  cases lineIntersect b1 b2 s p with
  | error e => simp
  | ok q =>
    simp only [mv_ok, V2.add_y, add_le_add_iff_right]
    split_ifs <;> simp

theorem obliqueHits_translate (b : Box) (s p v : V2) :
    obliqueHits (b.translate v) (s + v) (p + v) = (obliqueHits b s p).map (· + v) := by
  unfold obliqueHits
  simp only [V2.add_sub_add, Box.translate_tl, Box.translate_tr, Box.translate_bl, Box.translate_br,
    hitH_translate, hitV_translate, List.map_append]
  congr 1
  · congr 1
    · congr 1
      · split_ifs <;> simp
      · split_ifs <;> simp
    · split_ifs <;> simp
  · split_ifs <;> simp

theorem pickHit_translate (l : List V2) (v : V2) :
    pickHit (l.map (· + v)) = mv v (pickHit l) := by
  cases l with
  | nil => rfl
  | cons q rest =>
    simp only [List.map_cons, pickHit, List.all_map]
    have : (rest.all ((fun r => decide (r = q + v)) ∘ fun x => x + v)) = rest.all (fun r => decide (r = q)) := by
      congr 1
      funext r
      simp [V2.add_right_cancel_iff]
    rw [this]
    split_ifs <;> rfl

theorem snapOblique_translate (b : Box) (p s v : V2) :
    snapOblique (b.translate v) (p + v) (s + v) = mv v (snapOblique b p s) := by
  unfold snapOblique
  simp only [inBox_translate, Box.translate_center]
  by_cases hin : inBox b p
  · simp only [if_pos hin, V2.add_right_cancel_iff]
    split_ifs
    · exact snapClosest_translate b p v
    · rw [obliqueHits_translate, pickHit_translate]
  · simp only [if_neg hin, V2.add_right_cancel_iff]
    split_ifs
    · exact snapClosest_translate b p v
    · rw [obliqueHits_translate, pickHit_translate]

/-! ### manhattan, tree -/

theorem snapManhattan_translate (b : Box) (p d v : V2) :
    snapManhattan (b.translate v) (p + v) d = mv v (snapManhattan b p d) := by
  obtain ⟨pos, size, port⟩ := b
  have e1 : ∀ a c : Rat, a + v.y + c < p.y + v.y ↔ a + c < p.y := by intro a c; constructor <;> intro h <;> linarith
  have e2 : ∀ a c : Rat, a + v.x + c < p.x + v.x ↔ a + c < p.x := by intro a c; constructor <;> intro h <;> linarith
  cases port <;>
  · simp only [snapManhattan, Box.translate, V2.add_x, V2.add_y, add_lt_add_iff_right, e1, e2,
      Bool.false_eq_true, if_false, if_true]
    split_ifs <;> first
      | rfl
      | (simp only [mv_ok]; congr 1; apply V2.ext' <;> simp <;> ring)

theorem treeBottom_translate (b : Box) (p d v : V2) :
    treeBottom (b.translate v) (p + v) d ↔ treeBottom b p d := by
  simp only [treeBottom, Box.translate_pos, V2.add_y, ne_eq, add_left_inj]

theorem snapTree_translate (b : Box) (p d v : V2) :
    snapTree (b.translate v) (p + v) d = snapTree b p d + v := by
  have hc : (b.translate v).center.x < (p + v).x ↔ b.center.x < p.x := by
    rw [Box.translate_center]; simp only [V2.add_x, add_lt_add_iff_right]
  have hp : (b.translate v).port = b.port := rfl
  have hb := treeBottom_translate b p d v
  unfold snapTree
  by_cases h1 : d = ⟨0, 0⟩
  · rw [if_pos h1, if_pos h1]
    by_cases h2 : b.center.x < p.x
    · rw [if_pos (hc.mpr h2), if_pos h2]; exact V2.ext' (by simp; ring) (by simp)
    · rw [if_neg (fun h => h2 (hc.mp h)), if_neg h2]; exact V2.ext' (by simp; ring) (by simp)
  · rw [if_neg h1, if_neg h1, hp]
    by_cases h2 : b.port = true
    · rw [if_pos h2, if_pos h2]
      by_cases h3 : treeBottom b p d
      · rw [if_pos (hb.mpr h3), if_pos h3]; exact V2.ext' (by simp; ring) (by simp; ring)
      · rw [if_neg (fun h => h3 (hb.mp h)), if_neg h3]; exact V2.ext' (by simp; ring) (by simp; ring)
    · rw [if_neg h2, if_neg h2]
      by_cases h3 : treeBottom b p d
      · rw [if_pos (hb.mpr h3), if_pos h3]; exact V2.ext' (by simp) (by simp; ring)
      · rw [if_neg (fun h => h3 (hb.mp h)), if_neg h3]; exact V2.ext' (by simp) (by simp)
/-- `Box.vector_snap` commutes with translation, for every style, port or not -/
theorem vectorSnap_translate (b : Box) (p s v : V2) (st : Style) :
    vectorSnap (b.translate v) (p + v) (s + v) st = mv v (vectorSnap b p s st) := by
  rw [vectorSnap_eq, vectorSnap_eq]
  cases st with
  | oblique =>
    simp only [V2.add_right_cancel_iff]
    split_ifs
    · exact snapClosest_translate b p v
    · exact snapOblique_translate b p s v
  | manhattan =>
    simp only [V2.add_sub_add]
    exact snapManhattan_translate b p (p - s) v
  | tree =>
    simp only [V2.add_sub_add, snapTree_translate, mv_ok]

end Capella.Geom
