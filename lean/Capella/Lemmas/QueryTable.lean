import Capella.Model.QueryTable
import Capella.Lemmas.Query
/-!
Helper lemmas about `Capella.QTable` (class hierarchy, back-reference candidates, table relations).
Core Lean only.
-/
namespace Capella.QTable
open Capella.Query

/-! ### back-reference candidates -/

theorem backrefOk_A (hs : List Handler) (b : BackRef) (hok : backrefOk hs b = true) :
    ∀ h ∈ hs, b.targets.contains h.cls = true → b.builts.contains (some h.xt) = true := by
  intro h hh hc
  simp only [backrefOk, Bool.and_eq_true, List.all_eq_true] at hok
  have := hok.1.2 h hh
  have hc' : h.cls ∈ b.targets := by simpa using hc
  simpa [hc'] using this

theorem backrefOk_B (hs : List Handler) (b : BackRef) (hok : backrefOk hs b = true) :
    ∀ x ∈ b.builts, ∀ h ∈ hs, some h.xt = x → isInst h b.targets = true := by
  intro x hx h hh he
  simp only [backrefOk, Bool.and_eq_true, List.all_eq_true] at hok
  have := hok.2 x hx h hh
  simpa [he] using this

/-- closed under subclassing: every registered type whose class is an instance of a target class is searched -/
theorem candidates_closed (hs : List Handler) (b : BackRef) (hok : backrefOk hs b = true)
    (hne : b.targets ≠ []) (h : Handler) (hh : h ∈ hs) (hi : isInst h b.targets = true) :
    h.xt ∈ candidates hs b := by
  unfold candidates
  have : b.targets.isEmpty = false := by
    cases hb : b.targets with
    | nil => exact absurd hb hne
    | cons _ _ => rfl
  rw [this]
  simp only [Bool.false_eq_true, if_false, List.mem_append, List.mem_filterMap, List.mem_map, List.mem_filter, id]
  by_cases hc : b.targets.contains h.cls = true
  · left
    have := backrefOk_A hs b hok h hh hc
    exact ⟨some h.xt, by simpa using this, rfl⟩
  · right
    have hc' : ¬ h.cls ∈ b.targets := by simpa using hc
    exact ⟨h, ⟨hh, by simp [hi, hc']⟩, rfl⟩

/-- nothing else is searched: a searched type is the type `build_xtype` gives for a target class —
and then whatever is registered under it is an instance — or the registered type of an instance -/
theorem candidates_sound (hs : List Handler) (b : BackRef) (hok : backrefOk hs b = true) (x : Nat)
    (hx : x ∈ candidates hs b) :
    (some x ∈ b.builts ∧ ∀ h ∈ hs, h.xt = x → isInst h b.targets = true) ∨
      ∃ h ∈ hs, h.xt = x ∧ isInst h b.targets = true := by
  unfold candidates at hx
  split at hx
  · cases hx
  · simp only [List.mem_append, List.mem_filterMap, List.mem_map, List.mem_filter, id] at hx
    rcases hx with ⟨o, ho, he⟩ | ⟨h, ⟨hh, hp⟩, he⟩
    · left
      subst he
      exact ⟨ho, fun h hh hxe => backrefOk_B hs b hok (some x) ho h hh (by rw [hxe])⟩
    · right
      simp only [Bool.and_eq_true] at hp
      exact ⟨h, hh, he, hp.1⟩

/-! ### table relations -/

theorem viewTargets_sub (nodes : List Node) (i : Nat) (t : TRel) (ts : List Nat) (y : Nat)
    (h : viewTargets nodes i t = some ts) (hy : y ∈ ts) :
    ∃ ts0, relTargets nodes i t.base = some ts0 ∧ y ∈ ts0 := by
  unfold viewTargets at h
  cases hr : relTargets nodes i t.base with
  | none => rw [hr] at h; cases h
  | some ts0 =>
    rw [hr] at h
    refine ⟨ts0, rfl, ?_⟩
    cases hv : t.view with
    | list => rw [hv] at h; simp only [Option.some.injEq] at h; subst h; exact hy
    | single =>
      rw [hv] at h
      simp only [] at h
      split at h
      · simp only [Option.some.injEq] at h; subst h; exact hy
      · cases h
    | index k =>
      rw [hv] at h
      simp only [] at h
      cases hk : ts0[k]? with
      | none => rw [hk] at h; cases h
      | some x =>
        rw [hk] at h
        simp only [Option.map_some, Option.some.injEq] at h
        subst h
        simp only [List.mem_cons, List.not_mem_nil, or_false] at hy
        subst hy
        exact List.mem_of_getElem? hk

theorem refsAtT_nil_of_not_prefiltered (nodes : List Node) (trels : Nat → List TRel)
    (hshape : LinkShape nodes (basesOf trels)) (y i : Nat) (hi : i < nodes.length)
    (hnv : nonVisual nodes i = true) (hnot : i ∉ prefilter nodes (uidAt nodes y)) :
    refsAtT nodes trels y i = [] := by
  unfold refsAtT refsAtTV
  rw [List.filterMap_eq_nil_iff]
  intro t ht
  cases hv : viewTargets nodes i t with
  | none => rfl
  | some ts =>
    simp only
    have key : y ∈ ts → False := by
      intro hy
      obtain ⟨ts0, h0, hy0⟩ := viewTargets_sub nodes i t ts y hv hy
      apply hnot
      have hb : t.base ∈ basesOf trels i := List.mem_map.mpr ⟨t, ht, rfl⟩
      exact mem_prefilter_of_spelled nodes _ i hi hnv
        (target_spelled nodes (basesOf trels) hshape i y t.base hb ts0 h0 hy0)
    cases hview : t.view with
    | list =>
      simp only []
      cases hidx : idxOf? ts y with
      | none => rfl
      | some k => exact absurd (idxOf?_isSome ts y k hidx) key
    | single =>
      simp only []
      split
      · rename_i he; exact absurd (by rw [he]; exact List.mem_cons_self ..) key
      · rfl
    | index k =>
      simp only []
      split
      · rename_i he; exact absurd (by rw [he]; exact List.mem_cons_self ..) key
      · rfl

theorem findRefsT_eq_bruteRefsT (nodes : List Node) (trels : Nat → List TRel)
    (hshape : LinkShape nodes (basesOf trels)) (y : Nat) :
    findRefsT nodes trels y = bruteRefsT nodes trels y := by
  unfold findRefsT bruteRefsT findRefsTV bruteRefsTV
  apply flatMap_eq_of_sublist_nil _ _ _ (prefilter_sublist nodes _)
  · intro i hi hnot
    have h := List.mem_filter.mp hi
    exact refsAtT_nil_of_not_prefiltered nodes trels hshape y i (List.mem_range.mp h.1) h.2 hnot
  · exact List.Nodup.sublist List.filter_sublist List.nodup_range

/-- the `href` half of `LinkShape` follows from `rowOk` of the row a table relation resolves to -/
theorem toTRel_nohref (rows : List RelRow) (hrows : ∀ r ∈ rows, rowOk r = true) (p : Nat × Nat) (t : TRel)
    (h : toTRel rows p = some t) :
    (∀ a, t.base.kind = .attr a → a ≠ hrefName) ∧ (∀ tag xt f, t.base.kind = .child tag xt f → f ≠ hrefName) := by
  unfold toTRel at h
  cases h1 : rowAt rows p.1 with
  | none => rw [h1] at h; cases h
  | some r =>
    rw [h1] at h
    cases h2 : rowAt rows p.2 with
    | none => rw [h2] at h; cases h
    | some tr =>
      rw [h2] at h
      simp only [] at h
      have hok : rowOk tr = true := hrows tr (List.mem_of_getElem? h2)
      cases hk : tr.kind with
      | attr a =>
        rw [hk] at h
        simp only [toBase, Option.some.injEq] at h
        subst h
        simp only [rowOk, hk, Bool.and_eq_true, bne_iff_ne, ne_eq] at hok
        refine ⟨?_, ?_⟩
        · intro a' ha' heq
          simp only [RelKind.attr.injEq] at ha'
          subst ha'
          exact hok.2 (String.toList_injective heq)
        · intro tag xt f hc; cases hc
      | child tag xt f =>
        rw [hk] at h
        simp only [toBase, Option.some.injEq] at h
        subst h
        simp only [rowOk, hk, Bool.and_eq_true, bne_iff_ne, ne_eq] at hok
        refine ⟨?_, ?_⟩
        · intro a hc; cases hc
        · intro tag' xt' f' hc heq
          simp only [RelKind.child.injEq] at hc
          obtain ⟨_, _, hf⟩ := hc
          subst hf
          exact hok.1.2 (String.toList_injective heq)
      | typecast _ => rw [hk] at h; simp [toBase] at h
      | index _ _ => rw [hk] at h; simp [toBase] at h
      | alias _ => rw [hk] at h; simp [toBase] at h
      | acc _ => rw [hk] at h; simp [toBase] at h

end Capella.QTable
