import Capella.Model.QueryTable
import Capella.Lemmas.Query
/-!
Helper lemmas about `Capella.QTable` (class hierarchy, back-reference candidates, table relations).
Core Lean only.
-/
namespace Capella.QTable
open Capella.Query

/-! ### back-reference candidates -/

theorem backrefOk_B (hs : List Handler) (b : BackRef) (hok : backrefOk hs b = true) :
    ∀ x ∈ b.builts, ∀ h ∈ hs, some h.xt = x → isInst h b.targets = true := by
  intro x hx h hh he
  simp only [backrefOk, Bool.and_eq_true, List.all_eq_true] at hok
  have := hok.2 x hx h hh
  simpa [he] using this

theorem backrefOk_len (hs : List Handler) (b : BackRef) (hok : backrefOk hs b = true) :
    b.builts.length = b.targets.length := by
  simp only [backrefOk, Bool.and_eq_true] at hok
  simpa using hok.1.1

/-- a registered type of a class is among what `search` resolves the class to -/
theorem mem_resolveClass (hs : List Handler) (h : Handler) (hh : h ∈ hs) (bu : Option Nat) :
    h.xt ∈ resolveClass hs h.cls bu := by
  unfold resolveClass
  have hm : h.xt ∈ (hs.filter (fun h' => h'.cls == h.cls)).map (·.xt) :=
    List.mem_map.mpr ⟨h, List.mem_filter.mpr ⟨hh, by simp⟩, rfl⟩
  simp only []
  split
  · rename_i he
    rw [List.isEmpty_iff] at he
    rw [he] at hm
    cases hm
  · exact hm

theorem mem_zipWith_flatten (f : Nat → Option Nat → List Nat) :
    ∀ (ts : List Nat) (bs : List (Option Nat)), bs.length = ts.length → ∀ t ∈ ts, ∀ x,
      (∀ bu, x ∈ f t bu) → x ∈ (List.zipWith f ts bs).flatten := by
  intro ts
  induction ts with
  | nil => intro bs _ t ht; cases ht
  | cons a r ih =>
    intro bs hl t ht x hx
    cases bs with
    | nil => simp at hl
    | cons b0 br =>
      simp only [List.zipWith_cons_cons, List.flatten_cons, List.mem_append]
      cases List.mem_cons.mp ht with
      | inl he => subst he; exact Or.inl (hx b0)
      | inr hr => exact Or.inr (ih br (by simpa using hl) t hr x hx)

theorem mem_zipWith_flatten_inv (f : Nat → Option Nat → List Nat) :
    ∀ (ts : List Nat) (bs : List (Option Nat)) (x : Nat), x ∈ (List.zipWith f ts bs).flatten →
      ∃ t ∈ ts, ∃ bu ∈ bs, x ∈ f t bu := by
  intro ts
  induction ts with
  | nil => intro bs x h; simp at h
  | cons a r ih =>
    intro bs x h
    cases bs with
    | nil => simp at h
    | cons b0 br =>
      simp only [List.zipWith_cons_cons, List.flatten_cons, List.mem_append] at h
      rcases h with h | h
      · exact ⟨a, List.mem_cons_self .., b0, List.mem_cons_self .., h⟩
      · obtain ⟨t, ht, bu, hbu, hx⟩ := ih br x h
        exact ⟨t, List.mem_cons_of_mem _ ht, bu, List.mem_cons_of_mem _ hbu, hx⟩

/-- closed under subclassing: every registered type whose class is an instance of a target class is searched -/
theorem candidates_closed (hs : List Handler) (b : BackRef) (hok : backrefOk hs b = true)
    (hne : b.targets ≠ []) (h : Handler) (hh : h ∈ hs) (hi : isInst h b.targets = true) :
    h.xt ∈ candidates hs b := by
  unfold candidates
  have : b.targets.isEmpty = false := by
    cases hb : b.targets with
    | nil => exact absurd hb hne
    | cons _ _ => rfl
  rw [this]
  simp only [Bool.false_eq_true, if_false, List.mem_append, List.mem_map, List.mem_filter]
  by_cases hc : b.targets.contains h.cls = true
  · left
    have hc' : h.cls ∈ b.targets := by simpa using hc
    exact mem_zipWith_flatten (resolveClass hs) b.targets b.builts (backrefOk_len hs b hok) h.cls hc' h.xt
      (fun bu => mem_resolveClass hs h hh bu)
  · right
    have hc' : ¬ h.cls ∈ b.targets := by simpa using hc
    exact ⟨h, ⟨hh, by simp [hi, hc']⟩, rfl⟩

/-- nothing else is searched: a searched type is registered for a target class itself, or is the
type derived for an unregistered target class — and then whatever is registered under it is an
instance — or is the registered type of an instance -/
theorem candidates_sound (hs : List Handler) (b : BackRef) (hok : backrefOk hs b = true) (x : Nat)
    (hx : x ∈ candidates hs b) :
    (some x ∈ b.builts ∧ ∀ h ∈ hs, h.xt = x → isInst h b.targets = true) ∨
      ∃ h ∈ hs, h.xt = x ∧ isInst h b.targets = true := by
  unfold candidates at hx
  split at hx
  · cases hx
  · simp only [List.mem_append, List.mem_map, List.mem_filter] at hx
    rcases hx with hz | ⟨h, ⟨hh, hp⟩, he⟩
    · obtain ⟨t, ht, bu, hbu, hxr⟩ := mem_zipWith_flatten_inv (resolveClass hs) b.targets b.builts x hz
      unfold resolveClass at hxr
      simp only [] at hxr
      split at hxr
      · left
        cases bu with
        | none => simp at hxr
        | some v =>
          simp only [Option.toList_some, List.mem_cons, List.not_mem_nil, or_false] at hxr
          subst hxr
          exact ⟨hbu, fun h hh hxe => backrefOk_B hs b hok (some x) hbu h hh (by rw [hxe])⟩
      · right
        obtain ⟨h, hm, he⟩ := List.mem_map.mp hxr
        obtain ⟨hh, hcls⟩ := List.mem_filter.mp hm
        refine ⟨h, hh, he, ?_⟩
        unfold isInst
        simp only [List.any_eq_true, Bool.or_eq_true]
        have hct : h.cls = t := by simpa using hcls
        exact ⟨t, ht, Or.inl (by rw [hct]; simp)⟩
    · right
      simp only [Bool.and_eq_true] at hp
      exact ⟨h, hh, he, hp.1⟩

/-! ### table relations -/

theorem viewTargets_sub (nodes : List Node) (i : Nat) (t : TRel) (ts : List Nat) (y : Nat)
    (h : viewTargets nodes i t = some ts) (hy : y ∈ ts) :
    ∃ ts0, relTargets nodes i t.base = some ts0 ∧ y ∈ ts0 := by
  unfold viewTargets at h
  cases hr : relTargets nodes i t.base with
  | none => rw [hr] at h; cases h
  | some ts0 =>
    rw [hr] at h
    refine ⟨ts0, rfl, ?_⟩
    cases hv : t.view with
    | list => rw [hv] at h; simp only [Option.some.injEq] at h; subst h; exact hy
    | single =>
      rw [hv] at h
      simp only [] at h
      split at h
      · simp only [Option.some.injEq] at h; subst h; exact hy
      · cases h
    | index k =>
      rw [hv] at h
      simp only [] at h
      cases hk : ts0[k]? with
      | none => rw [hk] at h; cases h
      | some x =>
        rw [hk] at h
        simp only [Option.map_some, Option.some.injEq] at h
        subst h
        simp only [List.mem_cons, List.not_mem_nil, or_false] at hy
        subst hy
        exact List.mem_of_getElem? hk

theorem refsAtT_nil_of_not_prefiltered (nodes : List Node) (trels : Nat → List TRel)
    (hshape : LinkShape nodes (basesOf trels)) (y i : Nat) (hi : i < nodes.length)
    (hnv : nonVisual nodes i = true) (hnot : i ∉ prefilter nodes (uidAt nodes y)) :
    refsAtT nodes trels y i = [] := by
  unfold refsAtT refsAtTV
  rw [List.filterMap_eq_nil_iff]
  intro t ht
  cases hv : viewTargets nodes i t with
  | none => rfl
  | some ts =>
    simp only
    have key : y ∈ ts → False := by
      intro hy
      obtain ⟨ts0, h0, hy0⟩ := viewTargets_sub nodes i t ts y hv hy
      apply hnot
      have hb : t.base ∈ basesOf trels i := List.mem_map.mpr ⟨t, ht, rfl⟩
      exact mem_prefilter_of_spelled nodes _ i hi hnv
        (target_spelled nodes (basesOf trels) hshape i y t.base hb ts0 h0 hy0)
    cases hview : t.view with
    | list =>
      simp only []
      cases hidx : idxOf? ts y with
      | none => rfl
      | some k => exact absurd (idxOf?_isSome ts y k hidx) key
    | single =>
      simp only []
      split
      · rename_i he; exact absurd (by rw [he]; exact List.mem_cons_self ..) key
      · rfl
    | index k =>
      simp only []
      split
      · rename_i he; exact absurd (by rw [he]; exact List.mem_cons_self ..) key
      · rfl

theorem findRefsT_eq_bruteRefsT (nodes : List Node) (trels : Nat → List TRel)
    (hshape : LinkShape nodes (basesOf trels)) (y : Nat) :
    findRefsT nodes trels y = bruteRefsT nodes trels y := by
  unfold findRefsT bruteRefsT findRefsTV bruteRefsTV
  apply flatMap_eq_of_sublist_nil _ _ _ (prefilter_sublist nodes _)
  · intro i hi hnot
    have h := List.mem_filter.mp hi
    exact refsAtT_nil_of_not_prefiltered nodes trels hshape y i (List.mem_range.mp h.1) h.2 hnot
  · exact List.Nodup.sublist List.filter_sublist List.nodup_range

/-- the `href` half of `LinkShape` follows from `rowOk` of the row a table relation resolves to -/
theorem toTRel_nohref (rows : List RelRow) (hrows : ∀ r ∈ rows, rowOk r = true) (p : Nat × Nat) (t : TRel)
    (h : toTRel rows p = some t) :
    (∀ a, t.base.kind = .attr a → a ≠ hrefName) ∧ (∀ tag xt f, t.base.kind = .child tag xt f → f ≠ hrefName) := by
  unfold toTRel at h
  cases h1 : rowAt rows p.1 with
  | none => rw [h1] at h; cases h
  | some r =>
    rw [h1] at h
    cases h2 : rowAt rows p.2 with
    | none => rw [h2] at h; cases h
    | some tr =>
      rw [h2] at h
      simp only [] at h
      have hok : rowOk tr = true := hrows tr (List.mem_of_getElem? h2)
      cases hk : tr.kind with
      | attr a =>
        rw [hk] at h
        simp only [toBase, Option.some.injEq] at h
        subst h
        simp only [rowOk, hk, Bool.and_eq_true, bne_iff_ne, ne_eq] at hok
        refine ⟨?_, ?_⟩
        · intro a' ha' heq
          simp only [RelKind.attr.injEq] at ha'
          subst ha'
          exact hok.2 (String.toList_injective heq)
        · intro tag xt f hc; cases hc
      | child tag xt f =>
        rw [hk] at h
        simp only [toBase, Option.some.injEq] at h
        subst h
        simp only [rowOk, hk, Bool.and_eq_true, bne_iff_ne, ne_eq] at hok
        refine ⟨?_, ?_⟩
        · intro a hc; cases hc
        · intro tag' xt' f' hc heq
          simp only [RelKind.child.injEq] at hc
          obtain ⟨_, _, hf⟩ := hc
          subst hf
          exact hok.1.2 (String.toList_injective heq)
      | typecast _ => rw [hk] at h; simp [toBase] at h
      | index _ _ => rw [hk] at h; simp [toBase] at h
      | alias _ => rw [hk] at h; simp [toBase] at h
      | acc _ => rw [hk] at h; simp [toBase] at h

end Capella.QTable
