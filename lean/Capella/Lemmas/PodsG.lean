import Capella.Lemmas.Pods
import Capella.Lemmas.PodsE
import Capella.Lemmas.PodsF
namespace Capella.Pods
variable {P : Params}

theorem codec_cases (hP : P.Lawful) (d : Desc) (hd : d.wf = true) (v : PyVal P)
    (hv : valid P d v = true) : CodecOk P d v := by
  obtain ⟨kind, a, w⟩ := d
  cases v with
  | none => exact codec_none _
  | bool b =>
    cases kind <;> simp [valid] at hv
    · exact codec_bool a w b
    · exact codec_int_bool a w b
    · exact codec_float_bool hP a w b (by simpa using hv)
  | int i =>
    cases kind <;> simp [valid] at hv
    · exact codec_int a w i
    · exact codec_float_int hP a w i (by simpa using hv)
  | float f =>
    cases kind <;> simp [valid] at hv
    cases f with
    | nan => simp at hv
    | ninf => simp at hv
    | inf => exact codec_float_inf a w
    | fin x => exact codec_float_fin hP a w x
  | str s =>
    cases kind <;> simp [valid] at hv
    · exact codec_string a w s hv
    · exact codec_html hP a w s hv.1 (by intro hx; simpa [hx] using hv.2)
    · rename_i e n
      simp [Desc.wf] at hd
      exact codec_enum_str a w e n s hd.1 (by simpa using hv)
    · exact codec_selector_str a w s hv
  | member c m x =>
    cases kind <;> simp [valid] at hv
    rename_i e n
    simp [Desc.wf] at hd
    exact codec_enum_member a w e n c m x hd.1 hv.1 hv.2
  | naive n =>
    cases kind <;> simp [valid] at hv
    exact codec_dt_naive hP a w n hv
  | aware t =>
    cases kind <;> simp [valid] at hv
    exact codec_dt_aware hP a w t hv
  | selector r =>
    cases kind <;> simp [valid] at hv
    exact codec_selector a w r hv
  | other => cases kind <;> simp [valid] at hv

/-- `BasePOD.__set__` followed by `__get__`, given what the codec does -/
theorem get_set_of_codec (d : Desc) (a : Attrs) (v : PyVal P)
    (hw : d.writable = true ∨ a.has d.attr = false) (hc : CodecOk P d v) :
    ∃ a', set P d a v = .ok a' ∧ ∃ w, get P d a' = .ok w ∧ Same P w (denote P d v) := by
  have hguard : (!d.writable && a.has d.attr) = false := by
    rcases hw with h | h <;> simp [h]
  rcases hc with ⟨hn, hne, data, hto, hx, w, hfrom, hs⟩ | ⟨hel, hs⟩
  · refine ⟨a.set d.attr data, ?_, w, ?_, hs⟩
    · simp [set, hguard, hn, hne, hto, hx]
    · simp [get, Attrs.get_set_same, hfrom]
  · refine ⟨a.pop d.attr, ?_, defaultVal P d, ?_, hs⟩
    · rcases hel with h | h <;> simp [set, hguard, h]
    · simp [get, Attrs.get_pop_same]

end Capella.Pods
