import Capella.Model.Wrap

/-! Helper lemmas for the text-wrapping part of C18. Core Lean only. -/

namespace Capella.Wrap

variable {sp : Char → Bool}

theorem splitBy_ne_nil (sp : Char → Bool) (s : Str) : splitBy sp s ≠ [] := by
  induction s with
  | nil => simp [splitBy]
  | cons c cs ih =>
    unfold splitBy
    split
    · simp
    · split <;> simp

/-- splitting distributes over a separator -/
theorem splitBy_append_sep (a b : Str) (c : Char) (hc : sp c = true) :
    splitBy sp (a ++ c :: b) = splitBy sp a ++ splitBy sp b := by
  induction a with
  | nil => simp [splitBy, hc]
  | cons x a ih =>
    by_cases hx : sp x = true
    · simp [splitBy, hx, ih]
    · simp only [List.cons_append, splitBy, hx, ih]
      cases hs : splitBy sp a with
      | nil => exact absurd hs (splitBy_ne_nil sp a)
      | cons p ps => simp

theorem words_append_sep (a b : Str) (c : Char) (hc : sp c = true) :
    words sp (a ++ c :: b) = words sp a ++ words sp b := by
  simp [words, splitBy_append_sep a b c hc]

theorem words_nil : words sp [] = [] := by simp [words, splitBy]

theorem words_cons_space (c : Char) (s : Str) (hc : sp c = true) : words sp (c :: s) = words sp s := by
  have := words_append_sep (sp := sp) [] s c hc
  simpa [words_nil] using this

/-- a word in the sense of `str.split()`: non-empty, no whitespace -/
def Proper (sp : Char → Bool) (w : Str) : Prop := w ≠ [] ∧ ∀ c ∈ w, sp c = false

theorem splitBy_spacefree (w : Str) (h : ∀ c ∈ w, sp c = false) : splitBy sp w = [w] := by
  induction w with
  | nil => simp [splitBy]
  | cons x w ih =>
    have hx : sp x = false := h x List.mem_cons_self
    have := ih (fun c hc => h c (List.mem_cons_of_mem _ hc))
    simp [splitBy, hx, this]

theorem words_proper (w : Str) (h : Proper sp w) : words sp w = [w] := by
  simp [words, splitBy_spacefree w h.2, h.1]

theorem splitBy_pieces_spacefree (s : Str) : ∀ p ∈ splitBy sp s, ∀ c ∈ p, sp c = false := by
  induction s with
  | nil => simp [splitBy]
  | cons x s ih =>
    intro p hp c hc
    unfold splitBy at hp
    by_cases hx : sp x = true
    · simp only [hx, if_true, List.mem_cons] at hp
      rcases hp with rfl | hp
      · cases hc
      · exact ih p hp c hc
    · simp only [hx] at hp
      cases hs : splitBy sp s with
      | nil => exact absurd hs (splitBy_ne_nil sp s)
      | cons q qs =>
        rw [hs] at hp ih
        simp only [Bool.false_eq_true, if_false, List.mem_cons] at hp
        rcases hp with rfl | hp
        · rcases List.mem_cons.mp hc with rfl | hc
          · simpa using hx
          · exact ih q List.mem_cons_self c hc
        · exact ih p (List.mem_cons_of_mem _ hp) c hc

/-- every element of `s.split()` is a proper word -/
theorem words_all_proper (s : Str) : ∀ w ∈ words sp s, Proper sp w := by
  intro w hw
  simp only [words, List.mem_filter, decide_eq_true_eq] at hw
  exact ⟨hw.2, splitBy_pieces_spacefree s w hw.1⟩

theorem joinSp_cons_cons (w v : Str) (ws : List Str) : joinSp (w :: v :: ws) = w ++ ' ' :: joinSp (v :: ws) := rfl

/-- `" ".join(ws).split() == ws` for proper words -/
theorem words_joinSp (hsp : sp ' ' = true) : ∀ (ws : List Str), (∀ w ∈ ws, Proper sp w) → words sp (joinSp ws) = ws
  | [], _ => by simp [joinSp, words_nil]
  | [w], h => by simpa [joinSp] using words_proper w (h w List.mem_cons_self)
  | w :: v :: ws, h => by
    rw [joinSp_cons_cons, words_append_sep _ _ _ hsp, words_proper w (h w List.mem_cons_self),
      words_joinSp hsp (v :: ws) (fun x hx => h x (List.mem_cons_of_mem _ hx))]
    rfl

/-- leading whitespace does not change the words -/
theorem words_append_spaces (pre s : Str) (h : ∀ c ∈ pre, sp c = true) : words sp (pre ++ s) = words sp s := by
  induction pre with
  | nil => rfl
  | cons x pre ih =>
    rw [List.cons_append, words_cons_space x _ (h x List.mem_cons_self)]
    exact ih (fun c hc => h c (List.mem_cons_of_mem _ hc))

theorem mem_takeWhile_true {p : Char → Bool} : ∀ {l : Str} {c : Char}, c ∈ l.takeWhile p → p c = true
  | [], _, h => by simp at h
  | x :: xs, c, h => by
    by_cases hx : p x = true
    · simp only [List.takeWhile_cons, hx, if_true, List.mem_cons] at h
      rcases h with rfl | h
      · exact hx
      · exact mem_takeWhile_true h
    · simp [hx] at h

theorem takeWhile_append_dropWhile (s : Str) : s.takeWhile sp ++ s.dropWhile sp = s :=
  List.takeWhile_append_dropWhile

theorem words_lstrip (s : Str) : words sp (lstrip sp s) = words sp s := by
  have h := words_append_spaces (sp := sp) (s.takeWhile sp) (s.dropWhile sp)
    (fun c hc => mem_takeWhile_true hc)
  rw [List.takeWhile_append_dropWhile] at h
  exact h.symm

/-! ### `split_into_lines` -/

/-- the greedy loop neither drops, duplicates nor reorders a word -/
theorem packW_flatten (ext : Str → Rat) (width : Rat) :
    ∀ (ws cur : List Str), (packW ext width cur ws).flatten = cur ++ ws := by
  intro ws
  induction ws with
  | nil => intro cur; by_cases h : cur = [] <;> simp [packW, h]
  | cons w ws ih =>
    intro cur
    unfold packW
    split
    · rw [ih]; simp
    · by_cases h : cur = [] <;> simp [h, ih]

/-- no line is empty -/
theorem packW_nonempty (ext : Str → Rat) (width : Rat) :
    ∀ (ws cur : List Str), ∀ l ∈ packW ext width cur ws, l ≠ [] := by
  intro ws
  induction ws with
  | nil => intro cur l hl; by_cases h : cur = [] <;> simp [packW, h] at hl; subst hl; exact h
  | cons w ws ih =>
    intro cur l hl
    unfold packW at hl
    split at hl
    · exact ih _ l hl
    · rcases List.mem_append.mp hl with hl | hl
      · by_cases h : cur = [] <;> simp [h] at hl; subst hl; exact h
      · exact ih _ l hl

/-- a line of two or more words fits into `width` (only a single word may stick out) -/
theorem packW_fits (ext : Str → Rat) (width : Rat) :
    ∀ (ws cur : List Str), (cur.length ≥ 2 → ext (joinSp cur) ≤ width) →
      ∀ l ∈ packW ext width cur ws, l.length ≥ 2 → ext (joinSp l) ≤ width := by
  intro ws
  induction ws with
  | nil =>
    intro cur hcur l hl h2
    by_cases h : cur = [] <;> simp [packW, h] at hl
    subst hl; exact hcur h2
  | cons w ws ih =>
    intro cur hcur l hl h2
    unfold packW at hl
    split at hl
    · rename_i hfit
      exact ih _ (fun _ => hfit) l hl h2
    · rcases List.mem_append.mp hl with hl | hl
      · by_cases h : cur = [] <;> simp [h] at hl
        subst hl; exact hcur h2
      · exact ih [w] (fun h => by simp at h) l hl h2

theorem splitIntoLines_words (hsp : sp ' ' = true) (ext : Str → Rat) (width : Rat) (line : Str) :
    (splitIntoLines sp ext width line).flatMap (words sp) = words sp line := by
  unfold splitIntoLines
  by_cases h : words sp line = []
  · simp [h]
  · simp only [h, if_false]
    have hall : ∀ l ∈ packW ext width [] (words sp line), ∀ w ∈ l, Proper sp w := by
      intro l hl w hw
      have : w ∈ (packW ext width [] (words sp line)).flatten := List.mem_flatten.mpr ⟨l, hl, hw⟩
      rw [packW_flatten] at this
      exact words_all_proper line w (by simpa using this)
    have key : ∀ (L : List (List Str)), (∀ l ∈ L, ∀ w ∈ l, Proper sp w) →
        (L.map joinSp).flatMap (words sp) = L.flatten := by
      intro L
      induction L with
      | nil => intro _; rfl
      | cons l L ih =>
        intro hL
        simp only [List.map_cons, List.flatMap_cons, List.flatten_cons]
        rw [words_joinSp hsp l (hL l List.mem_cons_self), ih (fun x hx => hL x (List.mem_cons_of_mem _ hx))]
    rw [key _ hall, packW_flatten]; simp

theorem splitIntoLines_ne_nil (ext : Str → Rat) (width : Rat) (line : Str) :
    splitIntoLines sp ext width line ≠ [] := by
  unfold splitIntoLines
  by_cases h : words sp line = []
  · simp [h]
  · simp only [h, if_false]
    intro hnil
    have := packW_flatten ext width (words sp line) []
    rw [List.map_eq_nil_iff.mp hnil] at this
    simp at this
    exact h this

theorem wrapLine_words (hsp : sp ' ' = true) (ext : Str → Rat) (width : Rat) (first : Bool) (line : Str) :
    (wrapLine sp ext width first line).flatMap (words sp) = words sp line := by
  have hw := splitIntoLines_words hsp ext width (lstrip sp line)
  cases hs : splitIntoLines sp ext width (lstrip sp line) with
  | nil => exact absurd hs (splitIntoLines_ne_nil ext width _)
  | cons l ls =>
    rw [hs] at hw
    simp only [wrapLine, hs, List.flatMap_cons] at hw ⊢
    rw [words_append_spaces, hw, words_lstrip]
    intro c hc
    split at hc
    · exact mem_takeWhile_true hc
    · split at hc
      · simp at hc; subst hc; exact hsp
      · cases hc

theorem wrapLines_words (hsp : sp ' ' = true) (ext : Str → Rat) (width : Rat) :
    ∀ (lines : List Str) (first : Bool),
      (wrapLines sp ext width first lines).flatMap (words sp) = lines.flatMap (words sp) := by
  intro lines
  induction lines with
  | nil => intro _; rfl
  | cons l ls ih =>
    intro first
    simp only [wrapLines, List.flatMap_append, List.flatMap_cons, wrapLine_words hsp, ih]

/-! ### vertical overflow -/

theorem fitLoop_prefix (extH : Str → Rat) (height : Rat) :
    ∀ (lines : List Str) (th : Rat) (prev : Option Str),
      (fitLoop extH height th prev lines).1 <+: lines := by
  intro lines
  induction lines with
  | nil => intro _ _; simp [fitLoop]
  | cons l ls ih =>
    intro th prev
    unfold fitLoop
    split
    · exact List.nil_prefix
    · simpa using ih _ _

/-- if the loop did not break, every line was rendered -/
theorem fitLoop_complete (extH : Str → Rat) (height : Rat) :
    ∀ (lines : List Str) (th : Rat) (prev : Option Str),
      (fitLoop extH height th prev lines).2 = none → (fitLoop extH height th prev lines).1 = lines := by
  intro lines
  induction lines with
  | nil => intro _ _ _; simp [fitLoop]
  | cons l ls ih =>
    intro th prev h
    unfold fitLoop at h ⊢
    split
    · rename_i hgt; simp [hgt] at h
    · rename_i hgt
      simp only [hgt, if_false] at h
      simp [ih _ _ h]

/-- if the loop broke, the overflow line is the last rendered line, or the first input line
when nothing was rendered -/
theorem fitLoop_overflow (extH : Str → Rat) (height : Rat) :
    ∀ (lines : List Str) (th : Rat) (prev : Option Str) (ov : Str),
      (fitLoop extH height th prev lines).2 = some ov →
      ((fitLoop extH height th prev lines).1 = [] ∧ ov = prev.getD (lines.headD [])) ∨
      ((fitLoop extH height th prev lines).1.getLast? = some ov) := by
  intro lines
  induction lines with
  | nil => intro th prev ov h; simp [fitLoop] at h
  | cons l ls ih =>
    intro th prev ov h
    unfold fitLoop at h ⊢
    split
    · rename_i hgt
      simp only [hgt, if_true] at h
      left; simp at h; cases prev <;> simp_all
    · rename_i hgt
      simp only [hgt, if_false] at h
      right
      rcases ih _ _ ov h with ⟨h1, h2⟩ | h2
      · simp [h1, h2]
      · simp only
        cases hr : (fitLoop extH height (th + extH l) (some l) ls).1 with
        | nil => rw [hr] at h2; simp at h2
        | cons x xs => rw [hr] at h2; simp [List.getLast?_cons_cons, h2]

end Capella.Wrap
