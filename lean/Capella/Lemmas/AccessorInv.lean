import Capella.Model.Accessor
import Capella.Lemmas.IndexApi

/-! The index invariant under the accessor model: every instruction that passes `opOk` is well-formed for the
index protocol (`WFOp`, `WFOpU`), so `emit` keeps `IxInv`; `Pres m` ("m keeps the invariant, whatever it
returns or raises") is closed under the monad's combinators. -/
namespace Capella.Accessor
open Capella.Index

/-- everything C03/C04 need of the index state, plus: element identities are distinct per fragment -/
structure IxInv (l : Loader) : Prop where
  inv : Inv l
  nids : ∀ f ∈ l, (f.tree.map (·.nid)).Nodup

theorem scanIds_nodup_of_allIds (l : Loader) (fi : Nat) (f : Frag) (h : l[fi]? = some f)
    (hu : (allIds l).Nodup) : (scanIds f.tree).Nodup := by
  rw [allIds_split l fi f h] at hu
  exact (List.nodup_append.mp (List.nodup_append.mp hu).2.1).1

theorem opOk_allIdsB (l : Loader) : opOk.allIdsB l = allIds l := rfl

/-- the guard is sound for the preconditions of `step_consistent` and `step_unique` -/
theorem opOk_sound (l : Loader) (op : Op) (hi : IxInv l) (h : opOk l op = true) : WFOp l op ∧ WFOpU l op := by
  cases op with
  | attach fi pos seg =>
    simp only [opOk, Bool.and_eq_true, decide_eq_true_eq, List.all_eq_true, opOk_allIdsB, Bool.not_eq_eq_eq_not,
      Bool.not_true, List.contains_eq_mem, decide_eq_false_iff_not] at h
    obtain ⟨⟨_, hn⟩, hf⟩ := h
    refine ⟨?_, hn, hf⟩
    intro f hfl k hk hm
    exact hf k hk (scanIds_sub_allIds l f (List.mem_of_getElem? hfl) k hm)
  | detach fi seg =>
    refine ⟨?_, trivial⟩
    intro f hfl
    simp only [opOk, hfl, List.all_eq_true, List.contains_eq_mem, decide_eq_true_eq] at h
    exact ⟨fun e he => h e he, scanIds_nodup_of_allIds l fi f hfl hi.inv.ids, hi.nids f (List.mem_of_getElem? hfl)⟩
  | reserve fi k =>
    simp only [opOk, Bool.and_eq_true, opOk_allIdsB, Bool.not_eq_eq_eq_not, Bool.not_true,
      List.contains_eq_mem, decide_eq_false_iff_not] at h
    exact ⟨fun f hfl hm => h.2 (scanIds_sub_allIds l f (List.mem_of_getElem? hfl) k hm), trivial⟩
  | unreserve fi k =>
    simp only [opOk, Bool.and_eq_true, opOk_allIdsB, Bool.not_eq_eq_eq_not, Bool.not_true,
      List.contains_eq_mem, decide_eq_false_iff_not] at h
    exact ⟨fun f hfl hm => h.2 (scanIds_sub_allIds l f (List.mem_of_getElem? hfl) k hm), trivial⟩
  | rebuild fi => simp [opOk] at h
  | reorder fi t => simp [opOk] at h
  | swapRoot fi n => simp [opOk] at h

theorem nids_insert (t seg : List Entry) (pos : Nat) (ht : (t.map (·.nid)).Nodup) (hs : (seg.map (·.nid)).Nodup)
    (hd : ∀ e ∈ seg, e.nid ∉ t.map (·.nid)) : ((t.take pos ++ seg ++ t.drop pos).map (·.nid)).Nodup := by
  have hp : ((t.take pos ++ seg ++ t.drop pos).map (·.nid)).Perm ((seg ++ t).map (·.nid)) := by
    apply List.Perm.map
    have h1 : (t.take pos ++ seg).Perm (seg ++ t.take pos) := List.perm_append_comm
    have h2 := h1.append_right (t.drop pos)
    simpa [List.append_assoc, List.take_append_drop] using h2
  rw [hp.nodup_iff, List.map_append, List.nodup_append]
  refine ⟨hs, ht, ?_⟩
  intro a ha b hb hab
  subst hab
  obtain ⟨e, he, rfl⟩ := List.mem_map.mp ha
  exact hd e he hb

/-- a guarded instruction keeps element identities distinct -/
theorem step_nids (l l' : Loader) (op : Op) (hi : IxInv l) (hok : opOk l op = true) (h : step l op = .ok l') :
    ∀ f ∈ l', (f.tree.map (·.nid)).Nodup := by
  cases op with
  | attach fi pos seg =>
    simp only [step, bind, Except.bind, pure, Except.pure] at h
    split at h
    · cases h
    · rename_i f hf
      split at h
      · cases h
      · rename_i f' hf'
        simp only [Except.ok.injEq] at h; subst h
        have hfl := getFrag_ok _ _ _ hf
        have ht : f'.tree = f.tree.take pos ++ seg ++ f.tree.drop pos := by
          unfold attach at hf'
          rw [(idcacheIndex_spec _ _ _ hf').1]; rfl
        simp only [opOk, hfl, Bool.and_eq_true, decide_eq_true_eq, List.all_eq_true, Bool.not_eq_eq_eq_not,
          Bool.not_true, List.contains_eq_mem, decide_eq_false_iff_not] at hok
        obtain ⟨⟨⟨hs, hd⟩, _⟩, _⟩ := hok
        intro g hg
        rcases mem_set_cases _ _ _ _ hg with rfl | hg
        · rw [ht]
          exact nids_insert f.tree seg pos (hi.nids f (List.mem_of_getElem? hfl)) hs hd
        · exact hi.nids g hg
  | detach fi seg =>
    simp only [step, bind, Except.bind, pure, Except.pure] at h
    split at h
    · cases h
    · rename_i f hf
      split at h
      · cases h
      · rename_i f' hf'
        simp only [Except.ok.injEq] at h; subst h
        have hfl := getFrag_ok _ _ _ hf
        have ht : f'.tree = f.tree.filter (fun e => !(seg.any (·.nid == e.nid))) := by
          unfold detach at hf'
          simp only [bind, Except.bind, pure, Except.pure] at hf'
          split at hf'
          · cases hf'
          · rename_i f1 h1
            simp only [Except.ok.injEq] at hf'; subst hf'
            simp [removeSeg, (idcacheRemove_spec _ _ _ h1).1]
        intro g hg
        rcases mem_set_cases _ _ _ _ hg with rfl | hg
        · rw [ht]
          exact List.Nodup.sublist (List.Sublist.map _ List.filter_sublist) (hi.nids f (List.mem_of_getElem? hfl))
        · exact hi.nids g hg
  | reserve fi k =>
    simp only [step, bind, Except.bind, pure, Except.pure] at h
    split at h
    · cases h
    · rename_i f hf
      simp only [Except.ok.injEq] at h; subst h
      intro g hg
      rcases mem_set_cases _ _ _ _ hg with rfl | hg
      · exact hi.nids f (List.mem_of_getElem? (getFrag_ok _ _ _ hf))
      · exact hi.nids g hg
  | unreserve fi k =>
    simp only [step, bind, Except.bind, pure, Except.pure] at h
    split at h
    · cases h
    · rename_i f hf
      simp only [Except.ok.injEq] at h; subst h
      intro g hg
      rcases mem_set_cases _ _ _ _ hg with rfl | hg
      · exact hi.nids f (List.mem_of_getElem? (getFrag_ok _ _ _ hf))
      · exact hi.nids g hg
  | rebuild fi => simp [opOk] at hok
  | reorder fi t => simp [opOk] at hok
  | swapRoot fi n => simp [opOk] at hok

/-- **every guarded instruction keeps the invariant** -/
theorem step_ixinv (l l' : Loader) (op : Op) (hi : IxInv l) (hok : opOk l op = true) (h : step l op = .ok l') :
    IxInv l' := by
  obtain ⟨hw, hu⟩ := opOk_sound l op hi hok
  exact ⟨⟨step_consistent l l' op hi.inv.cons hw h, step_unique l l' op hi.inv.ids hu h⟩, step_nids l l' op hi hok h⟩

/-! ### `Pres`: a program keeps the invariant whatever it returns or raises -/

structure Pres {α} (m : M α) : Prop where
  pres : ∀ s, IxInv s.ix → IxInv (m s).st.ix

theorem pres_pure {α} (a : α) : Pres (pure a : M α) := ⟨fun _ h => h⟩
theorem pres_raise {α} (e : Err) : Pres (raise e : M α) := ⟨fun _ h => h⟩
theorem pres_getS : Pres getS := ⟨fun _ h => h⟩
theorem pres_modS (f : State → State) (hf : ∀ s, (f s).ix = s.ix) : Pres (modS f) := by
  constructor; intro s h; simp only [modS, hf]; exact h

theorem pres_bind {α β} (m : M α) (f : α → M β) (hm : Pres m) (hf : ∀ a, Pres (f a)) : Pres (m >>= f) := by
  constructor
  intro s h
  have h1 := hm.pres s h
  show IxInv (match m s with | ⟨.ok a, s'⟩ => f a s' | ⟨.error e, s'⟩ => ⟨.error e, s'⟩).st.ix
  rcases hms : m s with ⟨v, s'⟩
  rw [hms] at h1
  cases v with
  | ok a => exact (hf a).pres s' h1
  | error e => exact h1

theorem pres_emit (op : Op) : Pres (emit op) := by
  constructor
  intro s h
  unfold emit
  split
  · rename_i hok
    split
    · rename_i ix' hst
      exact step_ixinv s.ix ix' op h hok hst
    · exact h
    · exact h
  · exact h

theorem pres_tryExcept {α} (m : M α) (hd : M Unit) (hm : Pres m) (hh : Pres hd) : Pres (tryExcept m hd) := by
  constructor
  intro s h
  have h1 := hm.pres s h
  unfold tryExcept
  rcases hms : m s with ⟨v, s'⟩
  rw [hms] at h1
  cases v with
  | ok a => exact h1
  | error e =>
    have h2 := hh.pres s' h1
    simp only
    rcases hhs : hd s' with ⟨v2, s''⟩
    rw [hhs] at h2
    cases v2 <;> exact h2

theorem pres_suppress (p : Err → Bool) (m : M Unit) (hm : Pres m) : Pres (suppress p m) := by
  constructor
  intro s h
  have h1 := hm.pres s h
  unfold suppress
  rcases hms : m s with ⟨v, s'⟩
  rw [hms] at h1
  cases v with
  | ok a => exact h1
  | error e => simp only; split <;> exact h1

theorem pres_tryCatch {α} (m : M α) (p : Err → Bool) (hd : M α) (hm : Pres m) (hh : Pres hd) : Pres (tryCatch m p hd) := by
  constructor
  intro s h
  have h1 := hm.pres s h
  unfold tryCatch
  rcases hms : m s with ⟨v, s'⟩
  rw [hms] at h1
  cases v with
  | ok a => exact h1
  | error e =>
    simp only
    split
    · exact hh.pres s' h1
    · exact h1

theorem pres_attempt {α} (m : M α) (hm : Pres m) : Pres (attempt m) := by
  constructor
  intro s h
  have h1 := hm.pres s h
  unfold attempt
  rcases hms : m s with ⟨v, s'⟩
  rw [hms] at h1
  cases v <;> exact h1

theorem pres_forM_ {α} (l : List α) (f : α → M Unit) (hf : ∀ a, Pres (f a)) : Pres (forM_ l f) := by
  induction l with
  | nil => exact pres_pure ()
  | cons a as ih => exact pres_bind _ _ (hf a) (fun _ => ih)

theorem pres_forIn {α β} (l : List α) (b : β) (f : α → β → M (ForInStep β)) (hf : ∀ a b, Pres (f a b)) :
    Pres (forIn l b f) := by
  induction l generalizing b with
  | nil => simp only [List.forIn_nil]; exact pres_pure b
  | cons a as ih =>
    rw [List.forIn_cons]
    apply pres_bind _ _ (hf a b)
    intro r
    cases r with
    | done b' => exact pres_pure b'
    | yield b' => exact ih b'

end Capella.Accessor
