import Capella.Lemmas.XmlBytes
/-! The column counter of a whole start tag, for every tag name (ASCII or not): `_serialize_element` starts the
attribute loop at `pos + 1 + len(tag.encode("utf-8"))`, i.e. the true column plus the number of continuation
bytes of the tag; the surplus is carried along until the first line break and vanishes there (after a break the
counter is set to the attribute indent). -/
namespace Capella.Xml

theorem nl_mem_attr (a v rest : Str) (ha : '\n' ∉ a) (hv : '\n' ∉ v) :
    '\n' ∈ a ++ '=' :: '"' :: (v ++ '"' :: rest) ↔ '\n' ∈ rest := by
  simp only [List.mem_append, List.mem_cons]
  constructor
  · rintro (h | h | h | h | h | h)
    · exact absurd h ha
    · exact absurd h (by decide)
    · exact absurd h (by decide)
    · exact absurd h hv
    · exact absurd h (by decide)
    · exact h
  · intro h; right; right; right; right; right; exact h

/-- **the counter of the attribute loop when it starts `x` ahead of the true column `p`**: it stays `x` ahead as
long as the loop has not broken the line, and is exact from the first break on -/
theorem serAttrs_pos_formula (ll ai : Nat) (isRoot : Bool) (ws : List (Str × Str))
    (hnl : ∀ w ∈ ws, '\n' ∉ w.1 ∧ '\n' ∉ w.2) (p x : Nat) (force : Bool) :
    (serAttrs ll ai isRoot ws (p + x) force).2 =
      colAfter p (serAttrs ll ai isRoot ws (p + x) force).1 +
        (if '\n' ∈ (serAttrs ll ai isRoot ws (p + x) force).1 then 0 else x) := by
  induction ws generalizing p force with
  | nil => simp [serAttrs, colAfter]
  | cons w rest ih =>
    obtain ⟨a, v⟩ := w
    obtain ⟨ha, hv⟩ := hnl (a, v) List.mem_cons_self
    have hrest := fun y hy => hnl y (List.mem_cons_of_mem _ hy)
    simp only [serAttrs]
    rcases Bool.eq_false_or_eq_true (decide (p + x > ll) || force) with hb | hb
    · simp only [hb, ↓reduceIte, List.cons_append, List.append_assoc, List.mem_cons, true_or, Nat.add_zero, colAfter]
      rw [serAttrs_pos_exact ll ai isRoot rest hrest, colAfter_append, colAfter_spaces, colAfter_attr _ a v _ ha hv]
      simp
    · simp only [hb, Bool.false_eq_true, ↓reduceIte, List.cons_append, List.nil_append, List.append_assoc]
      have e : p + x + 1 + a.length + v.length + 3 = (p + 1 + a.length + v.length + 3) + x := by omega
      rw [e, ih hrest]
      have hm : '\n' ∈ ' ' :: (a ++ '=' :: '"' :: (v ++ '"' ::
          (serAttrs ll ai isRoot rest (p + 1 + a.length + v.length + 3 + x) (isRoot && a == "id".toList)).1)) ↔
          '\n' ∈ (serAttrs ll ai isRoot rest (p + 1 + a.length + v.length + 3 + x) (isRoot && a == "id".toList)).1 := by
        rw [List.mem_cons, nl_mem_attr _ _ _ ha hv]
        constructor
        · rintro (h | h)
          · exact absurd h (by decide)
          · exact h
        · exact Or.inr
      simp only [hm, colAfter, show (' ' : Char) ≠ '\n' by decide, ↓reduceIte]
      rw [colAfter_attr _ a v _ ha hv]

/-- the whole start tag `<tag attr="v" …`: the counter after the loop against the true column -/
theorem stag_pos_formula (ll ai : Nat) (isRoot : Bool) (ws : List (Str × Str))
    (hnl : ∀ w ∈ ws, '\n' ∉ w.1 ∧ '\n' ∉ w.2) (pos : Nat) (tagS : Str) (ht : '\n' ∉ tagS) :
    (serAttrs ll ai isRoot ws (pos + 1 + utf8Len tagS) false).2 =
      colAfter pos ('<' :: tagS ++ (serAttrs ll ai isRoot ws (pos + 1 + utf8Len tagS) false).1) +
        (if '\n' ∈ (serAttrs ll ai isRoot ws (pos + 1 + utf8Len tagS) false).1 then 0
         else utf8Len tagS - tagS.length) := by
  rw [stag_column pos tagS ht, serAttrs_pos_formula ll ai isRoot ws hnl, ← colAfter_append]

end Capella.Xml
