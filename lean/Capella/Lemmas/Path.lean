import Capella.Model.Path

namespace Capella.Path

/-- a component that can never climb or vanish -/
def CleanComp (c : Str) : Prop := c ≠ [] ∧ c ≠ dot ∧ c ≠ dotdot ∧ '/' ∉ c

def Clean (l : List Str) : Prop := ∀ c ∈ l, CleanComp c

theorem splitSlash_ne_nil (s : Str) : splitSlash s ≠ [] := by
  induction s with
  | nil => simp [splitSlash]
  | cons c cs ih =>
    simp only [splitSlash]
    split
    · simp
    · split <;> simp

theorem splitSlash_no_slash (s : Str) : ∀ p ∈ splitSlash s, '/' ∉ p := by
  induction s with
  | nil => simp [splitSlash]
  | cons c cs ih =>
    simp only [splitSlash]
    split
    · intro p hp
      simp only [List.mem_cons] at hp
      rcases hp with rfl | hp
      · simp
      · exact ih p hp
    · rename_i hc
      split
      · intro p hp; simp at hp; subst hp; simp; exact fun h => hc h.symm
      · rename_i q qs heq
        intro p hp
        simp only [List.mem_cons] at hp
        rcases hp with rfl | hp
        · have := ih q (by rw [heq]; simp)
          simp only [List.mem_cons, not_or]
          exact ⟨fun h => hc h.symm, this⟩
        · exact ih p (by rw [heq]; simp [hp])

theorem parseRaw_parts (s : Str) :
    ∀ c ∈ (parseRaw s).parts, c ≠ [] ∧ c ≠ dot ∧ '/' ∉ c := by
  intro c hc
  simp only [parseRaw, List.mem_filter, keepComp, Bool.and_eq_true, decide_eq_true_eq] at hc
  obtain ⟨hm, h1, h2⟩ := hc
  exact ⟨h1, h2, splitSlash_no_slash _ c hm⟩

theorem mkPath_parts (args : List Str) :
    ∀ c ∈ (mkPath args).parts, c ≠ [] ∧ c ≠ dot ∧ '/' ∉ c := by
  unfold mkPath
  split <;> exact parseRaw_parts _

theorem collapseStep_clean (acc : List Str) (c : Str)
    (hacc : Clean acc) (hc : c ≠ [] ∧ c ≠ dot ∧ '/' ∉ c) : Clean (collapseStep acc c) := by
  unfold collapseStep
  split
  · intro x hx; rw [List.dropLast_eq_take] at hx; exact hacc x (List.mem_of_mem_take hx)
  · rename_i hdd
    intro x hx
    simp only [List.mem_append, List.mem_singleton] at hx
    rcases hx with hx | rfl
    · exact hacc x hx
    · exact ⟨hc.1, hc.2.1, hdd, hc.2.2⟩

theorem foldl_collapse_clean (parts acc : List Str) (hacc : Clean acc)
    (hp : ∀ c ∈ parts, c ≠ [] ∧ c ≠ dot ∧ '/' ∉ c) :
    Clean (parts.foldl collapseStep acc) := by
  induction parts generalizing acc with
  | nil => simpa
  | cons p ps ih =>
    simp only [List.foldl_cons]
    apply ih
    · exact collapseStep_clean acc p hacc (hp p (by simp))
    · intro c hc; exact hp c (by simp [hc])

theorem normalize_clean' (base path : List Str) : Clean (normalize base path) := by
  unfold normalize collapse
  apply foldl_collapse_clean
  · intro c hc; simp at hc
  · exact mkPath_parts _

/-- folding clean components only appends -/
theorem foldl_collapse_of_clean (l acc : List Str) (hl : Clean l) :
    l.foldl collapseStep acc = acc ++ l := by
  induction l generalizing acc with
  | nil => simp
  | cons p ps ih =>
    have hp : p ≠ dotdot := (hl p (by simp)).2.2.1
    simp only [List.foldl_cons, collapseStep, hp, if_false]
    rw [ih _ (fun c hc => hl c (by simp [hc]))]
    simp

theorem foldl_collapse_dotdots (n : Nat) (acc : List Str) :
    (List.replicate n dotdot).foldl collapseStep acc = acc.take (acc.length - n) := by
  induction n generalizing acc with
  | zero => simp
  | succ n ih =>
    simp only [List.replicate_succ, List.foldl_cons, collapseStep, if_true]
    rw [ih]
    rw [List.length_dropLast, List.dropLast_eq_take, List.take_take]
    congr 1
    omega

theorem collapse_append (a b : List Str) :
    collapse (a ++ b) = b.foldl collapseStep (collapse a) := by
  simp [collapse, List.foldl_append]

/-- closed form of `relpath`'s loop once the prefix flag is off -/
theorem foldl_relStep_false (s stack : List Str) :
    s.foldl relStep (stack, false) = (List.replicate s.length dotdot ++ stack, false) := by
  induction s generalizing stack with
  | nil => simp
  | cons p ps ih =>
    simp only [List.foldl_cons, relStep, Bool.false_eq_true, if_false]
    rw [ih]
    simp only [List.length_cons, List.replicate_succ', List.append_assoc, List.singleton_append]

/-- closed form of `relpath`: strip the common prefix; the first differing part of `start`
costs nothing, every later one costs a `..`. -/
theorem relpath_common (common t s : List Str) :
    relpath (common ++ t) (common ++ s) = relpath t s := by
  induction common with
  | nil => rfl
  | cons c cs ih =>
    unfold relpath at *
    simp only [List.cons_append, List.foldl_cons, relStep, if_true]
    exact ih

theorem relpath_diverge (t : List Str) (x : Str) (s : List Str)
    (h : t.head? ≠ some x) :
    relpath t (x :: s) = List.replicate s.length dotdot ++ t := by
  unfold relpath
  simp only [List.foldl_cons, relStep, if_true]
  cases t with
  | nil => simp [foldl_relStep_false]
  | cons a as =>
    have : a ≠ x := by simpa using h
    simp [this, foldl_relStep_false]

theorem relpath_nil_start (t : List Str) : relpath t [] = t := rfl

end Capella.Path
