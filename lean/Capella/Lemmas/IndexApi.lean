import Capella.Lemmas.IndexUnique

/-! API-level operations keep the whole invariant with no side condition left to the caller other than
what the element *is* (its identity is new, it carries exactly the drawn id). -/
namespace Capella.Index

/-- everything C03/C04 need of a loader state -/
structure Inv (l : Loader) : Prop where
  cons : ∀ f ∈ l, Consistent f
  ids : (allIds l).Nodup

theorem allIds_modify_reserve (l : Loader) (fi : Nat) (k : String) :
    allIds (l.modify fi (fun f => idcacheReserve f k)) = allIds l := by
  induction l generalizing fi with
  | nil => simp
  | cons g gs ih =>
    cases fi with
    | zero => simp [allIds, idcacheReserve]
    | succ n =>
      simp only [List.modify_succ_cons, allIds, List.flatMap_cons] at ih ⊢
      rw [ih]

theorem mem_modify (l : Loader) (fi : Nat) (g : Frag → Frag) (x : Frag) (hx : x ∈ l.modify fi g) :
    x ∈ l ∨ ∃ f ∈ l, x = g f := by
  induction l generalizing fi with
  | nil => simp at hx
  | cons a as ih =>
    cases fi with
    | zero =>
      simp only [List.modify_zero_cons, List.mem_cons] at hx
      rcases hx with rfl | hx
      · exact Or.inr ⟨a, List.mem_cons_self, rfl⟩
      · exact Or.inl (List.mem_cons_of_mem _ hx)
    | succ n =>
      simp only [List.modify_succ_cons, List.mem_cons] at hx
      rcases hx with rfl | hx
      · exact Or.inl List.mem_cons_self
      · rcases ih n hx with h | ⟨f, hf, rfl⟩
        · exact Or.inl (List.mem_cons_of_mem _ h)
        · exact Or.inr ⟨f, List.mem_cons_of_mem _ hf, rfl⟩

theorem scanIds_sub_allIds (l : Loader) (f : Frag) (hf : f ∈ l) (k : String) (hk : k ∈ scanIds f.tree) :
    k ∈ allIds l := by
  simp only [allIds, List.mem_flatMap]
  exact ⟨f, hf, hk⟩

theorem reserve_inv (l : Loader) (fi : Nat) (k : String) (hi : Inv l) (hk : k ∉ allIds l) :
    Inv (l.modify fi (fun f => idcacheReserve f k)) := by
  refine ⟨?_, by rw [allIds_modify_reserve]; exact hi.ids⟩
  intro x hx
  rcases mem_modify l fi _ x hx with h | ⟨f, hf, rfl⟩
  · exact hi.cons x h
  · exact reserve_consistent f k (hi.cons f hf) (fun hm => hk (scanIds_sub_allIds l f hf k hm))

theorem getElem?_modify_frag (l : Loader) (fi : Nat) (g : Frag → Frag) (f' : Frag)
    (h : (l.modify fi g)[fi]? = some f') : ∃ f, l[fi]? = some f ∧ f' = g f := by
  induction l generalizing fi with
  | nil => simp at h
  | cons a as ih =>
    cases fi with
    | zero =>
      simp only [List.modify_zero_cons, List.getElem?_cons_zero, Option.some.injEq] at h
      exact ⟨a, rfl, h.symm⟩
    | succ n =>
      simp only [List.modify_succ_cons, List.getElem?_cons_succ] at h
      simpa using ih n h

/-- **Creation keeps the invariant.** Whatever id is requested or drawn, whatever the element looks
like otherwise: if it carries exactly the id `new_uuid` handed out, the loader is consistent and its
ids are unique afterwards. -/
theorem apiCreate_inv (l l' : Loader) (fi pos : Nat) (want : Option String) (cands : List String)
    (mk : String → Entry) (k : String) (hi : Inv l) (hmk : ∀ s, (mk s).ids = [s])
    (h : apiCreate l fi pos want cands mk = .ok (l', k)) : Inv l' ∧ k ∉ allIds l := by
  unfold apiCreate at h
  simp only [bind, Except.bind, pure, Except.pure] at h
  split at h
  · cases h
  · rename_i r hr
    obtain ⟨l1, k1⟩ := r
    simp only at h
    split at h
    · cases h
    · rename_i l2 h2
      simp only [Except.ok.injEq, Prod.mk.injEq] at h
      obtain ⟨rfl, rfl⟩ := h
      -- the drawn id is fresh and the intermediate state is the reservation
      have hfresh : k1 ∉ allIds l ∧ l1 = l.modify fi (fun f => idcacheReserve f k1) := by
        cases want with
        | none =>
          obtain ⟨a, _, c⟩ := generateUuid_random l l1 fi cands k1 (fun f hf => (hi.cons f hf).1) hi.ids hr
          exact ⟨a, c⟩
        | some w =>
          by_cases hw : w ∈ allIds l
          · rw [generateUuid_want_used l fi cands w (fun f hf => (hi.cons f hf).1) hi.ids hw] at hr
            cases hr
          · rw [generateUuid_want_free l fi cands w (fun f hf => (hi.cons f hf).1) hw] at hr
            simp only [Except.ok.injEq, Prod.mk.injEq] at hr
            obtain ⟨rfl, rfl⟩ := hr
            exact ⟨hw, rfl⟩
      obtain ⟨hk, rfl⟩ := hfresh
      have hi1 := reserve_inv l fi k1 hi hk
      have hseg : scanIds [mk k1] = [k1] := by simp [scanIds, hmk]
      refine ⟨⟨?_, ?_⟩, hk⟩
      · apply step_consistent _ l2 (.attach fi pos [mk k1]) hi1.cons ?_ h2
        intro f' hf' k' hk'
        rw [hseg] at hk'
        simp only [List.mem_singleton] at hk'
        subst hk'
        obtain ⟨f, hf, rfl⟩ := getElem?_modify_frag l fi _ f' hf'
        intro hm
        exact hk (scanIds_sub_allIds l f (List.mem_of_getElem? hf) _ hm)
      · apply step_unique _ l2 (.attach fi pos [mk k1]) hi1.ids ?_ h2
        refine ⟨by rw [hseg]; simp, ?_⟩
        intro k' hk'
        rw [hseg] at hk'
        simp only [List.mem_singleton] at hk'
        subst hk'
        rw [allIds_modify_reserve]
        exact hk

/-- **Deletion keeps the invariant**, provided each removed segment is made of elements of the fragment
it is removed from and element identities are distinct there (they are Python objects). -/
theorem apiDelete_inv (segs : List (Nat × List Entry)) (l l' : Loader) (hi : Inv l)
    (hw : WFRun l (segs.map (fun (fi, seg) => Op.detach fi seg)))
    (h : apiDelete l segs = .ok l') : Inv l' := by
  unfold apiDelete at h
  refine ⟨run_consistent _ l l' hi.cons hw h, ?_⟩
  apply run_unique _ l l' hi.ids ?_ h
  clear hw h hi
  induction segs generalizing l with
  | nil => trivial
  | cons s ss ih => exact ⟨trivial, fun l1 _ => ih l1⟩

end Capella.Index
