/-
`Circle.vector_snap` as a relation (`Capella.Model.GeomCircle`): the relation determines the point (no square root
needed to say which one), and it commutes with translation.
-/
import Capella.Model.GeomCircle
import Capella.Lemmas.GeomTranslate

namespace Capella.Geom

/-- a vector parallel to `d ≠ 0` is `d` scaled by `(u·d)/|d|²` -/
theorem parallel_scale (u d : V2) (hd : d ≠ ⟨0, 0⟩) (hc : cross u d = 0) :
    u.x * d.sqlength = d.x * u.dot d ∧ u.y * d.sqlength = d.y * u.dot d := by
  simp only [cross, V2.sqlength, V2.dot] at *
  constructor
  · have : u.x * d.y = u.y * d.x := by linarith
    calc u.x * (d.x * d.x + d.y * d.y) = u.x * d.x * d.x + (u.x * d.y) * d.y := by ring
      _ = u.x * d.x * d.x + (u.y * d.x) * d.y := by rw [this]
      _ = d.x * (u.x * d.x + u.y * d.y) := by ring
  · have : u.x * d.y = u.y * d.x := by linarith
    calc u.y * (d.x * d.x + d.y * d.y) = (u.y * d.x) * d.x + u.y * d.y * d.y := by ring
      _ = (u.x * d.y) * d.x + u.y * d.y * d.y := by rw [this]
      _ = d.y * (u.x * d.x + u.y * d.y) := by ring

theorem sqlength_pos (d : V2) (hd : d ≠ ⟨0, 0⟩) : 0 < d.sqlength := by
  simp only [V2.sqlength]
  by_contra h
  have hx : d.x * d.x = 0 := by nlinarith [mul_self_nonneg d.x, mul_self_nonneg d.y]
  have hy : d.y * d.y = 0 := by nlinarith [mul_self_nonneg d.x, mul_self_nonneg d.y]
  exact hd (V2.ext' (mul_self_eq_zero.mp hx) (mul_self_eq_zero.mp hy))

/-- the relation determines the point -/
theorem onCircleInDir_unique (c : V2) (radius : Rat) (d r r' : V2) (h : onCircleInDir c radius d r)
    (h' : onCircleInDir c radius d r') : r = r' := by
  obtain ⟨hd, hl, hc, hs⟩ := h
  obtain ⟨_, hl', hc', hs'⟩ := h'
  have hpos := sqlength_pos d hd
  obtain ⟨px, py⟩ := parallel_scale (r - c) d hd hc
  obtain ⟨px', py'⟩ := parallel_scale (r' - c) d hd hc'
  -- |u|²·|d|² = (u·d)² for u parallel to d
  have sq : ∀ u : V2, u.x * d.sqlength = d.x * u.dot d → u.y * d.sqlength = d.y * u.dot d →
      u.sqlength * d.sqlength = u.dot d * u.dot d := by
    intro u hx hy
    have h1 : u.sqlength * d.sqlength * d.sqlength = u.dot d * u.dot d * d.sqlength := by
      calc u.sqlength * d.sqlength * d.sqlength
          = (u.x * d.sqlength) * (u.x * d.sqlength) + (u.y * d.sqlength) * (u.y * d.sqlength) := by
            simp only [V2.sqlength]; ring
        _ = (d.x * u.dot d) * (d.x * u.dot d) + (d.y * u.dot d) * (d.y * u.dot d) := by rw [hx, hy]
        _ = u.dot d * u.dot d * d.sqlength := by simp only [V2.sqlength]; ring
    exact mul_right_cancel₀ (ne_of_gt hpos) h1
  have e1 := sq (r - c) px py
  have e2 := sq (r' - c) px' py'
  have hdot : (r - c).dot d = (r' - c).dot d := by
    have : (r - c).dot d * (r - c).dot d = (r' - c).dot d * (r' - c).dot d := by rw [← e1, ← e2, hl, hl']
    have hz : ((r - c).dot d - (r' - c).dot d) * ((r - c).dot d + (r' - c).dot d) = 0 := by ring_nf; ring_nf at this; linarith
    rcases mul_eq_zero.mp hz with h0 | h0
    · linarith
    · have a : (r - c).dot d = 0 := by linarith
      have b : (r' - c).dot d = 0 := by linarith
      rw [a, b]
  have hx : (r - c).x = (r' - c).x := by
    have : (r - c).x * d.sqlength = (r' - c).x * d.sqlength := by rw [px, px', hdot]
    exact mul_right_cancel₀ (ne_of_gt hpos) this
  have hy : (r - c).y = (r' - c).y := by
    have : (r - c).y * d.sqlength = (r' - c).y * d.sqlength := by rw [py, py', hdot]
    exact mul_right_cancel₀ (ne_of_gt hpos) this
  simp only [V2.sub_x, V2.sub_y] at hx hy
  exact V2.ext' (by linarith) (by linarith)

theorem circleDir_translate (c vector source v : V2) :
    circleDir (c + v) (vector + v) (source + v) = circleDir c vector source := by
  unfold circleDir
  simp only [V2.add_right_cancel_iff, V2.add_sub_add]

theorem onCircleInDir_translate (c : V2) (radius : Rat) (d r v : V2) :
    onCircleInDir (c + v) radius d (r + v) ↔ onCircleInDir c radius d r := by
  unfold onCircleInDir
  rw [V2.add_sub_add]

end Capella.Geom
