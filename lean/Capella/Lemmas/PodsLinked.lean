import Capella.Model.PodsLinked

/-!
Lemmas about the linked-text codec (`Model/PodsLinked.lean`): the sub-language parser inverts the two
renderings, `escape` maps the value form to the stored form, `unescape` maps the stored form to the view.
-/
namespace Capella.Pods

/-! ## `html.escape` -/

theorem htmlEscape_append (a b : Str) : htmlEscape (a ++ b) = htmlEscape a ++ htmlEscape b := by
  induction a with
  | nil => rfl
  | cons c r ih => simp [htmlEscape, ih]

theorem htmlEscape_hlink : htmlEscape hlink = hlink := by decide
theorem htmlEscape_deleted : htmlEscape sDeletedT = sDeletedL := by decide
theorem htmlEscape_unnamed : htmlEscape sUnnamedT = sUnnamedL := by decide
theorem htmlEscape_gt : htmlEscape ['>'] = sGt := by decide
theorem escChar_gt : escChar '>' = sGt := by decide

/-- the characters the codec keeps, split by what `html.escape` does to them -/
theorem okc_cases (c : Char) (h : (xmlChar c && c != '\r') = true) :
    c = '&' ∨ c = '<' ∨ c = '>' ∨ c = '"' ∨ c = '\'' ∨
    (c ≠ '&' ∧ c ≠ '<' ∧ c ≠ '>' ∧ c ≠ '"' ∧ c ≠ '\'' ∧ plainChar c = true) := by
  by_cases h1 : c = '&'
  · exact Or.inl h1
  by_cases h2 : c = '<'
  · exact Or.inr (Or.inl h2)
  by_cases h3 : c = '>'
  · exact Or.inr (Or.inr (Or.inl h3))
  by_cases h4 : c = '"'
  · exact Or.inr (Or.inr (Or.inr (Or.inl h4)))
  by_cases h5 : c = '\''
  · exact Or.inr (Or.inr (Or.inr (Or.inr (Or.inl h5))))
  refine Or.inr (Or.inr (Or.inr (Or.inr (Or.inr ⟨h1, h2, h3, h4, h5, ?_⟩))))
  simp only [plainChar, Bool.and_eq_true, bne_iff_ne, ne_eq] at h ⊢
  exact ⟨⟨h, h2⟩, h1⟩

theorem okText_cons (c : Char) (s : Str) :
    okText (c :: s) = ((xmlChar c && c != '\r') && okText s) := by
  simp [okText]

theorem okText_append (a b : Str) : okText (a ++ b) = (okText a && okText b) := by
  simp [okText]

/-! ## text runs -/

/-- where a text run stops -/
def stopsText (r : Str) : Prop := r = [] ∨ ∃ r', r = '<' :: r'

theorem textRun_plain (c : Char) (r : Str) (h1 : c ≠ '<') (h2 : c ≠ '&') :
    textRun (c :: r) = if plainChar c then pushC c (textRun r) else none := by
  conv => lhs; unfold textRun
  simp [h1, h2]

theorem textRun_lt (r : Str) : textRun ('<' :: r) = some ([], '<' :: r) := by
  conv => lhs; unfold textRun
  simp

theorem textRun_stop (r : Str) (h : stopsText r) : textRun r = some ([], r) := by
  rcases h with rfl | ⟨r', rfl⟩
  · rfl
  · exact textRun_lt r'

theorem textRun_escape (s r : Str) (hs : okText s = true) (hr : stopsText r) :
    textRun (htmlEscape s ++ r) = some (s, r) := by
  induction s with
  | nil => simpa [htmlEscape] using textRun_stop r hr
  | cons c s ih =>
    rw [okText_cons, Bool.and_eq_true] at hs
    have ih' := ih hs.2
    rcases okc_cases c hs.1 with h | h | h | h | h | ⟨h1, h2, h3, h4, h5, hp⟩
    · subst h; simp [htmlEscape, escChar, sAmp, textRun, ih', pushC]
    · subst h; simp [htmlEscape, escChar, sLt, textRun, ih', pushC]
    · subst h; simp [htmlEscape, escChar, sGt, textRun, ih', pushC]
    · subst h; simp [htmlEscape, escChar, sQuot, textRun, ih', pushC]
    · subst h; simp [htmlEscape, escChar, sApos, textRun, ih', pushC]
    · simp only [htmlEscape, escChar, h1, h2, h3, h4, h5, if_false, List.cons_append, List.nil_append]
      rw [textRun_plain c _ h2 h1]; simp [hp, ih', pushC]

/-! ## attribute values -/

theorem attrRun_plain (c : Char) (r : Str) (h0 : c ≠ '"') (h1 : c ≠ '<') (h2 : c ≠ '&') :
    attrRun (c :: r) = if plainChar c then pushC c (attrRun r) else none := by
  conv => lhs; unfold attrRun
  simp [h0, h1, h2]

theorem attrRun_quote (r : Str) : attrRun ('"' :: r) = some ([], r) := by
  conv => lhs; unfold attrRun
  simp

theorem attrRun_escape (s r : Str) (hs : okText s = true) :
    attrRun (htmlEscape s ++ '"' :: r) = some (s, r) := by
  induction s with
  | nil => simpa [htmlEscape] using attrRun_quote r
  | cons c s ih =>
    rw [okText_cons, Bool.and_eq_true] at hs
    have ih' := ih hs.2
    rcases okc_cases c hs.1 with h | h | h | h | h | ⟨h1, h2, h3, h4, h5, hp⟩
    · subst h; simp [htmlEscape, escChar, sAmp, attrRun, ih', pushC]
    · subst h; simp [htmlEscape, escChar, sLt, attrRun, ih', pushC]
    · subst h; simp [htmlEscape, escChar, sGt, attrRun, ih', pushC]
    · subst h; simp [htmlEscape, escChar, sQuot, attrRun, ih', pushC]
    · subst h; simp [htmlEscape, escChar, sApos, attrRun, ih', pushC]
    · simp only [htmlEscape, escChar, h1, h2, h3, h4, h5, if_false, List.cons_append, List.nil_append]
      rw [attrRun_plain c _ h4 h2 h1]; simp [hp, ih', pushC]

/-! ## sequences of links -/

def Link.okL (l : Link) : Bool := okText l.id && okText l.name && okText l.tail

/-- the element `fragments_fromstring` yields for a stored link -/
def rawNode (l : Link) : Node := .mk tagA (some l.id) [] [] l.tail
/-- … and for a link of the value form -/
def valNode (l : Link) : Node := .mk tagA (some (hlink ++ l.id)) l.name [] l.tail

theorem stops_renderLinksR (ls : List Link) : stopsText (renderLinksR ls) := by
  cases ls with
  | nil => exact Or.inl rfl
  | cons l r => exact Or.inr ⟨_, rfl⟩

theorem stops_renderLinksV (ls : List Link) : stopsText (renderLinksV ls) := by
  cases ls with
  | nil => exact Or.inl rfl
  | cons l r => exact Or.inr ⟨_, rfl⟩

theorem parseLinks_nil (fuel : Nat) : parseLinks fuel [] = some [] := by
  cases fuel <;> rfl

theorem parseLinks_renderR (ls : List Link) (h : ls.all Link.okL = true) :
    ∀ fuel, (renderLinksR ls).length ≤ fuel → parseLinks fuel (renderLinksR ls) = some (ls.map rawNode) := by
  induction ls with
  | nil => intro fuel _; exact parseLinks_nil fuel
  | cons l r ih =>
    intro fuel hf
    simp only [List.all_cons, Bool.and_eq_true, Link.okL] at h
    obtain ⟨⟨⟨hid, _⟩, htl⟩, hr⟩ := h
    cases fuel with
    | zero => simp [renderLinksR, renderLinkR, aOpen] at hf
    | succ fuel =>
      have hlen : (renderLinksR r).length ≤ fuel := by
        simp only [renderLinksR, renderLinkR, aOpen, List.length_append, List.length_cons, List.length_nil] at hf
        omega
      have e1 : renderLinksR (l :: r) =
          '<' :: 'a' :: ' ' :: 'h' :: 'r' :: 'e' :: 'f' :: '=' :: '"' ::
            (htmlEscape l.id ++ '"' :: '/' :: '>' :: (htmlEscape l.tail ++ renderLinksR r)) := by
        simp [renderLinksR, renderLinkR, aOpen, aEmptyClose]
      rw [e1]
      simp only [parseLinks]
      rw [attrRun_escape l.id _ hid]
      simp only []
      rw [textRun_escape l.tail _ htl (stops_renderLinksR r)]
      simp only []
      rw [ih hr fuel hlen]
      simp [consN, rawNode]

theorem parseLinks_renderV (ls : List Link) (h : ls.all Link.okL = true) :
    ∀ fuel, (renderLinksV ls).length ≤ fuel → parseLinks fuel (renderLinksV ls) = some (ls.map valNode) := by
  induction ls with
  | nil => intro fuel _; exact parseLinks_nil fuel
  | cons l r ih =>
    intro fuel hf
    simp only [List.all_cons, Bool.and_eq_true, Link.okL] at h
    obtain ⟨⟨⟨hid, hnm⟩, htl⟩, hr⟩ := h
    cases fuel with
    | zero => simp [renderLinksV, renderLinkV, aOpenHlink, aOpen] at hf
    | succ fuel =>
      have hlen : (renderLinksV r).length ≤ fuel := by
        simp only [renderLinksV, renderLinkV, aOpenHlink, aOpen, List.length_append, List.length_cons,
          List.length_nil] at hf
        omega
      have hh : okText (hlink ++ l.id) = true := by
        rw [okText_append, hid]; decide
      have e1 : renderLinksV (l :: r) =
          '<' :: 'a' :: ' ' :: 'h' :: 'r' :: 'e' :: 'f' :: '=' :: '"' ::
            (htmlEscape (hlink ++ l.id) ++ '"' :: '>' ::
              (htmlEscape l.name ++ ('<' :: '/' :: 'a' :: '>' :: (htmlEscape l.tail ++ renderLinksV r)))) := by
        simp [renderLinksV, renderLinkV, aOpenHlink, aOpen, aMid, aClose, htmlEscape_append, htmlEscape_hlink]
      rw [e1]
      simp only [parseLinks]
      rw [attrRun_escape _ _ hh]
      simp only []
      rw [textRun_escape l.name _ hnm (Or.inr ⟨_, rfl⟩)]
      simp only []
      rw [textRun_escape l.tail _ htl (stops_renderLinksV r)]
      simp only []
      rw [ih hr fuel hlen]
      simp [consN, valNode]

/-! ## the parser inverts both renderings -/

theorem LT.ok_iff (v : LT) : v.ok = true ↔ okText v.lead = true ∧ v.links.all Link.okL = true := by
  simp [LT.ok, Link.okL, Bool.and_assoc]

theorem parseSub_renderRaw (v : LT) (h : v.ok = true) :
    parseSub (renderRaw v) = some ⟨leadOf v.lead, v.links.map rawNode⟩ := by
  obtain ⟨hl, hk⟩ := (LT.ok_iff v).mp h
  simp only [parseSub, renderRaw]
  rw [textRun_escape v.lead _ hl (stops_renderLinksR v.links)]
  simp only []
  rw [parseLinks_renderR v.links hk _ (Nat.le_refl _)]

theorem parseSub_renderValue (v : LT) (h : v.ok = true) :
    parseSub (renderValue v) = some ⟨leadOf v.lead, v.links.map valNode⟩ := by
  obtain ⟨hl, hk⟩ := (LT.ok_iff v).mp h
  simp only [parseSub, renderValue]
  rw [textRun_escape v.lead _ hl (stops_renderLinksV v.links)]
  simp only []
  rw [parseLinks_renderV v.links hk _ (Nat.le_refl _)]

/-! ## `escape` on the value form -/

theorem hlink_isPrefix (s : Str) : hlink.isPrefixOf (hlink ++ s) = true := by
  simp [hlink, List.isPrefixOf]

theorem hlink_drop (s : Str) : (hlink ++ s).drop hlink.length = s := by
  simp [hlink]

theorem escNode_valNode (l : Link) : escNode (valNode l) = .ok (renderLinkR l) := by
  simp [escNode, valNode, hlink_isPrefix, renderLinkR]

theorem escNodes_valNodes (ls : List Link) : escNodes (ls.map valNode) = .ok (renderLinksR ls) := by
  induction ls with
  | nil => rfl
  | cons l r ih => simp [escNodes, escNode_valNode, ih, renderLinksR]

theorem leadOf_getD (t : Str) : (leadOf t).getD [] = if t.all isPySpace then [] else t := by
  simp only [leadOf]; split <;> rfl

theorem escapeFrags_value (v : LT) :
    escapeFrags ⟨leadOf v.lead, v.links.map valNode⟩ = .ok (renderRaw v.dropLead) := by
  simp only [escapeFrags, escNodes_valNodes, leadOf_getD, LT.dropLead, renderRaw]
  split <;> simp [htmlEscape]

/-! ## `unescape` on the stored form -/

theorem unescNodes_rawNodes (look : Str → Target) (ls : List Link) :
    unescNodes look (ls.map rawNode) =
      .ok (htmlEscape (viewLinks look ls).1 ++ renderLinksV (viewLinks look ls).2) := by
  induction ls with
  | nil => simp [unescNodes, viewLinks, htmlEscape, renderLinksV]
  | cons l r ih =>
    simp only [List.map_cons, unescNodes, rawNode, unescNode, if_true, ih]
    simp only [viewLinks]
    cases hl : look l.id with
    | malformed =>
      simp [htmlEscape_append, htmlEscape, List.append_assoc, htmlEscape_deleted, escChar_gt, sEntGt]
    | named n =>
      simp [renderLinksV, renderLinkV, htmlEscape_append, htmlEscape, List.append_assoc]
    | unnamed =>
      simp [renderLinksV, renderLinkV, htmlEscape_append, htmlEscape, List.append_assoc, htmlEscape_unnamed,
        escChar_gt, sEntGt]
    | missing =>
      simp [htmlEscape_append, htmlEscape, List.append_assoc, htmlEscape_deleted, escChar_gt, sEntGt]

theorem unescapeFrags_raw (look : Str → Target) (v : LT) :
    unescapeFrags look ⟨leadOf v.lead, v.links.map rawNode⟩ = .ok (renderValue (view look v.dropLead)) := by
  have hd : v.dropLead.links = v.links := by simp only [LT.dropLead]; split <;> rfl
  simp only [unescapeFrags, unescNodes_rawNodes look v.links, leadOf_getD, view, renderValue, hd,
    htmlEscape_append, List.append_assoc]
  simp only [LT.dropLead]
  split <;> simp [htmlEscape]

end Capella.Pods
