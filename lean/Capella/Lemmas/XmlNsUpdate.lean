import Capella.Lemmas.XmlEdit
import Capella.Lemmas.XmlCanon
import Capella.Lemmas.XmlBuild
import Capella.Model.XmlNsUpdate
/-! `update_namespaces` (C01/C02): what the recomputed namespace map contains, idempotence, and that a
Capella-shaped document stays Capella-shaped. -/
namespace Capella.Xml

/-! ### association lists -/

theorem lookupNs_some_mem {m : List (Str × Str)} {p u : Str} (h : lookupNs p m = some u) : (p, u) ∈ m := by
  induction m with
  | nil => simp [lookupNs] at h
  | cons x xs ih =>
    obtain ⟨k, v⟩ := x
    simp only [lookupNs] at h
    split at h
    · rename_i hk
      simp only [Option.some.injEq] at h
      rw [hk, h]; exact List.mem_cons_self
    · exact List.mem_cons_of_mem _ (ih h)

theorem lookupNs_none_not_mem {m : List (Str × Str)} {p : Str} (h : lookupNs p m = none) : p ∉ keysOf m := by
  induction m with
  | nil => simp [keysOf]
  | cons x xs ih =>
    obtain ⟨k, v⟩ := x
    simp only [lookupNs] at h
    split at h
    · simp at h
    · rename_i hk
      simp only [keysOf, List.map_cons, List.mem_cons, not_or]
      exact ⟨fun hp => hk hp.symm, by simpa [keysOf] using ih h⟩

theorem lookupNs_append_left {a b : List (Str × Str)} {p u : Str} (h : lookupNs p a = some u) :
    lookupNs p (a ++ b) = some u := by
  induction a with
  | nil => simp [lookupNs] at h
  | cons x xs ih =>
    obtain ⟨k, v⟩ := x
    simp only [lookupNs, List.cons_append] at h ⊢
    split
    · rename_i hk; rw [if_pos hk] at h; exact h
    · rename_i hk; rw [if_neg hk] at h; exact ih h

theorem lookupNs_append_right {a b : List (Str × Str)} {p : Str} (h : lookupNs p a = none) :
    lookupNs p (a ++ b) = lookupNs p b := by
  induction a with
  | nil => rfl
  | cons x xs ih =>
    obtain ⟨k, v⟩ := x
    simp only [lookupNs, List.cons_append] at h ⊢
    split
    · rename_i hk; rw [if_pos hk] at h; simp at h
    · rename_i hk; rw [if_neg hk] at h; exact ih h

theorem keysOf_perm {a b : List (Str × Str)} (hp : a.Perm b) : (keysOf a).Perm (keysOf b) := by
  unfold keysOf; exact hp.map _

/-- lookups do not depend on the order of a map with distinct keys -/
theorem lookupNs_perm {a b : List (Str × Str)} (hp : a.Perm b) (hd : (keysOf a).Nodup) (p : Str) :
    lookupNs p a = lookupNs p b := by
  cases hb : lookupNs p b with
  | some u => exact lookupNs_mem hd (hp.mem_iff.mpr (lookupNs_some_mem hb))
  | none =>
    apply lookupNs_none
    intro hm
    have : p ∈ keysOf b := (keysOf_perm hp).mem_iff.mp hm
    exact lookupNs_none_not_mem hb this

theorem insertKV_perm (x : Str × Str) (l : List (Str × Str)) : (insertKV x l).Perm (x :: l) := by
  induction l with
  | nil => exact List.Perm.refl _
  | cons y ys ih =>
    simp only [insertKV]
    split
    · exact (List.Perm.cons y ih).trans (List.Perm.swap x y ys)
    · exact List.Perm.refl _

theorem sortKV_perm (l : List (Str × Str)) : (sortKV l).Perm l := by
  induction l with
  | nil => exact List.Perm.refl _
  | cons x xs ih => exact (insertKV_perm x _).trans (List.Perm.cons x ih)

theorem mem_sortKV {l : List (Str × Str)} {x : Str × Str} : x ∈ sortKV l ↔ x ∈ l := (sortKV_perm l).mem_iff

theorem keysOf_sortKV_nodup {l : List (Str × Str)} (h : (keysOf l).Nodup) : (keysOf (sortKV l)).Nodup :=
  (keysOf_perm (sortKV_perm l)).nodup_iff.mpr h

theorem lookupNs_sortKV {l : List (Str × Str)} (h : (keysOf l).Nodup) (p : Str) :
    lookupNs p (sortKV l) = lookupNs p l :=
  lookupNs_perm (sortKV_perm l) (keysOf_sortKV_nodup h) p

/-- a map with distinct keys equals (as a dictionary) its sorted copy -/
theorem dictEq_sortKV {l : List (Str × Str)} (h : (keysOf l).Nodup) : dictEq (sortKV l) l = true := by
  simp only [dictEq, Bool.and_eq_true, List.all_eq_true, beq_iff_eq]
  constructor
  · intro x hx
    exact lookupNs_mem h (mem_sortKV.mp hx)
  · intro x hx
    rw [lookupNs_sortKV h]
    exact lookupNs_mem h hx

/-- `dictEq` says the two maps hold the same bindings -/
theorem dictEq_mem {a b : List (Str × Str)} (h : dictEq a b = true) (x : Str × Str) : x ∈ a ↔ x ∈ b := by
  simp only [dictEq, Bool.and_eq_true, List.all_eq_true, beq_iff_eq] at h
  exact ⟨fun hx => lookupNs_some_mem (h.1 x hx), fun hx => lookupNs_some_mem (h.2 x hx)⟩

/-! ### the loop -/

theorem addBinding_ok {acc acc' : List (Str × Str)} {b : Str × Str} (h : addBinding acc b = .ok acc') :
    (acc' = acc ∧ lookupNs b.1 acc = some b.2) ∨ (acc' = acc ++ [b] ∧ lookupNs b.1 acc = none) := by
  unfold addBinding at h
  split at h
  · rename_i hn
    simp only [Except.ok.injEq] at h
    exact Or.inr ⟨h.symm, hn⟩
  · rename_i u hs
    split at h
    · rename_i hu
      simp only [Except.ok.injEq] at h
      exact Or.inl ⟨h.symm, by rw [hs, hu]⟩
    · simp at h

theorem addBinding_mem {acc acc' : List (Str × Str)} {b : Str × Str} (h : addBinding acc b = .ok acc')
    (x : Str × Str) : x ∈ acc' ↔ x ∈ acc ∨ x = b := by
  rcases addBinding_ok h with ⟨rfl, hl⟩ | ⟨rfl, _⟩
  · constructor
    · exact Or.inl
    · rintro (hx | rfl)
      · exact hx
      · exact lookupNs_some_mem hl
  · simp

theorem addBinding_nodup {acc acc' : List (Str × Str)} {b : Str × Str} (h : addBinding acc b = .ok acc')
    (hd : (keysOf acc).Nodup) : (keysOf acc').Nodup := by
  rcases addBinding_ok h with ⟨rfl, _⟩ | ⟨rfl, hn⟩
  · exact hd
  · rw [keysOf_append]
    refine List.nodup_append.mpr ⟨hd, by simp [keysOf], ?_⟩
    intro a ha c hc hac
    simp only [keysOf, List.map_cons, List.map_nil, List.mem_singleton] at hc
    exact lookupNs_none_not_mem hn (by rw [← hc, ← hac]; exact ha)

theorem addBinding_lookup {acc acc' : List (Str × Str)} {b : Str × Str} (h : addBinding acc b = .ok acc') :
    lookupNs b.1 acc' = some b.2 := by
  rcases addBinding_ok h with ⟨rfl, hl⟩ | ⟨rfl, hn⟩
  · exact hl
  · rw [lookupNs_append_right hn]; simp [lookupNs]

theorem addBinding_mono {acc acc' : List (Str × Str)} {b : Str × Str} (h : addBinding acc b = .ok acc')
    {p u : Str} (hl : lookupNs p acc = some u) : lookupNs p acc' = some u := by
  rcases addBinding_ok h with ⟨rfl, _⟩ | ⟨rfl, _⟩
  · exact hl
  · exact lookupNs_append_left hl

/-- **what the loop computes**: the final map holds the initial bindings and exactly the bindings some
element asks for -/
theorem scanGo_mem (t : List Plugin) (vps : List (Str × Str)) (items : List Item) (acc n : List (Str × Str))
    (h : scanGo t vps items acc = .ok n) (b : Str × Str) : b ∈ n ↔ b ∈ acc ∨ Asked t vps items b := by
  induction items generalizing acc with
  | nil =>
    simp only [scanGo, Except.ok.injEq] at h
    subst h
    simp [Asked]
  | cons x rest ih =>
    simp only [scanGo] at h
    split at h
    · simp at h
    · rename_i hw
      rw [ih acc h]
      constructor
      · rintro (hb | ⟨y, hy, hyw⟩)
        · exact Or.inl hb
        · exact Or.inr ⟨y, List.mem_cons_of_mem _ hy, hyw⟩
      · rintro (hb | ⟨y, hy, hyw⟩)
        · exact Or.inl hb
        · rcases List.mem_cons.mp hy with rfl | hy
          · rw [hw] at hyw; simp at hyw
          · exact Or.inr ⟨y, hy, hyw⟩
    · rename_i b0 hw
      split at h
      · simp at h
      · rename_i acc' ha
        rw [ih acc' h, addBinding_mem ha]
        constructor
        · rintro ((hb | rfl) | ⟨y, hy, hyw⟩)
          · exact Or.inl hb
          · exact Or.inr ⟨x, List.mem_cons_self, hw⟩
          · exact Or.inr ⟨y, List.mem_cons_of_mem _ hy, hyw⟩
        · rintro (hb | ⟨y, hy, hyw⟩)
          · exact Or.inl (Or.inl hb)
          · rcases List.mem_cons.mp hy with rfl | hy
            · rw [hw] at hyw
              simp only [Except.ok.injEq, Option.some.injEq] at hyw
              exact Or.inl (Or.inr hyw.symm)
            · exact Or.inr ⟨y, hy, hyw⟩

theorem scanGo_nodup (t : List Plugin) (vps : List (Str × Str)) (items : List Item) (acc n : List (Str × Str))
    (h : scanGo t vps items acc = .ok n) (hd : (keysOf acc).Nodup) : (keysOf n).Nodup := by
  induction items generalizing acc with
  | nil => simp only [scanGo, Except.ok.injEq] at h; subst h; exact hd
  | cons x rest ih =>
    simp only [scanGo] at h
    split at h
    · simp at h
    · exact ih acc h hd
    · split at h
      · simp at h
      · rename_i acc' ha
        exact ih acc' h (addBinding_nodup ha hd)

theorem scanGo_mono (t : List Plugin) (vps : List (Str × Str)) (items : List Item) (acc n : List (Str × Str))
    (h : scanGo t vps items acc = .ok n) {p u : Str} (hl : lookupNs p acc = some u) : lookupNs p n = some u := by
  induction items generalizing acc with
  | nil => simp only [scanGo, Except.ok.injEq] at h; subst h; exact hl
  | cons x rest ih =>
    simp only [scanGo] at h
    split at h
    · simp at h
    · exact ih acc h hl
    · split at h
      · simp at h
      · rename_i acc' ha
        exact ih acc' h (addBinding_mono ha hl)

theorem nsInit_nodup : (keysOf nsInit).Nodup := by decide

/-! ### what `ask` / `wanted` return -/

theorem ask_lookup {t : List Plugin} {vps : List (Str × Str)} {tag : Str} {attrs : List (Str × Str)} {ns : Str}
    (h : ask t vps tag attrs = .ok (.lookup ns)) : findPlugin t ns = none ∧ ns ≠ [] := by
  unfold ask at h
  split at h
  · simp at h
  · simp at h
  · rename_i x _
    simp only at h
    split at h
    · rename_i hf
      split at h
      · simp at h
      · rename_i hne
        simp only [Except.ok.injEq, Ask.lookup.injEq] at h
        subst h
        exact ⟨hf, hne⟩
    · split at h <;> simp at h

theorem ask_fixed {t : List Plugin} {vps : List (Str × Str)} {tag : Str} {attrs : List (Str × Str)} {b : Str × Str}
    (h : ask t vps tag attrs = .ok (.fixed b)) :
    ∃ p, findPlugin t b.1 = some p ∧ pluginUri vps p = .ok b.2 := by
  unfold ask at h
  split at h
  · simp at h
  · simp at h
  · rename_i x _
    simp only at h
    split at h
    · split at h <;> simp at h
    · rename_i p hf
      split at h
      · rename_i uri hu
        simp only [Except.ok.injEq, Ask.fixed.injEq] at h
        subst h
        exact ⟨p, hf, hu⟩
      · simp at h

theorem wanted_some {t : List Plugin} {vps : List (Str × Str)} {sc : List (Str × Str)} {tag : Str}
    {attrs : List (Str × Str)} {b : Str × Str} (h : wanted t vps sc tag attrs = .ok (some b)) :
    ask t vps tag attrs = .ok (.fixed b) ∨
      (ask t vps tag attrs = .ok (.lookup b.1) ∧ lookupNs b.1 sc = some b.2) := by
  unfold wanted at h
  split at h
  · simp at h
  · simp at h
  · rename_i b' hb
    simp only [Except.ok.injEq, Option.some.injEq] at h
    subst h
    exact Or.inl hb
  · rename_i ns hb
    simp only [Except.ok.injEq] at h
    cases hl : lookupNs ns sc with
    | none => rw [hl] at h; simp at h
    | some u =>
      rw [hl] at h
      simp only [Option.map_some, Option.some.injEq] at h
      subst h
      exact Or.inr ⟨hb, hl⟩

/-! ### the same tree under another scope -/

mutual
/-- tags and attributes in document order -/
def flatE : Elem → List (Str × List (Str × Str))
  | .mk tag _ attrs _ _ kids => (tag, attrs) :: flatL kids
def flatL : List Elem → List (Str × List (Str × Str))
  | [] => []
  | k :: ks => flatE k ++ flatL ks
end

def withScope (m : List (Str × Str)) (F : List (Str × List (Str × Str))) : List Item :=
  F.map fun x => (m, x.1, x.2)

theorem scope_nil_left (m : List (Str × Str)) : scope [] m = m := by simp [scope]

theorem scope_nil_right (m : List (Str × Str)) : scope m [] = m := by simp [scope]

mutual
theorem iterS_noDecls (m : List (Str × Str)) (e : Elem) (h : noDecls e = true) :
    iterS m e = withScope m (flatE e) := by
  match e, h with
  | .mk tag nsd attrs text tail kids, h =>
    simp only [noDecls, Bool.and_eq_true, List.isEmpty_iff] at h
    obtain ⟨hn, hk⟩ := h
    subst hn
    simp only [iterS, flatE, withScope, List.map_cons, scope_nil_right]
    rw [iterSL_noDecls m kids hk]
    rfl
theorem iterSL_noDecls (m : List (Str × Str)) (ks : List Elem) (h : noDeclsL ks = true) :
    iterSL m ks = withScope m (flatL ks) := by
  match ks, h with
  | [], _ => rfl
  | k :: ks', h =>
    simp only [noDeclsL, Bool.and_eq_true] at h
    simp only [iterSL, flatL, withScope, List.map_append]
    rw [iterS_noDecls m k h.1, iterSL_noDecls m ks' h.2]
    rfl
end

/-- the items of a root whose descendants declare nothing all carry the root's own declarations -/
theorem iterS_root (tag : Str) (nsd attrs : List (Str × Str)) (text tail : Option Str) (kids : List Elem)
    (h : noDeclsL kids = true) :
    iterS [] (.mk tag nsd attrs text tail kids) = withScope nsd ((tag, attrs) :: flatL kids) := by
  simp only [iterS, scope_nil_left, withScope, List.map_cons]
  rw [iterSL_noDecls nsd kids h]
  rfl

/-- **the loop under another scope**: if the new scope answers every look-up the way the final map
does, the loop takes exactly the same steps -/
theorem scanGo_rescope (t : List Plugin) (vps : List (Str × Str)) (S S' n : List (Str × Str))
    (F : List (Str × List (Str × Str))) (acc : List (Str × Str))
    (h : scanGo t vps (withScope S F) acc = .ok n)
    (hpos : ∀ p u, lookupNs p n = some u → lookupNs p S' = some u)
    (hneg : ∀ x ∈ F, ∀ ns, ask t vps x.1 x.2 = .ok (.lookup ns) → lookupNs ns S = none → lookupNs ns S' = none) :
    scanGo t vps (withScope S' F) acc = .ok n := by
  induction F generalizing acc with
  | nil => exact h
  | cons x rest ih =>
    have hneg' : ∀ y ∈ rest, ∀ ns, ask t vps y.1 y.2 = .ok (.lookup ns) → lookupNs ns S = none →
        lookupNs ns S' = none := fun y hy => hneg y (List.mem_cons_of_mem _ hy)
    simp only [withScope, List.map_cons, scanGo] at h ⊢
    cases ha : ask t vps x.1 x.2 with
    | error e => simp only [wanted, ha] at h; simp at h
    | ok a =>
      cases a with
      | nothing =>
        simp only [wanted, ha] at h ⊢
        exact ih acc h hneg'
      | fixed b =>
        simp only [wanted, ha] at h ⊢
        cases hb : addBinding acc b with
        | error e => rw [hb] at h; simp at h
        | ok acc' =>
          rw [hb] at h
          exact ih acc' h hneg'
      | lookup ns =>
        simp only [wanted, ha] at h ⊢
        cases hS : lookupNs ns S with
        | none =>
          rw [hS] at h
          rw [hneg x List.mem_cons_self ns ha hS]
          simp only [Option.map_none] at h ⊢
          exact ih acc h hneg'
        | some u =>
          rw [hS] at h
          simp only [Option.map_some] at h
          cases hb : addBinding acc (ns, u) with
          | error e => rw [hb] at h; simp at h
          | ok acc' =>
            rw [hb] at h
            have h1 : lookupNs ns acc' = some u := addBinding_lookup hb
            have h2 : lookupNs ns n = some u := scanGo_mono t vps _ acc' n h h1
            rw [hpos ns u h2]
            simp only [Option.map_some, hb]
            exact ih acc' h hneg'

/-! ### idempotence -/

/-- the two bindings the loop starts from belong to plugins of the table (kernel-checked for the live
table in `Capella/Gen/Ns.lean`) -/
def TableHasInit (t : List Plugin) : Prop :=
  (findPlugin t "xmi".toList).isSome = true ∧ (findPlugin t "xsi".toList).isSome = true

theorem newNsmap_nodup {t : List Plugin} {vps : List (Str × Str)} {root : Elem} {n : List (Str × Str)}
    (h : newNsmap t vps root = .ok n) : (keysOf n).Nodup :=
  scanGo_nodup t vps _ nsInit n h nsInit_nodup

/-- on the replaced root the loop computes the same map again -/
theorem newNsmap_replaceRoot (t : List Plugin) (vps : List (Str × Str)) (ht : TableHasInit t)
    (tag : Str) (nsd attrs : List (Str × Str)) (text tail : Option Str) (kids : List Elem) (n : List (Str × Str))
    (hk : noDeclsL kids = true) (hn : newNsmap t vps (.mk tag nsd attrs text tail kids) = .ok n) :
    newNsmap t vps (replaceRoot n (.mk tag nsd attrs text tail kids)) = .ok n := by
  have hnd := newNsmap_nodup hn
  unfold newNsmap at hn ⊢
  simp only [replaceRoot]
  rw [iterS_root _ _ _ _ _ _ hk] at hn ⊢
  apply scanGo_rescope t vps nsd (sortKV n) n _ nsInit hn
  · intro p u hl
    rw [lookupNs_sortKV hnd]; exact hl
  · intro x _ ns ha hS
    rw [lookupNs_sortKV hnd]
    obtain ⟨hf, _⟩ := ask_lookup ha
    cases hl : lookupNs ns n with
    | none => rfl
    | some u =>
      exfalso
      have hm := lookupNs_some_mem hl
      rcases (scanGo_mem t vps _ nsInit n hn (ns, u)).mp hm with hi | ⟨y, hy, hyw⟩
      · simp only [nsInit, List.mem_cons, Prod.mk.injEq, List.not_mem_nil, or_false] at hi
        rcases hi with ⟨h1, _⟩ | ⟨h1, _⟩
        · rw [h1] at hf; have := ht.1; rw [hf] at this; simp at this
        · rw [h1] at hf; have := ht.2; rw [hf] at this; simp at this
      · simp only [withScope, List.mem_map] at hy
        obtain ⟨z, _, rfl⟩ := hy
        rcases wanted_some hyw with hfx | ⟨_, hlk⟩
        · obtain ⟨p, hp, _⟩ := ask_fixed hfx
          simp only at hp
          rw [hf] at hp; simp at hp
        · simp only at hlk
          rw [hS] at hlk; simp at hlk

/-- **idempotence**: running `update_namespaces` on its own result changes nothing -/
theorem updateNs_idem (t : List Plugin) (vps : List (Str × Str)) (ht : TableHasInit t) (d d' : Doc)
    (h : updateNs t vps d = .ok d') : updateNs t vps d' = .ok d' := by
  unfold updateNs at h
  cases hn : newNsmap t vps d.root with
  | error e => rw [hn] at h; simp at h
  | ok n =>
    rw [hn] at h
    simp only at h
    split at h
    · rename_i hde
      simp only [Except.ok.injEq] at h
      subst h
      unfold updateNs
      rw [hn]
      simp only [hde, if_true]
    · split at h
      · simp at h
      · rename_i hk
        split at h
        · simp at h
        · simp only [Except.ok.injEq] at h
          subst h
          obtain ⟨pre, root, post⟩ := d
          obtain ⟨tag, nsd, attrs, text, tail, kids⟩ := root
          simp only [Elem.kids, Bool.not_eq_true, Bool.not_eq_false'] at hk hn
          have hk' : noDeclsL kids = true := by simpa using hk
          have hn' := newNsmap_replaceRoot t vps ht tag nsd attrs text tail kids n hk' hn
          unfold updateNs
          simp only [hn']
          have : dictEq (replaceRoot n (Elem.mk tag nsd attrs text tail kids)).nsdecls n = true := by
            simp only [replaceRoot, Elem.nsdecls]
            exact dictEq_sortKV (newNsmap_nodup hn)
          simp only [this, if_true]

/-! ### the computed URIs can be written -/

theorem uriOk_iff (u : Str) : uriOk u = true ↔ u ≠ [] ∧ ∀ c ∈ u, uriCharOk c = true := by
  simp only [uriOk, uriCharOk, Bool.and_eq_true, bne_iff_ne, ne_eq, List.all_eq_true]

theorem zeroRuns_chars (b : Bool) (s : Str) : ∀ c ∈ zeroRuns b s, c = '.' ∨ c = '0' := by
  induction s generalizing b with
  | nil => simp [zeroRuns]
  | cons x xs ih =>
    intro c hc
    simp only [zeroRuns] at hc
    split at hc
    · rcases List.mem_cons.mp hc with rfl | hc
      · exact Or.inl rfl
      · exact ih _ c hc
    · split at hc
      · exact ih _ c hc
      · rcases List.mem_cons.mp hc with rfl | hc
        · exact Or.inr rfl
        · exact ih _ c hc

theorem splitDot_eq {s a b : Str} (h : splitDot s = some (a, b)) : s = a ++ '.' :: b := by
  induction s generalizing a b with
  | nil => simp [splitDot] at h
  | cons x xs ih =>
    simp only [splitDot] at h
    split at h
    · rename_i hx
      simp only [Option.some.injEq, Prod.mk.injEq] at h
      rw [← h.1, ← h.2, hx]; rfl
    · split at h
      · rename_i a' b' hs
        simp only [Option.some.injEq, Prod.mk.injEq] at h
        rw [← h.1, ← h.2, ih hs]; rfl
      · simp at h

theorem roundGo_chars (k : Nat) (s r : Str) (h : roundGo k s = some r) :
    ∀ c ∈ r, c ∈ s ∨ c = '.' ∨ c = '0' := by
  induction k generalizing s r with
  | zero =>
    simp only [roundGo, Option.some.injEq] at h
    subst h
    intro c hc
    exact Or.inr (zeroRuns_chars false s c hc)
  | succ k ih =>
    cases s with
    | nil => simp only [roundGo, Option.some.injEq] at h; subst h; simp
    | cons x xs =>
      simp only [roundGo] at h
      split at h
      · simp at h
      · rename_i a b hs
        cases hr : roundGo k b with
        | none => rw [hr] at h; simp at h
        | some r' =>
          rw [hr] at h
          simp only [Option.map_some, Option.some.injEq] at h
          subst h
          have hsplit := splitDot_eq hs
          intro c hc
          rcases List.mem_append.mp hc with hc | hc
          · exact Or.inl (by rw [hsplit]; exact List.mem_append_left _ hc)
          · rcases List.mem_cons.mp hc with rfl | hc
            · exact Or.inr (Or.inl rfl)
            · rcases ih b r' hr c hc with h1 | h1
              · exact Or.inl (by rw [hsplit]; exact List.mem_append_right _ (List.mem_cons_of_mem _ h1))
              · exact Or.inr h1

/-- `_round_version` writes characters of its input, `.` and `0` only -/
theorem roundVersion_chars (v : Str) (k : Nat) : ∀ c ∈ roundVersion v k, c ∈ v ∨ c = '.' ∨ c = '0' := by
  intro c hc
  unfold roundVersion at hc
  cases hr : roundGo k v with
  | none => rw [hr] at hc; exact Or.inl hc
  | some r => rw [hr] at hc; exact roundGo_chars k v r hr c hc

/-- the plugin table as the theorems need it -/
structure TableOk (t : List Plugin) : Prop where
  rows : ∀ p ∈ t, p.ok = true
  init : TableHasInit t

/-- viewpoint versions that can be written into a namespace URI -/
def VpsOk (vps : List (Str × Str)) : Prop := ∀ kv ∈ vps, ∀ c ∈ kv.2, uriCharOk c = true

theorem findPlugin_some {t : List Plugin} {ns : Str} {p : Plugin} (h : findPlugin t ns = some p) :
    p ∈ t ∧ p.key = ns := by
  unfold findPlugin at h
  exact ⟨List.mem_of_find?_eq_some h, by simpa using List.find?_some h⟩

theorem Plugin.ok_facts {p : Plugin} (h : p.ok = true) :
    nameOk p.key = true ∧ p.key ≠ xmlnsStr ∧ uriOk (rstripSlash p.name) = true := by
  simp only [Plugin.ok, Bool.and_eq_true, bne_iff_ne, ne_eq] at h
  exact ⟨h.1.1.1.1, h.1.1.1.2, h.1.1.2⟩

theorem pluginUri_ok {vps : List (Str × Str)} {p : Plugin} {u : Str} (hp : p.ok = true) (hv : VpsOk vps)
    (h : pluginUri vps p = .ok u) : uriOk u = true := by
  obtain ⟨_, _, hbase⟩ := Plugin.ok_facts hp
  unfold pluginUri at h
  simp only at h
  split at h
  · simp only [Except.ok.injEq] at h; subst h; exact hbase
  · split at h
    · simp at h
    · rename_i vp _
      split at h
      · rename_i c cs hl
        simp only [Except.ok.injEq] at h
        subst h
        rw [uriOk_iff] at hbase ⊢
        refine ⟨by simp, ?_⟩
        intro x hx
        rcases List.mem_append.mp hx with hx | hx
        · exact hbase.2 x hx
        · rcases List.mem_cons.mp hx with rfl | hx
          · decide
          · rcases roundVersion_chars _ _ x hx with h1 | rfl | rfl
            · exact hv _ (lookupNs_some_mem hl) x h1
            · decide
            · decide
      · simp at h

/-! ### a Capella-shaped document stays Capella-shaped -/

theorem commentOk_dropTail {c : Comment} (h : commentOk c = true) : dropTail c = c := by
  cases c with
  | mk text tail =>
    simp only [commentOk, Bool.and_eq_true, Option.isNone_iff_eq_none] at h
    simp only [dropTail]
    rw [h.1.1]

theorem map_dropTail_of_ok {cs : List Comment} (h : ∀ c ∈ cs, c.tail = none) : cs.map dropTail = cs := by
  induction cs with
  | nil => rfl
  | cons c cs ih =>
    simp only [List.map_cons]
    rw [ih (fun x hx => h x (List.mem_cons_of_mem _ hx))]
    have := h c List.mem_cons_self
    cases c with
    | mk text tail => simp only at this; subst this; rfl

theorem nameOk_ne_nil {s : Str} (h : nameOk s = true) : s ≠ [] := by
  intro hs; subst hs; simp [nameOk, nameStartOk] at h

/-- every binding of the computed map can be declared on a root: the prefix is a name, the URI can be
written — provided the table is sound, the viewpoint versions are writable and every item is looked up
in declarations that are themselves fine -/
theorem scan_bindings_ok (t : List Plugin) (vps : List (Str × Str)) (ht : TableOk t) (hv : VpsOk vps)
    (S : List (Str × Str)) (F : List (Str × List (Str × Str))) (n : List (Str × Str))
    (hS : ∀ d ∈ S, nameOk d.1 = true ∧ d.1 ≠ xmlnsStr ∧ uriOk d.2 = true)
    (h : scanGo t vps (withScope S F) nsInit = .ok n) :
    ∀ b ∈ n, nameOk b.1 = true ∧ b.1 ≠ xmlnsStr ∧ uriOk b.2 = true := by
  intro b hb
  rcases (scanGo_mem t vps _ nsInit n h b).mp hb with hi | ⟨y, hy, hyw⟩
  · simp only [nsInit, List.mem_cons, List.not_mem_nil, or_false] at hi
    rcases hi with rfl | rfl <;> decide
  · simp only [withScope, List.mem_map] at hy
    obtain ⟨z, _, rfl⟩ := hy
    rcases wanted_some hyw with hfx | ⟨_, hlk⟩
    · obtain ⟨p, hp, hu⟩ := ask_fixed hfx
      obtain ⟨hmem, hkey⟩ := findPlugin_some hp
      obtain ⟨h1, h2, _⟩ := Plugin.ok_facts (ht.rows p hmem)
      rw [hkey] at h1 h2
      exact ⟨h1, h2, pluginUri_ok (ht.rows p hmem) hv hu⟩
    · exact hS _ (lookupNs_some_mem hlk)

theorem nameCovered_revLookup {m : List (Str × Str)} (hv : (m.map (·.2)).Nodup) (hk : ∀ x ∈ m, x.1 ≠ [])
    {name : Str} (hc : nameCovered (m.map (·.2)) name = true) (hne : (splitName name).1 ≠ []) :
    (revLookup m (splitName name).1).isSome = true := by
  simp only [nameCovered, Bool.or_eq_true, decide_eq_true_eq, List.contains_eq_mem, List.mem_map] at hc
  rcases hc with hc | ⟨x, hx, hxu⟩
  · exact absurd hc hne
  · obtain ⟨k, u⟩ := x
    simp only at hxu
    subst hxu
    rw [revLookup_of_mem hv hx (hk _ hx)]; rfl

theorem qnameOk_rescope {S S' : List (Str × Str)} (hv : (S'.map (·.2)).Nodup) (hk : ∀ x ∈ S', x.1 ≠ [])
    {isAttr : Bool} {name : Str} (h : qnameOk S isAttr name = true)
    (hc : nameCovered (S'.map (·.2)) name = true) : qnameOk S' isAttr name = true := by
  simp only [qnameOk, Bool.and_eq_true] at h ⊢
  refine ⟨h.1, ?_⟩
  by_cases hne : (splitName name).1 = []
  · have h2 := h.2
    rw [if_pos hne] at h2 ⊢
    exact h2
  · rw [if_neg hne]
    exact nameCovered_revLookup hv hk hc hne

mutual
theorem wfElem_rescope (S S' : List (Str × Str)) (hv : (S'.map (·.2)).Nodup) (hk : ∀ x ∈ S', x.1 ≠ [])
    (e : Elem) (hd : noDecls e = true) (hc : urisCovered (S'.map (·.2)) e = true)
    (h : wfElem S e = true) : wfElem S' e = true := by
  match e, hd, hc, h with
  | .mk tag nsd attrs text tail kids, hd, hc, h =>
    simp only [noDecls, Bool.and_eq_true, List.isEmpty_iff] at hd
    obtain ⟨hn, hdk⟩ := hd
    subst hn
    simp only [urisCovered, Bool.and_eq_true, List.all_eq_true] at hc
    obtain ⟨⟨hct, hca⟩, hck⟩ := hc
    rw [wfElem_iff] at h ⊢
    obtain ⟨_, h2, h3, h4, h5, h6, h7⟩ := h
    simp only [scope_nil_right] at h2 h3 h7 ⊢
    refine ⟨?_, qnameOk_rescope hv hk h2 hct, ?_, h4, h5, h6, wfKids_rescope S S' hv hk kids hdk hck h7⟩
    · simp only [nsdeclsOk, List.all_nil, keysOf, List.map_nil, distinctStrs, Bool.and_true, Bool.true_and,
        scope_nil_right]
      exact distinctStrs_iff.mpr hv
    · simp only [List.all_eq_true, Bool.and_eq_true] at h3 ⊢
      intro kv hkv
      exact ⟨qnameOk_rescope hv hk (h3 kv hkv).1 (hca kv hkv), (h3 kv hkv).2⟩
theorem wfKids_rescope (S S' : List (Str × Str)) (hv : (S'.map (·.2)).Nodup) (hk : ∀ x ∈ S', x.1 ≠ [])
    (ks : List Elem) (hd : noDeclsL ks = true) (hc : urisCoveredL (S'.map (·.2)) ks = true)
    (h : wfKids S ks = true) : wfKids S' ks = true := by
  match ks, hd, hc, h with
  | [], _, _, _ => rfl
  | k :: ks', hd, hc, h =>
    simp only [noDeclsL, Bool.and_eq_true] at hd
    simp only [urisCoveredL, Bool.and_eq_true] at hc
    simp only [wfKids, Bool.and_eq_true] at h ⊢
    exact ⟨wfElem_rescope S S' hv hk k hd.1 hc.1 h.1, wfKids_rescope S S' hv hk ks' hd.2 hc.2 h.2⟩
end

/-- **`update_namespaces` keeps a document Capella-shaped** (so what `save()` serialises satisfies the
hypothesis of the round-trip theorems), provided the computed declarations bind one prefix per URI. -/
theorem updateNs_wf (t : List Plugin) (vps : List (Str × Str)) (ht : TableOk t) (hv : VpsOk vps) (d d' : Doc)
    (hwf : wfDoc d = true) (h : updateNs t vps d = .ok d')
    (huniq : (d'.root.nsdecls.map (·.2)).Nodup) : wfDoc d' = true := by
  unfold updateNs at h
  cases hn : newNsmap t vps d.root with
  | error e => rw [hn] at h; simp at h
  | ok n =>
    rw [hn] at h
    simp only at h
    split at h
    · simp only [Except.ok.injEq] at h; subst h; exact hwf
    · split at h
      · simp at h
      · rename_i hk
        split at h
        · simp at h
        · rename_i hcov
          simp only [Except.ok.injEq] at h
          subst h
          obtain ⟨pre, root, post⟩ := d
          obtain ⟨tag, nsd, attrs, text, tail, kids⟩ := root
          simp only [Elem.kids, Bool.not_eq_true, Bool.not_eq_false'] at hk hn hcov
          have hk' : noDeclsL kids = true := by simpa using hk
          have hcov' : urisCovered ((sortKV n).map (·.2)) (.mk tag nsd attrs text tail kids) = true := by
            simpa using hcov
          simp only [replaceRoot, Elem.nsdecls] at huniq
          simp only [wfDoc, Bool.and_eq_true] at hwf ⊢
          obtain ⟨⟨hroot, hpre⟩, hpost⟩ := hwf
          have hpre' : (pre.map dropTail).all commentOk = true := by
            rw [map_dropTail_of_ok (fun c hc => commentOk_tail (List.all_eq_true.mp hpre c hc))]; exact hpre
          have hpost' : (post.reverse.map dropTail).all commentOk = true := by
            rw [map_dropTail_of_ok (fun c hc => commentOk_tail (List.all_eq_true.mp hpost c (List.mem_reverse.mp hc)))]
            simpa [List.all_reverse] using hpost
          refine ⟨⟨?_, hpre'⟩, hpost'⟩
          rw [wfElem_iff] at hroot
          obtain ⟨r1, r2, r3, r4, _, _, r7⟩ := hroot
          simp only [scope_nil_left] at r2 r3 r7
          obtain ⟨hdecl, _, _⟩ := nsdeclsOk_facts r1
          have hnd := newNsmap_nodup hn
          have hn2 := hn
          unfold newNsmap at hn2
          rw [iterS_root _ _ _ _ _ _ hk'] at hn2
          have hb := scan_bindings_ok t vps ht hv nsd _ n
            (fun x hx => ⟨(hdecl x hx).1, (hdecl x hx).2.1, (hdecl x hx).2.2.1⟩) hn2
          have hkeys : ∀ x ∈ sortKV n, x.1 ≠ [] := fun x hx => nameOk_ne_nil (hb x (mem_sortKV.mp hx)).1
          simp only [urisCovered, Bool.and_eq_true, List.all_eq_true] at hcov'
          obtain ⟨⟨hct, hca⟩, hck⟩ := hcov'
          simp only [replaceRoot]
          rw [wfElem_iff]
          simp only [scope_nil_left]
          refine ⟨?_, qnameOk_rescope huniq hkeys r2 hct, ?_, r4, rfl, rfl,
            wfKids_rescope nsd (sortKV n) huniq hkeys kids hk' hck r7⟩
          · simp only [nsdeclsOk, Bool.and_eq_true, List.all_eq_true, scope_nil_left]
            refine ⟨⟨?_, distinctStrs_iff.mpr (keysOf_sortKV_nodup hnd)⟩, distinctStrs_iff.mpr huniq⟩
            intro x hx
            obtain ⟨h1, h2, h3⟩ := hb x (mem_sortKV.mp hx)
            simp [h1, h2, h3, keysOf]
          · simp only [List.all_eq_true, Bool.and_eq_true] at r3 ⊢
            intro kv hkv
            exact ⟨qnameOk_rescope huniq hkeys (r3 kv hkv).1 (hca kv hkv), (r3 kv hkv).2⟩

/-! ### what the result looks like -/

/-- either nothing happened, or the root was rebuilt around the same tag, attributes and children -/
theorem updateNs_shape (t : List Plugin) (vps : List (Str × Str)) (d d' : Doc)
    (h : updateNs t vps d = .ok d') :
    ∃ n, newNsmap t vps d.root = .ok n ∧
      ((dictEq d.root.nsdecls n = true ∧ d' = d) ∨
       (dictEq d.root.nsdecls n = false ∧ noDeclsL d.root.kids = true ∧
         urisCovered ((sortKV n).map (·.2)) d.root = true ∧
         d' = ⟨d.pre.map dropTail, replaceRoot n d.root, d.post.reverse.map dropTail⟩)) := by
  unfold updateNs at h
  cases hn : newNsmap t vps d.root with
  | error e => rw [hn] at h; simp at h
  | ok n =>
    rw [hn] at h
    refine ⟨n, rfl, ?_⟩
    simp only at h
    split at h
    · rename_i hde
      simp only [Except.ok.injEq] at h
      exact Or.inl ⟨hde, h.symm⟩
    · rename_i hde
      split at h
      · simp at h
      · rename_i hk
        split at h
        · simp at h
        · rename_i hc
          simp only [Except.ok.injEq] at h
          exact Or.inr ⟨by simpa using hde, by simpa using hk, by simpa using hc, h.symm⟩

/-- the declarations on the resulting root are the computed map (as a set of bindings) -/
theorem updateNs_decls (t : List Plugin) (vps : List (Str × Str)) (d d' : Doc)
    (h : updateNs t vps d = .ok d') :
    ∃ n, newNsmap t vps d.root = .ok n ∧ ∀ b, b ∈ d'.root.nsdecls ↔ b ∈ n := by
  obtain ⟨n, hn, hcase⟩ := updateNs_shape t vps d d' h
  refine ⟨n, hn, ?_⟩
  rcases hcase with ⟨hde, rfl⟩ | ⟨_, _, _, rfl⟩
  · exact dictEq_mem hde
  · intro b
    obtain ⟨pre, root, post⟩ := d
    obtain ⟨tag, nsd, attrs, text, tail, kids⟩ := root
    simp only [replaceRoot, Elem.nsdecls]
    exact mem_sortKV

theorem updateNs_decls_nodup (t : List Plugin) (vps : List (Str × Str)) (d d' : Doc)
    (h : updateNs t vps d = .ok d') (hd : (keysOf d.root.nsdecls).Nodup) : (keysOf d'.root.nsdecls).Nodup := by
  obtain ⟨n, hn, hcase⟩ := updateNs_shape t vps d d' h
  rcases hcase with ⟨_, rfl⟩ | ⟨_, _, _, rfl⟩
  · exact hd
  · obtain ⟨pre, root, post⟩ := d
    obtain ⟨tag, nsd, attrs, text, tail, kids⟩ := root
    simp only [replaceRoot, Elem.nsdecls]
    exact keysOf_sortKV_nodup (newNsmap_nodup hn)

theorem reverse_short {α} (l : List α) (h : l.length ≤ 1) : l.reverse = l := by
  match l, h with
  | [], _ => rfl
  | [_], _ => rfl

end Capella.Xml
