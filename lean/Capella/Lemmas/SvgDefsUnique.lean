import Capella.Lemmas.SvgDefs

/-! Lemmas about the `<defs>` state machine, part 2: no id is deployed twice (children of `<defs>` have
pairwise different ids, whatever the number and order of elements drawn), and `_generate_id` is injective.
Core Lean only. -/

namespace Capella.Svg

/-! ### characters of generated ids -/

theorem toNat_ofNat_small (k : Nat) (h : k < 0xd800) : (Char.ofNat k).toNat = k := by
  have : k.isValidChar := Or.inl h
  simp [Char.ofNat, this, Char.toNat, Char.ofNatAux]

theorem char_le_toNat (a b : Char) : a ≤ b ↔ a.toNat ≤ b.toNat := by
  rw [Char.le_def]; exact UInt32.le_iff_toNat_le

/-- `str.upper()` of a hex digit is never a character that is neither a hex digit nor an upper-case letter -/
theorem upperChar_ne (x c0 : Char) (h0 : hexDigit c0 = false) (h1 : c0.toNat < 65 ∨ 90 < c0.toNat)
    (hx : hexDigit x = true) : upperChar x ≠ c0 := by
  unfold upperChar
  split
  · rename_i h
    intro he
    rw [char_le_toNat, char_le_toNat] at h
    have h97 : ('a' : Char).toNat = 97 := by decide
    have h122 : ('z' : Char).toNat = 122 := by decide
    rw [h97, h122] at h
    have := congrArg Char.toNat he
    rw [toNat_ofNat_small _ (by omega)] at this
    omega
  · intro he; subst he; rw [h0] at hx; cases hx

/-- a string without `l` and without `_` (every `RGB.tohex()` is one) -/
def Clean (h : Str) : Prop := ∀ c ∈ h, c ≠ 'l' ∧ c ≠ '_'

theorem clean_of_hex {h : Str} (hh : h.all hexDigit = true) : Clean h := by
  intro c hc
  have := (List.all_eq_true.mp hh) c hc
  constructor
  · intro he; subst he; revert this; decide
  · intro he; subst he; revert this; decide

theorem clean_map_upper {h : Str} (hh : h.all hexDigit = true) : Clean (h.map upperChar) := by
  intro c hc
  obtain ⟨x, hx, rfl⟩ := List.mem_map.mp hc
  have hd := (List.all_eq_true.mp hh) x hx
  exact ⟨upperChar_ne x 'l' (by decide) (.inr (by decide)) hd, upperChar_ne x '_' (by decide) (.inr (by decide)) hd⟩

theorem hexOf_clean {v : Val} {h : Str} (hv : v.hexOK = true) (hh : hexOf v = .ok h) : Clean h := by
  cases v with
  | color x => simp only [hexOf, Except.ok.injEq] at hh; subst hh; exact clean_of_hex hv
  | str s =>
    cases s with
    | nil => simp [hexOf] at hh
    | cons c t =>
      simp only [hexOf] at hh
      split at hh
      · rename_i c' t' heq
        by_cases hall : t'.all hexDigit = true
        · simp only [hall, if_true] at hh
          split at hh
          · simp only [Except.ok.injEq] at hh; subst hh; exact clean_map_upper hall
          · split at hh
            · simp only [Except.ok.injEq] at hh; subst hh
              apply clean_map_upper
              rw [List.all_eq_true] at hall ⊢
              intro x hx
              obtain ⟨y, hy, hxy⟩ := List.mem_flatMap.mp hx
              simp only [List.mem_cons, List.not_mem_nil, or_false, or_self] at hxy
              rw [hxy]
              exact hall y hy
            · cases hh
        · simp [hall] at hh
      · cases hh
  | none => simp [hexOf] at hh
  | num x => simp [hexOf] at hh
  | grad x => simp [hexOf] at hh
  | other x => simp [hexOf] at hh

theorem joinId_cons (name h : Str) (hs : List Str) : joinId name (h :: hs) = joinId (name ++ '_' :: h) hs := rfl

/-- `_generate_id(name, colours)` as a concatenation -/
theorem joinId_eq (name : Str) (hs : List Str) : joinId name hs = name ++ hs.flatMap (fun h => '_' :: h) := by
  induction hs generalizing name with
  | nil => simp [joinId]
  | cons h hs ih => rw [joinId_cons, ih]; simp

/-- an id generated from colours never ends in `l` — in particular it is no `…Symbol` id -/
theorem joinId_not_l {name : Str} (hn : name.getLast? ≠ some 'l') :
    ∀ {hs : List Str}, (∀ h ∈ hs, Clean h) → (joinId name hs).getLast? ≠ some 'l' := by
  intro hs
  induction hs generalizing name with
  | nil => intro _; exact hn
  | cons h hs ih =>
    intro hc
    rw [joinId_cons]
    apply ih
    · rw [List.getLast?_append]
      have hcl := hc h List.mem_cons_self
      cases hh : h.getLast? with
      | none =>
        have : h = [] := by simpa using hh
        subst this
        simp
      | some c =>
        have hmem : c ∈ h := List.mem_of_getLast? hh
        have : (('_' : Char) :: h).getLast? = some c := by
          rw [List.getLast?_cons, hh]; rfl
        rw [this]
        simp only [Option.some_or]
        intro he
        exact (hcl c hmem).1 (Option.some.inj he)
    · exact fun h' hh' => hc h' (List.mem_cons_of_mem _ hh')

theorem suffix_getLast {s : Str} (h : symbolSuffix <:+ s) : s.getLast? = some 'l' := by
  obtain ⟨t, rfl⟩ := h
  rw [List.getLast?_append]
  simp [symbolSuffix]

/-! ### `_generate_id` is injective -/

theorem split_unique : ∀ (a a' t t' : Str), '_' ∉ a → '_' ∉ a' → (t = [] ∨ ∃ r, t = '_' :: r) →
    (t' = [] ∨ ∃ r, t' = '_' :: r) → a ++ t = a' ++ t' → a = a' ∧ t = t' := by
  intro a
  induction a with
  | nil =>
    intro a' t t' _ ha' ht _ h
    cases a' with
    | nil => exact ⟨rfl, by simpa using h⟩
    | cons c cs =>
      exfalso
      simp only [List.nil_append, List.cons_append] at h
      rcases ht with rfl | ⟨r, rfl⟩
      · cases h
      · simp only [List.cons.injEq] at h
        exact ha' (by rw [← h.1]; exact List.mem_cons_self)
  | cons c cs ih =>
    intro a' t t' ha ha' ht ht' h
    cases a' with
    | nil =>
      exfalso
      simp only [List.nil_append, List.cons_append] at h
      rcases ht' with rfl | ⟨r, rfl⟩
      · cases h
      · simp only [List.cons.injEq] at h
        exact ha (by rw [h.1]; exact List.mem_cons_self)
    | cons c' cs' =>
      simp only [List.cons_append, List.cons.injEq] at h
      obtain ⟨rfl, h⟩ := h
      obtain ⟨h1, h2⟩ := ih cs' t t' (fun hm => ha (List.mem_cons_of_mem _ hm))
        (fun hm => ha' (List.mem_cons_of_mem _ hm)) ht ht' h
      exact ⟨by rw [h1], h2⟩

theorem tail_shape (hs : List Str) :
    hs.flatMap (fun h => '_' :: h) = [] ∨ ∃ r, hs.flatMap (fun h => '_' :: h) = '_' :: r := by
  cases hs with
  | nil => exact .inl rfl
  | cons h hs => exact .inr ⟨h ++ hs.flatMap (fun h => '_' :: h), by simp⟩

theorem tails_injective : ∀ (hs hs' : List Str), (∀ h ∈ hs, '_' ∉ h) → (∀ h ∈ hs', '_' ∉ h) →
    hs.flatMap (fun h => '_' :: h) = hs'.flatMap (fun h => '_' :: h) → hs = hs' := by
  intro hs
  induction hs with
  | nil =>
    intro hs' _ _ h
    cases hs' with
    | nil => rfl
    | cons h' hs' => simp at h
  | cons h hs ih =>
    intro hs' hc hc' he
    cases hs' with
    | nil => simp at he
    | cons h' hs' =>
      simp only [List.flatMap_cons, List.cons_append, List.cons.injEq, true_and] at he
      obtain ⟨h1, h2⟩ := split_unique h h' _ _ (hc h List.mem_cons_self) (hc' h' List.mem_cons_self)
        (tail_shape hs) (tail_shape hs') he
      rw [h1, ih hs' (fun x hx => hc x (List.mem_cons_of_mem _ hx)) (fun x hx => hc' x (List.mem_cons_of_mem _ hx)) h2]

/-- **`Styling._generate_id` is injective**: names without `_` and colour strings without `_` -/
theorem joinId_injective {n n' : Str} {hs hs' : List Str} (hn : '_' ∉ n) (hn' : '_' ∉ n')
    (hc : ∀ h ∈ hs, '_' ∉ h) (hc' : ∀ h ∈ hs', '_' ∉ h) (he : joinId n hs = joinId n' hs') : n = n' ∧ hs = hs' := by
  rw [joinId_eq, joinId_eq] at he
  obtain ⟨h1, h2⟩ := split_unique n n' _ _ hn hn' (tail_shape hs) (tail_shape hs') he
  exact ⟨h1, tails_injective hs hs' hc hc' h2⟩

/-! ### values that reach `_generate_id` are hex strings -/

def AllVals (P : Val → Prop) (a : List (Str × Val)) : Prop := ∀ p ∈ a, P p.2

theorem lookup_mem {a : List (Str × Val)} {k : Str} {v : Val} (h : lookup a k = some v) : ∃ p ∈ a, p.2 = v := by
  unfold lookup at h
  cases hf : a.find? (fun p => p.1 = k) with
  | none => rw [hf] at h; cases h
  | some p =>
    rw [hf] at h
    simp only [Option.map_some, Option.some.injEq] at h
    exact ⟨p, List.mem_of_find?_eq_some hf, h⟩

theorem upsert_all {P : Val → Prop} {a : List (Str × Val)} {k : Str} {v : Val} (ha : AllVals P a) (hv : P v) :
    AllVals P (upsert a k v) := by
  unfold upsert
  split
  · intro p hp
    obtain ⟨q, hq, rfl⟩ := List.mem_map.mp hp
    split
    · exact hv
    · exact ha q hq
  · intro p hp
    rcases List.mem_append.mp hp with hp | hp
    · exact ha p hp
    · simp only [List.mem_singleton] at hp; subst hp; exact hv

theorem merge_all {P : Val → Prop} : ∀ (b a : List (Str × Val)), AllVals P a → AllVals P b → AllVals P (merge a b) := by
  intro b
  induction b with
  | nil => intro a ha _; exact ha
  | cons x xs ih =>
    intro a ha hb
    show AllVals P (List.foldl _ (upsert a x.1 x.2) xs)
    exact ih _ (upsert_all ha (hb x List.mem_cons_self)) (fun p hp => hb p (List.mem_cons_of_mem _ hp))

def StylesHexOK (styles : List StyleEntry) : Prop := ∀ e ∈ styles, AllVals (fun v => v.hexOK = true) e.props

theorem lookupEntry_all {styles : List StyleEntry} (h : StylesHexOK styles) (dc oc : Str) :
    AllVals (fun v => v.hexOK = true) (lookupEntry styles dc oc) := by
  unfold lookupEntry
  cases hf : styles.find? (fun e => e.dc = dc ∧ e.oc = oc) with
  | none => intro p hp; cases hp
  | some e => exact h e (List.mem_of_find?_eq_some hf)

theorem getStyle_all {styles : List StyleEntry} (h : StylesHexOK styles) {dc : Option Str} {oc : Str}
    {d : List (Str × Val)} (hg : getStyle styles dc oc = .ok d) : AllVals (fun v => v.hexOK = true) d := by
  unfold getStyle at hg
  split at hg
  · cases hg
  · split at hg
    · simp only [Except.ok.injEq] at hg; subst hg; intro p hp; cases hp
    · simp only [Except.ok.injEq] at hg
      subst hg
      exact merge_all _ _ (merge_all _ _ (merge_all _ _ (lookupEntry_all h _ _) (lookupEntry_all h _ _))
        (lookupEntry_all h _ _)) (lookupEntry_all h _ _)

theorem prepare_all {T : Tables} {dc : Option Str} {o : Obj} {defaults : List (Str × Val)}
    (hd : AllVals (fun v => v.hexOK = true) defaults) (ho : AllVals (fun v => v.hexOK = true) o.style) :
    AllVals (fun v => v.hexOK = true) (prepare T dc o defaults).objStyle.attrs ∧
    AllVals (fun v => v.hexOK = true) (prepare T dc o defaults).textStyle.attrs := by
  have hmy := merge_all (P := fun v => v.hexOK = true) _ _ hd ho
  have h0 : AllVals (fun v => v.hexOK = true)
      (((merge defaults o.style).filter fun p => !hasUnderscore p.1).map fun p => (attrName p.1, p.2)) := by
    intro p hp
    obtain ⟨q, hq, rfl⟩ := List.mem_map.mp hp
    exact hmy q (List.mem_filter.mp hq).1
  constructor
  · unfold prepare
    simp only
    cases o.kind with
    | circle =>
      simp only
      apply upsert_all
      · intro p hp; exact h0 p (List.mem_filter.mp hp).1
      · split
        · rfl
        · rfl
        · rename_i v hv1 hv2
          cases hl : lookup (((merge defaults o.style).filter fun p => !hasUnderscore p.1).map fun p => (attrName p.1, p.2)) strokeKey with
          | none => simp_all
          | some w =>
            obtain ⟨q, hq, hqw⟩ := lookup_mem hl
            simp_all only [Option.some.injEq]
            rw [← hqw]; exact h0 q hq
    | box => exact h0
    | edge => exact h0
    | symbol => exact h0
    | boxSymbol => exact h0
  · unfold prepare
    simp only
    intro p hp
    obtain ⟨q, hq, rfl⟩ := List.mem_map.mp hp
    exact hmy q (List.mem_filter.mp hq).1

theorem deployStroke_hexOK {defaults : List (Str × Val)} {s : Styling}
    (hd : AllVals (fun v => v.hexOK = true) defaults) (ha : AllVals (fun v => v.hexOK = true) s.attrs) :
    (deployStroke defaults s).hexOK = true := by
  have hdflt : ((lookup defaults (s.styleName strokeKey)).getD .none).hexOK = true := by
    cases hl : lookup defaults (s.styleName strokeKey) with
    | none => rfl
    | some w => obtain ⟨q, hq, hqw⟩ := lookup_mem hl; simp only [Option.getD_some]; rw [← hqw]; exact hd q hq
  unfold deployStroke
  cases hl : lookup s.attrs strokeKey with
  | none => exact hdflt
  | some v =>
    obtain ⟨q, hq, hqw⟩ := lookup_mem hl
    have hv : v.hexOK = true := by rw [← hqw]; exact ha q hq
    cases v with
    | none => exact hdflt
    | color x => exact hv
    | str x => exact hv
    | num x => exact hv
    | grad x => exact hv
    | other x => exact hv

/-! ### no id is deployed twice -/

/-- the children of `<defs>` have pairwise different ids; every `<symbol>` carries the id `{name}Symbol` of a
name that is in `deco_cache` (or, inside `_add_decofactory`, of one of the names `P` being deployed); no
marker or gradient id ends in `l` -/
structure NInv (P : List Str) (st : DState) : Prop where
  nodup : st.topIds.Nodup
  sym : ∀ e ∈ st.defs, e.kind = .symbol → ∃ n, e.id = n ++ symbolSuffix ∧ (n ∈ st.cache ∨ n ∈ P)
  other : ∀ e ∈ st.defs, e.kind ≠ .symbol → e.id.getLast? ≠ some 'l'
  single : ∀ e ∈ st.defs, e.kind ≠ .symbol → e.ids = [e.id]

theorem NInv.empty : NInv [] {} :=
  ⟨List.nodup_nil, (fun _ h => nomatch h), (fun _ h => nomatch h), (fun _ h => nomatch h)⟩

theorem NInv.note {P : List Str} {st : DState} (h : NInv P st) (b : Br) : NInv P (st.note b) :=
  ⟨h.nodup, h.sym, h.other, h.single⟩

/-- pushing a marker / gradient whose id is new and does not end in `l` -/
theorem NInv.pushOther {P : List Str} {st : DState} (h : NInv P st) (e : DefEl) (hk : e.kind ≠ .symbol)
    (hnew : st.topIds.contains e.id = false) (hl : e.id.getLast? ≠ some 'l') (hone : e.ids = [e.id]) :
    NInv P (st.push e) := by
  refine ⟨?_, ?_, ?_, ?_⟩
  rotate_left 3
  · intro e' he' hk'
    simp only [push_defs, List.mem_append, List.mem_singleton] at he'
    rcases he' with he' | rfl
    · exact h.single e' he' hk'
    · exact hone
  · rw [push_topIds, List.nodup_append]
    refine ⟨h.nodup, by simp, ?_⟩
    intro a ha b hb he
    simp only [List.mem_singleton] at hb
    have ha' : e.id ∈ st.topIds := by rw [← hb, ← he]; exact ha
    have : st.topIds.contains e.id = true := by simpa using ha'
    rw [this] at hnew; cases hnew
  · intro e' he' hk'
    simp only [push_defs, List.mem_append, List.mem_singleton] at he'
    rcases he' with he' | rfl
    · exact h.sym e' he' hk'
    · exact absurd hk' hk
  · intro e' he' hk'
    simp only [push_defs, List.mem_append, List.mem_singleton] at he'
    rcases he' with he' | rfl
    · exact h.other e' he' hk'
    · exact hl

/-- pushing the `<symbol>` of a name that is neither cached nor being deployed -/
theorem NInv.pushSym {P : List Str} {st : DState} (h : NInv P st) (name : Str) (e : DefEl) (hk : e.kind = .symbol)
    (hid : e.id = name ++ symbolSuffix) (hc : name ∉ st.cache) (hp : name ∉ P) : NInv (name :: P) (st.push e) := by
  refine ⟨?_, ?_, ?_, ?_⟩
  rotate_left 3
  · intro e' he' hk'
    simp only [push_defs, List.mem_append, List.mem_singleton] at he'
    rcases he' with he' | rfl
    · exact h.single e' he' hk'
    · exact absurd hk hk'
  · rw [push_topIds, List.nodup_append]
    refine ⟨h.nodup, by simp, ?_⟩
    intro a ha b hb he
    simp only [List.mem_singleton] at hb
    have ha' : e.id ∈ st.topIds := by rw [← hb, ← he]; exact ha
    obtain ⟨e', he', hid'⟩ := List.mem_map.mp ha'
    by_cases hk' : e'.kind = .symbol
    · obtain ⟨n, hn, hin⟩ := h.sym e' he' hk'
      rw [hid, hn] at hid'
      have : n = name := List.append_cancel_right hid'
      subst this
      rcases hin with hin | hin
      · exact hc hin
      · exact hp hin
    · have := h.other e' he' hk'
      rw [hid', hid] at this
      exact this (suffix_getLast ⟨name, rfl⟩)
  · intro e' he' hk'
    simp only [push_defs, List.mem_append, List.mem_singleton] at he'
    rcases he' with he' | rfl
    · obtain ⟨n, hn, hin⟩ := h.sym e' he' hk'
      exact ⟨n, hn, hin.elim .inl (fun x => .inr (List.mem_cons_of_mem _ x))⟩
    · exact ⟨name, hid, .inr List.mem_cons_self⟩
  · intro e' he' hk'
    simp only [push_defs, List.mem_append, List.mem_singleton] at he'
    rcases he' with he' | rfl
    · exact h.other e' he' hk'
    · exact absurd hk hk'

theorem NInv.cached {P : List Str} {st : DState} {name : Str} (h : NInv (name :: P) st) : NInv P (st.cached name) := by
  refine ⟨h.nodup, ?_, h.other, h.single⟩
  intro e he hk
  obtain ⟨n, hn, hin⟩ := h.sym e he hk
  refine ⟨n, hn, ?_⟩
  simp only [cached_cache, List.mem_cons]
  rcases hin with hin | hin
  · exact .inl (.inr hin)
  · rcases List.mem_cons.mp hin with rfl | hin
    · exact .inl (.inl rfl)
    · exact .inr hin

theorem guardLoop_ninv {P : List Str} {hit miss : Br} {f : Str → DState → Except Err DState} :
    ∀ (xs : List Str), (∀ d ∈ xs, ∀ st st', d ∉ st.cache → f d st = .ok st' → NInv P st →
        NInv P st' ∧ ∀ n ∈ st.cache, n ∈ st'.cache) →
      ∀ (st st' : DState), guardLoop hit miss f xs st = .ok st' → NInv P st →
        NInv P st' ∧ ∀ n ∈ st.cache, n ∈ st'.cache := by
  intro xs
  induction xs with
  | nil =>
    intro _ st st' h hi
    simp only [guardLoop, Except.ok.injEq] at h
    subst h
    exact ⟨hi, fun _ hn => hn⟩
  | cons d ds ih =>
    intro hf st st' h hi
    have hf' := fun d' hd' => hf d' (List.mem_cons_of_mem _ hd')
    simp only [guardLoop] at h
    by_cases hc : st.cache.contains d = true
    · simp only [hc, if_true] at h
      have := ih hf' (st.note hit) _ h (hi.note hit)
      exact ⟨this.1, this.2⟩
    · simp only [hc, bind, Except.bind] at h
      cases hfd : f d (st.note miss) with
      | error e => rw [hfd] at h; simp at h
      | ok st1 =>
        rw [hfd] at h
        simp only [Bool.false_eq_true, if_false] at h
        obtain ⟨i1, c1⟩ := hf d List.mem_cons_self _ _ (by simpa using hc) hfd (hi.note miss)
        obtain ⟨i2, c2⟩ := ih hf' _ _ h i1
        exact ⟨i2, fun n hn => c2 n (c1 n hn)⟩

/-- `_add_decofactory` never deploys an id that is already a child of `<defs>` — for symbol tables whose
dependencies strictly decrease a rank (no cycles) -/
theorem addDeco_ninv {symbols : List SymbolRow} (hwf : ∀ r ∈ symbols, symbolWF symbols r = true)
    (herr : errorSymbolOK symbols = true) (rank : Str → Nat)
    (hrank : ∀ cls r, findSymbol symbols cls = some r → ∀ d ∈ r.deps, rank d < rank cls) :
    ∀ (fuel : Nat) (name : Str) (st st' : DState) (P : List Str), addDeco symbols fuel name st = .ok st' →
      NInv P st → name ∉ st.cache → (∀ p ∈ P, rank name < rank p) →
      NInv P st' ∧ ∀ n ∈ st.cache, n ∈ st'.cache := by
  intro fuel
  induction fuel with
  | zero => intro name st st' P h; simp [addDeco] at h
  | succ fuel ih =>
    intro name st st' P h hi hc hP
    have hnP : name ∉ P := fun hin => Nat.lt_irrefl _ (hP name hin)
    unfold addDeco at h
    cases hfs : findSymbol symbols name with
    | some r =>
      rw [hfs] at h
      simp only [bind, Except.bind] at h
      cases hl : guardLoop .depCached .depNew (addDeco symbols fuel) r.deps ((st.push (symEl r)).note .decoRow) with
      | error e => rw [hl] at h; cases h
      | ok st2 =>
        rw [hl] at h
        simp only [pure, Except.pure, Except.ok.injEq] at h
        subst h
        obtain ⟨hn, hm⟩ := findSymbol_name hfs
        have hw := hwf r hm
        simp only [symbolWF, Bool.and_eq_true, List.all_eq_true, decide_eq_true_eq] at hw
        have hid : (symEl r).id = name ++ symbolSuffix := by simp [symEl, hw.1.1.1, hn]
        have i1 := (hi.pushSym name (symEl r) rfl hid hc hnP).note .decoRow
        obtain ⟨i2, c2⟩ := guardLoop_ninv r.deps (fun d hd a b hca hab hia =>
          ih d a b (name :: P) hab hia hca (fun p hp => by
            rcases List.mem_cons.mp hp with rfl | hp
            · exact hrank _ r hfs d hd
            · exact Nat.lt_trans (hrank _ r hfs d hd) (hP p hp))) _ _ hl i1
        exact ⟨i2.cached, fun n hn' => by simp only [cached_cache]; exact List.mem_cons_of_mem _ (c2 n hn')⟩
    | none =>
      rw [hfs] at h
      cases hfe : findSymbol symbols errorName with
      | none => rw [hfe] at h; cases h
      | some e =>
        rw [hfe] at h
        have hedeps : e.deps = [] := by
          unfold errorSymbolOK at herr
          rw [hfe] at herr
          simp only [Bool.and_eq_true, List.isEmpty_iff] at herr
          exact herr.2
        simp only [hedeps, guardLoop, bind, Except.bind, pure, Except.pure, Except.ok.injEq] at h
        subst h
        have i1 := (hi.pushSym name (fallbackEl name e) rfl rfl hc hnP).note .decoFallback
        exact ⟨i1.cached, fun n hn' => by simp only [cached_cache]; exact List.mem_cons_of_mem _ hn'⟩

theorem useLoop_ninv {symbols : List SymbolRow} (hwf : ∀ r ∈ symbols, symbolWF symbols r = true)
    (herr : errorSymbolOK symbols = true) (rank : Str → Nat)
    (hrank : ∀ cls r, findSymbol symbols cls = some r → ∀ d ∈ r.deps, rank d < rank cls)
    {uses : List Str} {st st' : DState} (h : useLoop symbols uses st = .ok st') (hi : NInv [] st) :
    NInv [] st' ∧ ∀ n ∈ st.cache, n ∈ st'.cache :=
  guardLoop_ninv uses (fun d _ a b hca hab hia =>
    addDeco_ninv hwf herr rank hrank _ d a b [] hab hia hca (fun _ hp => nomatch hp)) _ _ h hi

/-- what `_deploy_defs` keeps: the invariant, and `deco_cache` -/
structure NStep (st st' : DState) : Prop where
  inv : NInv [] st → NInv [] st'
  cache : st'.cache = st.cache

theorem NStep.refl (st : DState) : NStep st st := ⟨id, rfl⟩
theorem NStep.trans {a b c : DState} (h1 : NStep a b) (h2 : NStep b c) : NStep a c :=
  ⟨fun h => h2.inv (h1.inv h), by rw [h2.cache, h1.cache]⟩
theorem NStep.note (st : DState) (b : Br) : NStep st (st.note b) := ⟨fun h => h.note b, rfl⟩

theorem gradName_last : gradName.getLast? ≠ some 'l' := by decide

theorem gradStep_nstep {defaults : List (Str × Val)} {s : Styling} {st st' : DState} {kv : Str × Val}
    (hv : kv.2.hexOK = true) (h : gradStep defaults s st kv = .ok st') : NStep st st' := by
  unfold gradStep at h
  by_cases hk : isMarkerKey kv.1 = true
  · simp only [hk, if_true, bind, Except.bind] at h
    cases hh : hexOf (refStroke defaults s) with
    | error e => rw [hh] at h; cases h
    | ok x =>
      rw [hh] at h
      simp only [pure, Except.pure, Except.ok.injEq] at h
      subst h
      exact NStep.note _ _
  · simp only [hk, Bool.false_eq_true, if_false] at h
    cases hkv : kv.2 with
    | grad hs =>
      rw [hkv] at h hv
      simp only at h
      by_cases hc : st.topIds.contains (gradId hs) = true
      · simp only [hc, if_true, pure, Except.pure, Except.ok.injEq] at h
        subst h
        exact NStep.note _ _
      · simp only [hc, Bool.false_eq_true, if_false, pure, Except.pure, Except.ok.injEq] at h
        subst h
        refine ⟨fun hi => (hi.pushOther (gradEl hs) (by simp [gradEl]) (by simpa [gradEl] using hc) ?_ rfl).note _, rfl⟩
        show (joinId gradName hs).getLast? ≠ some 'l'
        apply joinId_not_l gradName_last
        intro x hx
        simp only [Val.hexOK, List.all_eq_true] at hv
        exact clean_of_hex (List.all_eq_true.mpr (hv x hx))
    | color x => rw [hkv] at h; simp only [pure, Except.pure, Except.ok.injEq] at h; subst h; exact NStep.note _ _
    | str x => rw [hkv] at h; simp only [pure, Except.pure, Except.ok.injEq] at h; subst h; exact NStep.note _ _
    | num x => rw [hkv] at h; simp only [pure, Except.pure, Except.ok.injEq] at h; subst h; exact NStep.note _ _
    | none => rw [hkv] at h; simp only [pure, Except.pure, Except.ok.injEq] at h; subst h; exact NStep.note _ _
    | other x => rw [hkv] at h; simp only [pure, Except.pure, Except.ok.injEq] at h; subst h; exact NStep.note _ _

theorem gradLoop_nstep {defaults : List (Str × Val)} {s : Styling} :
    ∀ (ks : List (Str × Val)) (st st' : DState), (∀ kv ∈ ks, kv.2.hexOK = true) →
      gradLoop defaults s ks st = .ok st' → NStep st st' := by
  intro ks
  induction ks with
  | nil =>
    intro st st' _ h
    simp only [gradLoop, Except.ok.injEq] at h
    subst h
    exact NStep.refl _
  | cons kv ks ih =>
    intro st st' hv h
    simp only [gradLoop, bind, Except.bind] at h
    cases h1 : gradStep defaults s st kv with
    | error e => rw [h1] at h; cases h
    | ok st1 =>
      rw [h1] at h
      exact (gradStep_nstep (hv kv List.mem_cons_self) h1).trans
        (ih _ _ (fun kv' hkv' => hv kv' (List.mem_cons_of_mem _ hkv')) h)

theorem markerStep_nstep {defaults : List (Str × Val)} {markers : List MarkerRow} {s : Styling} {st st' : DState}
    {attr : Str} (hd : AllVals (fun v => v.hexOK = true) defaults) (ha : AllVals (fun v => v.hexOK = true) s.attrs)
    (h : markerStep defaults markers s st attr = .ok st') : NStep st st' := by
  unfold markerStep at h
  cases hm : deployMarkerName true defaults s attr with
  | none => rw [hm] at h; simp only [pure, Except.pure, Except.ok.injEq] at h; subst h; exact NStep.note _ _
  | some v =>
    rw [hm] at h
    cases v with
    | none => simp only [pure, Except.pure, Except.ok.injEq] at h; subst h; exact NStep.note _ _
    | str m' =>
      simp only [bind, Except.bind] at h
      cases hh : hexOf (deployStroke defaults s) with
      | error e => rw [hh] at h; cases h
      | ok hx =>
        rw [hh] at h
        simp only at h
        by_cases hc : st.topIds.contains (joinId m' [hx]) = true
        · simp only [hc, if_true, pure, Except.pure, Except.ok.injEq] at h
          subst h
          exact NStep.note _ _
        · simp only [hc, Bool.false_eq_true, if_false] at h
          by_cases hk : hasMarker markers m' = true
          · simp only [hk, if_true, pure, Except.pure, Except.ok.injEq] at h
            subst h
            refine ⟨fun hi => (hi.pushOther (markerEl (joinId m' [hx])) (by simp [markerEl]) (by simpa [markerEl] using hc) ?_ rfl).note _, rfl⟩
            show (joinId m' [hx]).getLast? ≠ some 'l'
            have hcl : Clean hx := hexOf_clean (deployStroke_hexOK hd ha) hh
            rw [joinId_cons]
            show (m' ++ '_' :: hx).getLast? ≠ some 'l'
            rw [List.getLast?_append]
            cases hl : hx.getLast? with
            | none =>
              have : hx = [] := by simpa using hl
              subst this
              simp
            | some c =>
              have : (('_' : Char) :: hx).getLast? = some c := by rw [List.getLast?_cons, hl]; rfl
              rw [this]
              simp only [Option.some_or]
              intro he
              exact (hcl c (List.mem_of_getLast? hl)).1 (Option.some.inj he)
          · simp [hk] at h
    | color x => cases h
    | num x => cases h
    | grad x => cases h
    | other x => cases h

theorem deployDefs_nstep {styles : List StyleEntry} {markers : List MarkerRow} {s : Styling} {st st' : DState}
    (hs : StylesHexOK styles) (ha : AllVals (fun v => v.hexOK = true) s.attrs)
    (hd : deployDefs styles markers s st = .ok st') : NStep st st' := by
  unfold deployDefs at hd
  simp only [bind, Except.bind] at hd
  cases hg : getStyle styles s.dc s.cls with
  | error e => rw [hg] at hd; cases hd
  | ok defaults =>
    rw [hg] at hd
    simp only at hd
    have hdef := getStyle_all hs hg
    cases hd0 : gradLoop defaults s (iterItems defaults s) st with
    | error e => rw [hd0] at hd; cases hd
    | ok st0 =>
      rw [hd0] at hd
      simp only at hd
      cases hd1 : markerStep defaults markers s st0 markerStart with
      | error e => rw [hd1] at hd; cases hd
      | ok st1 =>
        rw [hd1] at hd
        simp only at hd
        refine ((gradLoop_nstep _ _ _ ?_ hd0).trans (markerStep_nstep hdef ha hd1)).trans (markerStep_nstep hdef ha hd)
        intro kv hkv
        unfold iterItems at hkv
        rcases List.mem_append.mp hkv with hkv | hkv
        · obtain ⟨a, _, rfl⟩ := List.mem_map.mp hkv
          rfl
        · exact ha kv ((mem_sortPairs _ _).mp hkv)

/-- **`draw_object` never deploys an id twice**, on any drawing state reached so far -/
theorem drawObjectS_ninv {T : Tables} (wf : T.WF) (hs : StylesHexOK T.styles) (rank : Str → Nat)
    (hrank : ∀ cls r, findSymbol T.symbols cls = some r → ∀ d ∈ r.deps, rank d < rank cls)
    {dc : Option Str} {o : Obj} (ho : AllVals (fun v => v.hexOK = true) o.style) {st st' : DState} {d : DrawnS}
    (h : drawObjectS T dc o st = .ok (d, st')) (hi : NInv [] st) : NInv [] st' := by
  unfold drawObjectS at h
  simp only [bind, Except.bind] at h
  cases hg : getStyle T.styles dc (styleType o.kind ++ '.' :: o.cls) with
  | error e => rw [hg] at h; cases h
  | ok defaults =>
    rw [hg] at h
    simp only at h
    have hp := prepare_all (T := T) (dc := dc) (getStyle_all hs hg) ho
    split at h
    · cases h
    · cases h1 : styleRefs T.styles (prepare T dc o defaults).objStyle with
      | error e => rw [h1] at h; cases h
      | ok shapeRefs =>
        rw [h1] at h; simp only at h
        cases h2 : textRefsOf T (prepare T dc o defaults) with
        | error e => rw [h2] at h; cases h
        | ok textRefs =>
          rw [h2] at h; simp only at h
          cases h3 : useLoop T.symbols (prepare T dc o defaults).uses st with
          | error e => rw [h3] at h; cases h
          | ok st1 =>
            rw [h3] at h; simp only at h
            cases h4 : deployDefs T.styles T.markers (prepare T dc o defaults).objStyle st1 with
            | error e => rw [h4] at h; cases h
            | ok st2 =>
              rw [h4] at h; simp only at h
              cases h5 : deployDefs T.styles T.markers (prepare T dc o defaults).textStyle st2 with
              | error e => rw [h5] at h; cases h
              | ok st3 =>
                rw [h5] at h
                simp only [pure, Except.pure, Except.ok.injEq, Prod.mk.injEq] at h
                obtain ⟨_, hst⟩ := h
                subst hst
                exact (deployDefs_nstep hs hp.2 h5).inv ((deployDefs_nstep hs hp.1 h4).inv
                  (useLoop_ninv wf.symbols wf.error rank hrank h3 hi).1)

theorem drawAllS_ninv {T : Tables} (wf : T.WF) (hs : StylesHexOK T.styles) (rank : Str → Nat)
    (hrank : ∀ cls r, findSymbol T.symbols cls = some r → ∀ d ∈ r.deps, rank d < rank cls) {dc : Option Str} :
    ∀ (os : List Obj) (st st' : DState) (ds : List DrawnS), (∀ o ∈ os, AllVals (fun v => v.hexOK = true) o.style) →
      drawAllS T dc os st = .ok (ds, st') → NInv [] st → NInv [] st' := by
  intro os
  induction os with
  | nil =>
    intro st st' ds _ h hi
    simp only [drawAllS, Except.ok.injEq, Prod.mk.injEq] at h
    obtain ⟨_, rfl⟩ := h
    exact hi
  | cons o os ih =>
    intro st st' ds ho h hi
    simp only [drawAllS, bind, Except.bind] at h
    cases h1 : drawObjectS T dc o st with
    | error e => rw [h1] at h; cases h
    | ok p1 =>
      obtain ⟨d, st1⟩ := p1
      rw [h1] at h
      simp only at h
      cases h2 : drawAllS T dc os st1 with
      | error e => rw [h2] at h; cases h
      | ok p2 =>
        obtain ⟨ds', st2⟩ := p2
        rw [h2] at h
        simp only [pure, Except.pure, Except.ok.injEq, Prod.mk.injEq] at h
        obtain ⟨_, rfl⟩ := h
        exact ih _ _ _ (fun o' ho' => ho o' (List.mem_cons_of_mem _ ho')) h2
          (drawObjectS_ninv wf hs rank hrank (ho o List.mem_cons_self) h1 hi)

/-! ### tables of dependency depth ≤ 1 have a rank -/

theorem rankOf_decreases {symbols : List SymbolRow} (hd : symbols.all (depthOK symbols) = true) :
    ∀ cls r, findSymbol symbols cls = some r → ∀ d ∈ r.deps, rankOf symbols d < rankOf symbols cls := by
  intro cls r hf d hdm
  have hr := (List.all_eq_true.mp hd) r (findSymbol_name hf).2
  have hdd := (List.all_eq_true.mp hr) d hdm
  have h1 : rankOf symbols cls = 1 := by
    unfold rankOf
    rw [hf]
    have : r.deps.isEmpty = false := by cases hrd : r.deps with
      | nil => rw [hrd] at hdm; cases hdm
      | cons _ _ => rfl
    simp [this]
  have h0 : rankOf symbols d = 0 := by
    unfold rankOf
    cases hfd : findSymbol symbols d with
    | none => rfl
    | some sd => rw [hfd] at hdd; simp only at hdd; simp [hdd]
  omega

end Capella.Svg
