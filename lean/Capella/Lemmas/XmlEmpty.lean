import Capella.Lemmas.XmlRoundTrip
import Capella.Lemmas.XmlEdit
import Capella.Model.XmlLoose
/-! The round trip up to empty-string texts (C02): `parse (writeXml k d) = canonDoc (dropDoc d)` for
documents that are Capella-shaped up to `""` texts, and the edits that keep documents in that domain. -/
namespace Capella.Xml

/-! ### `fill` / `drop` -/

theorem fillL_isEmpty (ks : List Elem) : (fillL ks).isEmpty = ks.isEmpty := by
  cases ks <;> simp [fillL]

theorem dropL_isEmpty (ks : List Elem) : (dropL ks).isEmpty = ks.isEmpty := by
  cases ks <;> simp [dropL]

theorem fillL_eq_nil {ks : List Elem} (h : fillL ks = []) : ks = [] := by
  cases ks with
  | nil => rfl
  | cons k ks => simp [fillL] at h

theorem wfElem_fill_facts {pns : List (Str × Str)} {tag nsd attrs text tail kids}
    (h : wfElem pns (fillE (.mk tag nsd attrs text tail kids)) = true) :
    wfElem pns (.mk tag nsd attrs (fillT text) tail (fillL kids)) = true := by
  simpa [fillE] using h

/-! ### characters → tokens -/

mutual
theorem Lexes_serElemE (ll : Nat) (pns : List (Str × Str)) (hinv : NsInv pns) (isRoot : Bool)
    (indent pos : Nat) (e : Elem) (hwf : wfElem pns (fillE e) = true) :
    Lexes (serElem ll pns isRoot indent pos e).1 (toksE pns isRoot indent e) := by
  match e, hwf with
  | .mk tag nsd attrs text tail kids, hwf =>
    have hwf' := wfElem_fill_facts hwf
    obtain ⟨hns, htag, _, _, hkids⟩ := wfElem_facts hwf'
    obtain ⟨hsc, hinvW⟩ := hinv.scope hns
    have hname := (lexName_unmap hinvW false tag (by rw [← hsc]; exact htag)).1
    rw [← hsc] at hname hinvW
    unfold serElem toksE
    simp only
    split
    · -- self-closing
      have := Lexes_stag hinv hwf' ll isRoot (2 * (indent + 2)) (pos + 1 + utf8Len (unmap (scope pns nsd) tag))
        false true (if isRoot = true then [] else keysOf pns)
      simpa [closerStr, List.append_assoc, keysOf] using this
    · -- expanded
      have hstag := Lexes_stag hinv hwf' ll isRoot (2 * (indent + 2)) (pos + 1 + utf8Len (unmap (scope pns nsd) tag))
        false false (if isRoot = true then [] else keysOf pns)
      have hetag := Lexes_etag hname
      cases text with
      | some t =>
        cases t with
        | nil =>
          -- `""`: nothing is written between the tags
          obtain ⟨hk, _, _⟩ := wfElem_text (t := ['x']) (by simpa [fillT] using hwf')
          have hk' := fillL_eq_nil hk
          subst hk'
          have := Lexes.append hstag hetag
          simp only [textWritten, serKids, toksK, List.isEmpty_nil, Bool.not_true, Bool.false_eq_true, ↓reduceIte,
            List.nil_append, List.append_nil, Bool.false_and]
          simpa [closerStr, List.append_assoc, keysOf] using this
        | cons c cs =>
          obtain ⟨hk, hne, hx⟩ := wfElem_text (t := c :: cs) (by simpa [fillT] using hwf')
          have hk' := fillL_eq_nil hk
          subst hk'
          have hnb := textWritten_some hne
          have htxt : Lexes (writtenText (c :: cs) ++ '<' :: '/' :: (unmap (scope pns nsd) tag ++ ['>']))
              (.text (c :: cs) :: [.etag (unmap (scope pns nsd) tag)]) :=
            Lexes.text (writtenText_ne_nil (c :: cs) hx hne)
              (by simp only [List.all_eq_true, bne_iff_ne, ne_eq]; intro c' hc; exact (writtenText_chars (c :: cs) c' hc).1)
              (writtenText_no_cdata_end (c :: cs)) (fun hc => (writtenText_chars (c :: cs) _ hc).2 rfl)
              (writtenText_reads (c :: cs) hx) ⟨_, rfl⟩ hetag
          have := Lexes.append hstag htxt
          simp only [List.isEmpty_nil, hnb, ↓reduceIte, serText_multiline (c :: cs) hne, serKids, Bool.not_true,
            Bool.false_and, Bool.false_eq_true, toksK, List.append_nil]
          simpa [closerStr, List.append_assoc, keysOf] using this
      | none =>
        simp only [fillT] at hwf'
        have hK := Lexes_serKidsE ll (scope pns nsd) hinvW (indent + 1)
          (serAttrs ll (2 * (indent + 2)) isRoot
            (unmappedAttrs (if isRoot = true then [] else List.map (fun x => x.1) pns) (scope pns nsd) attrs)
            (pos + 1 + utf8Len (unmap (scope pns nsd) tag)) false).2 kids hkids
        have htc := serKids_tc ll (scope pns nsd) (indent + 1)
          (serAttrs ll (2 * (indent + 2)) isRoot
            (unmappedAttrs (if isRoot = true then [] else List.map (fun x => x.1) pns) (scope pns nsd) attrs)
            (pos + 1 + utf8Len (unmap (scope pns nsd) tag)) false).2 kids
        obtain ⟨htail, _, _⟩ := wfElem_shape hwf'
        subst htail
        simp only [textWritten, Bool.false_eq_true, ↓reduceIte, htc, Bool.not_false, Bool.and_true,
          List.nil_append]
        cases kids with
        | nil =>
          have := Lexes.append hstag hetag
          simp only [serKids, toksK, List.isEmpty_nil, Bool.not_true, Bool.false_eq_true, ↓reduceIte,
            List.nil_append, List.append_nil]
          simpa [closerStr, List.append_assoc, keysOf] using this
        | cons k ks =>
          have hclose := Lexes.nl_ind indent ⟨_, rfl⟩ hetag
          have := Lexes.append hstag (Lexes.append hK hclose)
          simp only [List.isEmpty_cons, Bool.not_false, ↓reduceIte, Bool.false_eq_true]
          simpa [closerStr, List.append_assoc, keysOf] using this

theorem Lexes_serKidsE (ll : Nat) (nsmap : List (Str × Str)) (hinv : NsInv nsmap) (indent pos : Nat)
    (ks : List Elem) (hwf : wfKids nsmap (fillL ks) = true) :
    Lexes (serKids ll nsmap indent none pos false ks).1 (toksK nsmap indent ks) := by
  match ks, hwf with
  | [], _ => simpa [serKids, toksK] using Lexes.nil
  | k :: ks', hwf =>
    simp only [fillL, wfKids, Bool.and_eq_true] at hwf
    unfold serKids toksK
    simp only [Bool.false_eq_true, ↓reduceIte, pyNonBlank, List.append_nil]
    have hE := Lexes_serElemE ll nsmap hinv false indent (2 * indent) k hwf.1
    have hK := Lexes_serKidsE ll nsmap hinv indent (serElem ll nsmap false indent (2 * indent) k).2 ks' hwf.2
    have hEK := Lexes.append hE hK
    obtain ⟨r, hr⟩ := serElem_head ll nsmap false indent (2 * indent) k
    have := Lexes.nl_ind indent (s2 := (serElem ll nsmap false indent (2 * indent) k).1 ++
      (serKids ll nsmap indent none (serElem ll nsmap false indent (2 * indent) k).2 false ks').1)
      ⟨r ++ _, by rw [hr]; rfl⟩ hEK
    simpa [List.append_assoc] using this
end

/-! ### tokens → raw tree -/

theorem rawOf_dropE_tail (pns : List (Str × Str)) (isRoot : Bool) (e : Elem) :
    (rawOf pns isRoot (dropE e)).tail = e.tail := by
  cases e; simp [rawOf, dropE, Elem.tail]

mutual
/-- a complete element's tokens put its raw tree — with `""` read as "no text" — in place -/
theorem build_toksEE (pns : List (Str × Str)) (isRoot : Bool) (indent : Nat) (e : Elem)
    (hwf : wfElem pns (fillE e) = true) (st : BState) (rest : List Tok) :
    build st (toksE pns isRoot indent e ++ rest) =
      (st.place (rawOf pns isRoot (dropE e))).bind fun st' => build st' rest := by
  match e, hwf with
  | .mk tag nsd attrs text tail kids, hwf =>
    have hwf' := wfElem_fill_facts hwf
    obtain ⟨htail, htext, hkids⟩ := wfElem_shape hwf'
    subst htail
    unfold toksE
    simp only [dropE, rawOf]
    split
    · -- self-closing
      rename_i hsc
      simp only [Bool.and_eq_true, Option.isNone_iff_eq_none, List.isEmpty_iff] at hsc
      obtain ⟨⟨ht, hk⟩, _⟩ := hsc
      subst ht hk
      simp only [List.cons_append, List.nil_append, build_cons, step, ↓reduceIte, rawKids, dropL, dropT]
    · -- expanded
      rename_i hsc
      simp only [List.cons_append, List.append_assoc, build_cons, step, Bool.false_eq_true, ↓reduceIte]
      by_cases hroot : (st.stack.isEmpty && st.root.isSome) = true
      · -- a second root: both sides fail
        simp only [hroot, ↓reduceIte, Option.bind_none]
        simp only [Bool.and_eq_true, List.isEmpty_iff] at hroot
        simp [BState.place, hroot.1, hroot.2]
      · simp only [hroot, Bool.false_eq_true, ↓reduceIte, Option.bind_some]
        cases text with
        | some t =>
          cases t with
          | nil =>
            obtain ⟨hk, _⟩ := htext ['x'] (by simp [fillT])
            have hk' := fillL_eq_nil hk
            subst hk'
            simp only [textWritten, List.isEmpty_nil, Bool.false_eq_true, ↓reduceIte, toksK, List.nil_append,
              build_cons, step, dropT, dropL, rawKids]
            simp [Frame.close]
          | cons c cs =>
            obtain ⟨hk, hne⟩ := htext (c :: cs) (by simp [fillT])
            have hk' := fillL_eq_nil hk
            subst hk'
            have hdrop : ∀ (n n' : Str) (as : List (Str × Str)),
                dropBlank ⟨n, as, none, []⟩ (some (.etag n')) = false := by
              intro n n' as; simp [dropBlank, isEtag]
            simp only [List.isEmpty_nil, textWritten_some hne, ↓reduceIte, toksK, List.nil_append,
              List.cons_append, build_cons, step, List.head?_cons, hdrop, Bool.and_false,
              Bool.false_eq_true, Frame.addText, Option.getD_none, Option.bind_some, rawKids, dropT, dropL]
            simp [Frame.close]
        | none =>
          simp only [List.nil_append, dropT]
          simp only [fillT] at hwf'
          have hK := build_toksKE (scope pns nsd) (indent + 1) kids hkids
            { st with stack := ⟨unmap (scope pns nsd) tag,
                rawAttrs (if isRoot = true then [] else keysOf pns) (scope pns nsd) attrs, none, []⟩ :: st.stack }
            ⟨unmap (scope pns nsd) tag,
                rawAttrs (if isRoot = true then [] else keysOf pns) (scope pns nsd) attrs, none, []⟩
            st.stack rfl rfl (Or.inl rfl)
          rw [hK]
          cases kids with
          | nil =>
            simp only [List.isEmpty_nil, ↓reduceIte, List.nil_append, build_cons, step, rawKids, dropL,
              List.reverse_nil, List.append_nil]
            simp [Frame.close]
          | cons k ks =>
            have hlast : ∀ x xs, ((rawKids (scope pns nsd) (dropL (k :: ks))).reverse ++ ([] : List Elem)) = x :: xs → x.tail = none := by
              intro x xs hx
              have hmem : x ∈ rawKids (scope pns nsd) (dropL (k :: ks)) := by
                have : x ∈ (rawKids (scope pns nsd) (dropL (k :: ks))).reverse ++ [] := by rw [hx]; exact List.mem_cons_self
                simpa using this
              exact rawKids_tailE _ _ hkids x hmem
            simp only [List.isEmpty_cons, Bool.false_eq_true, ↓reduceIte, List.cons_append,
              List.nil_append, build_cons, step, isBlank_nl_ind, Bool.true_and, List.head?_cons]
            have hdrop : dropBlank
                ⟨unmap (scope pns nsd) tag,
                  rawAttrs (if isRoot = true then [] else keysOf pns) (scope pns nsd) attrs, none,
                  (rawKids (scope pns nsd) (dropL (k :: ks))).reverse ++ []⟩
                (some (.etag (unmap (scope pns nsd) tag))) = true := by
              simp only [dropBlank, Option.isSome_some, Option.isNone_none, Bool.true_and, Bool.and_true, isEtag]
              generalize hkk : (rawKids (scope pns nsd) (dropL (k :: ks))).reverse ++ ([] : List Elem) = kk at hlast
              cases kk with
              | nil => simp [rawKids, dropL] at hkk
              | cons x xs => simp [hlast x xs rfl]
            simp only [hdrop, ↓reduceIte, Option.bind_some]
            simp [Frame.close]

theorem build_toksKE (nsmap : List (Str × Str)) (indent : Nat) (ks : List Elem)
    (hwf : wfKids nsmap (fillL ks) = true) (st : BState) (f : Frame) (fs : List Frame)
    (hst : st.stack = f :: fs) (hft : f.text = none)
    (hfk : f.kids = [] ∨ ∃ x xs, f.kids = x :: xs ∧ x.tail = none) (rest : List Tok) :
    build st (toksK nsmap indent ks ++ rest) =
      build { st with stack := { f with kids := (rawKids nsmap (dropL ks)).reverse ++ f.kids } :: fs } rest := by
  match ks, hwf with
  | [], _ =>
    simp only [toksK, List.nil_append, rawKids, dropL, List.reverse_nil]
    cases st; simp only at hst; subst hst; rfl
  | k :: ks', hwf =>
    simp only [fillL, wfKids, Bool.and_eq_true] at hwf
    obtain ⟨n, as, sc, tl, hhead⟩ := toksE_head nsmap false indent k
    have hdrop : dropBlank f (some (.stag n as sc)) = true := by
      simp only [dropBlank, Option.isSome_some, hft, Option.isNone_none, Bool.true_and, Bool.and_true, isEtag,
        Bool.and_false, Bool.not_false]
      rcases hfk with h | ⟨x, xs, h, hx⟩
      · simp [h]
      · simp [h, hx]
    have hhd : (toksE nsmap false indent k ++ (toksK nsmap indent ks' ++ rest)).head? = some (.stag n as sc) := by
      rw [hhead]; rfl
    simp only [toksK, List.cons_append, List.append_assoc, build_cons, step, hst, isBlank_nl_ind, Bool.true_and,
      hhd, hdrop, ↓reduceIte, Option.bind_some]
    rw [build_toksEE nsmap false indent k hwf.1]
    simp only [BState.place, hst, Option.bind_some]
    have := build_toksKE nsmap indent ks' hwf.2
      { st with stack := f.addKid (rawOf nsmap false (dropE k)) :: fs } (f.addKid (rawOf nsmap false (dropE k))) fs rfl
      (by simpa [Frame.addKid] using hft)
      (Or.inr ⟨rawOf nsmap false (dropE k), f.kids, rfl, by
        rw [rawOf_dropE_tail]
        cases k with
        | mk tag nsd attrs text tail kids => exact (wfElem_shape (wfElem_fill_facts hwf.1)).1⟩) rest
    rw [this]
    simp [Frame.addKid, rawKids, dropL]

theorem rawKids_tailE (nsmap : List (Str × Str)) (ks : List Elem) (hwf : wfKids nsmap (fillL ks) = true) :
    ∀ x ∈ rawKids nsmap (dropL ks), x.tail = none := by
  match ks, hwf with
  | [], _ => simp [rawKids, dropL]
  | k :: ks', hwf =>
    simp only [fillL, wfKids, Bool.and_eq_true] at hwf
    intro x hx
    simp only [dropL, rawKids, List.mem_cons] at hx
    rcases hx with rfl | hx
    · rw [rawOf_dropE_tail]
      cases k with
      | mk tag nsd attrs text tail kids => exact (wfElem_shape (wfElem_fill_facts hwf.1)).1
    · exact rawKids_tailE nsmap ks' hwf.2 x hx
end

/-! ### the tree with `""` read as "no text" is Capella-shaped -/

mutual
theorem wfElem_drop (pns : List (Str × Str)) (e : Elem) (h : wfElem pns (fillE e) = true) :
    wfElem pns (dropE e) = true := by
  match e, h with
  | .mk tag nsd attrs text tail kids, h =>
    simp only [fillE] at h
    simp only [dropE]
    rw [wfElem_iff] at h ⊢
    obtain ⟨h1, h2, h3, h4, h5, h6, h7⟩ := h
    refine ⟨h1, h2, h3, h4, ?_, h6, wfKids_drop _ kids h7⟩
    rw [dropL_isEmpty]
    rw [fillL_isEmpty] at h5
    cases text with
    | none => rfl
    | some t =>
      cases t with
      | nil => rfl
      | cons c cs => simpa [fillT, dropT] using h5
theorem wfKids_drop (nsmap : List (Str × Str)) (ks : List Elem) (h : wfKids nsmap (fillL ks) = true) :
    wfKids nsmap (dropL ks) = true := by
  match ks, h with
  | [], _ => rfl
  | k :: ks', h =>
    simp only [fillL, wfKids, Bool.and_eq_true] at h
    simp only [dropL, wfKids, Bool.and_eq_true]
    exact ⟨wfElem_drop nsmap k h.1, wfKids_drop nsmap ks' h.2⟩
end

theorem wfDoc_drop {d : Doc} (h : wfDocE d = true) : wfDoc (dropDoc d) = true := by
  simp only [wfDocE, wfDoc, fillDoc, dropDoc, Bool.and_eq_true] at h ⊢
  exact ⟨⟨wfElem_drop [] d.root h.1.1, h.1.2⟩, h.2⟩

/-! ### documents -/

theorem lex_serializePE (pend : Str) (hp : nlOnly pend) (ll : Nat) (d : Doc) (hwf : wfDocE d = true) :
    lex (pend ++ serialize ll true [] true d) = some (toksDocP pend d) := by
  simp only [wfDocE, fillDoc, wfDoc, Bool.and_eq_true, List.all_eq_true] at hwf
  obtain ⟨⟨hroot, hpre⟩, hpost⟩ := hwf
  have htail : d.root.tail = none := by
    cases hr : d.root with
    | mk tag nsd attrs text tail kids => rw [hr] at hroot; exact (wfElem_shape (wfElem_fill_facts hroot)).1
  have hA := LexesTo_comments d.pre hpre pend hp 0
  have hB := LexesTo_comments d.post hpost [] (by intro c hc; simp at hc) (serComments d.pre 0).2
  have hE := (Lexes_serElemE ll [] NsInv.nil true 0 (serComments d.pre 0).2 d.root hroot).to
  obtain ⟨r, hr⟩ := serElem_head ll [] true 0 (serComments d.pre 0).2 d.root
  have hT := textTok_lexes (toksCs pend d.pre).2 (toksCs_pend_nlOnly d.pre pend hp)
    (s2 := (serElem ll [] true 0 (serComments d.pre 0).2 d.root).1) ⟨r, hr⟩
  simp only [List.nil_append] at hB
  have inner := LexesTo.trans hE (s2 := (serComments d.post (serComments d.pre 0).2).1) (by simpa using hB)
  have mid := LexesTo.trans hT inner
  rw [List.append_assoc] at mid
  have h1 := LexesTo.trans hA mid
  have hend := nlOnly_text (nlOnly_append (toksCs_pend_nlOnly d.post [] (by intro c hc; simp at hc)) nlOnly_nl) (by simp)
  apply lexAll_adequate ((0 + 1 + 1) + ((toksCs pend d.pre).1 ++ (textTok (toksCs pend d.pre).2 ++
    (toksE [] true 0 d.root ++ (toksCs [] d.post).1))).length)
  have hs : pend ++ serialize ll true [] true d =
      ((pend ++ (serComments d.pre 0).1) ++ ((serElem ll [] true 0 (serComments d.pre 0).2 d.root).1 ++
        (serComments d.post (serComments d.pre 0).2).1)) ++ ['\n'] := by
    simp [serialize, htail, pyNonBlank, List.append_assoc]
  rw [hs, h1 ['\n'] (0 + 1 + 1),
    lexAll_tok (nextTok_text_eof _ _ (by simp) hend.1 hend.2.1 hend.2.2.1 hend.2.2.2), lexAll_eof]
  simp [toksDocP, List.append_assoc]

theorem build_toksDocPE (pend : Str) (hp : isBlank pend = true) (d : Doc) (hwf : wfDocE d = true) :
    (build BState.init (toksDocP pend d)).bind BState.finish = some (rawDoc (dropDoc d)) := by
  simp only [wfDocE, fillDoc, wfDoc, Bool.and_eq_true, List.all_eq_true] at hwf
  obtain ⟨⟨hroot, hpre⟩, hpost⟩ := hwf
  unfold toksDocP
  simp only [List.append_assoc]
  rw [build_toksCs_pre d.pre (fun c hc => commentOk_tail (hpre c hc)) pend hp _ rfl rfl]
  have hb1 := toksCs_pend_blank d.pre pend hp
  have hb2 := toksCs_pend_blank d.post [] (by decide)
  have hE := fun st rest => build_toksEE [] true 0 d.root hroot st rest
  have hskip : ∀ (st : BState) (rest : List Tok), st.stack = [] →
      build st (textTok (toksCs pend d.pre).2 ++ rest) = build st rest := by
    intro st rest hs
    unfold textTok
    split
    · rfl
    · simp [build_cons, step, hs, hb1]
  rw [hskip _ _ rfl, hE]
  simp only [BState.init, BState.place, List.append_nil, Option.isSome_none, Bool.false_eq_true,
    ↓reduceIte, Option.bind_some]
  rw [build_toksCs_post d.post (fun c hc => commentOk_tail (hpost c hc)) [] (by decide) _ rfl rfl]
  simp only [step, isBlank_append hb2 (by decide : isBlank ['\n'] = true), ↓reduceIte,
    build, Option.bind_some, BState.finish, List.append_nil, List.reverse_reverse, rawDoc, dropDoc]

/-- after skipping the declaration, reading `pend ++ serialize …` gives the canonical document with
every `""` text read as "no text" -/
theorem parseBody_serializeE (pend : Str) (hp : nlOnly pend) (ll : Nat) (d : Doc) (hwf : wfDocE d = true) :
    parseBody (pend ++ serialize ll true [] true d) = some (canonDoc (dropDoc d)) := by
  unfold parseBody
  rw [lex_serializePE pend hp ll d hwf]
  have hb := build_toksDocPE pend (isBlank_of_nlOnly hp) d hwf
  simp only
  cases hbs : build BState.init (toksDocP pend d) with
  | none => simp [hbs] at hb
  | some st =>
    simp only [hbs, Option.bind_some] at hb
    simp only [hb, resolve_rawDoc (dropDoc d) (wfDoc_drop hwf)]
    rfl

/-- **`parse (writeXml k d) = canonDoc (dropDoc d)`** for documents that are Capella-shaped up to `""` texts -/
theorem parse_writeXmlE (k : FragKind) (d : Doc) (hwf : wfDocE d = true) :
    parse (writeXml k d) = some (canonDoc (dropDoc d)) := by
  unfold parse
  rw [stripDecl_writeXml]
  exact parseBody_serializeE ['\n'] nlOnly_nl _ d hwf

/-! ### edits commute with `fill` -/

theorem fillL_insertNth (i : Nat) (x : Elem) (ks : List Elem) :
    fillL (insertNth i x ks) = insertNth i (fillE x) (fillL ks) := by
  induction ks generalizing i with
  | nil => simp [insertNth, fillL]
  | cons y ys ih =>
    cases i with
    | zero => simp [insertNth, fillL]
    | succ j => simp [insertNth, fillL, ih]

theorem fillL_removeNth (i : Nat) (ks : List Elem) : fillL (removeNth i ks) = removeNth i (fillL ks) := by
  induction ks generalizing i with
  | nil => simp [removeNth, fillL]
  | cons y ys ih =>
    cases i with
    | zero => simp [removeNth, fillL]
    | succ j => simp [removeNth, fillL, ih]

theorem fillL_modifyNth (g g' : Elem → Elem) (hg : ∀ e, fillE (g e) = g' (fillE e)) (i : Nat) (ks : List Elem) :
    fillL (modifyNth g i ks) = modifyNth g' i (fillL ks) := by
  induction ks generalizing i with
  | nil => simp [modifyNth, fillL]
  | cons y ys ih =>
    cases i with
    | zero => simp [modifyNth, fillL, hg]
    | succ j => simp [modifyNth, fillL, ih]

theorem fillE_editAt (p : List Nat) (f f' : Elem → Elem) (hf : ∀ e, fillE (f e) = f' (fillE e)) (e : Elem) :
    fillE (editAt p f e) = editAt p f' (fillE e) := by
  induction p generalizing e with
  | nil => simpa [editAt] using hf e
  | cons i p ih =>
    cases e with
    | mk t n a x tl ks =>
      simp only [editAt, fillE]
      rw [fillL_modifyNth (editAt p f) (editAt p f') ih]

theorem fillE_fn (ed : Edit) (e : Elem) : fillE (ed.fn e) = (fillEdit ed).fn (fillE e) := by
  cases e with
  | mk t n a x tl ks =>
    cases ed with
    | setAttr p k v => simp [Edit.fn, fillEdit, Elem.setAttr, fillE]
    | delAttr p k => simp [Edit.fn, fillEdit, Elem.delAttr, fillE]
    | setText p txt => simp [Edit.fn, fillEdit, Elem.setText, fillE]
    | insertKid p i kid => simp [Edit.fn, fillEdit, Elem.insertKid, fillE, fillL_insertNth]
    | removeKid p i => simp [Edit.fn, fillEdit, Elem.removeKid, fillE, fillL_removeNth]

theorem fillEdit_path (ed : Edit) : (fillEdit ed).path = ed.path := by
  cases ed <;> rfl

theorem fillDoc_apply (ed : Edit) (d : Doc) : fillDoc (ed.apply d) = (fillEdit ed).apply (fillDoc d) := by
  simp only [Edit.apply, fillDoc, fillEdit_path]
  rw [fillE_editAt ed.path ed.fn (fillEdit ed).fn (fillE_fn ed)]

/-- an edit accepted up to empty texts keeps a document Capella-shaped up to empty texts -/
theorem edit_preserves_wfE (ed : Edit) (d : Doc) (hwf : wfDocE d = true) (hok : ed.okE d = true) :
    wfDocE (ed.apply d) = true := by
  unfold wfDocE at hwf ⊢
  rw [fillDoc_apply]
  exact edit_preserves_wf (fillEdit ed) (fillDoc d) hwf hok

theorem history_preserves_wfE (es : List Edit) (d : Doc) (hwf : wfDocE d = true) (hok : okAllE es d = true) :
    wfDocE (applyAll es d) = true := by
  induction es generalizing d with
  | nil => exact hwf
  | cons e es ih =>
    simp only [okAllE, Bool.and_eq_true] at hok
    exact ih (e.apply d) (edit_preserves_wfE e d hwf hok.1) hok.2

theorem okAllE_append (a b : List Edit) (d : Doc) :
    okAllE (a ++ b) d = (okAllE a d && okAllE b (applyAll a d)) := by
  induction a generalizing d with
  | nil => simp [okAllE, applyAll]
  | cons e es ih => simp [okAllE, applyAll, ih, Bool.and_assoc]

/-! ### the strict domain is the special case without `""` texts -/

mutual
theorem fillE_of_wf (pns : List (Str × Str)) (e : Elem) (h : wfElem pns e = true) : fillE e = e := by
  match e, h with
  | .mk tag nsd attrs text tail kids, h =>
    obtain ⟨_, htext, hkids⟩ := wfElem_shape h
    simp only [fillE]
    rw [fillL_of_wf _ kids hkids]
    cases text with
    | none => rfl
    | some t =>
      cases t with
      | nil => exact absurd rfl (htext [] rfl).2
      | cons c cs => rfl
theorem fillL_of_wf (nsmap : List (Str × Str)) (ks : List Elem) (h : wfKids nsmap ks = true) : fillL ks = ks := by
  match ks, h with
  | [], _ => rfl
  | k :: ks', h =>
    simp only [wfKids, Bool.and_eq_true] at h
    simp only [fillL, fillE_of_wf nsmap k h.1, fillL_of_wf nsmap ks' h.2]
end

mutual
theorem dropE_of_wf (pns : List (Str × Str)) (e : Elem) (h : wfElem pns e = true) : dropE e = e := by
  match e, h with
  | .mk tag nsd attrs text tail kids, h =>
    obtain ⟨_, htext, hkids⟩ := wfElem_shape h
    simp only [dropE]
    rw [dropL_of_wf _ kids hkids]
    cases text with
    | none => rfl
    | some t =>
      cases t with
      | nil => exact absurd rfl (htext [] rfl).2
      | cons c cs => rfl
theorem dropL_of_wf (nsmap : List (Str × Str)) (ks : List Elem) (h : wfKids nsmap ks = true) : dropL ks = ks := by
  match ks, h with
  | [], _ => rfl
  | k :: ks', h =>
    simp only [wfKids, Bool.and_eq_true] at h
    simp only [dropL, dropE_of_wf nsmap k h.1, dropL_of_wf nsmap ks' h.2]
end

/-- a Capella-shaped document is Capella-shaped up to empty texts, and has none to drop -/
theorem wfDocE_of_wfDoc {d : Doc} (h : wfDoc d = true) : wfDocE d = true ∧ dropDoc d = d := by
  have hroot : wfElem [] d.root = true := by
    simp only [wfDoc, Bool.and_eq_true] at h; exact h.1.1
  constructor
  · unfold wfDocE fillDoc
    rw [fillE_of_wf [] d.root hroot]
    exact h
  · unfold dropDoc
    rw [dropE_of_wf [] d.root hroot]

end Capella.Xml
