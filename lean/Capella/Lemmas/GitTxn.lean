import Capella.Lemmas.Git

/-!
# Transaction-level lemmas for C16 (no git failure unless stated)
-/
namespace Capella.Git
variable {P : Type} [DecidableEq P]

theorem entered_frame (s : St P) : (entered s).commits = s.commits ∧ (entered s).refs = s.refs ∧
    (entered s).head = s.head ∧ (entered s).index = s.index ∧ (entered s).files = s.files := by
  simp [entered]

/-- a body that ends with the caller raising always ends in an error -/
theorem runBody_append_raise (fault : Option Nat) (rol : Bool) (body : List (Op P)) : ∀ s : St P,
    ∃ e, (runBody fault rol (body ++ [Op.raise]) s).2 = some e := by
  induction body with
  | nil => intro s; exact ⟨.abort, by simp [runBody, runOp]⟩
  | cons o os ih =>
    intro s
    simp only [List.cons_append, runBody]
    rcases runOp fault rol o s with ⟨s1, _ | e⟩
    · exact ih s1
    · exact ⟨e, rfl⟩

/-- **abort**: the body ends with error `e` -/
theorem abort_restores' (rev : Str) (o : Opts) (body : List (Op P)) (s : St P) (hv : Valid s)
    (hobj : objectLike (o.remoteBranch.getD rev) = false) (e : Err)
    (hb : (runBody none (objectLike rev) body (entered s)).2 = some e) :
    (transaction none rev o body s).2 = some e ∧ Restored s (transaction none rev o body s).1 ∧
    (transaction none rev o body s).1.commits = s.commits ∧ Valid (transaction none rev o body s).1 := by
  rw [transaction_none rev o body s hobj hv.1]
  have hf := runBody_frame none (objectLike rev) body (entered s)
  rcases hr : runBody none (objectLike rev) body (entered s) with ⟨s2, e'⟩
  rw [hr] at hb hf
  simp only at hb
  subst hb
  simp only [rollback_none]
  have hc : s2.commits = s.commits := hf.1
  have hrf : s2.refs = s.refs := hf.2.1
  refine ⟨by first | rfl | trivial, ?_, ?_, ?_⟩
  · exact rolled_restores s _ hv hrf
      (by intro p; exact congrArg (fun t => Tree.get t p) (treeOf_congr s _ s.head hc)) rfl
  · simpa [rolled] using hc
  · exact rolled_valid s _ hv (Or.inl hc) rfl

theorem lastWrite_mem (ws : List (P × Bytes)) (q : P) (c : Bytes) (h : lastWrite ws q = some c) :
    (q, c) ∈ ws := by
  induction ws with
  | nil => simp [lastWrite] at h
  | cons w ws ih =>
    obtain ⟨p, b⟩ := w
    simp only [lastWrite] at h
    cases hl : lastWrite ws q with
    | some c' =>
      rw [hl] at h
      simp only [Option.some.injEq] at h
      subst h
      exact List.mem_cons_of_mem _ (ih hl)
    | none =>
      rw [hl] at h
      simp only at h
      split at h
      · rename_i hq
        simp only [Option.some.injEq] at h
        subst h; subst hq
        exact List.mem_cons_self
      · cases h

/-- the index after a body of writes, against the tree of HEAD -/
theorem writes_index_get (ws : List (P × Bytes)) (s : St P) (hv : Valid s) (q : P) :
    (applyWrites ws s.index).get q = match lastWrite ws q with
      | some c => some c
      | none => (treeOf s s.head).get q := by
  rw [applyWrites_get]
  cases lastWrite ws q with
  | some c => rfl
  | none => exact hv.2.2.1 q

/-- state of the work tree right before `__exit__` for a body of writes -/
theorem body_writes (rev : Str) (ws : List (P × Bytes)) (s : St P) :
    runBody none (objectLike rev) (writeOps ws) (entered s) = (afterWrites ws (entered s), none) :=
  runBody_writes _ ws _

/-- **unchanged**: every written file already has these bytes in HEAD, `ignore_empty` -/
theorem empty_no_commit' (rev : Str) (o : Opts) (ws : List (P × Bytes)) (s : St P) (hv : Valid s)
    (hobj : objectLike (o.remoteBranch.getD rev) = false) (hi : o.ignoreEmpty = true)
    (hsame : ∀ w ∈ ws, (treeOf s s.head).get w.1 = some w.2) :
    (transaction none rev o (writeOps ws) s).2 = none ∧
    Restored s (transaction none rev o (writeOps ws) s).1 ∧
    (transaction none rev o (writeOps ws) s).1.commits = s.commits ∧
    Valid (transaction none rev o (writeOps ws) s).1 := by
  rw [transaction_none rev o _ s hobj hv.1, body_writes]
  obtain ⟨h1, h2, h3, h4, h5, h6⟩ := afterWrites_frame ws (entered s)
  have hidx : (afterWrites ws (entered s)).index = applyWrites ws s.index := h5
  have hs : (afterWrites ws (entered s)).index.same (treeOf (afterWrites ws (entered s)) s.head) = true := by
    rw [Tree.same_iff]
    intro q
    rw [hidx, writes_index_get ws s hv q, treeOf_congr s _ s.head h1]
    cases hl : lastWrite ws q with
    | some c => exact (hsame (q, c) (lastWrite_mem ws q c hl)).symm
    | none => rfl
  simp only [finish_none_empty o _ s.head _ hi hs, rollback_none]
  refine ⟨by first | rfl | trivial, ?_, ?_, ?_⟩
  · exact rolled_restores s _ hv h2
      (by intro p; exact congrArg (fun t => Tree.get t p) (treeOf_congr s _ s.head h1)) rfl
  · exact h1
  · exact rolled_valid s _ hv (Or.inl h1) rfl

/-- **dry run** that would have committed -/
theorem dry_run_restores' (rev : Str) (o : Opts) (ws : List (P × Bytes)) (s : St P) (hv : Valid s)
    (hobj : objectLike (o.remoteBranch.getD rev) = false) (hd : o.dry = true)
    (hn : o.ignoreEmpty = false ∨ (applyWrites ws s.index).same (treeOf s s.head) = false) :
    (transaction none rev o (writeOps ws) s).2 = none ∧
    Restored s (transaction none rev o (writeOps ws) s).1 ∧
    (∃ k, (transaction none rev o (writeOps ws) s).1.commits = s.commits ++ [k]) ∧
    Valid (transaction none rev o (writeOps ws) s).1 := by
  rw [transaction_none rev o _ s hobj hv.1, body_writes]
  obtain ⟨h1, h2, h3, h4, h5, h6⟩ := afterWrites_frame ws (entered s)
  have hn' : o.ignoreEmpty = false ∨
      (afterWrites ws (entered s)).index.same (treeOf (afterWrites ws (entered s)) s.head) = false := by
    rcases hn with hn | hn
    · exact Or.inl hn
    · right; rw [h5, treeOf_congr s _ s.head h1]; exact hn
  obtain ⟨s', hf, hc, hr, ht⟩ := finish_none_dry o (qualify (o.remoteBranch.getD rev)) s.head _ hd hn'
  simp only [hf, rollback_none]
  have hc' : s'.commits = s.commits ++ [newCommit o s.head (afterWrites ws (entered s))] := by rw [hc, h1]; rfl
  refine ⟨by first | rfl | trivial, ?_, ⟨_, by simpa [rolled] using hc'⟩, ?_⟩
  · refine rolled_restores s _ hv (by simp [hr, h2]; rfl) ?_ rfl
    intro p
    exact congrArg (fun t => Tree.get t p) (treeOf_append_old s _ _ s.head hv.2.1 hc')
  · exact rolled_valid s _ hv (Or.inr ⟨_, by simpa using hc'⟩) rfl

/-- **commit** -/
theorem commit_spec' (rev : Str) (o : Opts) (ws : List (P × Bytes)) (s : St P) (hv : Valid s)
    (hobj : objectLike (o.remoteBranch.getD rev) = false) (hd : o.dry = false)
    (hn : o.ignoreEmpty = false ∨ (applyWrites ws s.index).same (treeOf s s.head) = false) :
    (transaction none rev o (writeOps ws) s).2 = none ∧
    (transaction none rev o (writeOps ws) s).1.commits =
      s.commits ++ [{ parent := some s.head, tree := applyWrites ws s.index, info := o.info }] ∧
    (transaction none rev o (writeOps ws) s).1.refs =
      setRef s.refs (qualify (o.remoteBranch.getD rev)) s.commits.length ∧
    (transaction none rev o (writeOps ws) s).1.head = s.commits.length ∧
    Valid (transaction none rev o (writeOps ws) s).1 := by
  rw [transaction_none rev o _ s hobj hv.1, body_writes]
  obtain ⟨h1, h2, h3, h4, h5, h6⟩ := afterWrites_frame ws (entered s)
  have hn' : o.ignoreEmpty = false ∨
      (afterWrites ws (entered s)).index.same (treeOf (afterWrites ws (entered s)) s.head) = false := by
    rcases hn with hn | hn
    · exact Or.inl hn
    · right; rw [h5, treeOf_congr s _ s.head h1]; exact hn
  obtain ⟨s', hf, hc, hr, hh, hi, hfl, ht⟩ :=
    finish_none_commit o (qualify (o.remoteBranch.getD rev)) s.head _ hd hn'
  simp only [hf]
  have hnc : newCommit o s.head (afterWrites ws (entered s)) =
      { parent := some s.head, tree := applyWrites ws s.index, info := o.info } := by
    simp only [newCommit, h5]; rfl
  have hc' : s'.commits = s.commits ++ [{ parent := some s.head, tree := applyWrites ws s.index, info := o.info }] := by
    rw [hc, hnc, h1]; rfl
  have hlen : (afterWrites ws (entered s)).commits.length = s.commits.length := by rw [h1]; rfl
  refine ⟨by first | rfl | trivial, hc', by rw [hr, h2, hlen]; rfl, by rw [hh, hlen], rfl, ?_, ?_, ?_⟩
  · simp only [hh, hlen, hc']; simp
  · intro p
    simp only [hh, hlen, hi, h5]
    rw [treeOf_append_new s _ _ (by simpa using hc')]
    rfl
  · intro p
    simp only [hfl, hi, h5]
    rw [h6 p, applyWrites_get]
    cases lastWrite ws p with
    | some c => rfl
    | none => exact hv.2.2.2 p

/-- if some written file differs from HEAD's, the new index is not the old tree -/
theorem changed_not_same (ws : List (P × Bytes)) (s : St P) (p : P) (b : Bytes)
    (hl : lastWrite ws p = some b) (hne : (treeOf s s.head).get p ≠ some b) :
    (applyWrites ws s.index).same (treeOf s s.head) = false := by
  cases h : (applyWrites ws s.index).same (treeOf s s.head) with
  | false => rfl
  | true =>
    exfalso
    have := (Tree.same_iff _ _).mp h p
    rw [applyWrites_get, hl] at this
    exact hne this.symm

/-! ## refusals -/

/-- object-like target: refused before anything happens, whatever fails -/
theorem objectlike_refused (fault : Option Nat) (rev : Str) (o : Opts) (body : List (Op P)) (s : St P)
    (hobj : objectLike (o.remoteBranch.getD rev) = true) :
    (transaction fault rev o body s).2 = some .objectlike ∧
    (transaction fault rev o body s).1.commits = s.commits ∧ (transaction fault rev o body s).1.refs = s.refs ∧
    (transaction fault rev o body s).1.head = s.head ∧ (transaction fault rev o body s).1.index = s.index ∧
    (transaction fault rev o body s).1.files = s.files ∧ (transaction fault rev o body s).1.txnOpen = s.txnOpen := by
  simp only [transaction, hobj, if_true]
  split <;> simp [call]

theorem takeWhile_all {α : Type} (p : α → Bool) : ∀ l : List α, (∀ c ∈ l, p c = true) → l.takeWhile p = l
  | [], _ => rfl
  | a :: as, h => by
    simp only [List.takeWhile, h a (by simp)]
    rw [takeWhile_all p as (fun c hc => h c (by simp [hc]))]

theorem lastComp_noslash (s : Str) (h : '/' ∉ s) : lastComp s = s := by
  have : s.reverse.takeWhile (· ≠ '/') = s.reverse := by
    apply takeWhile_all
    intro c hc
    simp only [List.mem_reverse] at hc
    simp only [ne_eq, decide_not, Bool.not_eq_eq_eq_not, Bool.not_true, decide_eq_false_iff_not]
    intro hh; rw [hh] at hc; exact h hc
  simp only [lastComp, this, List.reverse_reverse]

/-- a commit hash (≥ 4 hex digits, no slash) is object-like: committing needs `remote_branch` -/
theorem hex_objectLike (s : Str) (h4 : 4 ≤ s.length) (hx : s.all isHex = true) (hs : '/' ∉ s) :
    objectLike s = true := by
  simp [objectLike, lastComp_noslash s hs, h4, hx]

/-! ## any failing git command -/

theorem rollback_keeps (fault : Option Nat) (old : Nat) (e : Option Err) (s : St P) :
    (rollback fault old e s).1.refs = s.refs ∧ (rollback fault old e s).1.commits = s.commits ∧
    (rollback fault old e s).1.txnOpen = s.txnOpen := by
  simp only [rollback, call]
  by_cases h1 : fault = some s.calls <;> by_cases h2 : fault = some (s.calls + 1) <;>
    simp [h1, h2, resetHard, cleanAll]

theorem finish_keeps (fault : Option Nat) (o : Opts) (target : Str) (old : Nat) (s : St P) :
    (finish fault o target old s).1.txnOpen = s.txnOpen ∧
    ((finish fault o target old s).2.2 = false → (finish fault o target old s).1.refs = s.refs) ∧
    ((finish fault o target old s).2.2 = true → (finish fault o target old s).2.1 = none ∧ o.dry = false ∧
      (finish fault o target old s).1.refs = setRef s.refs target s.commits.length ∧
      (finish fault o target old s).1.head = s.commits.length) ∧
    ((finish fault o target old s).1.commits = s.commits ∨
      ∃ k, (finish fault o target old s).1.commits = s.commits ++ [k]) := by
  simp only [finish, call]
  by_cases h0 : fault = some s.calls <;> by_cases h1 : fault = some (s.calls + 1) <;>
  by_cases h2 : fault = some (s.calls + 2) <;> by_cases h3 : fault = some (s.calls + 3) <;>
  by_cases h4 : fault = some (s.calls + 4) <;>
  cases hi : o.ignoreEmpty <;> cases hd : o.dry <;>
  cases hs : s.index.same (treeOf s old) <;>
  simp_all [treeOf]

/-- Whatever git command fails (or none), whatever the body does: the handler's transaction is
closed afterwards, and the refs are untouched unless the transaction reports success, in which
case exactly the target ref was set to the new commit. -/
theorem txn_closed_refs_safe (fault : Option Nat) (rev : Str) (o : Opts) (body : List (Op P)) (s : St P)
    (ho : s.txnOpen = false) :
    (transaction fault rev o body s).1.txnOpen = false ∧
    ((transaction fault rev o body s).1.refs = s.refs ∨
      ((transaction fault rev o body s).2 = none ∧ o.dry = false ∧
        (transaction fault rev o body s).1.refs =
          setRef s.refs (qualify (o.remoteBranch.getD rev)) s.commits.length)) := by
  by_cases hobj : objectLike (o.remoteBranch.getD rev) = true
  · have := objectlike_refused fault rev o body s hobj
    exact ⟨by rw [this.2.2.2.2.2.2, ho], Or.inl this.2.2.1⟩
  · simp only [Bool.not_eq_true] at hobj
    have hne : o.remoteBranch.getD rev ≠ headStr := by
      intro h; rw [h, objectLike_head] at hobj; cases hobj
    simp only [transaction, hne, hobj, if_false, Bool.false_eq_true]
    by_cases hf0 : fault = some 0
    · simp [call, hf0, ho]
    · simp only [call, hf0, decide_false, ho, Bool.false_eq_true, if_false]
      have hfr := runBody_frame fault (objectLike rev) body
        { commits := s.commits, refs := s.refs, head := s.head, index := s.index, files := s.files,
          txnOpen := true, calls := 0 + 1, trace := [Cmd.revParseHead] }
      rcases hr : runBody fault (objectLike rev) body
        { commits := s.commits, refs := s.refs, head := s.head, index := s.index, files := s.files,
          txnOpen := true, calls := 0 + 1, trace := [Cmd.revParseHead] } with ⟨s2, _ | e⟩
      · rw [hr] at hfr
        simp only
        have hk := finish_keeps fault o (qualify (o.remoteBranch.getD rev)) s.head s2
        rcases hfin : finish fault o (qualify (o.remoteBranch.getD rev)) s.head s2 with ⟨s3, e3, _ | _⟩
        · rw [hfin] at hk
          simp only
          have := rollback_keeps fault s.head e3 { s3 with txnOpen := false }
          exact ⟨this.2.2, Or.inl (by rw [this.1]; simp only; rw [hk.2.1 rfl]; exact hfr.2.1)⟩
        · rw [hfin] at hk
          simp only
          obtain ⟨h1, h2, h3, _⟩ := hk.2.2.1 rfl
          refine ⟨by first | rfl | trivial, Or.inr ⟨h1, h2, ?_⟩⟩
          simp only at h3 ⊢
          rw [h3, hfr.2.1, hfr.1]
      · rw [hr] at hfr
        simp only
        have := rollback_keeps fault s.head (some e) { s2 with txnOpen := false }
        exact ⟨this.2.2, Or.inl (by rw [this.1]; exact hfr.2.1)⟩

theorem rollback_cases (fault : Option Nat) (old : Nat) (e : Option Err) (s : St P) :
    rollback fault old e s = (rolled old s, e) ∨
    ((rollback fault old e s).2 = some .gitfail ∧
      ((rollback fault old e s).1.trace.head? = some .resetHard ∨
       (rollback fault old e s).1.trace.head? = some .clean)) := by
  by_cases h1 : fault = some s.calls
  · right; simp [rollback, call, h1]
  · by_cases h2 : fault = some (s.calls + 1)
    · right; simp [rollback, call, h1, h2, resetHard]
    · left
      rw [← rollback_none]
      simp [rollback, call, h1, h2, resetHard]

/-- Whatever git command fails, whatever the body does: unless the transaction commits, the
repository and the work tree are restored — except when the roll-back command itself is the one
that is refused. -/
theorem restored_unless_committed (fault : Option Nat) (rev : Str) (o : Opts) (body : List (Op P)) (s : St P)
    (hv : Valid s) (hobj : objectLike (o.remoteBranch.getD rev) = false) :
    ((transaction fault rev o body s).2 = none ∧ o.dry = false ∧
      (transaction fault rev o body s).1.refs =
        setRef s.refs (qualify (o.remoteBranch.getD rev)) s.commits.length) ∨
    Restored s (transaction fault rev o body s).1 ∨
    ((transaction fault rev o body s).2 = some .gitfail ∧
      ((transaction fault rev o body s).1.trace.head? = some .resetHard ∨
       (transaction fault rev o body s).1.trace.head? = some .clean)) := by
  have ho := hv.1
  have hne : o.remoteBranch.getD rev ≠ headStr := by
    intro h; rw [h, objectLike_head] at hobj; cases hobj
  simp only [transaction, hne, hobj, if_false, Bool.false_eq_true]
  by_cases hf0 : fault = some 0
  · right; left
    simp [call, hf0, Restored, ho]
  · simp only [call, hf0, decide_false, ho, Bool.false_eq_true, if_false]
    have hfr := runBody_frame fault (objectLike rev) body
      { commits := s.commits, refs := s.refs, head := s.head, index := s.index, files := s.files,
        txnOpen := true, calls := 0 + 1, trace := [Cmd.revParseHead] }
    rcases hr : runBody fault (objectLike rev) body
      { commits := s.commits, refs := s.refs, head := s.head, index := s.index, files := s.files,
        txnOpen := true, calls := 0 + 1, trace := [Cmd.revParseHead] } with ⟨s2, _ | e⟩
    · rw [hr] at hfr
      simp only
      have hk := finish_keeps fault o (qualify (o.remoteBranch.getD rev)) s.head s2
      rcases hfin : finish fault o (qualify (o.remoteBranch.getD rev)) s.head s2 with ⟨s3, e3, _ | _⟩
      · rw [hfin] at hk
        simp only
        rcases rollback_cases fault s.head e3 { s3 with txnOpen := false } with hc | hc
        · right; left
          rw [hc]
          refine rolled_restores s _ hv (by simp only; rw [hk.2.1 rfl]; exact hfr.2.1) ?_ rfl
          intro p
          rcases hk.2.2.2 with h | ⟨k, h⟩
          · exact congrArg (fun t => Tree.get t p) (treeOf_congr s _ s.head (h.trans hfr.1))
          · exact congrArg (fun t => Tree.get t p)
              (treeOf_append_old s _ k s.head hv.2.1 (by simp only at h ⊢; rw [h, hfr.1]))
        · right; right; exact hc
      · rw [hfin] at hk
        left
        obtain ⟨h1, h2, h3, _⟩ := hk.2.2.1 rfl
        refine ⟨h1, h2, ?_⟩
        simp only at h3 ⊢
        rw [h3, hfr.2.1, hfr.1]
    · rw [hr] at hfr
      simp only
      rcases rollback_cases fault s.head (some e) { s2 with txnOpen := false } with hc | hc
      · right; left
        rw [hc]
        exact rolled_restores s _ hv hfr.2.1
          (by intro p; exact congrArg (fun t => Tree.get t p) (treeOf_congr s _ s.head hfr.1)) rfl
      · right; right; exact hc

end Capella.Git
