import Capella.Model.Index

namespace Capella.Index

/-! ### dict lemmas -/

theorem dget_dset {β} (l : List (String × β)) (k k' : String) (v : β) :
    dget (dset l k v) k' = if k' = k then some v else dget l k' := by
  induction l with
  | nil =>
    simp only [dset, dget]
    by_cases h : k = k'
    · subst h; simp
    · have : ¬ k' = k := fun h' => h h'.symm
      simp [h, this]
  | cons p rest ih =>
    obtain ⟨pk, pv⟩ := p
    simp only [dset]
    by_cases h1 : pk = k
    · subst h1
      simp only [if_true, dget]
      by_cases h2 : pk = k'
      · subst h2; simp
      · have : ¬ k' = pk := fun h' => h2 h'.symm
        simp [h2, this]
    · simp only [h1, if_false, dget]
      by_cases h2 : pk = k'
      · subst h2
        have : ¬ pk = k := h1
        simp [this]
      · simp only [h2, if_false]; exact ih

theorem dget_ddel {β} (l : List (String × β)) (k k' : String) :
    dget (ddel l k) k' = if k' = k then none else dget l k' := by
  induction l with
  | nil => simp [ddel, dget]
  | cons p rest ih =>
    obtain ⟨pk, pv⟩ := p
    unfold ddel at ih ⊢
    simp only [List.filter_cons]
    by_cases h1 : pk = k
    · subst h1
      simp only [ne_eq, not_true_eq_false, decide_false, Bool.false_eq_true, if_false]
      rw [ih]
      by_cases h2 : k' = pk
      · simp [h2]
      · have : ¬ pk = k' := fun h' => h2 h'.symm
        simp [h2, dget, this]
    · simp only [ne_eq, h1, not_false_eq_true, decide_true, if_true, dget]
      by_cases h2 : pk = k'
      · subst h2; simp [h1]
      · simp only [h2, if_false]; exact ih

theorem dget_foldl_ddel {β} (ks : List String) (l : List (String × β)) (k' : String) :
    dget (ks.foldl ddel l) k' = if k' ∈ ks then none else dget l k' := by
  induction ks generalizing l with
  | nil => simp
  | cons k ks ih =>
    simp only [List.foldl_cons, ih, dget_ddel, List.mem_cons]
    by_cases h1 : k' ∈ ks
    · simp [h1]
    · by_cases h2 : k' = k <;> simp [h1, h2]

/-! ### scanLookup -/

theorem scanLookup_append (a b : List Entry) (k : String) :
    scanLookup (a ++ b) k = match scanLookup b k with
      | some n => some n
      | none => scanLookup a k := by
  induction a with
  | nil =>
    simp only [List.nil_append, scanLookup]
    cases scanLookup b k <;> rfl
  | cons e es ih =>
    simp only [List.cons_append, scanLookup, ih]
    cases hb : scanLookup b k with
    | some n => simp
    | none => simp

theorem scanLookup_none_iff (t : List Entry) (k : String) :
    scanLookup t k = none ↔ k ∉ scanIds t := by
  induction t with
  | nil => simp [scanLookup, scanIds]
  | cons e es ih =>
    simp only [scanLookup, scanIds, List.flatMap_cons, List.mem_append, not_or]
    unfold scanIds at ih
    cases h : scanLookup es k with
    | some n =>
      have hmem : k ∈ List.flatMap (·.ids) es := by
        apply Classical.byContradiction
        intro hn
        have := ih.mpr hn
        rw [h] at this
        cases this
      simp [hmem]
    | none =>
      have h' := ih.mp h
      by_cases hk : k ∈ e.ids <;> simp [hk, h']

theorem scanLookup_some_mem (t : List Entry) (k : String) (n : Nat)
    (h : scanLookup t k = some n) : ∃ e ∈ t, e.nid = n ∧ k ∈ e.ids := by
  induction t with
  | nil => simp [scanLookup] at h
  | cons e es ih =>
    simp only [scanLookup] at h
    cases hs : scanLookup es k with
    | some m =>
      rw [hs] at h
      simp only [Option.some.injEq] at h
      subst h
      obtain ⟨e', he', h1, h2⟩ := ih hs
      exact ⟨e', List.mem_cons_of_mem _ he', h1, h2⟩
    | none =>
      rw [hs] at h
      simp only at h
      by_cases hk : k ∈ e.ids
      · simp only [hk, if_true, Option.some.injEq] at h
        exact ⟨e, List.mem_cons_self, h, hk⟩
      · simp [hk] at h

/-- with unique ids, `scanLookup` finds exactly the entry carrying the id -/
theorem scanLookup_of_mem (t : List Entry) (hn : (scanIds t).Nodup) (e : Entry) (he : e ∈ t)
    (k : String) (hk : k ∈ e.ids) : scanLookup t k = some e.nid := by
  induction t with
  | nil => simp at he
  | cons a as ih =>
    simp only [scanIds, List.flatMap_cons] at hn
    rw [List.nodup_append] at hn
    obtain ⟨_, hn2, hdisj⟩ := hn
    simp only [scanLookup]
    rcases List.mem_cons.mp he with rfl | he'
    · have : k ∉ scanIds as := fun hm => (hdisj k hk k hm) rfl
      rw [(scanLookup_none_iff as k).mpr this]
      simp [hk]
    · rw [ih hn2 he']

theorem scanLookup_filter (t : List Entry) (p : Entry → Bool) (k : String)
    (h : ∀ e ∈ t, p e = false → k ∉ e.ids) :
    scanLookup (t.filter p) k = scanLookup t k := by
  induction t with
  | nil => rfl
  | cons e es ih =>
    have ih' := ih (fun e' he' => h e' (List.mem_cons_of_mem _ he'))
    simp only [List.filter_cons]
    cases hp : p e with
    | true => simp only [if_true, scanLookup, ih']
    | false =>
      have : k ∉ e.ids := h e List.mem_cons_self hp
      simp only [Bool.false_eq_true, if_false, scanLookup, ih', this]
      cases scanLookup es k <;> rfl

theorem scanIds_filter_sub (t : List Entry) (p : Entry → Bool) :
    ∀ k ∈ scanIds (t.filter p), k ∈ scanIds t := by
  intro k hk
  simp only [scanIds, List.mem_flatMap, List.mem_filter] at hk ⊢
  obtain ⟨e, ⟨he, _⟩, hk⟩ := hk
  exact ⟨e, he, hk⟩

/-! ### idcache_index -/

theorem indexIds_get (ign : Bool) (nid : Nat) (ks : List String) (idc idc' : List (String × Option Nat))
    (h : indexIds ign nid ks idc = .ok idc') (k : String) :
    dget idc' k = if k ∈ ks then some (some nid) else dget idc k := by
  induction ks generalizing idc idc' with
  | nil => simp only [indexIds, Except.ok.injEq] at h; subst h; simp
  | cons a as ih =>
    have key : ∀ idc1, indexIds ign nid as (dset idc a (some nid)) = .ok idc1 →
        dget idc1 k = if k ∈ a :: as then some (some nid) else dget idc k := by
      intro idc1 h1
      rw [ih _ _ h1, dget_dset]
      by_cases h2 : k ∈ as
      · simp [h2]
      · by_cases h3 : k = a <;> simp [h2, h3]
    unfold indexIds at h
    split at h
    · split at h
      · cases h
      · exact key _ h
    · exact key _ h

def fragGetAfter (seg : List Entry) (old : Option Nat) (k : String) : Option Nat :=
  match scanLookup seg k with
  | some n => some n
  | none => old

theorem indexEntry_spec (f f' : Frag) (e : Entry) (h : indexEntry f e = .ok f') :
    f'.tree = f.tree ∧ f'.ignDups = f.ignDups ∧ f'.name = f.name ∧ f'.semantic = f.semantic ∧
    (∀ k, fragGet f' k = if k ∈ e.ids then some e.nid else fragGet f k) ∧
    (∀ x n, (x, n) ∈ f'.xtc ↔ ((x, n) ∈ f.xtc ∨ (e.xt = some x ∧ e.nid = n))) := by
  unfold indexEntry at h
  simp only [bind, Except.bind, pure, Except.pure] at h
  split at h
  · cases h
  · rename_i idc' hidc
    simp only [Except.ok.injEq] at h
    subst h
    refine ⟨rfl, rfl, rfl, rfl, ?_, ?_⟩
    · intro k
      simp only [fragGet, indexIds_get _ _ _ _ _ hidc k]
      by_cases hk : k ∈ e.ids <;> simp [hk]
    · intro x n
      cases hx : e.xt with
      | none => simp
      | some y =>
        simp only [xtcAdd, Option.some.injEq]
        split
        · rename_i hm
          constructor
          · intro h; exact Or.inl h
          · rintro (h | ⟨rfl, rfl⟩)
            · exact h
            · exact hm
        · simp only [List.mem_append, List.mem_singleton, Prod.mk.injEq]
          constructor
          · rintro (h | ⟨rfl, rfl⟩)
            · exact Or.inl h
            · exact Or.inr ⟨rfl, rfl⟩
          · rintro (h | ⟨rfl, rfl⟩)
            · exact Or.inl h
            · exact Or.inr ⟨rfl, rfl⟩

theorem idcacheIndex_spec (seg : List Entry) (f f' : Frag) (h : idcacheIndex f seg = .ok f') :
    f'.tree = f.tree ∧ f'.ignDups = f.ignDups ∧ f'.name = f.name ∧ f'.semantic = f.semantic ∧
    (∀ k, fragGet f' k = fragGetAfter seg (fragGet f k) k) ∧
    (∀ x n, (x, n) ∈ f'.xtc ↔ ((x, n) ∈ f.xtc ∨ ∃ e ∈ seg, e.xt = some x ∧ e.nid = n)) := by
  induction seg generalizing f with
  | nil =>
    simp only [idcacheIndex, Except.ok.injEq] at h; subst h
    refine ⟨rfl, rfl, rfl, rfl, ?_, ?_⟩
    · intro k; simp [fragGetAfter, scanLookup]
    · intro x n; simp
  | cons e es ih =>
    simp only [idcacheIndex, bind, Except.bind] at h
    split at h
    · cases h
    · rename_i f1 h1
      obtain ⟨t1, i1, n1, s1, g1, x1⟩ := indexEntry_spec f f1 e h1
      obtain ⟨t2, i2, n2, s2, g2, x2⟩ := ih f1 h
      refine ⟨t2.trans t1, i2.trans i1, n2.trans n1, s2.trans s1, ?_, ?_⟩
      · intro k
        rw [g2 k, g1 k]
        simp only [fragGetAfter, scanLookup]
        cases scanLookup es k with
        | some n => rfl
        | none =>
          by_cases hk : k ∈ e.ids <;> simp [hk]
      · intro x n
        rw [x2 x n, x1 x n]
        simp only [List.mem_cons, exists_eq_or_imp]
        constructor
        · rintro ((h | h) | h)
          · exact Or.inl h
          · exact Or.inr (Or.inl h)
          · exact Or.inr (Or.inr h)
        · rintro (h | h | h)
          · exact Or.inl (Or.inl h)
          · exact Or.inl (Or.inr h)
          · exact Or.inr h

/-! ### idcache_remove -/

theorem removeEntry_spec (f f' : Frag) (e : Entry) (h : removeEntry f e = .ok f') :
    f'.tree = f.tree ∧ f'.ignDups = f.ignDups ∧ f'.name = f.name ∧ f'.semantic = f.semantic ∧
    (∀ k, fragGet f' k = if k ∈ e.ids then none else fragGet f k) ∧
    (∀ x n, (x, n) ∈ f'.xtc ↔ ((x, n) ∈ f.xtc ∧ ¬ (e.xt = some x ∧ e.nid = n))) := by
  unfold removeEntry at h
  simp only [Except.ok.injEq] at h
  subst h
  refine ⟨rfl, rfl, rfl, rfl, ?_, ?_⟩
  · intro k
    simp only [fragGet, dget_foldl_ddel]
    by_cases hk : k ∈ e.ids <;> simp [hk]
  · intro x n
    cases hxt : e.xt with
    | none => simp
    | some y =>
      simp only [List.mem_filter, ne_eq, decide_not, Bool.not_eq_true', decide_eq_false_iff_not,
        Prod.mk.injEq, Option.some.injEq]
      constructor
      · rintro ⟨h1, h2⟩
        exact ⟨h1, fun ⟨a, b⟩ => h2 ⟨a.symm, b.symm⟩⟩
      · rintro ⟨h1, h2⟩
        exact ⟨h1, fun ⟨a, b⟩ => h2 ⟨a.symm, b.symm⟩⟩

theorem idcacheRemove_spec (seg : List Entry) (f f' : Frag) (h : idcacheRemove f seg = .ok f') :
    f'.tree = f.tree ∧ f'.ignDups = f.ignDups ∧ f'.name = f.name ∧ f'.semantic = f.semantic ∧
    (∀ k, fragGet f' k = if k ∈ scanIds seg then none else fragGet f k) ∧
    (∀ x n, (x, n) ∈ f'.xtc ↔ ((x, n) ∈ f.xtc ∧ ¬ ∃ e ∈ seg, e.xt = some x ∧ e.nid = n)) := by
  induction seg generalizing f with
  | nil =>
    simp only [idcacheRemove, Except.ok.injEq] at h; subst h
    refine ⟨rfl, rfl, rfl, rfl, ?_, ?_⟩
    · intro k; simp [scanIds]
    · intro x n; simp
  | cons e es ih =>
    simp only [idcacheRemove, bind, Except.bind] at h
    split at h
    · cases h
    · rename_i f1 h1
      obtain ⟨t1, i1, n1, s1, g1, x1⟩ := removeEntry_spec f f1 e h1
      obtain ⟨t2, i2, n2, s2, g2, x2⟩ := ih f1 h
      refine ⟨t2.trans t1, i2.trans i1, n2.trans n1, s2.trans s1, ?_, ?_⟩
      · intro k
        rw [g2 k, g1 k]
        simp only [scanIds, List.flatMap_cons, List.mem_append]
        by_cases h1 : k ∈ e.ids
        · simp [h1]
        · by_cases h2 : k ∈ List.flatMap (·.ids) es
          · simp [h1, h2]
          · simp [h1, h2]
      · intro x n
        rw [x2 x n, x1 x n]
        simp only [List.mem_cons, exists_eq_or_imp, not_or]
        constructor
        · rintro ⟨⟨a, b⟩, c⟩; exact ⟨a, b, c⟩
        · rintro ⟨a, b, c⟩; exact ⟨⟨a, b⟩, c⟩

theorem nodup_map_inj (t : List Entry) (h : (t.map (·.nid)).Nodup) (a b : Entry)
    (ha : a ∈ t) (hb : b ∈ t) (hab : a.nid = b.nid) : a = b := by
  induction t with
  | nil => simp at ha
  | cons x xs ih =>
    simp only [List.map_cons, List.nodup_cons, List.mem_map, not_exists, not_and] at h
    rcases List.mem_cons.mp ha with rfl | ha'
    · rcases List.mem_cons.mp hb with rfl | hb'
      · rfl
      · exact absurd hab.symm (h.1 b hb')
    · rcases List.mem_cons.mp hb with rfl | hb'
      · exact absurd hab (h.1 a ha')
      · exact ih h.2 ha' hb'

/-! ### the invariant -/

/-- the id index answers exactly like a scan of the tree (reserved keys answer "absent") -/
def IdConsistent (f : Frag) : Prop := ∀ k, fragGet f k = scanLookup f.tree k

/-- the type index is exactly the set of typed elements of the tree -/
def XtConsistent (f : Frag) : Prop :=
  ∀ x n, (x, n) ∈ f.xtc ↔ ∃ e ∈ f.tree, e.xt = some x ∧ e.nid = n

def Consistent (f : Frag) : Prop := IdConsistent f ∧ XtConsistent f

theorem rebuild_consistent (f f' : Frag) (h : idcacheRebuild f = .ok f') :
    Consistent f' ∧ f'.tree = f.tree := by
  unfold idcacheRebuild at h
  obtain ⟨t, _, _, _, g, x⟩ := idcacheIndex_spec _ _ _ h
  simp only at t
  refine ⟨⟨?_, ?_⟩, t⟩
  · intro k
    rw [g k, t]
    simp only [fragGetAfter, fragGet, dget, Option.join_none]
    cases scanLookup f.tree k <;> rfl
  · intro x' n
    rw [x x' n, t]
    simp

theorem attach_consistent (f f' : Frag) (pos : Nat) (seg : List Entry)
    (hc : Consistent f) (hfresh : ∀ k ∈ scanIds seg, k ∉ scanIds f.tree)
    (h : attach f pos seg = .ok f') :
    Consistent f' ∧ f'.tree = f.tree.take pos ++ seg ++ f.tree.drop pos := by
  unfold attach at h
  obtain ⟨t, _, _, _, g, x⟩ := idcacheIndex_spec _ _ _ h
  simp only [insertSeg] at t g x
  refine ⟨⟨?_, ?_⟩, t⟩
  · intro k
    rw [g k, t]
    have hfk : fragGet { f with tree := f.tree.take pos ++ seg ++ f.tree.drop pos } k = fragGet f k := rfl
    rw [hfk, hc.1 k]
    simp only [fragGetAfter, scanLookup_append]
    cases hs : scanLookup seg k with
    | some n =>
      obtain ⟨e, he, _, hk⟩ := scanLookup_some_mem _ _ _ hs
      have hkseg : k ∈ scanIds seg := by
        simp only [scanIds, List.mem_flatMap]; exact ⟨e, he, hk⟩
      have hnot := hfresh k hkseg
      have hd : scanLookup (f.tree.drop pos) k = none := by
        rw [scanLookup_none_iff]
        intro hm
        apply hnot
        simp only [scanIds, List.mem_flatMap] at hm ⊢
        obtain ⟨e', he', hk'⟩ := hm
        exact ⟨e', List.mem_of_mem_drop he', hk'⟩
      simp [hd]
    | none =>
      have : scanLookup f.tree k = scanLookup (f.tree.take pos ++ f.tree.drop pos) k := by
        rw [List.take_append_drop]
      rw [this, scanLookup_append]
  · intro x' n
    rw [x x' n, t]
    have hx : (x', n) ∈ ({ f with tree := f.tree.take pos ++ seg ++ f.tree.drop pos } : Frag).xtc ↔ (x', n) ∈ f.xtc := Iff.rfl
    rw [hx, hc.2 x' n]
    constructor
    · rintro (⟨e, he, h1, h2⟩ | ⟨e, he, h1, h2⟩)
      · refine ⟨e, ?_, h1, h2⟩
        rw [← List.take_append_drop pos f.tree] at he
        simp only [List.mem_append] at he ⊢
        rcases he with he | he
        · exact Or.inl (Or.inl he)
        · exact Or.inr he
      · exact ⟨e, by simp [he], h1, h2⟩
    · rintro ⟨e, he, h1, h2⟩
      simp only [List.mem_append] at he
      rcases he with (he | he) | he
      · exact Or.inl ⟨e, List.mem_of_mem_take he, h1, h2⟩
      · exact Or.inr ⟨e, he, h1, h2⟩
      · exact Or.inl ⟨e, List.mem_of_mem_drop he, h1, h2⟩

/-- entries of `seg` are entries of the tree, identified by `nid` -/
def SegOf (seg t : List Entry) : Prop := ∀ e ∈ seg, e ∈ t

theorem detach_consistent (f f' : Frag) (seg : List Entry)
    (hc : Consistent f) (hids : (scanIds f.tree).Nodup) (hnids : (f.tree.map (·.nid)).Nodup)
    (hseg : SegOf seg f.tree)
    (h : detach f seg = .ok f') :
    Consistent f' ∧ f'.tree = f.tree.filter (fun e => !(seg.any (·.nid == e.nid))) := by
  unfold detach at h
  simp only [bind, Except.bind, pure, Except.pure] at h
  split at h
  · cases h
  · rename_i f1 h1
    simp only [Except.ok.injEq] at h
    subst h
    obtain ⟨t, _, _, _, g, x⟩ := idcacheRemove_spec _ _ _ h1
    have htree : (removeSeg f1 seg).tree = f.tree.filter (fun e => !(seg.any (·.nid == e.nid))) := by
      simp [removeSeg, t]
    -- an entry of the tree whose nid is in seg is an entry of seg
    have hin : ∀ e ∈ f.tree, seg.any (·.nid == e.nid) = true → e ∈ seg := by
      intro e he hany
      simp only [List.any_eq_true, beq_iff_eq] at hany
      obtain ⟨s, hs, hsn⟩ := hany
      have hs' := hseg s hs
      have : s = e := nodup_map_inj f.tree hnids s e hs' he hsn
      exact this ▸ hs
    refine ⟨⟨?_, ?_⟩, htree⟩
    · intro k
      have hfk : fragGet (removeSeg f1 seg) k = fragGet f1 k := rfl
      rw [hfk, g k, htree, hc.1 k]
      by_cases hk : k ∈ scanIds seg
      · simp only [hk, if_true]
        symm
        rw [scanLookup_none_iff]
        intro hm
        simp only [scanIds, List.mem_flatMap, List.mem_filter, Bool.not_eq_true',
          Bool.eq_false_iff] at hm hk
        obtain ⟨e, ⟨he, hne⟩, hke⟩ := hm
        obtain ⟨s, hs, hks⟩ := hk
        -- k occurs on e (kept) and on s (in seg): uniqueness forces e = s, contradiction
        have hs' := hseg s hs
        have h1' := scanLookup_of_mem f.tree hids e he k hke
        have h2' := scanLookup_of_mem f.tree hids s hs' k hks
        rw [h1'] at h2'
        simp only [Option.some.injEq] at h2'
        apply hne
        simp only [List.any_eq_true, beq_iff_eq]
        exact ⟨s, hs, h2'.symm⟩
      · simp only [hk, if_false]
        symm
        apply scanLookup_filter
        intro e he hp
        simp only [Bool.not_eq_false'] at hp
        have hes := hin e he hp
        intro hke
        apply hk
        simp only [scanIds, List.mem_flatMap]
        exact ⟨e, hes, hke⟩
    · intro x' n
      have hx : (x', n) ∈ (removeSeg f1 seg).xtc ↔ (x', n) ∈ f1.xtc := Iff.rfl
      rw [hx, x x' n, htree, hc.2 x' n]
      constructor
      · rintro ⟨⟨e, he, h1', h2'⟩, hno⟩
        refine ⟨e, ?_, h1', h2'⟩
        simp only [List.mem_filter, Bool.not_eq_true', Bool.eq_false_iff]
        refine ⟨he, fun hany => hno ⟨e, hin e he hany, h1', h2'⟩⟩
      · rintro ⟨e, he, h1', h2'⟩
        simp only [List.mem_filter, Bool.not_eq_true', Bool.eq_false_iff] at he
        refine ⟨⟨e, he.1, h1', h2'⟩, ?_⟩
        rintro ⟨s, hs, hs1, hs2⟩
        apply he.2
        simp only [List.any_eq_true, beq_iff_eq]
        exact ⟨s, hs, hs2.trans h2'.symm⟩

theorem reserve_consistent (f : Frag) (k : String) (hc : Consistent f) (hk : k ∉ scanIds f.tree) :
    Consistent (idcacheReserve f k) := by
  refine ⟨?_, hc.2⟩
  intro k'
  have ht : (idcacheReserve f k).tree = f.tree := rfl
  simp only [fragGet, idcacheReserve, dget_dset]
  by_cases h : k' = k
  · subst h
    simp only [if_true, Option.join_some]
    exact ((scanLookup_none_iff _ _).mpr hk).symm
  · simp only [h, if_false]
    exact hc.1 k'

/-! ### lookup across fragments -/

def allIds (l : Loader) : List String := l.flatMap (fun f => scanIds f.tree)

theorem filterMap_fragGet_nil (l : Loader) (k : String)
    (hc : ∀ f ∈ l, IdConsistent f) (hk : k ∉ allIds l) :
    l.filterMap (fun f => fragGet f k) = [] := by
  rw [List.filterMap_eq_nil_iff]
  intro f hf
  rw [hc f hf k, scanLookup_none_iff]
  intro hm
  apply hk
  simp only [allIds, List.mem_flatMap]
  exact ⟨f, hf, hm⟩

theorem lookup_sound (l : Loader) (k : String) (n : Nat)
    (hc : ∀ f ∈ l, IdConsistent f) (h : lookup l k = .ok n) :
    ∃ f ∈ l, ∃ e ∈ f.tree, e.nid = n ∧ k ∈ e.ids := by
  unfold lookup at h
  split at h
  · cases h
  · rename_i m hm
    simp only [Except.ok.injEq] at h
    subst h
    have : m ∈ l.filterMap (fun f => fragGet f k) := by rw [hm]; simp
    simp only [List.mem_filterMap] at this
    obtain ⟨f, hf, hg⟩ := this
    rw [hc f hf k] at hg
    obtain ⟨e, he, h1, h2⟩ := scanLookup_some_mem _ _ _ hg
    exact ⟨f, hf, e, he, h1, h2⟩
  · cases h

theorem lookup_complete (l : Loader) (k : String)
    (hc : ∀ f ∈ l, IdConsistent f) (hu : (allIds l).Nodup)
    (f : Frag) (hf : f ∈ l) (e : Entry) (he : e ∈ f.tree) (hk : k ∈ e.ids) :
    lookup l k = .ok e.nid := by
  induction l with
  | nil => simp at hf
  | cons g gs ih =>
    simp only [allIds, List.flatMap_cons] at hu
    rw [List.nodup_append] at hu
    obtain ⟨hu1, hu2, hdisj⟩ := hu
    have hcg : ∀ f ∈ gs, IdConsistent f := fun f hf => hc f (List.mem_cons_of_mem _ hf)
    rcases List.mem_cons.mp hf with rfl | hf'
    · -- found in the head fragment; the rest cannot have it
      have hg : fragGet f k = some e.nid := by
        rw [hc f List.mem_cons_self k]
        exact scanLookup_of_mem _ hu1 e he k hk
      have hkf : k ∈ scanIds f.tree := by
        simp only [scanIds, List.mem_flatMap]; exact ⟨e, he, hk⟩
      have hrest : gs.filterMap (fun f => fragGet f k) = [] := by
        apply filterMap_fragGet_nil gs k hcg
        intro hm
        exact (hdisj k hkf k hm) rfl
      simp [lookup, hg, hrest]
    · have hkrest : k ∈ allIds gs := by
        simp only [allIds, List.mem_flatMap, scanIds]
        exact ⟨f, hf', e, he, hk⟩
      have hg : fragGet g k = none := by
        rw [hc g List.mem_cons_self k, scanLookup_none_iff]
        intro hm
        exact (hdisj k hm k hkrest) rfl
      have := ih hcg hu2 hf'
      simp only [lookup, List.filterMap_cons, hg] at this ⊢
      exact this

theorem lookup_absent (l : Loader) (k : String)
    (hc : ∀ f ∈ l, IdConsistent f) (hk : k ∉ allIds l) : lookup l k = .error .keyError := by
  simp [lookup, filterMap_fragGet_nil l k hc hk]

end Capella.Index

namespace Capella.Index

/-! ### every instruction of the index protocol preserves consistency -/

theorem scanIds_perm {t t' : List Entry} (h : t.Perm t') : (scanIds t).Perm (scanIds t') :=
  List.Perm.flatMap_right _ h

theorem scanLookup_perm (t t' : List Entry) (hp : t.Perm t') (hn : (scanIds t).Nodup) (k : String) :
    scanLookup t k = scanLookup t' k := by
  have hn' : (scanIds t').Nodup := (scanIds_perm hp).nodup_iff.mp hn
  cases h : scanLookup t k with
  | none =>
    have := (scanLookup_none_iff t k).mp h
    symm
    rw [scanLookup_none_iff]
    intro hm
    exact this ((scanIds_perm hp).mem_iff.mpr hm)
  | some n =>
    obtain ⟨e, he, h1, h2⟩ := scanLookup_some_mem _ _ _ h
    have he' : e ∈ t' := hp.mem_iff.mp he
    rw [scanLookup_of_mem t' hn' e he' k h2, h1]

/-- preconditions under which the code issues each instruction -/
def WFOp (l : Loader) : Op → Prop
  | .attach fi _ seg => ∀ f, l[fi]? = some f → ∀ k ∈ scanIds seg, k ∉ scanIds f.tree
  | .detach fi seg => ∀ f, l[fi]? = some f →
      SegOf seg f.tree ∧ (scanIds f.tree).Nodup ∧ (f.tree.map (·.nid)).Nodup
  | .reserve fi k => ∀ f, l[fi]? = some f → k ∉ scanIds f.tree
  | .unreserve fi k => ∀ f, l[fi]? = some f → k ∉ scanIds f.tree
  | .rebuild _ => True
  | .reorder fi tree => ∀ f, l[fi]? = some f → f.tree.Perm tree ∧ (scanIds f.tree).Nodup
  | .swapRoot _ _ => True

theorem getFrag_ok (l : Loader) (fi : Nat) (f : Frag) (h : getFrag l fi = .ok f) : l[fi]? = some f := by
  unfold getFrag at h
  split at h
  · rename_i g hg; simp only [Except.ok.injEq] at h; subst h; exact hg
  · cases h

theorem mem_set_cases (l : Loader) (fi : Nat) (f' g : Frag) (h : g ∈ l.set fi f') : g = f' ∨ g ∈ l := by
  rcases List.mem_or_eq_of_mem_set h with h | h
  · exact Or.inr h
  · exact Or.inl h

theorem unreserve_consistent (f : Frag) (k : String) (hc : Consistent f) (hk : k ∉ scanIds f.tree) :
    Consistent (idcacheRemoveKey f k) := by
  refine ⟨?_, hc.2⟩
  intro k'
  simp only [fragGet, idcacheRemoveKey, dget_ddel]
  by_cases h : k' = k
  · subst h
    simp only [if_true, Option.join_none]
    exact ((scanLookup_none_iff _ _).mpr hk).symm
  · simp only [h, if_false]
    exact hc.1 k'

theorem reorder_consistent (f : Frag) (tree : List Entry) (hc : Consistent f)
    (hp : f.tree.Perm tree) (hn : (scanIds f.tree).Nodup) :
    Consistent { f with tree := tree } := by
  refine ⟨?_, ?_⟩
  · intro k
    have : fragGet { f with tree := tree } k = fragGet f k := rfl
    rw [this, hc.1 k]
    exact scanLookup_perm _ _ hp hn k
  · intro x n
    have : (x, n) ∈ ({ f with tree := tree } : Frag).xtc ↔ (x, n) ∈ f.xtc := Iff.rfl
    rw [this, hc.2 x n]
    constructor
    · rintro ⟨e, he, h⟩; exact ⟨e, hp.mem_iff.mp he, h⟩
    · rintro ⟨e, he, h⟩; exact ⟨e, hp.mem_iff.mpr he, h⟩

theorem step_consistent (l l' : Loader) (op : Op)
    (hc : ∀ f ∈ l, Consistent f) (hw : WFOp l op) (h : step l op = .ok l') :
    ∀ f ∈ l', Consistent f := by
  cases op with
  | attach fi pos seg =>
    simp only [step, bind, Except.bind, pure, Except.pure] at h
    split at h
    · cases h
    · rename_i f hf
      split at h
      · cases h
      · rename_i f' hf'
        simp only [Except.ok.injEq] at h; subst h
        have hfl := getFrag_ok _ _ _ hf
        have hmem : f ∈ l := List.mem_of_getElem? hfl
        intro g hg
        rcases mem_set_cases _ _ _ _ hg with rfl | hg
        · exact (attach_consistent f g pos seg (hc f hmem) (hw f hfl) hf').1
        · exact hc g hg
  | detach fi seg =>
    simp only [step, bind, Except.bind, pure, Except.pure] at h
    split at h
    · cases h
    · rename_i f hf
      split at h
      · cases h
      · rename_i f' hf'
        simp only [Except.ok.injEq] at h; subst h
        have hfl := getFrag_ok _ _ _ hf
        have hmem : f ∈ l := List.mem_of_getElem? hfl
        obtain ⟨h1, h2, h3⟩ := hw f hfl
        intro g hg
        rcases mem_set_cases _ _ _ _ hg with rfl | hg
        · exact (detach_consistent f g seg (hc f hmem) h2 h3 h1 hf').1
        · exact hc g hg
  | reserve fi k =>
    simp only [step, bind, Except.bind, pure, Except.pure] at h
    split at h
    · cases h
    · rename_i f hf
      simp only [Except.ok.injEq] at h; subst h
      have hfl := getFrag_ok _ _ _ hf
      have hmem : f ∈ l := List.mem_of_getElem? hfl
      intro g hg
      rcases mem_set_cases _ _ _ _ hg with rfl | hg
      · exact reserve_consistent f k (hc f hmem) (hw f hfl)
      · exact hc g hg
  | unreserve fi k =>
    simp only [step, bind, Except.bind, pure, Except.pure] at h
    split at h
    · cases h
    · rename_i f hf
      simp only [Except.ok.injEq] at h; subst h
      have hfl := getFrag_ok _ _ _ hf
      have hmem : f ∈ l := List.mem_of_getElem? hfl
      intro g hg
      rcases mem_set_cases _ _ _ _ hg with rfl | hg
      · exact unreserve_consistent f k (hc f hmem) (hw f hfl)
      · exact hc g hg
  | rebuild fi =>
    simp only [step, bind, Except.bind, pure, Except.pure] at h
    split at h
    · cases h
    · rename_i f hf
      split at h
      · cases h
      · rename_i f' hf'
        simp only [Except.ok.injEq] at h; subst h
        intro g hg
        rcases mem_set_cases _ _ _ _ hg with rfl | hg
        · exact (rebuild_consistent f g hf').1
        · exact hc g hg
  | reorder fi tree =>
    simp only [step, bind, Except.bind, pure, Except.pure] at h
    split at h
    · cases h
    · rename_i f hf
      simp only [Except.ok.injEq] at h; subst h
      have hfl := getFrag_ok _ _ _ hf
      have hmem : f ∈ l := List.mem_of_getElem? hfl
      obtain ⟨h1, h2⟩ := hw f hfl
      intro g hg
      rcases mem_set_cases _ _ _ _ hg with rfl | hg
      · exact reorder_consistent f tree (hc f hmem) h1 h2
      · exact hc g hg
  | swapRoot fi nid =>
    simp only [step, bind, Except.bind, pure, Except.pure] at h
    split at h
    · cases h
    · rename_i f hf
      split at h
      · cases h
      · rename_i f' hf'
        simp only [Except.ok.injEq] at h; subst h
        intro g hg
        rcases mem_set_cases _ _ _ _ hg with rfl | hg
        · exact (rebuild_consistent _ g hf').1
        · exact hc g hg

/-- every prefix state satisfies the instruction's precondition -/
def WFRun (l : Loader) : List Op → Prop
  | [] => True
  | op :: ops => WFOp l op ∧ ∀ l', step l op = .ok l' → WFRun l' ops

theorem run_consistent (ops : List Op) (l l' : Loader)
    (hc : ∀ f ∈ l, Consistent f) (hw : WFRun l ops) (h : run l ops = .ok l') :
    ∀ f ∈ l', Consistent f := by
  induction ops generalizing l with
  | nil => simp only [run, Except.ok.injEq] at h; subst h; exact hc
  | cons op ops ih =>
    simp only [run, bind, Except.bind] at h
    split at h
    · cases h
    · rename_i l1 h1
      exact ih l1 (step_consistent l l1 op hc hw.1 h1) (hw.2 l1 h1) h

end Capella.Index

namespace Capella.Index

/-! ### C04: freshness, duplicate detection, creation bracket -/

theorem mem_allIds (l : Loader) (k : String) (h : k ∈ allIds l) :
    ∃ f ∈ l, ∃ e ∈ f.tree, k ∈ e.ids := by
  simp only [allIds, scanIds, List.mem_flatMap] at h
  obtain ⟨f, hf, e, he, hk⟩ := h
  exact ⟨f, hf, e, he, hk⟩

theorem lookup_of_mem_allIds (l : Loader) (k : String)
    (hc : ∀ f ∈ l, IdConsistent f) (hu : (allIds l).Nodup) (h : k ∈ allIds l) :
    ∃ n, lookup l k = .ok n := by
  obtain ⟨f, hf, e, he, hk⟩ := mem_allIds l k h
  exact ⟨e.nid, lookup_complete l k hc hu f hf e he hk⟩

theorem lookup_err_not_mem (l : Loader) (k : String) (e : Err)
    (hc : ∀ f ∈ l, IdConsistent f) (hu : (allIds l).Nodup) (h : lookup l k = .error e) :
    k ∉ allIds l := by
  intro hm
  obtain ⟨n, hn⟩ := lookup_of_mem_allIds l k hc hu hm
  rw [hn] at h
  cases h

theorem generateUuid_random (l l' : Loader) (fi : Nat) (cands : List String) (k : String)
    (hc : ∀ f ∈ l, IdConsistent f) (hu : (allIds l).Nodup)
    (h : generateUuid l fi none cands = .ok (l', k)) :
    k ∉ allIds l ∧ k ∈ cands ∧ l' = l.modify fi (fun f => idcacheReserve f k) := by
  unfold generateUuid at h
  simp only at h
  split at h
  · rename_i c hc'
    simp only [Except.ok.injEq, Prod.mk.injEq] at h
    obtain ⟨h1, h2⟩ := h
    subst h2
    have hmem := List.mem_of_find?_eq_some hc'
    have hp := List.find?_some hc'
    refine ⟨?_, hmem, h1.symm⟩
    split at hp
    · rename_i e he
      exact lookup_err_not_mem l c e hc hu he
    · cases hp
  · cases h

theorem generateUuid_want_used (l : Loader) (fi : Nat) (cands : List String) (k : String)
    (hc : ∀ f ∈ l, IdConsistent f) (hu : (allIds l).Nodup) (hk : k ∈ allIds l) :
    generateUuid l fi (some k) cands = .error .valueError := by
  obtain ⟨n, hn⟩ := lookup_of_mem_allIds l k hc hu hk
  simp [generateUuid, hn]

theorem generateUuid_want_free (l : Loader) (fi : Nat) (cands : List String) (k : String)
    (hc : ∀ f ∈ l, IdConsistent f) (hk : k ∉ allIds l) :
    generateUuid l fi (some k) cands = .ok (l.modify fi (fun f => idcacheReserve f k), k) := by
  simp [generateUuid, lookup_absent l k hc hk]

theorem checkDupsFrom_false_iff (l : Loader) (seen : List String) :
    checkDupsFrom seen l = false ↔
      (∀ f ∈ l, ∀ k ∈ keysOf f, k ∉ seen) ∧ l.Pairwise (fun f g => ∀ k ∈ keysOf g, k ∉ keysOf f) := by
  induction l generalizing seen with
  | nil => simp [checkDupsFrom]
  | cons f fs ih =>
    simp only [checkDupsFrom, Bool.or_eq_false_iff, List.any_eq_false, decide_eq_true_eq,
      List.mem_cons, forall_eq_or_imp, List.pairwise_cons]
    rw [ih]
    simp only [keysOf, List.mem_append, not_or]
    constructor
    · rintro ⟨h1, h2, h3⟩
      refine ⟨⟨h1, fun g hg k hk => (h2 g hg k hk).1⟩, fun g hg k hk => (h2 g hg k hk).2, h3⟩
    · rintro ⟨⟨h1, h2⟩, h3, h4⟩
      exact ⟨h1, fun g hg k hk => ⟨h2 g hg k hk, h3 g hg k hk⟩, h4⟩

theorem hasCrossDupsOld_false (l : Loader) : hasCrossDupsOld l = false := by
  simp [hasCrossDupsOld]

/-! duplicate inside one fragment -/

theorem indexIds_err (ign : Bool) (nid : Nat) (ks : List String) (idc : List (String × Option Nat)) (e : Err)
    (h : indexIds ign nid ks idc = .error e) : e = .corrupt ∧ ign = false := by
  induction ks generalizing idc with
  | nil => simp [indexIds] at h
  | cons a as ih =>
    unfold indexIds at h
    split at h
    · split at h
      · rename_i hc
        simp only [Except.error.injEq] at h
        refine ⟨h.symm, ?_⟩
        simpa using hc.2
      · exact ih _ h
    · exact ih _ h

theorem indexIds_keep (nid : Nat) (ks : List String) (idc idc' : List (String × Option Nat))
    (h : indexIds false nid ks idc = .ok idc') (k : String) (n : Nat)
    (hk : dget idc k = some (some n)) : dget idc' k = some (some n) := by
  induction ks generalizing idc with
  | nil => simp only [indexIds, Except.ok.injEq] at h; subst h; exact hk
  | cons a as ih =>
    unfold indexIds at h
    have step : ∀ (hne : ¬ (∃ m, dget idc a = some (some m) ∧ m ≠ nid)),
        indexIds false nid as (dset idc a (some nid)) = .ok idc' → dget idc' k = some (some n) := by
      intro hne h'
      apply ih _ h'
      rw [dget_dset]
      by_cases hka : k = a
      · subst hka
        simp only [if_true]
        have : n = nid := by
          apply Classical.byContradiction
          intro hnn
          exact hne ⟨n, hk, hnn⟩
        rw [this]
      · simp [hka, hk]
    split at h
    · rename_i m hm
      split at h
      · cases h
      · rename_i hc
        apply step _ h
        rintro ⟨m', hm', hne'⟩
        rw [hm] at hm'
        simp only [Option.some.injEq] at hm'
        subst hm'
        apply hc
        simp [hne']
    · rename_i hno
      apply step _ h
      rintro ⟨m', hm', _⟩
      exact hno m' hm'

theorem indexEntry_keep (f f' : Frag) (e : Entry) (hign : f.ignDups = false)
    (h : indexEntry f e = .ok f') (k : String) (n : Nat) (hk : fragGet f k = some n) :
    fragGet f' k = some n := by
  unfold indexEntry at h
  simp only [bind, Except.bind, pure, Except.pure] at h
  split at h
  · cases h
  · rename_i idc' hidc
    simp only [Except.ok.injEq] at h
    subst h
    rw [hign] at hidc
    have hk' : dget f.idc k = some (some n) := by
      simp only [fragGet] at hk
      cases hd : dget f.idc k with
      | none => rw [hd] at hk; simp at hk
      | some v =>
        rw [hd] at hk
        cases v with
        | none => simp at hk
        | some m => simp at hk; rw [hk]
    simp only [fragGet, indexIds_keep _ _ _ _ hidc k n hk', Option.join_some]

theorem idcacheIndex_keep (seg : List Entry) (f f' : Frag) (hign : f.ignDups = false)
    (h : idcacheIndex f seg = .ok f') (k : String) (n : Nat) (hk : fragGet f k = some n) :
    fragGet f' k = some n := by
  induction seg generalizing f with
  | nil => simp only [idcacheIndex, Except.ok.injEq] at h; subst h; exact hk
  | cons e es ih =>
    simp only [idcacheIndex, bind, Except.bind] at h
    split at h
    · cases h
    · rename_i f1 h1
      have hign1 : f1.ignDups = false := by
        rw [(indexEntry_spec f f1 e h1).2.1]; exact hign
      exact ih f1 hign1 h (indexEntry_keep f f1 e hign h1 k n hk)

/-- after a successful strict indexing every element of the segment is what its ids resolve to -/
theorem idcacheIndex_strict (seg : List Entry) (f f' : Frag) (hign : f.ignDups = false)
    (h : idcacheIndex f seg = .ok f') : ∀ e ∈ seg, ∀ k ∈ e.ids, fragGet f' k = some e.nid := by
  induction seg generalizing f with
  | nil => intro e he; simp at he
  | cons a as ih =>
    simp only [idcacheIndex, bind, Except.bind] at h
    split at h
    · cases h
    · rename_i f1 h1
      have hs := indexEntry_spec f f1 a h1
      have hign1 : f1.ignDups = false := by rw [hs.2.1]; exact hign
      intro e he k hk
      rcases List.mem_cons.mp he with rfl | he'
      · apply idcacheIndex_keep as f1 f' hign1 h k e.nid
        rw [hs.2.2.2.2.1 k]
        simp [hk]
      · exact ih f1 hign1 h e he' k hk

theorem idcacheIndex_err (seg : List Entry) (f : Frag) (e : Err)
    (h : idcacheIndex f seg = .error e) : e = .corrupt := by
  induction seg generalizing f with
  | nil => simp [idcacheIndex] at h
  | cons a as ih =>
    simp only [idcacheIndex, bind, Except.bind] at h
    split at h
    · rename_i err h1
      simp only [Except.error.injEq] at h
      subst h
      unfold indexEntry at h1
      simp only [bind, Except.bind, pure, Except.pure] at h1
      split at h1
      · rename_i err' hidc
        simp only [Except.error.injEq] at h1
        subst h1
        exact (indexIds_err _ _ _ _ _ hidc).1
      · cases h1
    · rename_i f1 _
      exact ih f1 h

/-- a fragment whose tree carries one id on two different elements is refused (strict mode) -/
theorem rebuild_refuses_dups (f : Frag) (hign : f.ignDups = false)
    (e1 e2 : Entry) (h1 : e1 ∈ f.tree) (h2 : e2 ∈ f.tree) (k : String)
    (hk1 : k ∈ e1.ids) (hk2 : k ∈ e2.ids) (hne : e1.nid ≠ e2.nid) :
    idcacheRebuild f = .error .corrupt := by
  cases h : idcacheRebuild f with
  | error e =>
    unfold idcacheRebuild at h
    rw [idcacheIndex_err _ _ _ h]
  | ok f' =>
    unfold idcacheRebuild at h
    have hs := idcacheIndex_strict f.tree _ f' (by simpa using hign) h
    have a := hs e1 h1 k hk1
    have b := hs e2 h2 k hk2
    rw [a] at b
    simp only [Option.some.injEq] at b
    exact absurd b hne

/-! creation bracket -/

theorem filter_insert_fresh (t seg : List Entry) (pos : Nat)
    (hfresh : ∀ e ∈ t, ∀ s ∈ seg, s.nid ≠ e.nid) :
    (t.take pos ++ seg ++ t.drop pos).filter (fun e => !(seg.any (·.nid == e.nid))) = t := by
  have hkeep : ∀ (u : List Entry), (∀ e ∈ u, e ∈ t) →
      u.filter (fun e => !(seg.any (·.nid == e.nid))) = u := by
    intro u hu
    rw [List.filter_eq_self]
    intro e he
    simp only [Bool.not_eq_true', List.any_eq_false, beq_iff_eq]
    intro s hs
    exact hfresh e (hu e he) s hs
  have hdrop : seg.filter (fun e => !(seg.any (·.nid == e.nid))) = [] := by
    rw [List.filter_eq_nil_iff]
    intro e he
    have : seg.any (·.nid == e.nid) = true := by
      simp only [List.any_eq_true, beq_iff_eq]
      exact ⟨e, he, rfl⟩
    simp [this]
  rw [List.filter_append, List.filter_append, hdrop,
    hkeep _ (fun e he => List.mem_of_mem_take he), hkeep _ (fun e he => List.mem_of_mem_drop he)]
  simp

theorem createFailing_atomic (f f' : Frag) (pos : Nat) (uuid : String) (outer : Entry) (nested : List Entry)
    (hc : Consistent f)
    (hfreshIds : ∀ k ∈ scanIds (outer :: nested), k ∉ scanIds f.tree)
    (hfreshNids : ∀ e ∈ f.tree, ∀ s ∈ outer :: nested, s.nid ≠ e.nid)
    (hfree : fragGet f uuid = none)
    (h : createFailing f pos uuid outer nested = .ok f') :
    f'.tree = f.tree ∧ (∀ k, fragGet f' k = fragGet f k) ∧ (∀ x n, (x, n) ∈ f'.xtc ↔ (x, n) ∈ f.xtc) := by
  unfold createFailing at h
  simp only [bind, Except.bind, pure, Except.pure] at h
  split at h
  · cases h
  · rename_i f3 h3
    split at h
    · cases h
    · rename_i f4 h4
      simp only [Except.ok.injEq] at h
      subst h
      obtain ⟨t3, _, _, _, g3, x3⟩ := idcacheIndex_spec _ _ _ h3
      obtain ⟨t4, _, _, _, g4, x4⟩ := idcacheRemove_spec _ _ _ h4
      have ht3 : f3.tree = f.tree.take pos ++ (outer :: nested) ++ f.tree.drop pos := by
        rw [t3]; rfl
      refine ⟨?_, ?_, ?_⟩
      · show (f4.tree.filter _) = f.tree
        rw [t4, ht3]
        exact filter_insert_fresh f.tree (outer :: nested) pos hfreshNids
      · intro k
        show (dget (ddel f4.idc uuid) k).join = fragGet f k
        rw [dget_ddel]
        by_cases hku : k = uuid
        · subst hku; simp [hfree]
        · simp only [hku, if_false]
          have e4 : (dget f4.idc k).join = fragGet f4 k := rfl
          rw [e4, g4 k]
          by_cases hks : k ∈ scanIds (outer :: nested)
          · simp only [hks, if_true]
            have := hfreshIds k hks
            rw [hc.1 k]
            exact ((scanLookup_none_iff _ _).mpr this).symm
          · simp only [hks, if_false]
            rw [g3 k]
            have hkn : scanLookup nested k = none := by
              rw [scanLookup_none_iff]
              intro hm
              apply hks
              simp only [scanIds, List.flatMap_cons, List.mem_append] at hm ⊢
              exact Or.inr hm
            simp only [fragGetAfter, hkn]
            show (dget (dset f.idc uuid none) k).join = fragGet f k
            rw [dget_dset]
            simp [hku, fragGet]
      · intro x n
        show (x, n) ∈ f4.xtc ↔ (x, n) ∈ f.xtc
        rw [x4 x n, x3 x n]
        have hbase : (x, n) ∈ (insertSeg (idcacheReserve f uuid) pos (outer :: nested)).xtc ↔ (x, n) ∈ f.xtc := Iff.rfl
        rw [hbase]
        constructor
        · rintro ⟨h1 | ⟨e, he, hx, hn⟩, hno⟩
          · exact h1
          · exact absurd ⟨e, List.mem_cons_of_mem _ he, hx, hn⟩ hno
        · intro h1
          refine ⟨Or.inl h1, ?_⟩
          rintro ⟨s, hs, _, hsn⟩
          obtain ⟨e, he, _, hen⟩ := (hc.2 x n).mp h1
          exact hfreshNids e he s hs (hsn.trans hen.symm)

end Capella.Index
