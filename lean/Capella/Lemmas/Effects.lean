import Capella.Model.Effects

/-!
# Frame lemmas for programs over model trees (C11)

* a read request returns the tree it was given (`perform_read`);
* a program in which no write request is reachable leaves every tree unchanged (`exec_readOnly`), for
  every program and every tree — induction over the derivation of `ReadOnly`;
* independently of any syntactic judgement: if the *trace* of a run contains only reads the tree is
  unchanged (`exec_of_trace_reads`) — induction over the program;
* `ReadOnly` is closed under `bind` and `mapP`, the primitive read programs are `ReadOnly`;
* the call-graph closure of a table stays inside any set that contains the roots and is closed under
  the call edges (`reach_subset`) — this is what the two generated obligations `reach_roots`,
  `reach_closed` are for.
-/
namespace Capella.Effects

theorem perform_read (t : Tree) (i : Instr) (h : i.isRead = true) : (perform t i).1 = t := by
  cases i <;> simp [Instr.isRead] at h <;> rfl

namespace Prog

theorem exec_readOnly {α : Type} {p : Prog α} (h : ReadOnly p) (t : Tree) : (exec p t).1 = t := by
  induction h generalizing t with
  | ret a => rfl
  | op i k hi _ ih =>
    simp only [exec]
    rw [ih, perform_read t i hi]

theorem trace_readOnly {α : Type} {p : Prog α} (h : ReadOnly p) (t : Tree) :
    (trace p t).all Instr.isRead = true := by
  induction h generalizing t with
  | ret a => rfl
  | op i k hi _ ih =>
    simp only [trace, List.all_cons, hi, Bool.true_and]
    exact ih _ _

theorem exec_of_trace_reads {α : Type} (p : Prog α) (t : Tree)
    (h : (trace p t).all Instr.isRead = true) : (exec p t).1 = t := by
  induction p generalizing t with
  | ret a => rfl
  | op i k ih =>
    simp only [trace, List.all_cons, Bool.and_eq_true] at h
    simp only [exec]
    rw [ih _ _ h.2, perform_read t i h.1]

/-- the result of a read-only program does not depend on read-only programs run before it -/
theorem exec_after_readOnly {α β : Type} {p : Prog α} (h : ReadOnly p) (q : Prog β) (t : Tree) :
    (exec q (exec p t).1).2 = (exec q t).2 := by
  rw [exec_readOnly h]

theorem exec_bind {α β : Type} (p : Prog α) (f : α → Prog β) (t : Tree) :
    exec (bind p f) t = exec (f (exec p t).2) (exec p t).1 := by
  induction p generalizing t with
  | ret a => rfl
  | op i k ih => simp only [bind, exec]; exact ih _ _

theorem ReadOnly.bind' {α β : Type} {p : Prog α} {f : α → Prog β}
    (hp : ReadOnly p) (hf : ∀ a, ReadOnly (f a)) : ReadOnly (Prog.bind p f) := by
  induction hp with
  | ret a => exact hf a
  | op i k hi _ ih => exact ReadOnly.op i _ hi (fun a => ih a)

theorem ReadOnly.bindM {α β : Type} {p : Prog α} {f : α → Prog β}
    (hp : ReadOnly p) (hf : ∀ a, ReadOnly (f a)) : ReadOnly (p >>= f) :=
  ReadOnly.bind' hp hf

theorem ReadOnly.pure {α : Type} (a : α) : ReadOnly (Pure.pure a : Prog α) := ReadOnly.ret a

theorem ReadOnly.mapP {β γ : Type} {f : β → Prog γ} (hf : ∀ b, ReadOnly (f b)) (l : List β) :
    ReadOnly (Prog.mapP f l) := by
  induction l with
  | nil => exact ReadOnly.ret _
  | cons x r ih =>
    exact ReadOnly.bind' (hf x) (fun y => ReadOnly.bind' ih (fun ys => ReadOnly.ret _))

end Prog

open Prog

theorem ro_getA (n : Nat) (k : String) : ReadOnly (getA n k) :=
  ReadOnly.op _ _ rfl (fun a => by cases a <;> exact ReadOnly.ret _)
theorem ro_allA (n : Nat) : ReadOnly (allA n) :=
  ReadOnly.op _ _ rfl (fun a => by cases a <;> exact ReadOnly.ret _)
theorem ro_kidsP (n : Nat) (tag : String) : ReadOnly (kidsP n tag) :=
  ReadOnly.op _ _ rfl (fun a => by cases a <;> exact ReadOnly.ret _)
theorem ro_allKids (n : Nat) : ReadOnly (allKids n) :=
  ReadOnly.op _ _ rfl (fun a => by cases a <;> exact ReadOnly.ret _)
theorem ro_parentP (n : Nat) : ReadOnly (parentP n) :=
  ReadOnly.op _ _ rfl (fun a => by cases a <;> exact ReadOnly.ret _)
theorem ro_followP (l : Str) : ReadOnly (followP l) :=
  ReadOnly.op _ _ rfl (fun a => by cases a <;> exact ReadOnly.ret _)
theorem ro_tagP (n : Nat) : ReadOnly (tagP n) :=
  ReadOnly.op _ _ rfl (fun a => by
    cases a with
    | str o => cases o <;> exact ReadOnly.ret _
    | _ => exact ReadOnly.ret _)
theorem ro_textP (n : Nat) : ReadOnly (textP n) :=
  ReadOnly.op _ _ rfl (fun a => by cases a <;> exact ReadOnly.ret _)

/-- a program that issues a write request first is not read-only -/
theorem not_readOnly_setA (n : Nat) (k : String) (v : Str) {α : Type} (f : Unit → Prog α) :
    ¬ ReadOnly (Prog.bind (setA n k v) f) := by
  intro h
  cases h with
  | op i k hi _ => simp [Instr.isRead] at hi

/-! ## the call-graph closure -/

theorem addNew_subset (S seen new : List Nat) (h1 : ∀ x ∈ seen, x ∈ S) (h2 : ∀ x ∈ new, x ∈ S) :
    ∀ x ∈ addNew seen new, x ∈ S := by
  induction new generalizing seen with
  | nil => simpa [addNew] using h1
  | cons y r ih =>
    simp only [addNew]
    split
    · exact ih seen h1 (fun x hx => h2 x (List.mem_cons_of_mem _ hx))
    · apply ih
      · intro x hx
        rcases List.mem_append.mp hx with h | h
        · exact h1 x h
        · simp at h; subst h; exact h2 _ (List.mem_cons_self ..)
      · exact fun x hx => h2 x (List.mem_cons_of_mem _ hx)

theorem step_subset (t : Table) (S seen : List Nat) (hc : t.closedB S = true) (h1 : ∀ x ∈ seen, x ∈ S) :
    ∀ x ∈ t.step seen, x ∈ S := by
  apply addNew_subset S seen _ h1
  intro x hx
  rcases List.mem_flatMap.mp hx with ⟨n, hn, hxn⟩
  have := h1 n hn
  simp only [Table.closedB, List.all_eq_true] at hc
  have h3 := hc n this x hxn
  simpa using h3

theorem iter_subset (t : Table) (S : List Nat) (hc : t.closedB S = true) (k : Nat) (seen : List Nat)
    (h1 : ∀ x ∈ seen, x ∈ S) : ∀ x ∈ iter t.step k seen, x ∈ S := by
  induction k generalizing seen with
  | zero => simpa [iter] using h1
  | succ k ih => exact ih _ (step_subset t S seen hc h1)

/-- every function in the call-graph closure of the roots lies in `S`, if `S` contains the roots and is
closed under the call edges -/
theorem reach_subset (t : Table) (S : List Nat) (hr : t.roots.all S.contains = true)
    (hc : t.closedB S = true) : ∀ x ∈ t.reach, x ∈ S := by
  apply iter_subset t S hc
  apply addNew_subset S [] t.roots (by simp)
  intro x hx
  have := List.all_eq_true.mp hr x hx
  simpa using this

end Capella.Effects
