import Capella.Lemmas.SvgDefsUnique

/-! Lemmas about the `<defs>` state machine, part 3: *all* ids of the document (those inside symbol fragments included)
are pairwise different, provided no two deployed symbol fragments share an id. Core Lean only. -/

namespace Capella.Svg

/-! ### generated ids end in an upper-case hex digit or `_` -/

theorem upperChar_upperHex (x : Char) (hx : hexDigit x = true) : upperHex (upperChar x) = true := by
  unfold hexDigit at hx
  unfold upperChar upperHex
  simp only [Bool.or_eq_true, decide_eq_true_eq, char_le_toNat] at hx ⊢
  have e0 : ('0' : Char).toNat = 48 := by decide
  have e9 : ('9' : Char).toNat = 57 := by decide
  have ea : ('a' : Char).toNat = 97 := by decide
  have ef : ('f' : Char).toNat = 102 := by decide
  have ez : ('z' : Char).toNat = 122 := by decide
  have eA : ('A' : Char).toNat = 65 := by decide
  have eF : ('F' : Char).toNat = 70 := by decide
  rw [e0, e9, ea, ef, eA, eF] at hx
  split
  · rename_i hl
    rw [ea, ez] at hl
    have hv := toNat_ofNat_small (x.toNat - 32) (by omega)
    rw [hv, e0, e9, eA, eF]
    omega
  · rename_i hl
    rw [ea, ez] at hl
    rw [e0, e9, eA, eF]
    omega

theorem hexOf_upper {v : Val} {h : Str} (hv : v.upperOK = true) (hh : hexOf v = .ok h) : h.all upperHex = true := by
  cases v with
  | color x => simp only [hexOf, Except.ok.injEq] at hh; subst hh; exact hv
  | str s =>
    cases s with
    | nil => simp [hexOf] at hh
    | cons c t =>
      simp only [hexOf] at hh
      split at hh
      · rename_i c' t' heq
        by_cases hall : t'.all hexDigit = true
        · simp only [hall, if_true] at hh
          have hmap : ∀ (l : Str), l.all hexDigit = true → (l.map upperChar).all upperHex = true := by
            intro l hl
            rw [List.all_eq_true] at hl ⊢
            intro y hy
            obtain ⟨x, hx, rfl⟩ := List.mem_map.mp hy
            exact upperChar_upperHex x (hl x hx)
          split at hh
          · simp only [Except.ok.injEq] at hh; subst hh; exact hmap _ hall
          · split at hh
            · simp only [Except.ok.injEq] at hh; subst hh
              apply hmap
              rw [List.all_eq_true] at hall ⊢
              intro x hx
              obtain ⟨y, hy, hxy⟩ := List.mem_flatMap.mp hx
              simp only [List.mem_cons, List.not_mem_nil, or_false, or_self] at hxy
              rw [hxy]
              exact hall y hy
            · cases hh
        · simp [hall] at hh
      · cases hh
  | none => simp [hexOf] at hh
  | num x => simp [hexOf] at hh
  | grad x => simp [hexOf] at hh
  | other x => simp [hexOf] at hh

/-- looks like an id made by `_generate_id`: `CustomGradient` itself (no colours) or ending in an upper-case hex digit / `_` -/
def GenShaped (s : Str) : Prop := s = gradName ∨ ∃ c, s.getLast? = some c ∧ genTail c = true

theorem tail_genShaped (name h : Str) (hh : h.all upperHex = true) :
    ∃ c, (name ++ '_' :: h).getLast? = some c ∧ genTail c = true := by
  rw [List.getLast?_append]
  cases hl : h.getLast? with
  | none =>
    have : h = [] := by simpa using hl
    subst this
    exact ⟨'_', by simp, by decide⟩
  | some c =>
    have : (('_' : Char) :: h).getLast? = some c := by rw [List.getLast?_cons, hl]; rfl
    refine ⟨c, by rw [this]; rfl, ?_⟩
    have := (List.all_eq_true.mp hh) c (List.mem_of_getLast? hl)
    simp [genTail, this]

theorem joinId_genShaped : ∀ (hs : List Str) (name : Str), (∀ h ∈ hs, h.all upperHex = true) → hs ≠ [] →
    ∃ c, (joinId name hs).getLast? = some c ∧ genTail c = true := by
  intro hs
  induction hs with
  | nil => intro _ _ h; exact absurd rfl h
  | cons h hs ih =>
    intro name hc _
    rw [joinId_cons]
    cases hs with
    | nil => exact tail_genShaped name h (hc h List.mem_cons_self)
    | cons h2 hs2 => exact ih _ (fun x hx => hc x (List.mem_cons_of_mem _ hx)) (by simp)

theorem gradId_genShaped (hs : List Str) (hc : ∀ h ∈ hs, h.all upperHex = true) : GenShaped (gradId hs) := by
  cases hs with
  | nil => exact .inl rfl
  | cons h t => exact .inr (joinId_genShaped _ gradName hc (by simp))

/-! ### colour values stay upper-case hex on their way to `_generate_id` (generic in the property of values) -/

theorem lookupEntry_allv {P : Val → Prop} {styles : List StyleEntry} (h : ∀ e ∈ styles, AllVals P e.props) (dc oc : Str) :
    AllVals P (lookupEntry styles dc oc) := by
  unfold lookupEntry
  cases hf : styles.find? (fun e => e.dc = dc ∧ e.oc = oc) with
  | none => intro p hp; cases hp
  | some e => exact h e (List.mem_of_find?_eq_some hf)

theorem getStyle_allv {P : Val → Prop} {styles : List StyleEntry} (h : ∀ e ∈ styles, AllVals P e.props)
    {dc : Option Str} {oc : Str} {d : List (Str × Val)} (hg : getStyle styles dc oc = .ok d) : AllVals P d := by
  unfold getStyle at hg
  split at hg
  · cases hg
  · split at hg
    · simp only [Except.ok.injEq] at hg; subst hg; intro p hp; cases hp
    · simp only [Except.ok.injEq] at hg
      subst hg
      exact merge_all _ _ (merge_all _ _ (merge_all _ _ (lookupEntry_allv h _ _) (lookupEntry_allv h _ _))
        (lookupEntry_allv h _ _)) (lookupEntry_allv h _ _)

theorem prepare_allv {P : Val → Prop} (hblack : P (.color "000000".toList)) {T : Tables} {dc : Option Str} {o : Obj}
    {defaults : List (Str × Val)} (hd : AllVals P defaults) (ho : AllVals P o.style) :
    AllVals P (prepare T dc o defaults).objStyle.attrs ∧ AllVals P (prepare T dc o defaults).textStyle.attrs := by
  have hmy := merge_all (P := P) _ _ hd ho
  have h0 : AllVals P (((merge defaults o.style).filter fun p => !hasUnderscore p.1).map fun p => (attrName p.1, p.2)) := by
    intro p hp
    obtain ⟨q, hq, rfl⟩ := List.mem_map.mp hp
    exact hmy q (List.mem_filter.mp hq).1
  constructor
  · unfold prepare
    simp only
    cases o.kind with
    | circle =>
      simp only
      apply upsert_all
      · intro p hp; exact h0 p (List.mem_filter.mp hp).1
      · cases hl : lookup (((merge defaults o.style).filter fun p => !hasUnderscore p.1).map fun p => (attrName p.1, p.2)) strokeKey with
        | none => exact hblack
        | some w =>
          obtain ⟨q, hq, hqw⟩ := lookup_mem hl
          cases w with
          | none => exact hblack
          | color x => simp only; rw [← hqw]; exact h0 q hq
          | str x => simp only; rw [← hqw]; exact h0 q hq
          | num x => simp only; rw [← hqw]; exact h0 q hq
          | grad x => simp only; rw [← hqw]; exact h0 q hq
          | other x => simp only; rw [← hqw]; exact h0 q hq
    | box => exact h0
    | edge => exact h0
    | symbol => exact h0
    | boxSymbol => exact h0
  · unfold prepare
    simp only
    intro p hp
    obtain ⟨q, hq, rfl⟩ := List.mem_map.mp hp
    exact hmy q (List.mem_filter.mp hq).1

theorem deployStroke_p {P : Val → Prop} (hnone : P .none) {defaults : List (Str × Val)} {s : Styling}
    (hd : AllVals P defaults) (ha : AllVals P s.attrs) : P (deployStroke defaults s) := by
  have hdflt : P ((lookup defaults (s.styleName strokeKey)).getD .none) := by
    cases hl : lookup defaults (s.styleName strokeKey) with
    | none => exact hnone
    | some w => obtain ⟨q, hq, hqw⟩ := lookup_mem hl; simp only [Option.getD_some]; rw [← hqw]; exact hd q hq
  unfold deployStroke
  cases hl : lookup s.attrs strokeKey with
  | none => exact hdflt
  | some v =>
    obtain ⟨q, hq, hqw⟩ := lookup_mem hl
    have hv : P v := by rw [← hqw]; exact ha q hq
    cases v with
    | none => exact hdflt
    | color x => exact hv
    | str x => exact hv
    | num x => exact hv
    | grad x => exact hv
    | other x => exact hv

/-! ### the shape of every child of `<defs>` -/

/-- a child of `<defs>` is the fragment of a registered symbol, the renamed `Error` fragment (defining only its id), or a
marker / gradient (defining only its generated id) -/
def Shaped (symbols : List SymbolRow) (e : DefEl) : Prop :=
  (∃ n r, findSymbol symbols n = some r ∧ e = symEl r) ∨
  (∃ n, findSymbol symbols n = none ∧ e.id = n ++ symbolSuffix ∧ e.ids = [e.id]) ∨
  (e.ids = [e.id] ∧ GenShaped e.id)

def AllShaped (symbols : List SymbolRow) (st : DState) : Prop := ∀ e ∈ st.defs, Shaped symbols e

theorem AllShaped.note {symbols : List SymbolRow} {st : DState} (h : AllShaped symbols st) (b : Br) :
    AllShaped symbols (st.note b) := h

theorem AllShaped.push {symbols : List SymbolRow} {st : DState} (h : AllShaped symbols st) {e : DefEl}
    (he : Shaped symbols e) : AllShaped symbols (st.push e) := by
  intro e' he'
  simp only [push_defs, List.mem_append, List.mem_singleton] at he'
  rcases he' with he' | rfl
  · exact h e' he'
  · exact he

theorem guardLoop_shaped {symbols : List SymbolRow} {hit miss : Br} {f : Str → DState → Except Err DState}
    (hf : ∀ d st st', f d st = .ok st' → AllShaped symbols st → AllShaped symbols st') :
    ∀ (xs : List Str) (st st' : DState), guardLoop hit miss f xs st = .ok st' → AllShaped symbols st → AllShaped symbols st' := by
  intro xs
  induction xs with
  | nil => intro st st' h hi; simp only [guardLoop, Except.ok.injEq] at h; subst h; exact hi
  | cons d ds ih =>
    intro st st' h hi
    simp only [guardLoop] at h
    split at h
    · exact ih _ _ h (hi.note hit)
    · simp only [bind, Except.bind] at h
      cases hfd : f d (st.note miss) with
      | error e => rw [hfd] at h; cases h
      | ok st1 => rw [hfd] at h; exact ih _ _ h (hf _ _ _ hfd (hi.note miss))

theorem addDeco_shaped {symbols : List SymbolRow} (herrIds : errorIdsOK symbols = true) :
    ∀ (fuel : Nat) (name : Str) (st st' : DState), addDeco symbols fuel name st = .ok st' →
      AllShaped symbols st → AllShaped symbols st' := by
  intro fuel
  induction fuel with
  | zero => intro name st st' h; simp [addDeco] at h
  | succ fuel ih =>
    intro name st st' h hi
    unfold addDeco at h
    cases hfs : findSymbol symbols name with
    | some r =>
      rw [hfs] at h
      simp only [bind, Except.bind] at h
      cases hl : guardLoop .depCached .depNew (addDeco symbols fuel) r.deps ((st.push (symEl r)).note .decoRow) with
      | error e => rw [hl] at h; cases h
      | ok st2 =>
        rw [hl] at h
        simp only [pure, Except.pure, Except.ok.injEq] at h
        subst h
        have hh : AllShaped symbols st2 :=
          guardLoop_shaped (fun d a b => ih d a b) _ _ _ hl ((hi.push (.inl ⟨name, r, hfs, rfl⟩)).note _)
        exact hh
    | none =>
      rw [hfs] at h
      cases hfe : findSymbol symbols errorName with
      | none => rw [hfe] at h; cases h
      | some e =>
        rw [hfe] at h
        simp only [bind, Except.bind] at h
        cases hl : guardLoop .depCached .depNew (addDeco symbols fuel) e.deps
            ((st.push (fallbackEl name e)).note .decoFallback) with
        | error e' => rw [hl] at h; cases h
        | ok st2 =>
          rw [hl] at h
          simp only [pure, Except.pure, Except.ok.injEq] at h
          subst h
          have hids : (fallbackEl name e).ids = [(fallbackEl name e).id] := by
            unfold errorIdsOK at herrIds
            rw [hfe] at herrIds
            simp only [fallbackEl, List.cons.injEq, true_and, List.filter_eq_nil_iff]
            intro i hi'
            have := (List.all_eq_true.mp herrIds) i hi'
            simpa using this
          have hh : AllShaped symbols st2 := guardLoop_shaped (fun d a b => ih d a b) _ _ _ hl
            ((hi.push (.inr (.inl ⟨name, hfs, rfl, hids⟩))).note _)
          exact hh

theorem gradLoop_shaped {symbols : List SymbolRow} {defaults : List (Str × Val)} {s : Styling} :
    ∀ (ks : List (Str × Val)) (st st' : DState), (∀ kv ∈ ks, kv.2.upperOK = true) →
      gradLoop defaults s ks st = .ok st' → AllShaped symbols st → AllShaped symbols st' := by
  intro ks
  induction ks with
  | nil => intro st st' _ h hi; simp only [gradLoop, Except.ok.injEq] at h; subst h; exact hi
  | cons kv ks ih =>
    intro st st' hv h hi
    simp only [gradLoop, bind, Except.bind] at h
    cases h1 : gradStep defaults s st kv with
    | error e => rw [h1] at h; cases h
    | ok st1 =>
      rw [h1] at h
      refine ih _ _ (fun kv' hkv' => hv kv' (List.mem_cons_of_mem _ hkv')) h ?_
      unfold gradStep at h1
      split at h1
      · simp only [bind, Except.bind] at h1
        cases hh : hexOf (refStroke defaults s) with
        | error e => rw [hh] at h1; cases h1
        | ok x => rw [hh] at h1; simp only [pure, Except.pure, Except.ok.injEq] at h1; subst h1; exact hi.note _
      · have hkv := hv kv List.mem_cons_self
        split at h1
        · rename_i hs heq
          split at h1
          · simp only [pure, Except.pure, Except.ok.injEq] at h1; subst h1; exact hi.note _
          · simp only [pure, Except.pure, Except.ok.injEq] at h1; subst h1
            refine (hi.push (.inr (.inr ⟨rfl, ?_⟩))).note _
            rw [heq] at hkv
            simp only [Val.upperOK, List.all_eq_true] at hkv
            exact gradId_genShaped hs (fun h' hh' => List.all_eq_true.mpr (hkv h' hh'))
        · simp only [pure, Except.pure, Except.ok.injEq] at h1; subst h1; exact hi.note _

theorem markerStep_shaped {symbols : List SymbolRow} {defaults : List (Str × Val)} {markers : List MarkerRow} {s : Styling}
    {st st' : DState} {attr : Str} (hd : AllVals (fun v => v.upperOK = true) defaults)
    (ha : AllVals (fun v => v.upperOK = true) s.attrs)
    (h : markerStep defaults markers s st attr = .ok st') (hi : AllShaped symbols st) : AllShaped symbols st' := by
  unfold markerStep at h
  cases hm : deployMarkerName true defaults s attr with
  | none => rw [hm] at h; simp only [pure, Except.pure, Except.ok.injEq] at h; subst h; exact hi.note _
  | some v =>
    rw [hm] at h
    cases v with
    | none => simp only [pure, Except.pure, Except.ok.injEq] at h; subst h; exact hi.note _
    | str m' =>
      simp only [bind, Except.bind] at h
      cases hh : hexOf (deployStroke defaults s) with
      | error e => rw [hh] at h; cases h
      | ok hx =>
        rw [hh] at h
        simp only at h
        split at h
        · simp only [pure, Except.pure, Except.ok.injEq] at h; subst h; exact hi.note _
        · split at h
          · simp only [pure, Except.pure, Except.ok.injEq] at h; subst h
            refine (hi.push (.inr (.inr ⟨rfl, .inr ?_⟩))).note _
            have hup := hexOf_upper (deployStroke_p (P := fun v => v.upperOK = true) rfl hd ha) hh
            show ∃ c, (joinId m' [hx]).getLast? = some c ∧ genTail c = true
            exact tail_genShaped m' hx hup
          · cases h
    | color x => cases h
    | num x => cases h
    | grad x => cases h
    | other x => cases h

def StylesUpperOK (styles : List StyleEntry) : Prop := ∀ e ∈ styles, AllVals (fun v => v.upperOK = true) e.props

theorem deployDefs_shaped {symbols : List SymbolRow} {styles : List StyleEntry} {markers : List MarkerRow} {s : Styling}
    {st st' : DState} (hs : StylesUpperOK styles) (ha : AllVals (fun v => v.upperOK = true) s.attrs)
    (hd : deployDefs styles markers s st = .ok st') (hi : AllShaped symbols st) : AllShaped symbols st' := by
  unfold deployDefs at hd
  simp only [bind, Except.bind] at hd
  cases hg : getStyle styles s.dc s.cls with
  | error e => rw [hg] at hd; cases hd
  | ok defaults =>
    rw [hg] at hd
    simp only at hd
    have hdef := getStyle_allv hs hg
    cases hd0 : gradLoop defaults s (iterItems defaults s) st with
    | error e => rw [hd0] at hd; cases hd
    | ok st0 =>
      rw [hd0] at hd
      simp only at hd
      cases hd1 : markerStep defaults markers s st0 markerStart with
      | error e => rw [hd1] at hd; cases hd
      | ok st1 =>
        rw [hd1] at hd
        simp only at hd
        refine markerStep_shaped hdef ha hd (markerStep_shaped hdef ha hd1 (gradLoop_shaped _ _ _ ?_ hd0 hi))
        intro kv hkv
        unfold iterItems at hkv
        rcases List.mem_append.mp hkv with hkv | hkv
        · obtain ⟨a, _, rfl⟩ := List.mem_map.mp hkv
          rfl
        · exact ha kv ((mem_sortPairs _ _).mp hkv)

theorem drawObjectS_shaped {T : Tables} (herrIds : errorIdsOK T.symbols = true) (hs : StylesUpperOK T.styles)
    {dc : Option Str} {o : Obj} (ho : AllVals (fun v => v.upperOK = true) o.style) {st st' : DState} {d : DrawnS}
    (h : drawObjectS T dc o st = .ok (d, st')) (hi : AllShaped T.symbols st) : AllShaped T.symbols st' := by
  unfold drawObjectS at h
  simp only [bind, Except.bind] at h
  cases hg : getStyle T.styles dc (styleType o.kind ++ '.' :: o.cls) with
  | error e => rw [hg] at h; cases h
  | ok defaults =>
    rw [hg] at h
    simp only at h
    have hp := prepare_allv (P := fun v => v.upperOK = true) (by decide) (T := T) (dc := dc) (getStyle_allv hs hg) ho
    split at h
    · cases h
    · cases h1 : styleRefs T.styles (prepare T dc o defaults).objStyle with
      | error e => rw [h1] at h; cases h
      | ok shapeRefs =>
        rw [h1] at h; simp only at h
        cases h2 : textRefsOf T (prepare T dc o defaults) with
        | error e => rw [h2] at h; cases h
        | ok textRefs =>
          rw [h2] at h; simp only at h
          cases h3 : useLoop T.symbols (prepare T dc o defaults).uses st with
          | error e => rw [h3] at h; cases h
          | ok st1 =>
            rw [h3] at h; simp only at h
            cases h4 : deployDefs T.styles T.markers (prepare T dc o defaults).objStyle st1 with
            | error e => rw [h4] at h; cases h
            | ok st2 =>
              rw [h4] at h; simp only at h
              cases h5 : deployDefs T.styles T.markers (prepare T dc o defaults).textStyle st2 with
              | error e => rw [h5] at h; cases h
              | ok st3 =>
                rw [h5] at h
                simp only [pure, Except.pure, Except.ok.injEq, Prod.mk.injEq] at h
                obtain ⟨_, hst⟩ := h
                subst hst
                exact deployDefs_shaped hs hp.2 h5 (deployDefs_shaped hs hp.1 h4
                  (guardLoop_shaped (fun d a b => addDeco_shaped herrIds _ d a b) _ _ _ h3 hi))

theorem drawAllS_shaped {T : Tables} (herrIds : errorIdsOK T.symbols = true) (hs : StylesUpperOK T.styles) {dc : Option Str} :
    ∀ (os : List Obj) (st st' : DState) (ds : List DrawnS), (∀ o ∈ os, AllVals (fun v => v.upperOK = true) o.style) →
      drawAllS T dc os st = .ok (ds, st') → AllShaped T.symbols st → AllShaped T.symbols st' := by
  intro os
  induction os with
  | nil =>
    intro st st' ds _ h hi
    simp only [drawAllS, Except.ok.injEq, Prod.mk.injEq] at h
    obtain ⟨_, rfl⟩ := h
    exact hi
  | cons o os ih =>
    intro st st' ds ho h hi
    simp only [drawAllS, bind, Except.bind] at h
    cases h1 : drawObjectS T dc o st with
    | error e => rw [h1] at h; cases h
    | ok p1 =>
      obtain ⟨d, st1⟩ := p1
      rw [h1] at h
      simp only at h
      cases h2 : drawAllS T dc os st1 with
      | error e => rw [h2] at h; cases h
      | ok p2 =>
        obtain ⟨ds', st2⟩ := p2
        rw [h2] at h
        simp only [pure, Except.pure, Except.ok.injEq, Prod.mk.injEq] at h
        obtain ⟨_, rfl⟩ := h
        exact ih _ _ _ (fun o' ho' => ho o' (List.mem_cons_of_mem _ ho')) h2
          (drawObjectS_shaped herrIds hs (ho o List.mem_cons_self) h1 hi)

/-! ### from the shapes to: all ids pairwise different -/

theorem nodup_flatMap_of {α β : Type} (f : α → List β) : ∀ (l : List α), (∀ x ∈ l, (f x).Nodup) →
    l.Pairwise (fun a b => ∀ y ∈ f a, y ∉ f b) → (l.flatMap f).Nodup := by
  intro l
  induction l with
  | nil => intro _ _; exact List.nodup_nil
  | cons x xs ih =>
    intro hn hp
    rw [List.pairwise_cons] at hp
    rw [List.flatMap_cons, List.nodup_append]
    refine ⟨hn x List.mem_cons_self, ih (fun y hy => hn y (List.mem_cons_of_mem _ hy)) hp.2, ?_⟩
    intro a ha b hb hab
    obtain ⟨x', hx', hbx'⟩ := List.mem_flatMap.mp hb
    exact hp.1 x' hx' a ha (by rw [hab]; exact hbx')

theorem upperHex_hexDigit (c : Char) (h : upperHex c = true) : hexDigit c = true := by
  unfold upperHex at h
  unfold hexDigit
  simp only [Bool.or_eq_true] at h ⊢
  rcases h with h | h
  · exact .inl (.inl h)
  · exact .inr h

theorem upperOK_hexOK (v : Val) (h : v.upperOK = true) : v.hexOK = true := by
  cases v with
  | color x =>
    simp only [Val.upperOK, Val.hexOK, List.all_eq_true] at h ⊢
    exact fun c hc => upperHex_hexDigit c (h c hc)
  | grad hs =>
    simp only [Val.upperOK, Val.hexOK, List.all_eq_true] at h ⊢
    exact fun x hx c hc => upperHex_hexDigit c (h x hx c hc)
  | str x => rfl
  | num x => rfl
  | none => rfl
  | other x => rfl

/-- what `rowIdsOK` and `symbolWF` say about the fragment of a registered symbol -/
theorem row_facts {symbols : List SymbolRow} (hwf : ∀ r ∈ symbols, symbolWF symbols r = true)
    (hrows : symbols.all rowIdsOK = true) {n : Str} {r : SymbolRow} (hf : findSymbol symbols n = some r) :
    r ∈ symbols ∧ (symEl r).id = r.name ∧ r.ids.Nodup ∧
    ∀ x ∈ r.ids, ¬ GenShaped x ∧ (symbolSuffix <:+ x → x = r.name) := by
  obtain ⟨_, hm⟩ := findSymbol_name hf
  have hw := hwf r hm
  simp only [symbolWF, Bool.and_eq_true, decide_eq_true_eq] at hw
  have hr := (List.all_eq_true.mp hrows) r hm
  unfold rowIdsOK at hr
  simp only [Bool.and_eq_true, decide_eq_true_eq, List.all_eq_true] at hr
  refine ⟨hm, by simp [symEl, hw.1.1.1], hr.1, ?_⟩
  intro x hx
  obtain ⟨⟨h1, h2⟩, h3⟩ := hr.2 x hx
  constructor
  · rintro (hg | ⟨c, hc, hgt⟩)
    · simp [hg] at h2
    · rw [hc] at h1
      simp only [Bool.not_eq_true'] at h1
      rw [hgt] at h1; cases h1
  · intro hsuf
    simp only [Bool.or_eq_true, beq_iff_eq, Bool.not_eq_true'] at h3
    rcases h3 with h3 | h3
    · exact h3
    · have : symbolSuffix.isSuffixOf x = true := by simpa using hsuf
      rw [this] at h3; cases h3

theorem genShaped_not_symbol {x : Str} (hg : GenShaped x) : ¬ symbolSuffix <:+ x := by
  intro hs
  have hl := suffix_getLast hs
  rcases hg with rfl | ⟨c, hc, hgt⟩
  · revert hl; decide
  · rw [hc] at hl
    cases hl
    revert hgt; decide

/-- **all ids defined in `<defs>` are pairwise different** when the children's own ids are, every child has one of
the three shapes, the table rows are clean and no two deployed registered fragments share an id -/
theorem allIds_nodup {symbols : List SymbolRow} (hwf : ∀ r ∈ symbols, symbolWF symbols r = true)
    (hrows : symbols.all rowIdsOK = true) {defs : List DefEl} (hn : (defs.map (·.id)).Nodup)
    (hs : ∀ e ∈ defs, Shaped symbols e) (hc : noClash symbols (defs.map (·.id)) = true) :
    (defs.flatMap (·.ids)).Nodup := by
  apply nodup_flatMap_of
  · intro e he
    rcases hs e he with ⟨n, r, hf, rfl⟩ | ⟨n, _, _, hids⟩ | ⟨hids, _⟩
    · exact (row_facts hwf hrows hf).2.2.1
    · rw [hids]; simp
    · rw [hids]; simp
  · have hp : defs.Pairwise (fun a b => a.id ≠ b.id) := List.pairwise_map.mp hn
    refine List.Pairwise.imp_of_mem ?_ hp
    intro a b ha hb hab y hya hyb
    have hain : a.id ∈ defs.map (·.id) := List.mem_map.mpr ⟨a, ha, rfl⟩
    have hbin : b.id ∈ defs.map (·.id) := List.mem_map.mpr ⟨b, hb, rfl⟩
    rcases hs a ha with ⟨n1, r1, hf1, rfl⟩ | ⟨n1, hf1, hid1, hids1⟩ | ⟨hids1, hg1⟩
    · obtain ⟨hm1, hidr1, _, hx1⟩ := row_facts hwf hrows hf1
      rcases hs b hb with ⟨n2, r2, hf2, rfl⟩ | ⟨n2, hf2, hid2, hids2⟩ | ⟨hids2, hg2⟩
      · obtain ⟨hm2, hidr2, _, _⟩ := row_facts hwf hrows hf2
        unfold noClash at hc
        have := (List.all_eq_true.mp ((List.all_eq_true.mp hc) r1 hm1)) r2 hm2
        simp only [Bool.or_eq_true, Bool.not_eq_true', Bool.and_eq_false_iff, beq_iff_eq, List.all_eq_true] at this
        rw [hidr1] at hain hab
        rw [hidr2] at hbin hab
        rcases this with (h | h) | h
        · rcases h with h | h
          · have : (defs.map (·.id)).contains r1.name = true := by simpa using hain
            rw [this] at h; cases h
          · have : (defs.map (·.id)).contains r2.name = true := by simpa using hbin
            rw [this] at h; cases h
        · exact hab h
        · have := h y hya
          have hyb' : y ∈ r2.ids := hyb
          have hc2 : r2.ids.contains y = true := by simpa using hyb'
          rw [hc2] at this; cases this
      · rw [hids2] at hyb
        simp only [List.mem_singleton] at hyb
        have := (hx1 y hya).2 (by rw [hyb, hid2]; exact ⟨n2, rfl⟩)
        exact hab (by rw [hidr1, ← this, hyb])
      · rw [hids2] at hyb
        simp only [List.mem_singleton] at hyb
        exact (hx1 y hya).1 (by rw [hyb]; exact hg2)
    · rw [hids1] at hya
      simp only [List.mem_singleton] at hya
      rcases hs b hb with ⟨n2, r2, hf2, rfl⟩ | ⟨n2, hf2, hid2, hids2⟩ | ⟨hids2, hg2⟩
      · obtain ⟨hm2, hidr2, _, hx2⟩ := row_facts hwf hrows hf2
        have := (hx2 y hyb).2 (by rw [hya, hid1]; exact ⟨n1, rfl⟩)
        exact hab (by rw [hidr2, ← this, hya])
      · rw [hids2] at hyb
        simp only [List.mem_singleton] at hyb
        exact hab (by rw [← hya, hyb])
      · rw [hids2] at hyb
        simp only [List.mem_singleton] at hyb
        exact hab (by rw [← hya, hyb])
    · rw [hids1] at hya
      simp only [List.mem_singleton] at hya
      rcases hs b hb with ⟨n2, r2, hf2, rfl⟩ | ⟨n2, hf2, hid2, hids2⟩ | ⟨hids2, hg2⟩
      · obtain ⟨_, _, _, hx2⟩ := row_facts hwf hrows hf2
        exact (hx2 y hyb).1 (by rw [hya]; exact hg1)
      · rw [hids2] at hyb
        simp only [List.mem_singleton] at hyb
        exact hab (by rw [← hya, hyb])
      · rw [hids2] at hyb
        simp only [List.mem_singleton] at hyb
        exact hab (by rw [← hya, hyb])

end Capella.Svg
