import Capella.Lemmas.XmlLex
/-! How element text is written (`_serialize_text`, multi-line) and that it reads back. -/
namespace Capella.Xml

/-- what `_serialize_text(…, multiline=True)` writes for a non-empty text -/
def writtenText (t : Str) : Str := joinSep ['\n'] ((splitNl t).map escapeContent)

theorem splitNl_ne_nil (t : Str) : splitNl t ≠ [] := by
  cases t with
  | nil => simp [splitNl]
  | cons c rest =>
    simp only [splitNl]
    split
    · simp
    · split <;> simp

theorem joinSep_cons_cons (sep l : Str) (m : Str) (ls : List Str) :
    joinSep sep (l :: m :: ls) = l ++ sep ++ joinSep sep (m :: ls) := by
  simp [joinSep]

theorem joinSep_consChar (sep : Str) (c : Char) (l : Str) (ls : List Str) :
    joinSep sep ((c :: l) :: ls) = c :: joinSep sep (l :: ls) := by
  cases ls with
  | nil => simp [joinSep]
  | cons m ms => simp [joinSep]

theorem join_split (t : Str) : joinSep ['\n'] (splitNl t) = t := by
  induction t with
  | nil => simp [splitNl, joinSep]
  | cons c rest ih =>
    simp only [splitNl]
    split
    · rename_i hc
      subst hc
      cases h : splitNl rest with
      | nil => exact absurd h (splitNl_ne_nil rest)
      | cons m ms => rw [joinSep_cons_cons, ← h, ih]; rfl
    · split
      · rename_i l ls heq
        rw [joinSep_consChar, ← heq, ih]
      · rename_i heq; exact absurd heq (splitNl_ne_nil rest)

theorem mem_splitNl {t l : Str} (hl : l ∈ splitNl t) : ∀ c ∈ l, c ∈ t := by
  induction t generalizing l with
  | nil => simp [splitNl] at hl; subst hl; simp
  | cons x rest ih =>
    simp only [splitNl] at hl
    split at hl
    · rcases List.mem_cons.mp hl with h | h
      · subst h; simp
      · intro c hc; exact List.mem_cons_of_mem _ (ih h c hc)
    · split at hl
      · rename_i m ms heq
        rcases List.mem_cons.mp hl with h | h
        · subst h
          intro c hc
          rcases List.mem_cons.mp hc with h1 | h1
          · subst h1; exact List.mem_cons_self
          · exact List.mem_cons_of_mem _ (ih (by rw [heq]; exact List.mem_cons_self) c h1)
        · intro c hc
          exact List.mem_cons_of_mem _ (ih (by rw [heq]; exact List.mem_cons_of_mem _ h) c hc)
      · rename_i heq; exact absurd heq (splitNl_ne_nil rest)

/-- `_escape` followed by anything: the escaped part reads back first -/
theorem unescGo_escapeC_append (strict : Bool) (s : Str) (hx : strict = true → s.all xmlChar = true)
    (nb : Nat) (k : Str) :
    unescGo strict (escapeC isEscText nb s ++ k) none = (unescGo strict k none).map (s ++ ·) := by
  induction s generalizing nb with
  | nil => simp [escapeC]
  | cons c rest ih =>
    have hx' : strict = true → rest.all xmlChar = true := fun h => by
      have := hx h; simp only [List.all_cons, Bool.and_eq_true] at this; exact this.2
    have hc : strict = true → xmlChar c = true := fun h => by
      have := hx h; simp only [List.all_cons, Bool.and_eq_true] at this; exact this.1
    unfold escapeC
    simp only
    split
    · rename_i hcls
      have hcls' : isEscText c = true ∨ c = '>' := by
        simp only [Bool.or_eq_true, Bool.and_eq_true, beq_iff_eq] at hcls
        rcases hcls with h | h
        · exact Or.inl h
        · exact Or.inr h.1
      rw [List.append_assoc, unescGo_escapeChar strict c _ hcls' hc, ih hx']
      cases unescGo strict k none <;> simp
    · rename_i hcls
      have hne : c ≠ '&' := by
        rintro rfl; simp [amp_isEscText] at hcls
      simp only [List.cons_append, unescGo, hne, ↓reduceIte, ih hx']
      cases unescGo strict k none <;> simp

theorem unescGo_lines (strict : Bool) (L : List Str)
    (hx : strict = true → ∀ l ∈ L, l.all xmlChar = true) (hne : L ≠ []) :
    unescGo strict (joinSep ['\n'] (L.map escapeContent)) none = some (joinSep ['\n'] L) := by
  induction L with
  | nil => exact absurd rfl hne
  | cons l ls ih =>
    cases ls with
    | nil =>
      simp only [List.map, joinSep, escapeContent_eq]
      exact unescGo_escapeC strict l (fun h => hx h l List.mem_cons_self) 0
    | cons m ms =>
      simp only [List.map, joinSep_cons_cons, escapeContent_eq, List.append_assoc]
      rw [unescGo_escapeC_append strict l (fun h => hx h l List.mem_cons_self) 0]
      have := ih (fun h x hx' => hx h x (List.mem_cons_of_mem _ hx')) (by simp)
      simp only [List.map, escapeContent_eq] at this
      simp only [List.singleton_append, unescGo, show ('\n' : Char) ≠ '&' by decide, ↓reduceIte, this]
      simp

/-- written text reads back as the text -/
theorem writtenText_reads (t : Str) (hx : t.all xmlChar = true) :
    unescapeXml (writtenText t) = some t := by
  unfold writtenText unescapeXml
  rw [unescGo_lines true (splitNl t) (fun _ l hl => by
    simp only [List.all_eq_true] at hx ⊢
    intro c hc; exact hx c (mem_splitNl hl c hc)) (splitNl_ne_nil t), join_split]

theorem mem_joinSep {sep : Str} {L : List Str} {c : Char} (h : c ∈ joinSep sep L) :
    c ∈ sep ∨ ∃ l ∈ L, c ∈ l := by
  induction L with
  | nil => simp [joinSep] at h
  | cons l ls ih =>
    cases ls with
    | nil => simp only [joinSep] at h; exact Or.inr ⟨l, List.mem_cons_self, h⟩
    | cons m ms =>
      rw [joinSep_cons_cons] at h
      simp only [List.mem_append] at h
      rcases h with (h | h) | h
      · exact Or.inr ⟨l, List.mem_cons_self, h⟩
      · exact Or.inl h
      · rcases ih h with h' | ⟨x, hx, hc⟩
        · exact Or.inl h'
        · exact Or.inr ⟨x, List.mem_cons_of_mem _ hx, hc⟩

theorem writtenText_chars (t : Str) : ∀ c ∈ writtenText t, c ≠ '<' ∧ c ≠ '\r' := by
  intro c hc
  rcases mem_joinSep hc with h | ⟨l, hl, hcl⟩
  · simp only [List.mem_singleton] at h; subst h; decide
  · simp only [List.mem_map] at hl
    obtain ⟨x, _, rfl⟩ := hl
    rw [escapeContent_eq] at hcl
    have := escapeC_safe x 0 c hcl
    refine ⟨this.2.1, ?_⟩
    rintro rfl
    exact absurd this.2.2 (by decide)

theorem hasCdataEnd_lines (L : List Str) (h : ∀ l ∈ L, hasCdataEnd l = false) :
    hasCdataEnd (joinSep ['\n'] L) = false := by
  induction L with
  | nil => simp [joinSep, hasCdataEnd]
  | cons l ls ih =>
    cases ls with
    | nil => simpa [joinSep] using h l List.mem_cons_self
    | cons m ms =>
      rw [joinSep_cons_cons, List.append_assoc, List.singleton_append,
        hasCdataEnd_sep _ _ (by decide) (by decide), h l List.mem_cons_self,
        ih (fun x hx => h x (List.mem_cons_of_mem _ hx))]
      rfl

theorem writtenText_no_cdata_end (t : Str) : hasCdataEnd (writtenText t) = false := by
  apply hasCdataEnd_lines
  intro l hl
  simp only [List.mem_map] at hl
  obtain ⟨x, _, rfl⟩ := hl
  rw [escapeContent_eq]
  simpa using hasCdataEnd_escapeC x 0 (by omega)

theorem writtenText_ne_nil (t : Str) (hx : t.all xmlChar = true) (ht : t ≠ []) : writtenText t ≠ [] := by
  intro h
  have := writtenText_reads t hx
  rw [h] at this
  simp [unescapeXml, unescGo] at this
  exact ht this

/-- `_serialize_text(buffer, text, multiline=True)` for a non-empty text -/
theorem serText_multiline (t : Str) (ht : t ≠ []) (pos : Nat) :
    (serText escapeContent true (some t) pos).1 = writtenText t := by
  cases t with
  | nil => exact absurd rfl ht
  | cons c cs => simp [serText, writtenText]

/-! ### white space between elements -/

theorem unescGo_no_amp (strict : Bool) (s : Str) (h : '&' ∉ s) : unescGo strict s none = some s := by
  induction s with
  | nil => simp [unescGo]
  | cons c rest ih =>
    have hc : c ≠ '&' := fun hc => h (by simp [hc])
    simp [unescGo, hc, ih (fun hm => h (List.mem_cons_of_mem _ hm))]

theorem mem_nl_ind {n : Nat} {c : Char} (h : c ∈ '\n' :: ind n) : c = '\n' ∨ c = ' ' := by
  simp only [ind, List.mem_cons, List.mem_replicate] at h
  rcases h with h | h
  · exact Or.inl h
  · exact Or.inr h.2

/-- the line break + indentation the writer puts between elements is one (blank) text token -/
theorem nextTok_nl_ind (n : Nat) (Y : Str) :
    nextTok (('\n' :: ind n) ++ '<' :: Y) = .tok (.text ('\n' :: ind n)) ('<' :: Y) := by
  apply nextTok_text
  · simp
  · simp only [List.all_eq_true, bne_iff_ne, ne_eq]
    intro c hc; rcases mem_nl_ind hc with h | h <;> subst h <;> decide
  · apply hasCdataEnd_no_gt
    intro hc; rcases mem_nl_ind hc with h | h <;> exact absurd h (by decide)
  · intro hc; rcases mem_nl_ind hc with h | h <;> exact absurd h (by decide)
  · apply unescGo_no_amp
    intro hc; rcases mem_nl_ind hc with h | h <;> exact absurd h (by decide)

end Capella.Xml
