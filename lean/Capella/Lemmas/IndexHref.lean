import Capella.Lemmas.Index

/-! The third hand-maintained index, `__hrefsources` (placeholder of a fragmented element, keyed by the
id its `href` names), obeys the same protocol: consistent after load, kept by attach/detach. -/
namespace Capella.Index

/-- last entry whose `href` names `h` (dict-overwrite order of `idcache_rebuild`) -/
def scanHref (t : List Entry) (h : String) : Option Nat :=
  match t with
  | [] => none
  | e :: es => match scanHref es h with
    | some n => some n
    | none => if e.href = some h then some e.nid else none

def scanHrefs (t : List Entry) : List String := t.filterMap (·.href)

def HrefConsistent (f : Frag) : Prop := ∀ h, dget f.hrefs h = scanHref f.tree h

theorem scanHref_append (a b : List Entry) (h : String) :
    scanHref (a ++ b) h = match scanHref b h with
      | some n => some n
      | none => scanHref a h := by
  induction a with
  | nil => simp only [List.nil_append, scanHref]; cases scanHref b h <;> rfl
  | cons e es ih =>
    simp only [List.cons_append, scanHref, ih]
    cases scanHref b h <;> simp

theorem scanHref_none_iff (t : List Entry) (h : String) : scanHref t h = none ↔ h ∉ scanHrefs t := by
  induction t with
  | nil => simp [scanHref, scanHrefs]
  | cons e es ih =>
    simp only [scanHref, scanHrefs, List.filterMap_cons]
    unfold scanHrefs at ih
    cases hs : scanHref es h with
    | some n =>
      have hmem : h ∈ List.filterMap (·.href) es := by
        apply Classical.byContradiction
        intro hn
        have := ih.mpr hn
        rw [hs] at this
        cases this
      cases he : e.href <;> simp [hmem]
    | none =>
      have h' := ih.mp hs
      cases he : e.href with
      | none => simp [h']
      | some x =>
        by_cases hx : x = h
        · subst hx; simp
        · have : ¬ h = x := fun hh => hx hh.symm
          simp [hx, this, h']

theorem scanHref_some_mem (t : List Entry) (h : String) (n : Nat) (hs : scanHref t h = some n) :
    ∃ e ∈ t, e.nid = n ∧ e.href = some h := by
  induction t with
  | nil => simp [scanHref] at hs
  | cons e es ih =>
    simp only [scanHref] at hs
    cases hh : scanHref es h with
    | some m =>
      rw [hh] at hs
      simp only [Option.some.injEq] at hs
      subst hs
      obtain ⟨e', he', h1, h2⟩ := ih hh
      exact ⟨e', List.mem_cons_of_mem _ he', h1, h2⟩
    | none =>
      rw [hh] at hs
      simp only at hs
      by_cases hk : e.href = some h
      · simp only [hk, if_true, Option.some.injEq] at hs
        exact ⟨e, List.mem_cons_self, hs, hk⟩
      · simp [hk] at hs

theorem scanHref_of_mem (t : List Entry) (hn : (scanHrefs t).Nodup) (e : Entry) (he : e ∈ t)
    (h : String) (hk : e.href = some h) : scanHref t h = some e.nid := by
  induction t with
  | nil => simp at he
  | cons a as ih =>
    simp only [scanHref]
    rcases List.mem_cons.mp he with rfl | he'
    · have : h ∉ scanHrefs as := by
        simp only [scanHrefs, List.filterMap_cons, hk, List.nodup_cons] at hn
        exact hn.1
      rw [(scanHref_none_iff as h).mpr this]
      simp [hk]
    · have hn' : (scanHrefs as).Nodup := by
        simp only [scanHrefs, List.filterMap_cons] at hn
        cases ha : a.href with
        | none => simpa [ha, scanHrefs] using hn
        | some x => rw [ha] at hn; exact (List.nodup_cons.mp hn).2
      rw [ih hn' he']

theorem scanHref_filter (t : List Entry) (p : Entry → Bool) (h : String)
    (hp : ∀ e ∈ t, p e = false → e.href ≠ some h) :
    scanHref (t.filter p) h = scanHref t h := by
  induction t with
  | nil => rfl
  | cons e es ih =>
    have ih' := ih (fun e' he' => hp e' (List.mem_cons_of_mem _ he'))
    simp only [List.filter_cons]
    cases hpe : p e with
    | true => simp only [if_true, scanHref, ih']
    | false =>
      have : e.href ≠ some h := hp e List.mem_cons_self hpe
      simp only [Bool.false_eq_true, if_false, scanHref, ih', this]
      cases scanHref es h <;> rfl

/-! effect of the index routines on `hrefs` -/

theorem indexEntry_hrefs (f f' : Frag) (e : Entry) (h : indexEntry f e = .ok f') (k : String) :
    dget f'.hrefs k = if e.href = some k then some e.nid else dget f.hrefs k := by
  unfold indexEntry at h
  simp only [bind, Except.bind, pure, Except.pure] at h
  split at h
  · cases h
  · simp only [Except.ok.injEq] at h
    subst h
    cases he : e.href with
    | none => simp
    | some x =>
      simp only [dget_dset, Option.some.injEq]
      by_cases hx : k = x
      · subst hx; simp
      · have : ¬ x = k := fun hh => hx hh.symm
        simp [hx, this]

theorem idcacheIndex_hrefs (seg : List Entry) (f f' : Frag) (h : idcacheIndex f seg = .ok f') (k : String) :
    dget f'.hrefs k = match scanHref seg k with
      | some n => some n
      | none => dget f.hrefs k := by
  induction seg generalizing f with
  | nil => simp only [idcacheIndex, Except.ok.injEq] at h; subst h; simp [scanHref]
  | cons e es ih =>
    simp only [idcacheIndex, bind, Except.bind] at h
    split at h
    · cases h
    · rename_i f1 h1
      rw [ih f1 h, indexEntry_hrefs f f1 e h1 k]
      simp only [scanHref]
      cases scanHref es k with
      | some n => rfl
      | none => by_cases hk : e.href = some k <;> simp [hk]

theorem removeEntry_hrefs (f f' : Frag) (e : Entry) (h : removeEntry f e = .ok f') (k : String) :
    dget f'.hrefs k = if e.href = some k then none else dget f.hrefs k := by
  unfold removeEntry at h
  simp only [Except.ok.injEq] at h
  subst h
  cases he : e.href with
  | none => simp
  | some x =>
    simp only [dget_ddel, Option.some.injEq]
    by_cases hx : k = x
    · subst hx; simp
    · have : ¬ x = k := fun hh => hx hh.symm
      simp [hx, this]

theorem idcacheRemove_hrefs (seg : List Entry) (f f' : Frag) (h : idcacheRemove f seg = .ok f') (k : String) :
    dget f'.hrefs k = if k ∈ scanHrefs seg then none else dget f.hrefs k := by
  induction seg generalizing f with
  | nil => simp only [idcacheRemove, Except.ok.injEq] at h; subst h; simp [scanHrefs]
  | cons e es ih =>
    simp only [idcacheRemove, bind, Except.bind] at h
    split at h
    · cases h
    · rename_i f1 h1
      rw [ih f1 h, removeEntry_hrefs f f1 e h1 k]
      have hcons : k ∈ scanHrefs (e :: es) ↔ (e.href = some k ∨ k ∈ scanHrefs es) := by
        simp only [scanHrefs, List.mem_filterMap, List.mem_cons, exists_eq_or_imp]
      by_cases hm : k ∈ scanHrefs es
      · have : k ∈ scanHrefs (e :: es) := hcons.mpr (Or.inr hm)
        simp [hm, this]
      · by_cases hx : e.href = some k
        · have : k ∈ scanHrefs (e :: es) := hcons.mpr (Or.inl hx)
          simp [hm, hx, this]
        · have : k ∉ scanHrefs (e :: es) := fun hh => (hcons.mp hh).elim hx hm
          simp [hm, hx, this]

theorem rebuild_hrefConsistent (f f' : Frag) (h : idcacheRebuild f = .ok f') : HrefConsistent f' := by
  unfold idcacheRebuild at h
  intro k
  rw [idcacheIndex_hrefs _ _ _ h k, (idcacheIndex_spec _ _ _ h).1]
  simp only [dget]
  cases scanHref f.tree k <;> rfl

theorem attach_hrefConsistent (f f' : Frag) (pos : Nat) (seg : List Entry)
    (hc : HrefConsistent f) (hfresh : ∀ k ∈ scanHrefs seg, k ∉ scanHrefs f.tree)
    (h : attach f pos seg = .ok f') : HrefConsistent f' := by
  unfold attach at h
  intro k
  rw [idcacheIndex_hrefs _ _ _ h k, (idcacheIndex_spec _ _ _ h).1]
  have hfk : dget (insertSeg f pos seg).hrefs k = dget f.hrefs k := rfl
  rw [hfk, hc k]
  simp only [insertSeg, scanHref_append]
  cases hs : scanHref seg k with
  | some n =>
    obtain ⟨e, he, _, hk⟩ := scanHref_some_mem _ _ _ hs
    have hkseg : k ∈ scanHrefs seg := by
      simp only [scanHrefs, List.mem_filterMap]; exact ⟨e, he, hk⟩
    have hd : scanHref (f.tree.drop pos) k = none := by
      rw [scanHref_none_iff]
      intro hm
      apply hfresh k hkseg
      simp only [scanHrefs, List.mem_filterMap] at hm ⊢
      obtain ⟨e', he', hk'⟩ := hm
      exact ⟨e', List.mem_of_mem_drop he', hk'⟩
    simp [hd]
  | none =>
    have : scanHref f.tree k = scanHref (f.tree.take pos ++ f.tree.drop pos) k := by
      rw [List.take_append_drop]
    rw [this, scanHref_append]

theorem detach_hrefConsistent (f f' : Frag) (seg : List Entry)
    (hc : HrefConsistent f) (hh : (scanHrefs f.tree).Nodup) (hnids : (f.tree.map (·.nid)).Nodup)
    (hseg : SegOf seg f.tree) (h : detach f seg = .ok f') : HrefConsistent f' := by
  unfold detach at h
  simp only [bind, Except.bind, pure, Except.pure] at h
  split at h
  · cases h
  · rename_i f1 h1
    simp only [Except.ok.injEq] at h
    subst h
    have t := (idcacheRemove_spec _ _ _ h1).1
    have hin : ∀ e ∈ f.tree, seg.any (·.nid == e.nid) = true → e ∈ seg := by
      intro e he hany
      simp only [List.any_eq_true, beq_iff_eq] at hany
      obtain ⟨s, hs, hsn⟩ := hany
      exact (nodup_map_inj f.tree hnids s e (hseg s hs) he hsn) ▸ hs
    intro k
    have hfk : dget (removeSeg f1 seg).hrefs k = dget f1.hrefs k := rfl
    have htree : (removeSeg f1 seg).tree = f.tree.filter (fun e => !(seg.any (·.nid == e.nid))) := by
      simp [removeSeg, t]
    rw [hfk, idcacheRemove_hrefs _ _ _ h1 k, htree, hc k]
    by_cases hk : k ∈ scanHrefs seg
    · simp only [hk, if_true]
      symm
      rw [scanHref_none_iff]
      intro hm
      simp only [scanHrefs, List.mem_filterMap, List.mem_filter, Bool.not_eq_true', Bool.eq_false_iff] at hm hk
      obtain ⟨e, ⟨he, hne⟩, hke⟩ := hm
      obtain ⟨s, hs, hks⟩ := hk
      have h1' := scanHref_of_mem f.tree hh e he k hke
      have h2' := scanHref_of_mem f.tree hh s (hseg s hs) k hks
      rw [h1'] at h2'
      simp only [Option.some.injEq] at h2'
      apply hne
      simp only [List.any_eq_true, beq_iff_eq]
      exact ⟨s, hs, h2'.symm⟩
    · simp only [hk, if_false]
      symm
      apply scanHref_filter
      intro e he hp
      simp only [Bool.not_eq_false'] at hp
      have hes := hin e he hp
      intro hke
      apply hk
      simp only [scanHrefs, List.mem_filterMap]
      exact ⟨e, hes, hke⟩

end Capella.Index
