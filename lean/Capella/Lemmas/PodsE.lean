import Capella.Lemmas.Pods
namespace Capella.Pods

variable {P : Params}

theorem codec_none (d : Desc) : CodecOk P d .none :=
  Or.inr ⟨Or.inl rfl, by simp [denote]; exact Same.rfl' _⟩

theorem codec_string (a : Str) (w : Bool) (s : Str) (hv : xmlOk s = true) :
    CodecOk P ⟨.string, a, w⟩ (.str s) := by
  cases s with
  | nil => exact Or.inr ⟨Or.inr (by simp [neDefault]), by simp [denote, defaultVal]; exact Same.rfl' _⟩
  | cons c r =>
    exact Or.inl ⟨rfl, by simp [neDefault], _, rfl, hv, _, rfl, by simp [denote]; exact Same.rfl' _⟩

theorem codec_selector (a : Str) (w : Bool) (s : Str) (hv : xmlOk s = true) :
    CodecOk P ⟨.selector, a, w⟩ (.selector s) := by
  cases s with
  | nil => exact Or.inr ⟨Or.inr (by simp [neDefault]), by simp [denote, defaultVal]; exact Same.rfl' _⟩
  | cons c r =>
    exact Or.inl ⟨rfl, by simp [neDefault], _, rfl, hv, _, rfl, by simp [denote]; exact Same.rfl' _⟩

theorem codec_selector_str (a : Str) (w : Bool) (s : Str) (hv : xmlOk s = true) :
    CodecOk P ⟨.selector, a, w⟩ (.str s) :=
  Or.inl ⟨rfl, by simp [neDefault], _, rfl, hv, _, rfl, by simp [denote]; exact Same.rfl' _⟩

theorem codec_bool (a : Str) (w : Bool) (b : Bool) : CodecOk P ⟨.bool, a, w⟩ (.bool b) := by
  cases b with
  | false => exact Or.inr ⟨Or.inr (by simp [neDefault, neZero]), by simp [denote, defaultVal]; exact Same.rfl' _⟩
  | true =>
    exact Or.inl ⟨rfl, by simp [neDefault, neZero], _, rfl, by decide, _, rfl,
      by simp [denote, boolStr]; exact Same.rfl' _⟩

theorem codec_int (a : Str) (w : Bool) (i : Int) : CodecOk P ⟨.int, a, w⟩ (.int i) := by
  by_cases h : i = 0
  · subst h
    exact Or.inr ⟨Or.inr (by simp [neDefault, neZero]), by simp [denote, defaultVal]; exact Same.rfl' _⟩
  · refine Or.inl ⟨rfl, by simp [neDefault, neZero, h], pyIntRepr i, rfl, xmlOk_pyIntRepr i, .int i, ?_, ?_⟩
    · simp [fromXml, pyIntParse_repr]
    · simp [denote]; exact Same.rfl' _

theorem codec_int_bool (a : Str) (w : Bool) (b : Bool) : CodecOk P ⟨.int, a, w⟩ (.bool b) := by
  cases b with
  | false => exact Or.inr ⟨Or.inr (by simp [neDefault, neZero]), by simp [denote, defaultVal]; exact Same.rfl' _⟩
  | true =>
    refine Or.inl ⟨rfl, by simp [neDefault, neZero], pyIntRepr 1, rfl, xmlOk_pyIntRepr 1, .int 1, ?_, ?_⟩
    · simp [fromXml, pyIntParse_repr]
    · simp [denote]; exact Same.rfl' _

end Capella.Pods
