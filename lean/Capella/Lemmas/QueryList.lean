import Capella.Model.QueryList
import Capella.Lemmas.Query
/-!
Helper lemmas about `Capella.QList` (the `ElementList` model).  Core Lean only.
-/
namespace Capella.QList
open Capella.Query

/-! ### attribute paths -/

theorem getPath_append (w : World) : ∀ (p q : List Str) (v : PyVal),
    getPath w v (p ++ q) = (getPath w v p).bind (fun u => getPath w u q) := by
  intro p
  induction p with
  | nil => intro q v; simp [getPath]
  | cons a r ih =>
    intro q v
    cases v with
    | obj n =>
      simp only [List.cons_append, getPath]
      cases hw : w n a with
      | none => simp
      | some u => simp only []; exact ih q u
    | atom _ => simp [getPath]
    | objs _ => simp [getPath]
    | atoms _ => simp [getPath]

theorem splitDots_ne_nil : ∀ s : Str, splitDots s ≠ [] := by
  intro s
  induction s with
  | nil => simp [splitDots]
  | cons c r ih =>
    unfold splitDots
    cases h : splitDots r with
    | nil => simp
    | cons a t => simp only []; split <;> simp

/-- `"a.b".split(".") = "a".split(".") + "b".split(".")` -/
theorem splitDots_dot (a b : Str) : splitDots (a ++ '.' :: b) = splitDots a ++ splitDots b := by
  induction a with
  | nil =>
    simp only [List.nil_append]
    cases h : splitDots b with
    | nil => exact absurd h (splitDots_ne_nil b)
    | cons x t => simp [splitDots, h]
  | cons c r ih =>
    simp only [List.cons_append]
    rw [splitDots, ih]
    conv => rhs; rw [splitDots]
    cases h : splitDots r with
    | nil => exact absurd h (splitDots_ne_nil r)
    | cons x t =>
      simp only [List.cons_append]
      split <;> simp

/-! ### by / exclude are the two halves of one predicate -/

theorem ismatchE_neg (w : World) (path : List Str) (s1 s2 lc : Bool) (x : Nat) (vals : List Atom) :
    ismatchE w ⟨path, false, s2, lc⟩ x vals =
      (match ismatchE w ⟨path, true, s1, lc⟩ x vals with
       | .ok b => .ok (!b)
       | .error e => .error e) := by
  have hk : extractKey w ⟨path, false, s2, lc⟩ x = extractKey w ⟨path, true, s1, lc⟩ x := by
    simp only [extractKey]
  unfold ismatchE
  rw [hk]
  cases hx : extractKey w ⟨path, true, s1, lc⟩ x with
  | error e => cases e <;> simp
  | ok k => simp only []; rw [ismatch_complement_repaired]

/-- the predicate both halves share: `none` = the call raises at this element -/
def matchFlag (w : World) (f : Filter) (vals : List Atom) (x : Nat) : Bool :=
  match ismatchE w f x vals with
  | .ok b => b
  | .error _ => false

theorem matchesE_ok (w : World) (f : Filter) (vals : List Atom) :
    ∀ (l ms : List Nat), matchesE w f vals l = .ok ms → ms = l.filter (matchFlag w f vals) := by
  intro l
  induction l with
  | nil => intro ms h; simp only [matchesE] at h; cases h; rfl
  | cons x r ih =>
    intro ms h
    unfold matchesE at h
    cases hx : ismatchE w f x vals with
    | error e => rw [hx] at h; cases h
    | ok b =>
      rw [hx] at h
      cases hr : matchesE w f vals r with
      | error e => rw [hr] at h; cases h
      | ok t =>
        rw [hr] at h
        simp only [] at h
        have := ih t hr
        cases h
        cases b
        · rw [List.filter_cons_of_neg (by simp [matchFlag, hx])]; exact this
        · rw [List.filter_cons_of_pos (by simp [matchFlag, hx])]; simp [this]

theorem matchesE_neg (w : World) (path : List Str) (s1 s2 lc : Bool) (vals : List Atom) :
    ∀ l : List Nat,
      matchesE w ⟨path, false, s2, lc⟩ vals l =
        (match matchesE w ⟨path, true, s1, lc⟩ vals l with
         | .ok _ => .ok (l.filter (fun x => !matchFlag w ⟨path, true, s1, lc⟩ vals x))
         | .error e => .error e) := by
  intro l
  induction l with
  | nil => simp [matchesE]
  | cons x r ih =>
    unfold matchesE
    rw [ismatchE_neg w path s1 s2 lc x vals]
    cases hx : ismatchE w ⟨path, true, s1, lc⟩ x vals with
    | error e => simp
    | ok b =>
      simp only []
      rw [ih]
      cases hr : matchesE w ⟨path, true, s1, lc⟩ vals r with
      | error e => simp
      | ok t =>
        simp only []
        cases b
        · rw [List.filter_cons_of_pos (by simp [matchFlag, hx])]; simp
        · rw [List.filter_cons_of_neg (by simp [matchFlag, hx])]; simp

theorem valuesOf_pol (path : List Str) (p1 p2 s1 s2 lc : Bool) (vals : List Atom) :
    valuesOf ⟨path, p1, s1, lc⟩ vals = valuesOf ⟨path, p2, s2, lc⟩ vals := by
  simp only [valuesOf]

/-! ### `__iter__` -/

theorem iterKeys_spec (w : World) (f : Filter) :
    ∀ (l : List Nat) (yielded ks : List Atom), iterKeys w f l yielded = .ok ks →
      ks.Nodup ∧ (∀ a ∈ ks, a ∉ yielded) ∧
      (∀ a, a ∈ ks ↔ a ∉ yielded ∧ ∃ x ∈ l, extractKey w f x = .ok (.atom a)) ∧
      (∀ x ∈ l, ∃ a, extractKey w f x = .ok (.atom a)) := by
  intro l
  induction l with
  | nil =>
    intro yielded ks h
    simp only [iterKeys] at h
    cases h
    simp
  | cons x r ih =>
    intro yielded ks h
    unfold iterKeys at h
    cases hx : extractKey w f x with
    | error e => rw [hx] at h; cases h
    | ok v =>
      rw [hx] at h
      cases v with
      | many m => cases h
      | atom a =>
        simp only [] at h
        by_cases hh : (!hashable a) = true
        · rw [if_pos hh] at h; cases h
        rw [if_neg hh] at h
        by_cases hy : yielded.contains a = true
        · rw [if_pos hy] at h
          obtain ⟨h1, h2, h3, h4⟩ := ih yielded ks h
          refine ⟨h1, h2, ?_, ?_⟩
          · intro b
            rw [h3 b]
            constructor
            · rintro ⟨hb, y, hyr, hey⟩
              exact ⟨hb, y, List.mem_cons_of_mem _ hyr, hey⟩
            · rintro ⟨hb, y, hyr, hey⟩
              refine ⟨hb, ?_⟩
              cases List.mem_cons.mp hyr with
              | inl he =>
                subst he
                rw [hx] at hey
                cases hey
                exact absurd (by simpa using hy) hb
              | inr hr => exact ⟨y, hr, hey⟩
          · intro y hyr
            cases List.mem_cons.mp hyr with
            | inl he => subst he; exact ⟨a, hx⟩
            | inr hr => exact h4 y hr
        · rw [if_neg hy] at h
          cases hr : iterKeys w f r (a :: yielded) with
          | error e => rw [hr] at h; cases h
          | ok t =>
            rw [hr] at h
            simp only [] at h
            cases h
            obtain ⟨h1, h2, h3, h4⟩ := ih (a :: yielded) t hr
            have hay : a ∉ yielded := by simpa using hy
            refine ⟨?_, ?_, ?_, ?_⟩
            · refine List.nodup_cons.mpr ⟨?_, h1⟩
              intro hm
              exact h2 a hm (List.mem_cons_self ..)
            · intro b hb
              cases List.mem_cons.mp hb with
              | inl he => subst he; exact hay
              | inr hbt => exact fun hm => h2 b hbt (List.mem_cons_of_mem _ hm)
            · intro b
              constructor
              · intro hb
                cases List.mem_cons.mp hb with
                | inl he => subst he; exact ⟨hay, x, List.mem_cons_self .., hx⟩
                | inr hbt =>
                  obtain ⟨hb1, y, hyr, hey⟩ := (h3 b).mp hbt
                  exact ⟨fun hm => hb1 (List.mem_cons_of_mem _ hm), y, List.mem_cons_of_mem _ hyr, hey⟩
              · rintro ⟨hb, y, hyr, hey⟩
                by_cases hba : b = a
                · subst hba; exact List.mem_cons_self ..
                · refine List.mem_cons_of_mem _ ((h3 b).mpr ⟨?_, ?_⟩)
                  · intro hm
                    cases List.mem_cons.mp hm with
                    | inl he => exact hba he
                    | inr hm' => exact hb hm'
                  · cases List.mem_cons.mp hyr with
                    | inl he =>
                      subst he
                      rw [hx] at hey
                      cases hey
                      exact absurd rfl hba
                    | inr hr' => exact ⟨y, hr', hey⟩
            · intro y hyr
              cases List.mem_cons.mp hyr with
              | inl he => subst he; exact ⟨a, hx⟩
              | inr hr' => exact h4 y hr'

/-! ### `filter(path)` -/

theorem filterPath_ok (w : World) (path : List Str) :
    ∀ (l r : List Nat), filterPath w path l = .ok r →
      (∀ x ∈ l, (pathOf w x path).isSome = true) ∧
      r = l.filter (truthyAt w path) := by
  intro l
  induction l with
  | nil => intro r h; simp only [filterPath] at h; cases h; simp
  | cons x t ih =>
    intro r h
    unfold filterPath at h
    cases hx : pathOf w x path with
    | none => rw [hx] at h; cases h
    | some v =>
      rw [hx] at h
      cases ht : filterPath w path t with
      | error e => rw [ht] at h; cases h
      | ok t' =>
        rw [ht] at h
        simp only [] at h
        cases h
        obtain ⟨h1, h2⟩ := ih t' ht
        refine ⟨?_, ?_⟩
        · intro y hy
          cases List.mem_cons.mp hy with
          | inl he => subst he; simp [hx]
          | inr hr => exact h1 y hr
        · cases hv : truthy v
          · rw [List.filter_cons_of_neg (by simp [truthyAt, hx, hv])]; simpa using h2
          · rw [List.filter_cons_of_pos (by simp [truthyAt, hx, hv])]; simp [h2]

theorem filterPath_total (w : World) (path : List Str) :
    ∀ (l : List Nat), (∀ x ∈ l, (pathOf w x path).isSome = true) → ∃ r, filterPath w path l = .ok r := by
  intro l
  induction l with
  | nil => intro _; exact ⟨[], rfl⟩
  | cons x t ih =>
    intro h
    obtain ⟨r, hr⟩ := ih (fun y hy => h y (List.mem_cons_of_mem _ hy))
    have hx := h x (List.mem_cons_self ..)
    unfold filterPath
    cases hp : pathOf w x path with
    | none => rw [hp] at hx; cases hx
    | some v => simp only [hr]; exact ⟨_, rfl⟩

theorem filterPath_error (w : World) (path : List Str) :
    ∀ (l : List Nat), (∃ x ∈ l, pathOf w x path = none) → filterPath w path l = .error .attributeError := by
  intro l
  induction l with
  | nil => rintro ⟨x, hx, _⟩; cases hx
  | cons x t ih =>
    rintro ⟨y, hy, hn⟩
    unfold filterPath
    cases hx : pathOf w x path with
    | none => rfl
    | some v =>
      simp only []
      have : ∃ z ∈ t, pathOf w z path = none := by
        cases List.mem_cons.mp hy with
        | inl he => subst he; rw [hx] at hn; cases hn
        | inr hr => exact ⟨y, hr, hn⟩
      rw [ih this]

/-! ### `map`: the loop with a seen-set equals "first occurrence of every uuid" -/

theorem dedupBy_congr_seen {β : Type} (key : β → Str) :
    ∀ (l : List β) (s1 s2 : List Str), (∀ k, k ∈ s1 ↔ k ∈ s2) → dedupBy key l s1 = dedupBy key l s2 := by
  intro l
  induction l with
  | nil => intro s1 s2 _; rfl
  | cons x r ih =>
    intro s1 s2 h
    unfold dedupBy
    have hc : s1.contains (key x) = s2.contains (key x) := by
      rw [Bool.eq_iff_iff]; simp [h]
    rw [hc]
    split
    · exact ih s1 s2 h
    · congr 1
      apply ih
      intro k
      simp [h]

/-- the inner loop appends exactly the not-yet-seen first occurrences -/
theorem mapInner_spec (uuid : Nat → Str) :
    ∀ (vs : List Nat) (st : MapState),
      (mapInner uuid st vs).elems = st.elems ++ dedupBy uuid vs st.uuids ∧
      (∀ k, k ∈ (mapInner uuid st vs).uuids ↔ k ∈ st.uuids ∨ k ∈ vs.map uuid) := by
  intro vs
  induction vs with
  | nil => intro st; simp [mapInner, dedupBy]
  | cons v r ih =>
    intro st
    unfold mapInner dedupBy
    by_cases h : st.uuids.contains (uuid v) = true
    · rw [if_pos h, if_pos h]
      obtain ⟨h1, h2⟩ := ih st
      refine ⟨h1, ?_⟩
      intro k
      rw [h2 k]
      have : uuid v ∈ st.uuids := by simpa using h
      constructor
      · rintro (hk | hk)
        · exact Or.inl hk
        · exact Or.inr (by simp only [List.map_cons]; exact List.mem_cons_of_mem _ hk)
      · rintro (hk | hk)
        · exact Or.inl hk
        · simp only [List.map_cons] at hk
          cases List.mem_cons.mp hk with
          | inl he => subst he; exact Or.inl this
          | inr hr => exact Or.inr hr
    · rw [if_neg h, if_neg h]
      obtain ⟨h1, h2⟩ := ih { elems := st.elems ++ [v], uuids := uuid v :: st.uuids }
      refine ⟨?_, ?_⟩
      · rw [h1]; simp
      · intro k
        rw [h2 k]
        simp only [List.mem_cons, List.map_cons]
        constructor
        · rintro ((hk | hk) | hk)
          · exact Or.inr (Or.inl hk)
          · exact Or.inl hk
          · exact Or.inr (Or.inr hk)
        · rintro (hk | hk | hk)
          · exact Or.inl (Or.inr hk)
          · exact Or.inl (Or.inl hk)
          · exact Or.inr hk

theorem dedupBy_cons {β : Type} (key : β → Str) (x : β) (r : List β) (seen : List Str) :
    dedupBy key (x :: r) seen =
      if seen.contains (key x) then dedupBy key r seen else x :: dedupBy key r (key x :: seen) := rfl

theorem dedupBy_append {β : Type} (key : β → Str) :
    ∀ (a b : List β) (seen : List Str),
      dedupBy key (a ++ b) seen = dedupBy key a seen ++ dedupBy key b ((a.map key).reverse ++ seen) := by
  intro a
  induction a with
  | nil => intro b seen; simp [dedupBy]
  | cons x r ih =>
    intro b seen
    simp only [List.cons_append]
    rw [dedupBy_cons key x (r ++ b), dedupBy_cons key x r]
    by_cases h : seen.contains (key x) = true
    · rw [if_pos h, if_pos h, ih]
      congr 1
      apply dedupBy_congr_seen
      intro k
      have : key x ∈ seen := by simpa using h
      simp only [List.map_cons, List.reverse_cons, List.mem_append, List.mem_reverse, List.mem_map,
        List.mem_cons, List.not_mem_nil, or_false]
      constructor
      · rintro (hk | hk)
        · exact Or.inl (Or.inl hk)
        · exact Or.inr hk
      · rintro ((hk | hk) | hk)
        · exact Or.inl hk
        · subst hk; exact Or.inr this
        · exact Or.inr hk
    · rw [if_neg h, if_neg h, ih]
      simp only [List.cons_append]
      congr 2
      apply dedupBy_congr_seen
      intro k
      simp only [List.map_cons, List.reverse_cons, List.mem_append, List.mem_reverse, List.mem_map,
        List.mem_cons, List.not_mem_nil, or_false]
      constructor
      · rintro (hk | hk | hk)
        · exact Or.inl (Or.inl hk)
        · exact Or.inl (Or.inr hk)
        · exact Or.inr hk
      · rintro ((hk | hk) | hk)
        · exact Or.inl hk
        · exact Or.inr (Or.inl hk)
        · exact Or.inr (Or.inr hk)

/-- two algorithms, one result: the seen-set loop is "keep x, drop later equal keys" -/
theorem dedupBy_eq_firstOcc (uuid : Nat → Str) :
    ∀ (l : List Nat) (seen : List Str),
      dedupBy uuid l seen = (firstOcc uuid l).filter (fun y => !seen.contains (uuid y)) := by
  intro l
  induction l with
  | nil => intro seen; simp [dedupBy, firstOcc]
  | cons x r ih =>
    intro seen
    rw [dedupBy_cons, firstOcc]
    by_cases h : seen.contains (uuid x) = true
    · rw [if_pos h, List.filter_cons_of_neg (by rw [h]; decide), ih, List.filter_filter]
      apply List.filter_congr
      intro y _
      cases hy : seen.contains (uuid y)
      · have : uuid y ≠ uuid x := by
          intro he; rw [he, h] at hy; cases hy
        simp [this]
      · simp
    · have h' : seen.contains (uuid x) = false := by simpa using h
      rw [if_neg h, List.filter_cons_of_pos (by rw [h']; decide), ih, List.filter_filter]
      congr 1
      apply List.filter_congr
      intro y _
      rw [List.contains_cons]
      cases seen.contains (uuid y) <;> simp [bne, eq_comm]

theorem mapStep_spec (w : World) (uuid : Nat → Str) (a : Str) (img : Nat → List Nat) :
    ∀ (l : List Nat) (st : MapState), (∀ x ∈ l, imagesOf w a x = .ok (img x)) →
      ∃ st', mapStep w uuid a st l = .ok st' ∧
        st'.elems = st.elems ++ dedupBy uuid (l.flatMap img) st.uuids ∧
        (∀ k, k ∈ st'.uuids ↔ k ∈ st.uuids ∨ k ∈ (l.flatMap img).map uuid) := by
  intro l
  induction l with
  | nil => intro st _; exact ⟨st, rfl, by simp [dedupBy], by simp⟩
  | cons x r ih =>
    intro st h
    have hx := h x (List.mem_cons_self ..)
    have hr : ∀ y ∈ r, imagesOf w a y = .ok (img y) := fun y hy => h y (List.mem_cons_of_mem _ hy)
    unfold mapStep
    unfold imagesOf at hx
    cases hw : w x a with
    | none =>
      rw [hw] at hx
      simp only [] at hx
      have himg : img x = [] := by injection hx with h'; exact h'.symm
      obtain ⟨st', h1, h2, h3⟩ := ih st hr
      refine ⟨st', h1, ?_, ?_⟩
      · simp [List.flatMap_cons, himg, h2]
      · simp [List.flatMap_cons, himg, h3]
    | some v =>
      rw [hw] at hx
      simp only [] at hx
      simp only [hx]
      obtain ⟨hi1, hi2⟩ := mapInner_spec uuid (img x) st
      obtain ⟨st', h1, h2, h3⟩ := ih (mapInner uuid st (img x)) hr
      refine ⟨st', h1, ?_, ?_⟩
      · rw [h2, hi1, List.flatMap_cons, dedupBy_append, List.append_assoc]
        congr 2
        apply dedupBy_congr_seen
        intro k
        rw [hi2 k]
        simp only [List.mem_append, List.mem_reverse]
        exact Or.comm
      · intro k
        rw [h3 k, hi2 k, List.flatMap_cons, List.map_append, List.mem_append]
        exact or_assoc

theorem mapStep_error (w : World) (uuid : Nat → Str) (a : Str) :
    ∀ (l : List Nat) (st : MapState), (∃ x ∈ l, imagesOf w a x = .error .typeError) →
      mapStep w uuid a st l = .error .typeError := by
  intro l
  induction l with
  | nil => rintro st ⟨x, hx, _⟩; cases hx
  | cons x r ih =>
    rintro st ⟨y, hy, he⟩
    unfold mapStep
    cases hw : w x a with
    | none =>
      simp only []
      apply ih
      cases List.mem_cons.mp hy with
      | inl h => subst h; simp [imagesOf, hw] at he
      | inr h => exact ⟨y, h, he⟩
    | some v =>
      simp only []
      cases hm : mapImages v with
      | error e =>
        cases e <;> first | rfl | (exfalso; revert hm; cases v <;> simp [mapImages] <;> (intros; split at * <;> simp_all))
      | ok imgs =>
        simp only []
        apply ih
        cases List.mem_cons.mp hy with
        | inl h => subst h; simp [imagesOf, hw, hm] at he
        | inr h => exact ⟨y, h, he⟩


/-! ### facts used by the property theorems -/

theorem matchesE_total (w : World) (f : Filter) (vals : List Atom) :
    ∀ l : List Nat, (∀ x ∈ l, ∃ k, extractKey w f x = .ok k) → ∃ ms, matchesE w f vals l = .ok ms := by
  intro l
  induction l with
  | nil => intro _; exact ⟨[], rfl⟩
  | cons x r ih =>
    intro h
    obtain ⟨k, hk⟩ := h x (List.mem_cons_self ..)
    obtain ⟨t, ht⟩ := ih (fun y hy => h y (List.mem_cons_of_mem _ hy))
    unfold matchesE
    simp only [ismatchE, hk, ht]
    exact ⟨_, rfl⟩

theorem containsE_of_matches (w : World) (f : Filter) (v : Atom) (vs : List Atom)
    (hv : valuesOf f [v] = .ok vs) :
    ∀ (l ms : List Nat), matchesE w f vs l = .ok ms → containsE w f v l = .ok (!ms.isEmpty) := by
  intro l
  induction l with
  | nil => intro ms h; simp only [matchesE] at h; cases h; rfl
  | cons x r ih =>
    intro ms h
    unfold matchesE at h
    unfold containsE
    rw [hv]
    cases hx : ismatchE w f x vs with
    | error e => rw [hx] at h; cases h
    | ok b =>
      rw [hx] at h
      cases hr : matchesE w f vs r with
      | error e => rw [hr] at h; cases h
      | ok t =>
        rw [hr] at h
        simp only [] at h
        cases b
        · simp only [Bool.false_eq_true, if_false] at h
          cases h
          simp only [hx]
          exact ih _ hr
        · simp only [if_true] at h
          cases h
          simp [hx]

theorem call_partition_core (w : World) (path : List Str) (s1 s2 lc : Bool) (vals : List Atom) (l : List Nat) :
    (∃ e, call w ⟨path, true, s1, lc⟩ vals (some false) l = .error e ∧
          call w ⟨path, false, s2, lc⟩ vals (some false) l = .error e) ∨
    (∃ p : Nat → Bool, call w ⟨path, true, s1, lc⟩ vals (some false) l = .ok (.list (l.filter p)) ∧
          call w ⟨path, false, s2, lc⟩ vals (some false) l = .ok (.list (l.filter (fun x => !p x)))) := by
  unfold call
  rw [valuesOf_pol path false true s2 s1 lc vals]
  cases hv : valuesOf ⟨path, true, s1, lc⟩ vals with
  | error e => exact Or.inl ⟨e, rfl, rfl⟩
  | ok vs =>
    simp only []
    rw [matchesE_neg w path s1 s2 lc vs l]
    cases hm : matchesE w ⟨path, true, s1, lc⟩ vs l with
    | error e => exact Or.inl ⟨e, rfl, rfl⟩
    | ok ms =>
      refine Or.inr ⟨matchFlag w ⟨path, true, s1, lc⟩ vs, ?_, ?_⟩
      · simp only [Option.getD_some, Bool.false_eq_true, if_false]
        rw [matchesE_ok w _ vs l ms hm]
      · simp only [Option.getD_some, Bool.false_eq_true, if_false]

theorem mapPath_append (w : World) (uuid : Nat → Str) :
    ∀ (p q : List Str) (l : List Nat),
      mapPath w uuid (p ++ q) l =
        (match mapPath w uuid p l with
         | .ok l' => mapPath w uuid q l'
         | .error e => .error e) := by
  intro p
  induction p with
  | nil => intro q l; simp [mapPath]
  | cons a r ih =>
    intro q l
    simp only [List.cons_append, mapPath]
    cases map1 w uuid a l with
    | error e => rfl
    | ok l' => simp only []; exact ih q l'

theorem map1_spec (w : World) (uuid : Nat → Str) (a : Str) (img : Nat → List Nat) (l : List Nat)
    (h : ∀ x ∈ l, imagesOf w a x = .ok (img x)) :
    map1 w uuid a l = .ok (firstOcc uuid (l.flatMap img)) := by
  obtain ⟨st', h1, h2, _⟩ := mapStep_spec w uuid a img l {} h
  unfold map1
  rw [h1]
  simp only [h2, List.nil_append, dedupBy_eq_firstOcc]
  congr 1
  simp

theorem parseName_by (a : Str) :
    parseName false ("by_".toList ++ a) =
      some { path := splitDots a, single := (a = "name".toList || a = "uuid".toList) } := by
  have h1 : "by_".toList.isPrefixOf ("by_".toList ++ a) = true := by simp
  have h2 : ("by_".toList ++ a).drop 3 = a := by simp
  simp only [parseName, Bool.false_and, Bool.false_eq_true, if_false, h1, if_true, h2]

theorem parseName_exclude (a : Str) :
    parseName false ("exclude_".toList ++ a ++ "s".toList) =
      some { path := splitDots a, positive := false } := by
  have h0 : "by_".toList.isPrefixOf ("exclude_".toList ++ a ++ "s".toList) = false := by
    simp [List.isPrefixOf]
  have h1 : "exclude_".toList.isPrefixOf ("exclude_".toList ++ a ++ "s".toList) = true := by
    rw [List.append_assoc]; simp
  have h2 : endsWith ("exclude_".toList ++ a ++ "s".toList) "s".toList = true := by
    simp [endsWith]
  have h3 : (("exclude_".toList ++ a ++ "s".toList).drop 8).dropLast = a := by
    rw [List.append_assoc]
    have : ("exclude_".toList ++ (a ++ "s".toList)).drop 8 = a ++ "s".toList := by simp
    rw [this]
    simp
  simp only [parseName, Bool.false_and, Bool.false_eq_true, if_false, h0, h1, h2, Bool.and_self, if_true, h3]

/-! ### lists as mappings -/

theorem mapCandidates_ok (w : World) (mk : List Str) (key : Atom) :
    ∀ (l c : List Nat), mapCandidates w mk key l = .ok c →
      c = l.filter (hasMapKey w mk key) := by
  intro l
  induction l with
  | nil => intro c h; simp only [mapCandidates] at h; cases h; rfl
  | cons x r ih =>
    intro c h
    unfold mapCandidates at h
    cases hx : pathOf w x mk with
    | none => rw [hx] at h; cases h
    | some v =>
      rw [hx] at h
      cases hr : mapCandidates w mk key r with
      | error e => rw [hr] at h; cases h
      | ok t =>
        rw [hr] at h
        simp only [] at h
        cases h
        have := ih t hr
        by_cases hv : toVal v = .atom key
        · rw [if_pos hv, List.filter_cons_of_pos (by simp [hasMapKey, hx, hv])]; simp [this]
        · rw [if_neg hv, List.filter_cons_of_neg (by simp [hasMapKey, hx, hv])]; exact this

end Capella.QList
