import Capella.Lemmas.XmlOrder
import Capella.Lemmas.XmlWritten
/-! Writing the document in file order gives the same bytes as writing the in-memory document:
the writer is a function of the *information* in the tree. -/
namespace Capella.Xml

/-! ### `revLookup` depends only on the bindings (one prefix per URI) -/

theorem foldl_rev_nomatch (u : Str) (l : List (Str × Str)) (acc : Option Str)
    (h : ∀ x ∈ l, x.2 ≠ u) :
    List.foldl (fun acc q => if (q.2 == u && q.1 != []) = true then some q.1 else acc) acc l = acc := by
  induction l generalizing acc with
  | nil => rfl
  | cons x xs ih =>
    have hx : (x.2 == u) = false := by simpa using h x List.mem_cons_self
    simp only [List.foldl, hx, Bool.false_and, Bool.false_eq_true, ↓reduceIte]
    exact ih acc (fun y hy => h y (List.mem_cons_of_mem _ hy))

theorem revLookup_of_mem {m : List (Str × Str)} (hv : (m.map (·.2)).Nodup) {p u : Str}
    (h : (p, u) ∈ m) (hp : p ≠ []) : revLookup m u = some p := by
  unfold revLookup
  generalize (none : Option Str) = acc
  induction m generalizing acc with
  | nil => simp at h
  | cons x xs ih =>
    simp only [List.map_cons, List.nodup_cons, List.mem_map, not_exists, not_and] at hv
    simp only [List.foldl]
    rcases List.mem_cons.mp h with h | h
    · subst h
      have hp' : (p != []) = true := by simpa using hp
      simp only [beq_self_eq_true, hp', Bool.and_self, ↓reduceIte]
      exact foldl_rev_nomatch u xs _ (fun y hy => hv.1 y hy)
    · exact ih hv.2 h _

theorem revLookup_congr {m m' : List (Str × Str)} (hinv : NsInv m) (hinv' : NsInv m')
    (hs : SameMap m' m) (u : Str) : revLookup m' u = revLookup m u := by
  cases h : revLookup m u with
  | some p =>
    obtain ⟨hm, hp⟩ := revLookup_mem h
    exact revLookup_of_mem hinv'.vals ((hs _).mpr hm) hp
  | none =>
    cases h' : revLookup m' u with
    | none => rfl
    | some q =>
      obtain ⟨hm, hq⟩ := revLookup_mem h'
      rw [revLookup_of_mem hinv.vals ((hs _).mp hm) hq] at h
      exact absurd h (by simp)

theorem unmap_congr {m m' : List (Str × Str)} (hinv : NsInv m) (hinv' : NsInv m')
    (hs : SameMap m' m) (name : Str) : unmap m' name = unmap m name := by
  rw [unmap_eq, unmap_eq, revLookup_congr hinv hinv' hs]

/-! ### attributes -/

theorem lookupAttr_none_of_not_mem {a : Str} {l : List (Str × Str)} (h : a ∉ keysOf l) :
    lookupAttr a l = none := by
  induction l with
  | nil => rfl
  | cons x xs ih =>
    obtain ⟨k, w⟩ := x
    simp only [keysOf, List.map_cons, List.mem_cons, not_or] at h
    simp only [lookupAttr]
    rw [if_neg (fun hk => h.1 hk.symm)]
    exact ih (by simpa [keysOf] using h.2)

theorem lookupAttr_congr {l l' : List (Str × Str)} (hn : (keysOf l).Nodup) (hn' : (keysOf l').Nodup)
    (hs : ∀ x, x ∈ l' ↔ x ∈ l) (a : Str) : lookupAttr a l' = lookupAttr a l := by
  cases h : lookupAttr a l with
  | some v => exact lookupAttr_of_mem' hn' ((hs _).mpr (lookupAttr_mem h))
  | none =>
    cases h' : lookupAttr a l' with
    | none => rfl
    | some v =>
      rw [lookupAttr_of_mem' hn ((hs _).mp (lookupAttr_mem h'))] at h
      exact absurd h (by simp)
where
  lookupAttr_of_mem' {a v : Str} {attrs : List (Str × Str)} (hnd : (keysOf attrs).Nodup)
      (h : (a, v) ∈ attrs) : lookupAttr a attrs = some v := by
    induction attrs with
    | nil => simp at h
    | cons x xs ih =>
      obtain ⟨k, w⟩ := x
      simp only [keysOf, List.map_cons, List.nodup_cons] at hnd
      simp only [lookupAttr]
      rcases List.mem_cons.mp h with h | h
      · simp only [Prod.mk.injEq] at h; simp [h.1, h.2]
      · have hk : k ≠ a := by
          rintro rfl
          exact hnd.1 (by simpa [keysOf] using mem_keysOf.mpr ⟨v, h⟩)
        rw [if_neg hk]; exact ih hnd.2 h

theorem mem_canonAttrs_iff {attrs : List (Str × Str)} (hnd : (keysOf attrs).Nodup) (x : Str × Str) :
    x ∈ canonAttrs attrs ↔ x ∈ attrs := by
  constructor
  · exact mem_canonAttrs
  · intro hx
    rw [canonAttrs_eq]
    by_cases hs : specialAttrs.contains x.1 = true
    · refine List.mem_append.mpr (Or.inl ?_)
      simp only [specialsOf, List.mem_filterMap, Option.map_eq_some_iff]
      exact ⟨x.1, by simpa using hs, x.2, lookupAttr_congr.lookupAttr_of_mem' hnd hx, rfl⟩
    · exact List.mem_append.mpr (Or.inr (List.mem_filter.mpr ⟨hx, by simpa using hs⟩))

theorem specialsOf_canon {attrs : List (Str × Str)} (hnd : (keysOf attrs).Nodup) :
    specialsOf (canonAttrs attrs) = specialsOf attrs := by
  unfold specialsOf
  congr 1
  funext a
  rw [lookupAttr_congr hnd (canonAttrs_keys_nodup hnd) (mem_canonAttrs_iff hnd) a]

theorem others_canon (attrs : List (Str × Str)) :
    (canonAttrs attrs).filter (fun kv => !specialAttrs.contains kv.1) =
      attrs.filter (fun kv => !specialAttrs.contains kv.1) := by
  rw [canonAttrs_eq, List.filter_append, List.filter_filter]
  have : (specialsOf attrs).filter (fun kv => !specialAttrs.contains kv.1) = [] := by
    apply List.filter_eq_nil_iff.mpr
    intro x hx
    simp only [specialsOf, List.mem_filterMap, Option.map_eq_some_iff] at hx
    obtain ⟨a, ha, v, _, rfl⟩ := hx
    simpa using ha
  rw [this, List.nil_append]
  congr 1
  funext kv
  simp

/-- the attribute list the writer emits is the same for the canonical tree under an equivalent map -/
theorem unmappedAttrs_canon {m m' : List (Str × Str)} (hinv : NsInv m) (hinv' : NsInv m')
    (hs : SameMap m' m) {pk pk' : List Str} (hk : ∀ p, p ∈ pk' ↔ p ∈ pk)
    {attrs : List (Str × Str)} (hnd : (keysOf attrs).Nodup) :
    unmappedAttrs pk' m' (canonAttrs attrs) = unmappedAttrs pk m attrs := by
  rw [unmappedAttrs_eq, unmappedAttrs_eq, specialsOf_canon hnd, others_canon,
    canonNs_congr hinv.nodup hinv'.nodup hs hk]
  have hu : (fun kv : Str × Str => (unmap m' kv.1, escape isEscText kv.2)) =
      (fun kv : Str × Str => (unmap m kv.1, escape isEscText kv.2)) := by
    funext kv; rw [unmap_congr hinv hinv' hs]
  rw [hu]

/-! ### trees -/

theorem canonKids_isEmpty (m : List (Str × Str)) (ks : List Elem) : (canonKids m ks).isEmpty = ks.isEmpty := by
  cases ks <;> simp [canonKids]

theorem canonElem_tail (P : List (Str × Str)) (isRoot : Bool) (e : Elem) :
    (canonElem P isRoot e).tail = e.tail := by
  cases e; simp [canonElem, Elem.tail]

mutual
theorem serElem_canon (ll : Nat) (P P' : List (Str × Str)) (hinv : NsInv P) (hinv' : NsInv P')
    (hs : SameMap P' P) (isRoot : Bool) (hroot : isRoot = true → P = []) (indent pos : Nat)
    (e : Elem) (hwf : wfElem P e = true) :
    serElem ll P' isRoot indent pos (canonElem P isRoot e) = serElem ll P isRoot indent pos e := by
  match e, hwf with
  | .mk tag nsd attrs text tail kids, hwf =>
    obtain ⟨hns, _, _, hnd, hkids⟩ := wfElem_facts hwf
    obtain ⟨hsc, hinvW⟩ := hinv.scope hns
    obtain ⟨hsc', hinvR, hsame⟩ := reader_scope hinv hinv' hs hns isRoot hroot
    have hpk : ∀ p, p ∈ (if isRoot = true then [] else P'.map (·.1)) ↔
        p ∈ (if isRoot = true then [] else P.map (·.1)) := by
      intro p
      cases isRoot with
      | true => simp
      | false => exact hs.keys p
    have hK := fun ptail pos tc => serKids_canon ll (nsd ++ P)
      (canonNs (if isRoot = true then [] else keysOf P) (nsd ++ P) ++ P') hinvW hinvR hsame
      (indent + 1) ptail pos tc kids (by rw [← hsc]; exact hkids)
    unfold canonElem
    unfold serElem
    simp only [hsc]
    have e1 : scope P' (canonNs (if isRoot = true then [] else List.map (fun x => x.1) P) (nsd ++ P)) =
        canonNs (if isRoot = true then [] else keysOf P) (nsd ++ P) ++ P' := hsc'
    simp only [e1, unmap_congr hinvW hinvR hsame, unmappedAttrs_canon hinvW hinvR hsame hpk hnd, hK,
      canonKids_isEmpty]

theorem serKids_canon (ll : Nat) (M M' : List (Str × Str)) (hinv : NsInv M) (hinv' : NsInv M')
    (hs : SameMap M' M) (indent : Nat) (ptail : Option Str) (pos : Nat) (tc : Bool)
    (ks : List Elem) (hwf : wfKids M ks = true) :
    serKids ll M' indent ptail pos tc (canonKids M ks) = serKids ll M indent ptail pos tc ks := by
  match ks, hwf with
  | [], _ => simp [canonKids, serKids]
  | k :: ks', hwf =>
    simp only [wfKids, Bool.and_eq_true] at hwf
    have hE := fun pos => serElem_canon ll M M' hinv hinv' hs false (by simp) indent pos k hwf.1
    have hK := fun pos tc => serKids_canon ll M M' hinv hinv' hs indent ptail pos tc ks' hwf.2
    simp only [canonKids]
    unfold serKids
    simp only [hE, hK]
end

/-- **the canonical document is written exactly like the in-memory one** -/
theorem serialize_canon (ll : Nat) (sib : Bool) (d : Doc) (hwf : wfDoc d = true) :
    serialize ll sib [] true (canonDoc d) = serialize ll sib [] true d := by
  have hroot : wfElem [] d.root = true := by
    simp only [wfDoc, Bool.and_eq_true] at hwf; exact hwf.1.1
  unfold serialize canonDoc
  simp only [canonElem_tail,
    serElem_canon ll [] [] NsInv.nil NsInv.nil (fun _ => Iff.rfl) true (fun _ => rfl) 0 _ d.root hroot]

end Capella.Xml
