import Capella.Model.Txn

/-!
# Lemmas about the write-transaction model (C15)

Layers: one fragment write (`writeFrag_inv`, `writeFrag_outcome`: complete case analysis over the five
ticks it consumes), the body (`body_inv` for any schedule and any body; `frags_dich` for bodies made
of fragment writes), the commit loop (`commit_spec`), the clean-up loop (`cleanup_spec`), and the
bracket `transaction`.
-/
namespace Capella.Txn
variable {P : Type} [DecidableEq P] (tmp : P → P) (ord : List P → List P) (σ : Sched)

/-- no fault in the window `[a, b)` -/
def Quiet (σ : Sched) (a b : Nat) : Prop := ∀ n, a ≤ n → n < b → σ n = none
/-- no fault from `a` on -/
def QuietFrom (σ : Sched) (a : Nat) : Prop := ∀ n, a ≤ n → σ n = none

theorem quiet5 {σ : Sched} {a : Nat} (h0 : σ a = none) (h1 : σ (a+1) = none) (h2 : σ (a+2) = none)
    (h3 : σ (a+3) = none) (h4 : σ (a+4) = none) : Quiet σ a (a+5) := by
  intro n h1' h2'
  have : n = a ∨ n = a+1 ∨ n = a+2 ∨ n = a+3 ∨ n = a+4 := by omega
  rcases this with rfl | rfl | rfl | rfl | rfl <;> assumption

theorem Quiet.append {σ : Sched} {a b c : Nat} (h1 : Quiet σ a b) (h2 : Quiet σ b c) : Quiet σ a c := by
  intro n hn1 hn2
  by_cases h : n < b
  · exact h1 n hn1 h
  · exact h2 n (by omega) hn2

theorem QuietFrom.mono {σ : Sched} {a b : Nat} (h : QuietFrom σ a) (hab : a ≤ b) : QuietFrom σ b :=
  fun n hn => h n (by omega)

theorem single_quietFrom (c : Nat) (f : Fault) (a : Nat) (h : c < a) : QuietFrom (single c f) a := by
  intro n hn; simp [single]; omega

theorem single_quiet (c : Nat) (f : Fault) (a b : Nat) (h : b ≤ c) : Quiet (single c f) a b := by
  intro n _ hn; simp [single]; omega

theorem noFault_quietFrom (a : Nat) : QuietFrom noFault a := fun _ _ => rfl

/-- the target paths a body writes -/
def paths : List (Op P) → List P
  | [] => []
  | .frag f :: os => f.path :: paths os
  | .raise _ :: os => paths os
  | .nested :: os => paths os

@[simp] theorem paths_frags (frags : List (Frag P)) : paths (frags.map Op.frag) = frags.map (·.path) := by
  induction frags with
  | nil => rfl
  | cons a as ih => simp [paths, ih]

/-! ## temp names -/

/-- temporary names are usable: different targets have different temp names, and no temp name is
itself a target.  The repaired `open` enforces this with `clash` (a save for which it fails is refused);
for the concrete `_tmpname` it follows from syntactic conditions on the names (`Lemmas/TmpName.lean`). -/
def TmpOK (ps : List P) : Prop :=
  (∀ p ∈ ps, ∀ q ∈ ps, tmp p = tmp q → p = q) ∧ (∀ p ∈ ps, ∀ q ∈ ps, tmp p ≠ q)

theorem TmpOK.nil : TmpOK tmp ([] : List P) := ⟨by simp, by simp⟩

theorem TmpOK.sub {ps qs : List P} (h : TmpOK tmp qs) (hs : ∀ p ∈ ps, p ∈ qs) : TmpOK tmp ps :=
  ⟨fun p hp q hq => h.1 p (hs p hp) q (hs q hq), fun p hp q hq => h.2 p (hs p hp) q (hs q hq)⟩

/-- the check of `open` is exactly what keeps `TmpOK` when one more name joins the set -/
theorem clash_false_iff (l : List P) (p : P) (hp : p ∉ l) (hl : TmpOK tmp l) :
    clash tmp l p = false ↔ TmpOK tmp (l ++ [p]) := by
  constructor
  · intro hc
    simp only [clash, Bool.or_eq_false_iff, decide_eq_false_iff_not, List.any_eq_false,
      Bool.or_eq_true, decide_eq_true_eq, not_or] at hc
    obtain ⟨h0, h1⟩ := hc
    refine ⟨?_, ?_⟩
    · intro a ha b hb hab
      rcases List.mem_append.mp ha with ha1 | ha1 <;> rcases List.mem_append.mp hb with hb1 | hb1
      · exact hl.1 a ha1 b hb1 hab
      · have hb2 : b = p := by simpa using hb1
        subst hb2
        exact absurd hab.symm (h1 a ha1).1.2
      · have ha2 : a = p := by simpa using ha1
        subst ha2
        exact absurd hab (h1 b hb1).1.2
      · have ha2 : a = p := by simpa using ha1
        have hb2 : b = p := by simpa using hb1
        rw [ha2, hb2]
    · intro a ha b hb hab
      rcases List.mem_append.mp ha with ha1 | ha1 <;> rcases List.mem_append.mp hb with hb1 | hb1
      · exact hl.2 a ha1 b hb1 hab
      · have hb2 : b = p := by simpa using hb1
        subst hb2
        exact (h1 a ha1).2 hab.symm
      · have ha2 : a = p := by simpa using ha1
        subst ha2
        exact (h1 b hb1).1.1 hab
      · have ha2 : a = p := by simpa using ha1
        have hb2 : b = p := by simpa using hb1
        subst ha2; subst hb2
        exact h0 hab
  · intro h
    simp only [clash, Bool.or_eq_false_iff, decide_eq_false_iff_not, List.any_eq_false,
      Bool.or_eq_true, decide_eq_true_eq, not_or]
    refine ⟨h.2 p (by simp) p (by simp), ?_⟩
    intro o ho
    refine ⟨⟨h.2 p (by simp) o (by simp [ho]), ?_⟩, ?_⟩
    · intro hh
      have := h.1 p (by simp) o (by simp [ho]) hh
      exact hp (this ▸ ho)
    · intro hh
      exact h.2 o (by simp [ho]) p (by simp) hh.symm

/-! ## one fragment -/

local macro "frag_simp" : tactic =>
  `(tactic| simp [writeFrag, hOpen, tick, hWrite, closeExit, hClose, *])

/-- Any schedule: a fragment write takes at most five ticks and either leaves transaction set and
files alone, or adds exactly its own name to the set and touches only its own temporary file. -/
theorem writeFrag_inv (fr : Frag P) (s : St P) (l : List P) (h : s.txn = some l) :
    s.clock ≤ (writeFrag tmp σ fr s).1.clock ∧ (writeFrag tmp σ fr s).1.clock ≤ s.clock + 5 ∧
    (((writeFrag tmp σ fr s).1.txn = some l ∧ (writeFrag tmp σ fr s).1.fs = s.fs) ∨
     ((writeFrag tmp σ fr s).1.txn = some (l ++ [fr.path]) ∧ fr.path ∉ l ∧
        ∀ q, q ≠ tmp fr.path → (writeFrag tmp σ fr s).1.fs q = s.fs q)) := by
  by_cases hp : fr.path ∈ l
  · simp [writeFrag, hOpen, h, hp]
  · cases hcl : clash tmp l fr.path
    case true => simp [writeFrag, hOpen, h, hp, hcl]
    case false =>
    rcases h0 : σ s.clock with _ | f0 <;> rcases h1 : σ (s.clock + 1) with _ | f1 <;>
    rcases h2 : σ (s.clock + 2) with _ | f2 <;> rcases h3 : σ (s.clock + 3) with _ | f3 <;>
    rcases h4 : σ (s.clock + 4) with _ | f4 <;> cases hd : fr.nodir <;>
    simp [writeFrag, hOpen, tick, hWrite, closeExit, hClose, *] <;>
    (try (first
      | omega
      | (intro q hq; cases f0.eff <;> simp [fsSet, hq])
      | (refine ⟨by omega, ?_⟩; intro q hq; simp [fsSet, hq]; try split <;> simp [fsSet, hq])))

/-- Complete case analysis of one fragment write whose target is new in this transaction and whose
directory exists: either all five calls were fault-free and the temp file holds declaration ++
payload, or the error is that of a fault inside the window (the last one that fired). -/
theorem writeFrag_outcome (fr : Frag P) (s : St P) (l : List P) (h : s.txn = some l)
    (hp : fr.path ∉ l) (hd : fr.nodir = false) (hcl : clash tmp l fr.path = false) :
    ((writeFrag tmp σ fr s).2 = none ∧ Quiet σ s.clock (s.clock + 5) ∧
      (writeFrag tmp σ fr s).1.clock = s.clock + 5 ∧
      (writeFrag tmp σ fr s).1.txn = some (l ++ [fr.path]) ∧
      (writeFrag tmp σ fr s).1.fs = fsSet s.fs (tmp fr.path) (fr.decl ++ fr.payload)) ∨
    (∃ n f, (writeFrag tmp σ fr s).2 = some f.err ∧ s.clock ≤ n ∧ n < (writeFrag tmp σ fr s).1.clock ∧
      σ n = some f) := by
  rcases h0 : σ s.clock with _ | f0
  · rcases h1 : σ (s.clock + 1) with _ | f1
    · rcases h2 : σ (s.clock + 2) with _ | f2
      · rcases h3 : σ (s.clock + 3) with _ | f3
        · rcases h4 : σ (s.clock + 4) with _ | f4
          · refine Or.inl ⟨?_, quiet5 h0 h1 h2 h3 h4, ?_, ?_, ?_⟩
            · frag_simp
            · frag_simp
            · frag_simp
            · frag_simp
              funext q
              simp [fsSet]
              split <;> simp_all
          · refine Or.inr ⟨s.clock + 4, f4, ?_, by omega, ?_, h4⟩ <;> frag_simp
        · rcases h4 : σ (s.clock + 4) with _ | f4
          · refine Or.inr ⟨s.clock + 3, f3, ?_, by omega, ?_, h3⟩ <;> frag_simp
          · refine Or.inr ⟨s.clock + 4, f4, ?_, by omega, ?_, h4⟩ <;> frag_simp
      · rcases h3 : σ (s.clock + 3) with _ | f3
        · refine Or.inr ⟨s.clock + 2, f2, ?_, by omega, ?_, h2⟩ <;> frag_simp
        · refine Or.inr ⟨s.clock + 3, f3, ?_, by omega, ?_, h3⟩ <;> frag_simp
    · rcases h2 : σ (s.clock + 2) with _ | f2
      · refine Or.inr ⟨s.clock + 1, f1, ?_, by omega, ?_, h1⟩ <;> frag_simp
      · refine Or.inr ⟨s.clock + 2, f2, ?_, by omega, ?_, h2⟩ <;> frag_simp
  · refine Or.inr ⟨s.clock, f0, ?_, by omega, ?_, h0⟩ <;> frag_simp

/-! ## the body -/

/-- Any schedule, any body: the body only ever adds names of its own fragment writes to the
transaction set, and every file it has touched is the temporary file of a name in the set. -/
theorem body_inv (body : List (Op P)) : ∀ (s : St P) (l : List P), s.txn = some l →
    ∃ l', (runBody tmp σ body s).1.txn = some (l ++ l') ∧ (∀ p ∈ l', p ∈ paths body) ∧
      (∀ q, q ∉ l'.map tmp → (runBody tmp σ body s).1.fs q = s.fs q) ∧
      s.clock ≤ (runBody tmp σ body s).1.clock := by
  induction body with
  | nil => intro s l h; exact ⟨[], by simp [runBody, h], by simp, by simp [runBody], by simp [runBody]⟩
  | cons o os ih =>
    intro s l h
    cases o with
    | raise e => exact ⟨[], by simp [runBody, runOp, h], by simp, by simp [runBody, runOp], by simp [runBody, runOp]⟩
    | nested => exact ⟨[], by simp [runBody, runOp, h], by simp, by simp [runBody, runOp], by simp [runBody, runOp]⟩
    | frag fr =>
      have hi := writeFrag_inv tmp σ fr s l h
      rcases hr : writeFrag tmp σ fr s with ⟨s1, _ | e⟩
      · -- the write succeeded, the body goes on
        rw [hr] at hi
        simp only [runBody, runOp, hr]
        rcases hi with ⟨hc1, _, ⟨ht, hf⟩ | ⟨ht, _, hf⟩⟩
        · obtain ⟨l', h1, h2, h3, h4⟩ := ih s1 l ht
          refine ⟨l', h1, ?_, ?_, by simp at hc1; omega⟩
          · intro p hp; simp [paths, h2 p hp]
          · intro q hq; rw [h3 q hq]; simp at hf; rw [hf]
        · obtain ⟨l', h1, h2, h3, h4⟩ := ih s1 (l ++ [fr.path]) ht
          refine ⟨fr.path :: l', by simpa using h1, ?_, ?_, by simp at hc1; omega⟩
          · intro p hp
            rcases List.mem_cons.mp hp with rfl | hp
            · simp [paths]
            · simp [paths, h2 p hp]
          · intro q hq
            simp only [List.map_cons, List.mem_cons, not_or] at hq
            rw [h3 q hq.2]
            simpa using hf q hq.1
      · rw [hr] at hi
        simp only [runBody, runOp, hr]
        rcases hi with ⟨hc1, _, ⟨ht, hf⟩ | ⟨ht, _, hf⟩⟩
        · exact ⟨[], by simpa using ht, by simp, by intro q _; simp at hf; rw [hf], by simpa using hc1⟩
        · refine ⟨[fr.path], by simpa using ht, by simp [paths], ?_, by simpa using hc1⟩
          intro q hq
          simp only [List.map_cons, List.map_nil, List.mem_singleton] at hq
          simpa using hf q hq

/-- hypotheses on the list of fragments a save writes: pairwise different names, existing directories -/
def GoodFrags (l : List P) (frags : List (Frag P)) : Prop :=
  (frags.map (·.path)).Nodup ∧ ∀ fr ∈ frags, fr.path ∉ l ∧ fr.nodir = false

/-- the temp files a fault-free body leaves behind -/
def stage : List (Frag P) → (P → Option Bytes) → (P → Option Bytes)
  | [], fs => fs
  | fr :: frs, fs => stage frs (fsSet fs (tmp fr.path) (fr.decl ++ fr.payload))

/-- Dichotomy for a body of fragment writes, any schedule: either everything was fault-free (then
the clock advanced by exactly five per fragment, all names are in the set and all temp files are
complete), or the error is that of a fault that fired inside the body. -/
theorem frags_dich (frags : List (Frag P)) : ∀ (s : St P) (l : List P), s.txn = some l →
    GoodFrags l frags → TmpOK tmp (l ++ frags.map (·.path)) →
    ((runBody tmp σ (frags.map Op.frag) s).2 = none ∧ Quiet σ s.clock (s.clock + 5 * frags.length) ∧
      (runBody tmp σ (frags.map Op.frag) s).1.clock = s.clock + 5 * frags.length ∧
      (runBody tmp σ (frags.map Op.frag) s).1.txn = some (l ++ frags.map (·.path)) ∧
      (runBody tmp σ (frags.map Op.frag) s).1.fs = stage tmp frags s.fs) ∨
    (∃ n f, (runBody tmp σ (frags.map Op.frag) s).2 = some f.err ∧ s.clock ≤ n ∧
      n < (runBody tmp σ (frags.map Op.frag) s).1.clock ∧ σ n = some f ∧
      (runBody tmp σ (frags.map Op.frag) s).1.clock ≤ s.clock + 5 * frags.length) := by
  induction frags with
  | nil =>
    intro s l h _ _
    exact Or.inl ⟨by simp [runBody], by intro n h1 h2; simp at h2; omega, by simp [runBody], by simp [runBody, h], by simp [runBody, stage]⟩
  | cons fr frs ih =>
    intro s l h hg hnc
    have hp : fr.path ∉ l := (hg.2 fr (by simp)).1
    have hd : fr.nodir = false := (hg.2 fr (by simp)).2
    have hnd : (fr.path :: frs.map (·.path)).Nodup := hg.1
    have hnc' : TmpOK tmp ((l ++ [fr.path]) ++ frs.map (·.path)) := by simpa using hnc
    have hcl : clash tmp l fr.path = false :=
      (clash_false_iff tmp l fr.path hp (hnc.sub tmp (fun p hp => by simp [hp]))).mpr
        (hnc.sub tmp (fun p hp => by
          rcases List.mem_append.mp hp with hp | hp
          · simp [hp]
          · simp only [List.mem_singleton] at hp; simp [hp]))
    have hi := writeFrag_inv tmp σ fr s l h
    have ho := writeFrag_outcome tmp σ fr s l h hp hd hcl
    rcases hr : writeFrag tmp σ fr s with ⟨s1, _ | e⟩
    · rw [hr] at ho hi
      simp only [List.map_cons, runBody, runOp, hr]
      rcases ho with ⟨_, hq, hc, ht, hf⟩ | ⟨n, f, he, _⟩
      · simp only at hc ht hf
        have hg' : GoodFrags (l ++ [fr.path]) frs := by
          refine ⟨(List.nodup_cons.mp hnd).2, ?_⟩
          intro fr' hfr'
          refine ⟨?_, (hg.2 fr' (by simp [hfr'])).2⟩
          intro hm
          rcases List.mem_append.mp hm with hm | hm
          · exact (hg.2 fr' (by simp [hfr'])).1 hm
          · have := (List.nodup_cons.mp hnd).1
            simp only [List.mem_singleton] at hm
            exact this (by rw [← hm]; exact List.mem_map_of_mem hfr')
        rcases ih s1 (l ++ [fr.path]) ht hg' hnc' with ⟨h1, h2, h3, h4, h5⟩ | ⟨n, f, h1, h2, h3, h4, h5⟩
        · refine Or.inl ⟨h1, ?_, ?_, ?_, ?_⟩
          · rw [hc] at h2
            have := hq.append h2
            simpa [Nat.mul_add, Nat.add_assoc, Nat.add_comm 5] using this
          · rw [h3, hc]; simp [Nat.mul_add]; omega
          · rw [h4]; simp
          · rw [h5, hf]; rfl
        · refine Or.inr ⟨n, f, h1, by omega, h3, h4, ?_⟩
          rw [hc] at h5; simp [Nat.mul_add]; omega
      · simp at he
    · rw [hr] at ho hi
      simp only [List.map_cons, runBody, runOp, hr]
      rcases ho with ⟨he, _⟩ | ⟨n, f, he, h2, h3, h4⟩
      · simp at he
      · refine Or.inr ⟨n, f, he, h2, h3, h4, ?_⟩
        have := hi.2.1
        simp only at this ⊢
        simp [Nat.mul_add]; omega

/-! ## clean-up -/

/-- Any schedule: clean-up never touches the transaction field, only ever removes temporary files of
the names it was given, and an error it returns is a non-`OSError` fault. -/
theorem cleanup_any (ps : List P) : ∀ (s : St P),
    (cleanup tmp σ ps s).1.txn = s.txn ∧ s.clock ≤ (cleanup tmp σ ps s).1.clock ∧
    (∀ q, (cleanup tmp σ ps s).1.fs q = s.fs q ∨ (q ∈ ps.map tmp ∧ (cleanup tmp σ ps s).1.fs q = none)) := by
  induction ps with
  | nil => intro s; simp [cleanup]
  | cons p ps ih =>
    intro s
    simp only [cleanup, tick]
    rcases h0 : σ s.clock with _ | f
    · simp only
      obtain ⟨h1, h2, h3⟩ := ih { fs := fsDel s.fs (tmp p), txn := s.txn, clock := s.clock + 1, log := Ev.unlink p :: s.log }
      refine ⟨h1, by simp at h2; omega, ?_⟩
      intro q
      rcases h3 q with h | ⟨hm, h⟩
      · by_cases hq : q = tmp p
        · right; rw [h]; simp [fsDel, hq]
        · left; rw [h]; simp [fsDel, hq]
      · right; exact ⟨by simp [hm], h⟩
    · simp only
      cases hos : f.err.isOS
      · simp
      · simp only [if_true]
        obtain ⟨h1, h2, h3⟩ := ih { fs := s.fs, txn := s.txn, clock := s.clock + 1, log := Ev.unlink p :: s.log }
        refine ⟨h1, by simp at h2; omega, ?_⟩
        intro q
        rcases h3 q with h | ⟨hm, h⟩
        · left; exact h
        · right; exact ⟨by simp [hm], h⟩

/-- Fault-free clean-up removes every temporary file it was given and reports nothing. -/
theorem cleanup_quiet (ps : List P) : ∀ (s : St P), QuietFrom σ s.clock →
    (cleanup tmp σ ps s).2 = none ∧
    (∀ q, (cleanup tmp σ ps s).1.fs q = if q ∈ ps.map tmp then none else s.fs q) := by
  induction ps with
  | nil => intro s _; simp [cleanup]
  | cons p ps ih =>
    intro s hq
    simp only [cleanup, tick, hq s.clock (Nat.le_refl _)]
    obtain ⟨h1, h2⟩ := ih { fs := fsDel s.fs (tmp p), txn := s.txn, clock := s.clock + 1, log := Ev.unlink p :: s.log }
      (hq.mono (by simp))
    refine ⟨h1, ?_⟩
    intro q
    rw [h2 q]
    by_cases hm : q ∈ ps.map tmp
    · simp [hm]
    · by_cases hq' : q = tmp p
      · simp [hq', fsDel]
      · simp only [List.map_cons, List.mem_cons, hq', hm, fsDel]; simp

/-- Clean-up whose faults are all `OSError`s reports nothing (the errors are logged). -/
theorem cleanup_os (ps : List P) : ∀ (s : St P), (∀ n f, s.clock ≤ n → σ n = some f → f.err.isOS = true) →
    (cleanup tmp σ ps s).2 = none := by
  induction ps with
  | nil => intro s _; simp [cleanup]
  | cons p ps ih =>
    intro s hos
    simp only [cleanup, tick]
    rcases h0 : σ s.clock with _ | f
    · exact ih _ (fun n f hn => hos n f (by simp at hn; omega))
    · simp only [hos s.clock f (Nat.le_refl _) h0, if_true]
      exact ih _ (fun n f hn => hos n f (by simp at hn; omega))

/-! ## commit -/


/-- state after one successful `replace` -/
def commitStep (p : P) (c : Bytes) (s : St P) : St P :=
  { fs := fsMove s.fs (tmp p) p c, txn := s.txn.map (·.filter (· ≠ p)), clock := s.clock + 1,
    log := Ev.rename p :: s.log }

theorem commit_cons_ok (p : P) (ps : List P) (s : St P) (c : Bytes) (h0 : σ s.clock = none)
    (hc : s.fs (tmp p) = some c) : commit tmp σ (p :: ps) s = commit tmp σ ps (commitStep tmp p c s) := by
  simp [commit, tick, h0, hc, commitStep]

theorem commit_cons_fault (p : P) (ps : List P) (s : St P) (f : Fault) (h0 : σ s.clock = some f) :
    commit tmp σ (p :: ps) s =
      ({ fs := s.fs, txn := s.txn, clock := s.clock + 1, log := Ev.rename p :: s.log }, some f.err) := by
  simp [commit, tick, h0]

/-- Any schedule: the commit loop installs a prefix `done` of the names it was given — each with
exactly the content its temporary file had —, removes those temp files, forgets those names, and
touches nothing else; it reports no error only if it got through. -/
theorem commit_spec (ps : List P) : ∀ (s : St P) (l : List P), s.txn = some l → ps.Nodup → TmpOK tmp ps →
    (∀ p ∈ ps, s.fs (tmp p) ≠ none) →
    ∃ done rest, ps = done ++ rest ∧
      ((commit tmp σ ps s).2 = none → rest = []) ∧
      (commit tmp σ ps s).1.txn = some (l.filter (· ∉ done)) ∧
      s.clock ≤ (commit tmp σ ps s).1.clock ∧
      (Quiet σ s.clock (s.clock + ps.length) → rest = [] ∧ (commit tmp σ ps s).2 = none) ∧
      (∀ q, (commit tmp σ ps s).1.fs q =
        if q ∈ done then s.fs (tmp q) else if q ∈ done.map tmp then none else s.fs q) := by
  induction ps with
  | nil =>
    intro s l h _ _ _
    exact ⟨[], [], rfl, by simp, by simp only [commit, h]; congr 1; symm; apply List.filter_eq_self.mpr; simp, by simp [commit], by simp [commit], by simp [commit]⟩
  | cons p ps ih =>
    intro s l h hnd hok hex
    rcases h0 : σ s.clock with _ | f
    · rcases hc : s.fs (tmp p) with _ | c
      · exact absurd hc (hex p (by simp))
      · rw [commit_cons_ok tmp σ p ps s c h0 hc]
        have hnd' := (List.nodup_cons.mp hnd)
        have hok' : TmpOK tmp ps :=
          ⟨fun a ha b hb => hok.1 a (by simp [ha]) b (by simp [hb]),
           fun a ha b hb => hok.2 a (by simp [ha]) b (by simp [hb])⟩
        have hex' : ∀ a ∈ ps, (fsMove s.fs (tmp p) p c) (tmp a) ≠ none := by
          intro a ha
          have h1 : tmp a ≠ p := hok.2 a (by simp [ha]) p (by simp)
          have h2 : tmp a ≠ tmp p := by
            intro he
            have := hok.1 a (by simp [ha]) p (by simp) he
            rw [this] at ha; exact hnd'.1 ha
          simp [fsMove, h1, h2, hex a (by simp [ha])]
        obtain ⟨done, rest, e1, e2, e3, e4, e5, e6⟩ :=
          ih (commitStep tmp p c s) (l.filter (· ≠ p)) (by simp [commitStep, h]) hnd'.2 hok' hex'
        refine ⟨p :: done, rest, by simp [e1], e2, ?_, by have : (commitStep tmp p c s).clock = s.clock + 1 := rfl; omega, ?_, ?_⟩
        · rw [e3]
          congr 1
          rw [List.filter_filter]
          apply List.filter_congr
          intro a _
          by_cases hap : a = p <;> simp [hap]
        · intro hq
          have hq' : Quiet σ (commitStep tmp p c s).clock ((commitStep tmp p c s).clock + ps.length) := by
            intro n h1 h2
            simp [commitStep] at h1 h2
            exact hq n (by omega) (by simp; omega)
          exact e5 hq'
        · intro q
          rw [e6 q]
          have hpd : p ∉ done := by
            intro hm; exact hnd'.1 (by rw [e1]; simp [hm])
          by_cases hq1 : q ∈ done
          · have hqps : q ∈ ps := by rw [e1]; simp [hq1]
            have h1 : tmp q ≠ p := hok.2 q (by simp [hqps]) p (by simp)
            have h2 : tmp q ≠ tmp p := by
              intro he
              have := hok.1 q (by simp [hqps]) p (by simp) he
              rw [this] at hqps; exact hnd'.1 hqps
            simp [hq1, fsMove, commitStep, h1, h2]
          · by_cases hqp : q = p
            · subst hqp
              have : q ∉ done.map tmp := by
                intro hm
                obtain ⟨a, ha, hae⟩ := List.mem_map.mp hm
                exact hok.2 a (by rw [e1]; simp [ha]) q (by simp) hae
              simp [hq1, this, fsMove, commitStep, hc]
            · by_cases hq2 : q ∈ done.map tmp
              · simp [hq1, hqp, hq2]
              · by_cases hq3 : q = tmp p
                · subst hq3
                  have h3 : ¬ ∃ a, a ∈ done ∧ tmp a = tmp p := by simpa using hq2
                  simp [hq1, hqp, h3, fsMove, commitStep]
                · simp [hq1, hqp, hq2, hq3, fsMove, commitStep]
    · rw [commit_cons_fault tmp σ p ps s f h0]
      refine ⟨[], p :: ps, rfl, by simp, by simp only [h]; congr 1; symm; apply List.filter_eq_self.mpr; simp, by simp, ?_, by simp⟩
      intro hq
      have := hq s.clock (Nat.le_refl _) (by simp)
      rw [h0] at this; cases this

/-! ## staged temp files -/

/-- the new content of `q`, if the save writes `q` -/
def newContent (frags : List (Frag P)) (q : P) : Option Bytes :=
  (frags.find? (fun fr => fr.path = q)).map (fun fr => fr.decl ++ fr.payload)

theorem stage_other (frags : List (Frag P)) : ∀ (fs : P → Option Bytes) (q : P),
    q ∉ frags.map (fun fr => tmp fr.path) → stage tmp frags fs q = fs q := by
  induction frags with
  | nil => intro fs q _; rfl
  | cons fr frs ih =>
    intro fs q hq
    simp only [List.map_cons, List.mem_cons, not_or] at hq
    rw [stage, ih _ q hq.2]
    simp [fsSet, hq.1]

theorem stage_tmp (frags : List (Frag P)) : ∀ (fs : P → Option Bytes),
    (frags.map (·.path)).Nodup → TmpOK tmp (frags.map (·.path)) →
    ∀ fr ∈ frags, stage tmp frags fs (tmp fr.path) = some (fr.decl ++ fr.payload) := by
  induction frags with
  | nil => intro fs _ _ fr h; cases h
  | cons a as ih =>
    intro fs hnd hok fr hfr
    have hnd' : (a.path :: as.map (·.path)).Nodup := hnd
    have hok' : TmpOK tmp (as.map (·.path)) :=
      ⟨fun x hx y hy => hok.1 x (by simp at hx ⊢; exact Or.inr hx) y (by simp at hy ⊢; exact Or.inr hy),
       fun x hx y hy => hok.2 x (by simp at hx ⊢; exact Or.inr hx) y (by simp at hy ⊢; exact Or.inr hy)⟩
    rcases List.mem_cons.mp hfr with rfl | hfr
    · rw [stage, stage_other]
      · simp [fsSet]
      · intro hm
        obtain ⟨b, hb, hbe⟩ := List.mem_map.mp hm
        have := hok.1 b.path (by simp; exact Or.inr ⟨b, hb, rfl⟩) fr.path (by simp) hbe
        exact (List.nodup_cons.mp hnd').1 (by rw [← this]; exact List.mem_map_of_mem hb)
    · rw [stage]
      exact ih _ (List.nodup_cons.mp hnd').2 hok' fr hfr

theorem newContent_mem (frags : List (Frag P)) (hnd : (frags.map (·.path)).Nodup) :
    ∀ fr ∈ frags, newContent frags fr.path = some (fr.decl ++ fr.payload) := by
  induction frags with
  | nil => intro fr h; cases h
  | cons a as ih =>
    intro fr hfr
    have hnd' : (a.path :: as.map (·.path)).Nodup := hnd
    rcases List.mem_cons.mp hfr with rfl | hfr
    · simp [newContent]
    · have hne : a.path ≠ fr.path := by
        intro he
        exact (List.nodup_cons.mp hnd').1 (by rw [he]; exact List.mem_map_of_mem hfr)
      have := ih (List.nodup_cons.mp hnd').2 fr hfr
      simp only [newContent, List.find?_cons, hne, decide_false] at this ⊢
      exact this

theorem newContent_none (frags : List (Frag P)) (q : P) (h : q ∉ frags.map (·.path)) :
    newContent frags q = none := by
  simp only [newContent, Option.map_eq_none_iff, List.find?_eq_none]
  intro fr hfr
  simp only [decide_eq_true_eq]
  intro he
  exact h (by rw [← he]; exact List.mem_map_of_mem hfr)

/-! ## the bracket -/

/-- state and pending error when the body has ended -/
def afterBody (body : List (Op P)) (s : St P) : Res P := runBody tmp σ body { s with txn := some [] }

/-- the `else` branch: commit unless the body failed or this is a dry run -/
def afterCommit (dry : Bool) (b : Res P) : Res P :=
  match b.2 with
  | some e => (b.1, some e)
  | none => if dry then (b.1, none) else commit tmp σ (ord (b.1.txn.getD [])) b.1

/-- the `finally` branch -/
def afterCleanup (c : Res P) : Res P :=
  ((cleanup tmp σ (ord (c.1.txn.getD [])) { c.1 with txn := none }).1,
   match (cleanup tmp σ (ord (c.1.txn.getD [])) { c.1 with txn := none }).2 with
   | some e => some e
   | none => c.2)

theorem transaction_phases (dry : Bool) (body : List (Op P)) (s : St P) (h : s.txn = none) :
    transaction tmp ord σ dry body s =
      afterCleanup tmp ord σ (afterCommit tmp ord σ dry (afterBody tmp σ body s)) := by
  unfold transaction afterCleanup afterCommit afterBody
  simp only [h]
  rcases runBody tmp σ body { fs := s.fs, txn := some [], clock := s.clock, log := s.log } with ⟨s1, _ | e1⟩
  · simp only
    cases dry
    · simp only [Bool.false_eq_true, if_false]
      rcases commit tmp σ (ord (s1.txn.getD [])) s1 with ⟨s2, e2⟩
      simp only
      split <;> simp_all
    · simp only [if_true]
      split <;> simp_all
  · simp only
    split <;> simp_all

/-- Any schedule, any body: when `write_transaction` is left, the transaction is reset. -/
theorem transaction_txn (dry : Bool) (body : List (Op P)) (s : St P) (h : s.txn = none) :
    (transaction tmp ord σ dry body s).1.txn = none := by
  rw [transaction_phases tmp ord σ dry body s h]
  simp only [afterCleanup]
  exact (cleanup_any tmp σ _ _).1

/-- Roll-back: if the commit phase left the names `l'` pending, every file touched so far is the temp
file of a pending name, and clean-up is fault-free, then every path is as it was at the start or is
a temp name that no longer exists; the pending error is what is reported. -/
theorem rollback (hord : ∀ l, (ord l).Perm l) (fs0 : P → Option Bytes) (c : Res P) (l' ps : List P)
    (ht : c.1.txn = some l') (hsub : ∀ p ∈ l', p ∈ ps)
    (hfs : ∀ q, q ∉ l'.map tmp → c.1.fs q = fs0 q) (hq : QuietFrom σ c.1.clock) :
    (afterCleanup tmp ord σ c).2 = c.2 ∧
    ∀ q, (afterCleanup tmp ord σ c).1.fs q = fs0 q ∨
      (q ∈ ps.map tmp ∧ (afterCleanup tmp ord σ c).1.fs q = none) := by
  have hc := cleanup_quiet tmp σ (ord (c.1.txn.getD [])) { c.1 with txn := none } hq
  simp only [afterCleanup, hc.1, true_and]
  intro q
  rw [hc.2 q]
  simp only [ht, Option.getD_some]
  by_cases hm : q ∈ (ord l').map tmp
  · right
    simp only [hm, if_true, and_true]
    obtain ⟨a, ha, rfl⟩ := List.mem_map.mp hm
    exact List.mem_map_of_mem (hsub a ((hord l').mem_iff.mp ha))
  · left
    simp only [hm, if_false]
    apply hfs
    intro hm'
    obtain ⟨a, ha, rfl⟩ := List.mem_map.mp hm'
    exact hm (List.mem_map_of_mem ((hord l').mem_iff.mpr ha))

/-- the body failed with `e`, clean-up is fault-free -/
theorem abort_restores' (hord : ∀ l, (ord l).Perm l) (dry : Bool) (body : List (Op P)) (s : St P)
    (h : s.txn = none) (e : Err) (he : (afterBody tmp σ body s).2 = some e)
    (hq : QuietFrom σ (afterBody tmp σ body s).1.clock) :
    (transaction tmp ord σ dry body s).2 = some e ∧
    ∀ q, (transaction tmp ord σ dry body s).1.fs q = s.fs q ∨
      (q ∈ (paths body).map tmp ∧ (transaction tmp ord σ dry body s).1.fs q = none) := by
  rw [transaction_phases tmp ord σ dry body s h]
  obtain ⟨l', h1, h2, h3, _⟩ := body_inv tmp σ body { s with txn := some [] } [] rfl
  have hc : afterCommit tmp ord σ dry (afterBody tmp σ body s) = ((afterBody tmp σ body s).1, some e) := by
    simp [afterCommit, he]
  rw [hc]
  have := rollback tmp ord σ hord s.fs ((afterBody tmp σ body s).1, some e) l' (paths body)
    (by simpa [afterBody] using h1) h2 (by simpa [afterBody] using h3) hq
  exact this

/-- dry run whose body succeeded, clean-up is fault-free -/
theorem dry_restores' (hord : ∀ l, (ord l).Perm l) (body : List (Op P)) (s : St P)
    (h : s.txn = none) (he : (afterBody tmp σ body s).2 = none)
    (hq : QuietFrom σ (afterBody tmp σ body s).1.clock) :
    (transaction tmp ord σ true body s).2 = none ∧
    ∀ q, (transaction tmp ord σ true body s).1.fs q = s.fs q ∨
      (q ∈ (paths body).map tmp ∧ (transaction tmp ord σ true body s).1.fs q = none) := by
  rw [transaction_phases tmp ord σ true body s h]
  obtain ⟨l', h1, h2, h3, _⟩ := body_inv tmp σ body { s with txn := some [] } [] rfl
  have hc : afterCommit tmp ord σ true (afterBody tmp σ body s) = ((afterBody tmp σ body s).1, none) := by
    simp [afterCommit, he]
  rw [hc]
  exact rollback tmp ord σ hord s.fs ((afterBody tmp σ body s).1, none) l' (paths body)
    (by simpa [afterBody] using h1) h2 (by simpa [afterBody] using h3) hq

/-- the body succeeded, the very first `replace` fails, clean-up is fault-free -/
theorem first_rename_restores' (hord : ∀ l, (ord l).Perm l) (body : List (Op P)) (s : St P)
    (h : s.txn = none) (he : (afterBody tmp σ body s).2 = none) (f : Fault)
    (hne : (afterBody tmp σ body s).1.txn ≠ some [])
    (hf : σ (afterBody tmp σ body s).1.clock = some f)
    (hq : QuietFrom σ ((afterBody tmp σ body s).1.clock + 1)) :
    (transaction tmp ord σ false body s).2 = some f.err ∧
    ∀ q, (transaction tmp ord σ false body s).1.fs q = s.fs q ∨
      (q ∈ (paths body).map tmp ∧ (transaction tmp ord σ false body s).1.fs q = none) := by
  rw [transaction_phases tmp ord σ false body s h]
  obtain ⟨l', h1, h2, h3, _⟩ := body_inv tmp σ body { s with txn := some [] } [] rfl
  have h1' : (afterBody tmp σ body s).1.txn = some l' := by simpa [afterBody] using h1
  have hl' : l' ≠ [] := by intro hh; rw [hh] at h1'; exact hne h1'
  have hol : ord l' ≠ [] := by
    intro hh
    have := (hord l').length_eq
    rw [hh] at this
    exact hl' (List.length_eq_zero_iff.mp this.symm)
  obtain ⟨p, ps, hps⟩ := List.exists_cons_of_ne_nil hol
  have hc : afterCommit tmp ord σ false (afterBody tmp σ body s) =
      ({ fs := (afterBody tmp σ body s).1.fs, txn := (afterBody tmp σ body s).1.txn,
         clock := (afterBody tmp σ body s).1.clock + 1, log := Ev.rename p :: (afterBody tmp σ body s).1.log },
       some f.err) := by
    have := commit_cons_fault tmp σ p ps _ f hf
    simp only [afterCommit, he, Bool.false_eq_true, if_false, h1', Option.getD_some, hps]
    rw [this, h1']
  rw [hc]
  exact rollback tmp ord σ hord s.fs _ l' (paths body) h1' h2 (by simpa [afterBody] using h3) hq

end Capella.Txn
