import Capella.Model.CacheSM
import Capella.Lemmas.Cache
/-! Lemmas about the second layer of the diagram-cache model (faults, in-memory state, entry points). Core Lean only. -/
namespace Capella.Cache

section
variable {B D : Type}

/-- the handler as the probe loop sees it: `some` = the loop stops here (found, or an exception) -/
def stopf (openf : Str → OpenR B) : Str → Option (B ⊕ (Str × ExcKind)) := fun n => (openf n).stop n

theorem stopf_inl {openf : Str → OpenR B} {n : Str} {b : B} (h : stopf openf n = some (.inl b)) :
    openf n = .found b := by
  unfold stopf at h
  cases ho : openf n with
  | found b' => rw [ho] at h; simp only [OpenR.stop, Option.some.injEq, Sum.inl.injEq] at h; rw [h]
  | notFound => rw [ho] at h; simp [OpenR.stop] at h
  | raises k => rw [ho] at h; simp [OpenR.stop] at h

theorem stopf_inr {openf : Str → OpenR B} {n m : Str} {x : ExcKind} (h : stopf openf n = some (.inr (m, x))) :
    openf n = .raises x ∧ m = n := by
  unfold stopf at h
  cases ho : openf n with
  | found b' => rw [ho] at h; simp [OpenR.stop] at h
  | notFound => rw [ho] at h; simp [OpenR.stop] at h
  | raises k =>
    rw [ho] at h
    simp only [OpenR.stop, Option.some.injEq, Sum.inr.injEq, Prod.mk.injEq] at h
    exact ⟨by rw [h.2], h.1.symm⟩

theorem stopf_none {openf : Str → OpenR B} {n : Str} (h : stopf openf n = none) : openf n = .notFound := by
  unfold stopf at h
  cases ho : openf n with
  | found b' => rw [ho] at h; simp [OpenR.stop] at h
  | notFound => rfl
  | raises k => rw [ho] at h; simp [OpenR.stop] at h

/-! ### `__load_cache` with faults -/

theorem loadCacheF_hit (ops : OpsF B D) {openf : Str → OpenR B} {u ch k c e b}
    (h : Nearest (stopf openf) u ch k c e (.inl b)) :
    loadCacheF ops openf u ch =
      ((probedNames u ch k).map .opened ++ (hitResult ops ch k c b).1, (hitResult ops ch k c b).2) := by
  unfold loadCacheF
  cases hp : probe (fun n => (openf n).stop n) u ch 0 with
  | mk names r =>
    cases r with
    | none => exact absurd (probe_miss (openf := stopf openf) ch 0 hp).1 h.not_none
    | some t =>
      obtain ⟨i, c', b'⟩ := t
      obtain ⟨k', e', hi, hn, hnames⟩ := probe_hit (openf := stopf openf) ch 0 hp
      obtain ⟨rfl, rfl, rfl, rfl⟩ := h.unique hn
      simp at hi; subst hi
      simp [hnames]

theorem loadCacheF_raises (ops : OpsF B D) {openf : Str → OpenR B} {u ch k c e n x}
    (h : Nearest (stopf openf) u ch k c e (.inr (n, x))) :
    loadCacheF ops openf u ch = ((probedNames u ch k).map .opened, .error (.raised (.opened n) x)) := by
  unfold loadCacheF
  cases hp : probe (fun n => (openf n).stop n) u ch 0 with
  | mk names r =>
    cases r with
    | none => exact absurd (probe_miss (openf := stopf openf) ch 0 hp).1 h.not_none
    | some t =>
      obtain ⟨i, c', b'⟩ := t
      obtain ⟨k', e', hi, hn, hnames⟩ := probe_hit (openf := stopf openf) ch 0 hp
      obtain ⟨rfl, rfl, rfl, rfl⟩ := h.unique hn
      simp [hnames]

theorem loadCacheF_miss (ops : OpsF B D) {openf : Str → OpenR B} {u ch}
    (h : NoneCached (stopf openf) u ch) :
    loadCacheF ops openf u ch =
      (((ch.filterMap (usableFor u)).map (u ++ ·)).map .opened, .error (.base .keyError)) := by
  unfold loadCacheF
  cases hp : probe (fun n => (openf n).stop n) u ch 0 with
  | mk names r =>
    cases r with
    | none => simp [(probe_miss (openf := stopf openf) ch 0 hp).2]
    | some t =>
      obtain ⟨i, c, b⟩ := t
      obtain ⟨k, e, _, hn, _⟩ := probe_hit (openf := stopf openf) ch 0 hp
      exact absurd h hn.not_none

/-- a value only ever comes out of `__load_cache` as: own file found → `from_cache` succeeded → every
converter in front of it succeeded -/
theorem loadCacheF_ok (ops : OpsF B D) {openf : Str → OpenR B} {u ch tr d}
    (h : loadCacheF ops openf u ch = (tr, .ok d)) :
    ∃ k c e b d0, ch[k]? = some c ∧ usableFor u c = some e ∧ openf (u ++ e) = .found b ∧
      ops.fromCache c.id b = .ok d0 ∧ (runLoadF ops (ch.take k) d0).2 = .ok d := by
  unfold loadCacheF at h
  cases hp : probe (fun n => (openf n).stop n) u ch 0 with
  | mk names r =>
    rw [hp] at h
    cases r with
    | none => simp at h
    | some t =>
      obtain ⟨i, c, x⟩ := t
      obtain ⟨k, e, hi, hn, _⟩ := probe_hit (openf := stopf openf) ch 0 hp
      simp at hi; subst hi
      cases x with
      | inr p => obtain ⟨n, y⟩ := p; simp at h
      | inl b =>
        simp only [Prod.mk.injEq] at h
        obtain ⟨_, h2⟩ := h
        unfold hitResult at h2
        cases hf : ops.fromCache c.id b with
        | error y => rw [hf] at h2; simp at h2
        | ok d0 =>
          rw [hf] at h2
          exact ⟨i, c, e, b, d0, hn.1, hn.2.1, stopf_inl hn.2.2.1, hf, h2⟩

/-- an error of `__load_cache` is never the stored render error -/
theorem stepsF_not_stored {step : Conv → D → Ev × Except ExcKind D} :
    ∀ (l : List Conv) (d : D) (e : Err), (stepsF step l d).2 ≠ .error (.stored e) := by
  intro l
  induction l with
  | nil => intro d e; simp [stepsF]
  | cons c rest ih =>
    intro d e
    unfold stepsF
    cases hs : step c d with
    | mk ev r =>
      cases r with
      | error k => simp
      | ok d' => simpa using ih d' e

/-! ### complete conversions -/

/-- a faulty interpretation agrees with a total one wherever it does not raise -/
structure Agrees (opsF : OpsF B D) (ops : Ops B D) : Prop where
  fromCache : ∀ i b d, opsF.fromCache i b = .ok d → ops.fromCache i b = d
  convert : ∀ i x d, opsF.convert i x = .ok d → ops.convert i x = d
  pretty : ∀ i x d, opsF.pretty i x = .ok d → ops.pretty i x = d
  call : ∀ i x d, opsF.call i x = .ok d → ops.call i x = d

theorem stepsF_ok {step : Conv → D → Ev × Except ExcKind D} {g : Conv → D → D} {ev : Conv → Ev}
    (hs : ∀ c x d, (step c x).2 = .ok d → g c x = d) (hev : ∀ c x, (step c x).1 = ev c) :
    ∀ (l : List Conv) (d0 : D) (tr : List Ev) (d : D), stepsF step l d0 = (tr, .ok d) →
      d = l.foldl (fun acc c => g c acc) d0 ∧ tr = l.map ev := by
  intro l
  induction l with
  | nil => intro d0 tr d h; simp [stepsF] at h; obtain ⟨rfl, rfl⟩ := h; simp
  | cons c rest ih =>
    intro d0 tr d h
    unfold stepsF at h
    cases hst : step c d0 with
    | mk e r =>
      rw [hst] at h
      cases r with
      | error k => simp at h
      | ok d' =>
        simp only [Prod.mk.injEq] at h
        obtain ⟨h1, h2⟩ := h
        have hr : stepsF step rest d' = ((stepsF step rest d').1, .ok d) := by
          rw [← h2]
        obtain ⟨hd, htr⟩ := ih d' _ d hr
        have hg : g c d0 = d' := hs c d0 d' (by rw [hst])
        have he : e = ev c := by have := hev c d0; rw [hst] at this; exact this
        refine ⟨by simp [List.foldl_cons, hg, hd], ?_⟩
        rw [← h1, htr, he]; simp

/-- **No partially converted value (cache side).** If the forward conversion of `__load_cache` hands back
a value, every converter of the chain prefix ran (the trace lists them all, nearest first) and the value is
the complete conversion. -/
theorem runLoadF_ok_complete {opsF : OpsF B D} {ops : Ops B D} (ha : Agrees opsF ops) {ch : List Conv} {d0 d : D}
    {tr : List Ev} (h : runLoadF opsF ch d0 = (tr, .ok d)) :
    d = runLoad ops ch d0 ∧ tr = evsLoad ch := by
  unfold runLoadF at h
  have := stepsF_ok (step := stepLoadF opsF) (g := stepLoad ops) (ev := evLoad)
    (by
      intro c x d hx
      unfold stepLoadF at hx; unfold stepLoad
      split at hx
      · rename_i hc; simp [hc]; exact ha.convert _ _ _ hx
      · rename_i hc; simp [hc]; exact ha.call _ _ _ hx)
    (by intro c x; unfold stepLoadF evLoad; split <;> rfl)
    ch.reverse d0 tr d h
  refine ⟨?_, this.2⟩
  rw [this.1, List.foldl_reverse]
  rfl

theorem runChainF_ok_complete {opsF : OpsF B D} {ops : Ops B D} (ha : Agrees opsF ops) {p : Bool} {ch : List Conv}
    {d0 d : D} {tr : List Ev} (h : runChainF opsF p ch d0 = (tr, .ok d)) :
    d = runChain ops p ch d0 ∧ tr = evsRun p ch := by
  unfold runChainF at h
  have := stepsF_ok (step := stepRunF opsF p) (g := stepRun ops p) (ev := evRun p)
    (by
      intro c x d hx
      unfold stepRunF at hx; unfold stepRun
      split at hx
      · rename_i hc; simp [hc]; exact ha.pretty _ _ _ hx
      · split at hx
        · rename_i hc hc2; simp [hc, hc2]; exact ha.convert _ _ _ hx
        · rename_i hc hc2; simp [hc, hc2]; exact ha.call _ _ _ hx)
    (by
      intro c x; unfold stepRunF evRun
      split
      · rfl
      · split <;> rfl)
    ch.reverse d0 tr d h
  refine ⟨?_, this.2⟩
  rw [this.1, List.foldl_reverse]
  rfl

/-! ### `render` on a diagram object -/

/-- the lookup for format `f` is decided by the cache alone: fallback off, or `__load_cache` does not end in a `KeyError` -/
def Decided (E : Env B D) (q : Req B D) (f : Str) : Prop :=
  E.cfg.allowRender = false ∨
  ∀ i ch, E.T.entry f = some i → E.T.chain i = some ch →
    ∀ e, (loadCacheF E.ops q.openf E.u ch).2 = .error e → e.isKey = false

theorem renderS_state_irrelevant (E : Env B D) (st st' : St D) (q : Req B D) (f : Str) (pretty pe : Bool)
    (hc : E.cfg.cache = true) (hd : Decided E q f) :
    renderS E st q (some f) pretty pe = (st, (renderS E st' q (some f) pretty pe).2) := by
  cases hf : E.T.entry f with
  | none => simp only [renderS, hf]
  | some i =>
    cases hch : E.T.chain i with
    | none => simp only [renderS, hf, hch]
    | some ch =>
      simp only [renderS, hf, hch, hc, if_true]
      cases hl : loadCacheF E.ops q.openf E.u ch with
      | mk tr r =>
        cases r with
        | ok d => rfl
        | error e =>
          cases hk : e.isKey with
          | false => simp [hk]
          | true =>
            rcases hd with ha | hn
            · simp [ha, hk]
            · have := hn i ch hf hch e (by rw [hl])
              rw [hk] at this; cases this

theorem renderS_hit (E : Env B D) (st : St D) (q : Req B D) {f i : Str} {ch : List Conv} (pretty pe : Bool)
    (hf : E.T.entry f = some i) (hch : E.T.chain i = some ch) (hc : E.cfg.cache = true)
    {k c e b} (hn : Nearest (stopf q.openf) E.u ch k c e (.inl b))
    (hnk : ∀ x, (hitResult E.ops ch k c b).2 = .error x → x.isKey = false) :
    renderS E st q (some f) pretty pe =
      (st, (probedNames E.u ch k).map .opened ++ (hitResult E.ops ch k c b).1, (hitResult E.ops ch k c b).2) := by
  simp only [renderS, hf, hch, hc, if_true, loadCacheF_hit E.ops hn]
  cases hr : (hitResult E.ops ch k c b).2 with
  | ok d => rfl
  | error x => simp [hnk x hr]

theorem renderS_raises (E : Env B D) (st : St D) (q : Req B D) {f i : Str} {ch : List Conv} (pretty pe : Bool)
    (hf : E.T.entry f = some i) (hch : E.T.chain i = some ch) (hc : E.cfg.cache = true)
    {k c e n} (hn : Nearest (stopf q.openf) E.u ch k c e (.inr (n, .other))) :
    renderS E st q (some f) pretty pe =
      (st, (probedNames E.u ch k).map .opened, .error (.raised (.opened (E.u ++ e)) .other)) := by
  have hne : n = E.u ++ e := (stopf_inr hn.2.2.1).2
  subst hne
  simp [renderS, hf, hch, hc, loadCacheF_raises E.ops hn, ErrF.isKey]

theorem renderS_miss_noallow (E : Env B D) (st : St D) (q : Req B D) {f i : Str} {ch : List Conv} (pretty pe : Bool)
    (hf : E.T.entry f = some i) (hch : E.T.chain i = some ch) (hc : E.cfg.cache = true)
    (ha : E.cfg.allowRender = false) (hn : NoneCached (stopf q.openf) E.u ch) :
    renderS E st q (some f) pretty pe =
      (st, ((ch.filterMap (usableFor E.u)).map (E.u ++ ·)).map .opened, .error (.base .notInCache)) := by
  simp [renderS, hf, hch, hc, ha, loadCacheF_miss E.ops hn, ErrF.isKey]

theorem renderS_miss_allow (E : Env B D) (st : St D) (q : Req B D) {f i : Str} {ch : List Conv} (pretty pe : Bool)
    (hf : E.T.entry f = some i) (hch : E.T.chain i = some ch) (hc : E.cfg.cache = true)
    (ha : E.cfg.allowRender = true) (hn : NoneCached (stopf q.openf) E.u ch) :
    renderS E st q (some f) pretty pe =
      ((renderFreshS E st q pretty pe ch).1,
       ((ch.filterMap (usableFor E.u)).map (E.u ++ ·)).map .opened ++ (renderFreshS E st q pretty pe ch).2.1,
       (renderFreshS E st q pretty pe ch).2.2) := by
  simp [renderS, hf, hch, hc, ha, loadCacheF_miss E.ops hn, ErrF.isKey]

theorem renderS_nocache (E : Env B D) (st : St D) (q : Req B D) {f i : Str} {ch : List Conv} (pretty pe : Bool)
    (hf : E.T.entry f = some i) (hch : E.T.chain i = some ch) (hc : E.cfg.cache = false) :
    renderS E st q (some f) pretty pe = renderFreshS E st q pretty pe ch := by
  simp [renderS, hf, hch, hc]

/-- every value `render(fmt)` hands back is a complete conversion: of this diagram's own cache file, or of the
internal rendering (only without a cache / with the fallback enabled) -/
theorem renderS_ok (E : Env B D) (st : St D) (q : Req B D) (f : Str) (pretty pe : Bool) {st' tr d}
    (h : renderS E st q (some f) pretty pe = (st', tr, .ok d)) :
    ∃ i ch, E.T.entry f = some i ∧ E.T.chain i = some ch ∧
      ((E.cfg.cache = true ∧ st' = st ∧ ∃ k c e b d0, ch[k]? = some c ∧ usableFor E.u c = some e ∧
          q.openf (E.u ++ e) = .found b ∧ E.ops.fromCache c.id b = .ok d0 ∧
          (runLoadF E.ops (ch.take k) d0).2 = .ok d)
       ∨ ((E.cfg.cache = false ∨ E.cfg.allowRender = true) ∧
          ∃ d0, (freshSt E.ops st q.create pe).result = .ok d0 ∧ (runChainF E.ops pretty ch d0).2 = .ok d)) := by
  cases hf : E.T.entry f with
  | none => simp [renderS, hf] at h
  | some i =>
    cases hch : E.T.chain i with
    | none => simp [renderS, hf, hch] at h
    | some ch =>
      refine ⟨i, ch, rfl, hch, ?_⟩
      simp only [renderS, hf, hch] at h
      have hfresh : ∀ {st' tr}, renderFreshS E st q pretty pe ch = (st', tr, .ok d) →
          ∃ d0, (freshSt E.ops st q.create pe).result = .ok d0 ∧ (runChainF E.ops pretty ch d0).2 = .ok d := by
        intro st' tr hr
        unfold renderFreshS at hr
        cases hres : (freshSt E.ops st q.create pe).result with
        | error e => simp [hres] at hr
        | ok d0 =>
          simp only [hres, Prod.mk.injEq] at hr
          exact ⟨d0, rfl, hr.2.2⟩
      cases hc : E.cfg.cache with
      | false =>
        simp only [hc] at h
        exact .inr ⟨.inl rfl, hfresh h⟩
      | true =>
        simp only [hc, if_true] at h
        cases hl : loadCacheF E.ops q.openf E.u ch with
        | mk tr0 r =>
          rw [hl] at h
          cases r with
          | ok d1 =>
            simp only [Prod.mk.injEq, Except.ok.injEq] at h
            obtain ⟨rfl, rfl, rfl⟩ := h
            exact .inl ⟨rfl, rfl, loadCacheF_ok E.ops hl⟩
          | error e =>
            simp only at h
            cases hk : e.isKey with
            | false => simp [hk] at h
            | true =>
              cases ha : E.cfg.allowRender with
              | false => simp [hk, ha] at h
              | true =>
                simp only [hk, ha, if_true, Prod.mk.injEq] at h
                refine .inr ⟨.inr rfl, ?_⟩
                apply hfresh (st' := (renderFreshS E st q pretty pe ch).1) (tr := (renderFreshS E st q pretty pe ch).2.1)
                rw [← h.2.2]


/-! ### the other entry points -/

theorem asFmtS_ok (E : Env B D) (st : St D) (q : Req B D) (f : Str) {st' tr d}
    (h : renderS E st q (some f) false true = (st', tr, .ok d)) : asFmtS E st q f = (st', tr, .ok d) := by
  unfold asFmtS; rw [h]

theorem htmlS_ok (E : Env B D) (st : St D) (q : Req B D) {st' tr d}
    (h : renderS E st q (some svgName) false true = (st', tr, .ok d)) : htmlS E st q = (st', tr, .ok (.figure d)) := by
  unfold htmlS; rw [asFmtS_ok E st q svgName h]

theorem reprS_ok (E : Env B D) (st : St D) (q : Req B D) {st' tr d}
    (h : renderS E st q (some termgraphics) false true = (st', tr, .ok d)) :
    reprS E st q true = (st', tr, .ok (.drawn d)) := by
  unfold reprS; simp [h]

theorem saveS_given (E : Env B D) (st : St D) (q : Req B D) (f : Str) (pretty pe : Bool) :
    saveS E st q true f pretty pe =
      match renderS E st q (some f) pretty pe with
      | (st', tr, .error e) => (st', tr, .error e)
      | (st', tr, .ok d) => if E.ops.writable d then (st', tr, .ok (.written none d)) else (st', tr, .error .typeError) := by
  unfold saveS
  simp only [if_true]
  rfl

theorem asFmtS_miss (E : Env B D) (st : St D) (q : Req B D) {f i : Str} {ch : List Conv}
    (hf : E.T.entry f = some i) (hch : E.T.chain i = some ch) (hc : E.cfg.cache = true)
    (ha : E.cfg.allowRender = false) (hn : NoneCached (stopf q.openf) E.u ch) :
    asFmtS E st q f =
      (st, ((ch.filterMap (usableFor E.u)).map (E.u ++ ·)).map .opened ++ [.errImage .render]
            ++ (runChainF E.ops false ch (E.ops.errImage .render (.base .notInCache))).1,
       (runChainF E.ops false ch (E.ops.errImage .render (.base .notInCache))).2) := by
  unfold asFmtS
  rw [renderS_miss_noallow E st q false true hf hch hc ha hn]
  cases st <;> simp [ErrF.isUnknownFormat, ErrF.isDiverge, errImageOf, hf, hch]

theorem reprS_miss (E : Env B D) (st : St D) (q : Req B D) {i : Str} {ch : List Conv}
    (hf : E.T.entry termgraphics = some i) (hch : E.T.chain i = some ch) (hc : E.cfg.cache = true)
    (ha : E.cfg.allowRender = false) (hn : NoneCached (stopf q.openf) E.u ch) :
    reprS E st q true = (st, ((ch.filterMap (usableFor E.u)).map (E.u ++ ·)).map .opened, .ok .short) := by
  unfold reprS
  simp [renderS_miss_noallow E st q false true hf hch hc ha hn, ErrF.isDiverge]

/-! ### `_repr_mimebundle_` -/

/-- every item the first loop puts into the bundle is what `render`'s own lookup (`__load_cache` on the WHOLE
chain of that format) returns -/
theorem bundleCached_items (E : Env B D) (q : Req B D) (hc : E.cfg.cache = true) :
    ∀ (fs : List (Str × Conv)) (tr : List Ev) (items : List (Str × D)),
      bundleCached E q fs = (tr, .ok items) →
      ∀ m d, (m, d) ∈ items → ∃ c ch tr0, (m, c) ∈ fs ∧ E.T.chain c.id = some ch ∧
        loadCacheF E.ops q.openf E.u ch = (tr0, .ok d) := by
  intro fs
  induction fs with
  | nil => intro tr items h m d hm; simp [bundleCached] at h; rw [h.2] at hm; cases hm
  | cons p rest ih =>
    intro tr items h m d hm
    obtain ⟨m0, c0⟩ := p
    unfold bundleCached at h
    cases hch : E.T.chain c0.id with
    | none => simp [hch] at h
    | some ch =>
      simp only [hch, hc, if_true] at h
      cases hl : loadCacheF E.ops q.openf E.u ch with
      | mk tr0 r =>
        rw [hl] at h
        cases hrest : bundleCached E q rest with
        | mk tr1 r1 =>
          rw [hrest] at h
          cases r with
          | ok d1 =>
            simp only [Prod.mk.injEq] at h
            cases r1 with
            | error e => simp [Except.map] at h
            | ok items1 =>
              simp only [Except.map, Except.ok.injEq] at h
              rw [← h.2] at hm
              rcases List.mem_cons.mp hm with heq | hmem
              · simp only [Prod.mk.injEq] at heq
                obtain ⟨rfl, rfl⟩ := heq
                exact ⟨c0, ch, tr0, List.mem_cons_self, hch, hl⟩
              · obtain ⟨c, ch', tr', hm', rest'⟩ := ih tr1 items1 hrest m d hmem
                exact ⟨c, ch', tr', List.mem_cons_of_mem _ hm', rest'⟩
          | error e =>
            simp only [Prod.mk.injEq] at h
            obtain ⟨c, ch', tr', hm', rest'⟩ := ih tr1 items (by rw [hrest, h.2]) m d hm
            exact ⟨c, ch', tr', List.mem_cons_of_mem _ hm', rest'⟩

theorem mimebundleS_cached (E : Env B D) (st : St D) (q : Req B D) (sel : Str → Bool) (draw : Bool) {tr it items}
    (h : bundleCached E q (bundleFormats E sel) = (tr, .ok (it :: items))) :
    mimebundleS E st q sel draw = (st, tr, .ok (.bundle (it :: items))) := by
  unfold mimebundleS
  cases hfm : bundleFormats E sel with
  | nil => rw [hfm] at h; simp [bundleCached] at h
  | cons p rest =>
    rw [hfm] at h
    simp [h]

/-! ### where the internal renderer (`Ev.fresh`) can show up -/

theorem stepsF_no_fresh {step : Conv → D → Ev × Except ExcKind D} (hs : ∀ c d, (step c d).1 ≠ .fresh) :
    ∀ (ch : List Conv) (d : D), Ev.fresh ∉ (stepsF step ch d).1 := by
  intro ch
  induction ch with
  | nil => intro d; simp [stepsF]
  | cons c rest ih =>
    intro d
    unfold stepsF
    have h1 := hs c d
    cases hsc : step c d with
    | mk ev r =>
      rw [hsc] at h1
      cases r with
      | error k => simpa using fun h => h1 h.symm
      | ok d' =>
        simp only [List.mem_cons, not_or]
        exact ⟨fun h => h1 h.symm, ih d'⟩

theorem runLoadF_no_fresh (ops : OpsF B D) (ch : List Conv) (d : D) : Ev.fresh ∉ (runLoadF ops ch d).1 := by
  unfold runLoadF
  apply stepsF_no_fresh
  intro c d; unfold stepLoadF; split <;> simp

theorem runChainF_no_fresh (ops : OpsF B D) (p : Bool) (ch : List Conv) (d : D) :
    Ev.fresh ∉ (runChainF ops p ch d).1 := by
  unfold runChainF
  apply stepsF_no_fresh
  intro c d; unfold stepRunF; split
  · simp
  · split <;> simp

theorem loadCacheF_no_fresh (ops : OpsF B D) (openf : Str → OpenR B) (u : Str) (ch : List Conv) :
    Ev.fresh ∉ (loadCacheF ops openf u ch).1 := by
  unfold loadCacheF
  split
  · simp
  · simp
  · rename_i names i c b _
    simp only [List.mem_append, not_or]
    refine ⟨by simp, ?_⟩
    unfold hitResult
    split
    · simp
    · simp only [List.mem_cons, not_or]
      exact ⟨by simp, runLoadF_no_fresh ops _ _⟩

theorem bundleCached_no_fresh (E : Env B D) (q : Req B D) :
    ∀ fs : List (Str × Conv), Ev.fresh ∉ (bundleCached E q fs).1 := by
  intro fs
  induction fs with
  | nil => simp [bundleCached]
  | cons p rest ih =>
    obtain ⟨m, c⟩ := p
    unfold bundleCached
    split
    · simp
    · simp only [List.mem_append, not_or]
      refine ⟨?_, ih⟩
      split
      · exact loadCacheF_no_fresh _ _ _ _
      · simp

theorem bundleConverted_no_fresh (E : Env B D) (img : D) :
    ∀ fs : List (Str × Conv), Ev.fresh ∉ (bundleConverted E img fs).1 := by
  intro fs
  induction fs with
  | nil => simp [bundleConverted]
  | cons p rest ih =>
    obtain ⟨m, c⟩ := p
    unfold bundleConverted
    split
    · simp
    · simp only [List.mem_append, not_or]
      exact ⟨runChainF_no_fresh _ _ _ _, ih⟩

/-- with a cache configured and the fallback off `render(fmt)` with a format never runs the renderer -/
theorem renderS_no_fresh (E : Env B D) (st : St D) (q : Req B D) (f : Str) (pretty pe : Bool)
    (hc : E.cfg.cache = true) (ha : E.cfg.allowRender = false) :
    (renderS E st q (some f) pretty pe).1 = st ∧ Ev.fresh ∉ (renderS E st q (some f) pretty pe).2.1 := by
  unfold renderS
  simp only [hc, ha, if_true]
  split
  · simp
  · split
    · simp
    · rename_i ch _
      have hl := loadCacheF_no_fresh E.ops q.openf E.u ch
      split
      · rename_i tr d heq; rw [heq] at hl; exact ⟨rfl, hl⟩
      · rename_i tr e heq; rw [heq] at hl
        split <;> exact ⟨rfl, hl⟩

theorem reprS_no_fresh (E : Env B D) (st : St D) (q : Req B D) (draw : Bool)
    (hc : E.cfg.cache = true) (ha : E.cfg.allowRender = false) :
    (reprS E st q draw).1 = st ∧ Ev.fresh ∉ (reprS E st q draw).2.1 := by
  unfold reprS
  have h := renderS_no_fresh E st q termgraphics false true hc ha
  split
  · simp
  · split
    · rename_i heq; rw [heq] at h; exact h
    · rename_i heq; rw [heq] at h
      split <;> exact h

/-- **`_repr_mimebundle_` respects the fallback policy** (after the fix): with a cache configured and
`_allow_render` false the internal renderer never runs and the in-memory state stays as it is — whatever is
cached, whatever raises, whatever is selected. -/
theorem mimebundleS_no_fresh (E : Env B D) (st : St D) (q : Req B D) (sel : Str → Bool) (draw : Bool)
    (hc : E.cfg.cache = true) (ha : E.cfg.allowRender = false) :
    (mimebundleS E st q sel draw).1 = st ∧ Ev.fresh ∉ (mimebundleS E st q sel draw).2.1 := by
  unfold mimebundleS
  simp only [hc, ha, Bool.not_false, Bool.and_self, if_true]
  split
  · simp
  · have h1 := bundleCached_no_fresh E q (bundleFormats E sel)
    split
    · rename_i heq; rw [heq] at h1; exact ⟨rfl, h1⟩
    · rename_i heq; rw [heq] at h1; exact ⟨rfl, h1⟩
    · rename_i tr heq; rw [heq] at h1
      have him : Ev.fresh ∉ (errImageOf E.ops st (.base .notInCache)).1 := by
        unfold errImageOf; split <;> simp
      have h2 := bundleConverted_no_fresh E (errImageOf E.ops st (.base .notInCache)).2 (bundleFormats E sel)
      have h3 := reprS_no_fresh E st q draw hc ha
      split
      · rename_i heq2; rw [heq2] at h2
        exact ⟨rfl, by simp only [List.mem_append, not_or]; exact ⟨⟨h1, him⟩, h2⟩⟩
      · rename_i heq2; rw [heq2] at h2
        exact ⟨rfl, by simp only [List.mem_append, not_or]; exact ⟨⟨h1, him⟩, h2⟩⟩
      · rename_i heq2; rw [heq2] at h2
        split
        · rename_i heq3; rw [heq3] at h3
          exact ⟨h3.1, by simp only [List.mem_append, not_or]; exact ⟨⟨⟨h1, him⟩, h2⟩, h3.2⟩⟩
        · rename_i heq3; rw [heq3] at h3
          exact ⟨h3.1, by simp only [List.mem_append, not_or]; exact ⟨⟨⟨h1, him⟩, h2⟩, h3.2⟩⟩

/-! ### call sequences -/

theorem run_append (E : Env B D) : ∀ (pre : List (Req B D × Entry)) (st : St D) (x : Req B D × Entry),
    run E st (pre ++ [x]) = run E st pre ++ run E (stateAfter E st pre) [x] := by
  intro pre
  induction pre with
  | nil => intro st x; rfl
  | cons p rest ih =>
    intro st x
    obtain ⟨q, en⟩ := p
    obtain ⟨q', en'⟩ := x
    simp only [List.cons_append, run, stateAfter]
    rw [ih]
    simp only [run]

end
end Capella.Cache
