/-
Snapping lemmas: `__vector_snap_closest`, `__vector_snap_manhattan`, `__vector_snap_oblique` never fail on a
proper box and return a point of its outline.
-/
import Capella.Lemmas.GeomBasic
import Capella.Lemmas.GeomLit

namespace Capella.Geom
/-- `__vector_snap_closest`: for a proper box, no error and a point of the outline -/
theorem snapClosest_spec (b : Box) (s : V2) (hw : 0 < b.size.x) (hh : 0 < b.size.y) :
    ∃ q, snapClosest b s = .ok q ∧ onOutline b q := by
  unfold snapClosest
  rw [if_neg (not_not.mpr ⟨hw, hh⟩)]
  by_cases hc : s = b.center
  · rw [if_pos hc]; exact ⟨_, rfl, onOutline_left_mid b hw hh⟩
  rw [if_neg hc]
  have hne : s.x ≠ b.center.x ∨ s.y ≠ b.center.y := by
    by_contra hcon
    push Not at hcon
    exact hc (V2.ext' hcon.1 hcon.2)
  simp only [Box.center_x, Box.center_y] at hne
  -- abbreviations
  have hU : closestU b (s - b.center) = (s.x - (b.pos.x + b.size.x / 2)) * b.size.y - (s.y - (b.pos.y + b.size.y / 2)) * b.size.x := by
    simp [closestU]
  have hV : closestV b (s - b.center) = (s.x - (b.pos.x + b.size.x / 2)) * b.size.y + (s.y - (b.pos.y + b.size.y / 2)) * b.size.x := by
    simp [closestV]
  generalize hdx : s.x - (b.pos.x + b.size.x / 2) = dx at hU hV
  generalize hdy : s.y - (b.pos.y + b.size.y / 2) = dy at hU hV
  have hdx0 : s.x ≠ b.pos.x + b.size.x / 2 ∨ s.y ≠ b.pos.y + b.size.y / 2 := hne
  have hd0 : dx ≠ 0 ∨ dy ≠ 0 := by
    rcases hne with h | h
    · left; rw [← hdx]; exact sub_ne_zero.mpr h
    · right; rw [← hdy]; exact sub_ne_zero.mpr h
  -- vertical sides need dx ≠ 0 and U*V ≥ 0, horizontal ones dy ≠ 0 and U*V ≤ 0
  have vert : ∀ (p3 p4 : V2), p3.x = p4.x → p3.y ≠ p4.y → (p3.x = b.pos.x ∨ p3.x = b.pos.x + b.size.x) →
      dx ≠ 0 → 0 ≤ (dx * b.size.y - dy * b.size.x) * (dx * b.size.y + dy * b.size.x) →
      ∃ q, lineIntersect b.center s p3 p4 = .ok q ∧ onOutline b q := by
    intro p3 p4 h34 hy hside hdxne hUV
    have hsx : s.x ≠ b.center.x := by
      simp only [Box.center_x]; intro h; apply hdxne; rw [← hdx, h]; ring
    refine ⟨_, lineIntersect_vline b.center s p3 p4 h34 hy hsx, ?_⟩
    have hb := ratio_bounds ((p3.x - b.center.x) * (s.y - b.center.y)) (s.x - b.center.x) (b.size.y / 2)
      (sub_ne_zero.mpr hsx) (by linarith) (by
        simp only [Box.center_x, Box.center_y]
        rw [hdx, hdy]
        rcases hside with h | h <;> rw [h] <;> nlinarith)
    simp only [onOutline, inBox, Box.center_y]
    simp only [Box.center_y] at hb
    rcases hside with h | h
    · refine ⟨⟨by linarith, by linarith, by linarith [hb.1], by linarith [hb.2]⟩, Or.inl h⟩
    · refine ⟨⟨by linarith, by linarith, by linarith [hb.1], by linarith [hb.2]⟩, Or.inr (Or.inl h)⟩
  have horiz : ∀ (p3 p4 : V2), p3.y = p4.y → p3.x ≠ p4.x → (p3.y = b.pos.y ∨ p3.y = b.pos.y + b.size.y) →
      dy ≠ 0 → (dx * b.size.y - dy * b.size.x) * (dx * b.size.y + dy * b.size.x) ≤ 0 →
      ∃ q, lineIntersect b.center s p3 p4 = .ok q ∧ onOutline b q := by
    intro p3 p4 h34 hx hside hdyne hUV
    have hsy : s.y ≠ b.center.y := by
      simp only [Box.center_y]; intro h; apply hdyne; rw [← hdy, h]; ring
    refine ⟨_, lineIntersect_hline b.center s p3 p4 h34 hx hsy, ?_⟩
    have hb := ratio_bounds ((p3.y - b.center.y) * (s.x - b.center.x)) (s.y - b.center.y) (b.size.x / 2)
      (sub_ne_zero.mpr hsy) (by linarith) (by
        simp only [Box.center_x, Box.center_y]
        rw [hdx, hdy]
        rcases hside with h | h <;> rw [h] <;> nlinarith)
    simp only [onOutline, inBox, Box.center_x]
    simp only [Box.center_x] at hb
    rcases hside with h | h
    · refine ⟨⟨by linarith [hb.1], by linarith [hb.2], by linarith, by linarith⟩, Or.inr (Or.inr (Or.inl h))⟩
    · refine ⟨⟨by linarith [hb.1], by linarith [hb.2], by linarith, by linarith⟩, Or.inr (Or.inr (Or.inr h))⟩
  simp only [closestSide, hU, hV]
  have hw' : b.size.x ≠ 0 := ne_of_gt hw
  have hh' : b.size.y ≠ 0 := ne_of_gt hh
  split_ifs with h1 h2 h3
  · -- right
    have hdxp : 0 < dx := by nlinarith [h1.1, h1.2]
    exact vert b.tr b.br (by simp) (by simp; exact hh') (Or.inr (by simp)) (ne_of_gt hdxp)
      (le_of_lt (mul_pos h1.1 h1.2))
  · -- bottom
    have hdyp : 0 < dy := by nlinarith [h2.1, h2.2]
    exact horiz b.bl b.br (by simp) (by simp; exact hw') (Or.inr (by simp)) (ne_of_gt hdyp)
      (mul_nonpos_of_nonpos_of_nonneg h2.1 (le_of_lt h2.2))
  · -- top
    have hdyn : dy < 0 := by nlinarith [h3.1, h3.2]
    exact horiz b.tl b.tr (by simp) (by simp; exact hw') (Or.inl (by simp)) (ne_of_lt hdyn)
      (mul_nonpos_of_nonneg_of_nonpos (le_of_lt h3.1) h3.2)
  · -- left
    have hV0 : dx * b.size.y + dy * b.size.x ≤ 0 := by
      by_contra hcon
      push Not at hcon
      by_cases hu : 0 < dx * b.size.y - dy * b.size.x
      · exact h1 ⟨hu, hcon⟩
      · exact h2 ⟨le_of_not_gt hu, hcon⟩
    have hUV : 0 ≤ (dx * b.size.y - dy * b.size.x) * (dx * b.size.y + dy * b.size.x) := by
      rcases eq_or_lt_of_le hV0 with h0 | hneg
      · rw [h0]; simp
      · have hu : dx * b.size.y - dy * b.size.x ≤ 0 := by
          by_contra hcon; push Not at hcon; exact h3 ⟨hcon, le_of_lt hneg⟩
        exact mul_nonneg_of_nonpos_of_nonpos hu (le_of_lt hneg)
    have hdxne : dx ≠ 0 := by
      intro h0
      rw [h0] at hUV hV0
      have : dy * b.size.x = 0 := by nlinarith [sq_nonneg (dy * b.size.x)]
      rcases mul_eq_zero.mp this with h | h
      · rcases hd0 with h' | h'
        · exact h' h0
        · exact h' h
      · exact hw' h
    exact vert b.tl b.bl (by simp) (by simp; exact hh') (Or.inl (by simp)) hdxne hUV


/-- a point of the line through `a` and `s` at abscissa `X` lies on the same side of `a` as `s` iff `X` does -/
theorem vline_faces (a s : V2) (X : Rat) (hs : 0 < (X - a.x) * (s.x - a.x)) :
    0 < ((⟨X, a.y + (X - a.x) * (s.y - a.y) / (s.x - a.x)⟩ : V2) - a).dot (s - a) := by
  have hd : s.x - a.x ≠ 0 := by
    intro h; rw [h] at hs; simp at hs
  have hk : 0 < (X - a.x) / (s.x - a.x) := by
    have : (X - a.x) / (s.x - a.x) = (X - a.x) * (s.x - a.x) / ((s.x - a.x) * (s.x - a.x)) := by
      field_simp
    rw [this]
    exact div_pos hs (mul_self_pos.mpr hd)
  have hq : 0 < (s.x - a.x) * (s.x - a.x) + (s.y - a.y) * (s.y - a.y) := by
    have := mul_self_pos.mpr hd
    nlinarith [mul_self_nonneg (s.y - a.y)]
  have : ((⟨X, a.y + (X - a.x) * (s.y - a.y) / (s.x - a.x)⟩ : V2) - a).dot (s - a)
      = (X - a.x) / (s.x - a.x) * ((s.x - a.x) * (s.x - a.x) + (s.y - a.y) * (s.y - a.y)) := by
    simp only [V2.dot, V2.sub_x, V2.sub_y]
    field_simp
    ring
  rw [this]
  exact mul_pos hk hq

theorem hline_faces (a s : V2) (Y : Rat) (hs : 0 < (Y - a.y) * (s.y - a.y)) :
    0 < ((⟨a.x + (Y - a.y) * (s.x - a.x) / (s.y - a.y), Y⟩ : V2) - a).dot (s - a) := by
  have hd : s.y - a.y ≠ 0 := by
    intro h; rw [h] at hs; simp at hs
  have hk : 0 < (Y - a.y) / (s.y - a.y) := by
    have : (Y - a.y) / (s.y - a.y) = (Y - a.y) * (s.y - a.y) / ((s.y - a.y) * (s.y - a.y)) := by
      field_simp
    rw [this]
    exact div_pos hs (mul_self_pos.mpr hd)
  have hq : 0 < (s.x - a.x) * (s.x - a.x) + (s.y - a.y) * (s.y - a.y) := by
    have := mul_self_pos.mpr hd
    nlinarith [mul_self_nonneg (s.x - a.x)]
  have : ((⟨a.x + (Y - a.y) * (s.x - a.x) / (s.y - a.y), Y⟩ : V2) - a).dot (s - a)
      = (Y - a.y) / (s.y - a.y) * ((s.x - a.x) * (s.x - a.x) + (s.y - a.y) * (s.y - a.y)) := by
    simp only [V2.dot, V2.sub_x, V2.sub_y]
    field_simp
    ring
  rw [this]
  exact mul_pos hk hq

/-- the closest-side snap of any source other than the centre lies on the ray from the centre towards the source: the side
chosen faces the source, corners included -/
theorem snapClosest_faces_source (b : Box) (s q : V2) (hw : 0 < b.size.x) (hh : 0 < b.size.y) (hc : s ≠ b.center)
    (h : snapClosest b s = .ok q) : 0 < (q - b.center).dot (s - b.center) := by
  unfold snapClosest at h
  rw [if_neg (not_not.mpr ⟨hw, hh⟩), if_neg hc] at h
  have hne : s.x ≠ b.center.x ∨ s.y ≠ b.center.y := by
    by_contra hcon
    push Not at hcon
    exact hc (V2.ext' hcon.1 hcon.2)
  have hU : closestU b (s - b.center) = (s.x - b.center.x) * b.size.y - (s.y - b.center.y) * b.size.x := by
    simp [closestU]
  have hV : closestV b (s - b.center) = (s.x - b.center.x) * b.size.y + (s.y - b.center.y) * b.size.x := by
    simp [closestV]
  have hd0 : s.x - b.center.x ≠ 0 ∨ s.y - b.center.y ≠ 0 := by
    rcases hne with h' | h'
    · left; exact sub_ne_zero.mpr h'
    · right; exact sub_ne_zero.mpr h'
  generalize hdx : s.x - b.center.x = dx at hU hV hd0
  generalize hdy : s.y - b.center.y = dy at hU hV hd0
  have hw' : b.size.x ≠ 0 := ne_of_gt hw
  have hh' : b.size.y ≠ 0 := ne_of_gt hh
  simp only [closestSide, hU, hV] at h
  split_ifs at h with h1 h2 h3
  · -- right
    have hdxp : 0 < dx := by nlinarith [h1.1, h1.2]
    have hsx : s.x ≠ b.center.x := by intro e; rw [e] at hdx; simp at hdx; linarith
    rw [show (sideLine b Side.right).1 = b.tr from rfl, show (sideLine b Side.right).2 = b.br from rfl,
      lineIntersect_vline b.center s b.tr b.br (by simp) (by simp; exact hh') hsx] at h
    cases h
    apply vline_faces
    rw [hdx]
    have : b.tr.x - b.center.x = b.size.x / 2 := by simp [Box.center_x]; ring
    rw [this]; positivity
  · -- bottom
    have hdyp : 0 < dy := by nlinarith [h2.1, h2.2]
    have hsy : s.y ≠ b.center.y := by intro e; rw [e] at hdy; simp at hdy; linarith
    rw [show (sideLine b Side.bottom).1 = b.bl from rfl, show (sideLine b Side.bottom).2 = b.br from rfl,
      lineIntersect_hline b.center s b.bl b.br (by simp) (by simp; exact hw') hsy] at h
    cases h
    apply hline_faces
    rw [hdy]
    have : b.bl.y - b.center.y = b.size.y / 2 := by simp [Box.center_y]; ring
    rw [this]; positivity
  · -- top
    have hdyn : dy < 0 := by nlinarith [h3.1, h3.2]
    have hsy : s.y ≠ b.center.y := by intro e; rw [e] at hdy; simp at hdy; linarith
    rw [show (sideLine b Side.top).1 = b.tl from rfl, show (sideLine b Side.top).2 = b.tr from rfl,
      lineIntersect_hline b.center s b.tl b.tr (by simp) (by simp; exact hw') hsy] at h
    cases h
    apply hline_faces
    rw [hdy]
    have : b.tl.y - b.center.y = -(b.size.y / 2) := by simp [Box.center_y]
    rw [this]; nlinarith
  · -- left
    have hV0 : dx * b.size.y + dy * b.size.x ≤ 0 := by
      by_contra hcon
      push Not at hcon
      by_cases hu : 0 < dx * b.size.y - dy * b.size.x
      · exact h1 ⟨hu, hcon⟩
      · exact h2 ⟨le_of_not_gt hu, hcon⟩
    have hU0 : dx * b.size.y - dy * b.size.x ≤ 0 := by
      by_contra hcon; push Not at hcon; exact h3 ⟨hcon, hV0⟩
    have hdxn : dx < 0 := by
      have hle : dx ≤ 0 := by nlinarith
      rcases eq_or_lt_of_le hle with h0 | hlt
      · exfalso
        rw [h0] at hU0 hV0
        have : dy * b.size.x = 0 := by linarith
        rcases mul_eq_zero.mp this with h' | h'
        · rcases hd0 with h'' | h''
          · exact h'' h0
          · exact h'' h'
        · exact hw' h'
      · exact hlt
    have hsx : s.x ≠ b.center.x := by intro e; rw [e] at hdx; simp at hdx; linarith
    rw [show (sideLine b Side.left).1 = b.tl from rfl, show (sideLine b Side.left).2 = b.bl from rfl,
      lineIntersect_vline b.center s b.tl b.bl (by simp) (by simp; exact hh') hsx] at h
    cases h
    apply vline_faces
    rw [hdx]
    have : b.tl.x - b.center.x = -(b.size.x / 2) := by simp [Box.center_x]
    rw [this]; nlinarith

theorem sgn1_ne_zero (r : Rat) : sgn1 r ≠ 0 := by
  unfold sgn1; split_ifs <;> norm_num

theorem b2r_cases (p : Bool) : b2r p = 0 ∨ b2r p = 1 := by
  cases p <;> simp [b2r]

/-- `__vector_snap_manhattan`: for a proper box, no error and a point of the outline -/
theorem snapManhattan_spec (b : Box) (p d : V2) (hw : 0 < b.size.x) (hh : 0 < b.size.y) :
    ∃ q, snapManhattan b p d = .ok q ∧ onOutline b q := by
  unfold snapManhattan closestaxis
  by_cases hax : rabs d.y ≤ rabs d.x
  · simp only [if_pos hax, ne_eq, sgn1_ne_zero, not_false_eq_true, if_true]
    rcases b2r_cases (decide (sgn1 d.x < 0)) with hb | hb
    all_goals
      split_ifs with h1 h2 h3
      all_goals
        refine ⟨_, rfl, ?_⟩
        simp only [onOutline, inBox, V2.had, V2.add_x, V2.add_y, hb]
        try simp only [not_lt] at *
        refine ⟨⟨by linarith, by linarith, by linarith, by linarith⟩, ?_⟩
        first
          | exact Or.inl (by linarith)
          | exact Or.inr (Or.inl (by linarith))
          | exact Or.inr (Or.inr (Or.inl (by linarith)))
          | exact Or.inr (Or.inr (Or.inr (by linarith)))
  · simp only [if_neg hax, ne_eq, not_true_eq_false, if_false, sgn1_ne_zero, not_false_eq_true, if_true]
    rcases b2r_cases (decide (sgn1 d.y < 0)) with hb | hb
    all_goals
      split_ifs with h1 h2 h3
      all_goals
        refine ⟨_, rfl, ?_⟩
        simp only [onOutline, inBox, V2.had, V2.add_x, V2.add_y, hb]
        try simp only [not_lt] at *
        refine ⟨⟨by linarith, by linarith, by linarith, by linarith⟩, ?_⟩
        first
          | exact Or.inl (by linarith)
          | exact Or.inr (Or.inl (by linarith))
          | exact Or.inr (Or.inr (Or.inl (by linarith)))
          | exact Or.inr (Or.inr (Or.inr (by linarith)))

/-- a horizontal border against the edge `s → p`: the hit in terms of the end point `p` -/
theorem hitH_eq (b1 b2 s p : V2) (hy : b1.y = b2.y) (hx : b1.x ≠ b2.x) (hd : p.y ≠ s.y) :
    hitH b1 b2 s p =
      if b1.x ≤ p.x - (p.y - b1.y) * (p.x - s.x) / (p.y - s.y) ∧
         p.x - (p.y - b1.y) * (p.x - s.x) / (p.y - s.y) ≤ b2.x
      then [⟨p.x - (p.y - b1.y) * (p.x - s.x) / (p.y - s.y), b1.y⟩] else [] := by
  have h0 : p.y - s.y ≠ 0 := sub_ne_zero.mpr hd
  have hX : s.x + (b1.y - s.y) * (p.x - s.x) / (p.y - s.y) = p.x - (p.y - b1.y) * (p.x - s.x) / (p.y - s.y) := by
    field_simp; ring
  unfold hitH
  rw [lineIntersect_swap, lineIntersect_hline s p b1 b2 hy hx hd]
  simp only [hX]

theorem hitV_eq (b1 b2 s p : V2) (hx : b1.x = b2.x) (hy : b1.y ≠ b2.y) (hd : p.x ≠ s.x) :
    hitV b1 b2 s p =
      if b1.y ≤ p.y - (p.x - b1.x) * (p.y - s.y) / (p.x - s.x) ∧
         p.y - (p.x - b1.x) * (p.y - s.y) / (p.x - s.x) ≤ b2.y
      then [⟨b1.x, p.y - (p.x - b1.x) * (p.y - s.y) / (p.x - s.x)⟩] else [] := by
  have h0 : p.x - s.x ≠ 0 := sub_ne_zero.mpr hd
  have hY : s.y + (b1.x - s.x) * (p.y - s.y) / (p.x - s.x) = p.y - (p.x - b1.x) * (p.y - s.y) / (p.x - s.x) := by
    field_simp; ring
  unfold hitV
  rw [lineIntersect_swap, lineIntersect_vline s p b1 b2 hx hy hd]
  simp only [hY]

/-- a quotient `a * e / d` with `0 ≤ a`, compared with a bound, for both signs of `d`, `e` -/
theorem quot_nonneg {a e d : Rat} (ha : 0 ≤ a) (h : 0 ≤ e * d) (hd : d ≠ 0) : 0 ≤ a * e / d := by
  rcases lt_or_gt_of_ne hd with hneg | hpos
  · have he : e ≤ 0 := by
      by_contra hc; push Not at hc; nlinarith [mul_neg_of_pos_of_neg hc hneg]
    exact div_nonneg_of_nonpos (mul_nonpos_of_nonneg_of_nonpos ha he) (le_of_lt hneg)
  · have he : 0 ≤ e := by
      by_contra hc; push Not at hc; nlinarith [mul_neg_of_neg_of_pos hc hpos]
    exact div_nonneg (mul_nonneg ha he) (le_of_lt hpos)

theorem quot_nonpos {a e d : Rat} (ha : 0 ≤ a) (h : e * d ≤ 0) (hd : d ≠ 0) : a * e / d ≤ 0 := by
  have := quot_nonneg (e := -e) ha (by nlinarith) hd
  have h2 : a * -e / d = -(a * e / d) := by ring
  rw [h2] at this; linarith

theorem pickHit_single (q : V2) : pickHit [q] = .ok q := by simp [pickHit]
theorem pickHit_pair (q r : V2) (h : r = q) : pickHit [q, r] = .ok q := by simp [pickHit, h]

theorem onOutline_of_top (b : Box) (q : V2) (hh : 0 ≤ b.size.y) (hy : q.y = b.pos.y)
    (h1 : b.pos.x ≤ q.x) (h2 : q.x ≤ b.pos.x + b.size.x) : onOutline b q :=
  ⟨⟨h1, h2, by linarith, by linarith⟩, Or.inr (Or.inr (Or.inl hy))⟩
theorem onOutline_of_bottom (b : Box) (q : V2) (hh : 0 ≤ b.size.y) (hy : q.y = b.pos.y + b.size.y)
    (h1 : b.pos.x ≤ q.x) (h2 : q.x ≤ b.pos.x + b.size.x) : onOutline b q :=
  ⟨⟨h1, h2, by linarith, by linarith⟩, Or.inr (Or.inr (Or.inr hy))⟩
theorem onOutline_of_left (b : Box) (q : V2) (hw : 0 ≤ b.size.x) (hx : q.x = b.pos.x)
    (h1 : b.pos.y ≤ q.y) (h2 : q.y ≤ b.pos.y + b.size.y) : onOutline b q :=
  ⟨⟨by linarith, by linarith, h1, h2⟩, Or.inl hx⟩
theorem onOutline_of_right (b : Box) (q : V2) (hw : 0 ≤ b.size.x) (hx : q.x = b.pos.x + b.size.x)
    (h1 : b.pos.y ≤ q.y) (h2 : q.y ≤ b.pos.y + b.size.y) : onOutline b q :=
  ⟨⟨by linarith, by linarith, h1, h2⟩, Or.inr (Or.inl hx)⟩

/-- two candidate borders, direction (+, +): top and left -/
theorem oblique_pp (b : Box) (s p : V2) (hw : 0 < b.size.x) (hh : 0 < b.size.y) (hp : inBox b p)
    (hdx : 0 < p.x - s.x) (hdy : 0 < p.y - s.y) :
    ∃ q, pickHit (obliqueHits b s p) = .ok q ∧ onOutline b q := by
  obtain ⟨hp1, hp2, hp3, hp4⟩ := hp
  have hx0 : p.x - s.x ≠ 0 := by intro h; rw [h] at hdx; exact lt_irrefl _ hdx
  have hy0 : p.y - s.y ≠ 0 := by intro h; rw [h] at hdy; exact lt_irrefl _ hdy
  have hlist : obliqueHits b s p = hitH b.tl b.tr s p ++ hitV b.tl b.bl s p := by
    simp [obliqueHits, hdx, hdy, not_lt.mpr (le_of_lt hdx), not_lt.mpr (le_of_lt hdy)]
  rw [hlist, hitH_eq b.tl b.tr s p (by simp) (by simp; exact ne_of_gt hw) (by intro h; rw [h] at hdy; simp at hdy),
    hitV_eq b.tl b.bl s p (by simp) (by simp; exact ne_of_gt hh) (by intro h; rw [h] at hdx; simp at hdx)]
  simp only [Box.tl_x, Box.tl_y, Box.tr_x, Box.bl_y]
  generalize hrT : (p.y - b.pos.y) * (p.x - s.x) / (p.y - s.y) = rT
  generalize hrL : (p.x - b.pos.x) * (p.y - s.y) / (p.x - s.x) = rL
  have hrT0 : 0 ≤ rT := by rw [← hrT]; exact div_nonneg (mul_nonneg (by linarith) (le_of_lt hdx)) (le_of_lt hdy)
  have hrL0 : 0 ≤ rL := by rw [← hrL]; exact div_nonneg (mul_nonneg (by linarith) (le_of_lt hdy)) (le_of_lt hdx)
  have hT : rT ≤ p.x - b.pos.x ↔ (p.y - b.pos.y) * (p.x - s.x) ≤ (p.x - b.pos.x) * (p.y - s.y) := by
    rw [← hrT, div_le_iff₀ hdy]
  have hL : rL ≤ p.y - b.pos.y ↔ (p.x - b.pos.x) * (p.y - s.y) ≤ (p.y - b.pos.y) * (p.x - s.x) := by
    rw [← hrL, div_le_iff₀ hdx]
  rcases lt_trichotomy ((p.y - b.pos.y) * (p.x - s.x)) ((p.x - b.pos.x) * (p.y - s.y)) with hlt | heq | hgt
  · have cT : b.pos.x ≤ p.x - rT ∧ p.x - rT ≤ b.pos.x + b.size.x := ⟨by linarith [hT.mpr (le_of_lt hlt)], by linarith⟩
    have cL : ¬ (b.pos.y ≤ p.y - rL ∧ p.y - rL ≤ b.pos.y + b.size.y) := by
      rintro ⟨h1, _⟩
      have := hL.mp (by linarith)
      linarith
    rw [if_pos cT, if_neg cL]
    exact ⟨_, pickHit_single _, onOutline_of_top b _ (le_of_lt hh) rfl cT.1 cT.2⟩
  · have cT : b.pos.x ≤ p.x - rT ∧ p.x - rT ≤ b.pos.x + b.size.x := ⟨by linarith [hT.mpr (le_of_eq heq)], by linarith⟩
    have cL : b.pos.y ≤ p.y - rL ∧ p.y - rL ≤ b.pos.y + b.size.y := ⟨by linarith [hL.mpr (le_of_eq heq.symm)], by linarith⟩
    have eT : rT = p.x - b.pos.x := by
      rw [← hrT, heq]; exact mul_div_cancel_right₀ _ hy0
    have eL : rL = p.y - b.pos.y := by
      rw [← hrL, ← heq]; exact mul_div_cancel_right₀ _ hx0
    rw [if_pos cT, if_pos cL]
    refine ⟨_, pickHit_pair _ _ (V2.ext' (by simp [eT]) (by simp [eL])), onOutline_of_top b _ (le_of_lt hh) rfl cT.1 cT.2⟩
  · have cT : ¬ (b.pos.x ≤ p.x - rT ∧ p.x - rT ≤ b.pos.x + b.size.x) := by
      rintro ⟨h1, _⟩
      have := hT.mp (by linarith)
      linarith
    have cL : b.pos.y ≤ p.y - rL ∧ p.y - rL ≤ b.pos.y + b.size.y := ⟨by linarith [hL.mpr (le_of_lt hgt)], by linarith⟩
    rw [if_neg cT, if_pos cL]
    exact ⟨_, pickHit_single _, onOutline_of_left b _ (le_of_lt hw) rfl cL.1 cL.2⟩

/-- direction (-, +): top and right -/
theorem oblique_np (b : Box) (s p : V2) (hw : 0 < b.size.x) (hh : 0 < b.size.y) (hp : inBox b p)
    (hdx : p.x - s.x < 0) (hdy : 0 < p.y - s.y) :
    ∃ q, pickHit (obliqueHits b s p) = .ok q ∧ onOutline b q := by
  obtain ⟨hp1, hp2, hp3, hp4⟩ := hp
  have hx0 : p.x - s.x ≠ 0 := by intro h; rw [h] at hdx; exact lt_irrefl _ hdx
  have hy0 : p.y - s.y ≠ 0 := by intro h; rw [h] at hdy; exact lt_irrefl _ hdy
  have hlist : obliqueHits b s p = hitH b.tl b.tr s p ++ hitV b.tr b.br s p := by
    simp [obliqueHits, hdx, hdy, not_lt.mpr (le_of_lt hdx), not_lt.mpr (le_of_lt hdy)]
  rw [hlist, hitH_eq b.tl b.tr s p (by simp) (by simp; exact ne_of_gt hw) (by intro h; rw [h] at hdy; simp at hdy),
    hitV_eq b.tr b.br s p (by simp) (by simp; exact ne_of_gt hh) (by intro h; rw [h] at hdx; simp at hdx)]
  simp only [Box.tl_x, Box.tl_y, Box.tr_x, Box.tr_y, Box.br_y]
  generalize hrT : (p.y - b.pos.y) * (p.x - s.x) / (p.y - s.y) = rT
  generalize hrR : (p.x - (b.pos.x + b.size.x)) * (p.y - s.y) / (p.x - s.x) = rR
  have hrT0 : rT ≤ 0 := by
    rw [← hrT]; exact div_nonpos_of_nonpos_of_nonneg (mul_nonpos_of_nonneg_of_nonpos (by linarith) (le_of_lt hdx)) (le_of_lt hdy)
  have hrR0 : 0 ≤ rR := by
    rw [← hrR]; exact div_nonneg_of_nonpos (mul_nonpos_of_nonpos_of_nonneg (by linarith) (le_of_lt hdy)) (le_of_lt hdx)
  have hT : p.x - (b.pos.x + b.size.x) ≤ rT ↔ (p.x - (b.pos.x + b.size.x)) * (p.y - s.y) ≤ (p.y - b.pos.y) * (p.x - s.x) := by
    rw [← hrT, le_div_iff₀ hdy]
  have hR : rR ≤ p.y - b.pos.y ↔ (p.y - b.pos.y) * (p.x - s.x) ≤ (p.x - (b.pos.x + b.size.x)) * (p.y - s.y) := by
    rw [← hrR, div_le_iff_of_neg hdx]
  rcases lt_trichotomy ((p.x - (b.pos.x + b.size.x)) * (p.y - s.y)) ((p.y - b.pos.y) * (p.x - s.x)) with hlt | heq | hgt
  · have cT : b.pos.x ≤ p.x - rT ∧ p.x - rT ≤ b.pos.x + b.size.x := ⟨by linarith, by linarith [hT.mpr (le_of_lt hlt)]⟩
    have cR : ¬ (b.pos.y ≤ p.y - rR ∧ p.y - rR ≤ b.pos.y + b.size.y) := by
      rintro ⟨h1, _⟩
      have := hR.mp (by linarith)
      linarith
    rw [if_pos cT, if_neg cR]
    exact ⟨_, pickHit_single _, onOutline_of_top b _ (le_of_lt hh) rfl cT.1 cT.2⟩
  · have cT : b.pos.x ≤ p.x - rT ∧ p.x - rT ≤ b.pos.x + b.size.x := ⟨by linarith, by linarith [hT.mpr (le_of_eq heq)]⟩
    have cR : b.pos.y ≤ p.y - rR ∧ p.y - rR ≤ b.pos.y + b.size.y := ⟨by linarith [hR.mpr (le_of_eq heq.symm)], by linarith⟩
    have eT : rT = p.x - (b.pos.x + b.size.x) := by
      rw [← hrT, ← heq]; exact mul_div_cancel_right₀ _ hy0
    have eR : rR = p.y - b.pos.y := by
      rw [← hrR, heq]; exact mul_div_cancel_right₀ _ hx0
    rw [if_pos cT, if_pos cR]
    refine ⟨_, pickHit_pair _ _ (V2.ext' (by simp [eT]) (by simp [eR])), onOutline_of_top b _ (le_of_lt hh) rfl cT.1 cT.2⟩
  · have cT : ¬ (b.pos.x ≤ p.x - rT ∧ p.x - rT ≤ b.pos.x + b.size.x) := by
      rintro ⟨_, h2⟩
      have := hT.mp (by linarith)
      linarith
    have cR : b.pos.y ≤ p.y - rR ∧ p.y - rR ≤ b.pos.y + b.size.y := ⟨by linarith [hR.mpr (le_of_lt hgt)], by linarith⟩
    rw [if_neg cT, if_pos cR]
    exact ⟨_, pickHit_single _, onOutline_of_right b _ (le_of_lt hw) rfl cR.1 cR.2⟩

/-- direction (+, -): left and bottom -/
theorem oblique_pn (b : Box) (s p : V2) (hw : 0 < b.size.x) (hh : 0 < b.size.y) (hp : inBox b p)
    (hdx : 0 < p.x - s.x) (hdy : p.y - s.y < 0) :
    ∃ q, pickHit (obliqueHits b s p) = .ok q ∧ onOutline b q := by
  obtain ⟨hp1, hp2, hp3, hp4⟩ := hp
  have hx0 : p.x - s.x ≠ 0 := by intro h; rw [h] at hdx; exact lt_irrefl _ hdx
  have hy0 : p.y - s.y ≠ 0 := by intro h; rw [h] at hdy; exact lt_irrefl _ hdy
  have hlist : obliqueHits b s p = hitV b.tl b.bl s p ++ hitH b.bl b.br s p := by
    simp [obliqueHits, hdx, hdy, not_lt.mpr (le_of_lt hdx), not_lt.mpr (le_of_lt hdy)]
  rw [hlist, hitH_eq b.bl b.br s p (by simp) (by simp; exact ne_of_gt hw) (by intro h; rw [h] at hdy; simp at hdy),
    hitV_eq b.tl b.bl s p (by simp) (by simp; exact ne_of_gt hh) (by intro h; rw [h] at hdx; simp at hdx)]
  simp only [Box.tl_x, Box.tl_y, Box.bl_x, Box.bl_y, Box.br_x]
  generalize hrB : (p.y - (b.pos.y + b.size.y)) * (p.x - s.x) / (p.y - s.y) = rB
  generalize hrL : (p.x - b.pos.x) * (p.y - s.y) / (p.x - s.x) = rL
  have hrB0 : 0 ≤ rB := by
    rw [← hrB]; exact div_nonneg_of_nonpos (mul_nonpos_of_nonpos_of_nonneg (by linarith) (le_of_lt hdx)) (le_of_lt hdy)
  have hrL0 : rL ≤ 0 := by
    rw [← hrL]; exact div_nonpos_of_nonpos_of_nonneg (mul_nonpos_of_nonneg_of_nonpos (by linarith) (le_of_lt hdy)) (le_of_lt hdx)
  have hB : rB ≤ p.x - b.pos.x ↔ (p.x - b.pos.x) * (p.y - s.y) ≤ (p.y - (b.pos.y + b.size.y)) * (p.x - s.x) := by
    rw [← hrB, div_le_iff_of_neg hdy]
  have hL : p.y - (b.pos.y + b.size.y) ≤ rL ↔ (p.y - (b.pos.y + b.size.y)) * (p.x - s.x) ≤ (p.x - b.pos.x) * (p.y - s.y) := by
    rw [← hrL, le_div_iff₀ hdx]
  rcases lt_trichotomy ((p.x - b.pos.x) * (p.y - s.y)) ((p.y - (b.pos.y + b.size.y)) * (p.x - s.x)) with hlt | heq | hgt
  · have cB : b.pos.x ≤ p.x - rB ∧ p.x - rB ≤ b.pos.x + b.size.x := ⟨by linarith [hB.mpr (le_of_lt hlt)], by linarith⟩
    have cL : ¬ (b.pos.y ≤ p.y - rL ∧ p.y - rL ≤ b.pos.y + b.size.y) := by
      rintro ⟨_, h2⟩
      have := hL.mp (by linarith)
      linarith
    rw [if_neg cL, if_pos cB]
    exact ⟨_, pickHit_single _, onOutline_of_bottom b _ (le_of_lt hh) rfl cB.1 cB.2⟩
  · have cB : b.pos.x ≤ p.x - rB ∧ p.x - rB ≤ b.pos.x + b.size.x := ⟨by linarith [hB.mpr (le_of_eq heq)], by linarith⟩
    have cL : b.pos.y ≤ p.y - rL ∧ p.y - rL ≤ b.pos.y + b.size.y := ⟨by linarith, by linarith [hL.mpr (le_of_eq heq.symm)]⟩
    have eB : rB = p.x - b.pos.x := by
      rw [← hrB, ← heq]; exact mul_div_cancel_right₀ _ hy0
    have eL : rL = p.y - (b.pos.y + b.size.y) := by
      rw [← hrL, heq]; exact mul_div_cancel_right₀ _ hx0
    rw [if_pos cL, if_pos cB]
    refine ⟨_, pickHit_pair _ _ (V2.ext' (by simp [eB]) (by simp [eL])), onOutline_of_left b _ (le_of_lt hw) rfl cL.1 cL.2⟩
  · have cB : ¬ (b.pos.x ≤ p.x - rB ∧ p.x - rB ≤ b.pos.x + b.size.x) := by
      rintro ⟨h1, _⟩
      have := hB.mp (by linarith)
      linarith
    have cL : b.pos.y ≤ p.y - rL ∧ p.y - rL ≤ b.pos.y + b.size.y := ⟨by linarith, by linarith [hL.mpr (le_of_lt hgt)]⟩
    rw [if_pos cL, if_neg cB]
    exact ⟨_, pickHit_single _, onOutline_of_left b _ (le_of_lt hw) rfl cL.1 cL.2⟩

/-- direction (-, -): right and bottom -/
theorem oblique_nn (b : Box) (s p : V2) (hw : 0 < b.size.x) (hh : 0 < b.size.y) (hp : inBox b p)
    (hdx : p.x - s.x < 0) (hdy : p.y - s.y < 0) :
    ∃ q, pickHit (obliqueHits b s p) = .ok q ∧ onOutline b q := by
  obtain ⟨hp1, hp2, hp3, hp4⟩ := hp
  have hx0 : p.x - s.x ≠ 0 := by intro h; rw [h] at hdx; exact lt_irrefl _ hdx
  have hy0 : p.y - s.y ≠ 0 := by intro h; rw [h] at hdy; exact lt_irrefl _ hdy
  have hlist : obliqueHits b s p = hitV b.tr b.br s p ++ hitH b.bl b.br s p := by
    simp [obliqueHits, hdx, hdy, not_lt.mpr (le_of_lt hdx), not_lt.mpr (le_of_lt hdy)]
  rw [hlist, hitH_eq b.bl b.br s p (by simp) (by simp; exact ne_of_gt hw) (by intro h; rw [h] at hdy; simp at hdy),
    hitV_eq b.tr b.br s p (by simp) (by simp; exact ne_of_gt hh) (by intro h; rw [h] at hdx; simp at hdx)]
  simp only [Box.tr_x, Box.tr_y, Box.bl_x, Box.bl_y, Box.br_x, Box.br_y]
  generalize hrB : (p.y - (b.pos.y + b.size.y)) * (p.x - s.x) / (p.y - s.y) = rB
  generalize hrR : (p.x - (b.pos.x + b.size.x)) * (p.y - s.y) / (p.x - s.x) = rR
  have hrB0 : rB ≤ 0 := by
    rw [← hrB]; exact div_nonpos_of_nonneg_of_nonpos (mul_nonneg_of_nonpos_of_nonpos (by linarith) (le_of_lt hdx)) (le_of_lt hdy)
  have hrR0 : rR ≤ 0 := by
    rw [← hrR]; exact div_nonpos_of_nonneg_of_nonpos (mul_nonneg_of_nonpos_of_nonpos (by linarith) (le_of_lt hdy)) (le_of_lt hdx)
  have hB : p.x - (b.pos.x + b.size.x) ≤ rB ↔ (p.y - (b.pos.y + b.size.y)) * (p.x - s.x) ≤ (p.x - (b.pos.x + b.size.x)) * (p.y - s.y) := by
    rw [← hrB, le_div_iff_of_neg hdy]
  have hR : p.y - (b.pos.y + b.size.y) ≤ rR ↔ (p.x - (b.pos.x + b.size.x)) * (p.y - s.y) ≤ (p.y - (b.pos.y + b.size.y)) * (p.x - s.x) := by
    rw [← hrR, le_div_iff_of_neg hdx]
  rcases lt_trichotomy ((p.x - (b.pos.x + b.size.x)) * (p.y - s.y)) ((p.y - (b.pos.y + b.size.y)) * (p.x - s.x)) with hlt | heq | hgt
  · have cR : b.pos.y ≤ p.y - rR ∧ p.y - rR ≤ b.pos.y + b.size.y := ⟨by linarith, by linarith [hR.mpr (le_of_lt hlt)]⟩
    have cB : ¬ (b.pos.x ≤ p.x - rB ∧ p.x - rB ≤ b.pos.x + b.size.x) := by
      rintro ⟨_, h2⟩
      have := hB.mp (by linarith)
      linarith
    rw [if_pos cR, if_neg cB]
    exact ⟨_, pickHit_single _, onOutline_of_right b _ (le_of_lt hw) rfl cR.1 cR.2⟩
  · have cR : b.pos.y ≤ p.y - rR ∧ p.y - rR ≤ b.pos.y + b.size.y := ⟨by linarith, by linarith [hR.mpr (le_of_eq heq)]⟩
    have cB : b.pos.x ≤ p.x - rB ∧ p.x - rB ≤ b.pos.x + b.size.x := ⟨by linarith, by linarith [hB.mpr (le_of_eq heq.symm)]⟩
    have eB : rB = p.x - (b.pos.x + b.size.x) := by
      rw [← hrB, ← heq]; exact mul_div_cancel_right₀ _ hy0
    have eR : rR = p.y - (b.pos.y + b.size.y) := by
      rw [← hrR, heq]; exact mul_div_cancel_right₀ _ hx0
    rw [if_pos cR, if_pos cB]
    refine ⟨_, pickHit_pair _ _ (V2.ext' (by simp [eB]) (by simp [eR])), onOutline_of_right b _ (le_of_lt hw) rfl cR.1 cR.2⟩
  · have cR : ¬ (b.pos.y ≤ p.y - rR ∧ p.y - rR ≤ b.pos.y + b.size.y) := by
      rintro ⟨_, h2⟩
      have := hR.mp (by linarith)
      linarith
    have cB : b.pos.x ≤ p.x - rB ∧ p.x - rB ≤ b.pos.x + b.size.x := ⟨by linarith, by linarith [hB.mpr (le_of_lt hgt)]⟩
    rw [if_neg cR, if_pos cB]
    exact ⟨_, pickHit_single _, onOutline_of_bottom b _ (le_of_lt hh) rfl cB.1 cB.2⟩

/-- one candidate border: horizontal edge, direction (±, 0) -/
theorem oblique_x0 (b : Box) (s p : V2) (hw : 0 < b.size.x) (hh : 0 < b.size.y) (hp : inBox b p)
    (hdx : p.x - s.x ≠ 0) (hdy : p.y - s.y = 0) :
    ∃ q, pickHit (obliqueHits b s p) = .ok q ∧ onOutline b q := by
  obtain ⟨hp1, hp2, hp3, hp4⟩ := hp
  have hpx : p.x ≠ s.x := fun h => hdx (by rw [h]; simp)
  rcases lt_or_gt_of_ne hdx with hneg | hpos
  · have hlist : obliqueHits b s p = hitV b.tr b.br s p := by
      simp [obliqueHits, hneg, hdy, not_lt.mpr (le_of_lt hneg)]
    rw [hlist, hitV_eq b.tr b.br s p (by simp) (by simp; exact ne_of_gt hh) hpx]
    simp only [Box.tr_x, Box.tr_y, Box.br_y, hdy, mul_zero, zero_div, sub_zero]
    rw [if_pos ⟨hp3, hp4⟩]
    exact ⟨_, pickHit_single _, onOutline_of_right b _ (le_of_lt hw) rfl hp3 hp4⟩
  · have hlist : obliqueHits b s p = hitV b.tl b.bl s p := by
      simp [obliqueHits, hpos, hdy, not_lt.mpr (le_of_lt hpos)]
    rw [hlist, hitV_eq b.tl b.bl s p (by simp) (by simp; exact ne_of_gt hh) hpx]
    simp only [Box.tl_x, Box.tl_y, Box.bl_y, hdy, mul_zero, zero_div, sub_zero]
    rw [if_pos ⟨hp3, hp4⟩]
    exact ⟨_, pickHit_single _, onOutline_of_left b _ (le_of_lt hw) rfl hp3 hp4⟩

/-- one candidate border: vertical edge, direction (0, ±) -/
theorem oblique_0y (b : Box) (s p : V2) (hw : 0 < b.size.x) (hh : 0 < b.size.y) (hp : inBox b p)
    (hdx : p.x - s.x = 0) (hdy : p.y - s.y ≠ 0) :
    ∃ q, pickHit (obliqueHits b s p) = .ok q ∧ onOutline b q := by
  obtain ⟨hp1, hp2, hp3, hp4⟩ := hp
  have hpy : p.y ≠ s.y := fun h => hdy (by rw [h]; simp)
  rcases lt_or_gt_of_ne hdy with hneg | hpos
  · have hlist : obliqueHits b s p = hitH b.bl b.br s p := by
      simp [obliqueHits, hneg, hdx, not_lt.mpr (le_of_lt hneg)]
    rw [hlist, hitH_eq b.bl b.br s p (by simp) (by simp; exact ne_of_gt hw) hpy]
    simp only [Box.bl_x, Box.bl_y, Box.br_x, hdx, mul_zero, zero_div, sub_zero]
    rw [if_pos ⟨hp1, hp2⟩]
    exact ⟨_, pickHit_single _, onOutline_of_bottom b _ (le_of_lt hh) rfl hp1 hp2⟩
  · have hlist : obliqueHits b s p = hitH b.tl b.tr s p := by
      simp [obliqueHits, hpos, hdx, not_lt.mpr (le_of_lt hpos)]
    rw [hlist, hitH_eq b.tl b.tr s p (by simp) (by simp; exact ne_of_gt hw) hpy]
    simp only [Box.tl_x, Box.tl_y, Box.tr_x, hdx, mul_zero, zero_div, sub_zero]
    rw [if_pos ⟨hp1, hp2⟩]
    exact ⟨_, pickHit_single _, onOutline_of_top b _ (le_of_lt hh) rfl hp1 hp2⟩

/-- the intersection stage of `__vector_snap_oblique`: a point of the closed box and a different
source always give exactly one intersection point (possibly found twice, in a corner) -/
theorem obliqueHits_spec (b : Box) (s p : V2) (hw : 0 < b.size.x) (hh : 0 < b.size.y) (hp : inBox b p)
    (hne : p ≠ s) : ∃ q, pickHit (obliqueHits b s p) = .ok q ∧ onOutline b q := by
  rcases lt_trichotomy (p.x - s.x) 0 with hx | hx | hx <;>
  rcases lt_trichotomy (p.y - s.y) 0 with hy | hy | hy
  · exact oblique_nn b s p hw hh hp hx hy
  · exact oblique_x0 b s p hw hh hp (ne_of_lt hx) hy
  · exact oblique_np b s p hw hh hp hx hy
  · exact oblique_0y b s p hw hh hp hx (ne_of_lt hy)
  · exact absurd (V2.ext' (by linarith) (by linarith)) hne
  · exact oblique_0y b s p hw hh hp hx (ne_of_gt hy)
  · exact oblique_pn b s p hw hh hp hx hy
  · exact oblique_x0 b s p hw hh hp (ne_of_gt hx) hy
  · exact oblique_pp b s p hw hh hp hx hy

theorem center_inBox (b : Box) (hw : 0 < b.size.x) (hh : 0 < b.size.y) : inBox b b.center := by
  simp only [inBox, Box.center, V2.sdiv, V2.add_x, V2.add_y]
  refine ⟨?_, ?_, ?_, ?_⟩ <;> linarith



/-- `__vector_snap_oblique`: for a proper box, no error and a point of the outline -/
theorem snapOblique_spec (b : Box) (point source : V2) (hw : 0 < b.size.x) (hh : 0 < b.size.y) :
    ∃ q, snapOblique b point source = .ok q ∧ onOutline b q := by
  unfold snapOblique
  simp only
  by_cases hin : inBox b point
  · rw [if_pos hin]
    by_cases hps : point = source
    · rw [if_pos hps]; exact snapClosest_spec b point hw hh
    · rw [if_neg hps]; exact obliqueHits_spec b source point hw hh hin hps
  · rw [if_neg hin]
    by_cases hcs : b.center = source
    · rw [if_pos hcs]; exact snapClosest_spec b point hw hh
    · rw [if_neg hcs]; exact obliqueHits_spec b source b.center hw hh (center_inBox b hw hh) hcs

/-! ### tree -/

/-- `__vector_snap_tree` with a direction: the result is on the top or the bottom *line*;
it keeps `point.x` unless the box is a port -/
theorem snapTree_line (b : Box) (point d : V2) (hd : d ≠ ⟨0, 0⟩) :
    (snapTree b point d).y = b.pos.y ∨ (snapTree b point d).y = b.pos.y + b.size.y := by
  unfold snapTree
  rw [if_neg hd]
  split_ifs <;> simp [V2.had]

theorem snapTree_x (b : Box) (point d : V2) (hd : d ≠ ⟨0, 0⟩) :
    (snapTree b point d).x = if b.port then b.pos.x + b.size.x / 2 else point.x := by
  unfold snapTree
  rw [if_neg hd]
  split_ifs <;> simp [V2.had] <;> ring

/-- on the top or bottom *side* when the box is a port or `point.x` lies within the box -/
theorem snapTree_side (b : Box) (point d : V2) (hw : 0 ≤ b.size.x) (hd : d ≠ ⟨0, 0⟩)
    (hx : b.port = true ∨ (b.pos.x ≤ point.x ∧ point.x ≤ b.pos.x + b.size.x)) :
    onTopOrBottom b (snapTree b point d) := by
  refine ⟨?_, ?_, snapTree_line b point d hd⟩
  · rw [snapTree_x b point d hd]
    split_ifs with hp
    · linarith
    · rcases hx with h | h
      · exact absurd h hp
      · exact h.1
  · rw [snapTree_x b point d hd]
    split_ifs with hp
    · linarith
    · rcases hx with h | h
      · exact absurd h hp
      · exact h.2

theorem onOutline_of_onTopOrBottom (b : Box) (q : V2) (hh : 0 ≤ b.size.y) (h : onTopOrBottom b q) :
    onOutline b q := by
  obtain ⟨h1, h2, h3⟩ := h
  rcases h3 with h3 | h3
  · exact onOutline_of_top b q hh h3 h1 h2
  · exact onOutline_of_bottom b q hh h3 h1 h2

/-! ### `Box.vector_snap` -/

theorem sub_eq_zero_iff (p s : V2) : p - s = ⟨0, 0⟩ ↔ p = s := by
  constructor
  · intro h
    have hx : (p - s).x = 0 := by rw [h]
    have hy : (p - s).y = 0 := by rw [h]
    simp only [V2.sub_x, V2.sub_y] at hx hy
    exact V2.ext' (by linarith) (by linarith)
  · rintro rfl
    exact V2.ext' (by simp) (by simp)

/-- oblique and Manhattan snapping: total, on the outline -/
theorem vectorSnap_spec (b : Box) (p s : V2) (st : Style) (hw : 0 < b.size.x) (hh : 0 < b.size.y)
    (hst : st ≠ .tree) : ∃ q, vectorSnap b p s st = .ok q ∧ onOutline b q := by
  rw [vectorSnap_eq]
  cases st with
  | oblique =>
    simp only
    split_ifs
    · exact snapClosest_spec b p hw hh
    · exact snapOblique_spec b p s hw hh
  | manhattan => exact snapManhattan_spec b p (p - s) hw hh
  | tree => exact absurd rfl hst

end Capella.Geom
