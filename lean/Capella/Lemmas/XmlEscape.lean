import Capella.Model.XmlParse
/-! Lemmas about `_escape` and its inverse (property C01/C02). -/
namespace Capella.Xml

/-- body of the reference `_escape_char` writes for `c` -/
def refBody (c : Char) : Str :=
  if 32 ≤ c.toNat ∧ c.toNat ≤ 126 then (entityName c).getD ['?'] else '#' :: 'x' :: hexUpper c.toNat

theorem escapeChar_eq (c : Char) : escapeChar c = '&' :: (refBody c ++ [';']) := by
  unfold escapeChar refBody
  split <;> simp

/-- characters that may appear inside a reference body / are harmless inside a quoted value -/
def plainChar (c : Char) : Bool :=
  c != ';' && c != '"' && c != '<' && c != '&' && !isCtl c && c != '>' && c != ']'

/-- the finite part: every code point of the two escape classes (and `>`) is written as a reference
that decodes to itself and consists of plain characters only -/
theorem esc_table : ∀ n, n < 128 → (isEscTextN n || n == 62) = true →
    decodeEntity false (refBody (Char.ofNat n)) = some (Char.ofNat n) ∧
    (xmlCharN n = true → decodeEntity true (refBody (Char.ofNat n)) = some (Char.ofNat n)) ∧
    (refBody (Char.ofNat n)).all plainChar = true := by
  decide +kernel

theorem isEscTextN_lt {n : Nat} (h : isEscTextN n = true) : n < 128 := by
  simp [isEscTextN, isCtlN] at h; omega

theorem isEscCommentsN_lt {n : Nat} (h : isEscCommentsN n = true) : n < 128 := by
  simp [isEscCommentsN, isCtlN] at h; omega

theorem esc_char (c : Char) (h : isEscText c = true ∨ c = '>') :
    decodeEntity false (refBody c) = some c ∧
    (xmlChar c = true → decodeEntity true (refBody c) = some c) ∧
    (refBody c).all plainChar = true := by
  have hn : c.toNat < 128 ∧ (isEscTextN c.toNat || c.toNat == 62) = true := by
    rcases h with h | h
    · exact ⟨isEscTextN_lt h, by simp [isEscText] at h; simp [h]⟩
    · subst h; decide
  have := esc_table c.toNat hn.1 hn.2
  simpa [Char.ofNat_toNat, xmlChar] using this

/-- reading a reference body that contains no `;` -/
theorem unescGo_body (strict : Bool) (body rest acc : Str) (h : body.all (· != ';') = true) :
    unescGo strict (body ++ ';' :: rest) (some acc) =
      (decodeEntity strict (acc.reverse ++ body)).bind fun ch =>
        (unescGo strict rest none).map (ch :: ·) := by
  induction body generalizing acc with
  | nil =>
    simp only [List.nil_append, unescGo, ↓reduceIte, List.append_nil]
    cases decodeEntity strict acc.reverse <;> rfl
  | cons b bs ih =>
    simp only [List.all_cons, Bool.and_eq_true, bne_iff_ne, ne_eq] at h
    simp only [List.cons_append, unescGo, h.1, ↓reduceIte]
    rw [ih _ h.2]
    simp

theorem plain_all_ne_semi {s : Str} (h : s.all plainChar = true) : s.all (· != ';') = true := by
  simp only [List.all_eq_true] at *
  intro c hc; have := h c hc
  simp only [plainChar, Bool.and_eq_true] at this
  exact this.1.1.1.1.1.1

/-- one escaped character reads back as itself -/
theorem unescGo_escapeChar (strict : Bool) (c : Char) (rest : Str)
    (h : isEscText c = true ∨ c = '>') (hx : strict = true → xmlChar c = true) :
    unescGo strict (escapeChar c ++ rest) none = (unescGo strict rest none).map (c :: ·) := by
  obtain ⟨h1, h2, h3⟩ := esc_char c h
  rw [escapeChar_eq]
  simp only [List.cons_append, List.append_assoc, unescGo, ↓reduceIte]
  rw [unescGo_body strict _ _ _ (plain_all_ne_semi h3)]
  cases strict with
  | false => simp [h1]
  | true => simp [h2 (hx rfl)]

theorem amp_isEscText : isEscText '&' = true := by decide

/-- `unescape ∘ _escape = id` on every string (text class) -/
theorem unescGo_escape (strict : Bool) (s : Str) (hx : strict = true → s.all xmlChar = true) :
    unescGo strict (escape isEscText s) none = some s := by
  induction s with
  | nil => simp [escape, unescGo]
  | cons c rest ih =>
    have hx' : strict = true → rest.all xmlChar = true := fun h => by
      have := hx h; simp only [List.all_cons, Bool.and_eq_true] at this; exact this.2
    have hc : strict = true → xmlChar c = true := fun h => by
      have := hx h; simp only [List.all_cons, Bool.and_eq_true] at this; exact this.1
    unfold escape
    split
    · rename_i hcls
      rw [unescGo_escapeChar strict c _ (Or.inl hcls) hc, ih hx']; rfl
    · rename_i hcls
      have hne : c ≠ '&' := by rintro rfl; exact hcls amp_isEscText
      simp only [unescGo, hne, ↓reduceIte, ih hx']; rfl

/-- characters of an escaped string: either an original character outside the class or plain -/
theorem mem_escape {cls : Char → Bool} (hcls : ∀ c, cls c = true → isEscText c = true ∨ c = '>')
    {s : Str} {x : Char} (hx : x ∈ escape cls s) :
    (x ∈ s ∧ cls x = false) ∨ x = '&' ∨ x = ';' ∨ plainChar x = true := by
  induction s with
  | nil => simp [escape] at hx
  | cons c rest ih =>
    unfold escape at hx
    split at hx
    · rename_i hc
      rcases List.mem_append.mp hx with h | h
      · rw [escapeChar_eq] at h
        simp only [List.mem_cons, List.mem_append, List.not_mem_nil, or_false] at h
        rcases h with h | h | h
        · exact Or.inr (Or.inl h)
        · have := (esc_char c (hcls c hc)).2.2
          exact Or.inr (Or.inr (Or.inr (List.all_eq_true.mp this x h)))
        · exact Or.inr (Or.inr (Or.inl h))
      · rcases ih h with ⟨h1, h2⟩ | h
        · exact Or.inl ⟨List.mem_cons_of_mem _ h1, h2⟩
        · exact Or.inr h
    · rename_i hc
      rcases List.mem_cons.mp hx with h | h
      · subst h; exact Or.inl ⟨List.mem_cons_self, by simpa using hc⟩
      · rcases ih h with ⟨h1, h2⟩ | h
        · exact Or.inl ⟨List.mem_cons_of_mem _ h1, h2⟩
        · exact Or.inr h

/-- an escaped value never contains `"`, `<` or a control character -/
theorem escape_text_safe (s : Str) : ∀ x ∈ escape isEscText s,
    x ≠ '"' ∧ x ≠ '<' ∧ isCtl x = false := by
  intro x hx
  rcases mem_escape (cls := isEscText) (fun c h => Or.inl h) hx with ⟨_, h⟩ | h | h | h
  · simp only [isEscText, isEscTextN, Bool.or_eq_false_iff] at h
    refine ⟨?_, ?_, ?_⟩
    · rintro rfl; simp at h
    · rintro rfl; simp at h
    · simpa [isCtl] using h.1.1.1
  · subst h; decide
  · subst h; decide
  · simp only [plainChar, Bool.and_eq_true, bne_iff_ne, ne_eq, Bool.not_eq_true'] at h
    exact ⟨h.1.1.1.1.1.2, h.1.1.1.1.2, h.1.1.2⟩

/-! ### `P_ESCAPE_CONTENT` (class plus the `>` of `]]>`) -/

theorem contentCls_eq : contentCls = isEscText := by funext c; rfl
theorem escapeContent_eq (s : Str) : escapeContent s = escapeC isEscText 0 s := by
  simp [escapeContent, contentCls_eq]

theorem gt_not_isEscText : isEscText '>' = false := by decide
theorem rbr_not_isEscText : isEscText ']' = false := by decide

/-- `unescape ∘ _escape(·, P_ESCAPE_CONTENT) = id` on every string, whatever precedes it -/
theorem unescGo_escapeC (strict : Bool) (s : Str) (hx : strict = true → s.all xmlChar = true) (nb : Nat) :
    unescGo strict (escapeC isEscText nb s) none = some s := by
  induction s generalizing nb with
  | nil => simp [escapeC, unescGo]
  | cons c rest ih =>
    have hx' : strict = true → rest.all xmlChar = true := fun h => by
      have := hx h; simp only [List.all_cons, Bool.and_eq_true] at this; exact this.2
    have hc : strict = true → xmlChar c = true := fun h => by
      have := hx h; simp only [List.all_cons, Bool.and_eq_true] at this; exact this.1
    unfold escapeC
    simp only
    split
    · rename_i hcls
      have hcls' : isEscText c = true ∨ c = '>' := by
        simp only [Bool.or_eq_true, Bool.and_eq_true, beq_iff_eq] at hcls
        rcases hcls with h | h
        · exact Or.inl h
        · exact Or.inr h.1
      rw [unescGo_escapeChar strict c _ hcls' hc, ih hx']; rfl
    · rename_i hcls
      have hne : c ≠ '&' := by
        rintro rfl; simp [amp_isEscText] at hcls
      simp only [unescGo, hne, ↓reduceIte, ih hx']; rfl

theorem mem_escapeC {s : Str} {x : Char} {nb : Nat} (hx : x ∈ escapeC isEscText nb s) :
    (x ∈ s ∧ isEscText x = false) ∨ x = '&' ∨ x = ';' ∨ plainChar x = true := by
  induction s generalizing nb with
  | nil => simp [escapeC] at hx
  | cons c rest ih =>
    unfold escapeC at hx
    simp only at hx
    split at hx
    · rename_i hc
      have hc' : isEscText c = true ∨ c = '>' := by
        simp only [Bool.or_eq_true, Bool.and_eq_true, beq_iff_eq] at hc
        rcases hc with h | h
        · exact Or.inl h
        · exact Or.inr h.1
      rcases List.mem_append.mp hx with h | h
      · rw [escapeChar_eq] at h
        simp only [List.mem_cons, List.mem_append, List.not_mem_nil, or_false] at h
        rcases h with h | h | h
        · exact Or.inr (Or.inl h)
        · have := (esc_char c hc').2.2
          exact Or.inr (Or.inr (Or.inr (List.all_eq_true.mp this x h)))
        · exact Or.inr (Or.inr (Or.inl h))
      · rcases ih h with ⟨h1, h2⟩ | h
        · exact Or.inl ⟨List.mem_cons_of_mem _ h1, h2⟩
        · exact Or.inr h
    · rename_i hc
      rcases List.mem_cons.mp hx with h | h
      · subst h
        refine Or.inl ⟨List.mem_cons_self, ?_⟩
        simp only [Bool.or_eq_true, not_or, Bool.not_eq_true] at hc
        exact hc.1
      · rcases ih h with ⟨h1, h2⟩ | h
        · exact Or.inl ⟨List.mem_cons_of_mem _ h1, h2⟩
        · exact Or.inr h

/-- written text never contains `"`, `<` or a control character -/
theorem escapeC_safe (s : Str) (nb : Nat) : ∀ x ∈ escapeC isEscText nb s,
    x ≠ '"' ∧ x ≠ '<' ∧ isCtl x = false := by
  intro x hx
  rcases mem_escapeC hx with ⟨_, h⟩ | h | h | h
  · simp only [isEscText, isEscTextN, Bool.or_eq_false_iff] at h
    refine ⟨?_, ?_, ?_⟩
    · rintro rfl; simp at h
    · rintro rfl; simp at h
    · simpa [isCtl] using h.1.1.1
  · subst h; decide
  · subst h; decide
  · simp only [plainChar, Bool.and_eq_true, bne_iff_ne, ne_eq, Bool.not_eq_true'] at h
    exact ⟨h.1.1.1.1.1.2, h.1.1.1.1.2, h.1.1.2⟩

/-! ### no `]]>` in written text -/

def startsRbGt : Str → Bool
  | ']' :: '>' :: _ => true
  | _ => false

theorem hasCdataEnd_cons (c : Char) (s : Str) :
    hasCdataEnd (c :: s) = ((c == ']' && startsRbGt s) || hasCdataEnd s) := by
  by_cases hc : c = ']'
  · subst hc
    match s with
    | [] => simp [hasCdataEnd, startsRbGt]
    | [d] => 
      by_cases hd : d = ']' <;> simp [hasCdataEnd, startsRbGt, hd]
    | d :: e :: r =>
      by_cases hd : d = ']'
      · by_cases he : e = '>'
        · subst hd he; simp [hasCdataEnd, startsRbGt]
        · subst hd
          rw [hasCdataEnd.eq_def]
          simp [startsRbGt, he]
      · rw [hasCdataEnd.eq_def]
        simp [startsRbGt, hd]
  · rw [hasCdataEnd.eq_def]
    simp [hc]

theorem startsRbGt_sep (a b : Str) {x : Char} (h1 : x ≠ ']') (h2 : x ≠ '>') :
    startsRbGt (a ++ x :: b) = startsRbGt a := by
  match a with
  | [] => simp [startsRbGt, h1]
  | [d] => 
    by_cases hd : d = ']'
    · subst hd; simp [startsRbGt, h2]
    · simp [startsRbGt, hd]
  | d :: e :: r => 
    by_cases hd : d = ']'
    · by_cases he : e = '>'
      · subst hd he; simp [startsRbGt]
      · subst hd; simp [startsRbGt, he]
    · simp [startsRbGt, hd]

theorem hasCdataEnd_sep (a b : Str) {x : Char} (h1 : x ≠ ']') (h2 : x ≠ '>') :
    hasCdataEnd (a ++ x :: b) = (hasCdataEnd a || hasCdataEnd b) := by
  induction a with
  | nil => 
    rw [List.nil_append, hasCdataEnd_cons]
    simp [h1, hasCdataEnd]
  | cons c rest ih =>
    rw [List.cons_append, hasCdataEnd_cons, hasCdataEnd_cons, ih, startsRbGt_sep _ _ h1 h2]
    simp [Bool.or_assoc]

theorem hasCdataEnd_cons_of_ne {x : Char} (s : Str) (h : x ≠ ']') :
    hasCdataEnd (x :: s) = hasCdataEnd s := by
  rw [hasCdataEnd_cons]; simp [h]

theorem hasCdataEnd_no_gt {s : Str} (h : '>' ∉ s) : hasCdataEnd s = false := by
  induction s with
  | nil => rfl
  | cons c rest ih =>
    have hr : '>' ∉ rest := fun hm => h (List.mem_cons_of_mem _ hm)
    rw [hasCdataEnd_cons, ih hr]
    match rest, hr with
    | [], _ => simp [startsRbGt]
    | [d], _ => by_cases hd : d = ']' <;> simp [startsRbGt, hd]
    | d :: e :: r, hr =>
      have : e ≠ '>' := fun he => hr (by simp [he])
      by_cases hd : d = ']' <;> simp [startsRbGt, hd, this]

theorem hasCdataEnd_replicate (n : Nat) : hasCdataEnd (List.replicate n ']') = false :=
  hasCdataEnd_no_gt (by simp [List.mem_replicate])

theorem plain_no_gt {s : Str} (h : s.all plainChar = true) : '>' ∉ s := by
  intro hm
  have := List.all_eq_true.mp h _ hm
  simp [plainChar] at this

/-- the invariant behind `escapeContent_no_cdata_end`: with `nb ≤ 2` closing brackets in front -/
theorem hasCdataEnd_escapeC (s : Str) (nb : Nat) (hnb : nb ≤ 2) :
    hasCdataEnd (List.replicate nb ']' ++ escapeC isEscText nb s) = false := by
  induction s generalizing nb with
  | nil => simp [escapeC, hasCdataEnd_replicate]
  | cons c rest ih =>
    unfold escapeC
    simp only
    split
    · rename_i hcls
      have hcls' : isEscText c = true ∨ c = '>' := by
        simp only [Bool.or_eq_true, Bool.and_eq_true, beq_iff_eq] at hcls
        rcases hcls with h | h
        · exact Or.inl h
        · exact Or.inr h.1
      have hcb : c ≠ ']' := by
        rcases hcls' with h | h
        · rintro rfl; simp [rbr_not_isEscText] at h
        · subst h; decide
      simp only [hcb, ↓reduceIte]
      have hb := (esc_char c hcls').2.2
      rw [escapeChar_eq]
      simp only [List.cons_append, List.append_assoc]
      rw [hasCdataEnd_sep _ _ (by decide) (by decide), hasCdataEnd_replicate,
        hasCdataEnd_sep _ _ (by decide) (by decide), hasCdataEnd_no_gt (plain_no_gt hb)]
      simpa using ih 0 (by omega)
    · rename_i hcls
      simp only [Bool.or_eq_true, Bool.and_eq_true, beq_iff_eq, not_or, not_and] at hcls
      by_cases hc : c = ']'
      · subst hc
        simp only [↓reduceIte]
        rcases Nat.lt_or_ge nb 2 with h | h
        · have : (List.replicate nb ']' ++ ']' :: escapeC isEscText (if nb = 0 then 1 else 2) rest)
              = List.replicate (if nb = 0 then 1 else 2) ']' ++ escapeC isEscText (if nb = 0 then 1 else 2) rest := by
            have : nb = 0 ∨ nb = 1 := by omega
            rcases this with rfl | rfl <;> simp [List.replicate]
          rw [this]; exact ih _ (by split <;> omega)
        · have : nb = 2 := by omega
          subst this
          have h3 := ih 2 (by omega)
          simp only [List.replicate, List.cons_append, List.nil_append] at h3 ⊢
          have e2 : (if (2 : Nat) = 0 then 1 else 2) = 2 := by decide
          rw [e2]
          rw [hasCdataEnd_cons, h3]
          simp [startsRbGt]
      · simp only [hc, ↓reduceIte]
        by_cases hg : c = '>'
        · subst hg
          have hnb2 : nb ≠ 2 := fun h => hcls.2 rfl h
          have h0 := ih 0 (by omega)
          simp only [List.replicate, List.nil_append] at h0
          have : nb = 0 ∨ nb = 1 := by omega
          rcases this with rfl | rfl
          · simp only [List.replicate, List.nil_append]
            rw [hasCdataEnd_cons_of_ne _ (by decide)]; exact h0
          · simp only [List.replicate, List.cons_append, List.nil_append]
            rw [hasCdataEnd_cons, hasCdataEnd_cons_of_ne _ (by decide), h0]
            simp [startsRbGt]
        · rw [hasCdataEnd_sep _ _ hc hg, hasCdataEnd_replicate]
          simpa using ih 0 (by omega)

end Capella.Xml
