import Capella.Model.XmlParse
/-! Lemmas about `_escape` and its inverse (property C01/C02). -/
namespace Capella.Xml

/-- body of the reference `_escape_char` writes for `c` -/
def refBody (c : Char) : Str :=
  if 32 ≤ c.toNat ∧ c.toNat ≤ 126 then (entityName c).getD ['?'] else '#' :: 'x' :: hexUpper c.toNat

theorem escapeChar_eq (c : Char) : escapeChar c = '&' :: (refBody c ++ [';']) := by
  unfold escapeChar refBody
  split <;> simp

/-- characters that may appear inside a reference body / are harmless inside a quoted value -/
def plainChar (c : Char) : Bool :=
  c != ';' && c != '"' && c != '<' && c != '&' && !isCtl c && c != '>'

/-- the finite part: every code point of the two escape classes (and `>`) is written as a reference
that decodes to itself and consists of plain characters only -/
theorem esc_table : ∀ n, n < 128 → (isEscTextN n || n == 62) = true →
    decodeEntity false (refBody (Char.ofNat n)) = some (Char.ofNat n) ∧
    (xmlCharN n = true → decodeEntity true (refBody (Char.ofNat n)) = some (Char.ofNat n)) ∧
    (refBody (Char.ofNat n)).all plainChar = true := by
  decide +kernel

theorem isEscTextN_lt {n : Nat} (h : isEscTextN n = true) : n < 128 := by
  simp [isEscTextN, isCtlN] at h; omega

theorem isEscCommentsN_lt {n : Nat} (h : isEscCommentsN n = true) : n < 128 := by
  simp [isEscCommentsN, isCtlN] at h; omega

theorem esc_char (c : Char) (h : isEscText c = true ∨ c = '>') :
    decodeEntity false (refBody c) = some c ∧
    (xmlChar c = true → decodeEntity true (refBody c) = some c) ∧
    (refBody c).all plainChar = true := by
  have hn : c.toNat < 128 ∧ (isEscTextN c.toNat || c.toNat == 62) = true := by
    rcases h with h | h
    · exact ⟨isEscTextN_lt h, by simp [isEscText] at h; simp [h]⟩
    · subst h; decide
  have := esc_table c.toNat hn.1 hn.2
  simpa [Char.ofNat_toNat, xmlChar] using this

/-- reading a reference body that contains no `;` -/
theorem unescGo_body (strict : Bool) (body rest acc : Str) (h : body.all (· != ';') = true) :
    unescGo strict (body ++ ';' :: rest) (some acc) =
      (decodeEntity strict (acc.reverse ++ body)).bind fun ch =>
        (unescGo strict rest none).map (ch :: ·) := by
  induction body generalizing acc with
  | nil =>
    simp only [List.nil_append, unescGo, ↓reduceIte, List.append_nil]
    cases decodeEntity strict acc.reverse <;> rfl
  | cons b bs ih =>
    simp only [List.all_cons, Bool.and_eq_true, bne_iff_ne, ne_eq] at h
    simp only [List.cons_append, unescGo, h.1, ↓reduceIte]
    rw [ih _ h.2]
    simp

theorem plain_all_ne_semi {s : Str} (h : s.all plainChar = true) : s.all (· != ';') = true := by
  simp only [List.all_eq_true] at *
  intro c hc; have := h c hc
  simp only [plainChar, Bool.and_eq_true] at this
  exact this.1.1.1.1.1

/-- one escaped character reads back as itself -/
theorem unescGo_escapeChar (strict : Bool) (c : Char) (rest : Str)
    (h : isEscText c = true ∨ c = '>') (hx : strict = true → xmlChar c = true) :
    unescGo strict (escapeChar c ++ rest) none = (unescGo strict rest none).map (c :: ·) := by
  obtain ⟨h1, h2, h3⟩ := esc_char c h
  rw [escapeChar_eq]
  simp only [List.cons_append, List.append_assoc, unescGo, ↓reduceIte]
  rw [unescGo_body strict _ _ _ (plain_all_ne_semi h3)]
  cases strict with
  | false => simp [h1]
  | true => simp [h2 (hx rfl)]

theorem amp_isEscText : isEscText '&' = true := by decide

/-- `unescape ∘ _escape = id` on every string (text class) -/
theorem unescGo_escape (strict : Bool) (s : Str) (hx : strict = true → s.all xmlChar = true) :
    unescGo strict (escape isEscText s) none = some s := by
  induction s with
  | nil => simp [escape, unescGo]
  | cons c rest ih =>
    have hx' : strict = true → rest.all xmlChar = true := fun h => by
      have := hx h; simp only [List.all_cons, Bool.and_eq_true] at this; exact this.2
    have hc : strict = true → xmlChar c = true := fun h => by
      have := hx h; simp only [List.all_cons, Bool.and_eq_true] at this; exact this.1
    unfold escape
    split
    · rename_i hcls
      rw [unescGo_escapeChar strict c _ (Or.inl hcls) hc, ih hx']; rfl
    · rename_i hcls
      have hne : c ≠ '&' := by rintro rfl; exact hcls amp_isEscText
      simp only [unescGo, hne, ↓reduceIte, ih hx']; rfl

/-- characters of an escaped string: either an original character outside the class or plain -/
theorem mem_escape {cls : Char → Bool} (hcls : ∀ c, cls c = true → isEscText c = true ∨ c = '>')
    {s : Str} {x : Char} (hx : x ∈ escape cls s) :
    (x ∈ s ∧ cls x = false) ∨ x = '&' ∨ x = ';' ∨ plainChar x = true := by
  induction s with
  | nil => simp [escape] at hx
  | cons c rest ih =>
    unfold escape at hx
    split at hx
    · rename_i hc
      rcases List.mem_append.mp hx with h | h
      · rw [escapeChar_eq] at h
        simp only [List.mem_cons, List.mem_append, List.not_mem_nil, or_false] at h
        rcases h with h | h | h
        · exact Or.inr (Or.inl h)
        · have := (esc_char c (hcls c hc)).2.2
          exact Or.inr (Or.inr (Or.inr (List.all_eq_true.mp this x h)))
        · exact Or.inr (Or.inr (Or.inl h))
      · rcases ih h with ⟨h1, h2⟩ | h
        · exact Or.inl ⟨List.mem_cons_of_mem _ h1, h2⟩
        · exact Or.inr h
    · rename_i hc
      rcases List.mem_cons.mp hx with h | h
      · subst h; exact Or.inl ⟨List.mem_cons_self, by simpa using hc⟩
      · rcases ih h with ⟨h1, h2⟩ | h
        · exact Or.inl ⟨List.mem_cons_of_mem _ h1, h2⟩
        · exact Or.inr h

/-- an escaped value never contains `"`, `<` or a control character -/
theorem escape_text_safe (s : Str) : ∀ x ∈ escape isEscText s,
    x ≠ '"' ∧ x ≠ '<' ∧ isCtl x = false := by
  intro x hx
  rcases mem_escape (cls := isEscText) (fun c h => Or.inl h) hx with ⟨_, h⟩ | h | h | h
  · simp only [isEscText, isEscTextN, Bool.or_eq_false_iff] at h
    refine ⟨?_, ?_, ?_⟩
    · rintro rfl; simp at h
    · rintro rfl; simp at h
    · simpa [isCtl] using h.1.1.1
  · subst h; decide
  · subst h; decide
  · simp only [plainChar, Bool.and_eq_true, bne_iff_ne, ne_eq, Bool.not_eq_true'] at h
    exact ⟨h.1.1.1.1.2, h.1.1.1.2, h.1.2⟩

end Capella.Xml
