import Capella.Model.Frag
namespace Capella.Frag

/-- the element that represents `t` wherever it ends up (in place, or as a fragment root) -/
def realNode (cut : Key → Bool) (t : Tree) : FNode :=
  .elem t.key (if cut t.key then rootTag t.xt else t.tag) t.xt (splitL cut t.kids).1

theorem splitT_fst (cut : Key → Bool) (t : Tree) :
    (splitT cut t).1 = if cut t.key then .href t.tag t.xt t.key else realNode cut t := by
  cases t with
  | node k tag xt kids =>
    simp only [splitT, Tree.key, Tree.tag, Tree.xt, realNode, Tree.kids]
    split <;> simp_all

theorem splitT_snd (cut : Key → Bool) (t : Tree) :
    (splitT cut t).2 = (if cut t.key then [realNode cut t] else []) ++ (splitL cut t.kids).2 := by
  cases t with
  | node k tag xt kids =>
    simp only [splitT, Tree.key, Tree.tag, Tree.xt, realNode, Tree.kids]
    split <;> simp_all

theorem splitL_cons (cut : Key → Bool) (t : Tree) (ts : List Tree) :
    splitL cut (t :: ts) = ((splitT cut t).1 :: (splitL cut ts).1, (splitT cut t).2 ++ (splitL cut ts).2) := by
  simp [splitL]

theorem elemsT_realNode (cut : Key → Bool) (t : Tree) :
    elemsT (realNode cut t) = realNode cut t :: elemsL (splitL cut t.kids).1 := by
  simp [realNode, elemsT]

/-- all elements of what `splitT` produces: those staying in the file plus those of the new files -/
def allT (cut : Key → Bool) (t : Tree) : List FNode :=
  elemsT (splitT cut t).1 ++ (splitT cut t).2.flatMap elemsT
def allL (cut : Key → Bool) (ts : List Tree) : List FNode :=
  elemsL (splitL cut ts).1 ++ (splitL cut ts).2.flatMap elemsT

theorem allT_perm (cut : Key → Bool) (t : Tree) :
    (allT cut t).Perm (realNode cut t :: allL cut t.kids) := by
  unfold allT allL
  rw [splitT_fst, splitT_snd]
  by_cases h : cut t.key
  · simp only [h, if_true, elemsT, List.nil_append, List.singleton_append, List.flatMap_cons,
      elemsT_realNode]
    simp
  · simp only [h, Bool.false_eq_true, if_false, List.nil_append]
    rw [elemsT_realNode]
    simp

theorem allL_cons_perm (cut : Key → Bool) (t : Tree) (ts : List Tree) :
    (allL cut (t :: ts)).Perm (allT cut t ++ allL cut ts) := by
  unfold allT allL
  rw [splitL_cons]
  simp only [elemsL, List.flatMap_append]
  -- (A ++ B) ++ (C ++ D) ~ (A ++ C) ++ (B ++ D)
  generalize elemsT (splitT cut t).1 = A
  generalize elemsL (splitL cut ts).1 = B
  generalize (splitT cut t).2.flatMap elemsT = C
  generalize (splitL cut ts).2.flatMap elemsT = D
  have e1 : (A ++ B) ++ (C ++ D) = A ++ ((B ++ C) ++ D) := by simp
  have e2 : (A ++ C) ++ (B ++ D) = A ++ ((C ++ B) ++ D) := by simp
  rw [e1, e2]
  exact List.Perm.append_left A (List.Perm.append_right D List.perm_append_comm)

mutual
theorem keys_allT (cut : Key → Bool) : (t : Tree) → ((allT cut t).map fkey).Perm (keysT t)
  | .node k tag xt kids => by
    have ih := keys_allL cut kids
    have h := (allT_perm cut (.node k tag xt kids)).map fkey
    refine h.trans ?_
    simp only [List.map_cons, realNode, fkey, Tree.key, keysT, Tree.kids]
    exact List.Perm.cons k ih
theorem keys_allL (cut : Key → Bool) : (ts : List Tree) → ((allL cut ts).map fkey).Perm (keysL ts)
  | [] => by simp [allL, splitL, elemsL, keysL]
  | t :: ts => by
    have h1 := keys_allT cut t
    have h2 := keys_allL cut ts
    have h := (allL_cons_perm cut t ts).map fkey
    refine h.trans ?_
    simp only [List.map_append, keysL]
    exact List.Perm.append h1 h2
end

/-! ### lookup -/

mutual
theorem findT_sound (k : Key) : (f : FNode) → ∀ n, findT k f = some n → n ∈ elemsT f ∧ fkey n = k
  | .elem k' tag xt kids => by
    intro n h
    simp only [findT] at h
    split at h
    · rename_i hk
      simp only [Option.some.injEq] at h
      subst h
      exact ⟨by simp [elemsT], by simp [fkey, hk]⟩
    · obtain ⟨h1, h2⟩ := findL_sound k kids n h
      exact ⟨by simp [elemsT, h1], h2⟩
  | .href _ _ _ => by intro n h; simp [findT] at h
theorem findL_sound (k : Key) : (fs : List FNode) → ∀ n, findL k fs = some n → n ∈ elemsL fs ∧ fkey n = k
  | [] => by intro n h; simp [findL] at h
  | f :: fs => by
    intro n h
    simp only [findL] at h
    split at h
    · rename_i r hr
      simp only [Option.some.injEq] at h
      subst h
      obtain ⟨h1, h2⟩ := findT_sound k f r hr
      exact ⟨by simp [elemsL, h1], h2⟩
    · obtain ⟨h1, h2⟩ := findL_sound k fs n h
      exact ⟨by simp [elemsL, h1], h2⟩
end

mutual
theorem findT_complete (k : Key) : (f : FNode) → k ∈ (elemsT f).map fkey → (findT k f).isSome = true
  | .elem k' tag xt kids => by
    intro h
    simp only [findT]
    split
    · rfl
    · rename_i hk
      simp only [elemsT, List.map_cons, fkey, List.mem_cons] at h
      rcases h with h | h
      · exact absurd h.symm hk
      · exact findL_complete k kids h
  | .href _ _ _ => by intro h; simp [elemsT] at h
theorem findL_complete (k : Key) : (fs : List FNode) → k ∈ (elemsL fs).map fkey → (findL k fs).isSome = true
  | [] => by intro h; simp [elemsL] at h
  | f :: fs => by
    intro h
    simp only [findL]
    split
    · rfl
    · rename_i hn
      simp only [elemsL, List.map_append, List.mem_append] at h
      rcases h with h | h
      · have := findT_complete k f h
        rw [hn] at this; simp at this
      · exact findL_complete k fs h
end

theorem findT_none_of_not_mem (k : Key) (f : FNode) (h : k ∉ (elemsT f).map fkey) : findT k f = none := by
  cases hf : findT k f with
  | none => rfl
  | some n =>
    obtain ⟨h1, h2⟩ := findT_sound k f n hf
    exact absurd (List.mem_map.mpr ⟨n, h1, h2⟩) h

theorem eq_of_nodup_map {α β : Type} (g : α → β) : ∀ (l : List α), (l.map g).Nodup →
    ∀ a ∈ l, ∀ b ∈ l, g a = g b → a = b := by
  intro l
  induction l with
  | nil => intro _ a ha; simp at ha
  | cons x xs ih =>
    intro hnd a ha b hb hg
    simp only [List.map_cons, List.nodup_cons] at hnd
    rcases List.mem_cons.mp ha with rfl | ha' <;> rcases List.mem_cons.mp hb with rfl | hb'
    · rfl
    · exact absurd (List.mem_map.mpr ⟨b, hb', hg.symm⟩) hnd.1
    · exact absurd (List.mem_map.mpr ⟨a, ha', hg⟩) hnd.1
    · exact ih hnd.2 a ha' b hb' hg

theorem findT_of_mem (f : FNode) (hnd : ((elemsT f).map fkey).Nodup) (n : FNode) (hn : n ∈ elemsT f) :
    findT (fkey n) f = some n := by
  have hc := findT_complete (fkey n) f (List.mem_map.mpr ⟨n, hn, rfl⟩)
  cases hf : findT (fkey n) f with
  | none => rw [hf] at hc; simp at hc
  | some m =>
    obtain ⟨h1, h2⟩ := findT_sound _ f m hf
    rw [eq_of_nodup_map fkey _ hnd m h1 n hn h2]

/-- key lists of the files of a store -/
def Store.keys (st : Store) : List Key := st.files.flatMap (fun f => (elemsT f).map fkey)

theorem filterMap_find_nil (k : Key) (fs : List FNode)
    (h : k ∉ fs.flatMap (fun f => (elemsT f).map fkey)) : fs.filterMap (findT k) = [] := by
  apply List.filterMap_eq_nil_iff.mpr
  intro g hg
  apply findT_none_of_not_mem
  intro hk
  exact h (List.mem_flatMap.mpr ⟨g, hg, hk⟩)

/-- `loader[id]` finds an element wherever it lives, provided ids are unique -/
theorem resolve_of_mem (st : Store) (hnd : st.keys.Nodup) (f : FNode) (hf : f ∈ st.files)
    (n : FNode) (hn : n ∈ elemsT f) : resolve st (fkey n) = some n := by
  obtain ⟨A, B, hAB⟩ := List.append_of_mem hf
  unfold Store.keys at hnd
  rw [hAB] at hnd
  simp only [List.flatMap_append, List.flatMap_cons] at hnd
  have hkf : fkey n ∈ (elemsT f).map fkey := List.mem_map.mpr ⟨n, hn, rfl⟩
  rw [List.nodup_append] at hnd
  obtain ⟨_, hfb, hdisjA⟩ := hnd
  rw [List.nodup_append] at hfb
  obtain ⟨hfn, _, hdisjB⟩ := hfb
  have hA : A.filterMap (findT (fkey n)) = [] := by
    apply filterMap_find_nil
    intro hk
    exact (hdisjA _ hk _ (List.mem_append_left _ hkf)) rfl
  have hB : B.filterMap (findT (fkey n)) = [] := by
    apply filterMap_find_nil
    intro hk
    exact (hdisjB _ hkf _ hk) rfl
  unfold resolve
  rw [hAB, List.filterMap_append, List.filterMap_cons, hA, hB, findT_of_mem f hfn n hn]
  rfl

/-! ### the store produced by `split` -/

def KeysNodup (t : Tree) : Prop := (keysT t).Nodup

/-- the root element of the main file -/
def rootNode (cut : Key → Bool) (t : Tree) : FNode := .elem t.key t.tag t.xt (splitL cut t.kids).1

theorem split_files (cut : Key → Bool) (t : Tree) :
    (split cut t).files = rootNode cut t :: (splitL cut t.kids).2 := by
  cases t; simp [split, Store.files, rootNode, Tree.key, Tree.tag, Tree.xt, Tree.kids]

theorem split_elems (cut : Key → Bool) (t : Tree) :
    (split cut t).elems = rootNode cut t :: allL cut t.kids := by
  simp [Store.elems, split_files, rootNode, elemsT, allL]

theorem store_keys_eq (st : Store) : st.keys = st.elems.map fkey := by
  simp [Store.keys, Store.elems, List.map_flatMap]

theorem split_keys_perm (cut : Key → Bool) (t : Tree) : ((split cut t).keys).Perm (keysT t) := by
  rw [store_keys_eq, split_elems]
  cases t with
  | node k tag xt kids =>
    simp only [List.map_cons, rootNode, fkey, Tree.key, Tree.kids, keysT]
    exact List.Perm.cons k (keys_allL cut kids)

theorem split_keys_nodup (cut : Key → Bool) (t : Tree) (h : KeysNodup t) : (split cut t).keys.Nodup :=
  (split_keys_perm cut t).nodup_iff.mpr h

mutual
theorem real_mem_allT (cut : Key → Bool) : (t : Tree) → ∀ c ∈ subT t, realNode cut c ∈ allT cut t
  | .node k tag xt kids => by
    intro c hc
    rw [(allT_perm cut _).mem_iff]
    simp only [subT, List.mem_cons] at hc
    rcases hc with rfl | hc
    · simp
    · exact List.mem_cons_of_mem _ (real_mem_allL cut kids c hc)
theorem real_mem_allL (cut : Key → Bool) : (ts : List Tree) → ∀ c ∈ subL ts, realNode cut c ∈ allL cut ts
  | [] => by intro c hc; simp [subL] at hc
  | t :: ts => by
    intro c hc
    rw [(allL_cons_perm cut t ts).mem_iff]
    simp only [subL, List.mem_append] at hc
    rcases hc with hc | hc
    · exact List.mem_append_left _ (real_mem_allT cut t c hc)
    · exact List.mem_append_right _ (real_mem_allL cut ts c hc)
end

theorem resolve_elem (st : Store) (hnd : st.keys.Nodup) (n : FNode) (hn : n ∈ st.elems) :
    resolve st (fkey n) = some n := by
  unfold Store.elems at hn
  obtain ⟨f, hf, hnf⟩ := List.mem_flatMap.mp hn
  exact resolve_of_mem st hnd f hf n hnf

/-- in the split store an id resolves to the element that represents the subtree -/
theorem resolve_proper (cut : Key → Bool) (t : Tree) (h : KeysNodup t) (c : Tree)
    (hc : c ∈ subL t.kids) : resolve (split cut t) c.key = some (realNode cut c) := by
  have hm : realNode cut c ∈ (split cut t).elems := by
    rw [split_elems]; exact List.mem_cons_of_mem _ (real_mem_allL cut _ c hc)
  have := resolve_elem _ (split_keys_nodup cut t h) _ hm
  simpa [realNode, fkey] using this

theorem resolve_root (cut : Key → Bool) (t : Tree) (h : KeysNodup t) :
    resolve (split cut t) t.key = some (rootNode cut t) := by
  have hm : rootNode cut t ∈ (split cut t).elems := by rw [split_elems]; simp
  have := resolve_elem _ (split_keys_nodup cut t h) _ hm
  simpa [rootNode, fkey] using this

theorem subT_self (t : Tree) : subT t = t :: subL t.kids := by
  cases t; simp [subT, Tree.kids]

/-- every node of `t` resolves to an element with the split children, the same key and type -/
theorem resolve_split (cut : Key → Bool) (t : Tree) (h : KeysNodup t) (c : Tree) (hc : c ∈ subT t) :
    ∃ n, resolve (split cut t) c.key = some n ∧ n.kids = (splitL cut c.kids).1 ∧
      (obsF n).2 = (c.key, c.xt) := by
  rw [subT_self] at hc
  rcases List.mem_cons.mp hc with rfl | hc
  · exact ⟨_, resolve_root cut c h, by simp [rootNode, FNode.kids], by simp [rootNode, obsF]⟩
  · exact ⟨_, resolve_proper cut t h c hc, by simp [realNode, FNode.kids], by simp [realNode, obsF]⟩

/-! ### downward navigation -/

theorem followHref_split (st : Store) (cut : Key → Bool) (d : Tree)
    (hr : resolve st d.key = some (realNode cut d)) :
    followHref st (splitT cut d).1 = some (realNode cut d) := by
  rw [splitT_fst]
  by_cases hc : cut d.key
  · simp [hc, followHref, hr]
  · simp only [hc, Bool.false_eq_true, if_false]
    simp [realNode, followHref]

theorem childrenXtL_split (st : Store) (cut : Key → Bool) (xts : List (Option Str)) :
    ∀ (ts : List Tree), (∀ d ∈ ts, resolve st d.key = some (realNode cut d)) →
    childrenXtL st xts (splitL cut ts).1 =
      some ((ts.filter (fun d => inSet xts d.xt)).map (realNode cut)) := by
  intro ts
  induction ts with
  | nil => intro _; simp [splitL, childrenXtL]
  | cons d ds ih =>
    intro hr
    rw [splitL_cons]
    simp only [childrenXtL, followHref_split st cut d (hr d (by simp)),
      ih (fun e he => hr e (by simp [he]))]
    have : (obsF (realNode cut d)).2.2 = d.xt := by simp [realNode, obsF]
    rw [this]
    by_cases hx : inSet xts d.xt <;> simp [hx]

mutual
theorem fuelT_pos : (t : Tree) → 0 < fuelT t
  | .node _ _ _ kids => by simp [fuelT]
theorem fuelL_pos : (ts : List Tree) → 0 < fuelL ts
  | [] => by simp [fuelL]
  | t :: ts => by simp [fuelL]
end

theorem descN_elem (st : Store) (f : Nat) (k : Key) (tag : Str) (xt : Option Str) (kids : List FNode) :
    descN st (f + 1) (.elem k tag xt kids) = (descL st f kids).map (fun r => (tag, k, xt) :: r) := by
  rw [descN]

theorem descN_href (st : Store) (f : Nat) (k : Key) (tag : Str) (xt : Option Str) (real : FNode)
    (h : resolve st k = some real) :
    descN st (f + 1) (.href tag xt k) =
      (descL st f real.kids).map (fun r => (tag, (obsF real).2.1, (obsF real).2.2) :: r) := by
  rw [descN, h]

theorem descL_nil (st : Store) (f : Nat) : descL st (f + 1) [] = some [] := by rw [descL]

theorem descL_cons (st : Store) (f : Nat) (n : FNode) (ns : List FNode) (a b : List Obs)
    (h1 : descN st f n = some a) (h2 : descL st f ns = some b) :
    descL st (f + 1) (n :: ns) = some (a ++ b) := by
  rw [descL, h1, h2]

mutual
theorem descN_split (st : Store) (cut : Key → Bool) : (d : Tree) →
    (∀ c ∈ subT d, resolve st c.key = some (realNode cut c)) → ∀ f, fuelT d ≤ f →
    descN st f (splitT cut d).1 = some (obsT d :: mdescT d)
  | .node k tag xt kids => by
    intro hr f hf
    have hself := hr (.node k tag xt kids) (by simp [subT])
    have hkids : ∀ c ∈ subL kids, resolve st c.key = some (realNode cut c) :=
      fun c hc => hr c (by simp [subT, hc])
    cases f with
    | zero => simp [fuelT] at hf
    | succ f =>
      have hf' : fuelL kids ≤ f := by simp only [fuelT] at hf; omega
      have ih := descL_split st cut kids hkids f hf'
      by_cases hc : cut k
      · have e : (splitT cut (.node k tag xt kids)).1 = .href tag xt k := by
          rw [splitT_fst]; simp [Tree.key, Tree.tag, Tree.xt, hc]
        simp only [Tree.key] at hself
        rw [e, descN_href st f k tag xt _ hself]
        simp [realNode, FNode.kids, obsF, Tree.kids, ih, obsT, mdescT, Tree.key, Tree.tag, Tree.xt]
      · have e : (splitT cut (.node k tag xt kids)).1 = .elem k tag xt (splitL cut kids).1 := by
          rw [splitT_fst]; simp [Tree.key, Tree.tag, Tree.xt, Tree.kids, hc, realNode]
        rw [e, descN_elem]
        simp [ih, obsT, mdescT, Tree.key, Tree.tag, Tree.xt]
theorem descL_split (st : Store) (cut : Key → Bool) : (ts : List Tree) →
    (∀ c ∈ subL ts, resolve st c.key = some (realNode cut c)) → ∀ f, fuelL ts ≤ f →
    descL st f (splitL cut ts).1 = some (mdescL ts)
  | [] => by
    intro _ f hf
    cases f with
    | zero => simp [fuelL] at hf
    | succ f => simp [splitL, descL_nil, mdescL]
  | t :: ts => by
    intro hr f hf
    cases f with
    | zero => simp [fuelL] at hf
    | succ f =>
      simp only [fuelL] at hf
      have h1 := descN_split st cut t (fun c hc => hr c (by simp [subL, hc])) f (by omega)
      have h2 := descL_split st cut ts (fun c hc => hr c (by simp [subL, hc])) f (by omega)
      rw [splitL_cons]
      simp only []
      rw [descL_cons st f _ _ _ _ h1 h2]
      simp [mdescL]
end

/-! ### upward navigation -/

mutual
/-- containment edges inside one file: parent → real child (`v = false`) or parent → placeholder
target (`v = true`) -/
def fedgesT (v : Bool) : FNode → List (Key × Key)
  | .elem p _ _ kids => (kids.filter (fun c => c.isHref == v)).map (fun c => (p, fkey c)) ++ fedgesL v kids
  | .href .. => []
def fedgesL (v : Bool) : List FNode → List (Key × Key)
  | [] => []
  | n :: ns => fedgesT v n ++ fedgesL v ns
end

theorem isChild_iff (v : Bool) (k : Key) (c : FNode) :
    isChild v k c = true ↔ (c.isHref == v) = true ∧ fkey c = k := by
  cases c <;> cases v <;> simp [isChild, FNode.isHref, fkey]

mutual
theorem parentT_sound (v : Bool) (k : Key) : (f : FNode) → ∀ p, parentT v k f = some p → (p, k) ∈ fedgesT v f
  | .elem q tag xt kids => by
    intro p h
    simp only [parentT] at h
    split at h
    · rename_i hany
      simp only [Option.some.injEq] at h
      subst h
      obtain ⟨c, hc, hch⟩ := List.any_eq_true.mp hany
      obtain ⟨h1, h2⟩ := (isChild_iff v k c).mp hch
      simp only [fedgesT, List.mem_append, List.mem_map, List.mem_filter]
      exact Or.inl ⟨c, ⟨hc, h1⟩, by rw [h2]⟩
    · have := parentL_sound v k kids p h
      simp [fedgesT, this]
  | .href _ _ _ => by intro p h; simp [parentT] at h
theorem parentL_sound (v : Bool) (k : Key) : (fs : List FNode) → ∀ p, parentL v k fs = some p → (p, k) ∈ fedgesL v fs
  | [] => by intro p h; simp [parentL] at h
  | f :: fs => by
    intro p h
    simp only [parentL] at h
    split at h
    · rename_i r hr
      simp only [Option.some.injEq] at h
      subst h
      simp [fedgesL, parentT_sound v k f r hr]
    · simp [fedgesL, parentL_sound v k fs p h]
end

mutual
theorem parentT_complete (v : Bool) (k : Key) : (f : FNode) → ∀ p, (p, k) ∈ fedgesT v f → (parentT v k f).isSome = true
  | .elem q tag xt kids => by
    intro p h
    simp only [parentT]
    split
    · rfl
    · rename_i hany
      simp only [fedgesT, List.mem_append, List.mem_map, List.mem_filter] at h
      rcases h with ⟨c, ⟨hc, h1⟩, h2⟩ | h
      · exfalso
        apply hany
        apply List.any_eq_true.mpr
        refine ⟨c, hc, (isChild_iff v k c).mpr ⟨h1, ?_⟩⟩
        simp only [Prod.mk.injEq] at h2
        exact h2.2
      · exact parentL_complete v k kids p h
  | .href _ _ _ => by intro p h; simp [fedgesT] at h
theorem parentL_complete (v : Bool) (k : Key) : (fs : List FNode) → ∀ p, (p, k) ∈ fedgesL v fs → (parentL v k fs).isSome = true
  | [] => by intro p h; simp [fedgesL] at h
  | f :: fs => by
    intro p h
    simp only [parentL]
    split
    · rfl
    · rename_i hn
      simp only [fedgesL, List.mem_append] at h
      rcases h with h | h
      · have := parentT_complete v k f p h
        rw [hn] at this; simp at this
      · exact parentL_complete v k fs p h
end

/-- edges of everything `splitT` produces -/
def fedgesAllT (v : Bool) (cut : Key → Bool) (t : Tree) : List (Key × Key) :=
  fedgesT v (splitT cut t).1 ++ (splitT cut t).2.flatMap (fedgesT v)
def fedgesAllL (v : Bool) (cut : Key → Bool) (ts : List Tree) : List (Key × Key) :=
  fedgesL v (splitL cut ts).1 ++ (splitL cut ts).2.flatMap (fedgesT v)

theorem kid_edges_mem (v : Bool) (cut : Key → Bool) (p k : Key) (ts : List Tree) :
    (p, k) ∈ ((splitL cut ts).1.filter (fun c => c.isHref == v)).map (fun c => (p, fkey c)) ↔
      (p, k) ∈ ts.map (fun c => (p, c.key)) ∧ cut k = v := by
  induction ts with
  | nil => simp [splitL]
  | cons d ds ih =>
    rw [splitL_cons]
    simp only [List.filter_cons, List.map_cons, List.mem_cons]
    have hh : ((splitT cut d).1.isHref == v) = (cut d.key == v) ∧ fkey (splitT cut d).1 = d.key := by
      rw [splitT_fst]
      by_cases hc : cut d.key <;> simp [hc, FNode.isHref, fkey, realNode]
    rw [hh.1]
    by_cases hv : (cut d.key == v) = true
    · simp only [hv, if_true, List.map_cons, List.mem_cons, hh.2, ih]
      constructor
      · rintro (h | h)
        · simp only [Prod.mk.injEq, true_and] at h
          subst h
          exact ⟨Or.inl rfl, by simpa using hv⟩
        · exact ⟨Or.inr h.1, h.2⟩
      · rintro ⟨h | h, h2⟩
        · exact Or.inl h
        · exact Or.inr ⟨h, h2⟩
    · simp only [hv, Bool.false_eq_true, if_false, ih]
      constructor
      · rintro ⟨h1, h2⟩; exact ⟨Or.inr h1, h2⟩
      · rintro ⟨h | h, h2⟩
        · simp only [Prod.mk.injEq, true_and] at h
          subst h
          exact absurd (by simpa using h2) hv
        · exact ⟨h, h2⟩

theorem fedgesAllT_mem_iff (v : Bool) (cut : Key → Bool) (t : Tree) (e : Key × Key) :
    e ∈ fedgesAllT v cut t ↔
      e ∈ ((splitL cut t.kids).1.filter (fun c => c.isHref == v)).map (fun c => (t.key, fkey c)) ∨
      e ∈ fedgesAllL v cut t.kids := by
  unfold fedgesAllT fedgesAllL
  rw [splitT_fst, splitT_snd]
  by_cases hc : cut t.key
  · simp only [hc, if_true, fedgesT, List.nil_append, List.singleton_append, List.flatMap_cons, realNode,
      List.mem_append]
    grind
  · simp only [hc, Bool.false_eq_true, if_false, List.nil_append, realNode, fedgesT, List.mem_append]
    grind

mutual
theorem fedgesAllT_iff (v : Bool) (cut : Key → Bool) : (t : Tree) → ∀ p k,
    (p, k) ∈ fedgesAllT v cut t ↔ (p, k) ∈ edgesT t ∧ cut k = v
  | .node k0 tag xt kids => by
    intro p k
    have ihk := fedgesAllL_iff v cut kids p k
    rw [fedgesAllT_mem_iff]
    simp only [Tree.key, Tree.kids, edgesT, List.mem_append]
    rw [ihk]
    constructor
    · rintro (h | h)
      · have hp : p = k0 := by
          obtain ⟨c, _, hc⟩ := List.mem_map.mp h
          simp only [Prod.mk.injEq] at hc
          exact hc.1.symm
        subst hp
        have := (kid_edges_mem v cut p k kids).mp h
        exact ⟨Or.inl this.1, this.2⟩
      · exact ⟨Or.inr h.1, h.2⟩
    · rintro ⟨h | h, h2⟩
      · have hp : p = k0 := by
          obtain ⟨c, _, hc⟩ := List.mem_map.mp h
          simp only [Prod.mk.injEq] at hc
          exact hc.1.symm
        subst hp
        exact Or.inl ((kid_edges_mem v cut p k kids).mpr ⟨h, h2⟩)
      · exact Or.inr ⟨h, h2⟩
theorem fedgesAllL_iff (v : Bool) (cut : Key → Bool) : (ts : List Tree) → ∀ p k,
    (p, k) ∈ fedgesAllL v cut ts ↔ (p, k) ∈ edgesL ts ∧ cut k = v
  | [] => by intro p k; simp [fedgesAllL, splitL, fedgesL, edgesL]
  | t :: ts => by
    intro p k
    have h1 := fedgesAllT_iff v cut t p k
    have h2 := fedgesAllL_iff v cut ts p k
    unfold fedgesAllT at h1
    unfold fedgesAllL at h2 ⊢
    rw [splitL_cons]
    simp only [fedgesL, List.flatMap_append, List.mem_append, edgesL] at h1 h2 ⊢
    grind
end

/-- the edges of the whole store -/
def Store.edges (v : Bool) (st : Store) : List (Key × Key) := st.files.flatMap (fedgesT v)

theorem split_edges_iff (v : Bool) (cut : Key → Bool) (t : Tree) (p k : Key) :
    (p, k) ∈ (split cut t).edges v ↔ (p, k) ∈ edgesT t ∧ cut k = v := by
  have h := fedgesAllL_iff v cut t.kids p k
  unfold fedgesAllL at h
  cases t with
  | node k0 tag xt kids =>
    simp only [Store.edges, split_files, rootNode, List.flatMap_cons, fedgesT, List.mem_append,
      Tree.key, Tree.kids, edgesT] at h ⊢
    constructor
    · rintro ((hm | hm) | hm)
      · have hp : p = k0 := by
          obtain ⟨c, _, hc⟩ := List.mem_map.mp hm
          simp only [Prod.mk.injEq] at hc
          exact hc.1.symm
        subst hp
        have := (kid_edges_mem v cut p k kids).mp hm
        exact ⟨Or.inl this.1, this.2⟩
      · have := h.mp (Or.inl hm); exact ⟨Or.inr this.1, this.2⟩
      · have := h.mp (Or.inr hm); exact ⟨Or.inr this.1, this.2⟩
    · rintro ⟨hm | hm, h2⟩
      · have hp : p = k0 := by
          obtain ⟨c, _, hc⟩ := List.mem_map.mp hm
          simp only [Prod.mk.injEq] at hc
          exact hc.1.symm
        subst hp
        exact Or.inl (Or.inl ((kid_edges_mem v cut p k kids).mpr ⟨hm, h2⟩))
      · rcases h.mpr ⟨hm, h2⟩ with h' | h'
        · exact Or.inl (Or.inr h')
        · exact Or.inr h'

mutual
theorem edges_snd_permT : (t : Tree) → ((edgesT t).map Prod.snd).Perm (keysL t.kids)
  | .node k tag xt kids => by
    have := edges_snd_permL kids
    simpa [edgesT, Tree.kids, List.map_append, Function.comp_def] using this
theorem edges_snd_permL : (ts : List Tree) → (ts.map Tree.key ++ (edgesL ts).map Prod.snd).Perm (keysL ts)
  | [] => by simp [edgesL, keysL]
  | t :: ts => by
    have h1 := edges_snd_permT t
    have h2 := edges_snd_permL ts
    have e : keysT t = t.key :: keysL t.kids := by cases t; simp [keysT, Tree.key, Tree.kids]
    simp only [List.map_cons, edgesL, List.map_append, keysL, e, List.cons_append]
    apply List.Perm.cons
    generalize ts.map Tree.key = A at *
    generalize (edgesT t).map Prod.snd = B at *
    generalize (edgesL ts).map Prod.snd = C at *
    have e1 : A ++ (B ++ C) = (A ++ B) ++ C := by simp
    have e2 : keysL t.kids ++ keysL ts = keysL t.kids ++ keysL ts := rfl
    rw [e1]
    refine (List.Perm.append_right C List.perm_append_comm).trans ?_
    rw [List.append_assoc]
    exact List.Perm.append h1 h2
end

theorem parent_unique (t : Tree) (h : KeysNodup t) (p p' k : Key)
    (h1 : (p, k) ∈ edgesT t) (h2 : (p', k) ∈ edgesT t) : p = p' := by
  have hnd : ((edgesT t).map Prod.snd).Nodup := by
    rw [(edges_snd_permT t).nodup_iff]
    unfold KeysNodup at h
    cases t with
    | node k0 tag xt kids =>
      simp only [keysT, List.nodup_cons] at h
      exact h.2
  have := eq_of_nodup_map Prod.snd _ hnd (p, k) h1 (p', k) h2 rfl
  simpa using congrArg Prod.fst this

theorem findSome_parent_sound (v : Bool) (st : Store) (k p : Key)
    (h : st.files.findSome? (parentT v k) = some p) : (p, k) ∈ st.edges v := by
  obtain ⟨f, hf, hp⟩ := List.exists_of_findSome?_eq_some h
  exact List.mem_flatMap.mpr ⟨f, hf, parentT_sound v k f p hp⟩

theorem findSome_parent_complete (v : Bool) (st : Store) (k p : Key) (h : (p, k) ∈ st.edges v) :
    ∃ p', st.files.findSome? (parentT v k) = some p' := by
  obtain ⟨f, hf, hp⟩ := List.mem_flatMap.mp h
  have := parentT_complete v k f p hp
  cases hs : st.files.findSome? (parentT v k) with
  | some p' => exact ⟨p', rfl⟩
  | none =>
    rw [List.findSome?_eq_none_iff] at hs
    rw [hs f hf] at this; simp at this

/-- one upward step on the split store is one containment edge of the monolithic tree -/
theorem fparent_split_iff (cut : Key → Bool) (t : Tree) (h : KeysNodup t) (k p : Key) :
    fparent (split cut t) k = some p ↔ (p, k) ∈ edgesT t := by
  constructor
  · intro hf
    unfold fparent at hf
    split at hf
    · rename_i q hq
      simp only [Option.some.injEq] at hf
      subst hf
      exact ((split_edges_iff false cut t q k).mp (findSome_parent_sound false _ k q hq)).1
    · exact ((split_edges_iff true cut t p k).mp (findSome_parent_sound true _ k p hf)).1
  · intro he
    unfold fparent
    by_cases hc : cut k = true
    · -- the element is a fragment root: no direct parent, found through the placeholder
      have hnone : (split cut t).files.findSome? (parentT false k) = none := by
        cases hs : (split cut t).files.findSome? (parentT false k) with
        | none => rfl
        | some q =>
          have := ((split_edges_iff false cut t q k).mp (findSome_parent_sound false _ k q hs)).2
          rw [hc] at this; simp at this
      obtain ⟨p', hp'⟩ := findSome_parent_complete true _ k p
        ((split_edges_iff true cut t p k).mpr ⟨he, hc⟩)
      have := ((split_edges_iff true cut t p' k).mp (findSome_parent_sound true _ k p' hp')).1
      rw [hnone, hp', parent_unique t h p' p k this he]
    · have hc' : cut k = false := by simpa using hc
      obtain ⟨p', hp'⟩ := findSome_parent_complete false _ k p
        ((split_edges_iff false cut t p k).mpr ⟨he, hc'⟩)
      have := ((split_edges_iff false cut t p' k).mp (findSome_parent_sound false _ k p' hp')).1
      rw [hp', parent_unique t h p' p k this he]

theorem fparent_split_eq (cut cut' : Key → Bool) (t : Tree) (h : KeysNodup t) (k : Key) :
    fparent (split cut t) k = fparent (split cut' t) k := by
  cases h1 : fparent (split cut t) k with
  | some p =>
    exact ((fparent_split_iff cut' t h k p).mpr ((fparent_split_iff cut t h k p).mp h1)).symm
  | none =>
    cases h2 : fparent (split cut' t) k with
    | none => rfl
    | some p =>
      have := (fparent_split_iff cut t h k p).mpr ((fparent_split_iff cut' t h k p).mp h2)
      rw [h1] at this; simp at this

theorem ancestors_split_eq (cut cut' : Key → Bool) (t : Tree) (h : KeysNodup t) (f : Nat) (k : Key) :
    ancestors (split cut t) f k = ancestors (split cut' t) f k := by
  induction f generalizing k with
  | zero => rfl
  | succ f ih =>
    simp only [ancestors, fparent_split_eq cut cut' t h k]
    cases fparent (split cut' t) k with
    | none => rfl
    | some p => simp [ih p]

/-! ### statements per node of the tree -/

mutual
theorem fuel_le_T : (t : Tree) → ∀ c ∈ subT t, fuelT c ≤ fuelT t
  | .node k tag xt kids => by
    intro c hc
    simp only [subT, List.mem_cons] at hc
    rcases hc with rfl | hc
    · exact Nat.le_refl _
    · have := fuel_le_L kids c hc
      simp only [fuelT]; omega
theorem fuel_le_L : (ts : List Tree) → ∀ c ∈ subL ts, fuelT c ≤ fuelL ts
  | [] => by intro c hc; simp [subL] at hc
  | t :: ts => by
    intro c hc
    simp only [subL, List.mem_append] at hc
    simp only [fuelL]
    rcases hc with hc | hc
    · have := fuel_le_T t c hc; omega
    · have := fuel_le_L ts c hc; omega
end

mutual
theorem sub_kids_T : (t : Tree) → ∀ c ∈ subT t, ∀ d ∈ subL c.kids, d ∈ subL t.kids
  | .node k tag xt kids => by
    intro c hc d hd
    simp only [subT, List.mem_cons] at hc
    rcases hc with rfl | hc
    · exact hd
    · exact sub_kids_L kids c hc d hd
theorem sub_kids_L : (ts : List Tree) → ∀ c ∈ subL ts, ∀ d ∈ subL c.kids, d ∈ subL ts
  | [] => by intro c hc; simp [subL] at hc
  | t :: ts => by
    intro c hc d hd
    simp only [subL, List.mem_append] at hc ⊢
    rcases hc with hc | hc
    · left
      rw [subT_self]
      exact List.mem_cons_of_mem _ (sub_kids_T t c hc d hd)
    · right; exact sub_kids_L ts c hc d hd
end

theorem mem_subL_of_mem (ts : List Tree) (d : Tree) (h : d ∈ ts) : d ∈ subL ts := by
  induction ts with
  | nil => simp at h
  | cons t ts ih =>
    simp only [subL, List.mem_append]
    rcases List.mem_cons.mp h with rfl | h
    · left; rw [subT_self]; simp
    · right; exact ih h

/-- `iterchildren_xt` on the split store: the children of the monolithic node, whatever is cut -/
theorem childrenXt_split (cut : Key → Bool) (t : Tree) (h : KeysNodup t) (xts : List (Option Str))
    (c : Tree) (hc : c ∈ subT t) :
    childrenXt (split cut t) xts c.key =
      some ((c.kids.filter (fun d => inSet xts d.xt)).map (fun d => (d.key, d.xt))) := by
  obtain ⟨n, hn, hk, _⟩ := resolve_split cut t h c hc
  have hr : ∀ d ∈ c.kids, resolve (split cut t) d.key = some (realNode cut d) := fun d hd =>
    resolve_proper cut t h d (sub_kids_T t c hc d (mem_subL_of_mem _ d hd))
  unfold childrenXt
  rw [hn]
  simp only [hk, childrenXtL_split _ cut xts c.kids hr, Option.map_some, List.map_map]
  congr 1

/-- `iterdescendants` on the split store: the descendants of the monolithic node in document order -/
theorem descendants_split (cut : Key → Bool) (t : Tree) (h : KeysNodup t) (tags : List Str)
    (c : Tree) (hc : c ∈ subT t) (f : Nat) (hf : fuelT t ≤ f) :
    descendants (split cut t) f tags c.key = some ((mdescL c.kids).filter (fun o => inSet tags o.1)) := by
  obtain ⟨n, hn, hk, _⟩ := resolve_split cut t h c hc
  have hr : ∀ d ∈ subL c.kids, resolve (split cut t) d.key = some (realNode cut d) := fun d hd =>
    resolve_proper cut t h d (sub_kids_T t c hc d hd)
  have hfuel : fuelL c.kids ≤ f := by
    have := fuel_le_T t c hc
    cases c with
    | node k tag xt kids => simp only [fuelT, Tree.kids] at this ⊢; omega
  unfold descendants
  rw [hn]
  simp only [hk, descL_split _ cut c.kids hr f hfuel, Option.map_some]

/-! ### search below -/

def kx (e : FNode) : Key × Option Str := (fkey e, (obsF e).2.2)

mutual
theorem kx_allT (cut : Key → Bool) : (t : Tree) →
    ((allT cut t).map kx).Perm ((subT t).map (fun c => (c.key, c.xt)))
  | .node k tag xt kids => by
    have ih := kx_allL cut kids
    have h := (allT_perm cut (.node k tag xt kids)).map kx
    refine h.trans ?_
    simp only [List.map_cons, realNode, kx, fkey, obsF, Tree.key, Tree.xt, subT, Tree.kids]
    exact List.Perm.cons _ ih
theorem kx_allL (cut : Key → Bool) : (ts : List Tree) →
    ((allL cut ts).map kx).Perm ((subL ts).map (fun c => (c.key, c.xt)))
  | [] => by simp [allL, splitL, elemsL, subL]
  | t :: ts => by
    have h1 := kx_allT cut t
    have h2 := kx_allL cut ts
    have h := (allL_cons_perm cut t ts).map kx
    refine h.trans ?_
    simp only [List.map_append, subL]
    exact List.Perm.append h1 h2
end

theorem kx_split (cut : Key → Bool) (t : Tree) :
    ((split cut t).elems.map kx).Perm ((subT t).map (fun c => (c.key, c.xt))) := by
  rw [split_elems, subT_self]
  simp only [List.map_cons, rootNode, kx, fkey, obsF]
  exact List.Perm.cons _ (kx_allL cut t.kids)

theorem searchBelow_eq (st : Store) (f : Nat) (xts : List (Option Str)) (b : Key) :
    searchBelow st f xts b =
      ((st.elems.map kx).filter (fun p => inSet xts p.2 && (ancestors st f p.1).contains b)).map Prod.fst := by
  unfold searchBelow
  rw [List.filter_map, List.map_map]
  rfl

/-- `search(below=…)` finds the same elements in any two layouts of the same tree -/
theorem searchBelow_split_perm (cut cut' : Key → Bool) (t : Tree) (h : KeysNodup t) (f : Nat)
    (xts : List (Option Str)) (b : Key) :
    (searchBelow (split cut t) f xts b).Perm (searchBelow (split cut' t) f xts b) := by
  rw [searchBelow_eq, searchBelow_eq]
  have hfun : (fun p : Key × Option Str => inSet xts p.2 && (ancestors (split cut t) f p.1).contains b) =
      (fun p => inSet xts p.2 && (ancestors (split cut' t) f p.1).contains b) := by
    funext p
    rw [ancestors_split_eq cut cut' t h f p.1]
  rw [hfun]
  apply List.Perm.map
  apply List.Perm.filter
  exact (kx_split cut t).trans (kx_split cut' t).symm

/-! ### raw children (no placeholder following) -/

theorem rawKids_split (cut : Key → Bool) (ts : List Tree) :
    ((splitL cut ts).1.filter (fun c => !c.isHref)).map fkey =
      (ts.filter (fun d => !cut d.key)).map Tree.key := by
  induction ts with
  | nil => simp [splitL]
  | cons d ds ih =>
    rw [splitL_cons]
    simp only [List.filter_cons]
    rw [splitT_fst]
    have e1 : (FNode.href d.tag d.xt d.key).isHref = true := rfl
    have e2 : (realNode cut d).isHref = false := rfl
    by_cases hc : cut d.key
    · simp only [hc, if_true, e1, Bool.not_true, Bool.false_eq_true, if_false, ih]
    · simp only [hc, Bool.false_eq_true, if_false, e2, Bool.not_false, if_true, List.map_cons, ih]
      simp [realNode, fkey]

theorem rawChildren_split (cut : Key → Bool) (t : Tree) (h : KeysNodup t) (c : Tree) (hc : c ∈ subT t) :
    rawChildren (split cut t) c.key = some ((c.kids.filter (fun d => !cut d.key)).map Tree.key) := by
  obtain ⟨n, hn, hk, _⟩ := resolve_split cut t h c hc
  unfold rawChildren
  rw [hn]
  simp only [Option.map_some, hk, rawKids_split]

/-! ### which file owns an element -/

mutual
theorem own_fst_T (cut : Key → Bool) : (t : Tree) → ∀ cur, (ownT cut cur t).map Prod.fst = keysT t
  | .node k tag xt kids => by
    intro cur
    simp [ownT, keysT, own_fst_L cut kids]
theorem own_fst_L (cut : Key → Bool) : (ts : List Tree) → ∀ cur, (ownL cut cur ts).map Prod.fst = keysL ts
  | [] => by intro cur; simp [ownL, keysL]
  | t :: ts => by
    intro cur
    simp [ownL, keysL, own_fst_T cut t, own_fst_L cut ts]
end

theorem owners_fst (cut : Key → Bool) (t : Tree) : (owners cut t).map Prod.fst = keysT t := by
  cases t with
  | node k tag xt kids => simp [owners, keysT, Tree.key, Tree.kids, own_fst_L]

mutual
theorem own_mem_T (cut : Key → Bool) : (t : Tree) → ∀ cur,
    (∀ n ∈ elemsT (splitT cut t).1, (fkey n, cur) ∈ ownT cut cur t) ∧
    (∀ g ∈ (splitT cut t).2, ∀ n ∈ elemsT g, (fkey n, fkey g) ∈ ownT cut cur t)
  | .node k tag xt kids => by
    intro cur
    have ihL := own_mem_L cut kids
    rw [splitT_fst, splitT_snd]
    by_cases hc : cut k
    · obtain ⟨i1, i2⟩ := ihL k
      simp only [Tree.key, hc, if_true, elemsT, List.not_mem_nil, false_imp_iff, implies_true, true_and,
        List.singleton_append, List.mem_cons, ownT, Tree.kids]
      intro g hg n hn
      rcases hg with rfl | hg
      · simp only [realNode, Tree.key, elemsT, List.mem_cons, Tree.kids, fkey] at hn ⊢
        rcases hn with rfl | hn
        · simp
        · right; exact i1 n hn
      · right; exact i2 g hg n hn
    · obtain ⟨i1, i2⟩ := ihL cur
      simp only [Tree.key, hc, Bool.false_eq_true, if_false, List.nil_append, ownT, Tree.kids, List.mem_cons]
      constructor
      · intro n hn
        simp only [realNode, Tree.key, elemsT, List.mem_cons, Tree.kids] at hn
        rcases hn with rfl | hn
        · simp [fkey]
        · right; exact i1 n hn
      · intro g hg n hn
        right; exact i2 g hg n hn
theorem own_mem_L (cut : Key → Bool) : (ts : List Tree) → ∀ cur,
    (∀ n ∈ elemsL (splitL cut ts).1, (fkey n, cur) ∈ ownL cut cur ts) ∧
    (∀ g ∈ (splitL cut ts).2, ∀ n ∈ elemsT g, (fkey n, fkey g) ∈ ownL cut cur ts)
  | [] => by intro cur; simp [splitL, elemsL]
  | t :: ts => by
    intro cur
    obtain ⟨a1, a2⟩ := own_mem_T cut t cur
    obtain ⟨b1, b2⟩ := own_mem_L cut ts cur
    rw [splitL_cons]
    simp only [elemsL, List.mem_append, ownL]
    constructor
    · rintro n (hn | hn)
      · left; exact a1 n hn
      · right; exact b1 n hn
    · rintro g (hg | hg) n hn
      · left; exact a2 g hg n hn
      · right; exact b2 g hg n hn
end

theorem owners_mem (cut : Key → Bool) (t : Tree) :
    ∀ g ∈ (split cut t).files, ∀ n ∈ elemsT g, (fkey n, fkey g) ∈ owners cut t := by
  intro g hg n hn
  obtain ⟨i1, i2⟩ := own_mem_L cut t.kids t.key
  rw [split_files] at hg
  simp only [owners, List.mem_cons]
  rcases List.mem_cons.mp hg with rfl | hg
  · simp only [rootNode, elemsT, List.mem_cons] at hn
    rcases hn with rfl | hn
    · left; simp [fkey, rootNode]
    · right; simpa [rootNode, fkey] using i1 n hn
  · right; exact i2 g hg n hn

/-- `find_fragment` answers the file that owns the element -/
theorem fileOf_split (cut : Key → Bool) (t : Tree) (h : KeysNodup t) (k o : Key)
    (ho : (k, o) ∈ owners cut t) : fileOf (split cut t) k = some o := by
  have hk : k ∈ keysT t := by
    rw [← owners_fst cut t]; exact List.mem_map.mpr ⟨(k, o), ho, rfl⟩
  have hk' : k ∈ (split cut t).keys := (split_keys_perm cut t).mem_iff.mpr hk
  obtain ⟨g, hg, hkg⟩ := List.mem_flatMap.mp hk'
  have hsome := findT_complete k g hkg
  unfold fileOf
  cases hf : (split cut t).files.find? (fun f => (findT k f).isSome) with
  | none =>
    rw [List.find?_eq_none] at hf
    exact absurd hsome (hf g hg)
  | some g' =>
    have hp := List.find?_some hf
    have hm := List.mem_of_find?_eq_some hf
    cases hn : findT k g' with
    | none => rw [hn] at hp; simp at hp
    | some n =>
      obtain ⟨h1, h2⟩ := findT_sound k g' n hn
      have := owners_mem cut t g' hm n h1
      rw [h2] at this
      have hnd : ((owners cut t).map Prod.fst).Nodup := by rw [owners_fst]; exact h
      have e := eq_of_nodup_map Prod.fst _ hnd (k, fkey g') this (k, o) ho rfl
      simp only [Option.map_some, Option.some.injEq]
      exact congrArg Prod.snd e

end Capella.Frag
